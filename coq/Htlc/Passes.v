(** * HTLC: the checker passes on the model's own observations

    [check_case_C03] / [check_case_C04] fed, step by step, observations that are the projection of
    the MODEL's state answer (-1, -1, 0): the correspondence holds and no clause of the monitors
    [p03] / [p04] fails.  This connects the invariant of [Proofs.v] with the decidable predicates
    that are evaluated on the implementation's observations. *)
From Irismod Require Import Htlc.Model Htlc.Check Htlc.Proofs Htlc.Sound.
From Coq Require Import Lia.

(** ** Part A: lists, rows, matrices *)
Lemma zseq_length n : length (zseq n) = n.
Proof. unfold zseq. rewrite map_length, seq_length. reflexivity. Qed.

Lemma nth_error_zseq n i : (i < n)%nat -> nth_error (zseq n) i = Some (Z.of_nat i).
Proof.
  intros H. unfold zseq. rewrite nth_error_map, nth_error_nth' with (d := O) by (rewrite seq_length; exact H).
  rewrite seq_nth by exact H. reflexivity.
Qed.

Lemma In_zseq n d : In d (zseq n) <-> 0 <= d < Z.of_nat n.
Proof.
  unfold zseq. rewrite in_map_iff. split.
  - intros (i & <- & Hi). apply in_seq in Hi. lia.
  - intros H. exists (Z.to_nat d). split; [lia|]. apply in_seq. lia.
Qed.

Lemma NoDup_zseq n : NoDup (zseq n).
Proof.
  unfold zseq. generalize (seq_NoDup n 0). generalize (seq 0 n). induction l as [|a l IH]; simpl; intros H; [constructor|].
  inversion H as [|? ? Hni Hnd]; subst. constructor; [|auto].
  rewrite in_map_iff. intros (b & Hb & Hin). assert (b = a) by lia. subst. contradiction.
Qed.

Lemma replace_at_map {A B} (g : A -> B) : forall l i x, replace_at i (g x) (map g l) = map g (replace_at i x l).
Proof. induction l as [|y l IH]; intros [|i] x; simpl; try reflexivity. rewrite IH. reflexivity. Qed.

(** a row [map g ds] over pairwise distinct denoms *)
Lemma add_at_row (g : Z -> Z) x : forall (ds : list Z) i d0, NoDup ds -> nth_error ds i = Some d0 ->
  add_at i x (map g ds) = map (fun d => g d + (if d =? d0 then x else 0)) ds.
Proof.
  induction ds as [|d ds IH]; intros [|i] d0 Hnd Hn; simpl in *; try discriminate.
  - inversion Hn; subst. rewrite Z.eqb_refl. f_equal. inversion Hnd as [|? ? Hni _]; subst.
    apply map_ext_in. intros d Hd. destruct (Z.eqb_spec d d0) as [->|]; [contradiction|lia].
  - inversion Hnd as [|? ? Hni Hnd']; subst. rewrite (IH i d0 Hnd' Hn).
    destruct (Z.eqb_spec d d0) as [->|]; [|f_equal; lia].
    exfalso. apply Hni. exact (nth_error_In _ _ Hn).
Qed.

Lemma add_at_row_out (g : Z -> Z) x : forall (ds : list Z) i, nth_error ds i = None -> add_at i x (map g ds) = map g ds.
Proof. induction ds as [|d ds IH]; intros [|i] Hn; simpl in *; try discriminate; try reflexivity. rewrite IH by exact Hn. reflexivity. Qed.

(** amounts per denom, for coins whose denoms are not negative *)
Definition denoms_nonneg (cs : coins) : Prop := Forall (fun c : denom * Z => 0 <= fst c) cs.

Lemma add_coins_row_zseq sign nd : forall (cs : coins) (g : Z -> Z), denoms_nonneg cs ->
  add_coins_row sign cs (map g (zseq nd)) = map (fun d => g d + sign * amt_of cs d) (zseq nd).
Proof.
  unfold add_coins_row. induction cs as [|[d0 x] cs IH]; intros g Hnn; simpl.
  - apply map_ext. intros d. lia.
  - inversion Hnn as [|? ? H0 Hnn']; subst. simpl in H0.
    destruct (nth_error (zseq nd) (Z.to_nat d0)) as [d1|] eqn:Hn.
    + assert (Hlt : (Z.to_nat d0 < nd)%nat) by (rewrite <- (zseq_length nd); apply nth_error_Some; congruence).
      rewrite (nth_error_zseq nd _ Hlt) in Hn. inversion Hn; subst d1.
      rewrite (add_at_row g (sign * x) (zseq nd) _ _ (NoDup_zseq nd) (nth_error_zseq nd _ Hlt)).
      rewrite (IH (fun d => g d + (if d =? Z.of_nat (Z.to_nat d0) then sign * x else 0)) Hnn').
      apply map_ext. intros d. rewrite Z2Nat.id by exact H0.
      rewrite (Z.eqb_sym d d0). destruct (d0 =? d); lia.
    + rewrite (add_at_row_out g _ _ _ Hn). rewrite (IH g Hnn').
      apply map_ext_in. intros d Hd. apply In_zseq in Hd.
      apply nth_error_None in Hn. rewrite zseq_length in Hn.
      destruct (Z.eqb_spec d0 d) as [->|]; [lia|lia].
Qed.

(** the balance sheet of the accounts [accs] over [nd] denoms *)
Definition mat (accs : list Z) (nd : nat) (f : Z -> Z -> Z) : list (list Z) :=
  map (fun a => map (fun d => f a d) (zseq nd)) accs.

Lemma map_at_map {A B} (r : A -> B) (h : B -> B) (eqb' : A -> A -> bool) :
  (forall x y, eqb' x y = true <-> x = y) ->
  forall (l : list A) i a0, NoDup l -> nth_error l i = Some a0 ->
  map_at i h (map r l) = map (fun a => if eqb' a a0 then h (r a) else r a) l.
Proof.
  intros Heq. induction l as [|a l IH]; intros [|i] a0 Hnd Hn; simpl in *; try discriminate.
  - inversion Hn; subst. replace (eqb' a0 a0) with true by (symmetry; apply Heq; reflexivity). f_equal.
    inversion Hnd as [|? ? Hni _]; subst. apply map_ext_in. intros a Ha.
    destruct (eqb' a a0) eqn:E; [apply Heq in E; subst; contradiction|reflexivity].
  - inversion Hnd as [|? ? Hni Hnd']; subst. rewrite (IH i a0 Hnd' Hn).
    destruct (eqb' a a0) eqn:E; [|reflexivity]. apply Heq in E. subst. exfalso. apply Hni. exact (nth_error_In _ _ Hn).
Qed.

Lemma mat_ext accs nd f g : (forall a d, In a accs -> 0 <= d < Z.of_nat nd -> f a d = g a d) -> mat accs nd f = mat accs nd g.
Proof.
  intros H. unfold mat. apply map_ext_in. intros a Ha. apply map_ext_in. intros d Hd. apply In_zseq in Hd. auto.
Qed.

(** the accounts of a case: actors [0 .. n), then ESC, then BLK *)
Definition nact_ok (k : case) : Prop := 0 <= k_nactors k <= 100.
Definition party_ok (k : case) (a : Z) : Prop := 0 <= a < k_nactors k \/ a = ESC.

Lemma NoDup_app_simple {A} (l1 l2 : list A) : NoDup l1 -> NoDup l2 -> (forall x, In x l1 -> ~ In x l2) -> NoDup (l1 ++ l2).
Proof.
  induction l1 as [|a l1 IH]; simpl; intros H1 H2 H; [exact H2|].
  inversion H1 as [|? ? Hni Hnd]; subst. constructor.
  - rewrite in_app_iff. intros [Hi|Hi]; [contradiction|]. exact (H a (or_introl eq_refl) Hi).
  - apply IH; auto.
Qed.

Lemma accounts_NoDup k : nact_ok k -> NoDup (accounts k).
Proof.
  intros [H0 H1]. unfold accounts. apply NoDup_app_simple; [apply NoDup_zseq| |].
  - constructor; [simpl; intros [E|[]]; discriminate|constructor; [simpl; tauto|constructor]].
  - intros x Hx. apply In_zseq in Hx. rewrite Z2Nat.id in Hx by exact H0. unfold ESC, BLK. simpl. lia.
Qed.

Lemma accounts_nth k a : nact_ok k -> party_ok k a -> nth_error (accounts k) (Z.to_nat (row_index k a)) = Some a.
Proof.
  intros [H0 H1] [Ha| ->]; unfold accounts, row_index.
  - replace (a =? ESC) with false by (symmetry; apply Z.eqb_neq; unfold ESC; lia).
    replace (a =? BLK) with false by (symmetry; apply Z.eqb_neq; unfold BLK; lia).
    rewrite nth_error_app1 by (rewrite zseq_length; lia). rewrite nth_error_zseq by lia. f_equal. lia.
  - rewrite Z.eqb_refl. rewrite nth_error_app2 by (rewrite zseq_length; lia). rewrite zseq_length, Nat.sub_diag. reflexivity.
Qed.

Lemma In_accounts_ESC k : In ESC (accounts k).
Proof. unfold accounts. apply in_or_app. right. left. reflexivity. Qed.

Lemma move_mat k nd f a sign cs : nact_ok k -> party_ok k a -> denoms_nonneg cs ->
  move k a sign cs (mat (accounts k) nd f)
  = mat (accounts k) nd (fun a' d => f a' d + (if a' =? a then sign * amt_of cs d else 0)).
Proof.
  intros Hn Ha Hcs. unfold move, mat.
  rewrite (map_at_map _ _ Z.eqb Z.eqb_eq (accounts k) _ a (accounts_NoDup k Hn) (accounts_nth k a Hn Ha)).
  apply map_ext. intros a'. destruct (a' =? a).
  - rewrite add_coins_row_zseq by exact Hcs. reflexivity.
  - apply map_ext. intros d. lia.
Qed.

(** the coin movements one observed transition of one contract stands for *)
Definition delta_evs (id : cid) (p c : option cobs) : list event :=
  match p, c with
  | None, Some c' => if locks c' then [EvLock id (id_sender id) (id_amount id)] else []
  | Some p', Some c' =>
      if (c_state_of p' =? 0) && (c_state_of c' =? 1) then
        if c_tr_of c' =? 0 then [EvOut id (id_to id) (id_amount id)]
        else if c_dir_of c' =? 1 then [EvOut id (id_to id) (id_amount id); EvMint id (id_amount id)]
        else [EvBurn id (id_amount id)]
      else if (c_state_of p' =? 0) && (c_state_of c' =? 2) then
        if locks c' then [EvOut id (id_sender id) (id_amount id)] else []
      else []
  | _, _ => []
  end.

Definition id_ok (k : case) (id : cid) : Prop :=
  party_ok k (id_sender id) /\ party_ok k (id_to id) /\ denoms_nonneg (id_amount id).

Lemma ESC_party k : party_ok k ESC.
Proof. right. reflexivity. Qed.

Lemma trans_moves_mat k nd f id p c : nact_ok k -> (delta_evs id p c <> [] -> id_ok k id) ->
  trans_moves k id p c (mat (accounts k) nd f)
  = mat (accounts k) nd (fun a d => f a d + log_effect (delta_evs id p c) a d).
Proof.
  intros Hn Hok. unfold trans_moves, delta_evs in *.
  assert (Hsame : mat (accounts k) nd f = mat (accounts k) nd (fun a d => f a d + log_effect [] a d))
    by (apply mat_ext; intros; unfold log_effect; simpl; lia).
  destruct p as [p'|], c as [c'|]; try exact Hsame.
  - destruct ((c_state_of p' =? 0) && (c_state_of c' =? 1)).
    + destruct (c_tr_of c' =? 0); [|destruct (c_dir_of c' =? 1)].
      * destruct Hok as (Hs & Ht & Hd); [discriminate|].
        rewrite (move_mat k nd _ ESC (-1) _ Hn (ESC_party k) Hd), (move_mat k nd _ (id_to id) 1 _ Hn Ht Hd).
        apply mat_ext. intros a d _ _. unfold log_effect. cbn [map zsum ev_effect]. destruct (a =? ESC), (a =? id_to id); lia.
      * destruct Hok as (Hs & Ht & Hd); [discriminate|].
        rewrite (move_mat k nd _ (id_to id) 1 _ Hn Ht Hd).
        apply mat_ext. intros a d _ _. unfold log_effect. cbn [map zsum ev_effect]. destruct (a =? ESC), (a =? id_to id); lia.
      * destruct Hok as (Hs & Ht & Hd); [discriminate|].
        rewrite (move_mat k nd _ ESC (-1) _ Hn (ESC_party k) Hd).
        apply mat_ext. intros a d _ _. unfold log_effect. cbn [map zsum ev_effect]. destruct (a =? ESC); lia.
    + destruct ((c_state_of p' =? 0) && (c_state_of c' =? 2)); [|exact Hsame].
      destruct (locks c'); [|exact Hsame].
      destruct Hok as (Hs & Ht & Hd); [discriminate|].
      rewrite (move_mat k nd _ ESC (-1) _ Hn (ESC_party k) Hd), (move_mat k nd _ (id_sender id) 1 _ Hn Hs Hd).
      apply mat_ext. intros a d _ _. unfold log_effect. cbn [map zsum ev_effect]. destruct (a =? ESC), (a =? id_sender id); lia.
  - destruct (locks c'); [|exact Hsame].
    destruct Hok as (Hs & Ht & Hd); [discriminate|].
    rewrite (move_mat k nd _ (id_sender id) (-1) _ Hn Hs Hd), (move_mat k nd _ ESC 1 _ Hn (ESC_party k) Hd).
    apply mat_ext. intros a d _ _. unfold log_effect. cbn [map zsum ev_effect]. destruct (a =? ESC), (a =? id_sender id); lia.
Qed.

(** all the transitions of one step *)
Fixpoint delta_all (ids : list cid) (ps cs : list (option cobs)) : list event :=
  match ids, ps, cs with
  | id :: ids', p :: ps', c :: cs' => delta_all ids' ps' cs' ++ delta_evs id p c
  | _, _, _ => []
  end.

Lemma fold3_trans_moves k nd (P C : cid -> option cobs) : nact_ok k -> forall ids f,
  (forall id, In id ids -> delta_evs id (P id) (C id) <> [] -> id_ok k id) ->
  fold3 (trans_moves k) ids (map P ids) (map C ids) (mat (accounts k) nd f)
  = mat (accounts k) nd (fun a d => f a d + log_effect (delta_all ids (map P ids) (map C ids)) a d).
Proof.
  intros Hn. induction ids as [|id ids IH]; intros f Hok; simpl.
  - apply mat_ext. intros. unfold log_effect. simpl. lia.
  - rewrite (trans_moves_mat k nd f id (P id) (C id) Hn (Hok id (or_introl eq_refl))).
    rewrite IH by (intros id' Hin; apply Hok; right; exact Hin).
    apply mat_ext. intros a d _ _. rewrite log_effect_app. lia.
Qed.

Lemma delta_all_effect (P C : cid -> option cobs) a d : forall ids,
  log_effect (delta_all ids (map P ids) (map C ids)) a d
  = zsum (map (fun id => log_effect (delta_evs id (P id) (C id)) a d) ids).
Proof. induction ids as [|id ids IH]; simpl; [reflexivity|]. rewrite log_effect_app, IH. lia. Qed.

Lemma fold3_sum {A} (F : A -> option cobs -> option cobs -> Z) (P C : A -> option cobs) : forall ids a0,
  fold3 (fun id p c acc => acc + F id p c) ids (map P ids) (map C ids) a0
  = a0 + zsum (map (fun id => F id (P id) (C id)) ids).
Proof. induction ids as [|id ids IH]; intros a0; simpl; [lia|]. rewrite IH. lia. Qed.

(** ** Part B: sums over the id table *)
Lemma zsum_indicator {A} `{EqDec A} (ids : list A) (k0 : A) (a : Z) (b : A -> Z) : NoDup ids -> In k0 ids ->
  zsum (map (fun id => if eq_dec id k0 then a else b id) ids) = a - b k0 + zsum (map b ids).
Proof.
  induction ids as [|i ids IH]; intros Hnd Hin; [destruct Hin|].
  inversion Hnd as [|? ? Hni Hnd']; subst. simpl. destruct (eq_dec i k0) as [->|Hne].
  - assert (E : map (fun id => if eq_dec id k0 then a else b id) ids = map b ids).
    { apply map_ext_in. intros x Hx. destruct (eq_dec x k0) as [->|]; [contradiction|reflexivity]. }
    rewrite E. lia.
  - destruct Hin as [E|Hin]; [congruence|]. rewrite (IH Hnd' Hin). lia.
Qed.

Lemma zsum_map_ext {A} (f g : A -> Z) l : (forall x, In x l -> f x = g x) -> zsum (map f l) = zsum (map g l).
Proof. intros H. f_equal. apply map_ext_in. exact H. Qed.

(** a sum over the id table of a function of the table entry = the weighted sum over the contracts *)
Lemma table_sum (G : cid -> option contract -> Z) (w : contract -> Z) (ids : list cid) :
  NoDup ids -> (forall id, G id None = 0) ->
  forall m : amap cid contract, NoDup (keys m) -> (forall id c, In (id, c) m -> In id ids /\ G id (Some c) = w c) ->
  zsum (map (fun id => G id (get id m)) ids) = wsum w m.
Proof.
  intros Hnd G0. induction m as [|[k0 v0] m IH]; intros Hk Hm.
  - simpl. unfold wsum. simpl. rewrite (zsum_map_ext _ (fun _ => 0)) by (intros; apply G0).
    clear. induction ids; simpl; lia.
  - simpl in Hk. inversion Hk as [|? ? Hni Hk']; subst.
    destruct (Hm k0 v0 (or_introl eq_refl)) as [Hin Hw].
    assert (Hg0 : get k0 m = None).
    { destruct (get k0 m) as [v|] eqn:E; [|reflexivity]. exfalso. apply Hni.
      apply in_map_iff. exists (k0, v). split; [reflexivity|exact (get_In _ _ _ E)]. }
    rewrite (zsum_map_ext _ (fun id => if eq_dec id k0 then w v0 else G id (get id m))).
    + rewrite (zsum_indicator ids k0 (w v0) (fun id => G id (get id m)) Hnd Hin). rewrite Hg0, G0.
      rewrite IH; [unfold wsum; simpl; lia|exact Hk'|]. intros id c Hi. apply Hm. right. exact Hi.
    + intros id _. simpl. destruct (eq_dec id k0) as [->|]; [exact Hw|reflexivity].
Qed.

Lemma wsum_ext {K} (w1 w2 : contract -> Z) (m : list (K * contract)) :
  (forall k c, In (k, c) m -> w1 c = w2 c) -> wsum w1 m = wsum w2 m.
Proof. intros H. unfold wsum. f_equal. apply map_ext_in. intros [k c] Hin. simpl. exact (H k c Hin). Qed.

Lemma wsum_sub {K} (w1 w2 : contract -> Z) (m : list (K * contract)) :
  wsum (fun c => w1 c - w2 c) m = wsum w1 m - wsum w2 m.
Proof. unfold wsum. induction m as [|[k c] m IH]; simpl; lia. Qed.

(** the partition of a list of events by contract id *)
Lemma log_effect_partition (ids : list cid) a d : NoDup ids -> forall evs, (forall e, In e evs -> In (ev_id e) ids) ->
  log_effect evs a d = zsum (map (fun id => log_effect (filter (ev_for id) evs) a d) ids).
Proof.
  intros Hnd. induction evs as [|e evs IH]; intros Hin.
  - unfold log_effect. simpl. clear. induction ids; simpl; lia.
  - assert (Hin' : forall e', In e' evs -> In (ev_id e') ids) by (intros; apply Hin; right; assumption).
    rewrite (zsum_map_ext _ (fun id => if eq_dec id (ev_id e) then ev_effect e a d + log_effect (filter (ev_for (ev_id e)) evs) a d
                                        else log_effect (filter (ev_for id) evs) a d)).
    + rewrite (zsum_indicator ids (ev_id e) _ (fun id => log_effect (filter (ev_for id) evs) a d) Hnd (Hin e (or_introl eq_refl))).
      rewrite <- (IH Hin'). unfold log_effect. simpl. lia.
    + intros id _. simpl. unfold ev_for at 1. unfold eqb. destruct (eq_dec (ev_id e) id) as [E|Hne].
      * destruct (eq_dec id (ev_id e)); [|congruence]. subst id. unfold log_effect. simpl. reflexivity.
      * destruct (eq_dec id (ev_id e)); [congruence|reflexivity].
Qed.

(** ** Part C: how one step changes one contract; views of a model state *)
Inductive ctrans (h0 h1 : Z) : option contract -> option contract -> Prop :=
| ct_same oc : ctrans h0 h1 oc oc
| ct_new c : c_state c = Open -> c_closed c = 0 -> ctrans h0 h1 None (Some c)
| ct_close c st h : c_state c = Open -> st <> Open -> h0 <= h <= h1 -> ctrans h0 h1 (Some c) (Some (close c st h)).

Definition adv_effect (H : Z) (c : contract) : contract :=
  if openb c && (c_exp c <=? H) then close c Refunded (c_exp c) else c.

Lemma adv_exact : forall dts s, Inv s -> Strict s ->
  st_height (fold_left begin_block dts s) = st_height s + Z.of_nat (length dts)
  /\ forall id, get id (st_contracts (fold_left begin_block dts s))
                = option_map (adv_effect (st_height (fold_left begin_block dts s))) (get id (st_contracts s)).
Proof.
  induction dts as [|dt dts IH]; intros s I S.
  - simpl. split; [lia|]. intros id. destruct (get id (st_contracts s)) as [c|] eqn:Hg; [|reflexivity]. simpl. f_equal.
    unfold adv_effect, openb. destruct (c_state c) eqn:Hs; try reflexivity.
    pose proof (S _ _ Hg Hs). replace (c_exp c <=? st_height s) with false by (symmetry; apply Z.leb_gt; lia). reflexivity.
  - cbn [fold_left]. destruct (begin_block_spec s dt I S) as (I1 & S1 & Hh & _ & Hc).
    destruct (IH _ I1 S1) as (Hh' & Hc'). split; [rewrite Hh', Hh; cbn [length]; lia|].
    intros id. rewrite Hc', Hc. destruct (get id (st_contracts s)) as [c|] eqn:Hg; [|reflexivity]. simpl. f_equal.
    set (H' := st_height (fold_left begin_block dts (begin_block s dt))) in *.
    unfold block_effect, adv_effect. destruct (openb c && (c_exp c =? st_height s + 1)) eqn:Hb.
    + apply andb_true_iff in Hb. destruct Hb as [Ho He]. apply Z.eqb_eq in He. rewrite Ho. cbn.
      replace (c_exp c <=? H') with true by (symmetry; apply Z.leb_le; lia). cbn. rewrite He. reflexivity.
    + reflexivity.
Qed.

Lemma step_ctrans s o : Inv s -> Strict s -> wf_op s o ->
  forall id, ctrans (st_height s) (st_height (step s o)) (get id (st_contracts s)) (get id (st_contracts (step s o))).
Proof.
  intros I S W id. unfold step. destruct o as [m|who id0 secret|dts|gw gP]; simpl.
  - destruct (create s m) as [s'|] eqn:Hc; [|constructor].
    destruct (create_open_rel s m s' I W Hc) as (dr & R).
    rewrite (or_contracts _ _ _ _ R), get_set. destruct (eq_dec id (id_of m)) as [->|Hne]; [|constructor].
    rewrite (or_fresh _ _ _ _ R). apply ct_new; reflexivity.
  - pose proof (claim_spec s who id0 secret I) as Hs. destruct (claim s who id0 secret) as [s'|]; [|constructor].
    destruct Hs as (_ & c & Hg & Ho & _ & R). rewrite (cr_contracts _ _ _ _ _ R), get_set, (cr_height _ _ _ _ _ R).
    destruct (eq_dec id id0) as [->|Hne]; [|constructor]. rewrite Hg. apply ct_close; [exact Ho|discriminate|lia].
  - destruct (adv_exact dts s I S) as (Hh & Hc). rewrite Hc.
    destruct (get id (st_contracts s)) as [c|] eqn:Hg; [|constructor]. simpl. unfold adv_effect.
    destruct (openb c && (c_exp c <=? st_height (fold_left begin_block dts s))) eqn:Hb; [|constructor].
    apply andb_true_iff in Hb. destruct Hb as [Ho He]. apply Z.leb_le in He. unfold openb in Ho.
    destruct (c_state c) eqn:Hst; try discriminate. pose proof (S _ _ Hg Hst).
    apply ct_close; [exact Hst|discriminate|lia].
  - destruct ((gw =? GOV) && params_valid gP); constructor.
Qed.

Lemma ctrans_trans_ok h0 h1 oc oc' : ctrans h0 h1 oc oc' ->
  trans_ok h0 h1 (option_map proj_contract oc) (option_map proj_contract oc') = true.
Proof.
  intros [oc0|c Ho Hc|c st h Ho Hst Hh]; simpl.
  - destruct oc0; simpl; [rewrite eqb_refl|]; reflexivity.
  - unfold proj_contract, c_state_of, c_closed_of. rewrite Ho, Hc. reflexivity.
  - apply orb_true_iff. right. unfold proj_contract, c_state_of, c_closed_of, static_of, c_exp_of, c_ts_of, c_tr_of, c_dir_of. cbn.
    rewrite Ho. cbn. rewrite eqb_refl. destruct st; [congruence| |]; cbn;
      (apply andb_true_iff; split; [apply Z.leb_le|apply Z.leb_le]; lia).
Qed.

Lemma forallb2_map {A B C} (f : B -> C -> bool) (g1 : A -> B) (g2 : A -> C) l :
  (forall x, In x l -> f (g1 x) (g2 x) = true) -> forallb2 f (map g1 l) (map g2 l) = true.
Proof.
  induction l as [|x l IH]; intros H; simpl; [reflexivity|].
  rewrite (H x (or_introl eq_refl)). simpl. apply IH. intros y Hy. apply H. right. exact Hy.
Qed.

Definition cproj (k : case) (s : state) : list (option cobs) :=
  map (fun id => option_map proj_contract (get id (st_contracts s))) (k_ids k).
Definition qproj (k : case) (s : state) : list (Z * Z) :=
  map (fun e : Z * cid => (fst e, index_from (snd e) (k_ids k) 0)) (st_queue s).
Definition sproj_assets (k : case) (s : state) : list (option (Z * Z * Z * Z * Z)) :=
  map (fun p => option_map (fun a => (as_in a, as_out a, as_cur a, as_tlc a, as_el a)) (get (ap_denom p) (st_assets s))) (k_params k).
Definition bsproj (k : case) (s : state) : list Z := map (fun p => sup_of (st_supply s) (ap_denom p)) (k_params k).

(** the observation [o] is the projection of the model state [s] (over [nd] denoms), with result code [code] *)
Record Vw (k : case) (nd : nat) (s : state) (code : Z) (o : obs) : Prop := mkVw {
  vw_code : o_code o = code;
  vw_height : o_height o = st_height s;
  vw_time : o_time o = st_time s;
  vw_prev : o_prev o = st_prev s;
  vw_contracts : o_contracts o = cproj k s;
  vw_queue : o_queue o = qproj k s;
  vw_bals : o_bals o = mat (accounts k) nd (bal (st_bank s));
  vw_sups : o_sups o = sproj_assets k s;
  vw_bsups : o_bsups o = bsproj k s;
  vw_params : o_params o = st_params s }.

Lemma mat_hd_length k nd f : length (hd [] (mat (accounts k) nd f)) = nd.
Proof.
  unfold mat, accounts. destruct (zseq (Z.to_nat (k_nactors k))) as [|a l]; simpl; rewrite map_length, zseq_length; reflexivity.
Qed.

Lemma Vw_corr k nd s code o : Vw k nd s code o -> corr_obs k s code o = true.
Proof.
  intros V. unfold corr_obs.
  assert (Hd : denoms_of o = zseq nd) by (unfold denoms_of; rewrite (vw_bals _ _ _ _ _ V), mat_hd_length; reflexivity).
  rewrite (vw_code _ _ _ _ _ V), (vw_height _ _ _ _ _ V), (vw_time _ _ _ _ _ V), (vw_prev _ _ _ _ _ V), !Z.eqb_refl. simpl.
  rewrite (vw_contracts _ _ _ _ _ V). unfold cproj. rewrite eqb_refl. simpl.
  rewrite (vw_queue _ _ _ _ _ V). unfold qproj. rewrite map_length, Nat.eqb_refl. simpl.
  rewrite Hd, (vw_bals _ _ _ _ _ V). unfold mat. rewrite eqb_refl.
  rewrite (vw_sups _ _ _ _ _ V), (vw_bsups _ _ _ _ _ V), (vw_params _ _ _ _ _ V). unfold sproj_assets, bsproj. rewrite !eqb_refl.
  rewrite !andb_true_r. apply forallb_forall. intros e He. apply existsb_exists.
  exists (fst e, index_from (snd e) (k_ids k) 0). split.
  - apply in_map_iff. exists e. auto.
  - simpl. rewrite !Z.eqb_refl. reflexivity.
Qed.

(** ** Part D: the clauses of the monitors *)
Record Tbl (k : case) (s : state) : Prop := mkTbl {
  tb_nodup : NoDup (k_ids k);
  tb_nact : nact_ok k;
  tb_complete : forall id c, get id (st_contracts s) = Some c -> In id (k_ids k);
  tb_range : forall id, In id (k_ids k) ->
     (id_sender id < k_nactors k \/ id_sender id = ESC \/ id_sender id = BLK)
     /\ (id_to id < k_nactors k \/ id_to id = ESC \/ id_to id = BLK)
     /\ denoms_nonneg (id_amount id);
  tb_pden : NoDup (map ap_denom (k_params k));
  (* the parameters in force support exactly the assets of the case's genesis list, each once *)
  tb_sd : same_denoms (k_params k) (st_params s);
  tb_pnd : NoDup (map ap_denom (st_params s)) }.

Lemma tbl_lookup k s p0 : Tbl k s -> In p0 (k_params k) ->
  exists p, get_param (st_params s) (ap_denom p0) = Some p /\ In p (st_params s) /\ ap_denom p = ap_denom p0.
Proof.
  intros T Hin. destruct (get_param (st_params s) (ap_denom p0)) as [p|] eqn:E.
  - exists p. split; [reflexivity|]. split; [|exact (get_param_denom _ _ _ E)].
    unfold get_param in E. apply find_some in E. tauto.
  - exfalso. apply (tb_sd _ _ T) in E. exact (get_param_In _ _ Hin E).
Qed.

Lemma id_fields P id c : wfc P id c ->
  id_hl id = c_hl c /\ id_sender id = c_sender c /\ id_to id = c_to c /\ id_amount id = c_amount c.
Proof. intros (-> & _). repeat split; reflexivity. Qed.

Lemma existing_id_ok k s id c : Inv s -> Tbl k s -> get id (st_contracts s) = Some c -> id_ok k id.
Proof.
  intros I T Hg. pose proof (inv_wfc _ I _ _ (get_In _ _ _ Hg)) as W.
  destruct (id_fields _ _ _ W) as (_ & Hs & Ht & _).
  destruct W as (_ & _ & Hs1 & Hs2 & Ht1 & Ht2 & (Hs0 & Ht0) & _).
  destruct (tb_range _ _ T id (tb_complete _ _ T _ _ Hg)) as (Rs & Rt & Rd).
  rewrite Hs in Rs. rewrite Ht in Rt. unfold id_ok, party_ok. rewrite Hs, Ht.
  split; [left; lia|]. split; [left; lia|exact Rd].
Qed.

Lemma locks_proj c : locks (proj_contract c) = locksb c.
Proof. unfold locks, proj_contract, locksb, is_out, c_tr_of, c_dir_of. destruct (c_transfer c), (c_dir c); reflexivity. Qed.

Lemma delta_same id p : delta_evs id (Some p) (Some p) = [].
Proof.
  unfold delta_evs. destruct (c_state_of p =? 0) eqn:E0; simpl; [|reflexivity].
  apply Z.eqb_eq in E0. rewrite E0. reflexivity.
Qed.

Lemma delta_filter P id h0 h1 oc oc' X : ctrans h0 h1 oc oc' -> (forall c, oc' = Some c -> wfc P id c) ->
  X ++ expected_log id oc = expected_log id oc' ->
  X = delta_evs id (option_map proj_contract oc) (option_map proj_contract oc').
Proof.
  intros [oc0|c Ho Hc|c st h Ho Hst Hh] W E.
  - assert (X = []) by (apply (app_inv_tail (expected_log id oc0)); exact E). subst X.
    destruct oc0; cbn [option_map]; [rewrite delta_same|]; reflexivity.
  - destruct (id_fields _ _ _ (W c eq_refl)) as (_ & Hs & _ & Ha).
    simpl in E. rewrite Ho, app_nil_r in E. simpl in E. subst X. simpl.
    rewrite locks_proj, Hs, Ha. reflexivity.
  - pose proof (W _ eq_refl) as Wc. destruct (id_fields _ _ _ Wc) as (_ & Hs & Ht & Ha). cbn in Hs, Ht, Ha.
    destruct Wc as (_ & _ & _ & _ & _ & _ & _ & Hkind). cbn in Hkind.
    assert (EX : X = close_events id c st).
    { apply (app_inv_tail (open_events id c)). simpl in E. rewrite Ho in E. exact E. }
    subst X. unfold delta_evs. simpl. rewrite locks_proj.
    unfold proj_contract, c_state_of, c_tr_of, c_dir_of. cbn. rewrite Ho. cbn.
    unfold close_events, locksb, is_in, is_out. cbn. rewrite Hs, Ht, Ha.
    destruct st; [congruence| |]; cbn.
    + destruct (c_transfer c); cbn; [|reflexivity].
      destruct (c_dir c); cbn; try reflexivity. destruct Hkind as [_ Hd]. congruence.
    + destruct (c_transfer c); cbn; [|reflexivity]. destruct (c_dir c); reflexivity.
Qed.

(** what a step adds to the log and to the bank *)
Lemma step_log_bank s o : exists evs, st_log (step s o) = evs ++ st_log s
  /\ forall a d, bal (st_bank (step s o)) a d = bal (st_bank s) a d + log_effect evs a d.
Proof. exact (step_Acc s o). Qed.

Lemma new_event_ids k s s' evs : Inv s' -> Tbl k s' -> st_log s' = evs ++ st_log s ->
  forall e, In e evs -> In (ev_id e) (k_ids k).
Proof.
  intros I' T' Hl e He.
  destruct (get (ev_id e) (st_contracts s')) as [c|] eqn:Hg; [exact (tb_complete _ _ T' _ _ Hg)|].
  exfalso. pose proof (inv_log _ I' (ev_id e)) as Hf. rewrite Hg in Hf. simpl in Hf.
  assert (Hin : In e (filter (ev_for (ev_id e)) (st_log s'))).
  { apply filter_In. split; [rewrite Hl; apply in_or_app; left; exact He|]. unfold ev_for. apply eqb_refl. }
  rewrite Hf in Hin. destruct Hin.
Qed.

Lemma combine_map_r {A B} (g : A -> B) (l : list A) : combine l (map g l) = map (fun x => (x, g x)) l.
Proof. induction l as [|x l IH]; simpl; [reflexivity|]. rewrite IH. reflexivity. Qed.

Lemma zsum_map_sub {A} (f g : A -> Z) l : zsum (map (fun x => f x - g x) l) = zsum (map f l) - zsum (map g l).
Proof. induction l as [|x l IH]; simpl; lia. Qed.

Definition Gcur (d : denom) (oc : option contract) : Z := match oc with Some c => w_cur d c | None => 0 end.

Lemma supply_delta P d id h0 h1 oc oc' : ctrans h0 h1 oc oc' -> (forall c, oc' = Some c -> wfc P id c) ->
  trans_supply d id (option_map proj_contract oc) (option_map proj_contract oc') = Gcur d oc' - Gcur d oc.
Proof.
  intros [oc0|c Ho Hc|c st h Ho Hst Hh] W.
  - destruct oc0 as [c|]; simpl; [|lia]. unfold c_state_of, proj_contract.
    destruct (state_code (c_state c) =? 0) eqn:E0; simpl; [|lia]. apply Z.eqb_eq in E0. rewrite E0. simpl. lia.
  - simpl. rewrite (open_w_cur d c Ho). lia.
  - pose proof (W _ eq_refl) as Wc. destruct (id_fields _ _ _ Wc) as (_ & _ & _ & Ha). cbn in Ha.
    destruct Wc as (_ & _ & _ & _ & _ & _ & _ & Hkind). cbn in Hkind.
    simpl. rewrite (open_w_cur d c Ho). unfold trans_supply, proj_contract, c_state_of, c_tr_of, c_dir_of. cbn.
    rewrite Ho, Ha. cbn. unfold w_cur, complb, is_in, is_out, amt. cbn.
    destruct st; [congruence| |]; cbn.
    + destruct (c_transfer c); cbn; [|lia]. destruct (c_dir c); cbn; try lia. destruct Hkind as [_ Hd]. congruence.
    + lia.
Qed.

Lemma get_param_NoDup P p : NoDup (map ap_denom P) -> In p P -> get_param P (ap_denom p) = Some p.
Proof.
  unfold get_param. induction P as [|p0 P IH]; simpl; intros Hnd Hin; [destruct Hin|].
  inversion Hnd as [|? ? Hni Hnd']; subst. destruct Hin as [->|Hin]; [rewrite Z.eqb_refl; reflexivity|].
  destruct (Z.eqb_spec (ap_denom p0) (ap_denom p)) as [E|Hne]; [|exact (IH Hnd' Hin)].
  exfalso. apply Hni. rewrite E. apply in_map. exact Hin.
Qed.

Lemma In_get {K V} `{EqDec K} (m : amap K V) k v : In (k, v) m -> exists v', get k m = Some v'.
Proof.
  induction m as [|[k0 v0] m IH]; simpl; [tauto|]. intros [E|Hin].
  - inversion E; subst. destruct (eq_dec k k); [eauto|congruence].
  - destruct (eq_dec k k0); [eauto|exact (IH Hin)].
Qed.

Lemma new_event_exists s s' evs : Inv s' -> st_log s' = evs ++ st_log s ->
  forall e, In e evs -> exists c, get (ev_id e) (st_contracts s') = Some c.
Proof.
  intros I' Hl e He. destruct (get (ev_id e) (st_contracts s')) as [c|] eqn:Hg; [eauto|].
  exfalso. pose proof (inv_log _ I' (ev_id e)) as Hf. rewrite Hg in Hf. simpl in Hf.
  assert (Hin : In e (filter (ev_for (ev_id e)) (st_log s'))).
  { apply filter_In. split; [rewrite Hl; apply in_or_app; left; exact He|]. unfold ev_for. apply eqb_refl. }
  rewrite Hf in Hin. destruct Hin.
Qed.

Definition Pof (s : state) (id : cid) : option cobs := option_map proj_contract (get id (st_contracts s)).

Lemma cproj_Pof k s : cproj k s = map (Pof s) (k_ids k).
Proof. reflexivity. Qed.

(** everything the clauses need to know about one step of the model *)
Record StepFacts (k : case) (s s' : state) (evs : list event) : Prop := mkSF {
  sf_inv : Inv s; sf_inv' : Inv s'; sf_strict' : Strict s';
  sf_tbl' : Tbl k s';
  sf_ct : forall id, ctrans (st_height s) (st_height s') (get id (st_contracts s)) (get id (st_contracts s'));
  sf_log : st_log s' = evs ++ st_log s;
  sf_bank : forall a d, bal (st_bank s') a d = bal (st_bank s) a d + log_effect evs a d;
  sf_params : st_params s' = st_params s }.

Lemma step_facts k s o : Inv s -> Strict s -> wf_op s o -> (forall who P', o <> SetParams who P') ->
  Tbl k (step s o) -> exists evs, StepFacts k s (step s o) evs.
Proof.
  intros I S W Hns T. destruct (step_inv s o I S W) as (I' & S' & P'). destruct (step_log_bank s o) as (evs & Hl & Hb).
  exists evs. constructor; auto; [exact (step_ctrans s o I S W)|].
  rewrite P'. destruct o; try reflexivity. exfalso. exact (Hns _ _ eq_refl).
Qed.

Section OneStep.
  Context (k : case) (nd : nat) (s s' : state) (evs : list event) (F : StepFacts k s s' evs).

  Let ids := k_ids k.

  Lemma sf_wfc' id c : get id (st_contracts s') = Some c -> wfc (st_params s') id c.
  Proof. intros Hg. exact (inv_wfc _ (sf_inv' _ _ _ _ F) _ _ (get_In _ _ _ Hg)). Qed.

  Lemma sf_filter id : filter (ev_for id) evs = delta_evs id (Pof s id) (Pof s' id).
  Proof.
    apply (delta_filter (st_params s') id _ _ _ _ _ (sf_ct _ _ _ _ F id)).
    - intros c Hc. exact (sf_wfc' id c Hc).
    - rewrite <- (inv_log _ (sf_inv _ _ _ _ F) id), <- (inv_log _ (sf_inv' _ _ _ _ F) id), (sf_log _ _ _ _ F), filter_app. reflexivity.
  Qed.

  Lemma sf_complete id c : get id (st_contracts s) = Some c -> In id ids.
  Proof.
    intros Hg. pose proof (sf_ct _ _ _ _ F id) as Hct. rewrite Hg in Hct.
    inversion Hct as [oc E1 E2| |c0 st h Ho Hst Hh E1 E2].
    - symmetry in E2. exact (tb_complete _ _ (sf_tbl' _ _ _ _ F) _ _ E2).
    - symmetry in E2. exact (tb_complete _ _ (sf_tbl' _ _ _ _ F) _ _ E2).
  Qed.

  Lemma sf_moves po o code0 code : Vw k nd s code0 po -> Vw k nd s' code o -> moves_ok k po o = true.
  Proof.
    intros V V'. pose proof (sf_tbl' _ _ _ _ F) as T. pose proof (sf_inv _ _ _ _ F) as I. pose proof (sf_inv' _ _ _ _ F) as I'.
    unfold moves_ok. apply andb_true_iff. split.
    - rewrite (vw_bals _ _ _ _ _ V), (vw_bals _ _ _ _ _ V'), (vw_contracts _ _ _ _ _ V), (vw_contracts _ _ _ _ _ V'), !cproj_Pof.
      rewrite (fold3_trans_moves k nd (Pof s) (Pof s') (tb_nact _ _ T)).
      + apply eqb_true_iff. apply mat_ext. intros a d _ _. rewrite (sf_bank _ _ _ _ F), delta_all_effect.
        rewrite (zsum_map_ext _ (fun id => log_effect (filter (ev_for id) evs) a d)) by (intros id _; rewrite sf_filter; reflexivity).
        rewrite <- (log_effect_partition (k_ids k) a d (tb_nodup _ _ T)); [reflexivity|].
        intros e He. destruct (new_event_exists s s' evs I' (sf_log _ _ _ _ F) e He) as (c & Hg). exact (tb_complete _ _ T _ _ Hg).
      + intros id Hin Hne. rewrite <- sf_filter in Hne.
        destruct (filter (ev_for id) evs) as [|e l] eqn:Ef; [congruence|].
        assert (He : In e (filter (ev_for id) evs)) by (rewrite Ef; left; reflexivity).
        apply filter_In in He. destruct He as [He Hid]. unfold ev_for in Hid. apply (proj1 (eqb_true_iff _ _)) in Hid.
        destruct (new_event_exists s s' evs I' (sf_log _ _ _ _ F) e He) as (c & Hg). rewrite Hid in Hg.
        exact (existing_id_ok k s' id c I' T Hg).
    - rewrite (vw_bsups _ _ _ _ _ V), (vw_bsups _ _ _ _ _ V'), (vw_contracts _ _ _ _ _ V), (vw_contracts _ _ _ _ _ V'), !cproj_Pof.
      unfold bsproj. rewrite combine_map_r, map_map. apply eqb_true_iff. apply map_ext_in. intros p Hp. cbn [fst snd].
      rewrite fold3_sum.
      destruct (tbl_lookup k s' p T Hp) as (p1 & Hgp' & _ & _).
      assert (Hgp : get_param (st_params s) (ap_denom p) = Some p1) by (rewrite <- (sf_params _ _ _ _ F); exact Hgp').
      destruct (inv_asset _ I _ _ Hgp) as (a & _ & _ & _ & Hcur & Hsup & _).
      destruct (inv_asset _ I' _ _ Hgp') as (a' & _ & _ & _ & Hcur' & Hsup' & _).
      rewrite Hsup, Hsup', Hcur, Hcur'.
      rewrite <- (table_sum (fun _ oc => Gcur (ap_denom p) oc) (w_cur (ap_denom p)) (k_ids k) (tb_nodup _ _ T) (fun _ => eq_refl)
                            (st_contracts s) (inv_keys _ I)).
      2:{ intros id c Hin. split; [|reflexivity]. destruct (In_get _ _ _ Hin) as (c' & Hg). exact (sf_complete id c' Hg). }
      rewrite <- (table_sum (fun _ oc => Gcur (ap_denom p) oc) (w_cur (ap_denom p)) (k_ids k) (tb_nodup _ _ T) (fun _ => eq_refl)
                            (st_contracts s') (inv_keys _ I')).
      2:{ intros id c Hin. split; [|reflexivity]. destruct (In_get _ _ _ Hin) as (c' & Hg). exact (tb_complete _ _ T _ _ Hg). }
      rewrite (zsum_map_ext (fun id => trans_supply (ap_denom p) id (Pof s id) (Pof s' id))
                            (fun id => Gcur (ap_denom p) (get id (st_contracts s')) - Gcur (ap_denom p) (get id (st_contracts s)))).
      + rewrite zsum_map_sub. lia.
      + intros id _. unfold Pof. apply (supply_delta (st_params s') _ id _ _ _ _ (sf_ct _ _ _ _ F id)).
        intros c Hc. exact (sf_wfc' id c Hc).
  Qed.

  Lemma sf_sm po o code0 code : Vw k nd s code0 po -> Vw k nd s' code o ->
    forallb2 (trans_ok (o_height po) (o_height o)) (o_contracts po) (o_contracts o) = true.
  Proof.
    intros V V'. rewrite (vw_contracts _ _ _ _ _ V), (vw_contracts _ _ _ _ _ V'), (vw_height _ _ _ _ _ V), (vw_height _ _ _ _ _ V').
    unfold cproj. apply forallb2_map. intros id _. apply ctrans_trans_ok. exact (sf_ct _ _ _ _ F id).
  Qed.
End OneStep.

(** *** list positions *)
Lemma nthZ_Some {A} i (l : list A) x : nthZ i l = Some x -> 0 <= i /\ nth_error l (Z.to_nat i) = Some x.
Proof. unfold nthZ. destruct (i <? 0) eqn:E; [discriminate|]. apply Z.ltb_ge in E. auto. Qed.

Lemma nthZ_map {A B} (f : A -> B) i l : nthZ i (map f l) = option_map f (nthZ i l).
Proof. unfold nthZ. destruct (i <? 0); [reflexivity|]. apply nth_error_map. Qed.

Lemma replace_at_spec {A B} `{EqDec A} (g : A -> B) (a : B) : forall (l : list A) i x, NoDup l -> nth_error l i = Some x ->
  map (fun y => if eq_dec y x then a else g y) l = replace_at i a (map g l).
Proof.
  induction l as [|y l IH]; intros [|i] x Hnd Hn; simpl in *; try discriminate.
  - inversion Hn; subst. destruct (eq_dec x x); [|congruence]. f_equal. inversion Hnd as [|? ? Hni _]; subst.
    apply map_ext_in. intros z Hz. destruct (eq_dec z x) as [->|]; [contradiction|reflexivity].
  - inversion Hnd as [|? ? Hni Hnd']; subst. rewrite (IH i x Hnd' Hn).
    destruct (eq_dec y x) as [->|]; [|reflexivity]. exfalso. apply Hni. exact (nth_error_In _ _ Hn).
Qed.

Lemma cproj_set k s s' idx id v : NoDup (k_ids k) -> nthZ idx (k_ids k) = Some id ->
  st_contracts s' = set id v (st_contracts s) ->
  cproj k s' = replace_at (Z.to_nat idx) (Some (proj_contract v)) (cproj k s).
Proof.
  intros Hnd Hn Hc. destruct (nthZ_Some _ _ _ Hn) as [_ Hn'].
  unfold cproj. rewrite <- (replace_at_spec _ _ _ _ _ Hnd Hn'). apply map_ext. intros y.
  rewrite Hc, get_set. destruct (eq_dec y id); reflexivity.
Qed.

Lemma same_view_Vw k nd s c1 c2 po o : Vw k nd s c1 po -> Vw k nd s c2 o -> same_view po o = true.
Proof.
  intros V V'. unfold same_view.
  rewrite (vw_contracts _ _ _ _ _ V), (vw_contracts _ _ _ _ _ V'), (vw_queue _ _ _ _ _ V), (vw_queue _ _ _ _ _ V'),
          (vw_bals _ _ _ _ _ V), (vw_bals _ _ _ _ _ V'), (vw_sups _ _ _ _ _ V), (vw_sups _ _ _ _ _ V'),
          (vw_bsups _ _ _ _ _ V), (vw_bsups _ _ _ _ _ V'), (vw_prev _ _ _ _ _ V), (vw_prev _ _ _ _ _ V').
  rewrite !eqb_refl, Z.eqb_refl. reflexivity.
Qed.

Lemma dummy_absent s : Inv s -> get (((-1, -1), -1, -1, []) : cid) (st_contracts s) = None.
Proof.
  intros I. destruct (get _ (st_contracts s)) as [c|] eqn:Hg; [|reflexivity]. exfalso.
  pose proof (inv_wfc _ I _ _ (get_In _ _ _ Hg)) as W. destruct (id_fields _ _ _ W) as (_ & Hs & _).
  destruct W as (_ & _ & _ & _ & _ & _ & (Hs0 & _) & _). cbn in Hs. lia.
Qed.

Lemma adv_due_live k nd s dts po o code0 : Inv s -> Strict s -> Vw k nd s code0 po -> Vw k nd (step s (Adv dts)) 0 o ->
  forallb2 (fun p c : option cobs =>
              match p with
              | Some p' =>
                  if (c_state_of p' =? 0) && (o_height po <? c_exp_of p') && (c_exp_of p' <=? o_height o) then
                    match c with
                    | Some c' => (c_state_of c' =? 2) && (c_closed_of c' =? c_exp_of p') && eqb (static_of p') (static_of c')
                    | None => false
                    end
                  else eqb p c
              | None => eqb p c
              end) (o_contracts po) (o_contracts o)
  && forallb (fun c : option cobs => match c with Some c' => negb (c_state_of c' =? 0) || (o_height o <? c_exp_of c') | None => true end)
             (o_contracts o)
  && (o_code o =? 0) = true.
Proof.
  intros I S V V'. unfold step in V'. cbn [exec] in V'.
  destruct (adv_exact dts s I S) as (Hh & Hc). destruct (adv_spec dts s I S) as (I' & S' & _ & _).
  set (s' := fold_left begin_block dts s) in *.
  rewrite (vw_code _ _ _ _ _ V'), (vw_contracts _ _ _ _ _ V), (vw_contracts _ _ _ _ _ V'), (vw_height _ _ _ _ _ V), (vw_height _ _ _ _ _ V').
  rewrite Z.eqb_refl, andb_true_r. apply andb_true_iff. split.
  - unfold cproj. apply forallb2_map. intros id _. rewrite Hc.
    destruct (get id (st_contracts s)) as [c|] eqn:Hg; simpl; [|reflexivity].
    unfold adv_effect, openb, proj_contract, c_state_of, c_exp_of. cbn.
    destruct (c_state c) eqn:Hst; cbn; try (rewrite ?Hst; cbn; apply eqb_refl).
    pose proof (S _ _ Hg Hst) as Hlt. replace (st_height s <? c_exp c) with true by (symmetry; apply Z.ltb_lt; exact Hlt). cbn.
    destruct (c_exp c <=? st_height s'); cbn.
    + unfold c_closed_of, static_of, c_exp_of, c_ts_of, c_tr_of, c_dir_of. cbn. rewrite Z.eqb_refl, eqb_refl. reflexivity.
    + rewrite Hst. apply eqb_refl.
  - unfold cproj. apply forallb_forall. intros x Hx. apply in_map_iff in Hx. destruct Hx as (id & <- & _).
    destruct (get id (st_contracts s')) as [c|] eqn:Hg; simpl; [|reflexivity].
    unfold proj_contract, c_state_of, c_exp_of. destruct (c_state c) eqn:Hst; cbn; try reflexivity.
    apply Z.ltb_lt. exact (S' _ _ Hg Hst).
Qed.

(** a parameter change touches nothing but the parameters *)
Lemma setparams_fields s who P' :
  let s' := step s (SetParams who P') in
  st_contracts s' = st_contracts s /\ st_queue s' = st_queue s /\ st_bank s' = st_bank s /\ st_assets s' = st_assets s
  /\ st_supply s' = st_supply s /\ st_prev s' = st_prev s /\ st_win s' = st_win s /\ st_time s' = st_time s
  /\ st_height s' = st_height s /\ st_log s' = st_log s.
Proof. cbv zeta. unfold step. cbn [exec]. destruct ((who =? GOV) && params_valid P'); repeat split; reflexivity. Qed.

Lemma p03_setparams k nd s who P' po o code0 code : Vw k nd s code0 po -> Vw k nd (step s (SetParams who P')) code o ->
  p03 k true po (CSetParams who P') o = 0.
Proof.
  intros V V'. destruct (setparams_fields s who P') as (E1 & E2 & E3 & E4 & E5 & E6 & _).
  unfold p03, same_view.
  rewrite (vw_contracts _ _ _ _ _ V), (vw_contracts _ _ _ _ _ V'), (vw_queue _ _ _ _ _ V), (vw_queue _ _ _ _ _ V'),
          (vw_bals _ _ _ _ _ V), (vw_bals _ _ _ _ _ V'), (vw_sups _ _ _ _ _ V), (vw_sups _ _ _ _ _ V'),
          (vw_bsups _ _ _ _ _ V), (vw_bsups _ _ _ _ _ V'), (vw_prev _ _ _ _ _ V), (vw_prev _ _ _ _ _ V').
  unfold cproj, qproj, sproj_assets, bsproj. rewrite E1, E2, E3, E4, E5, E6.
  rewrite !eqb_refl, Z.eqb_refl. reflexivity.
Qed.

(** *** the C03 monitor on one model step *)
Lemma p03_step k nd s c po o code0 : Inv s -> Strict s -> wf_op s (to_op k c) -> op_wf k c = true ->
  Tbl k (step s (to_op k c)) -> Vw k nd s code0 po ->
  Vw k nd (step s (to_op k c)) (if step_ok s (to_op k c) then 0 else 1) o ->
  p03 k true po c o = 0.
Proof.
  intros I S W OW T V V'.
  destruct (is_setparams c) eqn:Hsp.
  { destruct c; try discriminate. exact (p03_setparams k nd s _ _ po o code0 _ V V'). }
  assert (Hns : forall who P', to_op k c <> SetParams who P') by (destruct c; try discriminate; intros; discriminate).
  destruct (step_facts k s (to_op k c) I S W Hns T) as (evs & F).
  pose proof (sf_moves k nd s _ evs F po o _ _ V V') as Hmv.
  pose proof (sf_sm k nd s _ evs F po o _ _ V V') as Hsm.
  assert (Hrej : step_ok s (to_op k c) = false -> same_view po o = true).
  { intros Hr. rewrite (rejected_changes_nothing _ _ Hr) in V'. exact (same_view_Vw k nd s _ _ po o V V'). }
  unfold p03. rewrite Hmv, Hsm.
  destruct c as [idx m|who idx secret|dts|n dt|gw gP].
  - (* create *)
    rewrite (vw_code _ _ _ _ _ V'). cbn [to_op] in *. destruct (step_ok s (Create m)) eqn:Hok; cbn [Z.eqb negb].
    2:{ rewrite (Hrej eq_refl). reflexivity. }
    unfold op_wf in OW. apply (proj1 (eqb_true_iff _ _)) in OW.
    unfold step_ok in Hok. cbn [exec] in Hok. unfold step in *. cbn [exec] in *.
    destruct (create s m) as [s'|] eqn:Hc; [|discriminate].
    destruct (create_open_rel s m s' I W Hc) as (dr & R).
    pose proof (inv_wfc _ (sf_inv' _ _ _ _ F) _ _ (get_In _ _ _ (eq_trans (f_equal (get (id_of m)) (or_contracts _ _ _ _ R)) (get_set_same _ _ _)))) as Wn.
    rewrite (vw_contracts _ _ _ _ _ V), (vw_contracts _ _ _ _ _ V'), (vw_height _ _ _ _ _ V).
    rewrite (cproj_set k s s' idx (id_of m) _ (tb_nodup _ _ T) OW (or_contracts _ _ _ _ R)).
    destruct (nthZ_Some _ _ _ OW) as [Hi Hn].
    assert (Hlen : (Z.to_nat idx < length (cproj k s))%nat)
      by (unfold cproj; rewrite map_length; apply nth_error_Some; congruence).
    assert (Hp : nthZ idx (cproj k s) = Some None).
    { unfold cproj. rewrite nthZ_map, OW. simpl. rewrite (or_fresh _ _ _ _ R). reflexivity. }
    rewrite Hp.
    assert (Hq : nthZ idx (replace_at (Z.to_nat idx) (Some (proj_contract (new_contract s m dr))) (cproj k s))
                 = Some (Some (proj_contract (new_contract s m dr)))).
    { unfold nthZ. replace (idx <? 0) with false by (symmetry; apply Z.ltb_ge; exact Hi).
      clear - Hlen. revert Hlen. generalize (Z.to_nat idx). generalize (cproj k s).
      induction l as [|y l IH]; intros [|i] H; simpl in *; try lia; [reflexivity|apply IH; lia]. }
    rewrite Hq. rewrite eqb_refl.
    destruct Wn as (_ & _ & _ & _ & _ & _ & _ & Hkind).
    unfold new_contract, proj_contract, c_state_of, c_closed_of, c_exp_of, c_ts_of, c_tr_of, c_dir_of in *. cbn in *.
    rewrite !Z.eqb_refl. destruct (m_transfer m); cbn.
    + destruct Hkind as [_ Hd]. destruct dr; [congruence|reflexivity|reflexivity].
    + rewrite Hkind. reflexivity.
  - (* claim *)
    rewrite (vw_code _ _ _ _ _ V'). cbn [to_op] in *. set (id := id_at k idx) in *.
    assert (Hexp : (match nthZ idx (o_contracts po) with
                    | Some (Some p') => (c_state_of p' =? 0) && eqb (secret, c_ts_of p') (id_hl id) && (0 <=? who)
                    | _ => false end) = step_ok s (Claim who id secret)).
    { rewrite (vw_contracts _ _ _ _ _ V). unfold cproj. rewrite nthZ_map.
      apply eq_true_iff_eq. rewrite (claim_iff_preimage_lemma s who id secret I).
      unfold id, id_at. destruct (nthZ idx (k_ids k)) as [id0|] eqn:Hn; simpl.
      - destruct (get id0 (st_contracts s)) as [c0|] eqn:Hg; simpl.
        + pose proof (inv_wfc _ I _ _ (get_In _ _ _ Hg)) as W0. destruct (id_fields _ _ _ W0) as (Hhl & _).
          unfold proj_contract, c_state_of, c_ts_of, secret_ok, addr_ok. rewrite Hhl. rewrite !andb_true_iff. split.
          * intros [[H1 H2] H3]. split; [exact H3|]. exists c0. split; [reflexivity|]. split; [|exact H2].
            destruct (c_state c0); simpl in H1; [reflexivity|discriminate|discriminate].
          * intros (H3 & c1 & E & Ho & H2). inversion E; subst c1. rewrite Ho. auto.
        + split; [discriminate|]. intros (_ & c1 & E & _). discriminate.
      - split; [discriminate|]. intros (_ & c1 & E & _). rewrite (dummy_absent s I) in E. discriminate. }
    rewrite Hexp. destruct (step_ok s (Claim who id secret)) eqn:Hok; cbn [Z.eqb negb eqb].
    2:{ rewrite eqb_refl. cbn. rewrite (Hrej eq_refl). reflexivity. }
    rewrite eqb_refl. cbn [negb].
    destruct (claim_effect_lemma s who id secret I S Hok) as (c0 & Hg & Ho & Hsec & Hlt & Hg' & _).
    pose proof (claim_spec s who id secret I) as Hs. unfold step in *. cbn [exec] in *.
    destruct (claim s who id secret) as [s'|] eqn:Hcl; [|unfold step_ok in Hok; cbn [exec] in Hok; rewrite Hcl in Hok; discriminate].
    destruct Hs as (_ & c1 & Hg1 & _ & _ & R). rewrite Hg in Hg1. inversion Hg1; subst c1.
    assert (Hn : nthZ idx (k_ids k) = Some id).
    { unfold id, id_at in *. destruct (nthZ idx (k_ids k)) as [id0|] eqn:Hn; [reflexivity|].
      rewrite (dummy_absent s I) in Hg. discriminate. }
    rewrite (vw_contracts _ _ _ _ _ V), (vw_contracts _ _ _ _ _ V'), (vw_height _ _ _ _ _ V').
    rewrite (cproj_set k s s' idx id _ (tb_nodup _ _ T) Hn (cr_contracts _ _ _ _ _ R)).
    destruct (nthZ_Some _ _ _ Hn) as [Hi Hn'].
    assert (Hlen : (Z.to_nat idx < length (cproj k s))%nat)
      by (unfold cproj; rewrite map_length; apply nth_error_Some; congruence).
    assert (Hp : nthZ idx (cproj k s) = Some (Some (proj_contract c0))).
    { unfold cproj. rewrite nthZ_map, Hn. simpl. rewrite Hg. reflexivity. }
    rewrite Hp.
    assert (Hq : nthZ idx (replace_at (Z.to_nat idx) (Some (proj_contract (close c0 Completed (st_height s)))) (cproj k s))
                 = Some (Some (proj_contract (close c0 Completed (st_height s))))).
    { unfold nthZ. replace (idx <? 0) with false by (symmetry; apply Z.ltb_ge; exact Hi).
      clear - Hlen. revert Hlen. generalize (Z.to_nat idx). generalize (cproj k s).
      induction l as [|y l IH]; intros [|i] H; simpl in *; try lia; [reflexivity|apply IH; lia]. }
    rewrite Hq, eqb_refl, (cr_height _ _ _ _ _ R).
    unfold proj_contract, c_state_of, c_closed_of, static_of, c_exp_of, c_ts_of, c_tr_of, c_dir_of. cbn.
    rewrite Z.eqb_refl, eqb_refl. reflexivity.
  - (* block boundaries *)
    cbv zeta. cbn [to_op step_ok exec] in V'.
    match goal with |- first_nonzero [_; (if ?b then _ else _); _] = 0 => replace b with true; [reflexivity|symmetry] end.
    exact (adv_due_live k nd s dts po o code0 I S V V').
  - cbv zeta. cbn [to_op step_ok exec] in V'.
    match goal with |- first_nonzero [_; (if ?b then _ else _); _] = 0 => replace b with true; [reflexivity|symmetry] end.
    exact (adv_due_live k nd s (repeat dt (Z.to_nat n)) po o code0 I S V V').
  - discriminate Hsp.
Qed.

(** *** the C04 monitor on one model state *)
Lemma sum_where_eq k o pred d (Pf : cid -> option cobs) : o_contracts o = map Pf (k_ids k) ->
  sum_where k o pred d
  = zsum (map (fun id => match Pf id with Some c' => if pred c' then amt_of (id_amount id) d else 0 | None => 0 end) (k_ids k)).
Proof.
  intros Hc. unfold sum_where. rewrite Hc.
  assert (G : forall l a0,
    fold3 (fun (id : cid) (c : option cobs) (_ : unit) (acc : Z) =>
             match c with Some c' => if pred c' then acc + amt_of (id_amount id) d else acc | None => acc end)
          l (map Pf l) (map (fun _ : cid => tt) l) a0
    = a0 + zsum (map (fun id => match Pf id with Some c' => if pred c' then amt_of (id_amount id) d else 0 | None => 0 end) l)).
  { induction l as [|id l IH]; intros a0; simpl; [lia|].
    destruct (Pf id) as [c'|]; [destruct (pred c')|]; rewrite IH; lia. }
  rewrite G. lia.
Qed.

Definition wci (d : denom) (c : contract) : Z := if complb c && is_in c then amt c d else 0.
Definition wco (d : denom) (c : contract) : Z := if complb c && is_out c then amt c d else 0.

Lemma w_cur_split d c : w_cur d c = wci d c - wco d c.
Proof.
  unfold w_cur, wci, wco, is_in, is_out. destruct (complb c), (c_transfer c), (c_dir c); simpl; lia.
Qed.

(** the part of a view the C04 monitor reads *)
Record Vw4 (k : case) (nd : nat) (s : state) (o : obs) : Prop := mkVw4 {
  v4_contracts : o_contracts o = cproj k s;
  v4_bals : o_bals o = mat (accounts k) nd (bal (st_bank s));
  v4_sups : o_sups o = sproj_assets k s;
  v4_bsups : o_bsups o = bsproj k s }.

Lemma Vw_Vw4 k nd s code o : Vw k nd s code o -> Vw4 k nd s o.
Proof. intros V. constructor; apply V. Qed.

Section SumWhere.
  Context (k : case) (nd : nat) (s : state) (o : obs) (I : Inv s) (T : Tbl k s) (V : Vw4 k nd s o).

  Lemma sum_where_wsum (pred : cobs -> bool) (w : denom -> contract -> Z) d :
    (forall c, (if pred (proj_contract c) then amt c d else 0) = w d c) ->
    sum_where k o pred d = wsum (w d) (st_contracts s).
  Proof.
    intros Hw. rewrite (sum_where_eq k o pred d (Pof s)) by (rewrite (v4_contracts _ _ _ _ V); reflexivity).
    rewrite <- (table_sum (fun id oc => match oc with Some c => if pred (proj_contract c) then amt_of (id_amount id) d else 0 | None => 0 end)
                          (w d) (k_ids k) (tb_nodup _ _ T) (fun _ : cid => eq_refl) (st_contracts s) (inv_keys _ I)).
    - apply zsum_map_ext. intros id _. unfold Pof. destruct (get id (st_contracts s)); reflexivity.
    - intros id c Hin. destruct (In_get _ _ _ Hin) as (c' & Hg). split; [exact (tb_complete _ _ T _ _ Hg)|].
      destruct (id_fields _ _ _ (inv_wfc _ I _ _ Hin)) as (_ & _ & _ & Ha). rewrite Ha. exact (Hw c).
  Qed.

  Lemma sw_esc d : sum_where k o (fun c => is_open c && locks c) d = wsum (w_esc d) (st_contracts s).
  Proof.
    apply sum_where_wsum. intros c. rewrite locks_proj. unfold w_esc, is_open, openb, proj_contract, c_state_of.
    destruct (c_state c); reflexivity.
  Qed.

  Lemma sw_in d : sum_where k o (fun c => is_open c && (c_tr_of c =? 1) && (c_dir_of c =? 1)) d = wsum (w_in d) (st_contracts s).
  Proof.
    apply sum_where_wsum. intros c. unfold w_in, is_open, openb, is_in, proj_contract, c_state_of, c_tr_of, c_dir_of.
    destruct (c_state c), (c_transfer c), (c_dir c); reflexivity.
  Qed.

  Lemma sw_out d : sum_where k o (fun c => is_open c && (c_tr_of c =? 1) && (c_dir_of c =? 2)) d = wsum (w_out d) (st_contracts s).
  Proof.
    apply sum_where_wsum. intros c. unfold w_out, is_open, openb, is_out, proj_contract, c_state_of, c_tr_of, c_dir_of.
    destruct (c_state c), (c_transfer c), (c_dir c); reflexivity.
  Qed.

  Lemma sw_ci d : sum_where k o (fun c => (c_state_of c =? 1) && (c_tr_of c =? 1) && (c_dir_of c =? 1)) d = wsum (wci d) (st_contracts s).
  Proof.
    apply sum_where_wsum. intros c. unfold wci, complb, is_in, proj_contract, c_state_of, c_tr_of, c_dir_of.
    destruct (c_state c), (c_transfer c), (c_dir c); reflexivity.
  Qed.

  Lemma sw_co d : sum_where k o (fun c => (c_state_of c =? 1) && (c_tr_of c =? 1) && (c_dir_of c =? 2)) d = wsum (wco d) (st_contracts s).
  Proof.
    apply sum_where_wsum. intros c. unfold wco, complb, is_out, proj_contract, c_state_of, c_tr_of, c_dir_of.
    destruct (c_state c), (c_transfer c), (c_dir c); reflexivity.
  Qed.
End SumWhere.

(** the monitor's window bookkeeping agrees with the model's, for the time-limited assets *)
Definition WsRel (k : case) (s : state) (ws : list (Z * Z)) : Prop :=
  forall p w, In (p, w) (combine (k_params k) ws) ->
    option_map as_el (get (ap_denom p) (st_assets s)) = Some (fst w) /\ snd w = sup_of (st_win s) (ap_denom p).

Lemma In_combine4 {P S B W} (FS : P -> S) (FB : P -> B) : forall (l : list P) (ws : list W) x,
  In x (combine (combine (combine l (map FS l)) (map FB l)) ws) ->
  exists p w, In p l /\ In (p, w) (combine l ws) /\ x = (p, FS p, FB p, w).
Proof.
  induction l as [|p l IH]; intros ws x Hin; simpl in Hin; [destruct Hin|].
  destruct ws as [|w ws]; [destruct Hin|]. simpl in Hin. destruct Hin as [E|Hin].
  - exists p, w. split; [left; reflexivity|]. split; [left; reflexivity|]. symmetry. exact E.
  - destruct (IH ws x Hin) as (p' & w' & H1 & H2 & H3). exists p', w'. split; [right; exact H1|]. split; [right; exact H2|exact H3].
Qed.

Lemma p04_state4 k nd s o ws : Inv s -> Tbl k s -> Vw4 k nd s o -> WsRel k s ws -> p04 k true (st_params s) o ws = 0.
Proof.
  intros I T V WR. pose proof (Inv_C04_of_Inv s I) as [Hesc Hasset].
  assert (Hd : denoms_of o = zseq nd) by (unfold denoms_of; rewrite (v4_bals _ _ _ _ V), mat_hd_length; reflexivity).
  assert (Hrow : nthZ (k_nactors k) (o_bals o) = Some (map (fun d => bal (st_bank s) ESC d) (zseq nd))).
  { rewrite (v4_bals _ _ _ _ V). unfold mat. rewrite nthZ_map. unfold nthZ.
    destruct (tb_nact _ _ T) as [H0 H1]. replace (k_nactors k <? 0) with false by (symmetry; apply Z.ltb_ge; exact H0).
    pose proof (accounts_nth k ESC (tb_nact _ _ T) (ESC_party k)) as Hn. unfold row_index in Hn. rewrite Z.eqb_refl in Hn.
    rewrite Hn. reflexivity. }
  assert (Hper : forall f : aparam -> (Z * Z * Z * Z * Z) -> Z -> Z * Z -> bool,
            (forall p w a, In p (k_params k) -> In (p, w) (combine (k_params k) ws) ->
                           get (ap_denom p) (st_assets s) = Some a ->
                           f p (as_in a, as_out a, as_cur a, as_tlc a, as_el a) (sup_of (st_supply s) (ap_denom p)) w = true) ->
            forallb (fun x : aparam * option (Z * Z * Z * Z * Z) * Z * (Z * Z) =>
                       let '(p, s0, b, w) := x in match s0 with Some s' => f p s' b w | None => false end)
                    (combine (combine (combine (k_params k) (o_sups o)) (o_bsups o)) ws) = true).
  { intros f Hf. rewrite (v4_sups _ _ _ _ V), (v4_bsups _ _ _ _ V). unfold sproj_assets, bsproj.
    apply forallb_forall. intros x Hx. destruct (In_combine4 _ _ _ _ _ Hx) as (p & w & Hp & Hpw & ->).
    destruct (tbl_lookup k s p T Hp) as (p1 & Hgp & _ & _).
    destruct (inv_asset _ I _ _ Hgp) as (a & Ha & _). rewrite Ha. simpl. exact (Hf p w a Hp Hpw Ha). }
  unfold p04. rewrite Hrow, Hd.
  replace (eqb (map (fun d => bal (st_bank s) ESC d) (zseq nd))
               (map (fun d => sum_where k o (fun c => is_open c && locks c) d) (zseq nd))) with true.
  2:{ symmetry. apply eqb_true_iff. apply map_ext. intros d. rewrite (sw_esc k nd s o I T V d). exact (Hesc d). }
  cbn [negb].
  rewrite Hper.
  2:{ intros p w a Hp Hpw Ha.
      destruct (tbl_lookup k s p T Hp) as (p1 & Hgp & _ & _).
      destruct (Hasset _ _ Hgp) as (a0 & Ha0 & Hin & Hout & _). rewrite Ha in Ha0. inversion Ha0; subst a0.
      rewrite (sw_in k nd s o I T V), (sw_out k nd s o I T V), <- Hin, <- Hout, !Z.eqb_refl. reflexivity. }
  cbn [negb].
  rewrite Hper.
  2:{ intros p w a Hp Hpw Ha.
      destruct (tbl_lookup k s p T Hp) as (p1 & Hgp & _ & _).
      destruct (Hasset _ _ Hgp) as (a0 & Ha0 & _ & _ & Hcur & Hsup & _). rewrite Ha in Ha0. inversion Ha0; subst a0.
      rewrite (sw_ci k nd s o I T V), (sw_co k nd s o I T V), <- wsum_sub.
      rewrite <- (wsum_ext (w_cur (ap_denom p)) _ _ (fun _ c _ => w_cur_split (ap_denom p) c)).
      rewrite Hsup, <- Hcur, !Z.eqb_refl. reflexivity. }
  cbn [negb].
  rewrite Hper; [reflexivity|].
  intros p w a Hp Hpw Ha.
  destruct (tbl_lookup k s p T Hp) as (p1 & Hgp & _ & _). rewrite Hgp.
  destruct (Hasset _ _ Hgp) as (a0 & Ha0 & _ & _ & _ & _ & Hlim & Hoc & Htl). rewrite Ha in Ha0. inversion Ha0; subst a0.
  apply andb_true_iff. split; [apply andb_true_iff; split; [apply andb_true_iff; split|]|]; try (apply Z.leb_le; lia).
  destruct (ap_tl p1) eqn:Etl; [|reflexivity]. cbn. destruct (Htl eq_refl) as (_ & _ & Hw).
  destruct (WR p w Hpw) as [_ Hsw]. rewrite Hsw. apply Z.leb_le. exact Hw.
Qed.

Lemma p04_state k nd s code o ws : Inv s -> Tbl k s -> Vw k nd s code o -> WsRel k s ws -> p04 k true (st_params s) o ws = 0.
Proof. intros I T V WR. exact (p04_state4 k nd s o ws I T (Vw_Vw4 _ _ _ _ _ V) WR). Qed.


(** ** Part E: the monitor's window bookkeeping follows the model *)
Definition elmap (s : state) (d : denom) : option Z := option_map as_el (get d (st_assets s)).
Definition Quiet (s s' : state) : Prop :=
  (forall d, elmap s' d = elmap s d) /\ st_time s' = st_time s /\ st_prev s' = st_prev s.

Lemma Quiet_refl s : Quiet s s.
Proof. repeat split; reflexivity. Qed.
Lemma Quiet_trans s1 s2 s3 : Quiet s1 s2 -> Quiet s2 s3 -> Quiet s1 s3.
Proof. intros (E1 & T1 & P1) (E2 & T2 & P2). split; [intros d; rewrite E2; apply E1|]. split; congruence. Qed.
Lemma Quiet_same s s' : st_assets s' = st_assets s -> st_time s' = st_time s -> st_prev s' = st_prev s -> Quiet s s'.
Proof. intros Ha Ht Hp. split; [intros d; unfold elmap; rewrite Ha; reflexivity|]. auto. Qed.

Definition keeps_el (f : aparam -> asup -> option asup) : Prop := forall p a a', f p a = Some a' -> as_el a' = as_el a.

Ltac keeps_el_tac := intros p a a'; cbv beta delta [inc_current dec_current inc_incoming dec_incoming inc_outgoing dec_outgoing];
  repeat match goal with |- context [if ?b then _ else _] => destruct b end; intros H; inversion H; reflexivity.
Lemma ke_inc_current x : keeps_el (inc_current x). Proof. keeps_el_tac. Qed.
Lemma ke_dec_current x : keeps_el (dec_current x). Proof. keeps_el_tac. Qed.
Lemma ke_inc_incoming x : keeps_el (inc_incoming x). Proof. keeps_el_tac. Qed.
Lemma ke_dec_incoming x : keeps_el (dec_incoming x). Proof. keeps_el_tac. Qed.
Lemma ke_inc_outgoing x : keeps_el (inc_outgoing x). Proof. keeps_el_tac. Qed.
Lemma ke_dec_outgoing x : keeps_el (dec_outgoing x). Proof. keeps_el_tac. Qed.

Lemma with_asset_quiet s d f s' : keeps_el f -> with_asset s d f = Some s' -> Quiet s s' /\ st_win s' = st_win s.
Proof.
  intros Hk H. destruct (with_asset_Some _ _ _ _ H) as (a & p & a' & Ha & _ & Hf & ->).
  split; [|reflexivity]. split; [|split; reflexivity]. intros d0. unfold elmap. sproj. rewrite get_set.
  destruct (eq_dec d0 d) as [->|]; [|reflexivity]. rewrite Ha. simpl. f_equal. exact (Hk _ _ _ Hf).
Qed.

Lemma with_supply_quiet s d f s' : keeps_el f -> with_supply s d f = Some s' -> Quiet s s' /\ st_win s' = st_win s.
Proof.
  intros Hk H. destruct (with_supply_Some _ _ _ _ H) as (a & a' & Ha & Hf & ->).
  split; [|reflexivity]. split; [|split; reflexivity]. intros d0. unfold elmap. sproj. rewrite get_set.
  destruct (eq_dec d0 d) as [->|]; [|reflexivity]. rewrite Ha. simpl. f_equal. exact (Hk _ _ _ Hf).
Qed.

Definition QuietW (s s' : state) : Prop := Quiet s s' /\ st_win s' = st_win s.
Lemma QuietW_refl s : QuietW s s. Proof. split; [apply Quiet_refl|reflexivity]. Qed.
Lemma QuietW_trans s1 s2 s3 : QuietW s1 s2 -> QuietW s2 s3 -> QuietW s1 s3.
Proof. intros [Q1 W1] [Q2 W2]. split; [exact (Quiet_trans _ _ _ Q1 Q2)|congruence]. Qed.
Lemma QuietW_same s s' : st_assets s' = st_assets s -> st_time s' = st_time s -> st_prev s' = st_prev s -> st_win s' = st_win s -> QuietW s s'.
Proof. intros. split; [apply Quiet_same; assumption|assumption]. Qed.

Lemma lock_coins_quiet s id from amt s' : lock_coins s id from amt = Some s' -> QuietW s s'.
Proof. unfold lock_coins. destruct (send_coins _ _ _ _); [|discriminate]. intros H; inversion H. apply QuietW_same; reflexivity. Qed.
Lemma pay_out_quiet s id r amt s' : pay_out s id r amt = Some s' -> QuietW s s'.
Proof. unfold pay_out. destruct (blocked r); [discriminate|]. destruct (send_coins _ _ _ _); [|discriminate]. intros H; inversion H. apply QuietW_same; reflexivity. Qed.
Lemma burn_quiet s id amt s' : burn s id amt = Some s' -> QuietW s s'.
Proof. unfold burn. destruct (debit_coins _ _ _); [|discriminate]. intros H; inversion H. apply QuietW_same; reflexivity. Qed.

Lemma create_quiet s m s' : create s m = Some s' -> QuietW s s'.
Proof.
  unfold create. destruct (negb (create_basic m)); [discriminate|]. destruct (blocked (m_to m)); [discriminate|].
  destruct (m_to m =? ESC); [discriminate|].
  cbv zeta. destruct (has (id_of m) (st_contracts s)); [discriminate|]. destruct (m_transfer m).
  - destruct (create_htlt s m) as [[s1 dr]|] eqn:Hh; [|discriminate]. intros H; inversion H; subst s'.
    apply (QuietW_trans _ s1); [|apply QuietW_same; reflexivity].
    destruct (create_htlt_Some _ _ _ _ Hh) as (d & x & p & Ham & Hp & [[_ Hw]|[_ (s0 & Hw & Hl)]]).
    + exact (with_asset_quiet _ _ _ _ (ke_inc_incoming x) Hw).
    + exact (QuietW_trans _ _ _ (with_asset_quiet _ _ _ _ (ke_inc_outgoing x) Hw) (lock_coins_quiet _ _ _ _ _ Hl)).
  - destruct (lock_coins s (id_of m) (m_sender m) (m_amount m)) as [s1|] eqn:Hl; [|discriminate].
    intros H; inversion H; subst s'. apply (QuietW_trans _ s1); [exact (lock_coins_quiet _ _ _ _ _ Hl)|apply QuietW_same; reflexivity].
Qed.

Lemma refund_quiet s id c : QuietW s (refund s id c).
Proof.
  unfold refund. cbv zeta. destruct (c_transfer c).
  - destruct (c_amount c) as [|[d x] cs]; [apply QuietW_refl|]. destruct (c_dir c); [apply QuietW_refl| |].
    + destruct (with_supply s d (dec_incoming x)) as [s1|] eqn:H1; [|apply QuietW_refl].
      apply (QuietW_trans _ s1); [exact (with_supply_quiet _ _ _ _ (ke_dec_incoming x) H1)|apply QuietW_same; reflexivity].
    + destruct (with_supply s d (dec_outgoing x)) as [s1|] eqn:H1; [|apply QuietW_refl].
      apply (QuietW_trans _ s1); [exact (with_supply_quiet _ _ _ _ (ke_dec_outgoing x) H1)|].
      destruct (pay_out s1 id (c_sender c) ((d, x) :: cs)) as [s2|] eqn:H2; [|apply QuietW_refl].
      apply (QuietW_trans _ s2); [exact (pay_out_quiet _ _ _ _ _ H2)|apply QuietW_same; reflexivity].
  - destruct (pay_out s id (c_sender c) (c_amount c)) as [s1|] eqn:H1; [|apply QuietW_refl].
    apply (QuietW_trans _ s1); [exact (pay_out_quiet _ _ _ _ _ H1)|apply QuietW_same; reflexivity].
Qed.

Lemma refund_one_quiet h s id : QuietW s (refund_one h s id).
Proof.
  unfold refund_one. destruct (get id (st_contracts s)) as [c|].
  - apply (QuietW_trans _ (refund s id c)); [apply refund_quiet|apply QuietW_same; reflexivity].
  - apply QuietW_same; reflexivity.
Qed.

Lemma fold_quiet {A} (f : state -> A -> state) : (forall s x, QuietW s (f s x)) -> forall l s, QuietW s (fold_left f l s).
Proof. intros Hf. induction l as [|x l IH]; intros s; simpl; [apply QuietW_refl|]. exact (QuietW_trans _ _ _ (Hf s x) (IH _)). Qed.

(** a claim: clock and elapsed times untouched; the window grows by the completed incoming amount *)
Lemma claim_quiet_win s who id secret s' : claim s who id secret = Some s' ->
  Quiet s s' /\ exists c, get id (st_contracts s) = Some c
    /\ st_win s' = (if c_transfer c then match c_amount c, c_dir c with
                                        | (d, x) :: _, Incoming => set d (sup_of (st_win s) d + x) (st_win s)
                                        | _, _ => st_win s end
                    else st_win s).
Proof.
  unfold claim. destruct (negb (addr_ok who)); [discriminate|].
  destruct (get id (st_contracts s)) as [c|]; [|discriminate]. destruct (c_state c); try discriminate.
  destruct (negb (secret_ok c secret)); [discriminate|].
  destruct (c_transfer c) eqn:Htr.
  - destruct (claim_htlt s id c) as [s1|] eqn:Hb; [|discriminate]. intros H; inversion H; subst s'.
    split.
    + apply (Quiet_trans _ s1); [|apply Quiet_same; reflexivity].
      unfold claim_htlt in Hb. destruct (c_amount c) as [|[d x] cs]; [discriminate|]. destruct (c_dir c); [discriminate| |].
      * destruct (with_supply s d (dec_incoming x)) as [s2|] eqn:H1; [|discriminate].
        destruct (with_asset s2 d (inc_current x)) as [s3|] eqn:H2; [|discriminate].
        apply (Quiet_trans _ s2); [exact (proj1 (with_supply_quiet _ _ _ _ (ke_dec_incoming x) H1))|].
        apply (Quiet_trans _ s3); [exact (proj1 (with_asset_quiet _ _ _ _ (ke_inc_current x) H2))|].
        apply (Quiet_trans _ (add_win (mint s3 id ((d, x) :: cs)) d x)); [apply Quiet_same; reflexivity|].
        exact (proj1 (pay_out_quiet _ _ _ _ _ Hb)).
      * destruct (with_supply s d (dec_outgoing x)) as [s2|] eqn:H1; [|discriminate].
        destruct (with_supply s2 d (dec_current x)) as [s3|] eqn:H2; [|discriminate].
        apply (Quiet_trans _ s2); [exact (proj1 (with_supply_quiet _ _ _ _ (ke_dec_outgoing x) H1))|].
        apply (Quiet_trans _ s3); [exact (proj1 (with_supply_quiet _ _ _ _ (ke_dec_current x) H2))|].
        exact (proj1 (burn_quiet _ _ _ _ Hb)).
    + exists c. split; [reflexivity|]. rewrite Htr. unfold dequeue, set_contract. sproj.
      destruct (c_amount c) as [|[d x] cs] eqn:Ham; [unfold claim_htlt in Hb; rewrite Ham in Hb; discriminate|].
      rewrite (claim_htlt_win s id c s1 d x cs Ham Hb). destruct (c_dir c); reflexivity.
  - destruct (pay_out s id (c_to c) (c_amount c)) as [s1|] eqn:Hb; [|discriminate]. intros H; inversion H; subst s'.
    destruct (pay_out_quiet _ _ _ _ _ Hb) as [Q Wn]. split.
    + apply (Quiet_trans _ s1); [exact Q|apply Quiet_same; reflexivity].
    + exists c. split; [reflexivity|]. rewrite Htr. unfold dequeue, set_contract. sproj. exact Wn.
Qed.

Lemma msg_win s o : Inv s -> Strict s -> wf_op s o -> (forall dts, o <> Adv dts) -> (forall who P', o <> SetParams who P') ->
  Quiet s (step s o)
  /\ forall d, sup_of (st_win (step s o)) d
              = sup_of (st_win s) d + (wsum (wci d) (st_contracts (step s o)) - wsum (wci d) (st_contracts s)).
Proof.
  intros I S W Hna Hns. unfold step. destruct o as [m|who id secret|dts|gw gP]; [| |exfalso; exact (Hna dts eq_refl)|exfalso; exact (Hns _ _ eq_refl)]; cbn [exec].
  - destruct (create s m) as [s'|] eqn:Hc; [|split; [apply Quiet_refl|intros; lia]].
    destruct (create_quiet _ _ _ Hc) as [Q Wn]. split; [exact Q|]. intros d.
    destruct (create_open_rel s m s' I W Hc) as (dr & R).
    rewrite Wn, (or_contracts _ _ _ _ R), wsum_set, (or_fresh _ _ _ _ R). unfold wci at 2, complb, new_contract. cbn. lia.
  - pose proof (claim_spec s who id secret I) as Hs.
    destruct (claim s who id secret) as [s'|] eqn:Hc; [|split; [apply Quiet_refl|intros; lia]].
    destruct (claim_quiet_win _ _ _ _ _ Hc) as (Q & c & Hg & Hw). split; [exact Q|]. intros d.
    destruct Hs as (_ & c1 & Hg1 & Ho & _ & R). rewrite Hg in Hg1. inversion Hg1; subst c1.
    rewrite (cr_contracts _ _ _ _ _ R), wsum_set, Hg.
    destruct (inv_wfc _ I _ _ (get_In _ _ _ Hg)) as (_ & _ & _ & _ & _ & _ & _ & Hkind).
    unfold wci, complb, is_in, amt. cbn. rewrite Ho. cbn. rewrite Hw.
    destruct (c_transfer c); cbn; [|lia]. destruct Hkind as [(d0 & x & Ham & _) Hd]. rewrite Ham.
    destruct (c_dir c); cbn; try lia. rewrite sup_of_set. rewrite (Z.eqb_sym d d0). destruct (d0 =? d) eqn:E; [|lia].
    apply Z.eqb_eq in E. subst. lia.
Qed.

(** the monitor's update of its windows after a message *)
Definition termW (d : denom) (id : cid) (pc c : option cobs) : Z :=
  match pc, c with
  | Some p', Some c' =>
      if (c_state_of p' =? 0) && (c_state_of c' =? 1) && (c_tr_of c' =? 1) && (c_dir_of c' =? 1)
      then amt_of (id_amount id) d else 0
  | _, _ => 0
  end.

Definition Gci (d : denom) (oc : option contract) : Z := match oc with Some c => wci d c | None => 0 end.

Lemma termW_delta P d id h0 h1 oc oc' : ctrans h0 h1 oc oc' -> (forall c, oc' = Some c -> wfc P id c) ->
  termW d id (option_map proj_contract oc) (option_map proj_contract oc') = Gci d oc' - Gci d oc.
Proof.
  intros [oc0|c Ho Hc|c st h Ho Hst Hh] W.
  - destruct oc0 as [c|]; simpl; [|lia]. unfold c_state_of, proj_contract.
    destruct (state_code (c_state c) =? 0) eqn:E0; simpl; [|lia]. apply Z.eqb_eq in E0. rewrite E0. simpl. lia.
  - simpl. unfold wci, complb. rewrite Ho. simpl. lia.
  - pose proof (W _ eq_refl) as Wc. destruct (id_fields _ _ _ Wc) as (_ & _ & _ & Ha). cbn in Ha.
    simpl. unfold wci at 2, complb. rewrite Ho. cbn.
    rewrite Ha. unfold wci, complb, is_in, amt. cbn.
    destruct st; [congruence| |]; cbn; [|lia].
    destruct (c_transfer c); cbn; [|lia]. destruct (c_dir c); cbn; lia.
Qed.

Lemma wclaims_eq k po o ws (Pp Pc : cid -> option cobs) :
  o_contracts po = map Pp (k_ids k) -> o_contracts o = map Pc (k_ids k) ->
  wclaims k po o ws
  = map (fun pw : aparam * (Z * Z) =>
           (fst (snd pw), snd (snd pw) + zsum (map (fun id => termW (ap_denom (fst pw)) id (Pp id) (Pc id)) (k_ids k))))
        (combine (k_params k) ws).
Proof.
  intros Hp Hc. unfold wclaims. rewrite Hp, Hc. apply map_ext. intros [p [el w]]. cbn [fst snd]. f_equal.
  assert (G : forall l a0,
    fold3 (fun (id : cid) (pc c : option cobs) (acc : Z) =>
             match pc, c with
             | Some p', Some c' =>
                 if (c_state_of p' =? 0) && (c_state_of c' =? 1) && (c_tr_of c' =? 1) && (c_dir_of c' =? 1)
                 then acc + amt_of (id_amount id) (ap_denom p) else acc
             | _, _ => acc
             end) l (map Pp l) (map Pc l) a0
    = a0 + zsum (map (fun id => termW (ap_denom p) id (Pp id) (Pc id)) l)).
  { induction l as [|id l IH]; intros a0; simpl; [lia|]. rewrite IH. unfold termW.
    destruct (Pp id) as [p'|]; [|lia]. destruct (Pc id) as [c'|]; [|lia].
    destruct ((c_state_of p' =? 0) && (c_state_of c' =? 1) && (c_tr_of c' =? 1) && (c_dir_of c' =? 1)); lia. }
  rewrite G. lia.
Qed.

Lemma combine_map_snd {A B C} (g : A * B -> C) : forall (l : list A) (ws : list B),
  combine l (map g (combine l ws)) = map (fun pw => (fst pw, g pw)) (combine l ws).
Proof.
  induction l as [|a l IH]; intros ws; simpl; [reflexivity|]. destruct ws as [|w ws]; simpl; [reflexivity|].
  rewrite IH. reflexivity.
Qed.

Lemma WsRel_msg k nd s o code0 code po ob ws evs : StepFacts k s (step s o) evs -> Strict s -> wf_op s o ->
  (forall dts, o <> Adv dts) -> (forall who P', o <> SetParams who P') ->
  Vw k nd s code0 po -> Vw k nd (step s o) code ob -> WsRel k s ws -> WsRel k (step s o) (wclaims k po ob ws).
Proof.
  intros F S W Hna Hns V V' WR. pose proof (sf_inv _ _ _ _ F) as I. pose proof (sf_inv' _ _ _ _ F) as I'. pose proof (sf_tbl' _ _ _ _ F) as T.
  destruct (msg_win s o I S W Hna Hns) as ((Hel & _ & _) & Hwin).
  rewrite (wclaims_eq k po ob ws (Pof s) (Pof (step s o)))
    by (first [rewrite (vw_contracts _ _ _ _ _ V)|rewrite (vw_contracts _ _ _ _ _ V')]; reflexivity).
  intros p w Hin. rewrite combine_map_snd in Hin. apply in_map_iff in Hin.
  destruct Hin as ([p0 [el0 w0]] & E & Hin0). cbn [fst snd] in E. inversion E; subst p w. clear E.
  destruct (WR p0 (el0, w0) Hin0) as [He Hw]. cbn [fst snd] in *.
  split; [unfold elmap in Hel; rewrite (Hel (ap_denom p0)); exact He|].
  rewrite Hwin, Hw. f_equal.
  rewrite (zsum_map_ext _ (fun id => Gci (ap_denom p0) (get id (st_contracts (step s o))) - Gci (ap_denom p0) (get id (st_contracts s)))).
  2:{ intros id _. unfold Pof. apply (termW_delta (st_params (step s o)) _ id _ _ _ _ (sf_ct _ _ _ _ F id)).
      intros c Hc. exact (inv_wfc _ I' _ _ (get_In _ _ _ Hc)). }
  rewrite zsum_map_sub.
  rewrite (table_sum (fun _ oc => Gci (ap_denom p0) oc) (wci (ap_denom p0)) (k_ids k) (tb_nodup _ _ T) (fun _ : cid => eq_refl)
                     (st_contracts (step s o)) (inv_keys _ I')).
  2:{ intros id c Hi. split; [|reflexivity]. destruct (In_get _ _ _ Hi) as (c' & Hg). exact (tb_complete _ _ T _ _ Hg). }
  rewrite (table_sum (fun _ oc => Gci (ap_denom p0) oc) (wci (ap_denom p0)) (k_ids k) (tb_nodup _ _ T) (fun _ : cid => eq_refl)
                     (st_contracts s) (inv_keys _ I)).
  2:{ intros id c Hi. split; [|reflexivity]. destruct (In_get _ _ _ Hi) as (c' & Hg).
      exact (sf_complete k s _ evs F id c' Hg). }
  reflexivity.
Qed.

(** *** blocks *)
Definition tick_rule (el : Z) (p : aparam) (e w : Z) : Z * Z :=
  if ap_tl p && (e + el <? ap_period p) then (e + el, w) else (0, 0).

Lemma tick_other el s p d : d <> ap_denom p ->
  elmap (tick_asset el s p) d = elmap s d /\ sup_of (st_win (tick_asset el s p)) d = sup_of (st_win s) d.
Proof.
  intros Hne. unfold tick_asset, elmap. cbv zeta. sproj. rewrite get_set_other by exact Hne. split; [reflexivity|].
  destruct (ap_tl p && _); [reflexivity|]. rewrite sup_of_set.
  replace (d =? ap_denom p) with false by (symmetry; apply Z.eqb_neq; exact Hne). reflexivity.
Qed.

Lemma tick_at el s p a : get (ap_denom p) (st_assets s) = Some a ->
  elmap (tick_asset el s p) (ap_denom p) = Some (fst (tick_rule el p (as_el a) (sup_of (st_win s) (ap_denom p))))
  /\ sup_of (st_win (tick_asset el s p)) (ap_denom p) = snd (tick_rule el p (as_el a) (sup_of (st_win s) (ap_denom p))).
Proof.
  intros Ha. destruct (window_reset_rule el s p a Ha) as [Hw He]. unfold elmap, tick_rule. rewrite He, Hw.
  destruct (ap_tl p && (as_el a + el <? ap_period p)); split; reflexivity.
Qed.

Lemma tick_fold_at el : forall l s, NoDup (map ap_denom l) ->
  (forall p a, In p l -> get (ap_denom p) (st_assets s) = Some a ->
     elmap (fold_left (tick_asset el) l s) (ap_denom p) = Some (fst (tick_rule el p (as_el a) (sup_of (st_win s) (ap_denom p))))
     /\ sup_of (st_win (fold_left (tick_asset el) l s)) (ap_denom p) = snd (tick_rule el p (as_el a) (sup_of (st_win s) (ap_denom p))))
  /\ (forall d, ~ In d (map ap_denom l) ->
        elmap (fold_left (tick_asset el) l s) d = elmap s d /\ sup_of (st_win (fold_left (tick_asset el) l s)) d = sup_of (st_win s) d).
Proof.
  induction l as [|p0 l IH]; intros s Hnd; simpl.
  - split; [intros p a []|]. intros d _. split; reflexivity.
  - inversion Hnd as [|? ? Hni Hnd']; subst. destruct (IH (tick_asset el s p0) Hnd') as [IHa IHo]. split.
    + intros p a [->|Hin] Ha.
      * destruct (IHo (ap_denom p) Hni) as [E1 E2]. rewrite E1, E2. exact (tick_at el s p a Ha).
      * assert (Hne : ap_denom p <> ap_denom p0) by (intros E; apply Hni; rewrite <- E; apply in_map; exact Hin).
        destruct (tick_other el s p0 (ap_denom p) Hne) as [E1 E2].
        assert (Ha' : exists a', get (ap_denom p) (st_assets (tick_asset el s p0)) = Some a' /\ as_el a' = as_el a).
        { destruct (get (ap_denom p) (st_assets (tick_asset el s p0))) as [a'|] eqn:G.
          - exists a'. split; [reflexivity|]. unfold elmap in E1. rewrite G, Ha in E1. simpl in E1. congruence.
          - unfold elmap in E1. rewrite G, Ha in E1. discriminate. }
        destruct Ha' as (a' & Ha' & Hel). destruct (IHa p a' Hin Ha') as [F1 F2]. rewrite F1, F2, Hel, E2. split; reflexivity.
    + intros d Hd. destruct (IHo d (fun H => Hd (or_intror H))) as [E1 E2].
      destruct (tick_other el s p0 d (fun E => Hd (or_introl (eq_sym E)))) as [G1 G2]. rewrite E1, E2, G1, G2. split; reflexivity.
Qed.

Lemma refund_fold_params h : forall l s2, st_params (fold_left (refund_one h) l s2) = st_params s2.
Proof.
  induction l as [|id l IH]; intros s2; simpl; [reflexivity|]. rewrite IH. unfold refund_one, dequeue. sproj.
  destruct (get id (st_contracts s2)) as [c|]; [|reflexivity].
  unfold refund. cbv zeta. destruct (c_transfer c).
  - destruct (c_amount c) as [|[d x] cs]; [reflexivity|]. destruct (c_dir c); [reflexivity| |].
    + destruct (with_supply s2 d (dec_incoming x)) as [s3|] eqn:Hw; [|reflexivity].
      destruct (with_supply_Some _ _ _ _ Hw) as (? & ? & _ & _ & ->). reflexivity.
    + destruct (with_supply s2 d (dec_outgoing x)) as [s3|] eqn:Hw; [|reflexivity].
      destruct (with_supply_Some _ _ _ _ Hw) as (? & ? & _ & _ & ->). unfold pay_out.
      destruct (blocked (c_sender c)); [reflexivity|]. sproj. destruct (send_coins _ _ _ _); reflexivity.
  - unfold pay_out. destruct (blocked (c_sender c)); [reflexivity|]. destruct (send_coins _ _ _ _); reflexivity.
Qed.

Definition PrevInv (s : state) : Prop := st_prev s = st_time s.

Lemma wtick_in_force P dt p0 p e w : get_param P (ap_denom p0) = Some p -> wtick P dt (p0, (e, w)) = tick_rule dt p e w.
Proof. intros H. unfold wtick, tick_rule. rewrite H. reflexivity. Qed.

Definition PInv (k : case) (s : state) : Prop := k_params k <> [] -> PrevInv s.

Lemma WsRel_nil k s ws : k_params k = [] -> WsRel k s ws.
Proof. intros E p w Hin. rewrite E in Hin. destruct Hin. Qed.

Lemma begin_block_ws k s dt ws : Inv s -> Tbl k s -> PInv k s -> WsRel k s ws ->
  WsRel k (begin_block s dt) (map (wtick (st_params s) dt) (combine (k_params k) ws)) /\ PInv k (begin_block s dt).
Proof.
  intros I T HPrev WR. unfold begin_block. cbv zeta.
  set (s0 := new_block s dt). set (s1 := fold_left (refund_one (st_height s0)) (due (st_height s0) (st_queue s0)) s0).
  destruct (fold_quiet (refund_one (st_height s0)) (refund_one_quiet (st_height s0)) (due (st_height s0) (st_queue s0)) s0)
    as ((Hel & Ht & Hp) & Hwn). fold s1 in Hel, Ht, Hp, Hwn.
  assert (Hpar1 : st_params s1 = st_params s) by (unfold s1; rewrite refund_fold_params; reflexivity).
  destruct (k_params k) as [|u0 U] eqn:EU.
  { rewrite <- EU. split; [apply WsRel_nil; exact EU|intros Hne; exfalso; exact (Hne EU)]. }
  rewrite <- EU in *.
  assert (Hune : k_params k <> []) by (rewrite EU; discriminate).
  assert (Hpne : st_params s1 <> []).
  { rewrite Hpar1. destruct (tbl_lookup k s u0 T) as (p & _ & Hin & _); [rewrite EU; left; reflexivity|].
    intros E. rewrite E in Hin. destruct Hin. }
  unfold update_windows. destruct (st_params s1) as [|q0 Q] eqn:EP; [congruence|]. rewrite <- EP in *. clear q0 Q EP.
  assert (Hdt : st_time s1 - st_prev s1 = dt).
  { rewrite Ht, Hp. unfold s0, new_block. sproj. pose proof (HPrev Hune) as HPv. unfold PrevInv in HPv. lia. }
  rewrite Hdt. rewrite Hpar1. destruct (tick_fold_at dt (st_params s) s1 (tb_pnd _ _ T)) as [Hat _].
  split; [|intros _; unfold PrevInv; reflexivity].
  intros p0 w Hin. sproj. rewrite combine_map_snd in Hin. apply in_map_iff in Hin.
  destruct Hin as ([u [e0 w0]] & E & Hin0). cbn [fst] in E. inversion E; subst p0 w. clear E.
  destruct (WR u (e0, w0) Hin0) as [He Hw]. cbn [fst snd] in He, Hw.
  assert (Hu : In u (k_params k)) by (exact (in_combine_l _ _ _ _ Hin0)).
  destruct (tbl_lookup k s u T Hu) as (p1 & Hgp & Hp1 & Hd1).
  assert (Ha : exists a, get (ap_denom p1) (st_assets s1) = Some a /\ as_el a = e0).
  { rewrite Hd1. pose proof (Hel (ap_denom u)) as E1. unfold elmap in E1. change (st_assets s0) with (st_assets s) in E1. rewrite He in E1.
    destruct (get (ap_denom u) (st_assets s1)) as [a|] eqn:G; [|discriminate]. exists a. split; [reflexivity|]. simpl in E1. congruence. }
  destruct Ha as (a & Ha & Hae). destruct (Hat p1 a Hp1 Ha) as [F1 F2].
  unfold elmap in F1. rewrite Hgp. change (if ap_tl p1 && (e0 + dt <? ap_period p1) then (e0 + dt, w0) else (0, 0)) with (tick_rule dt p1 e0 w0).
  rewrite Hd1 in F1, F2. rewrite F1, F2, Hae, Hwn. change (st_win s0) with (st_win s). rewrite <- Hw.
  split; reflexivity.
Qed.

Lemma begin_block_tbl k s dt : Inv s -> Strict s -> Tbl k s -> Tbl k (begin_block s dt).
Proof.
  intros I S T. destruct (begin_block_spec s dt I S) as (_ & _ & _ & HP & Hc). destruct T as [T1 T2 T3 T4 T5 T6 T7].
  constructor; auto; try (rewrite HP; assumption).
  intros id c Hg. rewrite Hc in Hg. destruct (get id (st_contracts s)) as [c0|] eqn:G; [exact (T3 _ _ G)|discriminate].
Qed.

Lemma adv_ws k : forall dts s ws, Inv s -> Strict s -> Tbl k s -> PInv k s -> WsRel k s ws ->
  WsRel k (fold_left begin_block dts s) (wticks k (st_params s) ws dts) /\ PInv k (fold_left begin_block dts s).
Proof.
  unfold wticks. induction dts as [|dt dts IH]; intros s ws I S T HPv WR; simpl; [auto|].
  destruct (begin_block_spec s dt I S) as (I1 & S1 & _ & HP1 & _).
  destruct (begin_block_ws k s dt ws I T HPv WR) as [WR1 HPv1].
  pose proof (IH (begin_block s dt) _ I1 S1 (begin_block_tbl k s dt I S T) HPv1 WR1) as H. rewrite HP1 in H. exact H.
Qed.

(** ** Part F: the whole checker *)
Lemma nodupb_sound l : nodupb l = true -> NoDup l.
Proof.
  induction l as [|x l IH]; simpl; intros H; [constructor|].
  apply andb_true_iff in H. destruct H as [H1 H2]. constructor; [|exact (IH H2)].
  intros Hin. apply negb_true_iff in H1. assert (existsb (Z.eqb x) l = true); [|congruence].
  apply existsb_exists. exists x. split; [exact Hin|apply Z.eqb_refl].
Qed.

Lemma tbl_step k s c : Inv s -> Strict s -> wf_op s (to_op k c) -> op_wf k c = true -> Tbl k s -> Tbl k (step s (to_op k c)).
Proof.
  intros I S W OW T. destruct (step_inv s _ I S W) as (_ & _ & HP). destruct T as [T1 T2 T3 T4 T5 T6 T7].
  constructor; auto.
  - intros id c' Hg. destruct (get id (st_contracts s)) as [c0|] eqn:Hg0; [exact (T3 _ _ Hg0)|].
    destruct (created_open_lemma s _ id c' I S W Hg0 Hg) as (_ & _ & _ & m & Eo & ->).
    destruct c as [idx m'| | | |]; cbn [to_op] in Eo; try discriminate. inversion Eo; subst m'.
    unfold op_wf in OW. apply (proj1 (eqb_true_iff _ _)) in OW. destruct (nthZ_Some _ _ _ OW) as [_ Hn].
    exact (nth_error_In _ _ Hn).
  - rewrite HP. destruct c as [| | | |gw gP]; cbn [to_op params_after]; try exact T6.
    cbn [to_op] in W. unfold wf_op in W. destruct (step_ok s (SetParams gw gP)) eqn:Hok; [|exact T6].
    destruct (compat_b_sound s gP (W eq_refl)) as [SD _]. intros d. rewrite (T6 d). exact (SD d).
  - rewrite HP. destruct c as [| | | |gw gP]; cbn [to_op params_after]; try exact T7.
    destruct (step_ok s (SetParams gw gP)) eqn:Hok; [|exact T7].
    unfold step_ok in Hok. cbn [exec] in Hok. destruct ((gw =? GOV) && params_valid gP) eqn:E; [|discriminate].
    apply andb_true_iff in E. destruct E as [_ E]. unfold params_valid in E. apply andb_true_iff in E. destruct E as [_ E].
    exact (nodupb_sound _ E).
Qed.

(** the observations handed to the checker are the projections of the model's own states *)
Fixpoint trace_ok (k : case) (nd : nat) (s : state) (po : obs) (steps : list (cop * dobs)) : Prop :=
  match steps with
  | [] => True
  | (c, d) :: rest =>
      let s' := step s (to_op k c) in
      op_wf k c = true
      /\ Vw k nd s' (if step_ok s (to_op k c) then 0 else 1) (undiff po d)
      /\ trace_ok k nd s' (undiff po d) rest
  end.

Lemma termW_same d id p : termW d id p p = 0.
Proof.
  unfold termW. destruct p as [p'|]; [|reflexivity].
  destruct (c_state_of p' =? 0) eqn:E0; simpl; [|reflexivity]. apply Z.eqb_eq in E0. rewrite E0. reflexivity.
Qed.

Lemma WsRel_setparams k nd s who P' code0 code po o ws :
  Vw k nd s code0 po -> Vw k nd (step s (SetParams who P')) code o -> WsRel k s ws -> WsRel k s (wclaims k po o ws).
Proof.
  intros V V' WR. destruct (setparams_fields s who P') as (E1 & _).
  rewrite (wclaims_eq k po o ws (Pof s) (Pof s)).
  2:{ rewrite (vw_contracts _ _ _ _ _ V). reflexivity. }
  2:{ rewrite (vw_contracts _ _ _ _ _ V'). unfold cproj, Pof. rewrite E1. reflexivity. }
  intros p w Hin. rewrite combine_map_snd in Hin. apply in_map_iff in Hin.
  destruct Hin as ([p0 [el0 w0]] & E & Hin0). cbn [fst snd] in E. inversion E; subst p w. clear E.
  destruct (WR p0 (el0, w0) Hin0) as [He Hw]. cbn [fst snd] in *. split; [exact He|].
  rewrite (zsum_map_ext _ (fun _ => 0)) by (intros; apply termW_same).
  rewrite Hw. clear. induction (k_ids k); simpl; lia.
Qed.

Lemma check_from_pass k nd : forall steps s po ws i code0,
  Inv s -> Strict s -> Tbl k s -> Vw k nd s code0 po -> WsRel k s ws -> PInv k s ->
  wf_run s (map (fun cd : cop * dobs => to_op k (fst cd)) steps) -> trace_ok k nd s po steps ->
  check_from k true true s po ws steps i (mkV (-1) (-1) 0 (-1) 0) = mkV (-1) (-1) 0 (-1) 0.
Proof.
  induction steps as [|[c d] rest IH]; intros s po ws i code0 I S T V WR PV WF TR; [reflexivity|].
  cbn [map fst wf_run] in WF. destruct WF as [W WF']. destruct TR as (OW & V' & TR').
  cbn [check_from]. set (o := undiff po d) in *. set (s' := step s (to_op k c)) in *.
  destruct (step_inv s _ I S W) as (I' & S' & HP').
  pose proof (tbl_step k s c I S W OW T) as T'. fold s' in T', I', S', HP'.
  pose proof (Vw_corr _ _ _ _ _ V') as Hcorr.
  pose proof (p03_step k nd s c po o code0 I S W OW T' V V') as H03.
  (* an accepted parameter change of a well-formed history is compatible: the monitors stay on *)
  assert (Hinc : (match c with
                  | CSetParams _ P' => (o_code o =? 0) && negb (compat_b s P')
                  | _ => false
                  end) = false).
  { destruct c as [| | | |gw gP]; try reflexivity. cbn [to_op] in *. rewrite (vw_code _ _ _ _ _ V').
    unfold wf_op in W. destruct (step_ok s (SetParams gw gP)); [rewrite (W eq_refl); reflexivity|reflexivity]. }
  assert (Hdc : (match c with
                 | CSetParams _ P' => (o_code o =? 0) && negb (same_denoms_b s P')
                 | _ => false
                 end) = false).
  { destruct c as [| | | |gw gP]; try reflexivity. cbn [to_op] in *. rewrite (vw_code _ _ _ _ _ V').
    unfold wf_op in W. destruct (step_ok s (SetParams gw gP)); [|reflexivity].
    pose proof (W eq_refl) as Hc. unfold compat_b in Hc. apply andb_true_iff in Hc. destruct Hc as [Hc _]. rewrite Hc. reflexivity. }
  assert (HW : WsRel k s' (match c with
                           | CAdv dts => wticks k (o_params po) ws dts
                           | CAdvN n dt => wticks k (o_params po) ws (repeat dt (Z.to_nat n))
                           | _ => wclaims k po o ws
                           end) /\ PInv k s').
  { rewrite (vw_params _ _ _ _ _ V).
    destruct c as [idx m|who idx secret|dts|n dt|gw gP]; cbn [to_op] in *.
    - destruct (step_facts k s (Create m) I S W (fun _ _ => ltac:(discriminate)) T') as (evs & F).
      split; [apply (WsRel_msg k nd s (Create m) code0 (if step_ok s (Create m) then 0 else 1) po o ws evs F S W); [intros dts; discriminate|intros; discriminate|exact V|exact V'|exact WR]|].
      destruct (msg_win s (Create m) I S W (fun dts => ltac:(discriminate)) (fun _ _ => ltac:(discriminate))) as ((_ & Ht & Hp) & _).
      intros Hne. unfold PrevInv, s'. rewrite Ht, Hp. exact (PV Hne).
    - destruct (step_facts k s (Claim who (id_at k idx) secret) I S W (fun _ _ => ltac:(discriminate)) T') as (evs & F).
      split; [apply (WsRel_msg k nd s (Claim who (id_at k idx) secret) code0 (if step_ok s (Claim who (id_at k idx) secret) then 0 else 1) po o ws evs F S W); [intros dts; discriminate|intros; discriminate|exact V|exact V'|exact WR]|].
      destruct (msg_win s (Claim who (id_at k idx) secret) I S W (fun dts => ltac:(discriminate)) (fun _ _ => ltac:(discriminate))) as ((_ & Ht & Hp) & _).
      intros Hne. unfold PrevInv, s'. rewrite Ht, Hp. exact (PV Hne).
    - unfold s', step. cbn [exec]. exact (adv_ws k dts s ws I S T PV WR).
    - unfold s', step. cbn [exec]. exact (adv_ws k _ s ws I S T PV WR).
    - (* a parameter change touches neither the records nor the window ghosts nor the clock *)
      pose proof (WsRel_setparams k nd s gw gP code0 _ po o ws V V' WR) as WR1.
      destruct (setparams_fields s gw gP) as (_ & _ & _ & E4 & _ & E6 & E7 & E8 & _). fold s' in E4, E6, E7, E8.
      split.
      + intros p w Hin. destruct (WR1 p w Hin) as [A B]. rewrite E4, E7. auto.
      + intros Hne. unfold PrevInv. rewrite E6, E8. exact (PV Hne). }
  destruct HW as [WR' PV'].
  pose proof (p04_state k nd s' _ o _ I' T' V' WR') as H04. rewrite <- (vw_params _ _ _ _ _ V') in H04.
  rewrite OW, Hcorr, H03, Hinc, Hdc. cbn [andb negb]. rewrite H04. cbn.
  exact (IH s' o _ (i + 1) _ I' S' T' V' WR' PV' WF' TR').
Qed.

Definition table_ok (k : case) : Prop :=
  NoDup (k_ids k) /\ nact_ok k /\ NoDup (map ap_denom (k_params k))
  /\ forall id, In id (k_ids k) ->
       (id_sender id < k_nactors k \/ id_sender id = ESC \/ id_sender id = BLK)
       /\ (id_to id < k_nactors k \/ id_to id = ESC \/ id_to id = BLK)
       /\ denoms_nonneg (id_amount id).

Definition case_init (k : case) : state := init (k_params k) (bank_of k (k_obs0 k)) (o_time (k_obs0 k)).

Theorem model_passes_check_lemma (k : case) (nd : nat) :
  hyps_b k = true -> table_ok k ->
  Vw k nd (case_init k) 0 (k_obs0 k) ->
  trace_ok k nd (case_init k) (k_obs0 k) (k_steps k) ->
  check_case_C03 k = (-1, -1, 0) /\ check_case_C04 k = (-1, -1, 0).
Proof.
  intros H (T1 & T2 & T3 & T4) V0 TR.
  destruct (hyps_b_sound k H) as (HP & HE & WF).
  destruct (init_inv (k_params k) (bank_of k (k_obs0 k)) (o_time (k_obs0 k)) HP HE) as [I0 S0].
  assert (T0 : Tbl k (case_init k)).
  { constructor; auto; [intros id c Hg; discriminate|intros d; reflexivity]. }
  assert (WR0 : WsRel k (case_init k) (map (fun _ => (0, 0)) (k_params k))).
  { intros p w Hin. assert (Hp : In p (k_params k)) by exact (in_combine_l _ _ _ _ Hin).
    assert (Hw : w = (0, 0)).
    { apply in_combine_r in Hin. apply in_map_iff in Hin. destruct Hin as (? & E & _). congruence. }
    subst w. destruct (get_param_of_In _ _ Hp) as (p' & Hgp). unfold case_init, init. sproj.
    rewrite (init_assets _ _ _ Hgp). split; reflexivity. }
  assert (PV0 : PInv k (case_init k)) by (intros _; reflexivity).
  assert (WFs : wf_run (case_init k) (map (fun cd : cop * dobs => to_op k (fst cd)) (k_steps k))) by exact WF.
  pose proof (check_from_pass k nd (k_steps k) (case_init k) (k_obs0 k) _ 0 0 I0 S0 T0 V0 WR0 PV0 WFs TR) as HC.
  pose proof (p04_state k nd (case_init k) 0 (k_obs0 k) _ I0 T0 V0 WR0) as H04. rewrite <- (vw_params _ _ _ _ _ V0) in H04.
  pose proof (Vw_corr _ _ _ _ _ V0) as Hc0.
  assert (H0 : hyps0_b k = true).
  { unfold hyps_b in H. unfold hyps0_b. apply andb_true_iff in H. destruct H as [H12 H3]. rewrite H12. simpl.
    revert H3. generalize (init (k_params k) (bank_of k (k_obs0 k)) (o_time (k_obs0 k))). generalize (case_ops k).
    induction l as [|o l IHl]; intros s0 H3; simpl in *; [reflexivity|].
    apply andb_true_iff in H3. destruct H3 as [Ho Hl]. rewrite (IHl _ Hl), andb_true_r.
    destruct o; simpl in *; try reflexivity. exact Ho. }
  unfold check_case_C03, check_case_C04, check_all. fold (case_init k).
  rewrite Hc0, H0, H04. cbn [andb Z.eqb]. rewrite HC. split; reflexivity.
Qed.
