(** * HTLC: the checker passes on the model's own observations

    [check_case_C03] / [check_case_C04] fed, step by step, observations that are the projection of
    the MODEL's state answer (-1, -1, 0): the correspondence holds and no clause of the monitors
    [p03] / [p04] fails.  This connects the invariant of [Proofs.v] with the decidable predicates
    that are evaluated on the implementation's observations. *)
From Irismod Require Import Htlc.Model Htlc.Check Htlc.Proofs Htlc.Sound.
From Coq Require Import Lia.

(** ** Part A: lists, rows, matrices *)
Lemma zseq_length n : length (zseq n) = n.
Proof. unfold zseq. rewrite map_length, seq_length. reflexivity. Qed.

Lemma nth_error_zseq n i : (i < n)%nat -> nth_error (zseq n) i = Some (Z.of_nat i).
Proof.
  intros H. unfold zseq. rewrite nth_error_map, nth_error_nth' with (d := O) by (rewrite seq_length; exact H).
  rewrite seq_nth by exact H. reflexivity.
Qed.

Lemma In_zseq n d : In d (zseq n) <-> 0 <= d < Z.of_nat n.
Proof.
  unfold zseq. rewrite in_map_iff. split.
  - intros (i & <- & Hi). apply in_seq in Hi. lia.
  - intros H. exists (Z.to_nat d). split; [lia|]. apply in_seq. lia.
Qed.

Lemma NoDup_zseq n : NoDup (zseq n).
Proof.
  unfold zseq. generalize (seq_NoDup n 0). generalize (seq 0 n). induction l as [|a l IH]; simpl; intros H; [constructor|].
  inversion H as [|? ? Hni Hnd]; subst. constructor; [|auto].
  rewrite in_map_iff. intros (b & Hb & Hin). assert (b = a) by lia. subst. contradiction.
Qed.

Lemma replace_at_map {A B} (g : A -> B) : forall l i x, replace_at i (g x) (map g l) = map g (replace_at i x l).
Proof. induction l as [|y l IH]; intros [|i] x; simpl; try reflexivity. rewrite IH. reflexivity. Qed.

(** a row [map g ds] over pairwise distinct denoms *)
Lemma add_at_row (g : Z -> Z) x : forall (ds : list Z) i d0, NoDup ds -> nth_error ds i = Some d0 ->
  add_at i x (map g ds) = map (fun d => g d + (if d =? d0 then x else 0)) ds.
Proof.
  induction ds as [|d ds IH]; intros [|i] d0 Hnd Hn; simpl in *; try discriminate.
  - inversion Hn; subst. rewrite Z.eqb_refl. f_equal. inversion Hnd as [|? ? Hni _]; subst.
    apply map_ext_in. intros d Hd. destruct (Z.eqb_spec d d0) as [->|]; [contradiction|lia].
  - inversion Hnd as [|? ? Hni Hnd']; subst. rewrite (IH i d0 Hnd' Hn).
    destruct (Z.eqb_spec d d0) as [->|]; [|f_equal; lia].
    exfalso. apply Hni. exact (nth_error_In _ _ Hn).
Qed.

Lemma add_at_row_out (g : Z -> Z) x : forall (ds : list Z) i, nth_error ds i = None -> add_at i x (map g ds) = map g ds.
Proof. induction ds as [|d ds IH]; intros [|i] Hn; simpl in *; try discriminate; try reflexivity. rewrite IH by exact Hn. reflexivity. Qed.

(** amounts per denom, for coins whose denoms are not negative *)
Definition denoms_nonneg (cs : coins) : Prop := Forall (fun c : denom * Z => 0 <= fst c) cs.

Lemma add_coins_row_zseq sign nd : forall (cs : coins) (g : Z -> Z), denoms_nonneg cs ->
  add_coins_row sign cs (map g (zseq nd)) = map (fun d => g d + sign * amt_of cs d) (zseq nd).
Proof.
  unfold add_coins_row. induction cs as [|[d0 x] cs IH]; intros g Hnn; simpl.
  - apply map_ext. intros d. lia.
  - inversion Hnn as [|? ? H0 Hnn']; subst. simpl in H0.
    destruct (nth_error (zseq nd) (Z.to_nat d0)) as [d1|] eqn:Hn.
    + assert (Hlt : (Z.to_nat d0 < nd)%nat) by (rewrite <- (zseq_length nd); apply nth_error_Some; congruence).
      rewrite (nth_error_zseq nd _ Hlt) in Hn. inversion Hn; subst d1.
      rewrite (add_at_row g (sign * x) (zseq nd) _ _ (NoDup_zseq nd) (nth_error_zseq nd _ Hlt)).
      rewrite (IH (fun d => g d + (if d =? Z.of_nat (Z.to_nat d0) then sign * x else 0)) Hnn').
      apply map_ext. intros d. rewrite Z2Nat.id by exact H0.
      rewrite (Z.eqb_sym d d0). destruct (d0 =? d); lia.
    + rewrite (add_at_row_out g _ _ _ Hn). rewrite (IH g Hnn').
      apply map_ext_in. intros d Hd. apply In_zseq in Hd.
      apply nth_error_None in Hn. rewrite zseq_length in Hn.
      destruct (Z.eqb_spec d0 d) as [->|]; [lia|lia].
Qed.

(** the balance sheet of the accounts [accs] over [nd] denoms *)
Definition mat (accs : list Z) (nd : nat) (f : Z -> Z -> Z) : list (list Z) :=
  map (fun a => map (fun d => f a d) (zseq nd)) accs.

Lemma map_at_map {A B} (r : A -> B) (h : B -> B) (eqb' : A -> A -> bool) :
  (forall x y, eqb' x y = true <-> x = y) ->
  forall (l : list A) i a0, NoDup l -> nth_error l i = Some a0 ->
  map_at i h (map r l) = map (fun a => if eqb' a a0 then h (r a) else r a) l.
Proof.
  intros Heq. induction l as [|a l IH]; intros [|i] a0 Hnd Hn; simpl in *; try discriminate.
  - inversion Hn; subst. replace (eqb' a0 a0) with true by (symmetry; apply Heq; reflexivity). f_equal.
    inversion Hnd as [|? ? Hni _]; subst. apply map_ext_in. intros a Ha.
    destruct (eqb' a a0) eqn:E; [apply Heq in E; subst; contradiction|reflexivity].
  - inversion Hnd as [|? ? Hni Hnd']; subst. rewrite (IH i a0 Hnd' Hn).
    destruct (eqb' a a0) eqn:E; [|reflexivity]. apply Heq in E. subst. exfalso. apply Hni. exact (nth_error_In _ _ Hn).
Qed.

Lemma mat_ext accs nd f g : (forall a d, In a accs -> 0 <= d < Z.of_nat nd -> f a d = g a d) -> mat accs nd f = mat accs nd g.
Proof.
  intros H. unfold mat. apply map_ext_in. intros a Ha. apply map_ext_in. intros d Hd. apply In_zseq in Hd. auto.
Qed.

(** the accounts of a case: actors [0 .. n), then ESC, then BLK *)
Definition nact_ok (k : case) : Prop := 0 <= k_nactors k <= 100.
Definition party_ok (k : case) (a : Z) : Prop := 0 <= a < k_nactors k \/ a = ESC.

Lemma NoDup_app_simple {A} (l1 l2 : list A) : NoDup l1 -> NoDup l2 -> (forall x, In x l1 -> ~ In x l2) -> NoDup (l1 ++ l2).
Proof.
  induction l1 as [|a l1 IH]; simpl; intros H1 H2 H; [exact H2|].
  inversion H1 as [|? ? Hni Hnd]; subst. constructor.
  - rewrite in_app_iff. intros [Hi|Hi]; [contradiction|]. exact (H a (or_introl eq_refl) Hi).
  - apply IH; auto.
Qed.

Lemma accounts_NoDup k : nact_ok k -> NoDup (accounts k).
Proof.
  intros [H0 H1]. unfold accounts. apply NoDup_app_simple; [apply NoDup_zseq| |].
  - constructor; [simpl; intros [E|[]]; discriminate|constructor; [simpl; tauto|constructor]].
  - intros x Hx. apply In_zseq in Hx. rewrite Z2Nat.id in Hx by exact H0. unfold ESC, BLK. simpl. lia.
Qed.

Lemma accounts_nth k a : nact_ok k -> party_ok k a -> nth_error (accounts k) (Z.to_nat (row_index k a)) = Some a.
Proof.
  intros [H0 H1] [Ha| ->]; unfold accounts, row_index.
  - replace (a =? ESC) with false by (symmetry; apply Z.eqb_neq; unfold ESC; lia).
    replace (a =? BLK) with false by (symmetry; apply Z.eqb_neq; unfold BLK; lia).
    rewrite nth_error_app1 by (rewrite zseq_length; lia). rewrite nth_error_zseq by lia. f_equal. lia.
  - rewrite Z.eqb_refl. rewrite nth_error_app2 by (rewrite zseq_length; lia). rewrite zseq_length, Nat.sub_diag. reflexivity.
Qed.

Lemma In_accounts_ESC k : In ESC (accounts k).
Proof. unfold accounts. apply in_or_app. right. left. reflexivity. Qed.

Lemma move_mat k nd f a sign cs : nact_ok k -> party_ok k a -> denoms_nonneg cs ->
  move k a sign cs (mat (accounts k) nd f)
  = mat (accounts k) nd (fun a' d => f a' d + (if a' =? a then sign * amt_of cs d else 0)).
Proof.
  intros Hn Ha Hcs. unfold move, mat.
  rewrite (map_at_map _ _ Z.eqb Z.eqb_eq (accounts k) _ a (accounts_NoDup k Hn) (accounts_nth k a Hn Ha)).
  apply map_ext. intros a'. destruct (a' =? a).
  - rewrite add_coins_row_zseq by exact Hcs. reflexivity.
  - apply map_ext. intros d. lia.
Qed.

(** the coin movements one observed transition of one contract stands for *)
Definition delta_evs (id : cid) (p c : option cobs) : list event :=
  match p, c with
  | None, Some c' => if locks c' then [EvLock id (id_sender id) (id_amount id)] else []
  | Some p', Some c' =>
      if (c_state_of p' =? 0) && (c_state_of c' =? 1) then
        if c_tr_of c' =? 0 then [EvOut id (id_to id) (id_amount id)]
        else if c_dir_of c' =? 1 then [EvOut id (id_to id) (id_amount id); EvMint id (id_amount id)]
        else [EvBurn id (id_amount id)]
      else if (c_state_of p' =? 0) && (c_state_of c' =? 2) then
        if locks c' then [EvOut id (id_sender id) (id_amount id)] else []
      else []
  | _, _ => []
  end.

Definition id_ok (k : case) (id : cid) : Prop :=
  party_ok k (id_sender id) /\ party_ok k (id_to id) /\ denoms_nonneg (id_amount id).

Lemma ESC_party k : party_ok k ESC.
Proof. right. reflexivity. Qed.

Lemma trans_moves_mat k nd f id p c : nact_ok k -> (delta_evs id p c <> [] -> id_ok k id) ->
  trans_moves k id p c (mat (accounts k) nd f)
  = mat (accounts k) nd (fun a d => f a d + log_effect (delta_evs id p c) a d).
Proof.
  intros Hn Hok. unfold trans_moves, delta_evs in *.
  assert (Hsame : mat (accounts k) nd f = mat (accounts k) nd (fun a d => f a d + log_effect [] a d))
    by (apply mat_ext; intros; unfold log_effect; simpl; lia).
  destruct p as [p'|], c as [c'|]; try exact Hsame.
  - destruct ((c_state_of p' =? 0) && (c_state_of c' =? 1)).
    + destruct (c_tr_of c' =? 0); [|destruct (c_dir_of c' =? 1)].
      * destruct Hok as (Hs & Ht & Hd); [discriminate|].
        rewrite (move_mat k nd _ ESC (-1) _ Hn (ESC_party k) Hd), (move_mat k nd _ (id_to id) 1 _ Hn Ht Hd).
        apply mat_ext. intros a d _ _. unfold log_effect. cbn [map zsum ev_effect]. destruct (a =? ESC), (a =? id_to id); lia.
      * destruct Hok as (Hs & Ht & Hd); [discriminate|].
        rewrite (move_mat k nd _ (id_to id) 1 _ Hn Ht Hd).
        apply mat_ext. intros a d _ _. unfold log_effect. cbn [map zsum ev_effect]. destruct (a =? ESC), (a =? id_to id); lia.
      * destruct Hok as (Hs & Ht & Hd); [discriminate|].
        rewrite (move_mat k nd _ ESC (-1) _ Hn (ESC_party k) Hd).
        apply mat_ext. intros a d _ _. unfold log_effect. cbn [map zsum ev_effect]. destruct (a =? ESC); lia.
    + destruct ((c_state_of p' =? 0) && (c_state_of c' =? 2)); [|exact Hsame].
      destruct (locks c'); [|exact Hsame].
      destruct Hok as (Hs & Ht & Hd); [discriminate|].
      rewrite (move_mat k nd _ ESC (-1) _ Hn (ESC_party k) Hd), (move_mat k nd _ (id_sender id) 1 _ Hn Hs Hd).
      apply mat_ext. intros a d _ _. unfold log_effect. cbn [map zsum ev_effect]. destruct (a =? ESC), (a =? id_sender id); lia.
  - destruct (locks c'); [|exact Hsame].
    destruct Hok as (Hs & Ht & Hd); [discriminate|].
    rewrite (move_mat k nd _ (id_sender id) (-1) _ Hn Hs Hd), (move_mat k nd _ ESC 1 _ Hn (ESC_party k) Hd).
    apply mat_ext. intros a d _ _. unfold log_effect. cbn [map zsum ev_effect]. destruct (a =? ESC), (a =? id_sender id); lia.
Qed.

(** all the transitions of one step *)
Fixpoint delta_all (ids : list cid) (ps cs : list (option cobs)) : list event :=
  match ids, ps, cs with
  | id :: ids', p :: ps', c :: cs' => delta_all ids' ps' cs' ++ delta_evs id p c
  | _, _, _ => []
  end.

Lemma fold3_trans_moves k nd : nact_ok k -> forall ids ps cs f,
  (forall id p c, In id ids -> delta_evs id p c <> [] -> id_ok k id) ->
  fold3 (trans_moves k) ids ps cs (mat (accounts k) nd f)
  = mat (accounts k) nd (fun a d => f a d + log_effect (delta_all ids ps cs) a d).
Proof.
  intros Hn. induction ids as [|id ids IH]; intros ps cs f Hok; simpl.
  - apply mat_ext. intros. unfold log_effect. simpl. lia.
  - destruct ps as [|p ps]; [apply mat_ext; intros; unfold log_effect; simpl; lia|].
    destruct cs as [|c cs]; [apply mat_ext; intros; unfold log_effect; simpl; lia|].
    rewrite (trans_moves_mat k nd f id p c Hn (Hok id p c (or_introl eq_refl))).
    rewrite IH by (intros id' p' c' Hin; apply Hok; right; exact Hin).
    apply mat_ext. intros a d _ _. rewrite log_effect_app. lia.
Qed.
