(** * HTLC: what the check evaluates lies inside the theorems

    [check_case] folds the model over the operations of a case and compares every observation of
    the implementation with the model state.  This file proves that, for every case accepted by the
    decidable guard [hyps_b] (evaluated by [vm_compute] for every case, failing the check otherwise),
    the model states the implementation is compared with all satisfy the invariant of
    [Htlc/Proofs.v] — hence everything Props/C03.v and Props/C04.v state about reachable states. *)
From Irismod Require Import Htlc.Model Htlc.Check Htlc.Proofs.

Lemma wf_op_b_sound s o : wf_op_b s o = true -> wf_op s o.
Proof.
  destruct o as [m| | |who P']; simpl; try tauto.
  - intros H. apply andb_true_iff in H. destruct H as [H1 H2].
    apply negb_true_iff in H1, H2. apply Z.eqb_neq in H1, H2. auto.
  - intros H Hok. change (step_ok s (SetParams who P') = true) in Hok. rewrite Hok in H. exact H.
Qed.

Lemma wf_run_b_sound : forall ops s, wf_run_b s ops = true -> wf_run s ops.
Proof.
  induction ops as [|o ops IH]; intros s H; simpl in *; [exact I|].
  apply andb_true_iff in H. destruct H as [H1 H2]. split; [exact (wf_op_b_sound _ _ H1)|exact (IH _ H2)].
Qed.

Lemma params_ok_b_sound P : params_ok_b P = true -> params_ok P.
Proof.
  unfold params_ok_b, params_ok. rewrite forallb_forall, Forall_forall. intros H p Hin.
  specialize (H p Hin). apply andb_true_iff in H. destruct H as [H1 H2]. apply Z.leb_le in H1, H2. auto.
Qed.

Lemma escrow_empty_b_sound l : escrow_empty_b l = true -> escrow_empty l.
Proof.
  unfold escrow_empty_b, escrow_empty, bal. rewrite forallb_forall. intros H d.
  destruct (get (ESC, d) l) as [v|] eqn:Hg; [|reflexivity].
  specialize (H _ (get_In _ _ _ Hg)). change (negb (ESC =? ESC) || (v =? 0) = true) in H.
  rewrite Z.eqb_refl in H. simpl in H. apply Z.eqb_eq. exact H.
Qed.

Lemma hyps_b_sound k : hyps_b k = true ->
  params_ok (k_params k) /\ escrow_empty (bank_of k (k_obs0 k))
  /\ wf_run (init (k_params k) (bank_of k (k_obs0 k)) (o_time (k_obs0 k))) (case_ops k).
Proof.
  unfold hyps_b. intros H. apply andb_true_iff in H. destruct H as [H H3]. apply andb_true_iff in H. destruct H as [H1 H2].
  split; [exact (params_ok_b_sound _ H1)|]. split; [exact (escrow_empty_b_sound _ H2)|exact (wf_run_b_sound _ _ H3)].
Qed.

Lemma wf_run_firstn : forall ops s n, wf_run s ops -> wf_run s (firstn n ops).
Proof.
  induction ops as [|o ops IH]; intros s [|n] W; simpl in *; try exact I.
  destruct W as [W1 W2]. split; [exact W1|exact (IH _ n W2)].
Qed.

Lemma In_firstn_In {A} (l : list A) : forall n x, In x (firstn n l) -> In x l.
Proof.
  induction l as [|y l IH]; intros [|n] x; simpl; try tauto.
  intros [E|Hin]; [left; exact E|right; exact (IH n x Hin)].
Qed.

(** the model state after the first [n] operations of the case *)
Definition case_state (k : case) (n : nat) : state :=
  reachable (k_params k) (bank_of k (k_obs0 k)) (o_time (k_obs0 k)) (firstn n (case_ops k)).

Lemma checked_states_satisfy_invariant k n : hyps_b k = true ->
  Inv (case_state k n) /\ Strict (case_state k n) /\ Inv_C04 (case_state k n).
Proof.
  intros H. destruct (hyps_b_sound k H) as (HP & HE & W).
  destruct (reach_inv _ _ (o_time (k_obs0 k)) _ HP HE (wf_run_firstn _ _ n W)) as (I & S).
  split; [exact I|]. split; [exact S|exact (Inv_C04_of_Inv _ I)].
Qed.

(** [check_from] holds, after [n] steps, exactly [case_state k n]: it starts from [init] of the case's
    parameters, genesis balances and genesis time, and applies [step] to [to_op k] of each operation. *)
Lemma case_state_step k n o : nth_error (case_ops k) n = Some o ->
  case_state k (S n) = step (case_state k n) o.
Proof.
  unfold case_state, reachable, run. revert n. generalize (init (k_params k) (bank_of k (k_obs0 k)) (o_time (k_obs0 k))).
  induction (case_ops k) as [|o' l IH]; intros s n Hn; [destruct n; discriminate|].
  destruct n as [|n]; simpl in *.
  - inversion Hn; subst. reflexivity.
  - exact (IH (step s o') n Hn).
Qed.
