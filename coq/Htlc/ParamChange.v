(** * HTLC: asset-parameter changes (MsgUpdateParams / Keeper.SetParams)

    Keeper.SetParams validates the new parameter set and stores it; nothing else is touched (a supply
    record for a NEW asset is only created by the next begin blocker).  [set_params] (Model.v) is that effect on
    the model state; the operation [SetParams] of the model applies it when the signer is the authority
    and the set is valid, and the correspondence check exercises it.  The theorems over histories
    ([wf_op]) exclude parameter changes; the statements below say what survives one.

    - [inv_core_after_param_change]: whatever the new values are, as long as the supported denoms stay
      the same, the parameter-independent clauses survive: escrow = open contracts, the three counters
      = the sums, bank supply = current, outgoing <= current, queue <-> open contracts, per-contract log.
    - [inv_after_compatible_param_change]: if moreover the new limits cover the current usage, the
      whole invariant survives, and with it every theorem about the histories that follow.
    - [claim_may_fail_after_limit_cut]: without that proviso it does not: lowering an asset's limit
      below current + incoming makes the claim of an open incoming transfer, with the right secret,
      fail — which is why C04 speaks of "while the asset's parameters are unchanged" and why
      [claim_iff_preimage] is stated for histories without parameter changes. *)
From Irismod Require Import Htlc.Model Htlc.Proofs Htlc.Examples.

Definition lim_core (a : asup) : Prop := as_out a <= as_cur a /\ 0 <= as_tlc a.

Record InvCore (s : state) : Prop := mkInvCore {
  ic_wfc : forall id c, In (id, c) (st_contracts s) -> wfc (st_params s) id c;
  ic_esc : forall d, bal (st_bank s) ESC d = wsum (w_esc d) (st_contracts s);
  ic_asset : forall d p, get_param (st_params s) d = Some p ->
     exists a, get d (st_assets s) = Some a
       /\ as_in a = wsum (w_in d) (st_contracts s) /\ as_out a = wsum (w_out d) (st_contracts s)
       /\ as_cur a = wsum (w_cur d) (st_contracts s) /\ sup_of (st_supply s) d = as_cur a /\ lim_core a;
  ic_qnodup : NoDup (map snd (st_queue s));
  ic_qopen : forall h id, In (h, id) (st_queue s) ->
     exists c, get id (st_contracts s) = Some c /\ c_state c = Open /\ c_exp c = h;
  ic_openq : forall id c, get id (st_contracts s) = Some c -> c_state c = Open ->
     In (c_exp c, id) (st_queue s) /\ st_height s <= c_exp c;
  ic_log : forall id, filter (ev_for id) (st_log s) = expected_log id (get id (st_contracts s));
  ic_keys : NoDup (keys (st_contracts s)) }.

Lemma inv_core_of_inv s : Inv s -> InvCore s.
Proof.
  intros I. constructor; try apply I.
  intros d p Hp. destruct (inv_asset _ I d p Hp) as (a & Ha & H1 & H2 & H3 & H4 & (L1 & L2 & L3 & L4) & _).
  exists a. unfold lim_core. auto 10.
Qed.

Lemma inv_core_after_param_change_lemma s P' : InvCore s -> same_denoms (st_params s) P' -> InvCore (set_params s P').
Proof.
  intros C SD. unfold set_params. constructor; sproj; try apply C.
  - intros id c Hin. exact (wfc_params _ _ _ _ SD (ic_wfc _ C _ _ Hin)).
  - intros d p' Hp'. destruct (same_denoms_lookup _ _ _ _ SD Hp') as (p & Hp). exact (ic_asset _ C d p Hp).
Qed.

(** ... and everything that follows a compatible change is covered by the theorems again *)
Lemma run_after_compatible_param_change s P' ops : Inv s -> Strict s ->
  same_denoms (st_params s) P' -> covers s P' -> wf_run (set_params s P') ops ->
  Inv (run (set_params s P') ops) /\ Strict (run (set_params s P') ops).
Proof.
  intros I S SD CV W. destruct (inv_after_compatible_param_change_lemma s P' I S SD CV) as [I' S'].
  exact (run_inv ops _ I' S' W).
Qed.

(** raising limits (and changing anything else but the denoms and the time-limited flag) is compatible *)
Lemma raise_covers s P' : Inv s ->
  (forall d p p', get_param (st_params s) d = Some p -> get_param P' d = Some p' ->
     ap_limit p <= ap_limit p' /\ ap_tl p' = ap_tl p /\ ap_tbl p <= ap_tbl p') ->
  same_denoms (st_params s) P' -> covers s P'.
Proof.
  intros I HR SD d p' a Hp' Ha. destruct (same_denoms_lookup _ _ _ _ SD Hp') as (p & Hp).
  destruct (inv_asset _ I d p Hp) as (a0 & Ha0 & _ & _ & _ & _ & (L1 & L2 & L3 & L4) & Hw).
  rewrite Ha in Ha0. inversion Ha0; subst a0. destruct (HR d p p' Hp Hp') as (R1 & R2 & R3).
  split; [unfold lim_ok; split; [lia|]; split; [lia|]; split; [lia|]; intros Htl; rewrite R2 in Htl; pose proof (L4 Htl); lia|].
  intros Htl. rewrite R2 in Htl. exact (Hw Htl).
Qed.

(** a limit cut below current + incoming: the claim of an open incoming transfer with the right
    secret is rejected *)
Definition exCut : list aparam := [mkAP 0 150 true 150 (60 * ns) true 3 1 1 400 50 100].
Lemma claim_may_fail_after_limit_cut_lemma :
  let s := run (init exP exB (ts0 * ns)) [Create (mkCreate 3 0 [(0, 200)] (8, ts0) ts0 50 true)] in
  Inv s /\ same_denoms (st_params s) exCut
  /\ (exists c, get id2 (st_contracts s) = Some c /\ c_state c = Open /\ secret_ok c 8 = true)
  /\ step_ok s (Claim 0 id2 8) = true
  /\ step_ok (set_params s exCut) (Claim 0 id2 8) = false
  /\ InvCore (set_params s exCut).
Proof.
  cbv zeta.
  assert (HP : params_ok exP) by (repeat constructor; simpl; lia).
  assert (HE : escrow_empty exB) by (intros d; reflexivity).
  assert (W : wf_run (init exP exB (ts0 * ns)) [Create (mkCreate 3 0 [(0, 200)] (8, ts0) ts0 50 true)])
    by (simpl; repeat split; discriminate).
  destruct (reach_inv exP exB (ts0 * ns) _ HP HE W) as (I & _). unfold reachable in *.
  assert (SD : same_denoms (st_params (run (init exP exB (ts0 * ns)) [Create (mkCreate 3 0 [(0, 200)] (8, ts0) ts0 50 true)])) exCut).
  { replace (st_params (run (init exP exB (ts0 * ns)) [Create (mkCreate 3 0 [(0, 200)] (8, ts0) ts0 50 true)])) with exP by (vm_compute; reflexivity).
    intros d. unfold get_param, exP, exCut. simpl. destruct d; simpl; split; intros; try discriminate; reflexivity. }
  split; [exact I|]. split; [exact SD|].
  split; [eexists; split; [vm_compute; reflexivity|split; vm_compute; reflexivity]|].
  split; [vm_compute; reflexivity|]. split; [vm_compute; reflexivity|].
  exact (inv_core_after_param_change_lemma _ _ (inv_core_of_inv _ I) SD).
Qed.

(** the parameter-independent clauses survive ANY sequence of parameter changes that keep the denoms ... *)
Lemma inv_core_after_param_changes : forall Ps s, InvCore s ->
  (forall P', In P' Ps -> same_denoms (st_params s) P') ->
  InvCore (fold_left set_params Ps s).
Proof.
  induction Ps as [|P' Ps IH]; intros s C H; simpl; [exact C|].
  apply IH; [exact (inv_core_after_param_change_lemma s P' C (H P' (or_introl eq_refl)))|].
  intros P'' Hin d. unfold set_params. sproj. rewrite <- (H P' (or_introl eq_refl) d). exact (H P'' (or_intror Hin) d).
Qed.

(** ... and the WHOLE invariant is back as soon as a change installs limits that cover the usage again:
    after an incompatible cut, a later change (or the usage shrinking and any later covering change)
    restores every theorem about the histories that follow *)
Lemma inv_restored_by_covering_change s P' : InvCore s -> Strict s ->
  same_denoms (st_params s) P' -> covers s P' -> Inv (set_params s P') /\ Strict (set_params s P').
Proof.
  intros C S SD CV. split; [|exact S]. unfold set_params. constructor; sproj; try apply C.
  - intros id c Hin. exact (wfc_params _ _ _ _ SD (ic_wfc _ C _ _ Hin)).
  - intros d p' Hp'. destruct (same_denoms_lookup _ _ _ _ SD Hp') as (p & Hp).
    destruct (ic_asset _ C d p Hp) as (a & Ha & H1 & H2 & H3 & H4 & _).
    destruct (CV d p' a Hp' Ha) as [L W]. exists a. auto 10.
Qed.
