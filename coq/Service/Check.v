(** * Service: correspondence check and the C07 / C08 trace predicates, evaluated by
    [vm_compute] on the cases the harness writes.  Depends on [Model.v] only. *)
From Irismod Require Export Service.Model.

(** what the implementation showed after a step (read through the keeper's exported getters,
    the bank keeper and the raw service store) *)
Definition bind_t := (Z * Z * Z * Z * bool * Z * Z)%type.       (* deposit, price denom, price, qos, available, disabled time, owner *)
Definition ctx_t := (Z * list Z * Z * Z * Z * bool * Z * Z * Z * Z * Z * Z * bool * Z * Z * bool)%type.
Definition req_t := (Z * Z * Z * Z * Z * bool * Z)%type.        (* provider, fee denom, fee, height, expiry, active, response *)

Record obs := mkObs {
  o_code : Z;
  o_newctx : option ctxid;
  o_height : Z;
  o_time : Z;
  o_bals : list ((Z * Z) * Z);
  o_binds : list ((Z * Z) * bind_t);
  o_ctxs : list (ctxid * ctx_t);
  o_reqs : list (reqid * req_t);
  o_vols : list ((Z * Z * Z) * Z);
  o_earned : list ((Z * Z) * Z);
  o_oearned : list ((Z * Z) * Z);
  o_newq : list (Z * ctxid);
  o_newmark : list (ctxid * Z);
  o_expq : list (Z * ctxid);
  o_expmark : list (ctxid * Z);
  o_cb : list cbev
}.

(** a step's observation: in full, or "every observable as before" with the result code *)
Inductive ob := Full (o : obs) | Same (code : Z).
Definition resolve (p : obs) (b : ob) : obs :=
  match b with
  | Full o => o
  | Same c => mkObs c None (o_height p) (o_time p) (o_bals p) (o_binds p) (o_ctxs p) (o_reqs p) (o_vols p)
                    (o_earned p) (o_oearned p) (o_newq p) (o_newmark p) (o_expq p) (o_expmark p) []
  end.

Definition case := (config * obs * list (step * ob))%type.

Definition bind_tuple (b : binding) : bind_t :=
  (b_dep b, b_pd b, b_pa b, b_qos b, b_avail b, b_dis b, b_owner b).
Definition ctx_tuple (x : context) : ctx_t :=
  (x_svc x, x_provs x, x_cons x, x_cap x, x_timeout x, x_rep x, x_freq x, x_total x,
   x_batch x, x_breq x, x_bresp x, x_bthr x, x_brun x, x_state x, x_thr x, x_mod x).
Definition req_tuple (q : request) : req_t :=
  (q_prov q, q_fd q, q_fee q, q_height q, q_exp q, q_active q, q_resp q).

(** ** correspondence *)
Definition same_map {K V T} `{EqDec K} `{EqDec T} (f : V -> T) (m : amap K V) (o : list (K * T)) : bool :=
  Nat.eqb (length m) (length o)
  && forallb (fun e => match get (fst e) m with Some v => eqb (f v) (snd e) | None => false end) o.
Definition same_set {A} `{EqDec A} (a b : list A) : bool :=
  Nat.eqb (length a) (length b) && forallb (fun x => existsb (eqb x) a) b.

Definition res_code (r : res) : Z := match r with Okk _ => 0 | Rejj => 1 | Abortt => 2 end.

Definition corr_state (s : state) (o : obs) : bool :=
  (height s =? o_height o) && (time s =? o_time o)
  && forallb (fun e => bal (led s) (fst (fst e)) (snd (fst e)) =? snd e) (o_bals o)
  && same_map bind_tuple (binds s) (o_binds o)
  && same_map ctx_tuple (ctxs s) (o_ctxs o)
  && same_map req_tuple (reqs s) (o_reqs o)
  && same_map (fun v : Z => v) (vols s) (o_vols o)
  && same_map (fun v : Z => v) (earned s) (o_earned o)
  && same_map (fun v : Z => v) (oearned s) (o_oearned o)
  && same_set (newq s) (o_newq o) && same_map (fun v : Z => v) (newmark s) (o_newmark o)
  && same_set (expq s) (o_expq o) && same_map (fun v : Z => v) (expmark s) (o_expmark o).

Definition step_newctx (s : state) (st : step) (r : res) : option ctxid :=
  match r, st with
  | Okk _, Tx txh (MCall _ _ _ _ _ _ _ _ _ _) => Some (txh, iidx s)
  | Okk _, ModCreate txh _ _ _ _ _ _ _ _ _ _ => Some (txh, iidx s)
  | _, _ => None
  end.

Definition corr_step (s : state) (st : step) (r : res) (s' : state) (o : obs) : bool :=
  (res_code r =? o_code o)
  && eqb (step_newctx s st r) (o_newctx o)
  && eqb (skipn (length (cblog s)) (cblog s')) (o_cb o)
  && corr_state s' o.

(** ** accessors on observations *)
Definition obal (o : obs) (a d : Z) : Z := getz (a, d) (o_bals o).
Definition b_dep_t (b : bind_t) : Z := let '(dep, _, _, _, _, _, _) := b in dep.
Definition b_owner_t (b : bind_t) : Z := let '(_, _, _, _, _, _, ow) := b in ow.
Definition r_prov (q : req_t) : Z := let '(p, _, _, _, _, _, _) := q in p.
Definition r_fd (q : req_t) : Z := let '(_, fd, _, _, _, _, _) := q in fd.
Definition r_fee (q : req_t) : Z := let '(_, _, fee, _, _, _, _) := q in fee.
Definition r_height (q : req_t) : Z := let '(_, _, _, h, _, _, _) := q in h.
Definition r_exp (q : req_t) : Z := let '(_, _, _, _, e, _, _) := q in e.
Definition r_active (q : req_t) : bool := let '(_, _, _, _, _, a, _) := q in a.
Definition r_resp (q : req_t) : Z := let '(_, _, _, _, _, _, r) := q in r.
Definition rid_ctx (r : reqid) : ctxid := let '(i, _, _, _) := r in i.
Definition rid_batch (r : reqid) : Z := let '(_, b, _, _) := r in b.
Definition t_svc (x : ctx_t) : Z := let '(v, _, _, _, _, _, _, _, _, _, _, _, _, _, _, _) := x in v.
Definition t_cons (x : ctx_t) : Z := let '(_, _, v, _, _, _, _, _, _, _, _, _, _, _, _, _) := x in v.
Definition t_rep (x : ctx_t) : bool := let '(_, _, _, _, _, v, _, _, _, _, _, _, _, _, _, _) := x in v.
Definition t_freq (x : ctx_t) : Z := let '(_, _, _, _, _, _, v, _, _, _, _, _, _, _, _, _) := x in v.
Definition t_total (x : ctx_t) : Z := let '(_, _, _, _, _, _, _, v, _, _, _, _, _, _, _, _) := x in v.
Definition t_batch (x : ctx_t) : Z := let '(_, _, _, _, _, _, _, _, v, _, _, _, _, _, _, _) := x in v.
Definition t_breq (x : ctx_t) : Z := let '(_, _, _, _, _, _, _, _, _, v, _, _, _, _, _, _) := x in v.
Definition t_bresp (x : ctx_t) : Z := let '(_, _, _, _, _, _, _, _, _, _, v, _, _, _, _, _) := x in v.
Definition t_bthr (x : ctx_t) : Z := let '(_, _, _, _, _, _, _, _, _, _, _, v, _, _, _, _) := x in v.
Definition t_brun (x : ctx_t) : bool := let '(_, _, _, _, _, _, _, _, _, _, _, _, v, _, _, _) := x in v.
Definition t_state (x : ctx_t) : Z := let '(_, _, _, _, _, _, _, _, _, _, _, _, _, v, _, _) := x in v.
Definition t_mod (x : ctx_t) : bool := let '(_, _, _, _, _, _, _, _, _, _, _, _, _, _, _, v) := x in v.

Definition is_endblock (st : step) : bool := match st with EndBlock _ => true | _ => false end.
(** a call message: when the service is served by a module, its request is created, charged and
    answered inside the message *)
Definition is_call (st : step) : bool := match st with Tx _ (MCall _ _ _ _ _ _ _ _ _ _) => true | _ => false end.

(** the consumer a request belongs to, looked up in the contexts of an observation *)
Definition req_consumer (o : obs) (rid : reqid) : Z :=
  match get (rid_ctx rid) (o_ctxs o) with Some x => t_cons x | None => -99 end.
Definition req_svc (o : obs) (rid : reqid) : Z :=
  match get (rid_ctx rid) (o_ctxs o) with Some x => t_svc x | None => -99 end.

(** requests that were active before the step and are no longer active without a response:
    expired in this step *)
Definition expired_in (p o : obs) : list (reqid * req_t) :=
  filter (fun e => r_active (snd e)
                   && match get (fst e) (o_reqs o) with
                      | Some q => negb (r_active q) && (r_resp q =? 0)
                      | None => true
                      end) (o_reqs p).
Definition created_in (p o : obs) : list (reqid * req_t) :=
  filter (fun e => negb (has (fst e) (o_reqs p))) (o_reqs o).

Definition sumz {A} (f : A -> Z) (l : list A) : Z := zsum (map f l).
Definition first_fail (l : list (bool * Z)) : Z :=
  match filter (fun e => negb (fst e)) l with [] => 0 | e :: _ => snd e end.

Definition denoms (c : config) : list Z := map Z.of_nat (seq 0 (Z.to_nat (c_ndenoms c))).
Definition actors_of (o : obs) : list Z := filter (Z.leb 0) (nodup Z.eq_dec (map (fun e => fst (fst e)) (o_bals o))).

(** ** C07 on the implementation's own observations.  0 = holds, otherwise the clause:
    1 deposit escrow = sum of binding deposits; 2 request escrow = active fees + earned fees;
    3 owner tallies = sum of their providers' tallies; 4 over an end-block (and over a call
    message, which creates a request itself when the service is served by a module) every
    account's balance moves by exactly (refunds of its expired requests - fees of its new requests);
    5 an answered request pays the provider fee - floor(fee*tax), the tax account floor(fee*tax),
    nobody else; 6 every expired request slashes floor(deposit*fraction) from its binding,
    deposit escrow -> tax account *)
Definition owner_of (o : obs) (p : Z) : Z :=
  match filter (fun e => snd (fst e) =? p) (o_binds o) with
  | e :: _ => b_owner_t (snd e)
  | [] => -9
  end.
Fixpoint iter_slash (n : nat) (f d : Z) : Z :=
  match n with O => d | S n' => iter_slash n' f (d - (d * f) / P18) end.

Definition holds_C07 (c : config) (p : obs) (st : step) (o : obs) : Z :=
  let ds := denoms c in
  let acts := actors_of o in
  let exps := expired_in p o in
  let news := created_in p o in
  first_fail (
    [ (obal o DEP BASE =? sumz (fun e => b_dep_t (snd e)) (o_binds o), 1) ]
    ++ map (fun d => (obal o REQ d =?
                        sumz (fun e => if r_active (snd e) && (r_fd (snd e) =? d) then r_fee (snd e) else 0) (o_reqs o)
                        + sumz (fun e => if snd (fst e) =? d then snd e else 0) (o_earned o), 2)) ds
    ++ map (fun e => (snd e =? sumz (fun e' => if (snd (fst e') =? snd (fst e)) && (owner_of o (fst (fst e')) =? fst (fst e))
                                               then snd e' else 0) (o_earned o), 3)) (o_oearned o)
    ++ map (fun e => (getz (owner_of o (fst (fst e)), snd (fst e)) (o_oearned o) =?
                        sumz (fun e' => if (snd (fst e') =? snd (fst e)) && (owner_of o (fst (fst e')) =? owner_of o (fst (fst e)))
                                        then snd e' else 0) (o_earned o), 3)) (o_earned o)
    ++ (if is_endblock st || is_call st then
          flat_map (fun a => map (fun d =>
             (obal o a d - obal p a d =?
                sumz (fun e => if (req_consumer p (fst e) =? a) && (r_fd (snd e) =? d) then r_fee (snd e) else 0) exps
                - sumz (fun e => if (req_consumer o (fst e) =? a) && (r_fd (snd e) =? d) then r_fee (snd e) else 0) news, 4)) ds) acts
        else [])
    ++ (if is_endblock st then
          map (fun e =>
               let n := length (filter (fun x => (req_svc p (fst x) =? fst (fst e)) && (r_prov (snd x) =? snd (fst e))) exps) in
               (match get (fst e) (o_binds o) with
                | Some b => b_dep_t b =? iter_slash n (c_slash c) (b_dep_t (snd e))
                | None => false end, 6)) (o_binds p)
          ++ [ (obal o TAX BASE - obal p TAX BASE =? obal p DEP BASE - obal o DEP BASE, 6) ]
          ++ map (fun d => ((d =? BASE) || (obal o TAX d =? obal p TAX d), 6)) ds
        else [])
    ++ (match st with
        | Tx _ (MRespond rid prov _) =>
            if o_code o =? 0 then
              match get rid (o_reqs p) with
              | Some q =>
                  let tax := (r_fee q * c_tax c) / P18 in
                  [ (getz (prov, r_fd q) (o_earned o) - getz (prov, r_fd q) (o_earned p) =? r_fee q - tax, 5);
                    (obal o TAX (r_fd q) - obal p TAX (r_fd q) =? tax, 5);
                    (obal p REQ (r_fd q) - obal o REQ (r_fd q) =? tax, 5);
                    (forallb (fun a => forallb (fun d => obal o a d =? obal p a d) ds) acts, 5) ]
              | None => [(false, 5)]
              end
            else []
        | _ => []
        end)).

(** ** C08 on the implementation's own observations.  Checker state: request ids ever seen,
    and per context (last batch counter, its start height, "settings untouched since"). *)
Definition track := list (ctxid * (Z * Z * bool)).

Definition obs_same (p o : obs) : bool :=
  eqb (o_bals p) (o_bals o) && eqb (o_binds p) (o_binds o) && eqb (o_ctxs p) (o_ctxs o)
  && eqb (o_reqs p) (o_reqs o) && eqb (o_vols p) (o_vols o) && eqb (o_earned p) (o_earned o)
  && eqb (o_oearned p) (o_oearned o) && eqb (o_newq p) (o_newq o) && eqb (o_expq p) (o_expq o)
  && eqb (o_newmark p) (o_newmark o) && eqb (o_expmark p) (o_expmark o)
  && match o_cb o with [] => true | _ => false end.

(** the context a control step addresses *)
Definition ctl_target (st : step) : option (ctxid * Z * bool) :=   (* id, sender, is a user message *)
  match st with
  | Tx _ (MPause id cn) | Tx _ (MStart id cn) | Tx _ (MKill id cn) => Some (id, cn, true)
  | Tx _ (MUpdateCtx id _ _ _ _ _ _ cn) => Some (id, cn, true)
  | ModPause id cn | ModStart id cn | ModKill id cn => Some (id, cn, false)
  | _ => None
  end.

Definition outputs_in (o : obs) (id : ctxid) (batch : Z) : Z :=
  Z.of_nat (length (filter (fun e => eqb (rid_ctx (fst e)) id && (rid_batch (fst e) =? batch) && (r_resp (snd e) =? 2)) (o_reqs o))).

(** callbacks the step must have produced, from the observations before / after *)
Definition expected_cb (p : obs) (st : step) (o : obs) : list cbev :=
  match st with
  | EndBlock _ =>
      flat_map (fun e =>
        let '(id, x) := e in
        if t_mod x then
          (if t_brun x && eqb (get id (o_expmark p)) (Some (o_height p))
           then let n := outputs_in p id (t_batch x) in [(0, id, t_batch x, n, if t_bthr x <=? n then 1 else 0)]
           else [])
          ++ (if t_state x =? 0 then
                match get id (o_ctxs o) with
                | Some x' => if t_state x' =? 1 then [(1, id, t_batch x', 0, 0)] else []
                | None => []
                end
              else [])
        else []) (o_ctxs p)
  | Tx _ (MRespond rid _ _) =>
      if o_code o =? 0 then
        match get (rid_ctx rid) (o_ctxs p) with
        | Some x => if t_mod x && (t_bresp x + 1 =? t_breq x)
                    then let n := outputs_in o (rid_ctx rid) (t_batch x) in
                         [(0, rid_ctx rid, t_batch x, n, if t_bthr x <=? n then 1 else 0)]
                    else []
        | None => []
        end
      else []
  | _ => []
  end.

(** 0 = holds, otherwise the clause: 1 a request changed status other than
    active -> answered (by a successful response of its provider, not after its expiry height) or
    active -> expired (in the end-block of its expiry height), or an id was reused, or a request
    outlived its expiry still active; 2 a rejected step changed something; 3 a one-shot context
    survived the expiry of its batch or issued a second batch; 4 a repeated, running, untouched
    context below its total did not start batch n+1 exactly [frequency] after batch n;
    5 a paused context issued a batch; 6 a control message by someone else / on a module-owned
    context succeeded; 7 callback invocations differ from one per completed batch of a
    module-owned context (with err = nil iff #outputs >= threshold) / one per automatic pause;
    4 also: a batch started before the height at which the next batch of the context was scheduled
    (pause / start must neither move nor duplicate it); 8 a queue entry disagrees with the height
    marker of its context (two entries for one context), or a running batch has no expiry marker
    (the model-side statement is [QInv], proved for every history); 7 also: a response callback fired
    twice for one (context, batch), or has not fired for the closed current batch of a stored
    module-owned context ([callback_exactly_once_per_batch]); 9 an active request whose context is not
    stored, or whose batch is not the running current batch of its context
    ([active_requests_belong_to_the_running_batch]) *)

(** per context: the height at which the expiry handler scheduled its next batch (start of the
    last batch + frequency), recorded when the batch expired with the context RUNNING, repeated,
    below its total and its settings untouched since the batch started; dropped by a successful
    update / kill and once that height has passed.  Pause and start do NOT drop it: they must
    neither move the scheduled batch nor add another one. *)
Definition sched := list (ctxid * Z).

Definition is_update_or_kill (st : step) : option ctxid :=
  match st with
  | Tx _ (MKill id _) | Tx _ (MUpdateCtx id _ _ _ _ _ _ _) | ModKill id _ => Some id
  | _ => None
  end.

(** the (context, batch) pairs of the response callbacks recorded in a step *)
Definition cb_keys (l : list cbev) : list (ctxid * Z) :=
  map (fun e : cbev => let '(_, i, b, _, _) := e in (i, b)) (filter (fun e : cbev => let '(k, _, _, _, _) := e in k =? 0) l).

Definition holds_C08 (seen : list reqid) (fired : list (ctxid * Z)) (tr : track) (sc : sched) (p : obs) (st : step) (o : obs) : Z :=
  let eb := is_endblock st in
  let h := o_height p in
  first_fail (
    map (fun e =>
      let '(rid, q) := e in
      (match get rid (o_reqs o) with
       | Some q' =>
           if r_active q then
             if r_active q' then eqb q q'
             else if r_resp q' =? 0 then eb && (r_exp q =? h)
             else match st with
                  | Tx _ (MRespond rid' prov _) => eqb rid rid' && (prov =? r_prov q) && (o_code o =? 0) && (h <=? r_exp q)
                  | _ => false
                  end
           else eqb q q'
       | None => eb && (negb (r_active q) || (r_exp q =? h))
       end, 1)) (o_reqs p)
    ++ map (fun e => (((eb && r_active (snd e) && (r_resp (snd e) =? 0) && (h <? r_exp (snd e)))
                       (* a module-served call creates its request and answers it inside the message *)
                       || (is_call st && (o_code o =? 0) && negb (r_active (snd e)) && negb (r_resp (snd e) =? 0)))
                      && (r_height (snd e) =? h) && negb (existsb (eqb (fst e)) seen), 1)) (created_in p o)
    ++ (if eb then map (fun e => (negb (r_active (snd e)) || (h <? r_exp (snd e)), 1)) (o_reqs o) else [])
    ++ (match st with
        | Tx _ (MRespond rid prov _) =>
            if o_code o =? 0 then
              [(match get rid (o_reqs p), get rid (o_reqs o) with
                | Some q, Some q' => r_active q && (r_prov q =? prov) && negb (r_active q') && negb (r_resp q' =? 0)
                | _, _ => false end, 1)]
            else []
        | _ => []
        end)
    ++ [ ((o_code o =? 0) || obs_same p o, 2) ]
    ++ map (fun e =>
         let '(id, x) := e in
         ((t_rep x || negb (eb && t_brun x && (t_state x =? 0) && eqb (get id (o_expmark p)) (Some h))
           || negb (has id (o_ctxs o))), 3)) (o_ctxs p)
    ++ map (fun e => (t_rep (snd e) || (t_batch (snd e) <=? 1), 3)) (o_ctxs o)
    ++ (if eb then
          map (fun e =>
            let '(id, x) := e in
            let b' := match get id (o_ctxs o) with Some x' => t_batch x' | None => t_batch x end in
            let st' := match get id (o_ctxs o) with Some x' => t_state x' | None => 2 end in
            (match get id tr with
             | Some (n, h0, true) =>
                 if t_rep x && (t_state x =? 0) && (n =? t_batch x) then
                   (* started now => exactly frequency after; due now => started (or paused for lack of funds) *)
                   (negb (b' =? n + 1) || (h =? h0 + t_freq x))
                   && (negb ((h =? h0 + t_freq x) && ((t_total x <? 0) || (n <? t_total x)))
                       || (b' =? n + 1) || (st' =? 1))
                 else true
             | _ => true
             end, 4)) (o_ctxs p)
          ++ map (fun e =>
            let '(id, x) := e in
            ((negb (t_state x =? 1))
             || match get id (o_ctxs o) with Some x' => t_batch x' =? t_batch x | None => true end, 5)) (o_ctxs p)
        else [])
    ++ (if eb then
          map (fun e =>
            let '(id, x) := e in
            (match get id sc, get id (o_ctxs o) with
             | Some hh, Some x' => negb ((t_batch x <? t_batch x') && (h <? hh))
             | _, _ => true
             end, 4)) (o_ctxs p)
        else [])
    ++ map (fun e => (eqb (get (snd e) (o_newmark o)) (Some (fst e)), 8)) (o_newq o)
    ++ map (fun e => (eqb (get (snd e) (o_expmark o)) (Some (fst e)), 8)) (o_expq o)
    ++ map (fun e => (negb (t_brun (snd e)) || has (fst e) (o_expmark o), 8)) (o_ctxs o)
    ++ (match ctl_target st with
        | Some (id, cn, true) =>
            [((negb (o_code o =? 0))
              || match get id (o_ctxs p) with Some x => (t_cons x =? cn) && negb (t_mod x) | None => false end, 6)]
        | Some (id, cn, false) =>
            [((negb (o_code o =? 0))
              || match get id (o_ctxs p) with Some x => (negb (t_mod x)) || (t_cons x =? cn) | None => false end, 6)]
        | None => []
        end)
    ++ [ (same_set (expected_cb p st o) (o_cb o), 7) ]
    (* over the whole history: a response callback never fires twice for one (context, batch) ... *)
    ++ map (fun k => (negb (existsb (eqb k) fired), 7)) (cb_keys (o_cb o))
    (* ... and has fired for the current batch of every stored module-owned context whose batch is closed *)
    ++ map (fun e => (negb (t_mod (snd e)) || t_brun (snd e) || (t_batch (snd e) <? 1)
                      || existsb (eqb (fst e, t_batch (snd e))) (fired ++ cb_keys (o_cb o)), 7)) (o_ctxs o)
    (* every active request belongs to the running, current batch of a stored context (so a batch is
       never closed — by a pause, an update, anything — while one of its requests awaits an outcome) *)
    ++ map (fun e => (negb (r_active (snd e))
                      || match get (rid_ctx (fst e)) (o_ctxs o) with
                         | Some x => t_brun x && (t_batch x =? rid_batch (fst e))
                         | None => false
                         end, 9)) (o_reqs o)).

Definition update_track (tr : track) (p : obs) (st : step) (o : obs) : track :=
  let h := o_height p in
  (* a successful control step on a context marks it touched *)
  let tr1 := match ctl_target st with
             | Some (id, _, _) =>
                 if o_code o =? 0 then
                   match get id tr with Some (n, h0, _) => set id (n, h0, false) tr | None => tr end
                 else tr
             | None => tr
             end in
  if is_endblock st then
    fold_left (fun t e =>
      let '(id, x) := e in
      let pb := match get id (o_ctxs p) with Some x0 => t_batch x0 | None => 0 end in
      if pb <? t_batch x then set id (t_batch x, h, true) t
      else if negb (t_state x =? 0) then
        match get id t with Some (n, h0, _) => set id (n, h0, false) t | None => t end
      else t) (o_ctxs o) tr1
  else tr1.

Definition update_sched (sc : sched) (tr : track) (p : obs) (st : step) (o : obs) : sched :=
  let h := o_height p in
  let sc1 := match is_update_or_kill st with
             | Some id => if o_code o =? 0 then del id sc else sc
             | None => sc
             end in
  if is_endblock st then
    fold_left (fun t e =>
      let '(id, x) := e in
      let t1 := match get id t with Some hh => if hh <=? h then del id t else t | None => t end in
      if eqb (get id (o_expmark p)) (Some h) && t_rep x && (t_state x =? 0)
         && ((t_total x <? 0) || (t_batch x <? t_total x))
      then match get id tr, get id (o_ctxs o) with
           | Some (n, h0, true), Some x' =>
               if (n =? t_batch x) && (t_state x' =? 0) && (t_freq x' =? t_freq x) then set id (h0 + t_freq x) t1 else t1
           | _, _ => t1
           end
      else t1) (o_ctxs p) sc1
  else sc1.

Definition ledger_of (o : obs) : ledger := fold_left (fun l e => set (fst e) (snd e) l) (o_bals o) [].

Fixpoint check_from (c : config) (s : state) (p : obs) (seen : list reqid) (fired : list (ctxid * Z)) (tr : track) (sc : sched)
    (l : list (step * ob)) (i : Z) (corr p7 c7 p8 c8 : Z) : Z * Z * Z * Z * Z :=
  match l with
  | [] => (corr, p7, c7, p8, c8)
  | (st, b) :: rest =>
      let o := resolve p b in
      let r := exec_step c s st in
      let s' := match r with Okk s1 => s1 | _ => s end in
      let corr' := if (corr <? 0) && negb (corr_step s st r s' o) then i else corr in
      let k7 := holds_C07 c p st o in
      let k8 := holds_C08 seen fired tr sc p st o in
      let '(p7', c7') := if (p7 <? 0) && negb (k7 =? 0) then (i, k7) else (p7, c7) in
      let '(p8', c8') := if (p8 <? 0) && negb (k8 =? 0) then (i, k8) else (p8, c8) in
      check_from c s' o (seen ++ map fst (created_in p o)) (fired ++ cb_keys (o_cb o)) (update_track tr p st o) (update_sched sc tr p st o) rest (i + 1) corr' p7' c7' p8' c8'
  end.

Definition check_all (cs : case) : Z * Z * Z * Z * Z :=
  let '(c, o0, l) := cs in
  let s0 := init (o_height o0) (o_time o0) (ledger_of o0) in
  let corr0 := if corr_state s0 o0 then -1 else 0 in
  check_from c s0 o0 (map fst (o_reqs o0)) [] [] [] l 1 corr0 (-1) 0 (-1) 0.

(** (first diverging step or -1, first step violating the property or -1, clause) *)
Definition check_case_C07 (cs : case) : Z * Z * Z :=
  let '(corr, p7, c7, _, _) := check_all cs in (corr, p7, c7).
Definition check_case_C08 (cs : case) : Z * Z * Z :=
  let '(corr, _, _, p8, c8) := check_all cs in (corr, p8, c8).
