(** * Service: the model passes its own check — C08 clause 4 (the checker's schedule tracker).
    Model-side: what one end-block does to ONE context and its two height markers. *)
From Irismod Require Import Service.Model Service.Check Service.Proofs Service.ProofsHist Service.ProofsEscrow Service.ProofsSched
  Service.ProofsBatch Service.ProofsLiab Service.ProofsTally Service.ProofsLive Service.ProofsModule Service.ProofsFresh
  Service.ProofsCallback Service.ProofsSchedule Service.ProofsModuleHist Service.ProofsOutcome Service.ProofsCheck.

(** the data of context [id]: stored context, expiry marker, new-batch marker *)
Definition loc (id : ctxid) (t : state) : option context * option Z * option Z :=
  (get id (ctxs t), get id (expmark t), get id (newmark t)).

(** a fold of handlers over distinct ids: the handler of [id] meets its spec [Q] on the data of
    [id]; the handlers of the other ids leave that data alone *)
Lemma fold_loc (I : state -> Prop) (f : state -> ctxid -> state) (id : ctxid) (Q : option context * option Z * option Z -> option context * option Z * option Z -> Prop) :
  (forall t id', I t -> I (f t id')) ->
  (forall t id', id' <> id -> loc id (f t id') = loc id t) ->
  (forall t, I t -> Q (loc id t) (loc id (f t id))) ->
  forall ids t, NoDup ids -> I t ->
    (In id ids -> Q (loc id t) (loc id (fold_left f ids t)))
    /\ (~ In id ids -> loc id (fold_left f ids t) = loc id t).
Proof.
  intros HI Hoth Hown. induction ids as [|a ids IH]; cbn [fold_left]; intros t Hnd Ht; [split; [intros []|reflexivity]|].
  inversion Hnd as [|? ? Hn Hnd']; subst. destruct (IH (f t a) Hnd' (HI t a Ht)) as (I1 & I2). split.
  - intros [->|Hin].
    + rewrite (I2 Hn). apply Hown. exact Ht.
    + assert (Hne : a <> id) by (intros ->; exact (Hn Hin)). rewrite <- (Hoth t a Hne). exact (I1 Hin).
  - intros Hnot. simpl in Hnot. rewrite I2 by tauto. apply Hoth. intros ->. tauto.
Qed.

Definition x_off (x : context) : context := if x_brun x then cx_brun x false else x.
Definition belowb (x : context) : bool := x_rep x && ((x_total x <? 0) || (x_batch x <? x_total x)).

(** the expired-batch handler on its own context, at height [h] *)
Definition QE (h : Z) (pre post : option context * option Z * option Z) : Prop :=
  let '(cx, ex, nw) := pre in let '(cx', ex', nw') := post in
  match cx with
  | None => post = pre
  | Some x =>
      ex' = None
      /\ (if x_state x =? 2 then cx' = None /\ nw' = nw
          else if x_state x =? 0 then
                 if belowb x then cx' = Some (x_off x) /\ nw' = Some (h - x_timeout x + x_freq x)
                 else cx' = None /\ nw' = nw
               else cx' = Some (x_off x) /\ nw' = nw)
  end.

Lemma expired_handler_loc_other c t id id' : id' <> id -> loc id (expired_batch_handler c t id') = loc id t.
Proof.
  intros Hne. assert (Hne' : id <> id') by congruence. unfold loc.
  rewrite (expired_handler_ctx_other c t id' id Hne'). f_equal; [f_equal|].
  - unfold expired_batch_handler. destruct (get id' (ctxs t)) as [x|]; [|reflexivity].
    set (pr := if x_brun x then _ else (t, x)).
    assert (C : expmark (fst pr) = expmark t).
    { subst pr. destruct (x_brun x); [|reflexivity]. simpl.
      destruct (expire_fold_qsame c x (filter (fun e => in_batch id' (x_batch x) e && q_active (snd e)) (reqs t)) t) as (_ & _ & _ & _ & C).
      destruct (x_mod x); [|exact C]. destruct (callback_qsame (fold_left (expire_request c x) (filter (fun e => in_batch id' (x_batch x) e && q_active (snd e)) (reqs t)) t) id') as (_ & _ & _ & _ & C2). congruence. }
    destruct pr as [s1 x1]. simpl in C. cbv zeta.
    destruct (x_state x1 =? 2); destruct (x_state x1 =? 0); try destruct (x_rep x1 && _); simpl; rewrite ?C;
      rewrite ?get_del_other by exact Hne'; reflexivity.
  - exact (proj2 (expired_handler_marks c t id') id Hne').
Qed.

Lemma expire_fold_height c x : forall l t, height (fold_left (expire_request c x) l t) = height t.
Proof. induction l as [|[r q] l IH]; intros t; cbn [fold_left]; [reflexivity|]. rewrite IH. exact (proj2 (proj2 (expire_struct c x t r q))). Qed.

Lemma expired_handler_loc_own c t id : QE (height t) (loc id t) (loc id (expired_batch_handler c t id)).
Proof.
  unfold QE, loc, expired_batch_handler. destruct (get id (ctxs t)) as [x|] eqn:Eg; [|rewrite Eg; reflexivity].
  set (pr := if x_brun x then _ else (t, x)).
  assert (C : ctxs (fst pr) = ctxs t /\ newmark (fst pr) = newmark t /\ expmark (fst pr) = expmark t /\ height (fst pr) = height t /\ snd pr = x_off x).
  { subst pr. unfold x_off. destruct (x_brun x); [|repeat split; reflexivity]. cbn [fst snd].
    pose proof (expire_fold_qsame c x (filter (fun e => in_batch id (x_batch x) e && q_active (snd e)) (reqs t)) t) as (C & _ & Nm & _ & Em).
    pose proof (expire_fold_height c x (filter (fun e => in_batch id (x_batch x) e && q_active (snd e)) (reqs t)) t) as Hh.
    destruct (x_mod x).
    - pose proof (callback_qsame (fold_left (expire_request c x) (filter (fun e => in_batch id (x_batch x) e && q_active (snd e)) (reqs t)) t) id) as (C2 & _ & Nm2 & _ & Em2).
      pose proof (callback_same (fold_left (expire_request c x) (filter (fun e => in_batch id (x_batch x) e && q_active (snd e)) (reqs t)) t) id) as (_ & _ & Hh2).
      repeat split; congruence.
    - repeat split; assumption. }
  destruct pr as [s1 x1]. cbn [fst snd] in C. destruct C as (C & Nm & Em & Hh & X1). subst x1. cbv zeta.
  assert (Xs : x_state (x_off x) = x_state x) by (unfold x_off; destruct (x_brun x); reflexivity).
  assert (Xb : belowb (x_off x) = belowb x) by (unfold x_off, belowb; destruct (x_brun x); reflexivity).
  assert (Xt : x_timeout (x_off x) = x_timeout x /\ x_freq (x_off x) = x_freq x) by (unfold x_off; destruct (x_brun x); split; reflexivity).
  rewrite Xs. fold (belowb (x_off x)). rewrite Xb.
  destruct (x_state x =? 2) eqn:E2; destruct (x_state x =? 0) eqn:E0; destruct (belowb x) eqn:Eb; simpl;
    rewrite ?C, ?Nm, ?Em, ?Hh, ?get_del_same, ?get_set_same, ?(proj1 Xt), ?(proj2 Xt); repeat split; try reflexivity.
  all: try (apply Z.eqb_eq in E2; apply Z.eqb_eq in E0; lia).
Qed.

(** the new-batch handler on its own context, at height [h] *)
Definition QN (h : Z) (pre post : option context * option Z * option Z) : Prop :=
  let '(cx, ex, nw) := pre in let '(cx', ex', nw') := post in
  match cx with
  | None => post = pre
  | Some x =>
      nw' = None
      /\ (if x_state x =? 0 then
            (exists x', cx' = Some x' /\ x_batch x' = x_batch x + 1 /\ x_state x' = 0 /\ x_rep x' = x_rep x
                        /\ x_timeout x' = x_timeout x /\ x_freq x' = x_freq x /\ x_total x' = x_total x
                        /\ ex' = Some (h + x_timeout x))
            \/ (cx' = Some (cx_state (cx_brun x false) 1) /\ ex' = ex)
          else cx' = Some x /\ ex' = ex)
  end.

Lemma new_handler_loc_other t id id' : id' <> id -> loc id (new_batch_handler t id') = loc id t.
Proof.
  intros Hne. assert (Hne' : id <> id') by congruence. unfold loc.
  rewrite (new_handler_ctx_other t id' id Hne'). f_equal; [f_equal|].
  - unfold new_batch_handler. destruct (get id' (ctxs t)) as [x|]; [|reflexivity].
    destruct (x_state x =? 0); [|reflexivity].
    destruct (filter_provs t x (x_provs x)) as [ps|]; [|simpl; rewrite get_set_other by exact Hne'; reflexivity].
    cbv zeta. destruct (_ && _); [|simpl; rewrite get_set_other by exact Hne'; reflexivity].
    destruct (debit_all _ _ _); [simpl; rewrite get_set_other by exact Hne'; reflexivity|].
    unfold on_paused. destruct (x_mod x); reflexivity.
  - exact (proj1 (proj2 (new_handler_marks t id')) id Hne').
Qed.

Lemma new_handler_loc_own t id : QN (height t) (loc id t) (loc id (new_batch_handler t id)).
Proof.
  unfold QN, loc, new_batch_handler. destruct (get id (ctxs t)) as [x|] eqn:Eg; [|rewrite Eg; reflexivity].
  destruct (x_state x =? 0) eqn:Es.
  2: { simpl. rewrite Eg, get_del_same. repeat split; reflexivity. }
  apply Z.eqb_eq in Es.
  assert (Skip : let t' := dequeue_new (skip_batch t id x) id in
            get id (newmark t') = None /\
            ((exists x', get id (ctxs t') = Some x' /\ x_batch x' = x_batch x + 1 /\ x_state x' = 0 /\ x_rep x' = x_rep x
                        /\ x_timeout x' = x_timeout x /\ x_freq x' = x_freq x /\ x_total x' = x_total x
                        /\ get id (expmark t') = Some (height t + x_timeout x))
             \/ (get id (ctxs t') = Some (cx_state (cx_brun x false) 1) /\ get id (expmark t') = get id (expmark t)))).
  { cbv zeta. simpl. rewrite get_del_same, !get_set_same. split; [reflexivity|]. left. eexists. split; [reflexivity|]. simpl. repeat split; assumption. }
  destruct (filter_provs t x (x_provs x)) as [ps|]; [|exact Skip].
  cbv zeta. destruct (_ && _); [|exact Skip].
  destruct (debit_all _ _ _) as [l|].
  - simpl. rewrite get_del_same, !get_set_same. split; [reflexivity|]. left. eexists. split; [reflexivity|]. simpl. repeat split; assumption.
  - split; [unfold on_paused; destruct (x_mod x); simpl; apply get_del_same|]. right.
    unfold on_paused. destruct (x_mod x); simpl; rewrite get_set_same; split; reflexivity.
Qed.

Lemma expired_handler_height c t id : height (expired_batch_handler c t id) = height t.
Proof.
  unfold expired_batch_handler. destruct (get id (ctxs t)) as [x|]; [|reflexivity].
  set (pr := if x_brun x then _ else (t, x)).
  assert (Hh : height (fst pr) = height t).
  { subst pr. destruct (x_brun x); [|reflexivity]. cbn [fst].
    pose proof (expire_fold_height c x (filter (fun e => in_batch id (x_batch x) e && q_active (snd e)) (reqs t)) t) as Hh.
    destruct (x_mod x); [|exact Hh]. rewrite (proj2 (proj2 (callback_same _ id))). exact Hh. }
  destruct pr as [s1 x1]. cbn [fst] in Hh. cbv zeta.
  destruct (x_state x1 =? 2); destruct (x_state x1 =? 0); try destruct (x_rep x1 && _); simpl; exact Hh.
Qed.

Lemma new_handler_height t id : height (new_batch_handler t id) = height t.
Proof. exact (proj2 (proj2 (new_handler_reqs t id))). Qed.

(** one end-block on the data of context [id]: phase 1 acts on it iff its expiry marker is the
    current height, phase 2 iff its new-batch marker (after phase 1) is *)
Lemma end_block_loc c s dt id :
  QInv s -> LInv false s ->
  exists mid,
    (if eqb (snd (fst (loc id s))) (Some (height s)) then QE (height s) (loc id s) mid else mid = loc id s)
    /\ (if eqb (snd mid) (Some (height s)) then QN (height s) mid (loc id (end_block c s dt)) else loc id (end_block c s dt) = mid).
Proof.
  intros Hq Hl. unfold end_block. cbv zeta.
  set (s1 := fold_left (expired_batch_handler c) _ s).
  assert (H1 : QInv s1 /\ height s1 = height s).
  { subst s1. apply (fold_handlers (fun t => QInv t /\ height t = height s) (expired_batch_handler c)
                      (fun t id => In (height t, id) (expq t))).
    - intros t id0 (Ht & Hh) Hpre. destruct (QInv_expired_handler c t id0 Ht Hpre) as (A & B & C).
      split; [split; [exact A|congruence]|]. intros id' Hne Hp. rewrite B. apply C; assumption.
    - apply due_NoDup. exact (q_exp_nodup _ Hq).
    - split; [exact Hq|reflexivity].
    - intros id0 Hin. apply due_in in Hin. exact Hin. }
  destruct H1 as (Q1 & Hh1).
  exists (loc id s1). split.
  - destruct (fold_loc (fun t => height t = height s) (expired_batch_handler c) id (QE (height s))
               (fun t id' Ht => eq_trans (expired_handler_height c t id') Ht)
               (fun t id' Hne => expired_handler_loc_other c t id id' Hne)
               (fun t Ht => eq_ind _ (fun h => QE h (loc id t) (loc id (expired_batch_handler c t id))) (expired_handler_loc_own c t id) _ Ht)
               (due (height s) (expq s)) s (due_NoDup _ _ (q_exp_nodup _ Hq)) eq_refl) as (F1 & F2). fold s1 in F1, F2.
    unfold loc at 1. cbn [fst snd].
    destruct (eqb (get id (expmark s)) (Some (height s))) eqn:Ee.
    + apply (proj1 (eqb_true_iff _ _)) in Ee. apply F1. apply due_in. exact (proj1 (l_mark _ _ Hl id _ Ee)).
    + apply F2. intros Hin. apply due_in in Hin. rewrite (q_exp_mark _ Hq _ _ Hin), eqb_refl in Ee. discriminate.
  - set (s2 := fold_left new_batch_handler _ s1).
    assert (E : loc id (with_iidx (with_time (with_height s2 (height s2 + 1)) (time s2 + dt)) 0) = loc id s2) by reflexivity.
    rewrite E. clear E.
    destruct (fold_loc (fun t => height t = height s) new_batch_handler id (QN (height s))
               (fun t id' Ht => eq_trans (new_handler_height t id') Ht)
               (fun t id' Hne => new_handler_loc_other t id id' Hne)
               (fun t Ht => eq_ind _ (fun h => QN h (loc id t) (loc id (new_batch_handler t id))) (new_handler_loc_own t id) _ Ht)
               (due (height s1) (newq s1)) s1 (due_NoDup _ _ (q_new_nodup _ Q1)) Hh1) as (F1 & F2). fold s2 in F1, F2.
    unfold loc at 1. cbn [snd].
    destruct (eqb (get id (newmark s1)) (Some (height s))) eqn:Ee.
    + apply (proj1 (eqb_true_iff _ _)) in Ee. apply F1. apply due_in. rewrite Hh1. exact (q_mark_new _ Q1 _ _ Ee).
    + apply F2. intros Hin. apply due_in in Hin. rewrite Hh1 in Hin. rewrite (q_new_mark _ Q1 _ _ Hin), eqb_refl in Ee. discriminate.
Qed.

(** ** a repeated context's frequency is at least its timeout; batch counters are non-negative *)
Definition fb_ok (x : context) : Prop := 0 <= x_batch x /\ (x_rep x = true -> x_timeout x <= x_freq x).
Definition FB (s : state) : Prop := forall id x, get id (ctxs s) = Some x -> fb_ok x.

Lemma FB_same s t : ctxs t = ctxs s -> FB s -> FB t.
Proof. intros E H. unfold FB. rewrite E. exact H. Qed.

Lemma FB_upd s t id :
  FB s -> (forall id0, id0 <> id -> get id0 (ctxs t) = get id0 (ctxs s)) ->
  (forall x', get id (ctxs t) = Some x' -> fb_ok x') -> FB t.
Proof.
  intros H Hoth Hid id0 x Hg. destruct (eq_dec id0 id) as [->|Hne]; [exact (Hid x Hg)|]. rewrite (Hoth id0 Hne) in Hg. exact (H id0 x Hg).
Qed.

Ltac fb_oth Hne := simpl; rewrite ?get_del_other, ?get_set_other by exact Hne; reflexivity.

Lemma validate_ft provs cons inok capa timeout rep freq total :
  validate_request provs cons inok capa timeout rep freq total = true -> rep = true ->
  0 < timeout /\ (freq = 0 \/ timeout <= freq) /\ 0 <= freq.
Proof.
  unfold validate_request. intros H ->. cbn [negb orb] in H. rewrite !andb_true_iff in H.
  destruct H as (((_ & Ht) & Hf) & ((Hr & _) & _)).
  apply Z.ltb_lt in Ht. apply Z.leb_le in Hf. split; [exact Ht|]. split; [|exact Hf].
  apply orb_true_iff in Hr. destruct Hr as [Hr|Hr].
  - apply negb_true_iff, Z.ltb_ge in Hr. left. lia.
  - apply Z.leb_le in Hr. right. exact Hr.
Qed.

Lemma FB_create c s txh svc provs cons inok capd capa timeout rep freq total st thr md s' id :
  create_context c s txh svc provs cons inok capd capa timeout rep freq total st thr md = Some (s', id) ->
  (rep = true -> freq = 0 \/ timeout <= freq) -> FB s -> FB s'.
Proof.
  intros H Hv Hn. unfold create_context in H. repeat dmn H; inversion H; subst; clear H;
    (eapply (FB_upd s _ (txh, iidx s)); [exact Hn|intros id0 Hne; fb_oth Hne|]);
    intros x' Hg; simpl in Hg; rewrite get_set_same in Hg; inversion Hg; subst; unfold fb_ok; simpl; (split; [lia|]);
    intros Hr; try discriminate Hr; destruct (Hv eq_refl) as [->|Hle]; simpl; try lia; destruct (freq =? 0) eqn:E0; try lia; apply Z.eqb_eq in E0; lia.
Qed.

Lemma FB_keep s t id x :
  FB s -> get id (ctxs s) = Some x -> (forall id0, id0 <> id -> get id0 (ctxs t) = get id0 (ctxs s)) ->
  (forall x', get id (ctxs t) = Some x' -> 0 <= x_batch x' /\ x_rep x' = x_rep x /\ x_timeout x' = x_timeout x /\ x_freq x' = x_freq x) -> FB t.
Proof.
  intros Hn Hg Hoth Hid. apply (FB_upd s t id Hn Hoth). intros x' Hg'. destruct (Hid x' Hg') as (A & B & C & D).
  destruct (Hn id x Hg) as (_ & F). split; [exact A|]. rewrite B, C, D. exact F.
Qed.

Lemma FB_respond c s rid prov kind s' : respond c s rid prov kind = Okk s' -> FB s -> FB s'.
Proof.
  intros H Hn. unfold respond in H. destruct rid as [[[id batch] hh] ii].
  destruct ((0 <=? prov) && negb (kind =? 2)); cbv beta iota zeta delta [negb] in H; [|discriminate].
  match type of H with context [@get reqid request ?i ?k (reqs s)] =>
    destruct (@get reqid request i k (reqs s)) as [q|] eqn:Eq end; [|discriminate].
  destruct (get id (ctxs s)) as [x|] eqn:Ex; [|discriminate].
  destruct (q_prov q =? prov) eqn:Ep; cbv beta iota zeta delta [negb] in H; [|discriminate].
  destruct (q_active q); cbv beta iota zeta delta [negb] in H; [|discriminate].
  destruct (add_earned_fee c s prov (q_fd q) (q_fee q)) as [s1|] eqn:Ef; [|discriminate].
  assert (F5 : ctxs s1 = ctxs s).
  { unfold add_earned_fee in Ef. destruct (send _ _ _ _ _); [|discriminate].
    destruct (q_fee q <? _); [discriminate|]. inversion Ef; subst. reflexivity. }
  pose proof (proj1 (Hn id x Ex)) as Hb0.
  destruct (x_bresp (cx_bresp x (x_bresp x + 1)) =? x_breq (cx_bresp x (x_bresp x + 1)));
    [destruct (x_mod (cx_bresp x (x_bresp x + 1)))|]; inversion H; subst s'; clear H;
    (eapply (FB_keep s _ id x Hn Ex);
      [intros id0 Hne; simpl; try (unfold callback; simpl; rewrite F5, Ex; simpl); rewrite ?F5; rewrite ?get_set_other by exact Hne; reflexivity
      |intros x' Hg; simpl in Hg; try (unfold callback in Hg; simpl in Hg; rewrite F5, Ex in Hg; simpl in Hg); rewrite get_set_same in Hg; inversion Hg; subst x'; simpl;
       repeat split; try reflexivity; exact Hb0]).
Qed.

Lemma FB_ctl_state s id x v t : FB s -> get id (ctxs s) = Some x -> ctxs t = set id (cx_state x v) (ctxs s) -> FB t.
Proof.
  intros Hn Hg E. eapply (FB_keep s t id x Hn Hg).
  - intros id0 Hne. rewrite E. apply get_set_other. exact Hne.
  - intros x' Hg'. rewrite E, get_set_same in Hg'. inversion Hg'; subst. simpl. repeat split; try reflexivity. exact (proj1 (Hn id x Hg)).
Qed.

Lemma FB_pause s id cons s' : k_pause s id cons = Okk s' -> FB s -> FB s'.
Proof.
  intros H Hn. unfold k_pause in H. destruct (get id (ctxs s)) as [x|] eqn:Ex; [|discriminate].
  repeat dmn H. inversion H; subst. eapply (FB_ctl_state s id x 1); [exact Hn|exact Ex|reflexivity].
Qed.
Lemma FB_kill s id cons s' : k_kill s id cons = Okk s' -> FB s -> FB s'.
Proof.
  intros H Hn. unfold k_kill in H. destruct (get id (ctxs s)) as [x|] eqn:Ex; [|discriminate].
  repeat dmn H. inversion H; subst. eapply (FB_ctl_state s id x 2); [exact Hn|exact Ex|reflexivity].
Qed.
Lemma FB_start s id cons s' : k_start s id cons = Okk s' -> FB s -> FB s'.
Proof.
  intros H Hn. unfold k_start in H. destruct (get id (ctxs s)) as [x|] eqn:Ex; [|discriminate].
  destruct (x_mod x && _); [discriminate|]. destruct (negb (x_state x =? 1)); [discriminate|]. inversion H; subst; clear H.
  eapply (FB_ctl_state s id x 0); [exact Hn|exact Ex|]. destruct (negb _ && negb _); reflexivity.
Qed.

Lemma FB_update_context c s id provs capd capa timeout freq total cons s' :
  update_context c s id provs capd capa timeout freq total cons = Okk s' -> FB s -> FB s'.
Proof.
  intros H Hn. unfold update_context in H. destruct (negb _) eqn:Ev; [discriminate|]. destruct (negb (check_authority s cons id true)); [discriminate|].
  destruct (get id (ctxs s)) as [x|] eqn:Ex; [|discriminate].
  repeat match type of H with (if ?g then Rejj else _) = _ => let E := fresh "E" in destruct g eqn:E; [discriminate|] end.
  cbv zeta in H.
  repeat match type of H with (if ?g then Rejj else _) = _ => let E := fresh "E" in destruct g eqn:E; [discriminate|] end.
  match goal with Hx : ((if freq =? 0 then _ else _) <? _) = false |- _ => rename Hx into Eft end.
  inversion H; subst; clear H.
  apply negb_false_iff in Ev. rewrite !andb_true_iff in Ev.
  destruct Ev as ((((_ & Ht0) & Hf0) & _) & _). apply Z.leb_le in Ht0. apply Z.leb_le in Hf0. apply Z.ltb_ge in Eft.
  destruct (Hn id x Ex) as (Hb & Hft).
  eapply (FB_upd s _ id Hn); [intros id0 Hne; fb_oth Hne|].
  intros x' Hg. simpl in Hg. rewrite get_set_same in Hg. inversion Hg; subst; clear Hg. unfold fb_ok.
  assert (Xt : x_timeout (if capa =? 0 then x else cx_cap x capa) = x_timeout x) by (destruct (capa =? 0); reflexivity).
  assert (Xf : x_freq (if capa =? 0 then x else cx_cap x capa) = x_freq x) by (destruct (capa =? 0); reflexivity).
  rewrite Xt, Xf in *.
  destruct (timeout =? 0) eqn:T0; destruct (freq =? 0) eqn:F0;
    repeat match goal with |- context [if ?b then _ else _] => destruct b eqn:? end;
    repeat match goal with |- context [match ?b with [] => _ | _ :: _ => _ end] => destruct b end;
    simpl; (split; [exact Hb|]); intros Hr; specialize (Hft Hr);
    repeat match goal with
    | Hx : (_ <? _) = true |- _ => apply Z.ltb_lt in Hx
    | Hx : (_ <? _) = false |- _ => apply Z.ltb_ge in Hx
    | Hx : (_ =? _) = true |- _ => apply Z.eqb_eq in Hx
    | Hx : (_ =? _) = false |- _ => apply Z.eqb_neq in Hx end; simpl in *; lia.
Qed.

Lemma FB_create_mod c s txh svc provs cons inok capd capa timeout rep freq total st thr s' id :
  create_context c s txh svc provs cons inok capd capa timeout rep freq total st thr true = Some (s', id) -> FB s -> FB s'.
Proof.
  intros H Hn. eapply FB_create; [exact H| |exact Hn]. intros Hr.
  unfold create_context in H. destruct (validate_request provs cons inok capa timeout rep freq total) eqn:V.
  - destruct (validate_ft _ _ _ _ _ _ _ _ V Hr) as (_ & A & _). exact A.
  - cbn [andb negb] in H. discriminate H.
Qed.

Ltac fb_same H := repeat dmn H; inversion H; subst; clear H; apply FB_same; reflexivity.

Lemma FB_exec_msg_plain c s txh m s' : exec_msg_plain c s txh m = Okk s' -> FB s -> FB s'.
Proof.
  intros H Hn. destruct m; simpl in H.
  - unfold define in H. revert Hn. fb_same H.
  - unfold bind in H. revert Hn. fb_same H.
  - unfold update_binding in H. revert Hn. fb_same H.
  - unfold set_withdraw in H. revert Hn. fb_same H.
  - unfold enable in H. revert Hn. fb_same H.
  - unfold disable in H. revert Hn. fb_same H.
  - unfold refund_deposit in H. revert Hn. fb_same H.
  - unfold call in H. destruct (validate_request provs cons inok capa timeout rep freq total) eqn:V; cbn [negb] in H; [|discriminate].
    destruct (create_context _ _ _ _ _ _ _ _ _ _ _ _ _ _ _ _) as [[s1 id]|] eqn:E; [|discriminate].
    inversion H; subst. eapply FB_create; [exact E| |exact Hn]. intros Hr. exact (proj1 (proj2 (validate_ft _ _ _ _ _ _ _ _ V Hr))).
  - eapply FB_respond; eassumption.
  - unfold msg_ctl in H. repeat (destruct (negb _); [discriminate|]). eapply FB_pause; eassumption.
  - unfold msg_ctl in H. repeat (destruct (negb _); [discriminate|]). eapply FB_start; eassumption.
  - unfold msg_ctl in H. repeat (destruct (negb _); [discriminate|]). eapply FB_kill; eassumption.
  - eapply FB_update_context; eassumption.
  - unfold withdraw in H. revert Hn. fb_same H.
Qed.

Lemma FB_call_module c s txh svc provs cons inok capd capa timeout rep freq total s' :
  call_module c s txh svc provs cons inok capd capa timeout rep freq total = Okk s' -> FB s -> FB s'.
Proof.
  intros H Hn.
  destruct (call_module_shape _ _ _ _ _ _ _ _ _ _ _ _ _ _ H) as (s1 & id & x & q' & E1 & _ & Ex & _ & Xb & _ & _ & C & _).
  assert (N1 : FB s1) by (eapply FB_create; [exact E1|intros Hr; discriminate Hr|exact Hn]).
  eapply (FB_upd s1 s' id N1).
  - intros id0 Hne. rewrite C. apply get_set_other. exact Hne.
  - intros x' Hg. rewrite C, get_set_same in Hg. inversion Hg; subst. destruct (N1 id x Ex) as (A & B). split; simpl; assumption.
Qed.

Lemma FB_exec_msg c s txh m s' : exec_msg c s txh m = Okk s' -> FB s -> FB s'.
Proof.
  intros H Hn. destruct m; cbn [exec_msg] in H; try (eapply FB_exec_msg_plain; eassumption).
  - destruct (module_served c svc); [discriminate|].
    eapply (FB_exec_msg_plain c s txh (MBind svc prov depd depa pr qos optok owner)); eassumption.
  - destruct (module_served c svc); [eapply FB_call_module; eassumption|].
    eapply (FB_exec_msg_plain c s txh (MCall svc provs cons inok capd capa timeout rep freq total)); eassumption.
Qed.

Lemma fb_ok_off x : fb_ok x -> fb_ok (x_off x).
Proof. unfold x_off. destruct (x_brun x); intros H; exact H. Qed.

Lemma FB_expired_handler c t id : FB t -> FB (expired_batch_handler c t id).
Proof.
  intros Hn id0 x0 Hg. pose proof (expired_handler_loc_own c t id) as Q. pose proof (expired_handler_loc_other c t id0 id) as O.
  unfold loc in Q, O. destruct (eq_dec id0 id) as [->|Hne].
  - unfold QE in Q. destruct (get id (ctxs t)) as [x|] eqn:Ex.
    + destruct Q as (_ & Q). rewrite Hg in Q. pose proof (fb_ok_off x (Hn id x Ex)) as Hx.
      destruct (x_state x =? 2); [destruct Q; discriminate|]. destruct (x_state x =? 0); [destruct (belowb x)|]; destruct Q as (Q & _); try discriminate; inversion Q; subst; exact Hx.
    + inversion Q as [[Q1 Q2 Q3]]. rewrite Hg in Q1. discriminate.
  - assert (Hne' : id <> id0) by congruence. specialize (O Hne'). inversion O as [[O1 O2 O3]]. rewrite Hg in O1. exact (Hn id0 x0 (eq_sym O1)).
Qed.

Lemma FB_new_handler t id : FB t -> FB (new_batch_handler t id).
Proof.
  intros Hn id0 x0 Hg. pose proof (new_handler_loc_own t id) as Q. pose proof (new_handler_loc_other t id0 id) as O.
  unfold loc in Q, O. destruct (eq_dec id0 id) as [->|Hne].
  - unfold QN in Q. destruct (get id (ctxs t)) as [x|] eqn:Ex.
    + destruct Q as (_ & Q). rewrite Hg in Q. destruct (Hn id x Ex) as (A & B).
      destruct (x_state x =? 0).
      * destruct Q as [(x' & E & Eb & _ & Er & Et & Ef & _)|(E & _)]; inversion E; subst.
        -- split; [lia|]. rewrite Er, Et, Ef. exact B.
        -- split; simpl; assumption.
      * destruct Q as (Q & _). inversion Q; subst. split; assumption.
    + inversion Q as [[Q1 Q2 Q3]]. rewrite Hg in Q1. discriminate.
  - assert (Hne' : id <> id0) by congruence. specialize (O Hne'). inversion O as [[O1 O2 O3]]. rewrite Hg in O1. exact (Hn id0 x0 (eq_sym O1)).
Qed.

Lemma FB_apply c s st : FB s -> FB (apply c s st).
Proof.
  intros Hn. unfold apply. destruct (exec_step c s st) as [s'| |] eqn:E; try exact Hn.
  destruct st; cbn [exec_step] in E.
  - eapply FB_exec_msg; eassumption.
  - destruct (0 <=? dt); [|discriminate]. inversion E; subst. unfold end_block. cbv zeta.
    eapply FB_same; [reflexivity|]. apply fold_left_inv; [intros; apply FB_new_handler; assumption|].
    apply fold_left_inv; [intros; apply FB_expired_handler; assumption|exact Hn].
  - inversion E; subst. eapply FB_same; [|exact Hn]. reflexivity.
  - revert Hn. fb_same E.
  - destruct (create_context _ _ _ _ _ _ _ _ _ _ _ _ _ _ _ _) as [[s1 id]|] eqn:E1; [|discriminate].
    inversion E; subst. eapply FB_create_mod; eassumption.
  - eapply FB_pause; eassumption.
  - eapply FB_start; eassumption.
  - eapply FB_kill; eassumption.
  - unfold bind in E. revert Hn. fb_same E.
Qed.

Lemma reach_FB c steps h0 t0 l0 : FB (run c (init h0 t0 l0) steps).
Proof. apply run_inv; [intros; apply FB_apply; assumption|]. intros id x Hg. simpl in Hg. discriminate. Qed.

(** ** a step that is neither an end-block nor a successful control step on [id] keeps the
    schedule data of context [id] *)
Definition keepf (x x' : context) : Prop :=
  x_batch x' = x_batch x /\ x_state x' = x_state x /\ x_rep x' = x_rep x /\ x_timeout x' = x_timeout x
  /\ x_freq x' = x_freq x /\ x_total x' = x_total x.
Lemma keepf_refl x : keepf x x.
Proof. repeat split. Qed.

Definition LF (id : ctxid) (s s' : state) : Prop :=
  (forall x, get id (ctxs s) = Some x ->
     exists x', get id (ctxs s') = Some x' /\ keepf x x'
                /\ get id (expmark s') = get id (expmark s) /\ get id (newmark s') = get id (newmark s))
  /\ (get id (ctxs s) = None -> forall x', get id (ctxs s') = Some x' -> x_batch x' = 0).

Lemma LF_loc id s s' : loc id s' = loc id s -> LF id s s'.
Proof.
  unfold loc. intros E. inversion E as [[E1 E2 E3]]. split.
  - intros x Hg. exists x. rewrite E1, E2, E3. split; [exact Hg|]. split; [apply keepf_refl|split; reflexivity].
  - intros Hn x' Hg. rewrite E1 in Hg. congruence.
Qed.
Lemma LF_refl id s : LF id s s.
Proof. apply LF_loc. reflexivity. Qed.

Ltac lf_same H := repeat dmn H; inversion H; subst; clear H; apply LF_loc; reflexivity.

Lemma LF_create c s txh svc provs cons inok capd capa timeout rep freq total st thr md s' id1 id :
  create_context c s txh svc provs cons inok capd capa timeout rep freq total st thr md = Some (s', id1) ->
  get (txh, iidx s) (ctxs s) = None -> LF id s s'.
Proof.
  intros H Hf. destruct (eq_dec id (txh, iidx s)) as [->|Hne].
  - split; [intros x Hg; pose proof (eq_trans (eq_sym Hg) Hf) as Hc; discriminate Hc|]. intros _ x' Hg. unfold create_context in H.
    repeat dmn H; inversion H; subst; clear H; simpl in Hg; rewrite get_set_same in Hg; inversion Hg; subst; reflexivity.
  - apply LF_loc. unfold create_context in H. repeat dmn H; inversion H; subst; clear H; unfold loc; simpl;
      rewrite ?get_set_other by exact Hne; reflexivity.
Qed.

Lemma LF_respond c s rid prov kind s' id : respond c s rid prov kind = Okk s' -> LF id s s'.
Proof.
  intros H. unfold respond in H. destruct rid as [[[id1 batch] hh] ii].
  destruct ((0 <=? prov) && negb (kind =? 2)); cbv beta iota zeta delta [negb] in H; [|discriminate].
  match type of H with context [@get reqid request ?i ?k (reqs s)] =>
    destruct (@get reqid request i k (reqs s)) as [q|] eqn:Eq end; [|discriminate].
  destruct (get id1 (ctxs s)) as [x|] eqn:Ex; [|discriminate].
  destruct (q_prov q =? prov) eqn:Ep; cbv beta iota zeta delta [negb] in H; [|discriminate].
  destruct (q_active q); cbv beta iota zeta delta [negb] in H; [|discriminate].
  destruct (add_earned_fee c s prov (q_fd q) (q_fee q)) as [s1|] eqn:Ef; [|discriminate].
  assert (F : newmark s1 = newmark s /\ ctxs s1 = ctxs s /\ expmark s1 = expmark s).
  { unfold add_earned_fee in Ef. destruct (send _ _ _ _ _); [|discriminate].
    destruct (q_fee q <? _); [discriminate|]. inversion Ef; subst. repeat split; reflexivity. }
  destruct F as (F3 & F5 & F4).
  destruct (eq_dec id id1) as [->|Hne].
  - split; [|intros Hn; congruence]. intros x0 Hg. rewrite Ex in Hg. inversion Hg; subst x0.
    destruct (x_bresp (cx_bresp x (x_bresp x + 1)) =? x_breq (cx_bresp x (x_bresp x + 1)));
      [destruct (x_mod (cx_bresp x (x_bresp x + 1)))|]; inversion H; subst s'; clear H; simpl;
      try (unfold callback; simpl; rewrite F5, Ex; simpl); rewrite ?F3, ?F4, get_set_same; eexists; (split; [reflexivity|]);
      repeat split; reflexivity.
  - apply LF_loc. unfold loc.
    destruct (x_bresp (cx_bresp x (x_bresp x + 1)) =? x_breq (cx_bresp x (x_bresp x + 1)));
      [destruct (x_mod (cx_bresp x (x_bresp x + 1)))|]; inversion H; subst s'; clear H; simpl;
      try (unfold callback; simpl; rewrite F5, Ex; simpl); rewrite ?F3, ?F4, ?F5; rewrite get_set_other by exact Hne; reflexivity.
Qed.

Lemma LF_pause s id0 cons s' id : k_pause s id0 cons = Okk s' -> id <> id0 -> LF id s s'.
Proof. intros H Hne. apply LF_loc. unfold k_pause in H. repeat dmn H; inversion H; subst; unfold loc; simpl; rewrite get_set_other by exact Hne; reflexivity. Qed.
Lemma LF_kill s id0 cons s' id : k_kill s id0 cons = Okk s' -> id <> id0 -> LF id s s'.
Proof. intros H Hne. apply LF_loc. unfold k_kill in H. repeat dmn H; inversion H; subst; unfold loc; simpl; rewrite get_set_other by exact Hne; reflexivity. Qed.
Lemma LF_start s id0 cons s' id : k_start s id0 cons = Okk s' -> id <> id0 -> LF id s s'.
Proof.
  intros H Hne. apply LF_loc. unfold k_start in H. repeat dmn H; inversion H; subst; unfold loc; simpl;
    rewrite ?get_set_other by exact Hne; reflexivity.
Qed.
Lemma LF_update_context c s id0 provs capd capa timeout freq total cons s' id :
  update_context c s id0 provs capd capa timeout freq total cons = Okk s' -> id <> id0 -> LF id s s'.
Proof.
  intros H Hne. apply LF_loc. unfold update_context in H. destruct (negb _); [discriminate|]. destruct (negb (check_authority s cons id0 true)); [discriminate|].
  destruct (get id0 (ctxs s)) as [x|]; [|discriminate].
  repeat match type of H with (if ?g then Rejj else _) = _ => destruct g; [discriminate|] end. cbv zeta in H.
  repeat match type of H with (if ?g then Rejj else _) = _ => destruct g; [discriminate|] end.
  inversion H; subst. unfold loc. simpl. rewrite get_set_other by exact Hne. reflexivity.
Qed.

Lemma create_loc_other c s txh svc provs cons inok capd capa timeout rep freq total st thr md s' id1 id :
  create_context c s txh svc provs cons inok capd capa timeout rep freq total st thr md = Some (s', id1) ->
  id <> (txh, iidx s) -> loc id s' = loc id s.
Proof.
  intros H Hne. unfold create_context in H. repeat dmn H; inversion H; subst; clear H; unfold loc; simpl;
    rewrite ?get_set_other by exact Hne; reflexivity.
Qed.

Lemma LF_call_module c s txh svc provs cons inok capd capa timeout rep freq total s' id :
  call_module c s txh svc provs cons inok capd capa timeout rep freq total = Okk s' ->
  get (txh, iidx s) (ctxs s) = None -> LF id s s'.
Proof.
  intros H Hf.
  destruct (call_module_shape _ _ _ _ _ _ _ _ _ _ _ _ _ _ H) as (s1 & id1 & x & q' & E1 & Hid & Ex & _ & Xb & _ & _ & C & _ & _ & _ & _ & Nm & _ & Em & _).
  subst id1. destruct (eq_dec id (txh, iidx s)) as [->|Hne].
  - split; [intros x0 Hg; pose proof (eq_trans (eq_sym Hg) Hf) as Hc; discriminate Hc|].
    intros _ x' Hg. rewrite C, get_set_same in Hg. inversion Hg; subst. simpl. exact Xb.
  - apply LF_loc. rewrite <- (create_loc_other _ _ _ _ _ _ _ _ _ _ _ _ _ _ _ _ _ _ id E1 Hne). unfold loc.
    rewrite C, Nm, Em, get_set_other by exact Hne. reflexivity.
Qed.

Lemma step_frame c s st id :
  fresh_ctx s st -> is_endblock st = false ->
  (forall cn u, ctl_target st = Some (id, cn, u) -> res_code (exec_step c s st) <> 0) ->
  LF id s (apply c s st).
Proof.
  intros Hf Heb Hctl. unfold apply. destruct (exec_step c s st) as [s'| |] eqn:E; try apply LF_refl.
  assert (Hno : forall cn u, ctl_target st = Some (id, cn, u) -> False) by (intros cn u Ec; exact (Hctl cn u Ec eq_refl)).
  clear Hctl. destruct st as [txh m|dt| | |txh svc ps cn ca tmo rp fq tl st0 thr|id0 cn|id0 cn|id0 cn| ]; cbn [exec_step] in E; try discriminate Heb.
  - destruct m; cbn [exec_msg exec_msg_plain] in E.
    + unfold define in E. lf_same E.
    + destruct (module_served c svc); [discriminate|]. unfold bind in E. lf_same E.
    + unfold update_binding in E. lf_same E.
    + unfold set_withdraw in E. lf_same E.
    + unfold enable in E. lf_same E.
    + unfold disable in E. lf_same E.
    + unfold refund_deposit in E. lf_same E.
    + simpl in Hf. destruct (module_served c svc); [eapply LF_call_module; eassumption|].
      unfold call in E. destruct (negb _); [discriminate|].
      destruct (create_context _ _ _ _ _ _ _ _ _ _ _ _ _ _ _ _) as [[s1 id1]|] eqn:E1; [|discriminate].
      inversion E; subst. eapply LF_create; eassumption.
    + eapply LF_respond; eassumption.
    + unfold msg_ctl in E. repeat (destruct (negb _); [discriminate|]). eapply LF_pause; [exact E|]. intros ->. exact (Hno _ _ eq_refl).
    + unfold msg_ctl in E. repeat (destruct (negb _); [discriminate|]). eapply LF_start; [exact E|]. intros ->. exact (Hno _ _ eq_refl).
    + unfold msg_ctl in E. repeat (destruct (negb _); [discriminate|]). eapply LF_kill; [exact E|]. intros ->. exact (Hno _ _ eq_refl).
    + eapply LF_update_context; [exact E|]. intros ->. exact (Hno _ _ eq_refl).
    + unfold withdraw in E. lf_same E.
  - inversion E; subst. apply LF_loc. reflexivity.
  - lf_same E.
  - simpl in Hf. destruct (create_context _ _ _ _ _ _ _ _ _ _ _ _ _ _ _ _) as [[s1 id1]|] eqn:E1; [|discriminate].
    inversion E; subst. eapply LF_create; eassumption.
  - eapply LF_pause; [exact E|]. intros ->. exact (Hno _ _ eq_refl).
  - eapply LF_start; [exact E|]. intros ->. exact (Hno _ _ eq_refl).
  - eapply LF_kill; [exact E|]. intros ->. exact (Hno _ _ eq_refl).
  - unfold bind in E. lf_same E.
Qed.

(** ** the checker's tracker and schedule, read off after a step *)
Lemma fold_upd_get {K A V} `{EqDec K} (g : K * A -> amap K V -> amap K V) :
  (forall e t k, k <> fst e -> get k (g e t) = get k t) ->
  (forall e t t', get (fst e) t = get (fst e) t' -> get (fst e) (g e t) = get (fst e) (g e t')) ->
  forall l t0, NoDup (map fst l) ->
    (forall e, In e l -> get (fst e) (fold_left (fun t e => g e t) l t0) = get (fst e) (g e t0))
    /\ (forall k, ~ In k (map fst l) -> get k (fold_left (fun t e => g e t) l t0) = get k t0).
Proof.
  intros Hoth Hloc. induction l as [|a l IH]; cbn [fold_left map]; intros t0 Hnd; [split; [intros e []|reflexivity]|].
  inversion Hnd as [|? ? Hn Hnd']; subst. destruct (IH (g a t0) Hnd') as (I1 & I2). split.
  - intros e [->|Hin].
    + rewrite (I2 (fst e) Hn). reflexivity.
    + rewrite (I1 e Hin). apply Hloc. apply Hoth. intros E. apply Hn. rewrite <- E. apply in_map. exact Hin.
  - intros k Hk. simpl in Hk. rewrite I2 by tauto. apply Hoth. intros ->. apply Hk. left. reflexivity.
Qed.

Definition track_g (p : obs) (h : Z) (e : ctxid * ctx_t) (t : track) : track :=
  let '(id, x) := e in
  let pb := match get id (o_ctxs p) with Some x0 => t_batch x0 | None => 0 end in
  if pb <? t_batch x then set id (t_batch x, h, true) t
  else if negb (t_state x =? 0) then
    match get id t with Some (n, h0, _) => set id (n, h0, false) t | None => t end
  else t.

Lemma update_track_end tr p dt o :
  update_track tr p (EndBlock dt) o = fold_left (fun t e => track_g p (o_height p) e t) (o_ctxs o) tr.
Proof. unfold update_track. cbn [ctl_target is_endblock]. apply fold_left_ext_eq || reflexivity. Qed.

Lemma track_g_other p h e t k : k <> fst e -> get k (track_g p h e t) = get k t.
Proof.
  destruct e as [id x]. cbn [fst]. intros Hne. unfold track_g.
  destruct (_ <? t_batch x); [apply get_set_other; exact Hne|]. destruct (negb _); [|reflexivity].
  destruct (get id t) as [[[n h0] b]|]; [apply get_set_other; exact Hne|reflexivity].
Qed.
Lemma track_g_loc p h e t t' : get (fst e) t = get (fst e) t' -> get (fst e) (track_g p h e t) = get (fst e) (track_g p h e t').
Proof.
  destruct e as [id x]. cbn [fst]. intros E. unfold track_g.
  destruct (_ <? t_batch x); [rewrite !get_set_same; reflexivity|]. destruct (negb _); [|exact E].
  rewrite <- E. destruct (get id t) as [[[n h0] b]|] eqn:Eg; [rewrite !get_set_same; reflexivity|]. rewrite <- E. exact Eg.
Qed.

Lemma track_end_get univ c s dt tr id pc pn pb :
  NoDup (keys (ctxs (apply c s (EndBlock dt)))) ->
  get id (update_track tr (obs_of univ pc pn pb s) (EndBlock dt) (obs_step univ c s (EndBlock dt))) =
  match get id (ctxs (apply c s (EndBlock dt))) with
  | Some x' => get id (track_g (obs_of univ pc pn pb s) (height s) (id, ctx_tuple x') tr)
  | None => get id tr
  end.
Proof.
  intros Hnd. rewrite update_track_end. set (p := obs_of univ pc pn pb s). change (o_height p) with (height s).
  unfold obs_step. cbn [obs_of o_ctxs].
  set (s' := apply c s (EndBlock dt)) in *.
  assert (Hnd' : NoDup (map fst (map (fun e : ctxid * context => (fst e, ctx_tuple (snd e))) (ctxs s')))) by (rewrite map_map; exact Hnd).
  destruct (fold_upd_get (track_g p (height s)) (track_g_other p (height s)) (track_g_loc p (height s)) _ tr Hnd') as (F1 & F2).
  destruct (get id (ctxs s')) as [x'|] eqn:Eg.
  - apply (F1 (id, ctx_tuple x')). apply in_map_iff. exists (id, x'). split; [reflexivity|apply get_In; exact Eg].
  - apply F2. rewrite map_map. intros Hin. apply in_map_iff in Hin. destruct Hin as ([k v] & Ek & Hin). cbn [fst] in Ek. subst k.
    rewrite (In_get_NoDup id v (ctxs s') Hnd Hin) in Eg. discriminate.
Qed.

Lemma track_nonend_get tr p st o id n h0 :
  is_endblock st = false -> get id (update_track tr p st o) = Some (n, h0, true) ->
  get id tr = Some (n, h0, true) /\ (forall cn u, ctl_target st = Some (id, cn, u) -> o_code o <> 0).
Proof.
  intros Heb H. unfold update_track in H. rewrite Heb in H.
  destruct (ctl_target st) as [[[id0 cn0] u0]|]; [|split; [exact H|intros; discriminate]].
  destruct (o_code o =? 0) eqn:Ec; [|split; [exact H|]; intros cn u E; inversion E; subst; apply Z.eqb_neq; exact Ec].
  destruct (eq_dec id id0) as [->|Hne].
  - destruct (get id0 tr) as [[[n1 h1] b1]|] eqn:Eg.
    + rewrite get_set_same in H. discriminate.
    + rewrite Eg in H. discriminate.
  - assert (Hg : get id tr = Some (n, h0, true)).
    { destruct (get id0 tr) as [[[n1 h1] b1]|]; [rewrite get_set_other in H by exact Hne|]; exact H. }
    split; [exact Hg|]. intros cn u E. inversion E; subst. congruence.
Qed.

(** ** the tracker invariant: an entry (n, h0, true) of the checker's tracker means "batch n of this
    context started at height h0 and the context has been running, untouched, since" *)
Definition TIe (s : state) (id : ctxid) (n h0 : Z) : Prop :=
  1 <= n /\ forall x, get id (ctxs s) = Some x -> x_batch x = n ->
    x_state x = 0
    /\ (x_rep x = true ->
        get id (expmark s) = Some (h0 + x_timeout x)
        \/ (get id (expmark s) = None /\ get id (newmark s) = Some (h0 + x_freq x))).
Definition TI (s : state) (tr : track) : Prop := forall id n h0, get id tr = Some (n, h0, true) -> TIe s id n h0.

Lemma TI_nonend univ c s st tr pc pn pb :
  fresh_ctx s st -> is_endblock st = false -> TI s tr ->
  TI (apply c s st) (update_track tr (obs_of univ pc pn pb s) st (obs_step univ c s st)).
Proof.
  intros Hf Heb Ht id n h0 Hg. destruct (track_nonend_get _ _ _ _ _ _ _ Heb Hg) as (Hg0 & Hctl).
  unfold obs_step in Hctl. cbn [obs_of o_code] in Hctl.
  destruct (step_frame c s st id Hf Heb Hctl) as (L1 & L2). destruct (Ht id n h0 Hg0) as (Hn & Hx).
  split; [exact Hn|]. intros x' Hg' Hb'. destruct (get id (ctxs s)) as [x|] eqn:Ex.
  - destruct (L1 x eq_refl) as (x'' & Hg'' & (Kb & Ks & Kr & Kt & Kf & _) & Em & Nm). rewrite Hg' in Hg''. inversion Hg''; subst x''.
    destruct (Hx x eq_refl) as (Hs & Hr); [congruence|]. split; [congruence|]. intros Hr'. rewrite Em, Nm, Kt, Kf. apply Hr. congruence.
  - specialize (L2 eq_refl x' Hg'). lia.
Qed.

Lemma end_block_loc' c s dt id :
  QInv s -> LInv false s ->
  exists mid,
    ((get id (expmark s) = Some (height s) /\ QE (height s) (loc id s) mid) \/ (get id (expmark s) <> Some (height s) /\ mid = loc id s))
    /\ ((snd mid = Some (height s) /\ QN (height s) mid (loc id (end_block c s dt))) \/ (snd mid <> Some (height s) /\ loc id (end_block c s dt) = mid)).
Proof.
  intros Hq Hl. destruct (end_block_loc c s dt id Hq Hl) as (mid & P1 & P2). exists mid. split.
  - unfold loc at 1 in P1. cbn [fst snd] in P1. destruct (eqb (get id (expmark s)) (Some (height s))) eqn:E.
    + left. split; [apply (proj1 (eqb_true_iff _ _)); exact E|exact P1].
    + right. split; [apply (proj1 (eqb_false_iff _ _)); exact E|exact P1].
  - destruct (eqb (snd mid) (Some (height s))) eqn:E.
    + left. split; [apply (proj1 (eqb_true_iff _ _)); exact E|exact P2].
    + right. split; [apply (proj1 (eqb_false_iff _ _)); exact E|exact P2].
Qed.

(** a context with an expiry marker has no new-batch marker *)
Lemma exp_no_new s id h : QInv s -> get id (expmark s) = Some h -> get id (newmark s) = None.
Proof.
  intros Hq He. destruct (get id (newmark s)) as [H|] eqn:En; [|reflexivity]. exfalso.
  apply (q_exp_nonew _ Hq H id); [apply has_get; eexists; exact He|exact (q_mark_new _ Hq _ _ En)].
Qed.

(** what one end-block does to a tracked context: repeated, running, batch [n] started at [h0] *)
Definition eb_out (s : state) (id : ctxid) (x : context) (n h0 : Z) (post : option context * option Z * option Z) : Prop :=
  let h := height s in let '(cx', ex', nw') := post in
  (post = loc id s /\ h <> h0 + x_freq x /\ get id (expmark s) <> Some h)
  \/ (cx' = None /\ belowb x = false)
  \/ (cx' = Some (x_off x) /\ ex' = None /\ nw' = Some (h0 + x_freq x) /\ h <> h0 + x_freq x)
  \/ (h = h0 + x_freq x /\ exists x', cx' = Some x' /\ x_batch x' = n + 1 /\ x_state x' = 0 /\ x_rep x' = x_rep x
        /\ x_timeout x' = x_timeout x /\ x_freq x' = x_freq x /\ x_total x' = x_total x
        /\ ex' = Some (h + x_timeout x) /\ nw' = None)
  \/ (h = h0 + x_freq x /\ exists x', cx' = Some x' /\ x_batch x' = n /\ x_state x' = 1).

Lemma x_off_fields x : x_batch (x_off x) = x_batch x /\ x_state (x_off x) = x_state x /\ x_rep (x_off x) = x_rep x
  /\ x_timeout (x_off x) = x_timeout x /\ x_freq (x_off x) = x_freq x /\ x_total (x_off x) = x_total x.
Proof. unfold x_off. destruct (x_brun x); repeat split. Qed.

Lemma eb_tracked c s dt id x n h0 :
  QInv s -> LInv false s -> fb_ok x ->
  get id (ctxs s) = Some x -> x_batch x = n -> TIe s id n h0 -> x_rep x = true ->
  eb_out s id x n h0 (loc id (end_block c s dt)).
Proof.
  intros Hq Hl (_ & Hft) Hg Hb (Hn & Hx) Hr. specialize (Hft Hr). destruct (Hx x Hg Hb) as (Hs & HAB). specialize (HAB Hr).
  destruct (x_off_fields x) as (Ob & Os & Or & Ot & Of & Otl).
  destruct (end_block_loc' c s dt id Hq Hl) as (mid & P1 & P2). unfold eb_out.
  destruct (loc id (end_block c s dt)) as [[cx' ex'] nw'] eqn:El.
  assert (QNx : forall xm exm, x_state xm = 0 -> QN (height s) (Some xm, exm, Some (height s)) (cx', ex', nw') ->
            (exists x', cx' = Some x' /\ x_batch x' = x_batch xm + 1 /\ x_state x' = 0 /\ x_rep x' = x_rep xm
                        /\ x_timeout x' = x_timeout xm /\ x_freq x' = x_freq xm /\ x_total x' = x_total xm
                        /\ ex' = Some (height s + x_timeout xm) /\ nw' = None)
            \/ (exists x', cx' = Some x' /\ x_batch x' = x_batch xm /\ x_state x' = 1)).
  { intros xm exm Hsm Q. unfold QN in Q. destruct Q as (Nw & Q). rewrite Hsm in Q. cbn [Z.eqb] in Q.
    destruct Q as [(x' & A & B & C & D & E & F & G & H)|(A & _)].
    - left. exists x'. repeat split; assumption.
    - right. eexists. split; [exact A|]. split; reflexivity. }
  destruct HAB as [HA|(HBe & HBn)].
  - (* the batch is (or was) running: expiry registered at h0 + timeout *)
    assert (Hle : height s <= h0 + x_timeout x) by exact (proj2 (l_mark _ _ Hl id _ HA)).
    pose proof (exp_no_new s id _ Hq HA) as Hnn.
    destruct P1 as [(E1 & Q1)|(E1 & ->)].
    + assert (Eh : height s = h0 + x_timeout x) by congruence.
      unfold loc, QE in Q1. rewrite Hg in Q1. destruct mid as [[cxm exm] nwm]. destruct Q1 as (-> & Q1).
      rewrite Hs in Q1. cbn [Z.eqb] in Q1. destruct (belowb x) eqn:Eb; destruct Q1 as (-> & ->).
      * assert (Enw : height s - x_timeout x + x_freq x = h0 + x_freq x) by lia. rewrite Enw in P2. cbn [snd] in P2.
        destruct P2 as [(E2 & Q2)|(E2 & Q2)].
        -- inversion E2 as [E2']. rewrite E2' in Q2.
           destruct (QNx (x_off x) None (eq_trans Os Hs) Q2) as [(x' & A & B & C & D & E & F & G & H & I)|(x' & A & B & C)].
           ++ right. right. right. left. split; [congruence|]. exists x'. rewrite Ob, Or, Ot, Of, Otl in *. repeat split; try assumption; congruence.
           ++ right. right. right. right. split; [congruence|]. exists x'. rewrite Ob in B. repeat split; try assumption; congruence.
        -- inversion Q2; subst. right. right. left. repeat split; try reflexivity. intros E. apply E2. congruence.
      * cbn [snd] in P2. rewrite Hnn in P2. destruct P2 as [(E2 & _)|(_ & Q2)]; [discriminate|]. inversion Q2; subst. right. left. split; reflexivity.
    + unfold loc at 1 2 in P2. cbn [snd] in P2. rewrite Hnn in P2. destruct P2 as [(E2 & _)|(_ & Q2)]; [discriminate|].
      left. split; [exact Q2|]. split; [|exact E1]. intros E. apply E1. rewrite HA. f_equal. lia.
  - (* the next batch is scheduled at h0 + frequency *)
    destruct P1 as [(E1 & _)|(_ & ->)]; [congruence|].
    unfold loc at 1 2 in P2. cbn [snd] in P2. rewrite HBn in P2. destruct P2 as [(E2 & Q2)|(E2 & Q2)].
    + inversion E2 as [E2']. rewrite Hg, E2' in Q2.
      destruct (QNx x (get id (expmark s)) Hs Q2) as [(x' & A & B & C & D & E & F & G & H & I)|(x' & A & B & C)].
      * right. right. right. left. split; [congruence|]. exists x'. repeat split; try assumption; congruence.
      * right. right. right. right. split; [congruence|]. exists x'. repeat split; try assumption; congruence.
    + left. split; [exact Q2|]. split; [|rewrite HBe; discriminate]. intros E. apply E2. unfold loc. cbn [snd]. rewrite HBn. f_equal. lia.
Qed.

(** one end-block on any context: no context appears; a stored one is removed, or keeps its batch
    counter, or issues exactly the next batch (then it is running and its expiry is registered) *)
Lemma eb_general c s dt id :
  QInv s -> LInv false s ->
  let '(cx', ex', nw') := loc id (end_block c s dt) in
  match get id (ctxs s) with
  | None => cx' = None
  | Some x => cx' = None \/ exists x', cx' = Some x' /\ x_rep x' = x_rep x
                /\ (x_batch x' = x_batch x
                    \/ (x_batch x' = x_batch x + 1 /\ x_state x' = 0 /\ ex' = Some (height s + x_timeout x')))
  end.
Proof.
  intros Hq Hl. destruct (end_block_loc' c s dt id Hq Hl) as (mid & P1 & P2).
  destruct (loc id (end_block c s dt)) as [[cx' ex'] nw'] eqn:El.
  assert (M : match get id (ctxs s) with None => fst (fst mid) = None
              | Some x => fst (fst mid) = None \/ exists xm, fst (fst mid) = Some xm /\ x_rep xm = x_rep x /\ x_batch xm = x_batch x end).
  { destruct P1 as [(_ & Q1)|(_ & ->)].
    - unfold loc, QE in Q1. destruct mid as [[cxm exm] nwm]. cbn [fst]. destruct (get id (ctxs s)) as [x|].
      + destruct Q1 as (_ & Q1). destruct (x_off_fields x) as (Ob & _ & Or & _).
        destruct (x_state x =? 2); [left; tauto|]. destruct (x_state x =? 0); [destruct (belowb x)|]; destruct Q1 as (-> & _);
          try (left; reflexivity); right; exists (x_off x); repeat split; assumption.
      + inversion Q1. reflexivity.
    - unfold loc. cbn [fst]. destruct (get id (ctxs s)) as [x|]; [right; exists x; repeat split|reflexivity]. }
  destruct mid as [[cxm exm] nwm]. cbn [fst snd] in M, P2.
  assert (N : match cxm with None => cx' = None
              | Some xm => exists x', cx' = Some x' /\ x_rep x' = x_rep xm
                  /\ (x_batch x' = x_batch xm \/ (x_batch x' = x_batch xm + 1 /\ x_state x' = 0 /\ ex' = Some (height s + x_timeout x'))) end).
  { destruct P2 as [(_ & Q2)|(_ & Q2)].
    - unfold QN in Q2. destruct cxm as [xm|]; [|inversion Q2; reflexivity]. destruct Q2 as (_ & Q2).
      destruct (x_state xm =? 0).
      + destruct Q2 as [(x' & A & B & C & D & E & F & G & H)|(A & _)].
        * exists x'. split; [exact A|]. split; [exact D|]. right. split; [exact B|]. split; [exact C|]. rewrite E. exact H.
        * eexists. split; [exact A|]. split; [reflexivity|]. left. reflexivity.
      + destruct Q2 as (A & _). exists xm. split; [exact A|]. split; [reflexivity|]. left. reflexivity.
    - inversion Q2; subst. destruct cxm as [xm|]; [|reflexivity]. exists xm. split; [reflexivity|]. split; [reflexivity|]. left. reflexivity. }
  destruct (get id (ctxs s)) as [x|].
  - destruct M as [->|(xm & -> & Mr & Mb)]; [left; exact N|]. destruct N as (x' & A & B & C). right. exists x'. split; [exact A|].
    split; [congruence|]. rewrite <- Mb. exact C.
  - rewrite M in N. exact N.
Qed.

Lemma loc_inj id a b : loc id a = loc id b ->
  get id (ctxs a) = get id (ctxs b) /\ get id (expmark a) = get id (expmark b) /\ get id (newmark a) = get id (newmark b).
Proof. unfold loc. intros E. injection E as A B C. repeat split; assumption. Qed.

Lemma apply_endblock c s dt : apply c s (EndBlock dt) = if 0 <=? dt then end_block c s dt else s.
Proof. unfold apply. cbn [exec_step]. destruct (0 <=? dt); reflexivity. Qed.

Lemma TI_end univ c s dt tr pc pn pb :
  QInv s -> LInv false s -> FB s -> NoDup (keys (ctxs (apply c s (EndBlock dt)))) -> TI s tr ->
  TI (apply c s (EndBlock dt)) (update_track tr (obs_of univ pc pn pb s) (EndBlock dt) (obs_step univ c s (EndBlock dt))).
Proof.
  intros Hq Hl Hfb Hk' Ht id n h0 Hg. rewrite (track_end_get univ c s dt tr id pc pn pb Hk') in Hg.
  unfold track_g in Hg. cbn [obs_of o_ctxs] in Hg. rewrite (get_map_val ctx_tuple) in Hg.
  rewrite apply_endblock in Hg |- *. destruct (0 <=? dt).
  - (* the end blocker runs *)
    pose proof (eb_general c s dt id Hq Hl) as G.
    set (s' := end_block c s dt) in *.
    destruct (loc id s') as [[cx' ex'] nw'] eqn:El. unfold loc in El.
    pose proof (f_equal (fun t => fst (fst t)) El) as E1. pose proof (f_equal (fun t => snd (fst t)) El) as E2. pose proof (f_equal snd El) as E3.
    cbn [fst snd] in E1, E2, E3. clear El.
    rewrite E1 in Hg. destruct cx' as [x'|].
    2: { destruct (Ht id n h0 Hg) as (Hn & _). split; [exact Hn|]. intros x Hgx. rewrite E1 in Hgx. discriminate. }
    destruct (get id (ctxs s)) as [x|] eqn:Ex; [|discriminate G].
    destruct G as [G|(x'' & G0 & Gr & Gb)]; [discriminate G|]. inversion G0; subst x''. clear G0.
    cbn [option_map ctx_tuple t_batch t_state] in Hg.
    destruct (x_batch x <? x_batch x') eqn:Elt.
    + apply Z.ltb_lt in Elt. rewrite get_set_same in Hg. inversion Hg; subst n h0. clear Hg.
      destruct Gb as [Gb|(Gb & Gs & Ge)]; [lia|]. pose proof (proj1 (Hfb id x Ex)) as Hb0.
      split; [lia|]. intros x2 Hg2 _. rewrite E1 in Hg2. inversion Hg2; subst x2. split; [exact Gs|]. intros _. left. rewrite E2. exact Ge.
    + apply Z.ltb_ge in Elt. destruct (x_state x' =? 0) eqn:Es; cbn [negb] in Hg.
      2: { destruct (get id tr) as [[[n1 h1] b1]|] eqn:Et; [rewrite get_set_same in Hg; discriminate|]. rewrite Et in Hg. discriminate. }
      apply Z.eqb_eq in Es. destruct Gb as [Gb|(Gb & _)]; [|lia].
      destruct (Ht id n h0 Hg) as (Hn & Hx). split; [exact Hn|]. intros x2 Hg2 Hb2. rewrite E1 in Hg2. inversion Hg2; subst x2.
      split; [exact Es|]. intros Hr'. assert (Hr : x_rep x = true) by congruence. assert (Hbn : x_batch x = n) by congruence.
      pose proof (eb_tracked c s dt id x n h0 Hq Hl (Hfb id x Ex) Ex Hbn (conj Hn Hx) Hr) as O. fold s' in O. unfold eb_out in O. unfold loc at 1 in O. rewrite E1, E2, E3 in O.
      destruct (Hx x Ex Hbn) as (_ & HAB). specialize (HAB Hr). destruct (x_off_fields x) as (_ & _ & _ & Ot & Of & _).
      destruct O as [(O & _ & _)|[(O & _)|[(O1 & O2 & O3 & _)|[(_ & x2 & O1 & O2 & _)|(_ & x2 & O1 & _ & O3)]]]].
      * destruct (loc_inj _ _ _ O) as (O1 & O2 & O3). rewrite E1, Ex in O1. injection O1 as O1. subst x'. rewrite O2, O3. exact HAB.
      * discriminate O.
      * injection O1 as O1. subst x'. right. rewrite Of, E2, E3. split; congruence.
      * injection O1 as O1. subst x2. lia.
      * injection O1 as O1. subst x2. lia.
  - (* a rejected end-block: the state is unchanged *)
    destruct (get id (ctxs s)) as [x|] eqn:Ex; [|exact (Ht id n h0 Hg)].
    cbn [option_map ctx_tuple t_batch t_state] in Hg. rewrite Z.ltb_irrefl in Hg.
    destruct (x_state x =? 0); cbn [negb] in Hg; [exact (Ht id n h0 Hg)|].
    destruct (get id tr) as [[[n1 h1] b1]|] eqn:Et; [rewrite get_set_same in Hg; discriminate|]. rewrite Et in Hg. discriminate.
Qed.

(** ** the checker's schedule [sc]: an entry (id, hh) means "the next batch of id is scheduled at hh" *)
Definition SI (s : state) (sc : sched) : Prop :=
  forall id hh, get id sc = Some hh -> hh <= height s \/ get id (newmark s) = Some hh.

Lemma mark_persist c s st id H :
  fresh_ctx s st -> SInv s -> (H <= height s \/ get id (newmark s) = Some H) ->
  H <= height (apply c s st) \/ get id (newmark (apply c s st)) = Some H.
Proof.
  intros Hf Hs Hm.
  assert (R : SR (g_batches s) id H s).
  { split; [exact Hs|]. split; [intros e He Hn; contradiction|]. destruct Hm as [Hm|Hm]; [right|left]; exact Hm. }
  destruct (SR_apply_m _ _ _ c s st Hf R) as (_ & _ & [R2|R2]); [right|left]; exact R2.
Qed.

Lemma end_block_height c s dt : height (end_block c s dt) = height s + 1.
Proof.
  unfold end_block. cbv zeta. cbn [height with_iidx with_time with_height].
  assert (H1 : height (fold_left (expired_batch_handler c) (due (height s) (expq s)) s) = height s).
  { apply (fold_left_inv (fun t => height t = height s)); [|reflexivity]. intros t id Ht. rewrite expired_handler_height. exact Ht. }
  set (s1 := fold_left (expired_batch_handler c) _ s) in *.
  assert (H2 : height (fold_left new_batch_handler (due (height s1) (newq s1)) s1) = height s).
  { apply (fold_left_inv (fun t => height t = height s)); [|exact H1]. intros t id Ht. rewrite new_handler_height. exact Ht. }
  lia.
Qed.

Definition sched_v (tr : track) (p o : obs) (h : Z) (id : ctxid) (x : ctx_t) (cur : option Z) : option Z :=
  let c1 := match cur with Some hh => if hh <=? h then None else Some hh | None => None end in
  if eqb (get id (o_expmark p)) (Some h) && t_rep x && (t_state x =? 0) && ((t_total x <? 0) || (t_batch x <? t_total x))
  then match get id tr, get id (o_ctxs o) with
       | Some (n, h0, true), Some x' =>
           if (n =? t_batch x) && (t_state x' =? 0) && (t_freq x' =? t_freq x) then Some (h0 + t_freq x) else c1
       | _, _ => c1
       end
  else c1.

Definition sched_g (tr : track) (p o : obs) (h : Z) (e : ctxid * ctx_t) (t : sched) : sched :=
  let '(id, x) := e in
  let t1 := match get id t with Some hh => if hh <=? h then del id t else t | None => t end in
  if eqb (get id (o_expmark p)) (Some h) && t_rep x && (t_state x =? 0) && ((t_total x <? 0) || (t_batch x <? t_total x))
  then match get id tr, get id (o_ctxs o) with
       | Some (n, h0, true), Some x' =>
           if (n =? t_batch x) && (t_state x' =? 0) && (t_freq x' =? t_freq x) then set id (h0 + t_freq x) t1 else t1
       | _, _ => t1
       end
  else t1.

Lemma update_sched_end sc tr p dt o :
  update_sched sc tr p (EndBlock dt) o = fold_left (fun t e => sched_g tr p o (o_height p) e t) (o_ctxs p) sc.
Proof. reflexivity. Qed.

Lemma sched_g_get tr p o h id x t : get id (sched_g tr p o h (id, x) t) = sched_v tr p o h id x (get id t).
Proof.
  unfold sched_g, sched_v.
  assert (T1 : get id (match get id t with Some hh => if hh <=? h then del id t else t | None => t end)
               = match get id t with Some hh => if hh <=? h then None else Some hh | None => None end).
  { destruct (get id t) as [hh|] eqn:E; [|exact E]. destruct (hh <=? h); [apply get_del_same|exact E]. }
  destruct (eqb _ _ && _ && _ && _); [|exact T1].
  destruct (get id tr) as [[[n h0] [|]]|]; try exact T1. destruct (get id (o_ctxs o)) as [x'|]; [|exact T1].
  destruct (_ && _ && _); [apply get_set_same|exact T1].
Qed.

Lemma sched_g_other tr p o h e t k : k <> fst e -> get k (sched_g tr p o h e t) = get k t.
Proof.
  destruct e as [id x]. cbn [fst]. intros Hne. unfold sched_g.
  assert (T1 : get k (match get id t with Some hh => if hh <=? h then del id t else t | None => t end) = get k t).
  { destruct (get id t) as [hh|]; [|reflexivity]. destruct (hh <=? h); [apply get_del_other; exact Hne|reflexivity]. }
  destruct (eqb _ _ && _ && _ && _); [|exact T1].
  destruct (get id tr) as [[[n h0] [|]]|]; try exact T1. destruct (get id (o_ctxs o)) as [x'|]; [|exact T1].
  destruct (_ && _ && _); [rewrite get_set_other by exact Hne|]; exact T1.
Qed.

Lemma sched_g_loc tr p o h e t t' : get (fst e) t = get (fst e) t' -> get (fst e) (sched_g tr p o h e t) = get (fst e) (sched_g tr p o h e t').
Proof. destruct e as [id x]. cbn [fst]. intros E. rewrite !sched_g_get, E. reflexivity. Qed.

Lemma sched_end_get univ c s dt sc tr id pc pn pb :
  NoDup (keys (ctxs s)) ->
  get id (update_sched sc tr (obs_of univ pc pn pb s) (EndBlock dt) (obs_step univ c s (EndBlock dt))) =
  match get id (ctxs s) with
  | Some x => sched_v tr (obs_of univ pc pn pb s) (obs_step univ c s (EndBlock dt)) (height s) id (ctx_tuple x) (get id sc)
  | None => get id sc
  end.
Proof.
  intros Hnd. rewrite update_sched_end. set (p := obs_of univ pc pn pb s). set (o := obs_step univ c s (EndBlock dt)).
  change (o_height p) with (height s). change (o_ctxs p) with (map (fun e : ctxid * context => (fst e, ctx_tuple (snd e))) (ctxs s)).
  assert (Hnd' : NoDup (map fst (map (fun e : ctxid * context => (fst e, ctx_tuple (snd e))) (ctxs s)))) by (rewrite map_map; exact Hnd).
  destruct (fold_upd_get (sched_g tr p o (height s)) (sched_g_other tr p o (height s)) (sched_g_loc tr p o (height s)) _ sc Hnd') as (F1 & F2).
  destruct (get id (ctxs s)) as [x|] eqn:Eg.
  - rewrite <- sched_g_get. apply (F1 (id, ctx_tuple x)). apply in_map_iff. exists (id, x). split; [reflexivity|apply get_In; exact Eg].
  - apply F2. rewrite map_map. intros Hin. apply in_map_iff in Hin. destruct Hin as ([k v] & Ek & Hin). cbn [fst] in Ek. subst k.
    rewrite (In_get_NoDup id v (ctxs s) Hnd Hin) in Eg. discriminate.
Qed.

Lemma sched_nonend_get sc tr p st o id hh :
  is_endblock st = false -> get id (update_sched sc tr p st o) = Some hh -> get id sc = Some hh.
Proof.
  intros Heb H. unfold update_sched in H. rewrite Heb in H. destruct (is_update_or_kill st) as [id0|]; [|exact H].
  destruct (o_code o =? 0); [|exact H]. destruct (eq_dec id id0) as [->|Hne]; [rewrite get_del_same in H; discriminate|].
  rewrite get_del_other in H by exact Hne. exact H.
Qed.

Lemma SI_nonend univ c s st sc tr pc pn pb :
  fresh_ctx s st -> SInv s -> is_endblock st = false -> SI s sc ->
  SI (apply c s st) (update_sched sc tr (obs_of univ pc pn pb s) st (obs_step univ c s st)).
Proof.
  intros Hf Hs Heb Hi id hh Hg. apply (mark_persist c s st id hh Hf Hs). apply Hi. exact (sched_nonend_get _ _ _ _ _ _ _ Heb Hg).
Qed.

Lemma SI_end univ c s dt sc tr pc pn pb :
  0 <= dt -> SInv s -> LInv false s -> FB s -> NoDup (keys (ctxs s)) -> TI s tr -> SI s sc ->
  SI (apply c s (EndBlock dt)) (update_sched sc tr (obs_of univ pc pn pb s) (EndBlock dt) (obs_step univ c s (EndBlock dt))).
Proof.
  intros Hdt Hs Hl Hfb Hk Ht Hi id hh Hg. pose proof (proj1 Hs) as Hq.
  assert (Keep : get id sc = Some hh -> hh <= height (apply c s (EndBlock dt)) \/ get id (newmark (apply c s (EndBlock dt))) = Some hh).
  { intros Hg0. apply (mark_persist c s (EndBlock dt) id hh I Hs). apply Hi. exact Hg0. }
  rewrite (sched_end_get univ c s dt sc tr id pc pn pb Hk) in Hg.
  destruct (get id (ctxs s)) as [x|] eqn:Ex; [|exact (Keep Hg)].
  assert (C1 : match get id sc with Some hh0 => if hh0 <=? height s then None else Some hh0 | None => None end = Some hh -> get id sc = Some hh).
  { destruct (get id sc) as [hh0|]; [|discriminate]. destruct (hh0 <=? height s); [discriminate|]. tauto. }
  unfold sched_v in Hg. unfold obs_step in Hg. cbn [obs_of o_expmark o_ctxs] in Hg. rewrite (get_map_val ctx_tuple) in Hg.
  cbn [ctx_tuple t_rep t_state t_total t_batch t_freq] in Hg.
  destruct (eqb (get id (expmark s)) (Some (height s)) && x_rep x && (x_state x =? 0) && ((x_total x <? 0) || (x_batch x <? x_total x))) eqn:Ec;
    [|exact (Keep (C1 Hg))].
  destruct (get id tr) as [[[n h0] [|]]|] eqn:Et; try exact (Keep (C1 Hg)).
  destruct (get id (ctxs (apply c s (EndBlock dt)))) as [x'|] eqn:Ex'; cbn [option_map] in Hg; [|exact (Keep (C1 Hg))].
  cbn [ctx_tuple t_state t_freq] in Hg.
  destruct ((n =? x_batch x) && (x_state x' =? 0) && (x_freq x' =? x_freq x)) eqn:Ed; [|exact (Keep (C1 Hg))].
  injection Hg as <-. rewrite !andb_true_iff in Ec, Ed. destruct Ec as ((Ee & Est) & _). apply andb_true_iff in Ee. destruct Ee as (Ee & Er). destruct Ed as ((En & Es') & _).
  apply (proj1 (eqb_true_iff _ _)) in Ee. apply Z.eqb_eq in Est, En, Es'.
  rewrite apply_endblock in Ex' |- *. assert (Edt : (0 <=? dt) = true) by (apply Z.leb_le; exact Hdt). rewrite Edt in Ex' |- *.
  pose proof (eb_tracked c s dt id x n h0 Hq Hl (Hfb id x Ex) Ex (eq_sym En) (Ht id n h0 Et) Er) as O.
  unfold eb_out in O. destruct (loc id (end_block c s dt)) as [[cx' ex'] nw'] eqn:El.
  pose proof (f_equal (fun t => fst (fst t)) El) as E1. pose proof (f_equal snd El) as E3. unfold loc in E1, E3. cbn [fst snd] in E1, E3.
  rewrite Ex' in E1. subst cx'.
  destruct O as [(_ & _ & O)|[(O & _)|[(_ & _ & O3 & _)|[(O & _)|(_ & x2 & O1 & _ & O3)]]]].
  - contradiction.
  - discriminate O.
  - right. rewrite E3. exact O3.
  - left. rewrite end_block_height. lia.
  - injection O1 as <-. lia.
Qed.

(** ** C08, clause 4 on the model's own observations *)
Lemma c08_clause4_obs univ c s st seen fired tr sc pc pn pb :
  QInv s -> LInv false s -> FB s -> NoDup (keys (ctxs s)) -> good_step st -> TI s tr -> SI s sc ->
  holds_C08 seen fired tr sc (obs_of univ pc pn pb s) st (obs_step univ c s st) <> 4.
Proof.
  intros Hq Hl Hfb Hk Hgood Ht Hi E.
  apply first_fail_in in E; [|lia]. unfold holds_C08 in E; cbv zeta in E.
  do 7 (split_seg E; [not_here E|]).
  split_seg E.
  { (* the tracker entries *)
    destruct st as [|dt| | | | | | |]; try contradiction E. cbn [is_endblock] in E. simpl in Hgood.
    split_seg E; [|not_here E].
    apply in_map_iff in E. destruct E as ([id xt] & E & Hin). injection E as E.
    destruct (in_obs_ctxs univ _ _ _ s _ Hk Hin) as (x & Hg & Ex). cbn [fst snd] in Hg, Ex. subst xt.
    destruct (get id tr) as [[[n h0] [|]]|] eqn:Et; try discriminate E.
    cbn [ctx_tuple t_rep t_state t_batch t_freq t_total] in E.
    destruct (x_rep x && (x_state x =? 0) && (n =? x_batch x)) eqn:Ec; [|discriminate E].
    rewrite !andb_true_iff in Ec. destruct Ec as ((Er & Est) & En). apply Z.eqb_eq in Est, En.
    unfold obs_step in E. cbn [obs_of o_ctxs o_height] in E. rewrite (get_map_val ctx_tuple) in E.
    rewrite apply_endblock in E. assert (Edt : (0 <=? dt) = true) by (apply Z.leb_le; exact Hgood). rewrite Edt in E.
    pose proof (eb_tracked c s dt id x n h0 Hq Hl (Hfb id x Hg) Hg (eq_sym En) (Ht id n h0 Et) Er) as O.
    unfold eb_out in O. destruct (loc id (end_block c s dt)) as [[cx' ex'] nw'] eqn:El.
    pose proof (f_equal (fun t => fst (fst t)) El) as E1. unfold loc in E1. cbn [fst] in E1. rewrite E1 in E. clear El E1.
    destruct (x_off_fields x) as (Ob & Os & _).
    destruct O as [(O & Hne & _)|[(O & Hb)|[(O & _ & _ & Hne)|[(Heq & x2 & O & Ob2 & _)|(Heq & x2 & O & Ob2 & Os2)]]]].
    - unfold loc in O. injection O as O _ _. rewrite Hg in O. subst cx'. cbn [option_map ctx_tuple t_batch t_state] in E.
      rewrite <- En in E. replace (n =? n + 1) with false in E by (symmetry; apply Z.eqb_neq; lia).
      replace (height s =? h0 + x_freq x) with false in E by (symmetry; apply Z.eqb_neq; exact Hne). discriminate E.
    - subst cx'. cbn [option_map] in E. rewrite <- En in E. replace (n =? n + 1) with false in E by (symmetry; apply Z.eqb_neq; lia).
      unfold belowb in Hb. rewrite Er in Hb. cbn [andb] in Hb. rewrite <- En in Hb. rewrite Hb, andb_false_r in E. discriminate E.
    - subst cx'. cbn [option_map ctx_tuple t_batch t_state] in E. rewrite Ob, <- En in E.
      replace (n =? n + 1) with false in E by (symmetry; apply Z.eqb_neq; lia).
      replace (height s =? h0 + x_freq x) with false in E by (symmetry; apply Z.eqb_neq; exact Hne). discriminate E.
    - subst cx'. cbn [option_map ctx_tuple t_batch t_state] in E. rewrite Ob2, Z.eqb_refl in E.
      replace (height s =? h0 + x_freq x) with true in E by (symmetry; apply Z.eqb_eq; exact Heq). cbn [negb orb andb] in E. rewrite orb_true_r in E. discriminate E.
    - subst cx'. cbn [option_map ctx_tuple t_batch t_state] in E. rewrite Ob2, Os2 in E.
      replace (n =? n + 1) with false in E by (symmetry; apply Z.eqb_neq; lia). cbn [negb orb andb Z.eqb] in E. rewrite orb_true_r in E. discriminate E. }
  split_seg E; [|not_here E].
  (* no batch before the scheduled height *)
  destruct st as [|dt| | | | | | |]; try contradiction E. cbn [is_endblock] in E.
  apply in_map_iff in E. destruct E as ([id xt] & E & Hin). injection E as E.
  destruct (in_obs_ctxs univ _ _ _ s _ Hk Hin) as (x & Hg & Ex). cbn [fst snd] in Hg, Ex. subst xt.
  destruct (get id sc) as [hh|] eqn:Esc; [|discriminate E].
  unfold obs_step in E. cbn [obs_of o_ctxs o_height] in E. rewrite (get_map_val ctx_tuple) in E.
  destruct (get id (ctxs (apply c s (EndBlock dt)))) as [x'|] eqn:Ex'; cbn [option_map] in E; [|discriminate E].
  cbn [ctx_tuple t_batch] in E. apply negb_false_iff, andb_true_iff in E. destruct E as (Elt & Ehh). apply Z.ltb_lt in Elt, Ehh.
  rewrite apply_endblock in Ex'. destruct (0 <=? dt); [|rewrite Hg in Ex'; injection Ex' as <-; lia].
  destruct (Hi id hh Esc) as [Hle|Hnm]; [lia|].
  assert (Hex : get id (expmark s) = None).
  { destruct (get id (expmark s)) as [e|] eqn:Ee; [|reflexivity]. rewrite (exp_no_new s id e Hq Ee) in Hnm. discriminate. }
  destruct (end_block_loc' c s dt id Hq Hl) as (mid & P1 & P2).
  destruct P1 as [(P1 & _)|(_ & ->)]; [congruence|]. unfold loc at 1 2 in P2. cbn [snd] in P2. rewrite Hnm in P2.
  destruct P2 as [(P2 & _)|(_ & P2)]; [injection P2 as P2; lia|].
  destruct (loc_inj _ _ _ P2) as (P & _). rewrite Ex', Hg in P. injection P as <-. lia.
Qed.

(** ** along the model's own trace *)
Fixpoint model_ts (univ : list (Z * Z)) (c : config) (s : state) (ts : track * sched) (steps : list step) : track * sched :=
  match steps with
  | [] => ts
  | st :: r =>
      let p := obs_of univ 0 None [] s in let o := obs_step univ c s st in
      model_ts univ c (apply c s st) (update_track (fst ts) p st o, update_sched (snd ts) (fst ts) p st o) r
  end.

Definition J4 (s : state) (ts : track * sched) : Prop :=
  SL s /\ FB s /\ NoDup (keys (ctxs s)) /\ TI s (fst ts) /\ SI s (snd ts).

Lemma J4_step univ c s st ts :
  fresh_ctx s st -> good_step st -> J4 s ts ->
  J4 (apply c s st) (update_track (fst ts) (obs_of univ 0 None [] s) st (obs_step univ c s st),
                     update_sched (snd ts) (fst ts) (obs_of univ 0 None [] s) st (obs_step univ c s st)).
Proof.
  intros Hf Hg (Hsl & Hfb & Hk & Ht & Hi). pose proof (SL_apply_m c s st Hf Hsl) as Hsl'.
  pose proof (apply_kc c s st Hk) as Hk'. destruct Hsl as ((Hq & Hb) & Hl).
  split; [exact Hsl'|]. split; [apply FB_apply; exact Hfb|]. split; [exact Hk'|]. cbn [fst snd].
  destruct st as [txh m|dt| | | | | | |];
    try (split; [apply TI_nonend; [exact Hf|reflexivity|exact Ht]|apply SI_nonend; [exact Hf|split; assumption|reflexivity|exact Hi]]).
  simpl in Hg. split; [apply TI_end; assumption|apply SI_end; try assumption; split; assumption].
Qed.

Lemma clause4_trace univ c : forall steps s ts,
  fresh_history c s steps -> Forall good_step steps -> J4 s ts ->
  forall pre st post, steps = pre ++ st :: post ->
  forall seen fired pc pn pb,
    holds_C08 seen fired (fst (model_ts univ c s ts pre)) (snd (model_ts univ c s ts pre))
      (obs_of univ pc pn pb (run c s pre)) st (obs_step univ c (run c s pre) st) <> 4.
Proof.
  induction steps as [|st0 r IH]; intros s ts Hf Hg HJ pre st post E seen fired pc pn pb.
  - destruct pre; discriminate E.
  - destruct Hf as (F1 & F2). inversion Hg as [|? ? G1 G2]; subst.
    destruct pre as [|st1 pre'].
    + cbn [app] in E. injection E as <- _. cbn [run model_ts]. destruct HJ as (((Hq & _) & Hl) & Hfb & Hk & Ht & Hi).
      apply c08_clause4_obs; assumption.
    + cbn [app] in E. injection E as <- E. cbn [run model_ts].
      exact (IH _ _ F2 G2 (J4_step univ c s st0 ts F1 G1 HJ) pre' st post E seen fired pc pn pb).
Qed.

Theorem model_passes_C08_clause_4_lemma :
  forall c steps h0 t0 l0 univ,
    NoDup (create_txhs steps) -> Forall good_step steps ->
    forall pre st post, steps = pre ++ st :: post ->
    forall seen fired pc pn pb,
      let s := run c (init h0 t0 l0) pre in
      let ts := model_ts univ c (init h0 t0 l0) ([], []) pre in
      holds_C08 seen fired (fst ts) (snd ts) (obs_of univ pc pn pb s) st (obs_step univ c s st) <> 4.
Proof.
  intros c steps h0 t0 l0 univ Hnd Hg pre st post E seen fired pc pn pb s ts. subst s ts.
  apply (clause4_trace univ c steps (init h0 t0 l0) ([], [])) with (post := post); try assumption.
  - apply fresh_history_from_distinct_hashes_lemma. exact Hnd.
  - split; [split; [apply SInv_init|apply LInv_init]|]. split; [intros id x Hgx; simpl in Hgx; discriminate|].
    split; [simpl; constructor|]. split; [intros id n hh Hx|intros id hh Hx]; simpl in Hx; discriminate.
Qed.

(** ** the checker on the model's own case, with its tracker and schedule *)
Definition step_okt (Q7 Q8 : Z -> Prop) (univ : list (Z * Z)) (c : config) (s : state) (seen : list reqid) (ts : track * sched) (st : step) : Prop :=
  forall pc pn pb fired,
    Q7 (holds_C07 c (obs_of univ pc pn pb s) st (obs_step univ c s st))
    /\ Q8 (holds_C08 seen fired (fst ts) (snd ts) (obs_of univ pc pn pb s) st (obs_step univ c s st)).

Lemma check_from_clauses_t (Q7 Q8 : Z -> Prop) univ c : forall rest s seen ts,
  (forall pre st post, rest = pre ++ st :: post ->
     step_okt Q7 Q8 univ c (run c s pre) (model_seen univ c s seen pre) (model_ts univ c s ts pre) st) ->
  forall pc pn pb fired i corr p7 c7 p8 c8,
    let '(_, _, c7', _, c8') :=
      check_from c s (obs_of univ pc pn pb s) seen fired (fst ts) (snd ts) (model_trace univ c s rest) i corr p7 c7 p8 c8 in
    (c7' = c7 \/ Q7 c7') /\ (c8' = c8 \/ Q8 c8').
Proof.
  induction rest as [|st r IH]; intros s seen ts H pc pn pb fired i corr p7 c7 p8 c8.
  - cbn [model_trace check_from]. split; left; reflexivity.
  - cbn [model_trace]. rewrite check_from_cons.
    destruct (H [] st r eq_refl pc pn pb fired) as (K7 & K8). cbn [run model_seen model_ts] in K7, K8.
    set (p := obs_of univ pc pn pb s) in *. set (o := obs_step univ c s st) in *.
    set (k7 := holds_C07 c p st o) in *. set (k8 := holds_C08 seen fired (fst ts) (snd ts) p st o) in *.
    set (ts' := (update_track (fst ts) p st o, update_sched (snd ts) (fst ts) p st o)).
    assert (H' : forall pre st0 post, r = pre ++ st0 :: post ->
              step_okt Q7 Q8 univ c (run c (apply c s st) pre)
                (model_seen univ c (apply c s st) (seen ++ map fst (created_in p o)) pre) (model_ts univ c (apply c s st) ts' pre) st0).
    { intros pre st0 post E. exact (H (st :: pre) st0 post (f_equal (cons st) E)). }
    pose proof (IH (apply c s st) (seen ++ map fst (created_in p o)) ts' H'
                  (res_code (exec_step c s st)) (step_newctx s st (exec_step c s st)) (skipn (length (cblog s)) (cblog (apply c s st)))
                  (fired ++ cb_keys (o_cb o)) (i + 1)
                  (if (corr <? 0) && negb (corr_step s st (exec_step c s st) (apply c s st) o) then i else corr)
                  (if (p7 <? 0) && negb (k7 =? 0) then i else p7) (if (p7 <? 0) && negb (k7 =? 0) then k7 else c7)
                  (if (p8 <? 0) && negb (k8 =? 0) then i else p8) (if (p8 <? 0) && negb (k8 =? 0) then k8 else c8)) as G.
    change (obs_of univ (res_code (exec_step c s st)) (step_newctx s st (exec_step c s st)) (skipn (length (cblog s)) (cblog (apply c s st))) (apply c s st))
      with o in G. cbn [fst snd ts'] in G.
    match goal with |- context [check_from ?a ?b ?cc ?d ?e ?f ?g ?h ?ii ?j ?k ?l ?m ?n] =>
      destruct (check_from a b cc d e f g h ii j k l m n) as [[[[r1 r2] r3] r4] r5] end.
    destruct G as (G7 & G8). split.
    + destruct G7 as [G7|G7]; [|right; exact G7]. destruct ((p7 <? 0) && negb (k7 =? 0)); [right; rewrite G7; exact K7|left; exact G7].
    + destruct G8 as [G8|G8]; [|right; exact G8]. destruct ((p8 <? 0) && negb (k8 =? 0)); [right; rewrite G8; exact K8|left; exact G8].
Qed.

Definition ok8t (k : Z) : Prop := k <> 1 /\ k <> 2 /\ k <> 3 /\ k <> 4 /\ k <> 5 /\ k <> 6 /\ k <> 8 /\ k <> 9.

Theorem model_passes_clauses_C08_4_lemma :
  forall c steps h0 t0 l0 univ,
    c_msvc c < 0 -> 0 <= c_tax c -> clean l0 -> NoDup (create_txhs steps) -> Forall good_step steps ->
    In (DEP, BASE) univ -> (forall d, In d (denoms c) -> In (REQ, d) univ) ->
    (forall pre st post, steps = pre ++ st :: post -> forall rid q, get rid (reqs (run c (init h0 t0 l0) pre)) = Some q ->
       In (TAX, q_fd q) univ /\ In (REQ, q_fd q) univ) ->
    ledger_of (obs_of univ 0 None [] (init h0 t0 l0)) = l0 ->
    forall corr p k, check_case_C08 (model_case univ c h0 t0 l0 steps) = (corr, p, k) ->
      corr = -1 /\ k <> 1 /\ k <> 2 /\ k <> 3 /\ k <> 4 /\ k <> 5 /\ k <> 6 /\ k <> 8 /\ k <> 9.
Proof.
  intros c steps h0 t0 l0 univ Hm Htax Hcl Hnd Hgood Hu1 Hu2 Hu5 Hl corr p k Ek.
  destruct (model_corresponds_to_itself_lemma c steps h0 t0 l0 univ Hnd Hl) as (_ & C8). cbv zeta in C8.
  split; [exact (C8 corr p k Ek)|].
  pose proof (model_step_ok c steps h0 t0 l0 univ Hm Htax Hcl Hnd Hgood Hu1 Hu2 Hu5) as H.
  assert (H4 : forall pre st post, steps = pre ++ st :: post ->
            step_okt ok7 ok8t univ c (run c (init h0 t0 l0) pre) (model_seen univ c (init h0 t0 l0) [] pre)
              (model_ts univ c (init h0 t0 l0) ([], []) pre) st).
  { intros pre st post E pc pn pb fired.
    destruct (H pre st post E pc pn pb fired (fst (model_ts univ c (init h0 t0 l0) ([], []) pre)) (snd (model_ts univ c (init h0 t0 l0) ([], []) pre)))
      as (K7 & K1 & K2 & K5 & K6 & K8 & K9).
    split; [exact K7|]. split; [exact K1|]. split; [exact K2|].
    assert (Hnd1 : NoDup (create_txhs (pre ++ [st]))).
    { rewrite E in Hnd. replace (pre ++ st :: post) with ((pre ++ [st]) ++ post) in Hnd by (rewrite <- app_assoc; reflexivity).
      rewrite create_txhs_app in Hnd. exact (NoDup_app_l _ _ Hnd). }
    assert (Hg : good_step st) by (apply (proj1 (Forall_forall _ _) Hgood); rewrite E; apply in_elt).
    split; [exact (model_passes_C08_clause_3_lemma c pre st h0 t0 l0 univ _ fired _ _ pc pn pb Hnd1 Hg)|].
    split; [exact (model_passes_C08_clause_4_lemma c steps h0 t0 l0 univ Hnd Hgood pre st post E _ fired pc pn pb)|].
    split; [exact K5|]. split; [exact K6|]. split; [exact K8|exact K9]. }
  pose proof (check_from_clauses_t ok7 ok8t univ c steps (init h0 t0 l0) [] ([], []) H4 0 None [] [] 1
                (if corr_state (init h0 t0 l0) (obs_of univ 0 None [] (init h0 t0 l0)) then -1 else 0) (-1) 0 (-1) 0) as G.
  assert (E : check_all (model_case univ c h0 t0 l0 steps) = check_from c (init h0 t0 l0) (obs_of univ 0 None [] (init h0 t0 l0)) [] [] [] [] (model_trace univ c (init h0 t0 l0) steps) 1
                (if corr_state (init h0 t0 l0) (obs_of univ 0 None [] (init h0 t0 l0)) then -1 else 0) (-1) 0 (-1) 0).
  { unfold check_all, model_case. rewrite Hl. reflexivity. }
  unfold check_case_C08 in Ek. rewrite E in Ek. cbn [fst snd] in G.
  destruct (check_from _ _ _ _ _ _ _ _ _ _ _ _ _ _) as [[[[r1 r2] r3] r4] r5]. inversion Ek; subst.
  destruct G as (_ & [->|G8]); [repeat split; discriminate|exact G8].
Qed.
