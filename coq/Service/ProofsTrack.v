(** * Service: the model passes its own check — C08 clause 4 (the checker's schedule tracker).
    Model-side: what one end-block does to ONE context and its two height markers. *)
From Irismod Require Import Service.Model Service.Check Service.Proofs Service.ProofsHist Service.ProofsEscrow Service.ProofsSched
  Service.ProofsBatch Service.ProofsLiab Service.ProofsTally Service.ProofsLive Service.ProofsModule Service.ProofsFresh
  Service.ProofsCallback Service.ProofsSchedule Service.ProofsModuleHist Service.ProofsOutcome Service.ProofsCheck.

(** the data of context [id]: stored context, expiry marker, new-batch marker *)
Definition loc (id : ctxid) (t : state) : option context * option Z * option Z :=
  (get id (ctxs t), get id (expmark t), get id (newmark t)).

(** a fold of handlers over distinct ids: the handler of [id] meets its spec [Q] on the data of
    [id]; the handlers of the other ids leave that data alone *)
Lemma fold_loc (I : state -> Prop) (f : state -> ctxid -> state) (id : ctxid) (Q : option context * option Z * option Z -> option context * option Z * option Z -> Prop) :
  (forall t id', I t -> I (f t id')) ->
  (forall t id', id' <> id -> loc id (f t id') = loc id t) ->
  (forall t, I t -> Q (loc id t) (loc id (f t id))) ->
  forall ids t, NoDup ids -> I t ->
    (In id ids -> Q (loc id t) (loc id (fold_left f ids t)))
    /\ (~ In id ids -> loc id (fold_left f ids t) = loc id t).
Proof.
  intros HI Hoth Hown. induction ids as [|a ids IH]; cbn [fold_left]; intros t Hnd Ht; [split; [intros []|reflexivity]|].
  inversion Hnd as [|? ? Hn Hnd']; subst. destruct (IH (f t a) Hnd' (HI t a Ht)) as (I1 & I2). split.
  - intros [->|Hin].
    + rewrite (I2 Hn). apply Hown. exact Ht.
    + assert (Hne : a <> id) by (intros ->; exact (Hn Hin)). rewrite <- (Hoth t a Hne). exact (I1 Hin).
  - intros Hnot. simpl in Hnot. rewrite I2 by tauto. apply Hoth. intros ->. tauto.
Qed.

Definition x_off (x : context) : context := if x_brun x then cx_brun x false else x.
Definition belowb (x : context) : bool := x_rep x && ((x_total x <? 0) || (x_batch x <? x_total x)).

(** the expired-batch handler on its own context, at height [h] *)
Definition QE (h : Z) (pre post : option context * option Z * option Z) : Prop :=
  let '(cx, ex, nw) := pre in let '(cx', ex', nw') := post in
  match cx with
  | None => post = pre
  | Some x =>
      ex' = None
      /\ (if x_state x =? 2 then cx' = None /\ nw' = nw
          else if x_state x =? 0 then
                 if belowb x then cx' = Some (x_off x) /\ nw' = Some (h - x_timeout x + x_freq x)
                 else cx' = None /\ nw' = nw
               else cx' = Some (x_off x) /\ nw' = nw)
  end.

Lemma expired_handler_loc_other c t id id' : id' <> id -> loc id (expired_batch_handler c t id') = loc id t.
Proof.
  intros Hne. assert (Hne' : id <> id') by congruence. unfold loc.
  rewrite (expired_handler_ctx_other c t id' id Hne'). f_equal; [f_equal|].
  - unfold expired_batch_handler. destruct (get id' (ctxs t)) as [x|]; [|reflexivity].
    set (pr := if x_brun x then _ else (t, x)).
    assert (C : expmark (fst pr) = expmark t).
    { subst pr. destruct (x_brun x); [|reflexivity]. simpl.
      destruct (expire_fold_qsame c x (filter (fun e => in_batch id' (x_batch x) e && q_active (snd e)) (reqs t)) t) as (_ & _ & _ & _ & C).
      destruct (x_mod x); [|exact C]. destruct (callback_qsame (fold_left (expire_request c x) (filter (fun e => in_batch id' (x_batch x) e && q_active (snd e)) (reqs t)) t) id') as (_ & _ & _ & _ & C2). congruence. }
    destruct pr as [s1 x1]. simpl in C. cbv zeta.
    destruct (x_state x1 =? 2); destruct (x_state x1 =? 0); try destruct (x_rep x1 && _); simpl; rewrite ?C;
      rewrite ?get_del_other by exact Hne'; reflexivity.
  - exact (proj2 (expired_handler_marks c t id') id Hne').
Qed.

Lemma expire_fold_height c x : forall l t, height (fold_left (expire_request c x) l t) = height t.
Proof. induction l as [|[r q] l IH]; intros t; cbn [fold_left]; [reflexivity|]. rewrite IH. exact (proj2 (proj2 (expire_struct c x t r q))). Qed.

Lemma expired_handler_loc_own c t id : QE (height t) (loc id t) (loc id (expired_batch_handler c t id)).
Proof.
  unfold QE, loc, expired_batch_handler. destruct (get id (ctxs t)) as [x|] eqn:Eg; [|rewrite Eg; reflexivity].
  set (pr := if x_brun x then _ else (t, x)).
  assert (C : ctxs (fst pr) = ctxs t /\ newmark (fst pr) = newmark t /\ expmark (fst pr) = expmark t /\ height (fst pr) = height t /\ snd pr = x_off x).
  { subst pr. unfold x_off. destruct (x_brun x); [|repeat split; reflexivity]. cbn [fst snd].
    pose proof (expire_fold_qsame c x (filter (fun e => in_batch id (x_batch x) e && q_active (snd e)) (reqs t)) t) as (C & _ & Nm & _ & Em).
    pose proof (expire_fold_height c x (filter (fun e => in_batch id (x_batch x) e && q_active (snd e)) (reqs t)) t) as Hh.
    destruct (x_mod x).
    - pose proof (callback_qsame (fold_left (expire_request c x) (filter (fun e => in_batch id (x_batch x) e && q_active (snd e)) (reqs t)) t) id) as (C2 & _ & Nm2 & _ & Em2).
      pose proof (callback_same (fold_left (expire_request c x) (filter (fun e => in_batch id (x_batch x) e && q_active (snd e)) (reqs t)) t) id) as (_ & _ & Hh2).
      repeat split; congruence.
    - repeat split; assumption. }
  destruct pr as [s1 x1]. cbn [fst snd] in C. destruct C as (C & Nm & Em & Hh & X1). subst x1. cbv zeta.
  assert (Xs : x_state (x_off x) = x_state x) by (unfold x_off; destruct (x_brun x); reflexivity).
  assert (Xb : belowb (x_off x) = belowb x) by (unfold x_off, belowb; destruct (x_brun x); reflexivity).
  assert (Xt : x_timeout (x_off x) = x_timeout x /\ x_freq (x_off x) = x_freq x) by (unfold x_off; destruct (x_brun x); split; reflexivity).
  rewrite Xs. fold (belowb (x_off x)). rewrite Xb.
  destruct (x_state x =? 2) eqn:E2; destruct (x_state x =? 0) eqn:E0; destruct (belowb x) eqn:Eb; simpl;
    rewrite ?C, ?Nm, ?Em, ?Hh, ?get_del_same, ?get_set_same, ?(proj1 Xt), ?(proj2 Xt); repeat split; try reflexivity.
  all: try (apply Z.eqb_eq in E2; apply Z.eqb_eq in E0; lia).
Qed.

(** the new-batch handler on its own context, at height [h] *)
Definition QN (h : Z) (pre post : option context * option Z * option Z) : Prop :=
  let '(cx, ex, nw) := pre in let '(cx', ex', nw') := post in
  match cx with
  | None => post = pre
  | Some x =>
      nw' = None
      /\ (if x_state x =? 0 then
            (exists x', cx' = Some x' /\ x_batch x' = x_batch x + 1 /\ x_state x' = 0 /\ x_rep x' = x_rep x
                        /\ x_timeout x' = x_timeout x /\ x_freq x' = x_freq x /\ x_total x' = x_total x
                        /\ ex' = Some (h + x_timeout x))
            \/ (exists x', cx' = Some x' /\ x_batch x' = x_batch x /\ x_state x' = 1 /\ ex' = ex)
          else cx' = Some x /\ ex' = ex)
  end.

Lemma new_handler_loc_other t id id' : id' <> id -> loc id (new_batch_handler t id') = loc id t.
Proof.
  intros Hne. assert (Hne' : id <> id') by congruence. unfold loc.
  rewrite (new_handler_ctx_other t id' id Hne'). f_equal; [f_equal|].
  - unfold new_batch_handler. destruct (get id' (ctxs t)) as [x|]; [|reflexivity].
    destruct (x_state x =? 0); [|reflexivity].
    destruct (filter_provs t x (x_provs x)) as [ps|]; [|simpl; rewrite get_set_other by exact Hne'; reflexivity].
    cbv zeta. destruct (_ && _); [|simpl; rewrite get_set_other by exact Hne'; reflexivity].
    destruct (debit_all _ _ _); [simpl; rewrite get_set_other by exact Hne'; reflexivity|].
    unfold on_paused. destruct (x_mod x); reflexivity.
  - exact (proj1 (proj2 (new_handler_marks t id')) id Hne').
Qed.

Lemma new_handler_loc_own t id : QN (height t) (loc id t) (loc id (new_batch_handler t id)).
Proof.
  unfold QN, loc, new_batch_handler. destruct (get id (ctxs t)) as [x|] eqn:Eg; [|rewrite Eg; reflexivity].
  destruct (x_state x =? 0) eqn:Es.
  2: { simpl. rewrite Eg, get_del_same. repeat split; reflexivity. }
  apply Z.eqb_eq in Es.
  assert (Skip : let t' := dequeue_new (skip_batch t id x) id in
            get id (newmark t') = None /\
            ((exists x', get id (ctxs t') = Some x' /\ x_batch x' = x_batch x + 1 /\ x_state x' = 0 /\ x_rep x' = x_rep x
                        /\ x_timeout x' = x_timeout x /\ x_freq x' = x_freq x /\ x_total x' = x_total x
                        /\ get id (expmark t') = Some (height t + x_timeout x))
             \/ (exists x', get id (ctxs t') = Some x' /\ x_batch x' = x_batch x /\ x_state x' = 1 /\ get id (expmark t') = get id (expmark t)))).
  { cbv zeta. simpl. rewrite get_del_same, !get_set_same. split; [reflexivity|]. left. eexists. split; [reflexivity|]. simpl. repeat split; assumption. }
  destruct (filter_provs t x (x_provs x)) as [ps|]; [|exact Skip].
  cbv zeta. destruct (_ && _); [|exact Skip].
  destruct (debit_all _ _ _) as [l|].
  - simpl. rewrite get_del_same, !get_set_same. split; [reflexivity|]. left. eexists. split; [reflexivity|]. simpl. repeat split; assumption.
  - split; [unfold on_paused; destruct (x_mod x); simpl; apply get_del_same|]. right.
    exists (cx_state (cx_brun x false) 1). unfold on_paused. destruct (x_mod x); simpl; rewrite get_set_same; repeat split; reflexivity.
Qed.

Lemma expired_handler_height c t id : height (expired_batch_handler c t id) = height t.
Proof.
  unfold expired_batch_handler. destruct (get id (ctxs t)) as [x|]; [|reflexivity].
  set (pr := if x_brun x then _ else (t, x)).
  assert (Hh : height (fst pr) = height t).
  { subst pr. destruct (x_brun x); [|reflexivity]. cbn [fst].
    pose proof (expire_fold_height c x (filter (fun e => in_batch id (x_batch x) e && q_active (snd e)) (reqs t)) t) as Hh.
    destruct (x_mod x); [|exact Hh]. rewrite (proj2 (proj2 (callback_same _ id))). exact Hh. }
  destruct pr as [s1 x1]. cbn [fst] in Hh. cbv zeta.
  destruct (x_state x1 =? 2); destruct (x_state x1 =? 0); try destruct (x_rep x1 && _); simpl; exact Hh.
Qed.

Lemma new_handler_height t id : height (new_batch_handler t id) = height t.
Proof. exact (proj2 (proj2 (new_handler_reqs t id))). Qed.

(** one end-block on the data of context [id]: phase 1 acts on it iff its expiry marker is the
    current height, phase 2 iff its new-batch marker (after phase 1) is *)
Lemma end_block_loc c s dt id :
  QInv s -> LInv false s ->
  exists mid,
    (if eqb (snd (fst (loc id s))) (Some (height s)) then QE (height s) (loc id s) mid else mid = loc id s)
    /\ (if eqb (snd mid) (Some (height s)) then QN (height s) mid (loc id (end_block c s dt)) else loc id (end_block c s dt) = mid).
Proof.
  intros Hq Hl. unfold end_block. cbv zeta.
  set (s1 := fold_left (expired_batch_handler c) _ s).
  assert (H1 : QInv s1 /\ height s1 = height s).
  { subst s1. apply (fold_handlers (fun t => QInv t /\ height t = height s) (expired_batch_handler c)
                      (fun t id => In (height t, id) (expq t))).
    - intros t id0 (Ht & Hh) Hpre. destruct (QInv_expired_handler c t id0 Ht Hpre) as (A & B & C).
      split; [split; [exact A|congruence]|]. intros id' Hne Hp. rewrite B. apply C; assumption.
    - apply due_NoDup. exact (q_exp_nodup _ Hq).
    - split; [exact Hq|reflexivity].
    - intros id0 Hin. apply due_in in Hin. exact Hin. }
  destruct H1 as (Q1 & Hh1).
  exists (loc id s1). split.
  - destruct (fold_loc (fun t => height t = height s) (expired_batch_handler c) id (QE (height s))
               (fun t id' Ht => eq_trans (expired_handler_height c t id') Ht)
               (fun t id' Hne => expired_handler_loc_other c t id id' Hne)
               (fun t Ht => eq_ind _ (fun h => QE h (loc id t) (loc id (expired_batch_handler c t id))) (expired_handler_loc_own c t id) _ Ht)
               (due (height s) (expq s)) s (due_NoDup _ _ (q_exp_nodup _ Hq)) eq_refl) as (F1 & F2). fold s1 in F1, F2.
    unfold loc at 1. cbn [fst snd].
    destruct (eqb (get id (expmark s)) (Some (height s))) eqn:Ee.
    + apply (proj1 (eqb_true_iff _ _)) in Ee. apply F1. apply due_in. exact (proj1 (l_mark _ _ Hl id _ Ee)).
    + apply F2. intros Hin. apply due_in in Hin. rewrite (q_exp_mark _ Hq _ _ Hin), eqb_refl in Ee. discriminate.
  - set (s2 := fold_left new_batch_handler _ s1).
    assert (E : loc id (with_iidx (with_time (with_height s2 (height s2 + 1)) (time s2 + dt)) 0) = loc id s2) by reflexivity.
    rewrite E. clear E.
    destruct (fold_loc (fun t => height t = height s) new_batch_handler id (QN (height s))
               (fun t id' Ht => eq_trans (new_handler_height t id') Ht)
               (fun t id' Hne => new_handler_loc_other t id id' Hne)
               (fun t Ht => eq_ind _ (fun h => QN h (loc id t) (loc id (new_batch_handler t id))) (new_handler_loc_own t id) _ Ht)
               (due (height s1) (newq s1)) s1 (due_NoDup _ _ (q_new_nodup _ Q1)) Hh1) as (F1 & F2). fold s2 in F1, F2.
    unfold loc at 1. cbn [snd].
    destruct (eqb (get id (newmark s1)) (Some (height s))) eqn:Ee.
    + apply (proj1 (eqb_true_iff _ _)) in Ee. apply F1. apply due_in. rewrite Hh1. exact (q_mark_new _ Q1 _ _ Ee).
    + apply F2. intros Hin. apply due_in in Hin. rewrite Hh1 in Hin. rewrite (q_new_mark _ Q1 _ _ Hin), eqb_refl in Ee. discriminate.
Qed.
