(** * Service: active requests always belong to the running, current batch of a stored
    context, and a running batch never has more active requests than responses outstanding. *)
From Irismod Require Import Service.Model Service.Proofs Service.ProofsHist Service.ProofsEscrow.
From Irismod Require Import Service.ProofsSched.

Lemma zsum_nonneg l : (forall x, In x l -> 0 <= x) -> 0 <= zsum l.
Proof. induction l as [|y l IH]; simpl; intros H; [lia|]. pose proof (H y (or_introl eq_refl)). assert (0 <= zsum l) by (apply IH; intros; apply H; right; assumption). lia. Qed.

Lemma msum_nonneg {A} (f : A -> Z) (m : list A) : (forall e, 0 <= f e) -> 0 <= zsum (map f m).
Proof. intros H. apply zsum_nonneg. intros x Hin. apply in_map_iff in Hin. destruct Hin as (e & <- & _). apply H. Qed.

Lemma msum_ge_term {A} (f : A -> Z) (m : list A) e : (forall e, 0 <= f e) -> In e m -> f e <= zsum (map f m).
Proof.
  intros H. induction m as [|y m IH]; simpl; [tauto|]. intros [->|Hin].
  - pose proof (msum_nonneg f m H). lia.
  - pose proof (H y). specialize (IH Hin). lia.
Qed.

Lemma msum_filter_le {A} (f : A -> Z) (p : A -> bool) (m : list A) : (forall e, 0 <= f e) -> zsum (map f (filter p m)) <= zsum (map f m).
Proof. intros H. induction m as [|y m IH]; simpl; [lia|]. pose proof (H y). destruct (p y); simpl; lia. Qed.

Definition rid_ctx (r : reqid) : ctxid := let '(i, _, _, _) := r in i.
Definition rid_b (r : reqid) : Z := let '(_, b, _, _) := r in b.
Definition act1 (id : ctxid) (e : reqid * request) : Z := if eqb (rid_ctx (fst e)) id && q_active (snd e) then 1 else 0.
Definition nact (id : ctxid) (m : amap reqid request) : Z := msum (act1 id) m.

Lemma act1_bounds id e : 0 <= act1 id e <= 1.
Proof. unfold act1. destruct (_ && _); lia. Qed.
Lemma act1_nonneg id e : 0 <= act1 id e.
Proof. apply act1_bounds. Qed.

Lemma nact_zero id m : (forall rid q, In (rid, q) m -> rid_ctx rid = id -> q_active q = false) -> nact id m = 0.
Proof.
  unfold nact, msum. induction m as [|[rid q] m IH]; simpl; intros H; [reflexivity|]. rewrite IH by (intros; eapply H; [right; eassumption|assumption]).
  unfold act1. simpl. destruct (eqb (rid_ctx rid) id) eqn:E; [|reflexivity]. apply (proj1 (eqb_true_iff _ _)) in E.
  rewrite (H rid q (or_introl eq_refl) E). reflexivity.
Qed.

Lemma nact_set_le id rid q m : nact id (set rid q m) <= nact id m + 1.
Proof.
  unfold nact. rewrite msum_set. pose proof (act1_bounds id (rid, q)).
  destruct (get rid m) as [v0|]; [pose proof (act1_bounds id (rid, v0))|]; lia.
Qed.

Lemma nact_set_other id rid q m : rid_ctx rid <> id -> nact id (set rid q m) = nact id m.
Proof.
  intros Hne. unfold nact. rewrite msum_set. unfold act1. simpl.
  assert (E : eqb (rid_ctx rid) id = false) by (apply eqb_false_iff; exact Hne). rewrite E. simpl.
  destruct (get rid m); lia.
Qed.

Lemma nact_set_deact id rid q q' m :
  get rid m = Some q -> q_active q = true -> q_active q' = false -> rid_ctx rid = id -> nact id (set rid q' m) = nact id m - 1.
Proof.
  intros Hg Ha Ha' Hc. unfold nact. rewrite msum_set, Hg. unfold act1. simpl. rewrite Ha, Ha', Hc, eqb_refl. simpl. lia.
Qed.

Record BatchInv (s : state) : Prop := {
  b_keys : NoDup (keys (reqs s));
  b_act : forall rid q, get rid (reqs s) = Some q -> q_active q = true ->
          exists x, get (rid_ctx rid) (ctxs s) = Some x /\ x_brun x = true /\ rid_b rid = x_batch x;
  b_count : forall id x, get id (ctxs s) = Some x -> x_brun x = true -> nact id (reqs s) <= x_breq x - x_bresp x
}.

Definition b_same (s s' : state) : Prop := reqs s' = reqs s /\ ctxs s' = ctxs s.
Lemma BatchInv_same s s' : b_same s s' -> BatchInv s -> BatchInv s'.
Proof. intros (A & B) [I1 I2 I3]. constructor; rewrite ?A, ?B; assumption. Qed.

(** no active request belongs to a context whose batch is not running, or that is not stored *)
Lemma no_active_closed s id :
  BatchInv s -> (forall x, get id (ctxs s) = Some x -> x_brun x = false) ->
  forall rid q, get rid (reqs s) = Some q -> rid_ctx rid = id -> q_active q = false.
Proof.
  intros Hinv Hc rid q Hg Hid. destruct (q_active q) eqn:Ea; [|reflexivity].
  destruct (b_act _ Hinv rid q Hg Ea) as (x & Hx & Hr & _). rewrite Hid in Hx. rewrite (Hc x Hx) in Hr. discriminate.
Qed.

Lemma nact_closed s id :
  BatchInv s -> (forall x, get id (ctxs s) = Some x -> x_brun x = false) -> nact id (reqs s) = 0.
Proof.
  intros Hinv Hc. apply nact_zero. intros rid q Hin Hid. eapply no_active_closed; try eassumption.
  apply In_get_NoDup; [exact (b_keys _ Hinv)|exact Hin].
Qed.

(** a context rewritten in place, batch bookkeeping untouched *)
Lemma BatchInv_ctx_keep s id x x' :
  BatchInv s -> get id (ctxs s) = Some x ->
  x_brun x' = x_brun x -> x_batch x' = x_batch x -> x_breq x' = x_breq x -> x_bresp x' = x_bresp x ->
  BatchInv (with_ctxs s (set id x' (ctxs s))).
Proof.
  intros [I1 I2 I3] Hg E1 E2 E3 E4. constructor; simpl; [exact I1| |].
  - intros rid q Hq Ha. destruct (I2 rid q Hq Ha) as (x0 & Hx0 & Hr & Hb).
    destruct (eq_dec (rid_ctx rid) id) as [Heq|Hne].
    + rewrite Heq in *. rewrite Hg in Hx0. inversion Hx0; subst x0. exists x'. rewrite get_set_same. repeat split; congruence.
    + exists x0. rewrite get_set_other by exact Hne. repeat split; assumption.
  - intros id0 x0 Hg0 Hr. destruct (eq_dec id0 id) as [->|Hne].
    + rewrite get_set_same in Hg0. inversion Hg0; subst x0. rewrite E3, E4. apply I3; [exact Hg|congruence].
    + rewrite get_set_other in Hg0 by exact Hne. apply I3; assumption.
Qed.

(** a new context under an id that is not stored *)
Lemma BatchInv_new_ctx s id x :
  BatchInv s -> get id (ctxs s) = None -> x_brun x = false -> BatchInv (with_ctxs s (set id x (ctxs s))).
Proof.
  intros [I1 I2 I3] Hg Hb. constructor; simpl; [exact I1| |].
  - intros rid q Hq Ha. destruct (I2 rid q Hq Ha) as (x0 & Hx0 & Hr & Hbb).
    assert (Hne : rid_ctx rid <> id) by (intros E; rewrite E in Hx0; congruence).
    exists x0. rewrite get_set_other by exact Hne. repeat split; assumption.
  - intros id0 x0 Hg0 Hr. destruct (eq_dec id0 id) as [->|Hne].
    + rewrite get_set_same in Hg0. inversion Hg0; subst. congruence.
    + rewrite get_set_other in Hg0 by exact Hne. apply I3; assumption.
Qed.

(** ** a response *)
Lemma respond_shape c s rid prov kind s' :
  respond c s rid prov kind = Okk s' ->
  exists q x q' x',
    get rid (reqs s) = Some q /\ q_active q = true /\ get (rid_ctx rid) (ctxs s) = Some x
    /\ q_active q' = false /\ q_fee q' = q_fee q /\ q_fd q' = q_fd q
    /\ reqs s' = set rid q' (reqs s) /\ ctxs s' = set (rid_ctx rid) x' (ctxs s)
    /\ x_batch x' = x_batch x /\ x_breq x' = x_breq x /\ x_bresp x' = x_bresp x + 1
    /\ (x_brun x' = x_brun x \/ (x_brun x' = false /\ x_bresp x + 1 = x_breq x)).
Proof.
  intros H. unfold respond in H. destruct rid as [[[id batch] hh] ii].
  destruct ((0 <=? prov) && negb (kind =? 2)); cbv beta iota zeta delta [negb] in H; [|discriminate].
  match type of H with context [@get reqid request ?i ?k (reqs s)] =>
    destruct (@get reqid request i k (reqs s)) as [q|] eqn:Eq end; [|discriminate].
  destruct (get id (ctxs s)) as [x|] eqn:Ex; [|discriminate].
  destruct (q_prov q =? prov); cbv beta iota zeta delta [negb] in H; [|discriminate].
  destruct (q_active q) eqn:Ea; cbv beta iota zeta delta [negb] in H; [|discriminate].
  destruct (add_earned_fee c s prov (q_fd q) (q_fee q)) as [s1|] eqn:Ef; [|discriminate].
  destruct (add_earned_fee_spec _ _ _ _ _ _ Ef) as (_ & _ & _ & _ & R1 & R2 & _).
  exists q, x, (rq_resp (rq_active q false) (if kind =? 1 then 2 else 1)).
  simpl rid_ctx.
  destruct (x_bresp (cx_bresp x (x_bresp x + 1)) =? x_breq (cx_bresp x (x_bresp x + 1))) eqn:Eb;
    [destruct (x_mod (cx_bresp x (x_bresp x + 1)))|]; inversion H; subst s'; clear H.
  - exists (cx_brun (cx_bresp x (x_bresp x + 1)) false). unfold callback. simpl. rewrite R2, Ex. simpl. rewrite R1, R2.
    simpl in Eb. apply Z.eqb_eq in Eb. repeat split; try reflexivity; try assumption. right. split; [reflexivity|exact Eb].
  - exists (cx_brun (cx_bresp x (x_bresp x + 1)) false). simpl. rewrite R1, R2.
    simpl in Eb. apply Z.eqb_eq in Eb. repeat split; try reflexivity; try assumption. right. split; [reflexivity|exact Eb].
  - exists (cx_bresp x (x_bresp x + 1)). simpl. rewrite R1, R2. repeat split; try reflexivity; try assumption. left. reflexivity.
Qed.

Lemma BatchInv_respond c s rid prov kind s' : respond c s rid prov kind = Okk s' -> BatchInv s -> BatchInv s'.
Proof.
  intros H [I1 I2 I3].
  destruct (respond_shape _ _ _ _ _ _ H) as (q & x & q' & x' & Hq & Ha & Hx & Ha' & _ & _ & R & C & E2 & E3 & E4 & E1).
  set (id := rid_ctx rid) in *.
  destruct (I2 rid q Hq Ha) as (x0 & Hx0 & Hr & Hb). fold id in Hx0. rewrite Hx in Hx0. inversion Hx0; subst x0. clear Hx0.
  pose proof (I3 id x Hx Hr) as Hc.
  assert (Hn : nact id (reqs s') = nact id (reqs s) - 1) by (rewrite R; eapply nact_set_deact; eauto).
  constructor; rewrite ?R, ?C.
  - apply keys_set_NoDup. exact I1.
  - intros rid0 q0 Hg0 Ha0. destruct (eq_dec rid0 rid) as [->|Hne].
    + rewrite get_set_same in Hg0. inversion Hg0; subst. congruence.
    + rewrite get_set_other in Hg0 by exact Hne. destruct (I2 rid0 q0 Hg0 Ha0) as (x0 & Hx0 & Hr0 & Hb0).
      destruct (eq_dec (rid_ctx rid0) id) as [Heq|Hnid].
      * rewrite Heq in *. rewrite Hx in Hx0. inversion Hx0; subst x0. exists x'. rewrite get_set_same.
        split; [reflexivity|]. split; [|congruence].
        destruct E1 as [E1|(E1 & E1')]; [congruence|]. exfalso.
        (* the batch completes: no other active request of this context can remain *)
        assert (Hge : 1 <= nact id (reqs s')).
        { rewrite R. unfold nact, msum.
          assert (Hin : In (rid0, q0) (set rid q' (reqs s))) by (apply get_In; rewrite get_set_other by exact Hne; exact Hg0).
          pose proof (msum_ge_term (act1 id) _ _ (act1_nonneg id) Hin) as Hm. unfold act1 at 1 in Hm. simpl in Hm.
          rewrite Heq, eqb_refl, Ha0 in Hm. exact Hm. }
        lia.
      * exists x0. rewrite get_set_other by exact Hnid. repeat split; assumption.
  - intros id0 x0 Hg0 Hr0. destruct (eq_dec id0 id) as [->|Hne].
    + rewrite get_set_same in Hg0. inversion Hg0; subst x0. fold id in Hn. rewrite <- R, Hn. lia.
    + rewrite get_set_other in Hg0 by exact Hne. rewrite nact_set_other by (fold id; congruence). apply I3; assumption.
Qed.

(** ** the expired-batch handler *)
Lemma expire_fold_reqs c x : forall act s,
  NoDup (keys (reqs s)) -> NoDup (map fst act) -> (forall e, In e act -> get (fst e) (reqs s) = Some (snd e)) ->
  let s' := fold_left (expire_request c x) act s in
  NoDup (keys (reqs s')) /\ ctxs s' = ctxs s
  /\ (forall rid q', get rid (reqs s') = Some q' -> q_active q' = true -> get rid (reqs s) = Some q' /\ ~ In rid (map fst act))
  /\ (forall id, nact id (reqs s') <= nact id (reqs s)).
Proof.
  induction act as [|[rid q] act IH]; cbn [fold_left]; intros s Hk Hnd Hall.
  - cbv zeta. split; [exact Hk|]. split; [reflexivity|]. split; [intros; split; [assumption|simpl; tauto]|intros; lia].
  - cbn [map fst] in Hnd. inversion Hnd as [|? ? Hn Hnd']; subst.
    destruct (expire_struct c x s rid q) as (R & _ & _).
    pose proof (expire_qsame c x s (rid, q)) as (C & _).
    set (s1 := expire_request c x s (rid, q)) in *.
    assert (Hk1 : NoDup (keys (reqs s1))) by (rewrite R; apply keys_set_NoDup; exact Hk).
    assert (Hall1 : forall e, In e act -> get (fst e) (reqs s1) = Some (snd e)).
    { intros e He. rewrite R. rewrite get_set_other; [apply Hall; right; exact He|].
      intros E. apply Hn. rewrite <- E. apply in_map. exact He. }
    destruct (IH s1 Hk1 Hnd' Hall1) as (A & B & D & F). cbv zeta.
    split; [exact A|]. split; [congruence|]. split.
    + intros rid0 q0 Hg0 Ha0. destruct (D rid0 q0 Hg0 Ha0) as (D1 & D2). rewrite R in D1.
      destruct (eq_dec rid0 rid) as [->|Hne].
      * rewrite get_set_same in D1. inversion D1; subst. simpl in Ha0. discriminate.
      * rewrite get_set_other in D1 by exact Hne. split; [exact D1|]. simpl. intros [E|Hin]; [congruence|exact (D2 Hin)].
    + intros id. specialize (F id). rewrite R in F.
      assert (nact id (set rid (rq_active q false) (reqs s)) <= nact id (reqs s)); [|lia].
      pose proof (Hall (rid, q) (or_introl eq_refl)) as Hq. simpl in Hq.
      unfold nact. rewrite msum_set. rewrite Hq. unfold act1. simpl.
      rewrite andb_false_r. destruct (_ && _); lia.
Qed.

Lemma BatchInv_expired_handler c s id : BatchInv s -> BatchInv (expired_batch_handler c s id).
Proof.
  intros Hinv. unfold expired_batch_handler. destruct (get id (ctxs s)) as [x|] eqn:Eg; [|exact Hinv].
  set (pr := if x_brun x then _ else (s, x)).
  (* after the expiry of the active requests: nothing of this context is active *)
  assert (Hpr : NoDup (keys (reqs (fst pr))) /\ ctxs (fst pr) = ctxs s
                /\ (forall rid q', get rid (reqs (fst pr)) = Some q' -> q_active q' = true ->
                      get rid (reqs s) = Some q' /\ rid_ctx rid <> id)
                /\ (forall id0, nact id0 (reqs (fst pr)) <= nact id0 (reqs s))
                /\ x_brun (snd pr) = false).
  { subst pr. destruct (x_brun x) eqn:Eb.
    - simpl. set (act := filter _ (reqs s)).
      assert (Hnd : NoDup (map fst act)) by (subst act; apply (keys_filter_NoDup _ (reqs s)); exact (b_keys _ Hinv)).
      assert (Hall : forall e, In e act -> get (fst e) (reqs s) = Some (snd e)).
      { intros [r q] He. subst act. apply filter_In in He. simpl. apply In_get_NoDup; [exact (b_keys _ Hinv)|tauto]. }
      destruct (expire_fold_reqs c x act s (b_keys _ Hinv) Hnd Hall) as (A & B & D & F).
      assert (Main : forall t, reqs t = reqs (fold_left (expire_request c x) act s) -> ctxs t = ctxs (fold_left (expire_request c x) act s) ->
                NoDup (keys (reqs t)) /\ ctxs t = ctxs s
                /\ (forall rid q', get rid (reqs t) = Some q' -> q_active q' = true -> get rid (reqs s) = Some q' /\ rid_ctx rid <> id)
                /\ (forall id0, nact id0 (reqs t) <= nact id0 (reqs s))).
      { intros t Rt Ct. rewrite Rt, Ct. split; [exact A|]. split; [exact B|]. split; [|exact F].
        intros rid q' Hg Ha. destruct (D rid q' Hg Ha) as (D1 & D2). split; [exact D1|]. intros Hid. apply D2.
        destruct (b_act _ Hinv rid q' D1 Ha) as (x0 & Hx0 & _ & Hb0). rewrite Hid, Eg in Hx0. inversion Hx0; subst x0.
        subst act. apply in_map_iff. exists (rid, q'). split; [reflexivity|]. apply filter_In. split; [apply get_In; exact D1|].
        simpl. rewrite Ha, andb_true_r. unfold in_batch. simpl. destruct rid as [[[i b] hh] ii]. simpl in *. subst.
        rewrite eqb_refl, Z.eqb_refl. reflexivity. }
      destruct (x_mod x).
      + destruct (Main (callback (fold_left (expire_request c x) act s) id)) as (M1 & M2 & M3 & M4).
        * exact (proj1 (callback_same _ id)).
        * exact (proj1 (callback_qsame _ id)).
        * split; [exact M1|split; [exact M2|split; [exact M3|split; [exact M4|reflexivity]]]].
      + destruct (Main _ eq_refl eq_refl) as (M1 & M2 & M3 & M4). split; [exact M1|split; [exact M2|split; [exact M3|split; [exact M4|reflexivity]]]].
    - simpl. split; [exact (b_keys _ Hinv)|]. split; [reflexivity|]. split; [|split; [intros; lia|exact Eb]].
      intros rid q' Hg Ha. split; [exact Hg|]. intros Hid.
      destruct (b_act _ Hinv rid q' Hg Ha) as (x0 & Hx0 & Hr0 & _). rewrite Hid, Eg in Hx0. inversion Hx0; subst. congruence. }
  destruct pr as [s1 x1]. simpl in Hpr. destruct Hpr as (K1 & C1 & A1 & N1 & B1). cbv zeta.
  (* the state before CleanBatch: requests of s1, contexts of s with [id] rewritten (not running) or removed *)
  match goal with |- BatchInv (with_reqs ?t (filter ?f (reqs ?t))) =>
    assert (Ht : reqs t = reqs s1 /\ (ctxs t = set id x1 (ctxs s) \/ ctxs t = del id (set id x1 (ctxs s)))) end.
  { destruct (Z.eqb_spec (x_state x1) 2) as [S2|S2]; destruct (Z.eqb_spec (x_state x1) 0) as [S0|S0]; [lia| | |];
      try destruct (x_rep x1 && _); simpl; rewrite ?C1; split; try reflexivity; auto. }
  destruct Ht as (Rt & Ct).
  match goal with |- BatchInv (with_reqs ?t (filter ?f (reqs ?t))) => set (tt := t) in *; set (ff := f) end.
  assert (Hctx : forall id0 x0, get id0 (ctxs tt) = Some x0 -> (id0 = id /\ x_brun x0 = false) \/ (id0 <> id /\ get id0 (ctxs s) = Some x0)).
  { intros id0 x0 Hg0. destruct (eq_dec id0 id) as [->|Hne].
    - left. split; [reflexivity|]. destruct Ct as [Ct|Ct]; rewrite Ct in Hg0.
      + rewrite get_set_same in Hg0. inversion Hg0; subst. exact B1.
      + rewrite get_del_same in Hg0. discriminate.
    - right. split; [exact Hne|]. destruct Ct as [Ct|Ct]; rewrite Ct in Hg0.
      + rewrite get_set_other in Hg0 by exact Hne. exact Hg0.
      + rewrite get_del_other, get_set_other in Hg0 by exact Hne. exact Hg0. }
  assert (Hctx2 : forall id0 x0, id0 <> id -> get id0 (ctxs s) = Some x0 -> get id0 (ctxs tt) = Some x0).
  { intros id0 x0 Hne Hg0. destruct Ct as [Ct|Ct]; rewrite Ct.
    - rewrite get_set_other by exact Hne. exact Hg0.
    - rewrite get_del_other, get_set_other by exact Hne. exact Hg0. }
  constructor; simpl.
  - apply keys_filter_NoDup. rewrite Rt. exact K1.
  - intros rid q Hg Ha. assert (Hg1 : get rid (reqs s1) = Some q).
    { rewrite <- Rt. eapply get_filter_NoDup; [rewrite Rt; exact K1|exact Hg]. }
    destruct (A1 rid q Hg1 Ha) as (Hgs & Hnid). destruct (b_act _ Hinv rid q Hgs Ha) as (x0 & Hx0 & Hr0 & Hb0).
    exists x0. split; [apply Hctx2; assumption|split; assumption].
  - intros id0 x0 Hg0 Hr0. destruct (Hctx id0 x0 Hg0) as [(-> & Hf)|(Hne & Hgs)]; [congruence|].
    eapply Z.le_trans; [apply (msum_filter_le (act1 id0) ff (reqs tt) (act1_nonneg id0))|].
    fold (nact id0 (reqs tt)). rewrite Rt. eapply Z.le_trans; [apply N1|]. apply (b_count _ Hinv); assumption.
Qed.

(** ** the new-batch handler (for a context whose batch is closed) *)
Lemma get_fold_set {K V} `{EqDec K} (rs : list (K * V)) : forall (m : amap K V) k v,
  get k (fold_left (fun m e => set (fst e) (snd e) m) rs m) = Some v -> In (k, v) rs \/ get k m = Some v.
Proof.
  induction rs as [|[k0 v0] rs IH]; simpl; intros m k v Hg; [right; exact Hg|].
  destruct (IH _ _ _ Hg) as [Hin|Hg']; [left; right; exact Hin|].
  destruct (eq_dec k k0) as [->|Hne].
  - rewrite get_set_same in Hg'. inversion Hg'; subst. left. left. reflexivity.
  - rewrite get_set_other in Hg' by exact Hne. right. exact Hg'.
Qed.

Lemma keys_fold_set_NoDup {K V} `{EqDec K} (rs : list (K * V)) : forall (m : amap K V),
  NoDup (keys m) -> NoDup (keys (fold_left (fun m e => set (fst e) (snd e) m) rs m)).
Proof. induction rs as [|[k0 v0] rs IH]; simpl; intros m Hk; [exact Hk|]. apply IH. apply keys_set_NoDup. exact Hk. Qed.

Lemma nact_fold_set_le id (rs : list (reqid * request)) : forall m,
  nact id (fold_left (fun m e => set (fst e) (snd e) m) rs m) <= nact id m + Z.of_nat (length rs).
Proof.
  induction rs as [|[k0 v0] rs IH]; simpl length; intros m; [simpl; lia|]. cbn [fold_left fst snd].
  eapply Z.le_trans; [apply IH|]. pose proof (nact_set_le id k0 v0 m). lia.
Qed.

Lemma nact_fold_set_other id (rs : list (reqid * request)) : forall m,
  (forall e, In e rs -> rid_ctx (fst e) <> id) ->
  nact id (fold_left (fun m e => set (fst e) (snd e) m) rs m) = nact id m.
Proof.
  induction rs as [|[k0 v0] rs IH]; intros m Hall; [reflexivity|]. cbn [fold_left fst snd].
  rewrite IH by (intros e He; apply Hall; right; exact He). apply nact_set_other. apply (Hall (k0, v0)). left. reflexivity.
Qed.

Lemma mk_requests_shape s x id batch : forall ps i e, In e (mk_requests s x id batch i ps) ->
  rid_ctx (fst e) = id /\ rid_b (fst e) = batch /\ q_active (snd e) = true.
Proof.
  induction ps as [|p ps IH]; simpl; intros i e He; [tauto|]. destruct (fee_of s x p) as [fd fee].
  destruct He as [<-|He]; [repeat split|]. eapply IH. exact He.
Qed.
Lemma mk_requests_length s x id batch : forall ps i, length (mk_requests s x id batch i ps) = length ps.
Proof. induction ps as [|p ps IH]; simpl; intros i; [reflexivity|]. destruct (fee_of s x p). simpl. rewrite IH. reflexivity. Qed.

Lemma BatchInv_start_batch s id x x' (rs : list (reqid * request)) :
  BatchInv s -> get id (ctxs s) = Some x -> x_brun x = false ->
  (forall e, In e rs -> rid_ctx (fst e) = id /\ rid_b (fst e) = x_batch x' /\ q_active (snd e) = true) ->
  x_brun x' = true -> x_breq x' = Z.of_nat (length rs) -> x_bresp x' = 0 ->
  forall t, reqs t = fold_left (fun m e => set (fst e) (snd e) m) rs (reqs s) -> ctxs t = set id x' (ctxs s) -> BatchInv t.
Proof.
  intros Hinv Hg Hb Hrs E1 E2 E3 t Rt Ct.
  assert (Hz : nact id (reqs s) = 0) by (apply nact_closed; [exact Hinv|]; intros x0 Hx0; congruence).
  constructor; rewrite ?Rt, ?Ct.
  - apply keys_fold_set_NoDup. exact (b_keys _ Hinv).
  - intros rid q Hq Ha. destruct (get_fold_set _ _ _ _ Hq) as [Hin|Hold].
    + destruct (Hrs _ Hin) as (R1 & R2 & _). simpl in R1, R2. exists x'. rewrite R1, get_set_same. repeat split; assumption.
    + destruct (b_act _ Hinv rid q Hold Ha) as (x0 & Hx0 & Hr0 & Hb0).
      assert (Hne : rid_ctx rid <> id) by (intros E; rewrite E, Hg in Hx0; inversion Hx0; subst; congruence).
      exists x0. rewrite get_set_other by exact Hne. repeat split; assumption.
  - intros id0 x0 Hg0 Hr0. destruct (eq_dec id0 id) as [->|Hne].
    + rewrite get_set_same in Hg0. inversion Hg0; subst x0. rewrite E2, E3.
      pose proof (nact_fold_set_le id rs (reqs s)). lia.
    + rewrite get_set_other in Hg0 by exact Hne.
      rewrite nact_fold_set_other by (intros e He; destruct (Hrs e He) as (R1 & _); congruence).
      apply (b_count _ Hinv); assumption.
Qed.

Lemma BatchInv_new_handler s id :
  BatchInv s -> (forall x, get id (ctxs s) = Some x -> x_brun x = false) -> BatchInv (new_batch_handler s id).
Proof.
  intros Hinv Hclosed. unfold new_batch_handler. destruct (get id (ctxs s)) as [x|] eqn:Eg; [|exact Hinv].
  pose proof (Hclosed x eq_refl) as Hb.
  assert (SK : BatchInv (dequeue_new (skip_batch s id x) id)).
  { eapply (BatchInv_start_batch s id x (cx_bthr (cx_bresp (cx_breq (cx_brun (cx_batch x (x_batch x + 1)) true) 0) 0) (x_thr x)) [] Hinv Eg Hb);
      try reflexivity. intros e []. }
  destruct (x_state x =? 0); [|eapply BatchInv_same; [|exact Hinv]; repeat split].
  destruct (filter_provs s x (x_provs x)) as [ps|]; [|exact SK].
  cbv zeta. destruct ((0 <? Z.of_nat (length ps)) && (x_thr x <=? Z.of_nat (length ps))); [|exact SK].
  destruct (debit_all (led s) (x_cons x) (total_fees s x ps)) as [l|].
  - eapply (BatchInv_start_batch s id x (cx_bthr (cx_breq (cx_bresp (cx_brun (cx_batch x (x_batch x + 1)) true) 0) (Z.of_nat (length ps))) (x_thr x))
              (mk_requests (with_led s (credit_all l REQ (total_fees s x ps))) x id (x_batch x + 1) 0 ps) Hinv Eg Hb); try reflexivity.
    + intros e He. destruct (mk_requests_shape _ _ _ _ _ _ _ He) as (A & B & C). repeat split; assumption.
    + simpl. rewrite mk_requests_length. reflexivity.
  - eapply (BatchInv_same (with_ctxs s (set id (cx_state (cx_brun x false) 1) (ctxs s)))).
    + unfold on_paused. destruct (x_mod x); repeat split.
    + eapply BatchInv_ctx_keep; [exact Hinv|exact Eg| | | |]; simpl; congruence.
Qed.

(** ** all steps *)
Ltac b_frame H := repeat dmn H; inversion H; subst; clear H; repeat split; reflexivity.

Lemma BatchInv_create c s txh svc provs cons inok capd capa timeout rep freq total st thr md s' id :
  create_context c s txh svc provs cons inok capd capa timeout rep freq total st thr md = Some (s', id) ->
  ctx_at s (txh, iidx s) = None -> BatchInv s -> BatchInv s'.
Proof.
  unfold create_context, ctx_at. intros H Hf Hinv.
  repeat dmn H; inversion H; subst s' id; clear H.
  all: match goal with |- BatchInv ?t =>
         match t with context [with_ctxs ?s0 (set ?id ?X (ctxs ?s0))] =>
           apply (BatchInv_same (with_ctxs s0 (set id X (ctxs s0)))); [repeat split|];
           apply BatchInv_new_ctx; [assumption|assumption|reflexivity]
         end
       end.
Qed.

Lemma BatchInv_pause s id cons s' : k_pause s id cons = Okk s' -> BatchInv s -> BatchInv s'.
Proof.
  unfold k_pause. intros H Hinv. destruct (get id (ctxs s)) as [x|] eqn:Eg; [|discriminate].
  repeat dmn H. inversion H; subst. eapply BatchInv_ctx_keep; [exact Hinv|exact Eg| | | |]; reflexivity.
Qed.
Lemma BatchInv_kill s id cons s' : k_kill s id cons = Okk s' -> BatchInv s -> BatchInv s'.
Proof.
  unfold k_kill. intros H Hinv. destruct (get id (ctxs s)) as [x|] eqn:Eg; [|discriminate].
  repeat dmn H. inversion H; subst. eapply BatchInv_ctx_keep; [exact Hinv|exact Eg| | | |]; reflexivity.
Qed.
Lemma BatchInv_start s id cons s' : k_start s id cons = Okk s' -> BatchInv s -> BatchInv s'.
Proof.
  unfold k_start. intros H Hinv. destruct (get id (ctxs s)) as [x|] eqn:Eg; [|discriminate].
  assert (D : BatchInv (with_ctxs s (set id (cx_state x 0) (ctxs s)))) by (eapply BatchInv_ctx_keep; [exact Hinv|exact Eg| | | |]; reflexivity).
  repeat dmn H; inversion H; subst; clear H; (eapply BatchInv_same; [|exact D]; repeat split).
Qed.
Lemma BatchInv_update_context c s id provs capd capa timeout freq total cons s' :
  update_context c s id provs capd capa timeout freq total cons = Okk s' -> BatchInv s -> BatchInv s'.
Proof.
  unfold update_context. intros H Hinv.
  match type of H with (if negb ?g then _ else _) = _ => destruct g; [|discriminate] end.
  cbv beta iota zeta delta [negb] in H.
  destruct (check_authority s cons id true); [|discriminate]. cbv beta iota zeta delta [negb] in H.
  destruct (get id (ctxs s)) as [x|] eqn:Eg; [|discriminate].
  repeat dmn H; inversion H; subst; clear H; (eapply BatchInv_ctx_keep; [exact Hinv|exact Eg| | | |]);
    repeat match goal with |- context [match ?g with _ => _ end] => destruct g end; reflexivity.
Qed.

Lemma BatchInv_exec_msg c s txh m s' : exec_msg_plain c s txh m = Okk s' -> fresh_ctx s (Tx txh m) -> BatchInv s -> BatchInv s'.
Proof.
  intros H Hf Hinv. destruct m; simpl in H.
  - unfold define in H. eapply BatchInv_same; [|exact Hinv]. b_frame H.
  - unfold bind in H. eapply BatchInv_same; [|exact Hinv]. b_frame H.
  - unfold update_binding in H. eapply BatchInv_same; [|exact Hinv]. b_frame H.
  - unfold set_withdraw in H. eapply BatchInv_same; [|exact Hinv]. b_frame H.
  - unfold enable in H. eapply BatchInv_same; [|exact Hinv]. b_frame H.
  - unfold disable in H. eapply BatchInv_same; [|exact Hinv]. b_frame H.
  - unfold refund_deposit in H. eapply BatchInv_same; [|exact Hinv]. b_frame H.
  - unfold call in H. destruct (negb _); [discriminate|].
    destruct (create_context _ _ _ _ _ _ _ _ _ _ _ _ _ _ _ _) as [[s1 id]|] eqn:E; [|discriminate].
    inversion H; subst. eapply BatchInv_create; [exact E|exact Hf|exact Hinv].
  - eapply BatchInv_respond; eassumption.
  - unfold msg_ctl in H. repeat dmn H. eapply BatchInv_pause; eassumption.
  - unfold msg_ctl in H. repeat dmn H. eapply BatchInv_start; eassumption.
  - unfold msg_ctl in H. repeat dmn H. eapply BatchInv_kill; eassumption.
  - eapply BatchInv_update_context; eassumption.
  - unfold withdraw in H. eapply BatchInv_same; [|exact Hinv]. b_frame H.
Qed.

Definition SInv (s : state) : Prop := QInv s /\ BatchInv s.

Lemma SInv_end_block c s dt : SInv s -> SInv (end_block c s dt).
Proof.
  intros (Hq & Hb). split; [apply QInv_end_block; exact Hq|].
  unfold end_block. cbv zeta.
  set (s1 := fold_left (expired_batch_handler c) _ s).
  assert (H1 : (QInv s1 /\ BatchInv s1) /\ height s1 = height s).
  { subst s1. apply (fold_handlers (fun t => (QInv t /\ BatchInv t) /\ height t = height s) (expired_batch_handler c)
                      (fun t id => In (height t, id) (expq t))).
    - intros t id ((Ht & Hbt) & Hh) Hpre. destruct (QInv_expired_handler c t id Ht Hpre) as (A & B & C).
      split; [split; [split; [exact A|apply BatchInv_expired_handler; exact Hbt]|congruence]|].
      intros id' Hne Hp. rewrite B. apply C; assumption.
    - apply due_NoDup. exact (q_exp_nodup _ Hq).
    - split; [split; assumption|reflexivity].
    - intros id Hin. apply due_in in Hin. exact Hin. }
  destruct H1 as ((Hq1 & Hb1) & Hh1).
  set (s2 := fold_left new_batch_handler _ s1).
  assert (H2 : (QInv s2 /\ BatchInv s2) /\ height s2 = height s1).
  { subst s2. apply (fold_handlers (fun t => (QInv t /\ BatchInv t) /\ height t = height s1) new_batch_handler
                      (fun t id => In (height t, id) (newq t))).
    - intros t id ((Ht & Hbt) & Hh) Hpre. destruct (QInv_new_handler t id Ht Hpre) as (A & B & C).
      split; [split; [split; [exact A|]|congruence]|].
      + apply BatchInv_new_handler; [exact Hbt|]. intros x Hx. eapply (q_new_closed _ Ht); eassumption.
      + intros id' Hne Hp. rewrite B. apply C; assumption.
    - apply due_NoDup. exact (q_new_nodup _ Hq1).
    - split; [split; assumption|reflexivity].
    - intros id Hin. apply due_in in Hin. exact Hin. }
  destruct H2 as ((_ & Hb2) & _).
  eapply (BatchInv_same s2); [repeat split|exact Hb2].
Qed.

Lemma SInv_apply c s st : c_msvc c < 0 -> fresh_ctx s st -> SInv s -> SInv (apply c s st).
Proof.
  intros Hm Hf (Hq & Hb). pose proof (QInv_apply c s st Hm Hf Hq) as Hq'. split; [exact Hq'|]. clear Hq'.
  unfold apply. destruct (exec_step c s st) as [s'| |] eqn:E; try exact Hb.
  destruct st; cbn [exec_step] in E.
  9: { change (exec_msg_plain c s 0 (MBind svc prov depd depa pr qos true owner) = Okk s') in E.
       eapply BatchInv_exec_msg; [exact E|exact I|exact Hb]. }
  all: simpl in E.
  - rewrite (exec_msg_plain_eq _ _ _ _ Hm) in E. eapply BatchInv_exec_msg; eassumption.
  - destruct (0 <=? dt); [|discriminate]. inversion E; subst. apply SInv_end_block. split; assumption.
  - inversion E; subst. eapply BatchInv_same; [|exact Hb]. repeat split.
  - eapply BatchInv_same; [|exact Hb]. b_frame E.
  - destruct (create_context _ _ _ _ _ _ _ _ _ _ _ _ _ _ _ _) as [[s1 id]|] eqn:E1; [|discriminate].
    inversion E; subst. eapply BatchInv_create; [exact E1|exact Hf|exact Hb].
  - eapply BatchInv_pause; eassumption.
  - eapply BatchInv_start; eassumption.
  - eapply BatchInv_kill; eassumption.
Qed.

Lemma SInv_init h0 t0 l0 : SInv (init h0 t0 l0).
Proof.
  split; [apply QInv_init|]. constructor; simpl; [constructor| |]; intros; discriminate.
Qed.

Theorem SInv_reachable c steps h0 t0 l0 :
  c_msvc c < 0 -> fresh_history c (init h0 t0 l0) steps -> SInv (run c (init h0 t0 l0) steps).
Proof. intros Hm Hf. apply (run_inv_fresh SInv c); [intros; apply SInv_apply; assumption|exact Hf|apply SInv_init]. Qed.

Definition exp_pr (c : config) (s : state) (id : ctxid) (x : context) : state * context :=
  if x_brun x then
    let act := filter (fun e => in_batch id (x_batch x) e && q_active (snd e)) (reqs s) in
    let s' := fold_left (expire_request c x) act s in
    (if x_mod x then callback s' id else s', cx_brun x false)
  else (s, x).

Lemma exp_pr_facts c s id x :
  BatchInv s -> get id (ctxs s) = Some x ->
  let pr := exp_pr c s id x in
  NoDup (keys (reqs (fst pr))) /\ ctxs (fst pr) = ctxs s
  /\ (forall rid q', get rid (reqs (fst pr)) = Some q' -> q_active q' = true ->
        get rid (reqs s) = Some q' /\ rid_ctx rid <> id)
  /\ (forall id0, nact id0 (reqs (fst pr)) <= nact id0 (reqs s))
  /\ x_brun (snd pr) = false.
Proof.
  intros Hinv Eg pr. unfold exp_pr in pr.
  subst pr. destruct (x_brun x) eqn:Eb.
    - simpl. set (act := filter _ (reqs s)).
      assert (Hnd : NoDup (map fst act)) by (subst act; apply (keys_filter_NoDup _ (reqs s)); exact (b_keys _ Hinv)).
      assert (Hall : forall e, In e act -> get (fst e) (reqs s) = Some (snd e)).
      { intros [r q] He. subst act. apply filter_In in He. simpl. apply In_get_NoDup; [exact (b_keys _ Hinv)|tauto]. }
      destruct (expire_fold_reqs c x act s (b_keys _ Hinv) Hnd Hall) as (A & B & D & F).
      assert (Main : forall t, reqs t = reqs (fold_left (expire_request c x) act s) -> ctxs t = ctxs (fold_left (expire_request c x) act s) ->
                NoDup (keys (reqs t)) /\ ctxs t = ctxs s
                /\ (forall rid q', get rid (reqs t) = Some q' -> q_active q' = true -> get rid (reqs s) = Some q' /\ rid_ctx rid <> id)
                /\ (forall id0, nact id0 (reqs t) <= nact id0 (reqs s))).
      { intros t Rt Ct. rewrite Rt, Ct. split; [exact A|]. split; [exact B|]. split; [|exact F].
        intros rid q' Hg Ha. destruct (D rid q' Hg Ha) as (D1 & D2). split; [exact D1|]. intros Hid. apply D2.
        destruct (b_act _ Hinv rid q' D1 Ha) as (x0 & Hx0 & _ & Hb0). rewrite Hid, Eg in Hx0. inversion Hx0; subst x0.
        subst act. apply in_map_iff. exists (rid, q'). split; [reflexivity|]. apply filter_In. split; [apply get_In; exact D1|].
        simpl. rewrite Ha, andb_true_r. unfold in_batch. simpl. destruct rid as [[[i b] hh] ii]. simpl in *. subst.
        rewrite eqb_refl, Z.eqb_refl. reflexivity. }
      destruct (x_mod x).
      + destruct (Main (callback (fold_left (expire_request c x) act s) id)) as (M1 & M2 & M3 & M4).
        * exact (proj1 (callback_same _ id)).
        * exact (proj1 (callback_qsame _ id)).
        * split; [exact M1|split; [exact M2|split; [exact M3|split; [exact M4|reflexivity]]]].
      + destruct (Main _ eq_refl eq_refl) as (M1 & M2 & M3 & M4). split; [exact M1|split; [exact M2|split; [exact M3|split; [exact M4|reflexivity]]]].
    - simpl. split; [exact (b_keys _ Hinv)|]. split; [reflexivity|]. split; [|split; [intros; lia|exact Eb]].
      intros rid q' Hg Ha. split; [exact Hg|]. intros Hid.
      destruct (b_act _ Hinv rid q' Hg Ha) as (x0 & Hx0 & Hr0 & _). rewrite Hid, Eg in Hx0. inversion Hx0; subst. congruence.
Qed.
