(** * Service: request escrow = fees of active requests + earned fees — what is proved. *)
From Irismod Require Import Service.Model Service.Proofs Service.ProofsHist.

(** ** sums over association lists *)
Definition msum {K V} (f : K * V -> Z) (m : list (K * V)) : Z := zsum (map f m).

Lemma msum_set {K V} `{EqDec K} (f : K * V -> Z) (k : K) (v : V) (m : amap K V) :
  msum f (set k v m) = msum f m - (match get k m with Some v0 => f (k, v0) | None => 0 end) + f (k, v).
Proof.
  unfold msum. induction m as [|[k0 v0] m IH]; simpl; [lia|].
  destruct (eq_dec k k0) as [->|Hne]; simpl; [lia|]. rewrite IH. lia.
Qed.

Lemma msum_filter_split {A} (f : A -> Z) (p : A -> bool) (m : list A) :
  zsum (map f m) = zsum (map f (filter p m)) + zsum (map f (filter (fun e => negb (p e)) m)).
Proof. induction m as [|e m IH]; simpl; [lia|]. destruct (p e); simpl; lia. Qed.

(** liabilities of the request escrow in denom [d] *)
Definition act_fee (d : Z) (e : reqid * request) : Z :=
  if q_active (snd e) && (q_fd (snd e) =? d) then q_fee (snd e) else 0.
Definition earn_in (d : Z) (e : (Z * Z) * Z) : Z := if snd (fst e) =? d then snd e else 0.
Definition liab (d : Z) (s : state) : Z := msum (act_fee d) (reqs s) + msum (earn_in d) (earned s).
Definition EscEq (s : state) : Prop := forall d, bal (led s) REQ d = liab d s.

(** steps that touch neither the request escrow, nor the requests, nor the earned fees *)
Definition esc_same (s s' : state) : Prop :=
  (forall d, bal (led s') REQ d = bal (led s) REQ d) /\ reqs s' = reqs s /\ earned s' = earned s.

Lemma EscEq_same s s' : esc_same s s' -> EscEq s -> EscEq s'.
Proof. intros (A & B & C) H d. unfold liab. rewrite A, B, C. apply H. Qed.

Lemma send_keeps_req l f t d x l' : send l f t d x = Some l' -> f <> REQ -> t <> REQ -> forall d', bal l' REQ d' = bal l REQ d'.
Proof. intros H Hf Ht d'. destruct (send_Some _ _ _ _ _ _ H) as (_ & _ & _ & Ho). apply Ho; congruence. Qed.

Lemma msum_addz d k x (m : amap (Z * Z) Z) :
  msum (earn_in d) (addz k x m) = msum (earn_in d) m + (if snd k =? d then x else 0).
Proof.
  unfold addz. destruct (Z.eqb_spec x 0) as [->|Hne]; [destruct (snd k =? d); lia|].
  rewrite msum_set. unfold getz, earn_in. simpl. destruct (get k m); destruct (snd k =? d); lia.
Qed.

Lemma amt_coins_of d a (m : amap (Z * Z) Z) :
  amt d (coins_of a m) = msum (earn_in d) (filter (fun e => fst (fst e) =? a) m).
Proof.
  unfold coins_of, amt, msum. induction m as [|[[a0 d0] v] m IH]; simpl; [reflexivity|].
  destruct (a0 =? a); simpl; [|exact IH]. unfold earn_in at 1. simpl. rewrite IH. reflexivity.
Qed.

(** *** a response preserves the equation *)
Lemma EscEq_respond c s rid prov kind s' : respond c s rid prov kind = Okk s' -> EscEq s -> EscEq s'.
Proof.
  intros H He d.
  destruct (respond_ok_lemma _ _ _ _ _ _ H) as (q & Hq & Hp & Ha & _ & _ & T1 & T2 & _).
  destruct (respond_struct _ _ _ _ _ _ H) as (q0 & q' & Hq0 & _ & Ha' & R & _).
  rewrite Hq in Hq0. inversion Hq0; subst q0. clear Hq0.
  (* earned fees of s' *)
  assert (E : msum (earn_in d) (earned s') = msum (earn_in d) (earned s) + (if q_fd q =? d then q_fee q - tax_of c (q_fee q) else 0)).
  { clear -H Hq Hp Ha. unfold respond in H. destruct rid as [[[id batch] hh] ii].
    destruct ((0 <=? prov) && negb (kind =? 2)); cbv beta iota zeta delta [negb] in H; [|discriminate].
    match type of H with context [@get reqid request ?i ?k (reqs s)] =>
      change (@get reqid request i k (reqs s)) with (@get reqid request i (id, batch, hh, ii) (reqs s)) in H end.
    rewrite Hq in H. destruct (get id (ctxs s)) as [x|]; [|discriminate].
    rewrite Hp, Ha, Z.eqb_refl in H. cbv beta iota zeta delta [negb] in H.
    destruct (add_earned_fee c s prov (q_fd q) (q_fee q)) as [s1|] eqn:Ef; [|discriminate].
    assert (E1 : earned s1 = addz (prov, q_fd q) (q_fee q - tax_of c (q_fee q)) (earned s)).
    { unfold add_earned_fee in Ef. fold (tax_of c (q_fee q)) in Ef. destruct (send _ _ _ _ _); [|discriminate].
      destruct (q_fee q <? _); [discriminate|]. inversion Ef; subst. reflexivity. }
    assert (E2 : earned s' = earned s1).
    { destruct (x_bresp (cx_bresp x (x_bresp x + 1)) =? x_breq (cx_bresp x (x_bresp x + 1)));
        [destruct (x_mod (cx_bresp x (x_bresp x + 1)))|]; inversion H; subst s'; clear H; simpl; try reflexivity.
      unfold callback. simpl. destruct (get id (ctxs s1)); reflexivity. }
    rewrite E2, E1, msum_addz. reflexivity. }
  unfold liab. rewrite E, R, msum_set, Hq. unfold act_fee at 2 3. simpl. rewrite Ha, Ha'. simpl.
  destruct (send_Some _ _ _ _ _ _ T2) as (_ & S1 & _ & S3).
  specialize (He d). unfold liab in He.
  destruct (Z.eqb_spec (q_fd q) d) as [Heq|Hne].
  - subst d. destruct (S1 ltac:(discriminate)) as (S1a & _). rewrite S1a, He. lia.
  - rewrite S3 by congruence. rewrite He. lia.
Qed.

(** *** a withdrawal preserves the equation *)
Lemma EscEq_withdraw s owner prov s' : withdraw s owner prov = Okk s' -> DepInv s -> EscEq s -> EscEq s'.
Proof.
  unfold withdraw. intros H Hinv He.
  match type of H with (if negb ?g then _ else _) = _ => destruct g eqn:E0; [|discriminate] end.
  cbv beta iota zeta delta [negb] in H. zb.
  destruct (get prov (owners s)) as [o|]; [|discriminate].
  destruct (o =? owner); [|discriminate]. cbv beta iota zeta in H.
  match type of H with match ?g with _ => _ end = _ => destruct g; [|discriminate] end.
  set (w := match get owner (waddr s) with Some a => a | None => owner end) in *.
  assert (Hw : 0 <= w).
  { subst w. destruct (get owner (waddr s)) as [a0|] eqn:Ew; [eapply (di_waddr _ Hinv); exact Ew|assumption]. }
  destruct (send_all (led s) REQ w (coins_of prov (earned s))) as [l|] eqn:Es; [|discriminate].
  inversion H; subst s'; clear H. intros d. unfold liab. simpl.
  unfold send_all in Es. destruct (debit_all (led s) REQ (coins_of prov (earned s))) as [l1|] eqn:Ed; [|discriminate].
  inversion Es; subst l; clear Es.
  destruct (debit_all_bal _ _ _ _ Ed) as (D1 & _). destruct (credit_all_bal (coins_of prov (earned s)) l1 w) as (_ & C2).
  rewrite C2 by (unfold REQ; lia). rewrite D1, amt_coins_of. specialize (He d). unfold liab in He. rewrite He.
  unfold del_acct, msum. rewrite (msum_filter_split (earn_in d) (fun e => fst (fst e) =? prov) (earned s)). unfold msum. lia.
Qed.

(** *** every other message, and every non-block step, leaves escrow, requests, earned fees alone *)
Ltac esc_frame H :=
  repeat dme H; inversion H; subst; clear H; zb;
  repeat match goal with E : (if ?g then _ else _) = Some _ |- _ => destruct g eqn:?; [inversion E; subst; clear E|] end;
  (split; [intros d0; simpl; try reflexivity; try (eapply send_keeps_req; [eassumption| |]; unfold REQ, DEP; lia)|split; reflexivity]).

Lemma create_context_esc c s txh svc provs cons inok capd capa timeout rep freq total st thr md s' id :
  create_context c s txh svc provs cons inok capd capa timeout rep freq total st thr md = Some (s', id) -> esc_same s s'.
Proof. unfold create_context. intros H. esc_frame H. Qed.

Lemma exec_msg_esc c s txh m s' :
  exec_msg_plain c s txh m = Okk s' -> DepInv s ->
  match m with MRespond _ _ _ | MWithdraw _ _ => True | _ => esc_same s s' end.
Proof.
  intros H Hinv. destruct m; simpl in H; try exact I.
  - unfold define in H. esc_frame H.
  - unfold bind in H. esc_frame H.
  - unfold update_binding in H. esc_frame H.
  - unfold set_withdraw in H. esc_frame H.
  - unfold enable in H. esc_frame H.
  - unfold disable in H. esc_frame H.
  - unfold refund_deposit in H. destruct (get (svc, prov) (binds s)) as [b|] eqn:Eg.
    + pose proof (di_owner _ Hinv _ _ Eg) as Hown. esc_frame H.
    + destruct (negb _); discriminate.
  - unfold call in H. destruct (negb _); [discriminate|].
    destruct (create_context _ _ _ _ _ _ _ _ _ _ _ _ _ _ _ _) as [[s1 id]|] eqn:E; [|discriminate].
    inversion H; subst. eapply create_context_esc. exact E.
  - unfold msg_ctl, k_pause in H. esc_frame H.
  - unfold msg_ctl, k_start in H. esc_frame H.
  - unfold msg_ctl, k_kill in H. esc_frame H.
  - unfold update_context in H. esc_frame H.
Qed.

Theorem escrow_preserved_by_messages_lemma :
  forall c s st,
    c_msvc c < 0 ->
    (match st with EndBlock _ => False | _ => True end) ->
    DepInv s -> EscEq s -> EscEq (apply c s st).
Proof.
  intros c s st Hm Hst Hinv He. unfold apply. destruct (exec_step c s st) as [s'| |] eqn:E; try exact He.
  destruct st; cbn [exec_step] in E; try contradiction.
  8: { change (exec_msg_plain c s 0 (MBind svc prov depd depa pr qos true owner) = Okk s') in E.
       pose proof (exec_msg_esc _ _ _ _ _ E Hinv) as Hs. simpl in Hs. eapply EscEq_same; [exact Hs|exact He]. }
  all: simpl in E.
  - rewrite (exec_msg_plain_eq _ _ _ _ Hm) in E. destruct m; try (pose proof (exec_msg_esc _ _ _ _ _ E Hinv) as Hs; simpl in Hs; eapply EscEq_same; [exact Hs|exact He]).
    + simpl in E. eapply EscEq_respond; eassumption.
    + simpl in E. eapply EscEq_withdraw; eassumption.
  - inversion E; subst. eapply EscEq_same; [|exact He]. repeat split.
  - eapply EscEq_same; [|exact He]. esc_frame E.
  - destruct (create_context _ _ _ _ _ _ _ _ _ _ _ _ _ _ _ _) as [[s1 id]|] eqn:E1; [|discriminate].
    inversion E; subst. eapply EscEq_same; [eapply create_context_esc; exact E1|exact He].
  - unfold k_pause in E. eapply EscEq_same; [|exact He]. esc_frame E.
  - unfold k_start in E. eapply EscEq_same; [|exact He]. esc_frame E.
  - unfold k_kill in E. eapply EscEq_same; [|exact He]. esc_frame E.
Qed.

Lemma DepInv_reachable :
  forall c steps h0 t0 l0, bal l0 DEP BASE = 0 -> DepInv (run c (init h0 t0 l0) steps).
Proof.
  intros c steps h0 t0 l0 H0. apply run_inv; [intros; apply DepInv_apply; assumption|apply DepInv_init; exact H0].
Qed.
