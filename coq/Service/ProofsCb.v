(** * Service: the model passes its own check — C08 clause 7, the step-wise list: the callbacks a step
    logs are exactly the ones the checker expects from the observations before / after it. *)
From Irismod Require Import Service.Model Service.Check Service.Proofs Service.ProofsHist Service.ProofsEscrow Service.ProofsSched
  Service.ProofsBatch Service.ProofsLiab Service.ProofsTally Service.ProofsLive Service.ProofsModule Service.ProofsFresh
  Service.ProofsCallback Service.ProofsSchedule Service.ProofsModuleHist Service.ProofsOutcome Service.ProofsCheck Service.ProofsTrack Service.ProofsBal Service.ProofsSlash.

(** a fold of handlers over distinct ids, seen through any projection of the state *)
Lemma fold_proj {X} (pi : state -> X) (I : state -> Prop) (f : state -> ctxid -> state) (id : ctxid) (Q : X -> X -> Prop) :
  (forall t id', I t -> I (f t id')) ->
  (forall t id', I t -> id' <> id -> pi (f t id') = pi t) ->
  (forall t, I t -> Q (pi t) (pi (f t id))) ->
  forall ids t, NoDup ids -> I t ->
    (In id ids -> Q (pi t) (pi (fold_left f ids t)))
    /\ (~ In id ids -> pi (fold_left f ids t) = pi t).
Proof.
  intros HI Hoth Hown. induction ids as [|a ids IH]; cbn [fold_left]; intros t Hnd Ht; [split; [intros []|reflexivity]|].
  inversion Hnd as [|? ? Hn Hnd']; subst. destruct (IH (f t a) Hnd' (HI t a Ht)) as (I1 & I2). split.
  - intros [->|Hin].
    + rewrite (I2 Hn). apply Hown. exact Ht.
    + assert (Hne : a <> id) by (intros ->; exact (Hn Hin)). rewrite <- (Hoth t a Ht Hne). exact (I1 Hin).
  - intros Hnot. simpl in Hnot. rewrite I2 by tauto. apply Hoth; [exact Ht|]. intros ->. tauto.
Qed.

(** the log entries of one context, the requests of one context *)
Definition Lg (id : ctxid) (t : state) : list cbev := filter (fun e => eqb (cb_id e) id) (cblog t).
Definition Rq (id : ctxid) (t : state) : list (reqid * request) := filter (fun e => eqb (rid_ctx (fst e)) id) (reqs t).

Lemma filter_set_other {V} (p : reqid * V -> bool) (k : reqid) (v : V) (m : amap reqid V) :
  (forall v0, p (k, v0) = false) -> filter p (set k v m) = filter p m.
Proof.
  intros Hp. induction m as [|[k0 v0] m IH]; simpl; [rewrite Hp; reflexivity|].
  destruct (eq_dec k k0) as [->|Hne]; simpl; [rewrite !Hp; reflexivity|]. rewrite IH. reflexivity.
Qed.

Definition outp (id : ctxid) (b : Z) (e : reqid * request) : bool :=
  let '(i, b0, _, _) := fst e in eqb i id && (b0 =? b) && (q_resp (snd e) =? 2).
Definition Ind (id : ctxid) (b : Z) (e : reqid * request) : Z := if outp id b e then 1 else 0.

Lemma n_outputs_msum t id b : n_outputs t id b = msum (Ind id b) (reqs t).
Proof. unfold n_outputs. rewrite (len_filter_sumz (outp id b)). reflexivity. Qed.

Lemma outp_ctx id b e : outp id b e = true -> rid_ctx (fst e) = id.
Proof. destruct e as [[[[i b0] hh] ii] q]. unfold outp. cbn [fst snd rid_ctx]. intros H. rewrite !andb_true_iff in H. apply (proj1 (eqb_true_iff i id)). tauto. Qed.

Lemma n_outputs_Rq t id b : n_outputs t id b = Z.of_nat (length (filter (outp id b) (Rq id t))).
Proof.
  unfold n_outputs, Rq. f_equal. f_equal. induction (reqs t) as [|e l IH]; simpl; [reflexivity|].
  fold (outp id b e). destruct (outp id b e) eqn:Eo.
  - rewrite (outp_ctx id b e Eo), eqb_refl. simpl. fold (outp id b e). rewrite Eo. simpl. f_equal. exact IH.
  - destruct (eqb (rid_ctx (fst e)) id); simpl; [fold (outp id b e); rewrite Eo|]; exact IH.
Qed.

Lemma expire_fold_log c x : forall act t, cblog (fold_left (expire_request c x) act t) = cblog t /\ ctxs (fold_left (expire_request c x) act t) = ctxs t.
Proof.
  induction act as [|[r q] act IH]; intros t; cbn [fold_left]; [split; reflexivity|].
  destruct (IH (expire_request c x t (r, q))) as (A & B). rewrite A, B. unfold expire_request.
  assert (S : ctxs (slash c t (x_svc x) (q_prov q)) = ctxs t /\ cblog (slash c t (x_svc x) (q_prov q)) = cblog t).
  { unfold slash. destruct (get _ (binds t)) as [b|]; [|split; reflexivity]. destruct (b_dep b <? _); [split; reflexivity|].
    destruct (send _ _ _ _ _); split; reflexivity. }
  destruct (send _ _ _ _ _); simpl; split; tauto.
Qed.

Lemma expire_fold_nout c x id b : forall act t,
  NoDup (map fst act) -> (forall e, In e act -> get (fst e) (reqs t) = Some (snd e)) ->
  n_outputs (fold_left (expire_request c x) act t) id b = n_outputs t id b.
Proof.
  induction act as [|[rid q] act IH]; cbn [fold_left]; intros t Hnd Hall; [reflexivity|].
  cbn [map fst] in Hnd. inversion Hnd as [|? ? Hn Hnd']; subst.
  pose proof (Hall (rid, q) (or_introl eq_refl)) as Hq. cbn [fst snd] in Hq.
  destruct (expire_struct c x t rid q) as (R & _ & _).
  rewrite IH; [|exact Hnd'|].
  - rewrite !n_outputs_msum, R, msum_set, Hq. unfold Ind, outp. cbn [fst snd rq_active q_resp]. lia.
  - intros e Hin. rewrite R, get_set_other; [apply Hall; right; exact Hin|]. intros E. apply Hn. rewrite <- E. apply in_map. exact Hin.
Qed.

(** the response callback of the expiry handler, if any *)
Definition E1 (t : state) (id : ctxid) : list cbev :=
  match get id (ctxs t) with
  | Some x => if x_brun x && x_mod x
              then [(0, id, x_batch x, n_outputs t id (x_batch x), if x_bthr x <=? n_outputs t id (x_batch x) then 1 else 0)]
              else []
  | None => []
  end.

Lemma expired_handler_log c t id : BatchInv t -> cblog (expired_batch_handler c t id) = cblog t ++ E1 t id.
Proof.
  intros Hb. unfold expired_batch_handler, E1. destruct (get id (ctxs t)) as [x|] eqn:Eg; [|rewrite app_nil_r; reflexivity].
  set (pr := if x_brun x then _ else (t, x)).
  assert (H1 : cblog (fst pr) = cblog t ++ (if x_brun x && x_mod x
              then [(0, id, x_batch x, n_outputs t id (x_batch x), if x_bthr x <=? n_outputs t id (x_batch x) then 1 else 0)] else [])).
  { subst pr. destruct (x_brun x); [|rewrite app_nil_r; reflexivity]. cbn [fst andb]. set (act := filter _ (reqs t)).
    destruct (expire_fold_log c x act t) as (A & B).
    assert (N : n_outputs (fold_left (expire_request c x) act t) id (x_batch x) = n_outputs t id (x_batch x)).
    { apply expire_fold_nout.
      - subst act. apply (keys_filter_NoDup _ (reqs t)). exact (b_keys _ Hb).
      - intros [r q] He. subst act. apply filter_In in He. simpl. apply In_get_NoDup; [exact (b_keys _ Hb)|tauto]. }
    destruct (x_mod x); [|rewrite A, app_nil_r; reflexivity].
    assert (Hg : get id (ctxs (fold_left (expire_request c x) act t)) = Some x) by (rewrite B; exact Eg).
    destruct (callback_spec _ id x Hg) as (L & _). rewrite L, A, N. reflexivity. }
  destruct pr as [s1 x1]. cbn [fst] in H1. cbv zeta. rewrite <- H1.
  destruct (x_state x1 =? 2); destruct (x_state x1 =? 0); try destruct (x_rep x1 && _); reflexivity.
Qed.

Lemma filter_filter_true {A} (q f : A -> bool) (l : list A) : (forall e, q e = true -> f e = true) -> filter q (filter f l) = filter q l.
Proof.
  intros H. induction l as [|e l IH]; simpl; [reflexivity|]. destruct (f e) eqn:Ef; simpl.
  - rewrite IH. reflexivity.
  - destruct (q e) eqn:Eq; [rewrite (H e Eq) in Ef; discriminate|exact IH].
Qed.

Lemma inb_false_other id id' b rid : rid_ctx rid = id -> id <> id' -> inb id' b rid = false.
Proof.
  destruct rid as [[[i b0] hh] ii]. cbn [rid_ctx]. intros -> Hne. unfold inb. rewrite (proj2 (eqb_false_iff id id') Hne). reflexivity.
Qed.

Lemma expired_handler_Rq_other c t id id' : id <> id' -> Rq id (expired_batch_handler c t id') = Rq id t.
Proof.
  intros Hne. unfold expired_batch_handler. destruct (get id' (ctxs t)) as [x|]; [|reflexivity].
  set (pr := if x_brun x then _ else (t, x)).
  assert (H1 : Rq id (fst pr) = Rq id t).
  { subst pr. destruct (x_brun x); [|reflexivity]. cbn [fst].
    assert (F : forall act t0, (forall e, In e act -> rid_ctx (fst e) = id') -> Rq id (fold_left (expire_request c x) act t0) = Rq id t0).
    { induction act as [|[r q] act IH]; intros t0 Hall; cbn [fold_left]; [reflexivity|].
      rewrite IH by (intros e He; apply Hall; right; exact He). unfold Rq. destruct (expire_struct c x t0 r q) as (R & _ & _). rewrite R.
      apply filter_set_other. intros v0. cbn [fst]. pose proof (Hall (r, q) (or_introl eq_refl)) as Hr. cbn [fst] in Hr. rewrite Hr. apply (proj2 (eqb_false_iff _ _)). congruence. }
    assert (G : Rq id (fold_left (expire_request c x) (filter (fun e => in_batch id' (x_batch x) e && q_active (snd e)) (reqs t)) t) = Rq id t).
    { apply F. intros e He. apply filter_In in He. destruct He as (_ & He). apply andb_true_iff in He. rewrite in_batch_inb in He. exact (inb_ctx _ _ _ (proj1 He)). }
    destruct (x_mod x); [|exact G]. unfold Rq in *. rewrite (proj1 (callback_same _ id')). exact G. }
  destruct pr as [s1 x1]. cbn [fst] in H1. cbv zeta. rewrite <- H1.
  match goal with |- Rq id (with_reqs ?t0 (filter ?f (reqs ?t0))) = _ =>
    assert (Rt : reqs t0 = reqs s1) by (destruct (x_state x1 =? 2); destruct (x_state x1 =? 0); try destruct (x_rep x1 && _); reflexivity);
    set (tt := t0) in *; clearbody tt end.
  unfold Rq. cbn [reqs with_reqs]. rewrite Rt. apply filter_filter_true.
  intros e He. apply (proj1 (eqb_true_iff _ _)) in He. rewrite in_batch_inb. rewrite (inb_false_other id id' _ (fst e) He Hne). reflexivity.
Qed.

Lemma E1_ids t id e : In e (E1 t id) -> cb_id e = id.
Proof.
  unfold E1. destruct (get id (ctxs t)) as [x|]; [|intros []]. destruct (x_brun x && x_mod x); [|intros []].
  intros [<-|[]]. reflexivity.
Qed.

Lemma filter_none_key (id : ctxid) (l : list cbev) : (forall e, In e l -> cb_id e <> id) -> filter (fun e => eqb (cb_id e) id) l = [].
Proof.
  intros H. apply filter_none. intros e He. apply (proj2 (eqb_false_iff _ _)). exact (H e He).
Qed.

Lemma expired_handler_Lg_other c t id id' : BatchInv t -> id <> id' -> Lg id (expired_batch_handler c t id') = Lg id t.
Proof.
  intros Hb Hne. unfold Lg. rewrite (expired_handler_log c t id' Hb), filter_app, (filter_none_key id (E1 t id')), app_nil_r; [reflexivity|].
  intros e He. rewrite (E1_ids t id' e He). congruence.
Qed.

(** the state callback of the new-batch handler (automatic pause of a module-owned context), if any *)
Definition E2 (t : state) (id : ctxid) : list cbev :=
  match get id (ctxs t), get id (ctxs (new_batch_handler t id)) with
  | Some x, Some x' => if x_mod x && (x_state x =? 0) && (x_state x' =? 1) then [(1, id, x_batch x, 0, 0)] else []
  | _, _ => []
  end.

Lemma new_handler_log t id : cblog (new_batch_handler t id) = cblog t ++ E2 t id.
Proof.
  unfold E2. unfold new_batch_handler at 1 2. destruct (get id (ctxs t)) as [x|] eqn:Eg; [|rewrite app_nil_r; reflexivity].
  destruct (x_state x =? 0) eqn:Es.
  2: { simpl. rewrite ?Eg, andb_false_r. cbn [andb]. rewrite app_nil_r. reflexivity. }
  assert (Skip : cblog (dequeue_new (skip_batch t id x) id) = cblog t ++
            match get id (ctxs (dequeue_new (skip_batch t id x) id)) with
            | Some x' => if x_mod x && true && (x_state x' =? 1) then [(1, id, x_batch x, 0, 0)] else [] | None => [] end).
  { simpl. rewrite get_set_same. simpl. apply Z.eqb_eq in Es. rewrite Es. cbn [Z.eqb]. rewrite andb_false_r, app_nil_r. reflexivity. }
  destruct (filter_provs t x (x_provs x)) as [ps|]; [|exact Skip].
  cbv zeta. destruct ((0 <? Z.of_nat (length ps)) && (x_thr x <=? Z.of_nat (length ps))); [|exact Skip].
  destruct (debit_all _ _ _) as [l|].
  - simpl. rewrite get_set_same. simpl. apply Z.eqb_eq in Es. rewrite Es. cbn [Z.eqb]. rewrite andb_false_r, app_nil_r. reflexivity.
  - unfold on_paused. destruct (x_mod x); simpl; rewrite get_set_same; simpl; [reflexivity|rewrite app_nil_r; reflexivity].
Qed.

Lemma E2_ids t id e : In e (E2 t id) -> cb_id e = id.
Proof.
  unfold E2. destruct (get id (ctxs t)) as [x|]; [|intros []]. destruct (get id (ctxs (new_batch_handler t id))) as [x'|]; [|intros []].
  destruct (_ && _ && _); [|intros []]. intros [<-|[]]. reflexivity.
Qed.

Lemma new_handler_Lg_other t id id' : id <> id' -> Lg id (new_batch_handler t id') = Lg id t.
Proof.
  intros Hne. unfold Lg. rewrite (new_handler_log t id'), filter_app, (filter_none_key id (E2 t id')), app_nil_r; [reflexivity|].
  intros e He. rewrite (E2_ids t id' e He). congruence.
Qed.

Definition E1v (id : ctxid) (cx : option context) (rq : list (reqid * request)) : list cbev :=
  match cx with
  | Some x => let nv := Z.of_nat (length (filter (outp id (x_batch x)) rq)) in
              if x_brun x && x_mod x then [(0, id, x_batch x, nv, if x_bthr x <=? nv then 1 else 0)] else []
  | None => []
  end.
Lemma E1_E1v t id : E1 t id = E1v id (get id (ctxs t)) (Rq id t).
Proof. unfold E1, E1v. destruct (get id (ctxs t)) as [x|]; [|reflexivity]. cbv zeta. rewrite <- n_outputs_Rq. reflexivity. Qed.

Definition E2v (id : ctxid) (cx cx' : option context) : list cbev :=
  match cx, cx' with
  | Some x, Some x' => if x_mod x && (x_state x =? 0) && (x_state x' =? 1) then [(1, id, x_batch x, 0, 0)] else []
  | _, _ => []
  end.

Lemma filter_all_key (id : ctxid) (l : list cbev) : (forall e, In e l -> cb_id e = id) -> filter (fun e => eqb (cb_id e) id) l = l.
Proof.
  induction l as [|e l IH]; simpl; intros H; [reflexivity|]. rewrite (H e (or_introl eq_refl)), eqb_refl. f_equal. apply IH. intros; apply H; right; assumption.
Qed.

Definition pi1 (id : ctxid) (t : state) := (loc id t, Lg id t, Rq id t).
Definition pi2 (id : ctxid) (t : state) := (loc id t, Lg id t).
Definition Q1 (id : ctxid) (h : Z) (pre post : (option context * option Z * option Z) * list cbev * list (reqid * request)) : Prop :=
  QE h (fst (fst pre)) (fst (fst post)) /\ snd (fst post) = snd (fst pre) ++ E1v id (fst (fst (fst (fst pre)))) (snd pre).
Definition Q2 (id : ctxid) (h : Z) (pre post : (option context * option Z * option Z) * list cbev) : Prop :=
  QN h (fst pre) (fst post) /\ snd post = snd pre ++ E2v id (fst (fst (fst pre))) (fst (fst (fst post))).

Lemma ph1_other c id t id' : BatchInv t -> id' <> id -> pi1 id (expired_batch_handler c t id') = pi1 id t.
Proof.
  intros Hb Hne. assert (Hne' : id <> id') by congruence. unfold pi1.
  rewrite (expired_handler_loc_other c t id id' Hne), (expired_handler_Lg_other c t id id' Hb Hne'), (expired_handler_Rq_other c t id id' Hne'). reflexivity.
Qed.
Lemma ph1_own c id t : BatchInv t -> Q1 id (height t) (pi1 id t) (pi1 id (expired_batch_handler c t id)).
Proof.
  intros Hb. unfold Q1, pi1. cbn [fst snd]. split; [apply expired_handler_loc_own|].
  unfold Lg. rewrite (expired_handler_log c t id Hb), filter_app. f_equal. unfold loc. cbn [fst]. rewrite <- E1_E1v.
  apply filter_all_key. intros e He. exact (E1_ids t id e He).
Qed.
Lemma ph2_other id t id' : id' <> id -> pi2 id (new_batch_handler t id') = pi2 id t.
Proof.
  intros Hne. assert (Hne' : id <> id') by congruence. unfold pi2.
  rewrite (new_handler_loc_other t id id' Hne), (new_handler_Lg_other t id id' Hne'). reflexivity.
Qed.
Lemma ph2_own id t : Q2 id (height t) (pi2 id t) (pi2 id (new_batch_handler t id)).
Proof.
  unfold Q2, pi2. cbn [fst snd]. split; [apply new_handler_loc_own|].
  unfold Lg. rewrite new_handler_log, filter_app. f_equal. unfold loc. cbn [fst].
  change (E2v id (get id (ctxs t)) (get id (ctxs (new_batch_handler t id)))) with (E2 t id).
  apply filter_all_key. intros e He. exact (E2_ids t id e He).
Qed.

(** one end-block on the log entries of one context *)
Lemma eb_log c s dt id :
  QInv s -> LInv false s -> BatchInv s ->
  exists mid lgm,
    ((get id (expmark s) = Some (height s) /\ QE (height s) (loc id s) mid /\ lgm = Lg id s ++ E1 s id)
     \/ (get id (expmark s) <> Some (height s) /\ mid = loc id s /\ lgm = Lg id s))
    /\ ((snd mid = Some (height s) /\ QN (height s) mid (loc id (end_block c s dt))
         /\ Lg id (end_block c s dt) = lgm ++ E2v id (fst (fst mid)) (get id (ctxs (end_block c s dt))))
        \/ (snd mid <> Some (height s) /\ loc id (end_block c s dt) = mid /\ Lg id (end_block c s dt) = lgm)).
Proof.
  intros Hq Hl Hb. unfold end_block. cbv zeta.
  set (s1 := fold_left (expired_batch_handler c) _ s).
  assert (H1 : QInv s1 /\ height s1 = height s).
  { subst s1. apply (fold_handlers (fun t => QInv t /\ height t = height s) (expired_batch_handler c)
                      (fun t id => In (height t, id) (expq t))).
    - intros t id0 (Ht & Hh) Hpre. destruct (QInv_expired_handler c t id0 Ht Hpre) as (A & B & C).
      split; [split; [exact A|congruence]|]. intros id' Hne Hp. rewrite B. apply C; assumption.
    - apply due_NoDup. exact (q_exp_nodup _ Hq).
    - split; [exact Hq|reflexivity].
    - intros id0 Hin. apply due_in in Hin. exact Hin. }
  destruct H1 as (Q1' & Hh1).
  exists (loc id s1), (Lg id s1). split.
  - destruct (fold_proj (pi1 id) (fun t => BatchInv t /\ height t = height s) (expired_batch_handler c) id (Q1 id (height s))
               (fun t id' Ht => conj (BatchInv_expired_handler c t id' (proj1 Ht)) (eq_trans (expired_handler_height c t id') (proj2 Ht)))
               (fun t id' Ht Hne => ph1_other c id t id' (proj1 Ht) Hne)
               (fun t Ht => eq_ind _ (fun h => Q1 id h (pi1 id t) (pi1 id (expired_batch_handler c t id))) (ph1_own c id t (proj1 Ht)) _ (proj2 Ht))
               (due (height s) (expq s)) s (due_NoDup _ _ (q_exp_nodup _ Hq)) (conj Hb eq_refl)) as (F1 & F2).
    fold s1 in F1, F2. destruct (eqb (get id (expmark s)) (Some (height s))) eqn:Ee.
    + apply (proj1 (eqb_true_iff _ _)) in Ee. left. split; [exact Ee|].
      assert (Hin : In id (due (height s) (expq s))) by (apply due_in; exact (proj1 (l_mark _ _ Hl id _ Ee))).
      destruct (F1 Hin) as (A & B). unfold pi1 in A, B. cbn [fst snd] in A, B. split; [exact A|]. rewrite B, E1_E1v. reflexivity.
    + right. split; [apply (proj1 (eqb_false_iff _ _)); exact Ee|].
      assert (Hn : ~ In id (due (height s) (expq s))).
      { intros Hin. apply due_in in Hin. rewrite (q_exp_mark _ Hq _ _ Hin), eqb_refl in Ee. discriminate. }
      pose proof (F2 Hn) as F. unfold pi1 in F. pose proof (f_equal (fun p => fst (fst p)) F) as Fa. pose proof (f_equal (fun p => snd (fst p)) F) as Fb.
      cbn [fst snd] in Fa, Fb. split; assumption.
  - set (s2 := fold_left new_batch_handler _ s1).
    assert (El : loc id (with_iidx (with_time (with_height s2 (height s2 + 1)) (time s2 + dt)) 0) = loc id s2) by reflexivity.
    assert (Eg : Lg id (with_iidx (with_time (with_height s2 (height s2 + 1)) (time s2 + dt)) 0) = Lg id s2) by reflexivity.
    assert (Ec : ctxs (with_iidx (with_time (with_height s2 (height s2 + 1)) (time s2 + dt)) 0) = ctxs s2) by reflexivity.
    rewrite El, Eg, Ec. clear El Eg Ec.
    destruct (fold_proj (pi2 id) (fun t => height t = height s) new_batch_handler id (Q2 id (height s))
               (fun t id' Ht => eq_trans (new_handler_height t id') Ht)
               (fun t id' _ Hne => ph2_other id t id' Hne)
               (fun t Ht => eq_ind _ (fun h => Q2 id h (pi2 id t) (pi2 id (new_batch_handler t id))) (ph2_own id t) _ Ht)
               (due (height s1) (newq s1)) s1 (due_NoDup _ _ (q_new_nodup _ Q1')) Hh1) as (F1 & F2).
    fold s2 in F1, F2. destruct (eqb (get id (newmark s1)) (Some (height s))) eqn:Ee.
    + apply (proj1 (eqb_true_iff _ _)) in Ee. left. unfold loc at 1. cbn [snd]. split; [exact Ee|].
      assert (Hin : In id (due (height s1) (newq s1))) by (apply due_in; rewrite Hh1; exact (q_mark_new _ Q1' _ _ Ee)).
      destruct (F1 Hin) as (A & B). unfold pi2 in A, B. cbn [fst snd] in A, B. split; [exact A|]. rewrite B. unfold loc. cbn [fst]. reflexivity.
    + right. unfold loc at 1. cbn [snd]. split; [apply (proj1 (eqb_false_iff _ _)); exact Ee|].
      assert (Hn : ~ In id (due (height s1) (newq s1))).
      { intros Hin. apply due_in in Hin. rewrite Hh1 in Hin. rewrite (q_new_mark _ Q1' _ _ Hin), eqb_refl in Ee. discriminate. }
      pose proof (F2 Hn) as F. unfold pi2 in F. pose proof (f_equal fst F) as Fa. pose proof (f_equal snd F) as Fb. cbn [fst snd] in Fa, Fb. split; assumption.
Qed.

(** ** the checker's per-context expectation over an end-block, in model terms *)
Definition G (s s' : state) (id : ctxid) (x : context) : list cbev :=
  if x_mod x then
    (if x_brun x && eqb (get id (expmark s)) (Some (height s))
     then [(0, id, x_batch x, n_outputs s id (x_batch x), if x_bthr x <=? n_outputs s id (x_batch x) then 1 else 0)] else [])
    ++ (if x_state x =? 0 then
          match get id (ctxs s') with
          | Some x' => if x_state x' =? 1 then [(1, id, x_batch x', 0, 0)] else []
          | None => []
          end
        else [])
  else [].

Lemma x_off_mod x : x_mod (x_off x) = x_mod x.
Proof. unfold x_off. destruct (x_brun x); reflexivity. Qed.

Lemma eb_log_ctx c s dt id x :
  QInv s -> LInv false s -> BatchInv s -> get id (ctxs s) = Some x ->
  Lg id (end_block c s dt) = Lg id s ++ G s (end_block c s dt) id x.
Proof.
  intros Hq Hl Hb Hg. destruct (eb_log c s dt id Hq Hl Hb) as (mid & lgm & P1 & P2).
  set (s' := end_block c s dt) in *. clearbody s'. destruct (x_off_fields x) as (Ob & Os & _). pose proof (x_off_mod x) as Om.
  (* the context after the expiry phase: gone, or the same up to the running flag *)
  assert (M : lgm = Lg id s ++ (if x_mod x && (x_brun x && eqb (get id (expmark s)) (Some (height s)))
                 then [(0, id, x_batch x, n_outputs s id (x_batch x), if x_bthr x <=? n_outputs s id (x_batch x) then 1 else 0)] else [])
              /\ (fst (fst mid) = None \/ exists xm, fst (fst mid) = Some xm /\ x_mod xm = x_mod x /\ x_state xm = x_state x /\ x_batch xm = x_batch x)).
  { destruct P1 as [(E1' & Q & ->)|(E1' & -> & ->)].
    - split.
      + unfold E1. rewrite Hg, E1', eqb_refl, andb_true_r. rewrite (andb_comm (x_mod x)). reflexivity.
      + unfold loc, QE in Q. rewrite Hg in Q. destruct mid as [[cxm exm] nwm]. cbn [fst]. destruct Q as (_ & Q).
        destruct (x_state x =? 2); [left; tauto|]. destruct (x_state x =? 0); [destruct (belowb x)|]; destruct Q as (-> & _);
          try (left; reflexivity); right; exists (x_off x); repeat split; assumption.
    - split.
      + rewrite (proj2 (eqb_false_iff _ _) E1'), andb_false_r, andb_false_r, app_nil_r. reflexivity.
      + right. exists x. unfold loc. cbn [fst]. repeat split; assumption || reflexivity. }
  destruct M as (-> & M). unfold G.
  assert (N : Lg id s' = (Lg id s ++ (if x_mod x && (x_brun x && eqb (get id (expmark s)) (Some (height s)))
                 then [(0, id, x_batch x, n_outputs s id (x_batch x), if x_bthr x <=? n_outputs s id (x_batch x) then 1 else 0)] else []))
              ++ (if x_mod x && (x_state x =? 0) then
                    match get id (ctxs s') with Some x' => if x_state x' =? 1 then [(1, id, x_batch x', 0, 0)] else [] | None => [] end
                  else [])).
  { destruct P2 as [(_ & Q & ->)|(_ & Q & ->)].
    - f_equal. destruct mid as [[cxm exm] nwm]. cbn [fst] in M |- *. unfold loc, QN in Q.
      destruct M as [->|(xm & -> & Mm & Ms & Mb)].
      + injection Q as Q _ _. rewrite Q. cbn [E2v]. destruct (x_mod x && (x_state x =? 0)); reflexivity.
      + destruct Q as (_ & Q). rewrite Ms in Q. unfold E2v. rewrite Mm, Ms.
        destruct (x_state x =? 0) eqn:Es.
        * destruct Q as [(x' & -> & _ & Sx & _)|(-> & _)].
          -- rewrite Sx. cbn [Z.eqb]. rewrite andb_false_r. destruct (x_mod x); reflexivity.
          -- cbn [x_state cx_state x_batch cx_brun]. cbn [Z.eqb]. rewrite andb_true_r, Mb. reflexivity.
        * destruct Q as (-> & _). rewrite andb_false_r. reflexivity.
    - rewrite <- app_nil_r at 1. f_equal. pose proof (f_equal (fun t => fst (fst t)) Q) as Qc. unfold loc in Qc. cbn [fst] in Qc.
      rewrite Qc. destruct M as [->|(xm & -> & Mm & Ms & Mb)]; [destruct (x_mod x && (x_state x =? 0)); reflexivity|].
      destruct (x_mod x && (x_state x =? 0)) eqn:E; [|reflexivity]. apply andb_true_iff in E. destruct E as (_ & E). apply Z.eqb_eq in E.
      rewrite Ms, E. reflexivity. }
  rewrite N, <- app_assoc. f_equal. destruct (x_mod x); cbn [andb]; reflexivity.
Qed.

Lemma eb_log_none c s dt id :
  QInv s -> LInv false s -> BatchInv s -> get id (ctxs s) = None -> Lg id (end_block c s dt) = Lg id s.
Proof.
  intros Hq Hl Hb Hg. destruct (eb_log c s dt id Hq Hl Hb) as (mid & lgm & P1 & P2).
  set (s' := end_block c s dt) in *. clearbody s'.
  assert (M : lgm = Lg id s /\ fst (fst mid) = None).
  { destruct P1 as [(_ & Q & ->)|(_ & -> & ->)].
    - unfold E1. rewrite Hg, app_nil_r. split; [reflexivity|]. destruct mid as [[cxm exm] nwm]. unfold loc, QE in Q. rewrite Hg in Q. injection Q as -> _ _. reflexivity.
    - split; [reflexivity|]. unfold loc. cbn [fst]. exact Hg. }
  destruct M as (-> & M). destruct P2 as [(_ & _ & ->)|(_ & _ & ->)]; [|reflexivity]. rewrite M. cbn [E2v]. apply app_nil_r.
Qed.

Lemma outputs_in_obs univ pc pn pb s id b : outputs_in (obs_of univ pc pn pb s) id b = n_outputs s id b.
Proof.
  unfold outputs_in, n_outputs. cbn [obs_of o_reqs]. f_equal. induction (reqs s) as [|[rid q] l IH]; simpl; [reflexivity|].
  destruct rid as [[[i b0] hh] ii]. cbn [fst snd Check.rid_ctx rid_batch req_tuple r_resp].
  destruct (eqb i id && (b0 =? b) && (q_resp q =? 2)); simpl; rewrite IH; reflexivity.
Qed.

Lemma count_one (k : ctxid) (ids : list ctxid) : NoDup ids -> In k ids ->
  list_sum (map (fun id => if eqb k id then 1%nat else 0%nat) ids) = 1%nat.
Proof.
  induction ids as [|a ids IH]; simpl; intros Hnd Hin; [contradiction|]. inversion Hnd as [|? ? Hn Hnd']; subst.
  destruct Hin as [->|Hin].
  - rewrite eqb_refl. f_equal. clear IH Hnd Hnd'. induction ids as [|a ids IH]; simpl; [reflexivity|].
    rewrite (proj2 (eqb_false_iff k a)) by (intros ->; apply Hn; left; reflexivity). apply IH. intros H; apply Hn; right; exact H.
  - rewrite (proj2 (eqb_false_iff k a)) by (intros ->; exact (Hn Hin)). apply IH; assumption.
Qed.

Lemma list_sum_map_add {A} (f g : A -> nat) (l : list A) :
  list_sum (map (fun x => (f x + g x)%nat) l) = (list_sum (map f l) + list_sum (map g l))%nat.
Proof. induction l as [|a l IH]; simpl; [reflexivity|]. rewrite IH. lia. Qed.

Lemma count_keys (l : list cbev) (ids : list ctxid) : NoDup ids -> (forall e, In e l -> In (cb_id e) ids) ->
  length l = list_sum (map (fun id => length (filter (fun e => eqb (cb_id e) id) l)) ids).
Proof.
  intros Hnd. induction l as [|e l IH]; intros Hall.
  - simpl. clear. induction ids as [|a ids IHi]; simpl; [reflexivity|exact IHi].
  - simpl length. rewrite IH by (intros e0 H0; apply Hall; right; exact H0).
    pose proof (count_one (cb_id e) ids Hnd (Hall e (or_introl eq_refl))) as C1.
    assert (Er : list_sum (map (fun id => length (if eqb (cb_id e) id then e :: filter (fun e0 => eqb (cb_id e0) id) l else filter (fun e0 => eqb (cb_id e0) id) l)) ids)
                 = S (list_sum (map (fun id => length (filter (fun e0 => eqb (cb_id e0) id) l)) ids))).
    { rewrite (map_ext _ (fun id => ((if eqb (cb_id e) id then 1 else 0) + length (filter (fun e0 => eqb (cb_id e0) id) l))%nat)).
      - rewrite list_sum_map_add, C1. reflexivity.
      - intros id. destruct (eqb (cb_id e) id); reflexivity. }
    symmetry. exact Er.

Qed.

Lemma flat_map_len {A B} (f : A -> list B) (l : list A) : length (flat_map f l) = list_sum (map (fun a => length (f a)) l).
Proof. induction l as [|a l IH]; simpl; [reflexivity|]. rewrite app_length, IH. reflexivity. Qed.

Lemma flat_map_map {A B C} (f : B -> list C) (g : A -> B) (l : list A) : flat_map f (map g l) = flat_map (fun a => f (g a)) l.
Proof. induction l as [|a l IH]; simpl; [reflexivity|]. rewrite IH. reflexivity. Qed.

Lemma expected_cb_end univ c s dt pc pn pb :
  expected_cb (obs_of univ pc pn pb s) (EndBlock dt) (obs_step univ c s (EndBlock dt))
  = flat_map (fun e => G s (apply c s (EndBlock dt)) (fst e) (snd e)) (ctxs s).
Proof.
  unfold expected_cb, obs_step. cbn [obs_of o_ctxs o_expmark o_height]. rewrite flat_map_map. apply flat_map_ext. intros [id x].
  cbn [fst snd]. unfold G. cbn [ctx_tuple t_mod t_brun t_batch t_bthr t_state]. rewrite outputs_in_obs, (get_map_val ctx_tuple).
  destruct (x_mod x); [|reflexivity]. f_equal. destruct (x_state x =? 0); [|reflexivity].
  destruct (get id (ctxs (apply c s (EndBlock dt)))) as [x'|]; reflexivity.
Qed.

Lemma c08_cb_endblock univ c s dt pc pn pb :
  0 <= dt -> QInv s -> LInv false s -> BatchInv s -> NoDup (keys (ctxs s)) ->
  same_set (expected_cb (obs_of univ pc pn pb s) (EndBlock dt) (obs_step univ c s (EndBlock dt))) (o_cb (obs_step univ c s (EndBlock dt))) = true.
Proof.
  intros Hdt Hq Hl Hb Hk. rewrite expected_cb_end. unfold obs_step. cbn [obs_of o_cb].
  assert (Es' : apply c s (EndBlock dt) = end_block c s dt).
  { rewrite apply_endblock. destruct (0 <=? dt) eqn:Ed; [reflexivity|apply Z.leb_gt in Ed; lia]. }
  pose proof (step_cb c s (EndBlock dt)) as Hcb. rewrite Es' in *. set (s' := end_block c s dt) in *.
  set (D := skipn (length (cblog s)) (cblog s')) in *.
  assert (Pid : forall id x, get id (ctxs s) = Some x -> filter (fun e => eqb (cb_id e) id) D = G s s' id x).
  { intros id x Hg. pose proof (eb_log_ctx c s dt id x Hq Hl Hb Hg) as L. fold s' in L. unfold Lg in L. rewrite Hcb, filter_app in L.
    exact (app_inv_head _ _ _ L). }
  assert (Pno : forall id, get id (ctxs s) = None -> filter (fun e => eqb (cb_id e) id) D = []).
  { intros id Hg. pose proof (eb_log_none c s dt id Hq Hl Hb Hg) as L. fold s' in L. unfold Lg in L. rewrite Hcb, filter_app in L.
    rewrite <- (app_nil_r (filter _ (cblog s))) in L at 2. exact (app_inv_head _ _ _ L). }
  clearbody s' D.
  assert (Hin : forall e, In e D -> exists x, get (cb_id e) (ctxs s) = Some x /\ In e (G s s' (cb_id e) x)).
  { intros e He. destruct (get (cb_id e) (ctxs s)) as [x|] eqn:Eg.
    - exists x. split; [reflexivity|]. rewrite <- (Pid _ x Eg). apply filter_In. split; [exact He|apply eqb_refl].
    - exfalso. assert (Hf : In e (filter (fun e0 => eqb (cb_id e0) (cb_id e)) D)) by (apply filter_In; split; [exact He|apply eqb_refl]).
      rewrite (Pno _ Eg) in Hf. exact Hf. }
  unfold same_set. apply andb_true_iff. split.
  - apply Nat.eqb_eq. rewrite flat_map_len.
    rewrite (count_keys D (keys (ctxs s)) Hk).
    2: { intros e He. destruct (Hin e He) as (x & Hg & _). unfold keys. apply in_map_iff. exists (cb_id e, x). split; [reflexivity|apply get_In; exact Hg]. }
    unfold keys. rewrite map_map. f_equal. apply map_ext_in. intros [id x] Hi. cbn [fst snd].
    rewrite (Pid id x (In_get_NoDup id x (ctxs s) Hk Hi)). reflexivity.
  - apply forallb_forall. intros e He. apply existsb_eqb_in. destruct (Hin e He) as (x & Hg & Hi).
    apply in_flat_map. exists (cb_id e, x). split; [apply get_In; exact Hg|exact Hi].
Qed.

(** ** a response *)
Lemma n_outputs_reqs t t' id b : reqs t' = reqs t -> n_outputs t' id b = n_outputs t id b.
Proof. intros E. unfold n_outputs. rewrite E. reflexivity. Qed.

Lemma respond_log c s rid prov kind s' :
  respond c s rid prov kind = Okk s' ->
  exists x, get (rid_ctx rid) (ctxs s) = Some x
    /\ cblog s' = cblog s ++ (if x_mod x && (x_bresp x + 1 =? x_breq x)
                               then [(0, rid_ctx rid, x_batch x, n_outputs s' (rid_ctx rid) (x_batch x),
                                      if x_bthr x <=? n_outputs s' (rid_ctx rid) (x_batch x) then 1 else 0)] else []).
Proof.
  intros H. unfold respond in H. destruct rid as [[[id batch] hh] ii]. cbn [rid_ctx].
  destruct ((0 <=? prov) && negb (kind =? 2)); cbv beta iota zeta delta [negb] in H; [|discriminate].
  match type of H with context [@get reqid request ?i ?k (reqs s)] =>
    destruct (@get reqid request i k (reqs s)) as [q|] eqn:Eq end; [|discriminate].
  destruct (get id (ctxs s)) as [x|] eqn:Ex; [|discriminate]. exists x. split; [reflexivity|].
  destruct (q_prov q =? prov) eqn:Ep; cbv beta iota zeta delta [negb] in H; [|discriminate].
  destruct (q_active q); cbv beta iota zeta delta [negb] in H; [|discriminate].
  destruct (add_earned_fee c s prov (q_fd q) (q_fee q)) as [s1|] eqn:Ef; [|discriminate].
  assert (F : cblog s1 = cblog s /\ ctxs s1 = ctxs s).
  { unfold add_earned_fee in Ef. destruct (send _ _ _ _ _); [|discriminate].
    destruct (q_fee q <? _); [discriminate|]. inversion Ef; subst. split; reflexivity. }
  destruct F as (Fl & Fc).
  change (x_bresp (cx_bresp x (x_bresp x + 1))) with (x_bresp x + 1) in H. change (x_breq (cx_bresp x (x_bresp x + 1))) with (x_breq x) in H.
  change (x_mod (cx_bresp x (x_bresp x + 1))) with (x_mod x) in H.
  destruct (x_bresp x + 1 =? x_breq x).
  - destruct (x_mod x); cbn [andb].
    + set (s3 := with_g_out _ _) in H.
      assert (Hg3 : get id (ctxs s3) = Some x) by (subst s3; simpl; rewrite Fc; exact Ex).
      destruct (callback_spec s3 id x Hg3) as (L & _ & R). inversion H; subst s'; clear H. cbn [cblog with_ctxs].
      rewrite L. rewrite !(n_outputs_reqs s3 (with_ctxs (callback s3 id) _) id (x_batch x)) by (cbn [reqs with_ctxs]; exact R).
      subst s3. simpl. rewrite Fl. reflexivity.
    + inversion H; subst s'; clear H. simpl. rewrite Fl, app_nil_r. reflexivity.
  - rewrite andb_false_r. inversion H; subst s'; clear H. simpl. rewrite Fl, app_nil_r. reflexivity.
Qed.

(** ** every other step logs nothing *)
Lemma cblog_step_same c s st :
  is_endblock st = false -> (forall txh rid prov kind, st <> Tx txh (MRespond rid prov kind)) ->
  cblog (apply c s st) = cblog s.
Proof.
  intros Heb Hnr. destruct (is_module_call c st) eqn:Em.
  - destruct st; try discriminate. destruct m; try discriminate. simpl in Em. unfold apply. cbn [exec_step exec_msg]. rewrite Em.
    destruct (call_module c s txh svc provs cons inok capd capa timeout rep freq total) as [s'| |] eqn:Ec; try reflexivity.
    destruct (call_module_shape _ _ _ _ _ _ _ _ _ _ _ _ _ _ Ec) as (s1 & id & x & q' & E1 & _ & _ & _ & _ & _ & _ & _ & _ & _ & _ & _ & _ & _ & _ & _ & _ & _ & CB & _).
    rewrite CB. clear -E1. unfold create_context in E1. repeat dmn E1; inversion E1; subst; reflexivity.
  - destruct (apply_no_msvc c s st Em) as [Ea|Ea]; rewrite Ea; [|reflexivity].
    pose proof (no_msvc_lt c) as Hm. set (c0 := no_msvc c) in *. clearbody c0.
    unfold apply. destruct (exec_step c0 s st) as [s'| |] eqn:E; try reflexivity.
    destruct st as [txh m|dt| | | | | | |]; cbn [exec_step] in E; try discriminate Heb.
    + rewrite (exec_msg_plain_eq _ _ _ _ Hm) in E. destruct m; simpl in E;
        try (unfold define, bind, update_binding, set_withdraw, enable, disable, refund_deposit, msg_ctl, k_pause, k_start, k_kill, update_context, withdraw in E;
             repeat dmn E; inversion E; subst; reflexivity).
      * unfold call in E. destruct (negb _); [discriminate|].
        destruct (create_context _ _ _ _ _ _ _ _ _ _ _ _ _ _ _ _) as [[s2 id]|] eqn:E0; [|discriminate]. inversion E; subst.
        clear -E0. unfold create_context in E0. repeat dmn E0; inversion E0; subst; reflexivity.
      * exfalso. exact (Hnr _ _ _ _ eq_refl).
    + inversion E; subst. reflexivity.
    + repeat dmn E; inversion E; subst; reflexivity.
    + destruct (create_context _ _ _ _ _ _ _ _ _ _ _ _ _ _ _ _) as [[s2 id]|] eqn:E0; [|discriminate]. inversion E; subst.
      clear -E0. unfold create_context in E0. repeat dmn E0; inversion E0; subst; reflexivity.
    + unfold k_pause in E. repeat dmn E; inversion E; subst; reflexivity.
    + unfold k_start in E. repeat dmn E; inversion E; subst; reflexivity.
    + unfold k_kill in E. repeat dmn E; inversion E; subst; reflexivity.
    + unfold bind in E. repeat dmn E; inversion E; subst; reflexivity.
Qed.

(** ** C08 clause 7, the step-wise list, on the model's own observation of any step *)
Lemma c08_cb_step univ c s st pc pn pb :
  good_step st -> QInv s -> LInv false s -> BatchInv s -> NoDup (keys (ctxs s)) ->
  same_set (expected_cb (obs_of univ pc pn pb s) st (obs_step univ c s st)) (o_cb (obs_step univ c s st)) = true.
Proof.
  intros Hg Hq Hl Hb Hk. destruct st as [txh m|dt| | | | | | |].
  2: { apply c08_cb_endblock; assumption. }
  all: try (unfold obs_step; cbn [obs_of o_cb expected_cb]; rewrite cblog_step_same by (try reflexivity; intros; discriminate); rewrite skipn_all; reflexivity).
  destruct m; try (unfold obs_step; cbn [obs_of o_cb expected_cb]; rewrite cblog_step_same by (try reflexivity; intros; discriminate); rewrite skipn_all; reflexivity).
  (* a response *)
  unfold obs_step, apply. cbn [exec_step exec_msg exec_msg_plain].
  destruct (respond c s rid prov kind) as [s'| |] eqn:Er; cbn [obs_of o_cb o_code res_code expected_cb Z.eqb]; try (rewrite skipn_all; reflexivity).
  destruct (respond_log c s rid prov kind s' Er) as (x & Hx & L). rewrite L, skipn_app_len.
  change (o_ctxs (obs_of univ pc pn pb s)) with (map (fun e : ctxid * context => (fst e, ctx_tuple (snd e))) (ctxs s)).
  rewrite (get_map_val ctx_tuple). change (Check.rid_ctx rid) with (rid_ctx rid). rewrite Hx. cbn [option_map ctx_tuple t_mod t_bresp t_breq t_batch t_bthr].
  rewrite !outputs_in_obs. apply same_set_self.
Qed.

Theorem model_passes_C08_clause_7_lemma :
  forall c steps h0 t0 l0 univ,
    NoDup (create_txhs steps) -> Forall good_step steps ->
    forall pre st post, steps = pre ++ st :: post ->
    forall seen tr sc pc pn pb,
      let s := run c (init h0 t0 l0) pre in
      holds_C08 seen (cb_keys (cblog s)) tr sc (obs_of univ pc pn pb s) st (obs_step univ c s st) <> 7.
Proof.
  intros c steps h0 t0 l0 univ Hnd Hgood pre st post E seen tr sc pc pn pb s Ek.
  assert (Hnd1 : NoDup (create_txhs (pre ++ [st]))).
  { rewrite E in Hnd. replace (pre ++ st :: post) with ((pre ++ [st]) ++ post) in Hnd by (rewrite <- app_assoc; reflexivity).
    rewrite create_txhs_app in Hnd. exact (NoDup_app_l _ _ Hnd). }
  assert (Hnd0 : NoDup (create_txhs pre)) by (rewrite create_txhs_app in Hnd1; exact (NoDup_app_l _ _ Hnd1)).
  assert (Hg : good_step st) by (apply (proj1 (Forall_forall _ _) Hgood); rewrite E; apply in_elt).
  pose proof (fresh_history_from_distinct_hashes_lemma c pre h0 t0 l0 Hnd0) as Hf.
  assert (G : SL s) by (subst s; apply (run_inv_fresh SL c); [intros; apply SL_apply_m; assumption|exact Hf|split; [apply SInv_init|apply LInv_init]]).
  destruct G as ((Hq & Hb) & Hl). pose proof (reach_K c pre h0 t0 l0) as Hk. fold s in Hk.
  destruct (model_passes_C08_clause_7_history_lemma c pre st h0 t0 l0 univ Hnd1) as (_ & _ & H14 & H15). cbv zeta in H14, H15. fold s in H14, H15.
  apply first_fail_in in Ek; [|lia]. unfold holds_C08 in Ek; cbv zeta in Ek.
  do 13 (split_seg Ek; [not_here Ek|]).
  split_seg Ek.
  { destruct Ek as [Ek|[]]. injection Ek as Ek. exact (eq_true_false_abs _ (c08_cb_step univ c s st pc pn pb Hg Hq Hl Hb Hk) Ek). }
  split_seg Ek.
  { apply in_map_iff in Ek. destruct Ek as (k & Ek & Hin). injection Ek as Ek. exact (eq_true_false_abs _ (H14 k Hin) Ek). }
  split_seg Ek; [|not_here Ek].
  apply in_map_iff in Ek. destruct Ek as (e & Ek & Hin). injection Ek as Ek. exact (eq_true_false_abs _ (H15 e Hin) Ek).
Qed.

(** ** the whole of [holds_C08] on the model's own trace *)
Lemma holds_C08_range seen fired tr sc p st o : holds_C08 seen fired tr sc p st o = 0 \/ 1 <= holds_C08 seen fired tr sc p st o <= 9.
Proof.
  destruct (Z.eq_dec (holds_C08 seen fired tr sc p st o) 0) as [E0|E0]; [left; exact E0|right].
  remember (holds_C08 seen fired tr sc p st o) as k eqn:Ek. symmetry in Ek. pose proof (first_fail_in _ k Ek E0) as E. clear Ek.
  code_of E. all: cbv zeta in E; code_of E.
Qed.

Lemma fired_step univ c s st : cb_keys (cblog s) ++ cb_keys (o_cb (obs_step univ c s st)) = cb_keys (cblog (apply c s st)).
Proof. unfold obs_step. cbn [obs_of o_cb]. rewrite !cb_keys_resp_keys, <- resp_keys_app, <- step_cb. reflexivity. Qed.

Lemma check_from_quiet8 univ c : forall rest s seen ts,
  (forall pre st post, rest = pre ++ st :: post ->
     forall pc pn pb,
       holds_C08 (model_seen univ c s seen pre) (cb_keys (cblog (run c s pre))) (fst (model_ts univ c s ts pre)) (snd (model_ts univ c s ts pre))
         (obs_of univ pc pn pb (run c s pre)) st (obs_step univ c (run c s pre) st) = 0) ->
  forall pc pn pb i corr p7 c7 p8 c8,
    let '(_, _, _, p8', c8') :=
      check_from c s (obs_of univ pc pn pb s) seen (cb_keys (cblog s)) (fst ts) (snd ts) (model_trace univ c s rest) i corr p7 c7 p8 c8 in
    p8' = p8 /\ c8' = c8.
Proof.
  induction rest as [|st r IH]; intros s seen ts H pc pn pb i corr p7 c7 p8 c8.
  - cbn [model_trace check_from]. split; reflexivity.
  - cbn [model_trace]. rewrite check_from_cons.
    pose proof (H [] st r eq_refl pc pn pb) as K0. cbn [run model_seen model_ts] in K0. rewrite K0. cbn [Z.eqb negb]. rewrite andb_false_r.
    rewrite fired_step.
    set (p := obs_of univ pc pn pb s) in *. set (o := obs_step univ c s st) in *.
    set (ts' := (update_track (fst ts) p st o, update_sched (snd ts) (fst ts) p st o)).
    assert (H' : forall pre st0 post, r = pre ++ st0 :: post ->
              forall pc pn pb,
                holds_C08 (model_seen univ c (apply c s st) (seen ++ map fst (created_in p o)) pre) (cb_keys (cblog (run c (apply c s st) pre)))
                  (fst (model_ts univ c (apply c s st) ts' pre)) (snd (model_ts univ c (apply c s st) ts' pre))
                  (obs_of univ pc pn pb (run c (apply c s st) pre)) st0 (obs_step univ c (run c (apply c s st) pre) st0) = 0).
    { intros pre st0 post E. exact (H (st :: pre) st0 post (f_equal (cons st) E)). }
    exact (IH (apply c s st) (seen ++ map fst (created_in p o)) ts' H'
             (res_code (exec_step c s st)) (step_newctx s st (exec_step c s st)) (skipn (length (cblog s)) (cblog (apply c s st)))
             _ _ _ _ p8 c8).
Qed.

Theorem model_passes_check_C08_lemma :
  forall c steps h0 t0 l0 univ,
    c_msvc c < 0 -> 0 <= c_tax c -> clean l0 -> NoDup (create_txhs steps) -> Forall good_step steps ->
    In (DEP, BASE) univ -> (forall d, In d (denoms c) -> In (REQ, d) univ) ->
    (forall pre st post, steps = pre ++ st :: post -> forall rid q, get rid (reqs (run c (init h0 t0 l0) pre)) = Some q ->
       In (TAX, q_fd q) univ /\ In (REQ, q_fd q) univ) ->
    ledger_of (obs_of univ 0 None [] (init h0 t0 l0)) = l0 ->
    check_case_C08 (model_case univ c h0 t0 l0 steps) = (-1, -1, 0).
Proof.
  intros c steps h0 t0 l0 univ Hm Htax Hcl Hnd Hgood Hu1 Hu2 Hu5 Hl.
  pose proof (model_step_ok c steps h0 t0 l0 univ Hm Htax Hcl Hnd Hgood Hu1 Hu2 Hu5) as H.
  assert (Z8 : forall pre st post, steps = pre ++ st :: post ->
            forall pc pn pb,
              holds_C08 (model_seen univ c (init h0 t0 l0) [] pre) (cb_keys (cblog (run c (init h0 t0 l0) pre)))
                (fst (model_ts univ c (init h0 t0 l0) ([], []) pre)) (snd (model_ts univ c (init h0 t0 l0) ([], []) pre))
                (obs_of univ pc pn pb (run c (init h0 t0 l0) pre)) st (obs_step univ c (run c (init h0 t0 l0) pre) st) = 0).
  { intros pre st post E pc pn pb.
    destruct (H pre st post E pc pn pb (cb_keys (cblog (run c (init h0 t0 l0) pre)))
                (fst (model_ts univ c (init h0 t0 l0) ([], []) pre)) (snd (model_ts univ c (init h0 t0 l0) ([], []) pre)))
      as (_ & K1 & K2 & K5 & K6 & K8 & K9).
    assert (Hnd1 : NoDup (create_txhs (pre ++ [st]))).
    { rewrite E in Hnd. replace (pre ++ st :: post) with ((pre ++ [st]) ++ post) in Hnd by (rewrite <- app_assoc; reflexivity).
      rewrite create_txhs_app in Hnd. exact (NoDup_app_l _ _ Hnd). }
    assert (Hg : good_step st) by (apply (proj1 (Forall_forall _ _) Hgood); rewrite E; apply in_elt).
    pose proof (model_passes_C08_clause_3_lemma c pre st h0 t0 l0 univ (model_seen univ c (init h0 t0 l0) [] pre) (cb_keys (cblog (run c (init h0 t0 l0) pre)))
                  (fst (model_ts univ c (init h0 t0 l0) ([], []) pre)) (snd (model_ts univ c (init h0 t0 l0) ([], []) pre)) pc pn pb Hnd1 Hg) as K3.
    pose proof (model_passes_C08_clause_4_lemma c steps h0 t0 l0 univ Hnd Hgood pre st post E (model_seen univ c (init h0 t0 l0) [] pre)
                  (cb_keys (cblog (run c (init h0 t0 l0) pre))) pc pn pb) as K4.
    pose proof (model_passes_C08_clause_7_lemma c steps h0 t0 l0 univ Hnd Hgood pre st post E (model_seen univ c (init h0 t0 l0) [] pre)
                  (fst (model_ts univ c (init h0 t0 l0) ([], []) pre)) (snd (model_ts univ c (init h0 t0 l0) ([], []) pre)) pc pn pb) as K7.
    cbv zeta in K3, K4, K7.
    destruct (holds_C08_range (model_seen univ c (init h0 t0 l0) [] pre) (cb_keys (cblog (run c (init h0 t0 l0) pre)))
                (fst (model_ts univ c (init h0 t0 l0) ([], []) pre)) (snd (model_ts univ c (init h0 t0 l0) ([], []) pre))
                (obs_of univ pc pn pb (run c (init h0 t0 l0) pre)) st (obs_step univ c (run c (init h0 t0 l0) pre) st)) as [Z|R]; [exact Z|lia]. }
  destruct (model_corresponds_to_itself_lemma c steps h0 t0 l0 univ Hnd Hl) as (_ & C8). cbv zeta in C8.
  assert (E : check_all (model_case univ c h0 t0 l0 steps) = check_from c (init h0 t0 l0) (obs_of univ 0 None [] (init h0 t0 l0)) [] [] [] [] (model_trace univ c (init h0 t0 l0) steps) 1
                (if corr_state (init h0 t0 l0) (obs_of univ 0 None [] (init h0 t0 l0)) then -1 else 0) (-1) 0 (-1) 0).
  { unfold check_all, model_case. rewrite Hl. reflexivity. }
  pose proof (check_from_quiet8 univ c steps (init h0 t0 l0) [] ([], []) Z8 0 None [] 1
                (if corr_state (init h0 t0 l0) (obs_of univ 0 None [] (init h0 t0 l0)) then -1 else 0) (-1) 0 (-1) 0) as G.
  cbn [fst snd] in G. change (cb_keys (cblog (init h0 t0 l0))) with (@nil (ctxid * Z)) in G.
  unfold check_case_C08 in C8 |- *. rewrite E in C8 |- *.
  destruct (check_from _ _ _ _ _ _ _ _ _ _ _ _ _ _) as [[[[r1 r2] r3] r4] r5]. destruct G as (-> & ->).
  rewrite (C8 r1 (-1) 0 eq_refl). reflexivity.
Qed.
