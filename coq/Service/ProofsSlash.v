(** * Service: the model passes its own check — C07 clause 6 (every expired request slashes
    floor(deposit * fraction) from its binding, deposit escrow -> tax account). *)
From Irismod Require Import Service.Model Service.Check Service.Proofs Service.ProofsHist Service.ProofsEscrow Service.ProofsSched
  Service.ProofsBatch Service.ProofsLiab Service.ProofsTally Service.ProofsLive Service.ProofsModule Service.ProofsFresh
  Service.ProofsCallback Service.ProofsSchedule Service.ProofsModuleHist Service.ProofsOutcome Service.ProofsCheck Service.ProofsTrack
  Service.ProofsBal.

(** ** deposits are never negative *)
Definition DN (s : state) : Prop := forall k b, get k (binds s) = Some b -> 0 <= b_dep b.
Definition dr (s s' : state) : Prop := DN s -> DN s'.

Lemma dr_same s s' : binds s' = binds s -> dr s s'.
Proof. intros E H. unfold DN. rewrite E. exact H. Qed.
Lemma dr_refl s : dr s s.
Proof. intros H. exact H. Qed.
Lemma dr_trans s1 s2 s3 : dr s1 s2 -> dr s2 s3 -> dr s1 s3.
Proof. intros A B H. apply B, A, H. Qed.
Lemma dr_set s s' k b' : binds s' = set k b' (binds s) -> (DN s -> 0 <= b_dep b') -> dr s s'.
Proof.
  intros E Hb Hn k0 b0 Hg. rewrite E in Hg. destruct (eq_dec k0 k) as [->|Hne].
  - rewrite get_set_same in Hg. inversion Hg; subst. exact (Hb Hn).
  - rewrite get_set_other in Hg by exact Hne. exact (Hn k0 b0 Hg).
Qed.

Ltac dn_fact := intros Hn; repeat match goal with Hg : get _ (binds _) = Some _ |- _ => pose proof (Hn _ _ Hg); clear Hg end; zb; simpl; try lia.
Ltac dn_frame H :=
  repeat dmn H; inversion H; subst; clear H;
  first [apply dr_same; reflexivity | eapply dr_set; [reflexivity|dn_fact]].

Lemma bind_dr c s svc prov depd depa pr qos optok owner s' : bind c s svc prov depd depa pr qos optok owner = Okk s' -> dr s s'.
Proof. intros H. unfold bind in H. dn_frame H. Qed.
Lemma update_binding_dr c s svc prov depd depa pr qos opt owner s' : update_binding c s svc prov depd depa pr qos opt owner = Okk s' -> dr s s'.
Proof. intros H. unfold update_binding in H. dn_frame H. Qed.
Lemma enable_dr c s svc prov depd depa owner s' : enable c s svc prov depd depa owner = Okk s' -> dr s s'.
Proof. intros H. unfold enable in H. dn_frame H. Qed.
Lemma disable_dr s svc prov owner s' : disable s svc prov owner = Okk s' -> dr s s'.
Proof. intros H. unfold disable in H. dn_frame H. Qed.
Lemma refund_dr c s svc prov owner s' : refund_deposit c s svc prov owner = Okk s' -> dr s s'.
Proof. intros H. unfold refund_deposit in H. dn_frame H. Qed.

Ltac dn_same H := repeat dmn H; inversion H; subst; clear H; apply dr_same; reflexivity.

Lemma exec_msg_plain_dr c s txh m s' : exec_msg_plain c s txh m = Okk s' -> dr s s'.
Proof.
  intros H. destruct m; simpl in H.
  - unfold define in H. dn_same H.
  - eapply bind_dr; eassumption.
  - eapply update_binding_dr; eassumption.
  - unfold set_withdraw in H. dn_same H.
  - eapply enable_dr; eassumption.
  - eapply disable_dr; eassumption.
  - eapply refund_dr; eassumption.
  - unfold call in H. destruct (negb _); [discriminate|].
    destruct (create_context _ _ _ _ _ _ _ _ _ _ _ _ _ _ _ _) as [[s1 id]|] eqn:E; [|discriminate].
    inversion H; subst. apply dr_same. exact (create_context_binds _ _ _ _ _ _ _ _ _ _ _ _ _ _ _ _ _ _ E).
  - destruct (respond_tally _ _ _ _ _ _ H) as (q & q' & e & _ & _ & _ & _ & _ & _ & _ & B). apply dr_same. exact B.
  - unfold msg_ctl, k_pause in H. dn_same H.
  - unfold msg_ctl, k_start in H. dn_same H.
  - unfold msg_ctl, k_kill in H. dn_same H.
  - unfold update_context in H. dn_same H.
  - unfold withdraw in H. dn_same H.
Qed.

Lemma call_module_dr c s txh svc provs cons inok capd capa timeout rep freq total s' :
  call_module c s txh svc provs cons inok capd capa timeout rep freq total = Okk s' -> dr s s'.
Proof.
  unfold call_module. intros H. destruct (negb _); [discriminate|].
  destruct (create_context c s txh svc [c_mprov c] cons inok capd capa 1 false 0 0 0 0 false) as [[s1 id]|] eqn:E1; [|discriminate].
  pose proof (create_context_binds _ _ _ _ _ _ _ _ _ _ _ _ _ _ _ _ _ _ E1) as B1.
  destruct (get id (ctxs s1)) as [x|] eqn:Ex; [|discriminate].
  destruct (filter_provs s1 x (x_provs x)) as [[|p0 ps]|]; try discriminate.
  destruct (debit_all (led s1) (x_cons x) (total_fees s1 x [c_mprov c])) as [l|]; [|discriminate].
  set (s2 := initiate_ms (with_led s1 (credit_all l REQ (total_fees s1 x [c_mprov c]))) id x [c_mprov c]) in *.
  destruct (respond c s2 (id, x_batch x + 1, height s, 0) (c_mprov c) 1) as [s3| |] eqn:Er; try discriminate.
  destruct (respond_tally _ _ _ _ _ _ Er) as (q & q' & e & _ & _ & _ & _ & _ & _ & _ & B3).
  cbv beta iota in H. injection H as <-. apply dr_same. cbn [binds with_ctxs]. rewrite B3. exact B1.
Qed.

Lemma exec_msg_dr c s txh m s' : exec_msg c s txh m = Okk s' -> dr s s'.
Proof.
  intros H. destruct m; cbn [exec_msg] in H; try (eapply exec_msg_plain_dr; eassumption).
  - destruct (module_served c svc); [discriminate|]. eapply bind_dr; eassumption.
  - destruct (module_served c svc); [eapply call_module_dr; exact H|].
    eapply (exec_msg_plain_dr c s txh (MCall svc provs cons inok capd capa timeout rep freq total)); exact H.
Qed.

Lemma slash_dr c s svc prov : dr s (slash c s svc prov).
Proof.
  unfold slash. destruct (get (svc, prov) (binds s)) as [b|] eqn:Eg; [|apply dr_refl].
  destruct (b_dep b <? _) eqn:El; [apply dr_refl|]. destruct (send _ _ _ _ _); [|apply dr_refl].
  eapply dr_set; [reflexivity|]. intros Hn. apply Z.ltb_ge in El. cbv zeta.
  destruct (b_avail _); [destruct (min_deposit _ _ _ _) as [m|]; [destruct (m <=? _)|]|]; simpl; lia.
Qed.

Lemma expire_dr c x s e : dr s (expire_request c x s e).
Proof.
  destruct e as [rid q]. unfold expire_request. eapply dr_trans; [apply (slash_dr c s (x_svc x) (q_prov q))|].
  destruct (send _ _ _ _ _); apply dr_same; reflexivity.
Qed.

Lemma expired_handler_dr c s id : dr s (expired_batch_handler c s id).
Proof.
  unfold expired_batch_handler. destruct (get id (ctxs s)) as [x|]; [|apply dr_refl].
  set (pr := if x_brun x then _ else (s, x)).
  assert (H1 : dr s (fst pr)).
  { subst pr. destruct (x_brun x); [|apply dr_refl]. simpl.
    assert (F : dr s (fold_left (expire_request c x) (filter (fun e => in_batch id (x_batch x) e && q_active (snd e)) (reqs s)) s)).
    { apply (fold_left_inv (fun t => dr s t)); [|apply dr_refl]. intros t e Ht. eapply dr_trans; [exact Ht|apply expire_dr]. }
    destruct (x_mod x); [|exact F]. eapply dr_trans; [exact F|]. unfold callback. destruct (get id (ctxs _)); apply dr_same; reflexivity. }
  destruct pr as [s1 x1]. simpl in H1. cbv zeta. eapply dr_trans; [exact H1|].
  destruct (x_state x1 =? 2); destruct (x_state x1 =? 0); try destruct (x_rep x1 && _); apply dr_same; reflexivity.
Qed.

Lemma apply_dr c s st : dr s (apply c s st).
Proof.
  unfold apply. destruct (exec_step c s st) as [s'| |] eqn:E; try apply dr_refl.
  destruct st; cbn [exec_step] in E.
  - eapply exec_msg_dr. exact E.
  - destruct (0 <=? dt); [|discriminate]. inversion E; subst. unfold end_block. cbv zeta.
    set (s1 := fold_left (expired_batch_handler c) _ s).
    assert (H1 : dr s s1).
    { subst s1. apply (fold_left_inv (fun t => dr s t)); [|apply dr_refl].
      intros t id Ht. eapply dr_trans; [exact Ht|apply expired_handler_dr]. }
    set (s2 := fold_left new_batch_handler _ s1).
    assert (H2 : dr s s2).
    { subst s2. apply (fold_left_inv (fun t => dr s t)); [|exact H1].
      intros t id Ht. eapply dr_trans; [exact Ht|apply dr_same; apply new_handler_binds]. }
    eapply dr_trans; [exact H2|apply dr_same; reflexivity].
  - inversion E; subst. apply dr_same; reflexivity.
  - dn_same E.
  - destruct (create_context _ _ _ _ _ _ _ _ _ _ _ _ _ _ _ _) as [[s1 id]|] eqn:E1; [|discriminate].
    inversion E; subst. apply dr_same. exact (create_context_binds _ _ _ _ _ _ _ _ _ _ _ _ _ _ _ _ _ _ E1).
  - unfold k_pause in E. dn_same E.
  - unfold k_start in E. dn_same E.
  - unfold k_kill in E. dn_same E.
  - eapply bind_dr; eassumption.
Qed.

Lemma reach_DN c steps h0 t0 l0 : DN (run c (init h0 t0 l0) steps).
Proof. apply run_inv; [intros; apply apply_dr; assumption|]. intros k b Hg. simpl in Hg. discriminate. Qed.

(** ** iterated slashing of one binding *)
Lemma dep_sum_ge (m : amap (Z * Z) binding) k b : (forall k0 b0, In (k0, b0) m -> 0 <= b_dep b0) -> In (k, b) m -> b_dep b <= dep_sum m.
Proof.
  unfold dep_sum. induction m as [|[k1 b1] m IH]; simpl; intros Hn Hin; [contradiction|].
  assert (H0 : 0 <= zsum (map (fun e : Z * Z * binding => b_dep (snd e)) m)).
  { clear -Hn. induction m as [|[k2 b2] m IH]; simpl; [lia|]. pose proof (Hn k2 b2 (or_intror (or_introl eq_refl))).
    assert (0 <= zsum (map (fun e : Z * Z * binding => b_dep (snd e)) m)); [|lia].
    apply IH. intros k0 b0 [E|H0]; [inversion E; subst; apply (Hn k0 b0); left; reflexivity|apply (Hn k0 b0); right; right; exact H0]. }
  destruct Hin as [E|Hin].
  - inversion E; subst. lia.
  - pose proof (Hn k1 b1 (or_introl eq_refl)). specialize (IH (fun k0 b0 H1 => Hn k0 b0 (or_intror H1)) Hin). lia.
Qed.

Lemma slash_binds_other c t svc prov k : k <> (svc, prov) -> get k (binds (slash c t svc prov)) = get k (binds t).
Proof.
  intros Hne. unfold slash. destruct (get (svc, prov) (binds t)) as [b|]; [|reflexivity].
  destruct (b_dep b <? _); [reflexivity|]. destruct (send _ _ _ _ _); [|reflexivity].
  cbv zeta. cbn [binds with_binds with_led]. apply get_set_other. exact Hne.
Qed.

Section Slashing.
  Variables (c : config) (h : Z) (k : Z * Z) (svcof : reqid -> Z).
  Hypothesis Hf : 0 <= c_slash c <= P18.

  (** the requests that will still slash binding [k] in this end-block *)
  Definition Ck (e : reqid * request) : Z :=
    if q_active (snd e) && (q_exp (snd e) =? h) && (svcof (fst e) =? fst k) && (q_prov (snd e) =? snd k) then 1 else 0.
  Definition Rk (t : state) : Z := msum Ck (reqs t).
  Definition SK (t : state) (D0 : Z) : Prop :=
    0 <= Rk t /\ exists bt, get k (binds t) = Some bt /\ iter_slash (Z.to_nat (Rk t)) (c_slash c) (b_dep bt) = D0.

  Lemma Ck_nonneg e : 0 <= Ck e.
  Proof. unfold Ck. destruct (_ && _ && _ && _); lia. Qed.

  Lemma expire_SK x t rid q D0 :
    get rid (reqs t) = Some q -> q_active q = true -> q_exp q = h -> svcof rid = x_svc x ->
    DepInv t -> DN t -> NoDup (keys (binds t)) -> SK t D0 -> SK (expire_request c x t (rid, q)) D0.
  Proof.
    intros Hq Hact Hexp Hsv Hd Hn Hkb (HR & bt & Hb & Hit).
    destruct (expire_struct c x t rid q) as (R & _ & _).
    assert (Bi : binds (expire_request c x t (rid, q)) = binds (slash c t (x_svc x) (q_prov q))).
    { unfold expire_request. destruct (send _ _ _ _ _); reflexivity. }
    assert (ER : Rk (expire_request c x t (rid, q)) = Rk t - Ck (rid, q)).
    { unfold Rk. rewrite R, msum_set, Hq. unfold Ck at 3. cbn [fst snd rq_active q_active]. cbn [andb]. lia. }
    assert (Rest : forall e, In e (reqs t) -> 0 <= Ck e) by (intros; apply Ck_nonneg).
    unfold SK. rewrite ER, Bi. unfold Ck at 1 2. cbn [fst snd]. rewrite Hact, Hexp, Z.eqb_refl, Hsv. cbn [andb].
    destruct (eq_dec (x_svc x, q_prov q) k) as [Ek|Ek].
    - (* this request slashes [k] *)
      rewrite <- Ek. cbn [fst snd]. rewrite !Z.eqb_refl. cbn [andb].
      assert (Hge : 1 <= Rk t).
      { pose proof (msum_ge_term_in Ck (reqs t) (rid, q) Rest (get_In _ _ _ Hq)) as G. unfold Ck in G at 1. cbn [fst snd] in G.
        rewrite Hact, Hexp, Z.eqb_refl, Hsv, <- Ek in G. cbn [fst snd] in G. rewrite !Z.eqb_refl in G. exact G. }
      split; [lia|]. rewrite <- Ek in Hb.
      assert (Hdb : b_dep bt <= bal (led t) DEP BASE).
      { rewrite (di_eq _ Hd). apply (dep_sum_ge (binds t) (x_svc x, q_prov q) bt); [intros k0 b0 Hin|apply get_In; exact Hb].
        exact (Hn k0 b0 (In_get_NoDup k0 b0 (binds t) Hkb Hin)). }
      destruct (slash_amount_lemma c t (x_svc x) (q_prov q) bt Hb (Hn _ _ Hb) Hf Hdb) as (_ & _ & _ & _ & (b' & Hb' & Hdep & _) & _).
      exists b'. split; [exact Hb'|]. rewrite Hdep.
      replace (Z.to_nat (Rk t)) with (S (Z.to_nat (Rk t - 1))) in Hit by (rewrite <- Z2Nat.inj_succ by lia; f_equal; lia).
      exact Hit.
    - replace ((x_svc x =? fst k) && (q_prov q =? snd k)) with false.
      2: { symmetry. apply andb_false_iff. destruct k as [k1 k2]. cbn [fst snd].
           destruct (Z.eqb_spec (x_svc x) k1); destruct (Z.eqb_spec (q_prov q) k2); try tauto. exfalso. apply Ek. congruence. }
      rewrite Z.sub_0_r. split; [exact HR|]. exists bt. split; [|exact Hit]. rewrite slash_binds_other by congruence. exact Hb.
  Qed.

  Lemma slash_kb t svc prov : NoDup (keys (binds t)) -> NoDup (keys (binds (slash c t svc prov))).
  Proof.
    intros H. unfold slash. destruct (get (svc, prov) (binds t)) as [b|]; [|exact H].
    destruct (b_dep b <? _); [exact H|]. destruct (send _ _ _ _ _); [|exact H]. cbv zeta. cbn [binds with_binds with_led]. apply keys_set_NoDup. exact H.
  Qed.

  Lemma expire_kb x t e : NoDup (keys (binds t)) -> NoDup (keys (binds (expire_request c x t e))).
  Proof.
    intros H. destruct e as [rid q]. unfold expire_request. pose proof (slash_kb t (x_svc x) (q_prov q) H) as H1.
    destruct (send _ _ _ _ _); exact H1.
  Qed.

  Lemma expire_fold_SK x D0 : forall act t,
    NoDup (map fst act) ->
    (forall e, In e act -> get (fst e) (reqs t) = Some (snd e) /\ q_active (snd e) = true /\ q_exp (snd e) = h /\ svcof (fst e) = x_svc x) ->
    0 <= x_cons x -> DepInv t -> DN t -> NoDup (keys (binds t)) -> SK t D0 ->
    SK (fold_left (expire_request c x) act t) D0.
  Proof.
    induction act as [|[rid q] act IH]; cbn [fold_left]; intros t Hnd Hall Hc Hd Hn Hkb Hs; [exact Hs|].
    cbn [map fst] in Hnd. inversion Hnd as [|? ? Hnn Hnd']; subst.
    destruct (Hall (rid, q) (or_introl eq_refl)) as (Hq & Hact & Hexp & Hsv). cbn [fst snd] in Hq, Hact, Hexp, Hsv.
    apply IH; [exact Hnd'| |exact Hc|exact (proj1 (DepInv_expire c x t (rid, q) Hc Hd))|apply expire_dr; exact Hn|apply expire_kb; exact Hkb|apply expire_SK; assumption].
    intros e Hin. destruct (Hall e (or_intror Hin)) as (Hq' & Hr'). split; [|exact Hr'].
    destruct (expire_struct c x t rid q) as (R & _ & _). rewrite R. rewrite get_set_other; [exact Hq'|].
    intros E. apply Hnn. rewrite <- E. apply in_map. exact Hin.
  Qed.

  Lemma callback_SK t id D0 : SK t D0 -> SK (callback t id) D0.
  Proof. unfold SK, Rk, callback. destruct (get id (ctxs t)); intros H; exact H. Qed.

  Lemma expired_handler_SK t id D0 :
    QInv t -> BatchInv t -> DepInv t -> DN t -> NoDup (keys (binds t)) -> LInv false t -> In (h, id) (expq t) ->
    (forall x, get id (ctxs t) = Some x -> forall rid, rid_ctx rid = id -> svcof rid = x_svc x) ->
    SK t D0 -> SK (expired_batch_handler c t id) D0.
  Proof.
    intros Hq Hb Hd Hn Hkb Hl Hin Hsv Hs. unfold expired_batch_handler. destruct (get id (ctxs t)) as [x|] eqn:Eg; [|exact Hs].
    assert (Hc : 0 <= x_cons x) by (eapply (di_ctx _ Hd); exact Eg).
    set (pr := if x_brun x then _ else (t, x)).
    assert (Epr : pr = exp_pr c t id x) by reflexivity.
    destruct (exp_pr_facts c t id x Hb Eg) as (K1 & _ & A1 & _ & _). rewrite <- Epr in K1, A1.
    assert (H1 : SK (fst pr) D0).
    { subst pr. destruct (x_brun x); [|exact Hs]. cbn [fst]. set (act := filter _ (reqs t)).
      assert (F : SK (fold_left (expire_request c x) act t) D0).
      { apply expire_fold_SK; try assumption.
        - subst act. apply (keys_filter_NoDup _ (reqs t)). exact (b_keys _ Hb).
        - intros [r q] Hi. subst act. apply filter_In in Hi. destruct Hi as (Hi & Hact). cbn [fst snd] in *.
          apply andb_true_iff in Hact. destruct Hact as (Hbt & Hact). rewrite in_batch_inb in Hbt. cbn [fst] in Hbt.
          pose proof (In_get_NoDup r q (reqs t) (b_keys _ Hb) Hi) as Hg.
          split; [exact Hg|]. split; [exact Hact|]. pose proof (inb_ctx _ _ _ Hbt) as Hid. split; [|exact (Hsv x eq_refl r Hid)].
          pose proof (l_exp _ _ Hl r q Hg Hact) as Hm. rewrite Hid, (q_exp_mark _ Hq _ _ Hin) in Hm. congruence. }
      destruct (x_mod x); [|exact F]. apply callback_SK. exact F. }
    destruct pr as [s1 x1]. cbn [fst snd] in H1, K1, A1. cbv zeta.
    match goal with |- SK (with_reqs ?t0 (filter ?f (reqs ?t0))) _ =>
      assert (Ht : binds t0 = binds s1 /\ reqs t0 = reqs s1) by (destruct (x_state x1 =? 2); destruct (x_state x1 =? 0); try destruct (x_rep x1 && _); split; reflexivity);
      set (tt := t0) in *; clearbody tt end.
    destruct Ht as (Bt & Rt). unfold SK, Rk in *. cbn [binds reqs with_reqs]. rewrite Bt, Rt.
    rewrite msum_filter_zero; [exact H1|].
    intros [rid q] Hi Hff. unfold Ck. cbn [fst snd]. destruct (q_active q) eqn:Ea; [|reflexivity]. exfalso.
    assert (Hg : get rid (reqs s1) = Some q) by (apply In_get_NoDup; assumption).
    destruct (A1 rid q Hg Ea) as (_ & Hne). apply Hne. apply negb_false_iff in Hff. rewrite in_batch_inb in Hff. exact (inb_ctx _ _ _ Hff).
  Qed.
End Slashing.
