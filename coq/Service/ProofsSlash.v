(** * Service: the model passes its own check — C07 clause 6 (every expired request slashes
    floor(deposit * fraction) from its binding, deposit escrow -> tax account). *)
From Irismod Require Import Service.Model Service.Check Service.Proofs Service.ProofsHist Service.ProofsEscrow Service.ProofsSched
  Service.ProofsBatch Service.ProofsLiab Service.ProofsTally Service.ProofsLive Service.ProofsModule Service.ProofsFresh
  Service.ProofsCallback Service.ProofsSchedule Service.ProofsModuleHist Service.ProofsOutcome Service.ProofsCheck Service.ProofsTrack
  Service.ProofsBal.

(** ** deposits are never negative *)
Definition DN (s : state) : Prop := forall k b, get k (binds s) = Some b -> 0 <= b_dep b.
Definition dr (s s' : state) : Prop := DN s -> DN s'.

Lemma dr_same s s' : binds s' = binds s -> dr s s'.
Proof. intros E H. unfold DN. rewrite E. exact H. Qed.
Lemma dr_refl s : dr s s.
Proof. intros H. exact H. Qed.
Lemma dr_trans s1 s2 s3 : dr s1 s2 -> dr s2 s3 -> dr s1 s3.
Proof. intros A B H. apply B, A, H. Qed.
Lemma dr_set s s' k b' : binds s' = set k b' (binds s) -> (DN s -> 0 <= b_dep b') -> dr s s'.
Proof.
  intros E Hb Hn k0 b0 Hg. rewrite E in Hg. destruct (eq_dec k0 k) as [->|Hne].
  - rewrite get_set_same in Hg. inversion Hg; subst. exact (Hb Hn).
  - rewrite get_set_other in Hg by exact Hne. exact (Hn k0 b0 Hg).
Qed.

Ltac dn_fact := intros Hn; repeat match goal with Hg : get _ (binds _) = Some _ |- _ => pose proof (Hn _ _ Hg); clear Hg end; zb; simpl; try lia.
Ltac dn_frame H :=
  repeat dmn H; inversion H; subst; clear H;
  first [apply dr_same; reflexivity | eapply dr_set; [reflexivity|dn_fact]].

Lemma bind_dr c s svc prov depd depa pr qos optok owner s' : bind c s svc prov depd depa pr qos optok owner = Okk s' -> dr s s'.
Proof. intros H. unfold bind in H. dn_frame H. Qed.
Lemma update_binding_dr c s svc prov depd depa pr qos opt owner s' : update_binding c s svc prov depd depa pr qos opt owner = Okk s' -> dr s s'.
Proof. intros H. unfold update_binding in H. dn_frame H. Qed.
Lemma enable_dr c s svc prov depd depa owner s' : enable c s svc prov depd depa owner = Okk s' -> dr s s'.
Proof. intros H. unfold enable in H. dn_frame H. Qed.
Lemma disable_dr s svc prov owner s' : disable s svc prov owner = Okk s' -> dr s s'.
Proof. intros H. unfold disable in H. dn_frame H. Qed.
Lemma refund_dr c s svc prov owner s' : refund_deposit c s svc prov owner = Okk s' -> dr s s'.
Proof. intros H. unfold refund_deposit in H. dn_frame H. Qed.

Ltac dn_same H := repeat dmn H; inversion H; subst; clear H; apply dr_same; reflexivity.

Lemma exec_msg_plain_dr c s txh m s' : exec_msg_plain c s txh m = Okk s' -> dr s s'.
Proof.
  intros H. destruct m; simpl in H.
  - unfold define in H. dn_same H.
  - eapply bind_dr; eassumption.
  - eapply update_binding_dr; eassumption.
  - unfold set_withdraw in H. dn_same H.
  - eapply enable_dr; eassumption.
  - eapply disable_dr; eassumption.
  - eapply refund_dr; eassumption.
  - unfold call in H. destruct (negb _); [discriminate|].
    destruct (create_context _ _ _ _ _ _ _ _ _ _ _ _ _ _ _ _) as [[s1 id]|] eqn:E; [|discriminate].
    inversion H; subst. apply dr_same. exact (create_context_binds _ _ _ _ _ _ _ _ _ _ _ _ _ _ _ _ _ _ E).
  - destruct (respond_tally _ _ _ _ _ _ H) as (q & q' & e & _ & _ & _ & _ & _ & _ & _ & B). apply dr_same. exact B.
  - unfold msg_ctl, k_pause in H. dn_same H.
  - unfold msg_ctl, k_start in H. dn_same H.
  - unfold msg_ctl, k_kill in H. dn_same H.
  - unfold update_context in H. dn_same H.
  - unfold withdraw in H. dn_same H.
Qed.

Lemma call_module_dr c s txh svc provs cons inok capd capa timeout rep freq total s' :
  call_module c s txh svc provs cons inok capd capa timeout rep freq total = Okk s' -> dr s s'.
Proof.
  unfold call_module. intros H. destruct (negb _); [discriminate|].
  destruct (create_context c s txh svc [c_mprov c] cons inok capd capa 1 false 0 0 0 0 false) as [[s1 id]|] eqn:E1; [|discriminate].
  pose proof (create_context_binds _ _ _ _ _ _ _ _ _ _ _ _ _ _ _ _ _ _ E1) as B1.
  destruct (get id (ctxs s1)) as [x|] eqn:Ex; [|discriminate].
  destruct (filter_provs s1 x (x_provs x)) as [[|p0 ps]|]; try discriminate.
  destruct (debit_all (led s1) (x_cons x) (total_fees s1 x [c_mprov c])) as [l|]; [|discriminate].
  set (s2 := initiate_ms (with_led s1 (credit_all l REQ (total_fees s1 x [c_mprov c]))) id x [c_mprov c]) in *.
  destruct (respond c s2 (id, x_batch x + 1, height s, 0) (c_mprov c) 1) as [s3| |] eqn:Er; try discriminate.
  destruct (respond_tally _ _ _ _ _ _ Er) as (q & q' & e & _ & _ & _ & _ & _ & _ & _ & B3).
  cbv beta iota in H. injection H as <-. apply dr_same. cbn [binds with_ctxs]. rewrite B3. exact B1.
Qed.

Lemma exec_msg_dr c s txh m s' : exec_msg c s txh m = Okk s' -> dr s s'.
Proof.
  intros H. destruct m; cbn [exec_msg] in H; try (eapply exec_msg_plain_dr; eassumption).
  - destruct (module_served c svc); [discriminate|]. eapply bind_dr; eassumption.
  - destruct (module_served c svc); [eapply call_module_dr; exact H|].
    eapply (exec_msg_plain_dr c s txh (MCall svc provs cons inok capd capa timeout rep freq total)); exact H.
Qed.

Lemma slash_dr c s svc prov : dr s (slash c s svc prov).
Proof.
  unfold slash. destruct (get (svc, prov) (binds s)) as [b|] eqn:Eg; [|apply dr_refl].
  destruct (b_dep b <? _) eqn:El; [apply dr_refl|]. destruct (send _ _ _ _ _); [|apply dr_refl].
  eapply dr_set; [reflexivity|]. intros Hn. apply Z.ltb_ge in El. cbv zeta.
  destruct (b_avail _); [destruct (min_deposit _ _ _ _) as [m|]; [destruct (m <=? _)|]|]; simpl; lia.
Qed.

Lemma expire_dr c x s e : dr s (expire_request c x s e).
Proof.
  destruct e as [rid q]. unfold expire_request. eapply dr_trans; [apply (slash_dr c s (x_svc x) (q_prov q))|].
  destruct (send _ _ _ _ _); apply dr_same; reflexivity.
Qed.

Lemma expired_handler_dr c s id : dr s (expired_batch_handler c s id).
Proof.
  unfold expired_batch_handler. destruct (get id (ctxs s)) as [x|]; [|apply dr_refl].
  set (pr := if x_brun x then _ else (s, x)).
  assert (H1 : dr s (fst pr)).
  { subst pr. destruct (x_brun x); [|apply dr_refl]. simpl.
    assert (F : dr s (fold_left (expire_request c x) (filter (fun e => in_batch id (x_batch x) e && q_active (snd e)) (reqs s)) s)).
    { apply (fold_left_inv (fun t => dr s t)); [|apply dr_refl]. intros t e Ht. eapply dr_trans; [exact Ht|apply expire_dr]. }
    destruct (x_mod x); [|exact F]. eapply dr_trans; [exact F|]. unfold callback. destruct (get id (ctxs _)); apply dr_same; reflexivity. }
  destruct pr as [s1 x1]. simpl in H1. cbv zeta. eapply dr_trans; [exact H1|].
  destruct (x_state x1 =? 2); destruct (x_state x1 =? 0); try destruct (x_rep x1 && _); apply dr_same; reflexivity.
Qed.

Lemma apply_dr c s st : dr s (apply c s st).
Proof.
  unfold apply. destruct (exec_step c s st) as [s'| |] eqn:E; try apply dr_refl.
  destruct st; cbn [exec_step] in E.
  - eapply exec_msg_dr. exact E.
  - destruct (0 <=? dt); [|discriminate]. inversion E; subst. unfold end_block. cbv zeta.
    set (s1 := fold_left (expired_batch_handler c) _ s).
    assert (H1 : dr s s1).
    { subst s1. apply (fold_left_inv (fun t => dr s t)); [|apply dr_refl].
      intros t id Ht. eapply dr_trans; [exact Ht|apply expired_handler_dr]. }
    set (s2 := fold_left new_batch_handler _ s1).
    assert (H2 : dr s s2).
    { subst s2. apply (fold_left_inv (fun t => dr s t)); [|exact H1].
      intros t id Ht. eapply dr_trans; [exact Ht|apply dr_same; apply new_handler_binds]. }
    eapply dr_trans; [exact H2|apply dr_same; reflexivity].
  - inversion E; subst. apply dr_same; reflexivity.
  - dn_same E.
  - destruct (create_context _ _ _ _ _ _ _ _ _ _ _ _ _ _ _ _) as [[s1 id]|] eqn:E1; [|discriminate].
    inversion E; subst. apply dr_same. exact (create_context_binds _ _ _ _ _ _ _ _ _ _ _ _ _ _ _ _ _ _ E1).
  - unfold k_pause in E. dn_same E.
  - unfold k_start in E. dn_same E.
  - unfold k_kill in E. dn_same E.
  - eapply bind_dr; eassumption.
Qed.

Lemma reach_DN c steps h0 t0 l0 : DN (run c (init h0 t0 l0) steps).
Proof. apply run_inv; [intros; apply apply_dr; assumption|]. intros k b Hg. simpl in Hg. discriminate. Qed.

(** ** iterated slashing of one binding *)
Lemma dep_sum_ge (m : amap (Z * Z) binding) k b : (forall k0 b0, In (k0, b0) m -> 0 <= b_dep b0) -> In (k, b) m -> b_dep b <= dep_sum m.
Proof.
  unfold dep_sum. induction m as [|[k1 b1] m IH]; simpl; intros Hn Hin; [contradiction|].
  assert (H0 : 0 <= zsum (map (fun e : Z * Z * binding => b_dep (snd e)) m)).
  { clear -Hn. induction m as [|[k2 b2] m IH]; simpl; [lia|]. pose proof (Hn k2 b2 (or_intror (or_introl eq_refl))).
    assert (0 <= zsum (map (fun e : Z * Z * binding => b_dep (snd e)) m)); [|lia].
    apply IH. intros k0 b0 [E|H0]; [inversion E; subst; apply (Hn k0 b0); left; reflexivity|apply (Hn k0 b0); right; right; exact H0]. }
  destruct Hin as [E|Hin].
  - inversion E; subst. lia.
  - pose proof (Hn k1 b1 (or_introl eq_refl)). specialize (IH (fun k0 b0 H1 => Hn k0 b0 (or_intror H1)) Hin). lia.
Qed.

Lemma slash_binds_other c t svc prov k : k <> (svc, prov) -> get k (binds (slash c t svc prov)) = get k (binds t).
Proof.
  intros Hne. unfold slash. destruct (get (svc, prov) (binds t)) as [b|]; [|reflexivity].
  destruct (b_dep b <? _); [reflexivity|]. destruct (send _ _ _ _ _); [|reflexivity].
  cbv zeta. cbn [binds with_binds with_led]. apply get_set_other. exact Hne.
Qed.

Section Slashing.
  Variables (c : config) (h : Z) (k : Z * Z) (svcof : reqid -> Z).
  Hypothesis Hf : 0 <= c_slash c <= P18.

  (** the requests that will still slash binding [k] in this end-block *)
  Definition Ck (e : reqid * request) : Z :=
    if q_active (snd e) && (q_exp (snd e) =? h) && (svcof (fst e) =? fst k) && (q_prov (snd e) =? snd k) then 1 else 0.
  Definition Rk (t : state) : Z := msum Ck (reqs t).
  Definition SK (t : state) (D0 : Z) : Prop :=
    0 <= Rk t /\ exists bt, get k (binds t) = Some bt /\ iter_slash (Z.to_nat (Rk t)) (c_slash c) (b_dep bt) = D0.

  Lemma Ck_nonneg e : 0 <= Ck e.
  Proof. unfold Ck. destruct (_ && _ && _ && _); lia. Qed.

  Lemma expire_SK x t rid q D0 :
    get rid (reqs t) = Some q -> q_active q = true -> q_exp q = h -> svcof rid = x_svc x ->
    DepInv t -> DN t -> NoDup (keys (binds t)) -> SK t D0 -> SK (expire_request c x t (rid, q)) D0.
  Proof.
    intros Hq Hact Hexp Hsv Hd Hn Hkb (HR & bt & Hb & Hit).
    destruct (expire_struct c x t rid q) as (R & _ & _).
    assert (Bi : binds (expire_request c x t (rid, q)) = binds (slash c t (x_svc x) (q_prov q))).
    { unfold expire_request. destruct (send _ _ _ _ _); reflexivity. }
    assert (ER : Rk (expire_request c x t (rid, q)) = Rk t - Ck (rid, q)).
    { unfold Rk. rewrite R, msum_set, Hq. unfold Ck at 3. cbn [fst snd rq_active q_active]. cbn [andb]. lia. }
    assert (Rest : forall e, In e (reqs t) -> 0 <= Ck e) by (intros; apply Ck_nonneg).
    unfold SK. rewrite ER, Bi. unfold Ck at 1 2. cbn [fst snd]. rewrite Hact, Hexp, Z.eqb_refl, Hsv. cbn [andb].
    destruct (eq_dec (x_svc x, q_prov q) k) as [Ek|Ek].
    - (* this request slashes [k] *)
      rewrite <- Ek. cbn [fst snd]. rewrite !Z.eqb_refl. cbn [andb].
      assert (Hge : 1 <= Rk t).
      { pose proof (msum_ge_term_in Ck (reqs t) (rid, q) Rest (get_In _ _ _ Hq)) as G. unfold Ck in G at 1. cbn [fst snd] in G.
        rewrite Hact, Hexp, Z.eqb_refl, Hsv, <- Ek in G. cbn [fst snd] in G. rewrite !Z.eqb_refl in G. exact G. }
      split; [lia|]. rewrite <- Ek in Hb.
      assert (Hdb : b_dep bt <= bal (led t) DEP BASE).
      { rewrite (di_eq _ Hd). apply (dep_sum_ge (binds t) (x_svc x, q_prov q) bt); [intros k0 b0 Hin|apply get_In; exact Hb].
        exact (Hn k0 b0 (In_get_NoDup k0 b0 (binds t) Hkb Hin)). }
      destruct (slash_amount_lemma c t (x_svc x) (q_prov q) bt Hb (Hn _ _ Hb) Hf Hdb) as (_ & _ & _ & _ & (b' & Hb' & Hdep & _) & _).
      exists b'. split; [exact Hb'|]. rewrite Hdep.
      replace (Z.to_nat (Rk t)) with (S (Z.to_nat (Rk t - 1))) in Hit by (rewrite <- Z2Nat.inj_succ by lia; f_equal; lia).
      exact Hit.
    - replace ((x_svc x =? fst k) && (q_prov q =? snd k)) with false.
      2: { symmetry. apply andb_false_iff. destruct k as [k1 k2]. cbn [fst snd].
           destruct (Z.eqb_spec (x_svc x) k1); destruct (Z.eqb_spec (q_prov q) k2); try tauto. exfalso. apply Ek. congruence. }
      rewrite Z.sub_0_r. split; [exact HR|]. exists bt. split; [|exact Hit]. rewrite slash_binds_other by congruence. exact Hb.
  Qed.

  Lemma slash_kb t svc prov : NoDup (keys (binds t)) -> NoDup (keys (binds (slash c t svc prov))).
  Proof.
    intros H. unfold slash. destruct (get (svc, prov) (binds t)) as [b|]; [|exact H].
    destruct (b_dep b <? _); [exact H|]. destruct (send _ _ _ _ _); [|exact H]. cbv zeta. cbn [binds with_binds with_led]. apply keys_set_NoDup. exact H.
  Qed.

  Lemma expire_kb x t e : NoDup (keys (binds t)) -> NoDup (keys (binds (expire_request c x t e))).
  Proof.
    intros H. destruct e as [rid q]. unfold expire_request. pose proof (slash_kb t (x_svc x) (q_prov q) H) as H1.
    destruct (send _ _ _ _ _); exact H1.
  Qed.

  Lemma expire_fold_SK x D0 : forall act t,
    NoDup (map fst act) ->
    (forall e, In e act -> get (fst e) (reqs t) = Some (snd e) /\ q_active (snd e) = true /\ q_exp (snd e) = h /\ svcof (fst e) = x_svc x) ->
    0 <= x_cons x -> DepInv t -> DN t -> NoDup (keys (binds t)) -> SK t D0 ->
    SK (fold_left (expire_request c x) act t) D0.
  Proof.
    induction act as [|[rid q] act IH]; cbn [fold_left]; intros t Hnd Hall Hc Hd Hn Hkb Hs; [exact Hs|].
    cbn [map fst] in Hnd. inversion Hnd as [|? ? Hnn Hnd']; subst.
    destruct (Hall (rid, q) (or_introl eq_refl)) as (Hq & Hact & Hexp & Hsv). cbn [fst snd] in Hq, Hact, Hexp, Hsv.
    apply IH; [exact Hnd'| |exact Hc|exact (proj1 (DepInv_expire c x t (rid, q) Hc Hd))|apply expire_dr; exact Hn|apply expire_kb; exact Hkb|apply expire_SK; assumption].
    intros e Hin. destruct (Hall e (or_intror Hin)) as (Hq' & Hr'). split; [|exact Hr'].
    destruct (expire_struct c x t rid q) as (R & _ & _). rewrite R. rewrite get_set_other; [exact Hq'|].
    intros E. apply Hnn. rewrite <- E. apply in_map. exact Hin.
  Qed.

  Lemma callback_SK t id D0 : SK t D0 -> SK (callback t id) D0.
  Proof. unfold SK, Rk, callback. destruct (get id (ctxs t)); intros H; exact H. Qed.

  Lemma expired_handler_SK t id D0 :
    QInv t -> BatchInv t -> DepInv t -> DN t -> NoDup (keys (binds t)) -> LInv false t -> In (h, id) (expq t) ->
    (forall x, get id (ctxs t) = Some x -> forall rid, rid_ctx rid = id -> svcof rid = x_svc x) ->
    SK t D0 -> SK (expired_batch_handler c t id) D0.
  Proof.
    intros Hq Hb Hd Hn Hkb Hl Hin Hsv Hs. unfold expired_batch_handler. destruct (get id (ctxs t)) as [x|] eqn:Eg; [|exact Hs].
    assert (Hc : 0 <= x_cons x) by (eapply (di_ctx _ Hd); exact Eg).
    set (pr := if x_brun x then _ else (t, x)).
    assert (Epr : pr = exp_pr c t id x) by reflexivity.
    destruct (exp_pr_facts c t id x Hb Eg) as (K1 & _ & A1 & _ & _). rewrite <- Epr in K1, A1.
    assert (H1 : SK (fst pr) D0).
    { subst pr. destruct (x_brun x); [|exact Hs]. cbn [fst]. set (act := filter _ (reqs t)).
      assert (F : SK (fold_left (expire_request c x) act t) D0).
      { apply expire_fold_SK; try assumption.
        - subst act. apply (keys_filter_NoDup _ (reqs t)). exact (b_keys _ Hb).
        - intros [r q] Hi. subst act. apply filter_In in Hi. destruct Hi as (Hi & Hact). cbn [fst snd] in *.
          apply andb_true_iff in Hact. destruct Hact as (Hbt & Hact). rewrite in_batch_inb in Hbt. cbn [fst] in Hbt.
          pose proof (In_get_NoDup r q (reqs t) (b_keys _ Hb) Hi) as Hg.
          split; [exact Hg|]. split; [exact Hact|]. pose proof (inb_ctx _ _ _ Hbt) as Hid. split; [|exact (Hsv x eq_refl r Hid)].
          pose proof (l_exp _ _ Hl r q Hg Hact) as Hm. rewrite Hid, (q_exp_mark _ Hq _ _ Hin) in Hm. congruence. }
      destruct (x_mod x); [|exact F]. apply callback_SK. exact F. }
    destruct pr as [s1 x1]. cbn [fst snd] in H1, K1, A1. cbv zeta.
    match goal with |- SK (with_reqs ?t0 (filter ?f (reqs ?t0))) _ =>
      assert (Ht : binds t0 = binds s1 /\ reqs t0 = reqs s1) by (destruct (x_state x1 =? 2); destruct (x_state x1 =? 0); try destruct (x_rep x1 && _); split; reflexivity);
      set (tt := t0) in *; clearbody tt end.
    destruct Ht as (Bt & Rt). unfold SK, Rk in *. cbn [binds reqs with_reqs]. rewrite Bt, Rt.
    rewrite msum_filter_zero; [exact H1|].
    intros [rid q] Hi Hff. unfold Ck. cbn [fst snd]. destruct (q_active q) eqn:Ea; [|reflexivity]. exfalso.
    assert (Hg : get rid (reqs s1) = Some q) by (apply In_get_NoDup; assumption).
    destruct (A1 rid q Hg Ea) as (_ & Hne). apply Hne. apply negb_false_iff in Hff. rewrite in_batch_inb in Hff. exact (inb_ctx _ _ _ Hff).
  Qed.
End Slashing.

(** ** the service of a stored context does not change over the expiry phase *)
Lemma x_off_svc x : x_svc (x_off x) = x_svc x.
Proof. unfold x_off. destruct (x_brun x); reflexivity. Qed.

Lemma expired_handler_svc c t id id0 x' :
  get id0 (ctxs (expired_batch_handler c t id)) = Some x' -> exists x, get id0 (ctxs t) = Some x /\ x_svc x' = x_svc x.
Proof.
  intros Hg. pose proof (expired_handler_loc_own c t id) as Q. pose proof (expired_handler_loc_other c t id0 id) as O.
  unfold loc in Q, O. destruct (eq_dec id0 id) as [->|Hne].
  - unfold QE in Q. destruct (get id (ctxs t)) as [x|] eqn:Ex.
    + destruct Q as (_ & Q). rewrite Hg in Q. exists x. split; [reflexivity|].
      destruct (x_state x =? 2); [destruct Q; discriminate|]. destruct (x_state x =? 0); [destruct (belowb x)|]; destruct Q as (Q & _);
        try discriminate; inversion Q; subst; apply x_off_svc.
    + injection Q as Q1 _ _. rewrite Hg in Q1. discriminate.
  - assert (Hne' : id <> id0) by congruence. specialize (O Hne'). injection O as O1 _ _. rewrite Hg in O1. exists x'. split; [symmetry; exact O1|reflexivity].
Qed.

Definition svc_of (s : state) (rid : reqid) : Z :=
  match get (rid_ctx rid) (ctxs s) with Some x => x_svc x | None => -99 end.

Lemma msum_nonneg_all {K V} (f : K * V -> Z) (m : list (K * V)) : (forall e, 0 <= f e) -> 0 <= msum f m.
Proof. intros H. apply msum_nonneg_in. intros e _. apply H. Qed.

(** over one end-block a binding is slashed once per request of its (service, provider) expiring now *)
Lemma end_block_slash c s dt k b :
  GInv s -> LInv false s -> DN s -> KInv s -> 0 <= c_slash c <= P18 -> get k (binds s) = Some b ->
  exists b', get k (binds (end_block c s dt)) = Some b'
    /\ b_dep b' = iter_slash (Z.to_nat (Rk (height s) k (svc_of s) s)) (c_slash c) (b_dep b).
Proof.
  intros (Hq & Hb & Hd & Hp & He) Hl Hn Hk Hf Hg. set (h := height s).
  set (D0 := iter_slash (Z.to_nat (Rk h k (svc_of s) s)) (c_slash c) (b_dep b)).
  set (SS := fun t : state => forall id x, get id (ctxs t) = Some x -> exists x0, get id (ctxs s) = Some x0 /\ x_svc x = x_svc x0).
  assert (SSc : forall t id, SS t -> forall x, get id (ctxs t) = Some x -> forall rid, rid_ctx rid = id -> svc_of s rid = x_svc x).
  { intros t id Hss x Hgx rid Hr. unfold svc_of. rewrite Hr. destruct (Hss id x Hgx) as (x0 & G0 & E0). rewrite G0. congruence. }
  unfold end_block. cbv zeta. cbn [binds with_iidx with_time with_height].
  set (s1 := fold_left (expired_batch_handler c) _ s).
  assert (H1 : ((QInv s1 /\ BatchInv s1 /\ DepInv s1 /\ PInv s1 /\ EscInv s1) /\ LInv false s1) /\ height s1 = h /\ SS s1
               /\ DN s1 /\ KInv s1 /\ SK c h k (svc_of s) s1 D0).
  { subst s1.
    apply (fold_handlers (fun t => ((QInv t /\ BatchInv t /\ DepInv t /\ PInv t /\ EscInv t) /\ LInv false t) /\ height t = h /\ SS t
               /\ DN t /\ KInv t /\ SK c h k (svc_of s) t D0)
             (expired_batch_handler c) (fun t id => In (height t, id) (expq t))).
    - intros t id (((Tq & Tb & Td & Tp & Te) & Tl) & Th & Tss & Tn & Tk & Tsk) Hpre.
      destruct (QInv_expired_handler c t id Tq Hpre) as (A & B & C).
      destruct (LInv_expired_handler c t id Tq Tb Hpre Tl) as (L & _).
      split.
      + split; [split; [|exact L]|].
        * split; [exact A|]. split; [apply BatchInv_expired_handler; exact Tb|]. split; [apply DepInv_expired_handler; exact Td|].
          split; [apply PInv_expired_handler; exact Tp|apply EscInv_expired_handler; assumption].
        * split; [congruence|]. split; [|split; [apply expired_handler_dr; exact Tn|split; [apply expired_handler_kr; exact Tk|]]].
          -- intros id0 x' Hg'. destruct (expired_handler_svc c t id id0 x' Hg') as (x & Hgx & Ec). destruct (Tss id0 x Hgx) as (x0 & G0 & E0).
             exists x0. split; [exact G0|congruence].
          -- apply expired_handler_SK; try assumption; [exact (proj1 Tk)|rewrite <- Th; exact Hpre|exact (SSc t id Tss)].
      + intros id' Hne Hpp. rewrite B. apply C; assumption.
    - apply due_NoDup. exact (q_exp_nodup _ Hq).
    - split; [split; [exact (conj Hq (conj Hb (conj Hd (conj Hp He))))|exact Hl]|]. split; [reflexivity|]. split; [|split; [exact Hn|split; [exact Hk|]]].
      + intros id x Hgx. exists x. split; [exact Hgx|reflexivity].
      + split; [apply msum_nonneg_all; intros e; apply Ck_nonneg|]. exists b. split; [exact Hg|reflexivity].
    - intros id Hin. apply due_in in Hin. exact Hin. }
  destruct H1 as (((Q1 & B1 & _) & L1) & Hh1 & _ & _ & _ & (_ & bt & Hbt & Hit)).
  assert (Pm : forall id0, get id0 (expmark s1) <> Some (height s1)).
  { assert (F := LInv_phase1 c (due (height s) (expq s)) s (due_NoDup _ _ (q_exp_nodup _ Hq)) Hq Hb Hl).
    cbv zeta in F. fold s1 in F. apply F.
    - intros id Hin. apply due_in in Hin. exact Hin.
    - intros id0 E. apply due_in. exact (proj1 (l_mark _ _ Hl id0 _ E)). }
  assert (R0 : Rk h k (svc_of s) s1 = 0).
  { apply msum_zero. intros [rid q] Hin. unfold Ck. cbn [fst snd]. destruct (q_active q) eqn:Ea; [|reflexivity].
    pose proof (In_get_NoDup rid q (reqs s1) (b_keys _ B1) Hin) as Hgq.
    pose proof (l_exp _ _ L1 rid q Hgq Ea) as Hm.
    assert (q_exp q <> h) by (intros E; apply (Pm (rid_ctx rid)); rewrite Hm, E, Hh1; reflexivity).
    replace (q_exp q =? h) with false by (symmetry; apply Z.eqb_neq; assumption). reflexivity. }
  rewrite R0 in Hit. cbn [Z.to_nat iter_slash] in Hit.
  assert (B2 : binds (fold_left new_batch_handler (due (height s1) (newq s1)) s1) = binds s1).
  { apply (fold_left_inv (fun t => binds t = binds s1)); [|reflexivity]. intros t id Ht. rewrite new_handler_binds. exact Ht. }
  rewrite B2. exists bt. split; [exact Hbt|exact Hit].
Qed.

(** ** slashed deposits go to the tax account; nothing else touches the two accounts in an end-block *)
Definition TD (t t' : state) : Prop :=
  bal (led t') TAX BASE + bal (led t') DEP BASE = bal (led t) TAX BASE + bal (led t) DEP BASE
  /\ (forall d, d <> BASE -> bal (led t') TAX d = bal (led t) TAX d).
Lemma TD_refl t : TD t t.
Proof. split; [reflexivity|intros; reflexivity]. Qed.
Lemma TD_trans a b c0 : TD a b -> TD b c0 -> TD a c0.
Proof. intros (A1 & A2) (B1 & B2). split; [lia|]. intros d Hd. rewrite B2, A2 by exact Hd. reflexivity. Qed.
Lemma TD_led t t' : led t' = led t -> TD t t'.
Proof. intros E. unfold TD. rewrite E. split; [reflexivity|intros; reflexivity]. Qed.

Lemma slash_TD c t svc prov : TD t (slash c t svc prov).
Proof.
  unfold slash. destruct (get (svc, prov) (binds t)) as [b|]; [|apply TD_refl].
  destruct (b_dep b <? _); [apply TD_refl|]. destruct (send (led t) DEP TAX BASE _) as [l|] eqn:Es; [|apply TD_refl].
  cbv zeta. unfold TD. cbn [led with_binds with_led]. destruct (send_Some _ _ _ _ _ _ Es) as (_ & Hmv & _ & Ho).
  destruct Hmv as (A & B); [unfold DEP, TAX; lia|]. split; [lia|]. intros d Hd. apply Ho; intros E; inversion E; unfold DEP, TAX in *; try lia; congruence.
Qed.

Lemma expire_TD c x t e : 0 <= x_cons x -> TD t (expire_request c x t e).
Proof.
  intros Hc. destruct e as [rid q]. unfold expire_request. eapply TD_trans; [apply (slash_TD c t (x_svc x) (q_prov q))|].
  destruct (send (led _) REQ (x_cons x) (q_fd q) (q_fee q)) as [l|] eqn:Es; [|apply TD_led; reflexivity].
  unfold TD. cbn [led with_g_out with_reqs with_led]. destruct (send_Some _ _ _ _ _ _ Es) as (_ & _ & _ & Ho).
  rewrite !Ho by (intros E; inversion E; unfold REQ, TAX, DEP in *; lia). split; [reflexivity|]. intros d _. rewrite Ho; [reflexivity| |]; intros E; inversion E; unfold REQ, TAX in *; lia.
Qed.

Lemma callback_led t id : led (callback t id) = led t.
Proof. unfold callback. destruct (get id (ctxs t)); reflexivity. Qed.

Lemma expired_handler_TD c t id : DepInv t -> TD t (expired_batch_handler c t id).
Proof.
  intros Hd. unfold expired_batch_handler. destruct (get id (ctxs t)) as [x|] eqn:Eg; [|apply TD_refl].
  assert (Hc : 0 <= x_cons x) by (eapply (di_ctx _ Hd); exact Eg).
  set (pr := if x_brun x then _ else (t, x)).
  assert (H1 : TD t (fst pr)).
  { subst pr. destruct (x_brun x); [|apply TD_refl]. cbn [fst].
    assert (F : TD t (fold_left (expire_request c x) (filter (fun e => in_batch id (x_batch x) e && q_active (snd e)) (reqs t)) t)).
    { apply (fold_left_inv (fun t0 => TD t t0)); [|apply TD_refl]. intros t0 e Ht. eapply TD_trans; [exact Ht|apply expire_TD; exact Hc]. }
    destruct (x_mod x); [|exact F]. eapply TD_trans; [exact F|]. apply TD_led. apply callback_led. }
  destruct pr as [s1 x1]. cbn [fst] in H1. cbv zeta. eapply TD_trans; [exact H1|]. apply TD_led.
  destruct (x_state x1 =? 2); destruct (x_state x1 =? 0); try destruct (x_rep x1 && _); reflexivity.
Qed.

Lemma new_handler_TD t id : DepInv t -> TD t (new_batch_handler t id).
Proof.
  intros Hd. unfold new_batch_handler. destruct (get id (ctxs t)) as [x|] eqn:Eg; [|apply TD_refl].
  assert (Hc : 0 <= x_cons x) by (eapply (di_ctx _ Hd); exact Eg).
  destruct (x_state x =? 0); [|apply TD_led; reflexivity].
  destruct (filter_provs t x (x_provs x)) as [ps|]; [|apply TD_led; reflexivity].
  cbv zeta. destruct (_ && _); [|apply TD_led; reflexivity].
  destruct (debit_all (led t) (x_cons x) (total_fees t x ps)) as [l|] eqn:Ed; [|apply TD_led; unfold on_paused; destruct (x_mod x); reflexivity].
  unfold TD. change (led (dequeue_new (initiate (with_led t (credit_all l REQ (total_fees t x ps))) id x ps) id)) with (credit_all l REQ (total_fees t x ps)).
  destruct (debit_all_bal _ _ _ _ Ed) as (_ & D2). destruct (credit_all_bal (total_fees t x ps) l REQ) as (_ & C2).
  rewrite !C2 by (unfold TAX, DEP, REQ; lia). rewrite !D2 by (unfold TAX, DEP; lia). split; [reflexivity|].
  intros d _. rewrite C2 by (unfold TAX, REQ; lia). apply D2. unfold TAX; lia.
Qed.

Lemma end_block_TD c s dt : DepInv s -> TD s (end_block c s dt).
Proof.
  intros Hd. unfold end_block. cbv zeta.
  set (s1 := fold_left (expired_batch_handler c) _ s).
  assert (H1 : DepInv s1 /\ TD s s1).
  { subst s1. apply (fold_left_inv (fun t => DepInv t /\ TD s t)); [|split; [exact Hd|apply TD_refl]].
    intros t id (Td & Tt). split; [apply DepInv_expired_handler; exact Td|eapply TD_trans; [exact Tt|apply expired_handler_TD; exact Td]]. }
  set (s2 := fold_left new_batch_handler _ s1).
  assert (H2 : DepInv s2 /\ TD s s2).
  { subst s2. apply (fold_left_inv (fun t => DepInv t /\ TD s t)); [|exact H1].
    intros t id (Td & Tt). split; [apply DepInv_new_handler; exact Td|eapply TD_trans; [exact Tt|apply new_handler_TD; exact Td]]. }
  eapply TD_trans; [exact (proj2 H2)|apply TD_led; reflexivity].
Qed.

(** ** C07, clause 6 on the model's own observation of a step *)
Lemma len_filter_sumz {A} (g : A -> bool) (l : list A) : Z.of_nat (length (filter g l)) = sumz (fun e => if g e then 1 else 0) l.
Proof. unfold sumz. induction l as [|e l IH]; simpl; [reflexivity|]. destruct (g e); simpl length; rewrite ?Nat2Z.inj_succ, IH; lia. Qed.

Lemma c07_clause6_obs univ c s st pc pn pb :
  GInv s -> LInv false s -> (forall rid, has rid (reqs s) = true -> rid_h rid < height s) -> DN s -> KInv s ->
  0 <= c_slash c <= P18 -> good_step st -> In (TAX, BASE) univ -> In (DEP, BASE) univ ->
  holds_C07 c (obs_of univ pc pn pb s) st (obs_step univ c s st) <> 6.
Proof.
  intros HG Hl Hold Hn Hk Hf Hgood Hut Hud E. pose proof HG as (Hq & Hb & Hd & Hp & He).
  apply first_fail_in in E; [|lia]. unfold holds_C07 in E; cbv zeta in E.
  do 5 (split_seg E; [not_here E|]). split_seg E; [|not_here E].
  destruct st as [|dt| | | | | | |]; try contradiction E. cbn [is_endblock] in E. simpl in Hgood.
  assert (Es' : apply c s (EndBlock dt) = end_block c s dt).
  { rewrite apply_endblock. destruct (0 <=? dt) eqn:Ed; [reflexivity|apply Z.leb_gt in Ed; lia]. }
  unfold obs_step in E. rewrite Es' in E. set (s' := end_block c s dt) in *.
  destruct (end_block_reqs c s dt Hq Hb Hl Hold) as (R1 & _ & R3 & _). cbv zeta in R1, R3. fold s' in R1, R3.
  destruct (end_block_TD c s dt Hd) as (T1 & T2). fold s' in T1, T2.
  pose proof (fun k b => end_block_slash c s dt k b HG Hl Hn Hk Hf) as Slash. fold s' in Slash. clearbody s'.
  split_seg E.
  { (* every binding *)
    apply in_map_iff in E. destruct E as ([k bt] & E & Hin). injection E as E.
    cbn [obs_of o_binds] in Hin. apply in_map_iff in Hin. destruct Hin as ([k0 b] & Eb & Hin). injection Eb as -> <-.
    pose proof (In_get_NoDup k b (binds s) (proj1 Hk) Hin) as Hg.
    destruct (Slash k b Hg) as (b' & Hg' & Hdep).
    cbn [fst snd obs_of o_binds] in E. rewrite (get_map_val bind_tuple), Hg' in E. cbn [option_map bind_tuple b_dep_t] in E.
    assert (En : Z.of_nat (length (filter (fun x : reqid * req_t => (req_svc (obs_of univ pc pn pb s) (fst x) =? fst k) && (r_prov (snd x) =? snd k))
                 (expired_in (obs_of univ pc pn pb s) (obs_of univ (res_code (exec_step c s (EndBlock dt))) (step_newctx s (EndBlock dt) (exec_step c s (EndBlock dt)))
                    (skipn (length (cblog s)) (cblog s')) s')))) = Rk (height s) k (svc_of s) s).
    { rewrite len_filter_sumz. unfold expired_in. cbn [obs_of o_reqs]. rewrite sumz_filter, sumz_map. unfold Rk. apply sumz_ext.
      intros [rid q] Hi. cbn [fst snd]. pose proof (In_get_NoDup rid q (reqs s) (b_keys _ Hb) Hi) as Hgq.
      unfold Ck. cbn [fst snd req_tuple r_active r_prov].
      assert (Ec : req_svc (obs_of univ pc pn pb s) rid = svc_of s rid).
      { unfold req_svc, svc_of. cbn [obs_of o_ctxs]. rewrite (get_map_val ctx_tuple). change (Check.rid_ctx rid) with (rid_ctx rid).
        destruct (get (rid_ctx rid) (ctxs s)); reflexivity. }
      rewrite Ec, (get_map_val req_tuple). specialize (R1 rid q Hgq).
      destruct (q_active q) eqn:Ea; [|reflexivity]. cbn [andb].
      destruct (get rid (reqs s')) as [q'|] eqn:Eg'; cbn [option_map].
      - subst q'. cbn [req_tuple r_active]. rewrite Ea. cbn [negb andb].
        pose proof (R3 rid q Eg' Ea) as Hlt. replace (q_exp q =? height s) with false by (symmetry; apply Z.eqb_neq; lia). reflexivity.
      - destruct R1 as [R1|R1]; [congruence|]. rewrite R1, Z.eqb_refl. reflexivity. }
    rewrite <- En, Nat2Z.id in Hdep. rewrite Hdep, Z.eqb_refl in E. discriminate E. }
  split_seg E.
  { destruct E as [E|[]]. injection E as E. rewrite !obal_obs_of in E by assumption.
    rewrite (proj2 (Z.eqb_eq _ _)) in E by lia. discriminate E. }
  apply in_map_iff in E. destruct E as (d & E & _). injection E as E.
  destruct (Z.eqb_spec d BASE) as [Ed|Ed]; [discriminate E|]. cbn [orb] in E.
  rewrite !obal_obs_of_any in E. destruct (existsb (eqb (TAX, d)) univ); [rewrite (T2 d Ed), Z.eqb_refl in E|]; discriminate E.
Qed.

(** ** the whole of [holds_C07] on the model's own trace *)
Ltac code_of E :=
  repeat match type of E with
  | In _ [] => contradiction E
  | In _ (_ :: _) => destruct E as [E|E]; [inversion E; lia|]
  | In _ (_ ++ _) => apply in_app_or in E; destruct E as [E|E]
  | In _ (if ?b then _ else _) => destruct b
  | In _ (match ?x with _ => _ end) => destruct x
  | In _ (flat_map _ _) => let a := fresh "a" in apply in_flat_map in E; destruct E as (a & _ & E)
  | In _ (map _ _) =>
      let x0 := fresh "x0" in let Hin := fresh "Hin" in
      apply in_map_iff in E; destruct E as (x0 & E & Hin); try (destruct x0 as [? ?]); inversion E; lia
  end.

Lemma holds_C07_range c p st o : holds_C07 c p st o = 0 \/ 1 <= holds_C07 c p st o <= 6.
Proof.
  destruct (Z.eq_dec (holds_C07 c p st o) 0) as [E0|E0]; [left; exact E0|right].
  remember (holds_C07 c p st o) as k eqn:Ek. symmetry in Ek. pose proof (first_fail_in _ k Ek E0) as E. clear Ek.
  code_of E. all: cbv zeta in E; code_of E.
Qed.

Lemma check_from_quiet7 univ c : forall rest s,
  (forall pre st post, rest = pre ++ st :: post ->
     forall pc pn pb, holds_C07 c (obs_of univ pc pn pb (run c s pre)) st (obs_step univ c (run c s pre) st) = 0) ->
  forall pc pn pb seen fired tr sc i corr p7 c7 p8 c8,
    let '(_, p7', c7', _, _) :=
      check_from c s (obs_of univ pc pn pb s) seen fired tr sc (model_trace univ c s rest) i corr p7 c7 p8 c8 in
    p7' = p7 /\ c7' = c7.
Proof.
  induction rest as [|st r IH]; intros s H pc pn pb seen fired tr sc i corr p7 c7 p8 c8.
  - cbn [model_trace check_from]. split; reflexivity.
  - cbn [model_trace]. rewrite check_from_cons.
    pose proof (H [] st r eq_refl pc pn pb) as K0. cbn [run] in K0. rewrite K0. cbn [Z.eqb negb]. rewrite andb_false_r.
    assert (H' : forall pre st0 post, r = pre ++ st0 :: post ->
              forall pc pn pb, holds_C07 c (obs_of univ pc pn pb (run c (apply c s st) pre)) st0 (obs_step univ c (run c (apply c s st) pre) st0) = 0).
    { intros pre st0 post E. exact (H (st :: pre) st0 post (f_equal (cons st) E)). }
    exact (IH (apply c s st) H' (res_code (exec_step c s st)) (step_newctx s st (exec_step c s st)) (skipn (length (cblog s)) (cblog (apply c s st)))
             _ _ _ _ _ _ p7 c7 _ _).
Qed.

Theorem model_passes_check_C07_lemma :
  forall c steps h0 t0 l0 univ,
    c_msvc c < 0 -> 0 <= c_tax c -> 0 <= c_slash c <= P18 -> clean l0 -> NoDup (create_txhs steps) -> Forall good_step steps ->
    In (DEP, BASE) univ -> In (TAX, BASE) univ -> (forall d, In d (denoms c) -> In (REQ, d) univ) ->
    (forall pre st post, steps = pre ++ st :: post -> forall rid q, get rid (reqs (run c (init h0 t0 l0) pre)) = Some q ->
       In (TAX, q_fd q) univ /\ In (REQ, q_fd q) univ) ->
    (forall a d, (exists d', In (a, d') univ) -> In d (denoms c) -> In (a, d) univ) ->
    ledger_of (obs_of univ 0 None [] (init h0 t0 l0)) = l0 ->
    check_case_C07 (model_case univ c h0 t0 l0 steps) = (-1, -1, 0).
Proof.
  intros c steps h0 t0 l0 univ Hm Htax Hsl Hcl Hnd Hgood Hu1 Hut Hu2 Hu5 Hprod Hl.
  pose proof (model_step_ok c steps h0 t0 l0 univ Hm Htax Hcl Hnd Hgood Hu1 Hu2 Hu5) as H.
  assert (Z7 : forall pre st post, steps = pre ++ st :: post ->
            forall pc pn pb, holds_C07 c (obs_of univ pc pn pb (run c (init h0 t0 l0) pre)) st (obs_step univ c (run c (init h0 t0 l0) pre) st) = 0).
  { intros pre st post E pc pn pb. destruct (H pre st post E pc pn pb [] [] []) as ((K1 & K2 & K3 & K5) & _).
    pose proof (model_passes_C07_clause_4_lemma c steps h0 t0 l0 univ Hm Hcl Hnd Hgood Hprod pre st post E pc pn pb) as K4. cbv zeta in K4.
    assert (K6 : holds_C07 c (obs_of univ pc pn pb (run c (init h0 t0 l0) pre)) st (obs_step univ c (run c (init h0 t0 l0) pre) st) <> 6).
    { assert (Hnd1 : NoDup (create_txhs (pre ++ [st]))).
      { rewrite E in Hnd. replace (pre ++ st :: post) with ((pre ++ [st]) ++ post) in Hnd by (rewrite <- app_assoc; reflexivity).
        rewrite create_txhs_app in Hnd. exact (NoDup_app_l _ _ Hnd). }
      assert (Hnd0 : NoDup (create_txhs pre)) by (rewrite create_txhs_app in Hnd1; exact (NoDup_app_l _ _ Hnd1)).
      assert (Hg0 : Forall good_step pre /\ good_step st).
      { rewrite E in Hgood. apply Forall_app in Hgood. destruct Hgood as (A & B). inversion B; subst. split; assumption. }
      pose proof (reach_G c pre h0 t0 l0 Hcl Hnd0) as HG.
      assert (J0 : J1 (init h0 t0 l0) []).
      { split; [split; [apply SInv_init|apply LInv_init]|]. split; [intros rid Hx; discriminate Hx|intros rid []]. }
      destruct (reach_J1 univ c Hm pre (init h0 t0 l0) [] (fresh_history_from_distinct_hashes_lemma c pre h0 t0 l0 Hnd0) (proj1 Hg0) J0) as ((_ & Hll) & Hold & _).
      apply c07_clause6_obs; try assumption; [apply reach_DN| |exact (proj2 Hg0)].
      apply reach_KI. unfold KInv. simpl. repeat split; constructor. }
    destruct (holds_C07_range c (obs_of univ pc pn pb (run c (init h0 t0 l0) pre)) st (obs_step univ c (run c (init h0 t0 l0) pre) st)) as [Z|R]; [exact Z|lia]. }
  destruct (model_corresponds_to_itself_lemma c steps h0 t0 l0 univ Hnd Hl) as (C7 & _). cbv zeta in C7.
  assert (E : check_all (model_case univ c h0 t0 l0 steps) = check_from c (init h0 t0 l0) (obs_of univ 0 None [] (init h0 t0 l0)) [] [] [] [] (model_trace univ c (init h0 t0 l0) steps) 1
                (if corr_state (init h0 t0 l0) (obs_of univ 0 None [] (init h0 t0 l0)) then -1 else 0) (-1) 0 (-1) 0).
  { unfold check_all, model_case. rewrite Hl. reflexivity. }
  pose proof (check_from_quiet7 univ c steps (init h0 t0 l0) Z7 0 None [] [] [] [] [] 1
                (if corr_state (init h0 t0 l0) (obs_of univ 0 None [] (init h0 t0 l0)) then -1 else 0) (-1) 0 (-1) 0) as G.
  unfold check_case_C07 in C7 |- *. rewrite E in C7 |- *.
  destruct (check_from _ _ _ _ _ _ _ _ _ _ _ _ _ _) as [[[[r1 r2] r3] r4] r5]. destruct G as (-> & ->).
  rewrite (C7 r1 (-1) 0 eq_refl). reflexivity.
Qed.
