(** * Service: the model passes its own checks — clause by clause.

    [obs_of] projects a model state onto what the driver observes (the same tuples, in the model's
    own order).  For every history (context-creating transactions with distinct hashes, escrows
    empty at the start) the boolean clauses of [holds_C07] / [holds_C08] named below, evaluated on
    the projection of the state reached, are all true: the checker never reports these clauses on
    the model's own observations.  What is covered and what is not is said at each theorem. *)
From Irismod Require Import Service.Model Service.Check Service.Proofs Service.ProofsHist Service.ProofsEscrow Service.ProofsSched
  Service.ProofsBatch Service.ProofsLiab Service.ProofsTally Service.ProofsLive Service.ProofsModule Service.ProofsFresh
  Service.ProofsCallback Service.ProofsSchedule Service.ProofsModuleHist Service.ProofsOutcome.

(** ** the projection *)
Definition obs_of (univ : list (Z * Z)) (code : Z) (newctx : option ctxid) (cb : list cbev) (s : state) : obs :=
  mkObs code newctx (height s) (time s)
    (map (fun k => (k, bal (led s) (fst k) (snd k))) univ)
    (map (fun e => (fst e, bind_tuple (snd e))) (binds s))
    (map (fun e => (fst e, ctx_tuple (snd e))) (ctxs s))
    (map (fun e => (fst e, req_tuple (snd e))) (reqs s))
    (vols s) (earned s) (oearned s) (newq s) (newmark s) (expq s) (expmark s) cb.

(** what the driver prints after executing [st] from [s] *)
Definition obs_step (univ : list (Z * Z)) (c : config) (s : state) (st : step) : obs :=
  let r := exec_step c s st in
  let s' := apply c s st in
  obs_of univ (res_code r) (step_newctx s st r) (skipn (length (cblog s)) (cblog s')) s'.

(** the case the driver would print for the model itself *)
Fixpoint model_trace (univ : list (Z * Z)) (c : config) (s : state) (steps : list step) : list (step * ob) :=
  match steps with
  | [] => []
  | st :: r => (st, Full (obs_step univ c s st)) :: model_trace univ c (apply c s st) r
  end.
Definition model_case (univ : list (Z * Z)) (c : config) (h0 t0 : Z) (l0 : ledger) (steps : list step) : case :=
  (c, obs_of univ 0 None [] (init h0 t0 l0), model_trace univ c (init h0 t0 l0) steps).

(** ** splitting the clause lists *)
Ltac not_here E :=
  repeat match type of E with
  | In _ [] => contradiction E
  | In _ (_ :: _) => destruct E as [E|E]; [try discriminate E|]
  | In _ (_ ++ _) => apply in_app_or in E; destruct E as [E|E]
  | In _ (if ?b then _ else _) => destruct b
  | In _ (match ?x with _ => _ end) => destruct x
  | In _ (flat_map _ _) => let a := fresh "a" in apply in_flat_map in E; destruct E as (a & _ & E)
  | In _ (map _ _) =>
      let x0 := fresh "x0" in let Hin := fresh "Hin" in
      apply in_map_iff in E; destruct E as (x0 & E & Hin); try (destruct x0 as [? ?]); discriminate E
  end.

Ltac split_seg E := apply in_app_or in E; destruct E as [E|E].

(** ** list lemmas *)
Lemma first_fail_in l k : first_fail l = k -> k <> 0 -> In (false, k) l.
Proof.
  unfold first_fail. induction l as [|[b j] l IH]; simpl; intros E Hk; [congruence|].
  destruct b; simpl in E; [right; apply IH; assumption|]. left. congruence.
Qed.

Lemma get_map_val {K V T} `{EqDec K} (f : V -> T) (k : K) (m : amap K V) :
  get k (map (fun e => (fst e, f (snd e))) m) = option_map f (get k m).
Proof. induction m as [|[k0 v0] m IH]; simpl; [reflexivity|]. destruct (eq_dec k k0); [reflexivity|exact IH]. Qed.

Lemma getz_univ (f : Z * Z -> Z) (k : Z * Z) (univ : list (Z * Z)) :
  In k univ -> getz k (map (fun k => (k, f k)) univ) = f k.
Proof.
  unfold getz. induction univ as [|k0 u IH]; simpl; intros Hin; [contradiction|].
  destruct (eq_dec k k0) as [->|Hne]; [reflexivity|]. destruct Hin as [->|Hin]; [congruence|]. apply IH. exact Hin.
Qed.

Lemma obal_obs_of univ code nc cb s a d : In (a, d) univ -> obal (obs_of univ code nc cb s) a d = bal (led s) a d.
Proof. intros Hin. unfold obal, obs_of. cbn [o_bals]. apply (getz_univ (fun k => bal (led s) (fst k) (snd k)) (a, d) univ Hin). Qed.

Lemma sumz_map {A B} (f : B -> Z) (g : A -> B) (l : list A) : sumz f (map g l) = sumz (fun a => f (g a)) l.
Proof. unfold sumz. rewrite map_map. reflexivity. Qed.

Lemma sumz_ext {A} (f g : A -> Z) (l : list A) : (forall a, In a l -> f a = g a) -> sumz f l = sumz g l.
Proof. unfold sumz. intros E. f_equal. apply map_ext_in. exact E. Qed.

(** ** reachable states satisfy all the state invariants *)
Definition clean (l0 : ledger) : Prop := (forall d, bal l0 REQ d = 0) /\ bal l0 DEP BASE = 0.

Lemma reach_G c steps h0 t0 l0 : clean l0 -> NoDup (create_txhs steps) -> GInv (run c (init h0 t0 l0) steps).
Proof.
  intros (Hr & Hd) Hnd.
  pose proof (fresh_history_from_distinct_hashes_lemma c steps h0 t0 l0 Hnd) as Hf.
  apply (run_inv_fresh GInv c); [intros; apply GInv_apply_m; assumption|exact Hf|apply GInv_init; assumption].
Qed.

(** ** C07, clauses 1 and 2 *)
Lemma c07_clause1 univ code nc cb s : In (DEP, BASE) univ -> DepInv s ->
  let o := obs_of univ code nc cb s in
  (obal o DEP BASE =? sumz (fun e => b_dep_t (snd e)) (o_binds o)) = true.
Proof.
  intros Hin Hd o. subst o. rewrite obal_obs_of by exact Hin. cbn [obs_of o_binds]. rewrite sumz_map.
  apply Z.eqb_eq. cbn [snd bind_tuple b_dep_t]. exact (di_eq _ Hd).
Qed.

Lemma c07_clause2 univ code nc cb s d : In (REQ, d) univ -> EscEq s ->
  let o := obs_of univ code nc cb s in
  (obal o REQ d =? sumz (fun e => if r_active (snd e) && (r_fd (snd e) =? d) then r_fee (snd e) else 0) (o_reqs o)
                   + sumz (fun e => if snd (fst e) =? d then snd e else 0) (o_earned o)) = true.
Proof.
  intros Hin He o. subst o. rewrite obal_obs_of by exact Hin. cbn [obs_of o_reqs o_earned]. rewrite sumz_map.
  apply Z.eqb_eq. rewrite (He d). unfold liab, msum, sumz, act_fee, earn_in. reflexivity.
Qed.

(** ** the stored contexts have distinct ids (a map, not a list, in the store) *)
Definition kc (s s' : state) : Prop := NoDup (keys (ctxs s)) -> NoDup (keys (ctxs s')).

Lemma kc_refl s : kc s s.
Proof. intros H. exact H. Qed.
Lemma kc_same s s' : ctxs s' = ctxs s -> kc s s'.
Proof. intros E H. rewrite E. exact H. Qed.
Lemma kc_trans s1 s2 s3 : kc s1 s2 -> kc s2 s3 -> kc s1 s3.
Proof. intros A B H. apply B, A, H. Qed.
Lemma kc_set s id x' t : ctxs t = set id x' (ctxs s) -> kc s t.
Proof. intros E H. rewrite E. apply keys_set_NoDup. exact H. Qed.

Lemma keys_del_NoDup {K V} `{EqDec K} (k : K) (m : amap K V) : NoDup (keys m) -> NoDup (keys (del k m)).
Proof.
  induction m as [|[k0 v0] m IH]; simpl; intros Hnd; [constructor|]. inversion Hnd as [|? ? Hn Hnd']; subst.
  destruct (eq_dec k k0); [apply IH; exact Hnd'|]. simpl. constructor; [|apply IH; exact Hnd'].
  intros Hin. apply Hn. clear -Hin. induction m as [|[k1 v1] m IH]; simpl in *; [exact Hin|].
  destruct (eq_dec k k1); [right; apply IH; exact Hin|]. simpl in Hin. destruct Hin as [->|Hin]; [left; reflexivity|right; apply IH; exact Hin].
Qed.

Ltac kc_frame H :=
  repeat dmn H; inversion H; subst; clear H;
  first [apply kc_same; reflexivity | eapply kc_set; reflexivity].

Lemma create_context_kc c s txh svc provs cons inok capd capa timeout rep freq total st thr md s' id :
  create_context c s txh svc provs cons inok capd capa timeout rep freq total st thr md = Some (s', id) -> kc s s'.
Proof.
  intros H. destruct (create_context_shape _ _ _ _ _ _ _ _ _ _ _ _ _ _ _ _ _ _ H) as (_ & _ & _ & _ & _ & x & C & _).
  eapply kc_set. exact C.
Qed.

Lemma respond_kc c s rid prov kind s' : respond c s rid prov kind = Okk s' -> kc s s'.
Proof.
  intros H. destruct (respond_shape _ _ _ _ _ _ H) as (q & x & q' & x' & _ & _ & _ & _ & _ & _ & _ & C & _).
  eapply kc_set. exact C.
Qed.

Lemma exec_msg_plain_kc c s txh m s' : exec_msg_plain c s txh m = Okk s' -> kc s s'.
Proof.
  intros H. destruct m; simpl in H.
  - unfold define in H. kc_frame H.
  - unfold bind in H. kc_frame H.
  - unfold update_binding in H. kc_frame H.
  - unfold set_withdraw in H. kc_frame H.
  - unfold enable in H. kc_frame H.
  - unfold disable in H. kc_frame H.
  - unfold refund_deposit in H. kc_frame H.
  - unfold call in H. destruct (negb _); [discriminate|].
    destruct (create_context _ _ _ _ _ _ _ _ _ _ _ _ _ _ _ _) as [[s1 id]|] eqn:E; [|discriminate].
    inversion H; subst. eapply create_context_kc. exact E.
  - eapply respond_kc. exact H.
  - unfold msg_ctl, k_pause in H. kc_frame H.
  - unfold msg_ctl, k_start in H. kc_frame H.
  - unfold msg_ctl, k_kill in H. kc_frame H.
  - unfold update_context in H. kc_frame H.
  - unfold withdraw in H. kc_frame H.
Qed.

Lemma call_module_kc c s txh svc provs cons inok capd capa timeout rep freq total s' :
  call_module c s txh svc provs cons inok capd capa timeout rep freq total = Okk s' -> kc s s'.
Proof.
  unfold call_module. intros H. destruct (negb _); [discriminate|].
  destruct (create_context c s txh svc [c_mprov c] cons inok capd capa 1 false 0 0 0 0 false) as [[s1 id]|] eqn:E1; [|discriminate].
  pose proof (create_context_kc _ _ _ _ _ _ _ _ _ _ _ _ _ _ _ _ _ _ E1) as I1.
  destruct (get id (ctxs s1)) as [x|] eqn:Ex; [|discriminate].
  destruct (filter_provs s1 x (x_provs x)) as [[|p0 ps]|]; try discriminate.
  destruct (debit_all (led s1) (x_cons x) (total_fees s1 x [c_mprov c])) as [l|]; [|discriminate].
  set (s2 := initiate_ms (with_led s1 (credit_all l REQ (total_fees s1 x [c_mprov c]))) id x [c_mprov c]) in *.
  assert (I2 : kc s1 s2) by (eapply (kc_set s1 id); reflexivity).
  destruct (respond c s2 (id, x_batch x + 1, height s, 0) (c_mprov c) 1) as [s3| |] eqn:Er; try discriminate.
  pose proof (respond_kc _ _ _ _ _ _ Er) as I3. cbv beta iota in H. injection H as <-.
  eapply kc_trans; [exact I1|]. eapply kc_trans; [exact I2|]. eapply kc_trans; [exact I3|].
  eapply (kc_set s3 id); reflexivity.
Qed.

Lemma exec_msg_kc c s txh m s' : exec_msg c s txh m = Okk s' -> kc s s'.
Proof.
  intros H. destruct m; cbn [exec_msg] in H; try (eapply exec_msg_plain_kc; eassumption).
  - destruct (module_served c svc); [discriminate|].
    eapply (exec_msg_plain_kc c s txh (MBind svc prov depd depa pr qos optok owner)); exact H.
  - destruct (module_served c svc); [eapply call_module_kc; exact H|].
    eapply (exec_msg_plain_kc c s txh (MCall svc provs cons inok capd capa timeout rep freq total)); exact H.
Qed.

Lemma expired_handler_kc c s id : kc s (expired_batch_handler c s id).
Proof.
  unfold expired_batch_handler. destruct (get id (ctxs s)) as [x|] eqn:Eg; [|apply kc_refl].
  set (pr := if x_brun x then _ else (s, x)).
  assert (C : ctxs (fst pr) = ctxs s).
  { subst pr. destruct (x_brun x); [|reflexivity]. simpl.
    destruct (expire_fold_qsame c x (filter (fun e => in_batch id (x_batch x) e && q_active (snd e)) (reqs s)) s) as (C & _).
    destruct (x_mod x); [|exact C]. destruct (callback_qsame (fold_left (expire_request c x) (filter (fun e => in_batch id (x_batch x) e && q_active (snd e)) (reqs s)) s) id) as (C2 & _). congruence. }
  destruct pr as [s1 x1]. simpl in C. cbv zeta. intros H.
  destruct (x_state x1 =? 2); destruct (x_state x1 =? 0); try destruct (x_rep x1 && _); simpl; rewrite ?C;
    repeat first [apply keys_del_NoDup | apply keys_set_NoDup]; exact H.
Qed.

Lemma new_handler_kc s id : kc s (new_batch_handler s id).
Proof.
  unfold new_batch_handler. destruct (get id (ctxs s)) as [x|] eqn:Eg; [|apply kc_refl].
  destruct (x_state x =? 0); [|apply kc_same; reflexivity].
  destruct (filter_provs s x (x_provs x)) as [ps|]; [|eapply kc_set; reflexivity].
  cbv zeta. destruct (_ && _); [|eapply kc_set; reflexivity].
  destruct (debit_all _ _ _); [eapply kc_set; reflexivity|].
  unfold on_paused. destruct (x_mod x); (eapply kc_set; reflexivity).
Qed.

Lemma apply_kc c s st : kc s (apply c s st).
Proof.
  unfold apply. destruct (exec_step c s st) as [s'| |] eqn:E; try apply kc_refl.
  destruct st; cbn [exec_step] in E.
  - eapply exec_msg_kc. exact E.
  - destruct (0 <=? dt); [|discriminate]. inversion E; subst. unfold end_block. cbv zeta.
    set (s1 := fold_left (expired_batch_handler c) _ s).
    assert (H1 : kc s s1).
    { subst s1. apply (fold_left_inv (fun t => kc s t)); [|apply kc_refl].
      intros t id Ht. eapply kc_trans; [exact Ht|apply expired_handler_kc]. }
    set (s2 := fold_left new_batch_handler _ s1).
    assert (H2 : kc s s2).
    { subst s2. apply (fold_left_inv (fun t => kc s t)); [|exact H1].
      intros t id Ht. eapply kc_trans; [exact Ht|apply new_handler_kc]. }
    eapply kc_trans; [exact H2|apply kc_same; reflexivity].
  - inversion E; subst. apply kc_same. reflexivity.
  - kc_frame E.
  - destruct (create_context _ _ _ _ _ _ _ _ _ _ _ _ _ _ _ _) as [[s1 id]|] eqn:E1; [|discriminate].
    inversion E; subst. eapply create_context_kc. exact E1.
  - unfold k_pause in E. kc_frame E.
  - unfold k_start in E. kc_frame E.
  - unfold k_kill in E. kc_frame E.
  - unfold bind in E. kc_frame E.
Qed.

Lemma reach_kc c steps : forall s, NoDup (keys (ctxs s)) -> NoDup (keys (ctxs (run c s steps))).
Proof. induction steps as [|st r IH]; intros s H; [exact H|]. cbn [run]. apply IH. apply apply_kc. exact H. Qed.

(** ** the owner recorded on every binding of a provider is the provider's owner, and only
    bound providers have an owner *)
Record WInv (s : state) : Prop := {
  w_own : forall k b, In (k, b) (binds s) -> get (snd k) (owners s) = Some (b_owner b);
  w_has : forall p, has p (owners s) = true -> exists svc, has (svc, p) (binds s) = true
}.
Definition wr (s s' : state) : Prop := WInv s -> WInv s'.

Lemma wr_refl s : wr s s.
Proof. intros H. exact H. Qed.
Lemma wr_trans s1 s2 s3 : wr s1 s2 -> wr s2 s3 -> wr s1 s3.
Proof. intros A B H. apply B, A, H. Qed.
Lemma wr_same s s' : binds s' = binds s -> owners s' = owners s -> wr s s'.
Proof. intros A B [I1 I2]. constructor; rewrite ?A, ?B; assumption. Qed.
Lemma wr_set s s' k b0 b' :
  owners s' = owners s -> get k (binds s) = Some b0 -> b_owner b' = b_owner b0 -> binds s' = set k b' (binds s) -> wr s s'.
Proof.
  intros A Hg Ho B [I1 I2]. constructor; rewrite ?A, ?B.
  - intros k1 b1 Hin. apply in_set in Hin. destruct Hin as [E|Hin]; [|apply I1; exact Hin].
    inversion E; subst. rewrite Ho. apply I1. apply get_In. exact Hg.
  - intros p0 Hh. destruct (I2 p0 Hh) as (svc & Hs). exists svc. apply has_set_mono. exact Hs.
Qed.

Lemma WInv_bind c s svc prov depd depa pr qos optok owner s' :
  bind c s svc prov depd depa pr qos optok owner = Okk s' -> wr s s'.
Proof.
  intros H [I1 I2]. unfold bind in H. destruct pr as [[[pd pa] pt] pv].
  destruct (negb _); [discriminate|]. destruct (negb _); [discriminate|].
  destruct (has (svc, prov) (binds s)) eqn:Ehb; [discriminate|].
  destruct (get prov (owners s)) as [o|] eqn:Eo.
  - destruct (negb (o =? owner)) eqn:Eoo; [discriminate|]. apply negb_false_iff, Z.eqb_eq in Eoo. subst o.
    repeat match type of H with (if ?g then Rejj else _) = _ => destruct g; [discriminate|] end.
    destruct (min_deposit c s pd pa) as [m|]; [|discriminate]. destruct (depa <? m); [discriminate|].
    destruct (send (led s) owner DEP BASE depa) as [l|]; [|discriminate]. inversion H; subst s'; clear H.
    constructor; cbn [owners binds with_binds with_led].
    + intros k b Hin. apply in_set in Hin. destruct Hin as [E|Hin]; [|apply I1; exact Hin]. inversion E; subst. exact Eo.
    + intros p0 Hh. destruct (I2 p0 Hh) as (svc0 & Hs). exists svc0. apply has_set_mono. exact Hs.
  - repeat match type of H with (if ?g then Rejj else _) = _ => destruct g; [discriminate|] end.
    destruct (min_deposit c s pd pa) as [m|]; [|discriminate]. destruct (depa <? m); [discriminate|].
    destruct (send (led s) owner DEP BASE depa) as [l|]; [|discriminate]. inversion H; subst s'; clear H.
    constructor; cbn [owners binds with_binds with_led with_owners].
    + intros k b Hin. apply in_set in Hin. destruct Hin as [E|Hin].
      * inversion E; subst. cbn [snd b_owner]. apply get_set_same.
      * pose proof (I1 k b Hin) as Hk. rewrite get_set_other; [exact Hk|]. intros Ek. rewrite Ek, Eo in Hk. discriminate.
    + intros p0 Hh. destruct (eq_dec p0 prov) as [->|Hne]; [exists svc; apply has_set_same|].
      rewrite has_set_other in Hh by exact Hne. destruct (I2 p0 Hh) as (svc0 & Hs). exists svc0. apply has_set_mono. exact Hs.
Qed.

Ltac w_frame H :=
  repeat dmn H; inversion H; subst; clear H;
  first [apply wr_same; reflexivity | eapply wr_set; [reflexivity|eassumption| |reflexivity]; reflexivity].

Lemma exec_msg_plain_wr c s txh m s' : exec_msg_plain c s txh m = Okk s' -> wr s s'.
Proof.
  intros H. destruct m; simpl in H.
  - unfold define in H. w_frame H.
  - eapply WInv_bind; eassumption.
  - unfold update_binding in H. w_frame H.
  - unfold set_withdraw in H. w_frame H.
  - unfold enable in H. w_frame H.
  - unfold disable in H. w_frame H.
  - unfold refund_deposit in H. w_frame H.
  - unfold call in H. destruct (negb _); [discriminate|].
    destruct (create_context _ _ _ _ _ _ _ _ _ _ _ _ _ _ _ _) as [[s1 id]|] eqn:E; [|discriminate].
    inversion H; subst. unfold create_context in E. w_frame E.
  - destruct (respond_tally _ _ _ _ _ _ H) as (q & q' & e & _ & _ & _ & _ & _ & _ & A & B). apply wr_same; assumption.
  - unfold msg_ctl, k_pause in H. w_frame H.
  - unfold msg_ctl, k_start in H. w_frame H.
  - unfold msg_ctl, k_kill in H. w_frame H.
  - unfold update_context in H. w_frame H.
  - unfold withdraw in H. w_frame H.
Qed.

Lemma call_module_wr c s txh svc provs cons inok capd capa timeout rep freq total s' :
  call_module c s txh svc provs cons inok capd capa timeout rep freq total = Okk s' -> wr s s'.
Proof.
  unfold call_module. intros H. destruct (negb _); [discriminate|].
  destruct (create_context c s txh svc [c_mprov c] cons inok capd capa 1 false 0 0 0 0 false) as [[s1 id]|] eqn:E1; [|discriminate].
  assert (I1 : wr s s1) by (clear H; unfold create_context in E1; w_frame E1).
  destruct (get id (ctxs s1)) as [x|] eqn:Ex; [|discriminate].
  destruct (filter_provs s1 x (x_provs x)) as [[|p0 ps]|]; try discriminate.
  destruct (debit_all (led s1) (x_cons x) (total_fees s1 x [c_mprov c])) as [l|]; [|discriminate].
  set (s2 := initiate_ms (with_led s1 (credit_all l REQ (total_fees s1 x [c_mprov c]))) id x [c_mprov c]) in *.
  assert (I2 : wr s1 s2) by (apply wr_same; reflexivity).
  destruct (respond c s2 (id, x_batch x + 1, height s, 0) (c_mprov c) 1) as [s3| |] eqn:Er; try discriminate.
  destruct (respond_tally _ _ _ _ _ _ Er) as (q & q' & e & _ & _ & _ & _ & _ & _ & A & B).
  cbv beta iota in H. injection H as <-.
  eapply wr_trans; [exact I1|]. eapply wr_trans; [exact I2|]. eapply wr_trans; [apply wr_same; eassumption|].
  apply wr_same; reflexivity.
Qed.

Lemma exec_msg_wr c s txh m s' : exec_msg c s txh m = Okk s' -> wr s s'.
Proof.
  intros H. destruct m; cbn [exec_msg] in H; try (eapply exec_msg_plain_wr; eassumption).
  - destruct (module_served c svc); [discriminate|]. eapply WInv_bind; eassumption.
  - destruct (module_served c svc); [eapply call_module_wr; exact H|].
    eapply (exec_msg_plain_wr c s txh (MCall svc provs cons inok capd capa timeout rep freq total)); exact H.
Qed.

Lemma slash_wr c s svc prov : wr s (slash c s svc prov).
Proof.
  unfold slash. destruct (get (svc, prov) (binds s)) as [b|] eqn:Eg; [|apply wr_refl].
  destruct (b_dep b <? _); [apply wr_refl|]. destruct (send _ _ _ _ _); [|apply wr_refl].
  eapply (wr_set s _ (svc, prov) b); [reflexivity|exact Eg| |reflexivity].
  cbv zeta. destruct (b_avail _); [|reflexivity]. destruct (min_deposit _ _ _ _) as [m|]; [destruct (m <=? _)|]; reflexivity.
Qed.

Lemma expire_wr c x s e : wr s (expire_request c x s e).
Proof.
  destruct e as [rid q]. unfold expire_request. eapply wr_trans; [apply (slash_wr c s (x_svc x) (q_prov q))|].
  destruct (send _ _ _ _ _); apply wr_same; reflexivity.
Qed.

Lemma expired_handler_wr c s id : wr s (expired_batch_handler c s id).
Proof.
  unfold expired_batch_handler. destruct (get id (ctxs s)) as [x|]; [|apply wr_refl].
  set (pr := if x_brun x then _ else (s, x)).
  assert (H1 : wr s (fst pr)).
  { subst pr. destruct (x_brun x); [|apply wr_refl]. simpl.
    assert (F : wr s (fold_left (expire_request c x) (filter (fun e => in_batch id (x_batch x) e && q_active (snd e)) (reqs s)) s)).
    { apply (fold_left_inv (fun t => wr s t)); [|apply wr_refl]. intros t e Ht. eapply wr_trans; [exact Ht|apply expire_wr]. }
    destruct (x_mod x); [|exact F]. eapply wr_trans; [exact F|]. unfold callback. destruct (get id (ctxs _)); apply wr_same; reflexivity. }
  destruct pr as [s1 x1]. simpl in H1. cbv zeta. eapply wr_trans; [exact H1|].
  destruct (x_state x1 =? 2); destruct (x_state x1 =? 0); try destruct (x_rep x1 && _); apply wr_same; reflexivity.
Qed.

Lemma new_handler_wr s id : wr s (new_batch_handler s id).
Proof.
  unfold new_batch_handler. destruct (get id (ctxs s)) as [x|]; [|apply wr_refl].
  destruct (x_state x =? 0); [|apply wr_same; reflexivity].
  destruct (filter_provs s x (x_provs x)) as [ps|]; [|apply wr_same; reflexivity].
  cbv zeta. destruct (_ && _); [|apply wr_same; reflexivity].
  destruct (debit_all _ _ _); [apply wr_same; reflexivity|].
  unfold on_paused. destruct (x_mod x); apply wr_same; reflexivity.
Qed.

Lemma apply_wr c s st : wr s (apply c s st).
Proof.
  unfold apply. destruct (exec_step c s st) as [s'| |] eqn:E; try apply wr_refl.
  destruct st; cbn [exec_step] in E.
  - eapply exec_msg_wr. exact E.
  - destruct (0 <=? dt); [|discriminate]. inversion E; subst. unfold end_block. cbv zeta.
    set (s1 := fold_left (expired_batch_handler c) _ s).
    assert (H1 : wr s s1).
    { subst s1. apply (fold_left_inv (fun t => wr s t)); [|apply wr_refl].
      intros t id Ht. eapply wr_trans; [exact Ht|apply expired_handler_wr]. }
    set (s2 := fold_left new_batch_handler _ s1).
    assert (H2 : wr s s2).
    { subst s2. apply (fold_left_inv (fun t => wr s t)); [|exact H1].
      intros t id Ht. eapply wr_trans; [exact Ht|apply new_handler_wr]. }
    eapply wr_trans; [exact H2|apply wr_same; reflexivity].
  - inversion E; subst. apply wr_same; reflexivity.
  - w_frame E.
  - destruct (create_context _ _ _ _ _ _ _ _ _ _ _ _ _ _ _ _) as [[s1 id]|] eqn:E1; [|discriminate].
    inversion E; subst. unfold create_context in E1. w_frame E1.
  - unfold k_pause in E. w_frame E.
  - unfold k_start in E. w_frame E.
  - unfold k_kill in E. w_frame E.
  - eapply WInv_bind; eassumption.
Qed.

Lemma reach_W c steps h0 t0 l0 : WInv (run c (init h0 t0 l0) steps).
Proof.
  assert (G : forall s, WInv s -> WInv (run c s steps)).
  { induction steps as [|st r IH]; intros s H; [exact H|]. cbn [run]. apply IH. apply apply_wr. exact H. }
  apply G. constructor; simpl; [intros k b []|intros p H; discriminate].
Qed.

(** ** C07, clause 3 *)
Lemma owner_of_obs univ code nc cb s p : WInv s -> has p (owners s) = true ->
  Check.owner_of (obs_of univ code nc cb s) p = owner_of s p.
Proof.
  intros Hw Hh. unfold Check.owner_of, owner_of. cbn [obs_of o_binds].
  destruct (w_has _ Hw p Hh) as (svc & Hs). unfold has in Hs. destruct (get (svc, p) (binds s)) as [b0|] eqn:Eg; [|discriminate].
  destruct (filter (fun e : Z * Z * bind_t => snd (fst e) =? p) (map (fun e : Z * Z * binding => (fst e, bind_tuple (snd e))) (binds s))) as [|e l] eqn:Ef.
  - exfalso. assert (Hin : In ((svc, p), bind_tuple b0) (filter (fun e : Z * Z * bind_t => snd (fst e) =? p) (map (fun e : Z * Z * binding => (fst e, bind_tuple (snd e))) (binds s)))).
    { apply filter_In. split; [|simpl; apply Z.eqb_refl]. apply in_map_iff. exists ((svc, p), b0). split; [reflexivity|apply get_In; exact Eg]. }
    rewrite Ef in Hin. exact Hin.
  - assert (Hin : In e (e :: l)) by (left; reflexivity). rewrite <- Ef in Hin. apply filter_In in Hin. destruct Hin as (Hin & Hp).
    apply in_map_iff in Hin. destruct Hin as ([k b] & <- & Hin). cbn [fst snd] in *. apply Z.eqb_eq in Hp.
    pose proof (w_own _ Hw k b Hin) as Ho. rewrite Hp in Ho. rewrite Ho. reflexivity.
Qed.

Lemma osum_obs univ code nc cb s o d : WInv s -> TInv s ->
  sumz (fun e' : Z * Z * Z => if (snd (fst e') =? d) && (Check.owner_of (obs_of univ code nc cb s) (fst (fst e')) =? o) then snd e' else 0) (earned s)
  = osum s o d.
Proof.
  intros Hw Ht. unfold osum, msum, sumz. f_equal. apply map_ext_in. intros [[p0 d0] v] Hin. unfold own_in. cbn [fst snd].
  rewrite (owner_of_obs univ code nc cb s p0 Hw (t_u3 _ Ht p0 d0 v Hin)). reflexivity.
Qed.

Lemma getz_in_NoDup {K} `{EqDec K} (k : K) v (m : amap K Z) : NoDup (keys m) -> In (k, v) m -> getz k m = v.
Proof. intros Hnd Hin. unfold getz. rewrite (In_get_NoDup k v m Hnd Hin). reflexivity. Qed.

Theorem model_passes_C07_clause_3_lemma :
  forall c steps h0 t0 l0 univ p st code nc cb,
    let s := run c (init h0 t0 l0) steps in
    holds_C07 c p st (obs_of univ code nc cb s) <> 3.
Proof.
  intros c steps h0 t0 l0 univ p st code nc cb s E.
  assert (Ht : TInv s) by (subst s; apply run_inv; [intros; apply TInv_apply; assumption|apply TInv_init]).
  pose proof (reach_W c steps h0 t0 l0) as Hw. fold s in Hw.
  apply first_fail_in in E; [|lia]. unfold holds_C07 in E; cbv zeta in E.
  do 2 (split_seg E; [not_here E|]).
  split_seg E.
  { apply in_map_iff in E. destruct E as ([[o d] v] & E & Hin). injection E as E. cbn [obs_of o_oearned o_earned fst snd] in E, Hin.
    rewrite (osum_obs univ code nc cb s o d Hw Ht), <- (t_eq _ Ht o d), (getz_in_NoDup (o, d) v (oearned s) (t_ok _ Ht) Hin), Z.eqb_refl in E. discriminate. }
  split_seg E.
  { apply in_map_iff in E. destruct E as ([[p0 d] v] & E & Hin). injection E as E. cbn [obs_of o_oearned o_earned fst snd] in E, Hin.
    rewrite (osum_obs univ code nc cb s _ d Hw Ht), <- (t_eq _ Ht _ d), Z.eqb_refl in E. discriminate. }
  not_here E.
Qed.

(** ** C08, clauses 8 and 9 *)
Lemma c08_clause8_new univ code nc cb s e : QInv s ->
  let o := obs_of univ code nc cb s in
  In e (o_newq o) -> eqb (get (snd e) (o_newmark o)) (Some (fst e)) = true.
Proof.
  intros Hq o Hin. subst o. cbn [obs_of o_newq o_newmark] in *. destruct e as [h id]. cbn [fst snd].
  rewrite (q_new_mark _ Hq h id Hin). apply eqb_refl.
Qed.

Lemma c08_clause8_exp univ code nc cb s e : QInv s ->
  let o := obs_of univ code nc cb s in
  In e (o_expq o) -> eqb (get (snd e) (o_expmark o)) (Some (fst e)) = true.
Proof.
  intros Hq o Hin. subst o. cbn [obs_of o_expq o_expmark] in *. destruct e as [h id]. cbn [fst snd].
  rewrite (q_exp_mark _ Hq h id Hin). apply eqb_refl.
Qed.

Lemma in_obs_ctxs univ code nc cb s e : NoDup (keys (ctxs s)) -> In e (o_ctxs (obs_of univ code nc cb s)) ->
  exists x, get (fst e) (ctxs s) = Some x /\ snd e = ctx_tuple x.
Proof.
  intros Hnd Hin. cbn [obs_of o_ctxs] in Hin. apply in_map_iff in Hin. destruct Hin as ([id x] & <- & Hin).
  exists x. split; [|reflexivity]. apply In_get_NoDup; assumption.
Qed.

Theorem model_passes_C07_clauses_1_2_lemma :
  forall c steps h0 t0 l0 univ p st code nc cb,
    clean l0 -> NoDup (create_txhs steps) ->
    In (DEP, BASE) univ -> (forall d, In d (denoms c) -> In (REQ, d) univ) ->
    let s := run c (init h0 t0 l0) steps in
    let k := holds_C07 c p st (obs_of univ code nc cb s) in
    k <> 1 /\ k <> 2.
Proof.
  intros c steps h0 t0 l0 univ p st code nc cb Hcl Hnd Hu1 Hu2 s k.
  destruct (reach_G c steps h0 t0 l0 Hcl Hnd) as (Hq & Hb & Hd & Hp & He). fold s in Hq, Hb, Hd, Hp, He.
  split; intros E; subst k; apply first_fail_in in E; try lia; unfold holds_C07 in E; cbv zeta in E.
  - split_seg E.
    + destruct E as [E|[]]. injection E as E. pose proof (c07_clause1 univ code nc cb s Hu1 Hd) as H1. cbv zeta in H1. exact (eq_true_false_abs _ H1 E).
    + not_here E.
  - split_seg E; [not_here E|]. split_seg E.
    + apply in_map_iff in E. destruct E as (d & E & Hin). injection E as E.
      pose proof (c07_clause2 univ code nc cb s d (Hu2 d Hin) (e_eq _ He)) as H1. cbv zeta in H1. exact (eq_true_false_abs _ H1 E).
    + not_here E.
Qed.

Lemma c08_clause8_ctx univ code nc cb s e : QInv s -> NoDup (keys (ctxs s)) ->
  let o := obs_of univ code nc cb s in
  In e (o_ctxs o) -> (negb (t_brun (snd e)) || has (fst e) (o_expmark o)) = true.
Proof.
  intros Hq Hnd o Hin. subst o. destruct (in_obs_ctxs univ code nc cb s e Hnd Hin) as (x & Hg & ->).
  cbn [obs_of o_expmark ctx_tuple t_brun]. destruct (x_brun x) eqn:Er; [|reflexivity].
  rewrite (q_run_mark _ Hq _ x Hg Er). reflexivity.
Qed.

Lemma reach_K c steps h0 t0 l0 : NoDup (keys (ctxs (run c (init h0 t0 l0) steps))).
Proof. apply reach_kc. simpl. constructor. Qed.

Lemma reach_S c steps h0 t0 l0 : NoDup (create_txhs steps) -> SInv (run c (init h0 t0 l0) steps).
Proof.
  intros Hnd. pose proof (fresh_history_from_distinct_hashes_lemma c steps h0 t0 l0 Hnd) as Hf.
  apply (run_inv_fresh SInv c); [intros; apply SInv_apply_m; assumption|exact Hf|apply SInv_init].
Qed.

Lemma c08_clause9 univ code nc cb s e : BatchInv s ->
  let o := obs_of univ code nc cb s in
  In e (o_reqs o) ->
  (negb (r_active (snd e))
   || match get (Check.rid_ctx (fst e)) (o_ctxs o) with
      | Some x => t_brun x && (t_batch x =? rid_batch (fst e))
      | None => false
      end) = true.
Proof.
  intros Hb o Hin. subst o. cbn [obs_of o_reqs o_ctxs] in *. apply in_map_iff in Hin. destruct Hin as ([rid q] & <- & Hin).
  cbn [fst snd]. destruct (q_active q) eqn:Ea; [|cbn [req_tuple r_active]; rewrite Ea; reflexivity].
  pose proof (In_get_NoDup rid q (reqs s) (b_keys _ Hb) Hin) as Hg.
  destruct (b_act _ Hb rid q Hg Ea) as (x & Hx & Hr & Hn).
  rewrite (get_map_val ctx_tuple). change (Check.rid_ctx rid) with (rid_ctx rid). rewrite Hx. cbn [option_map ctx_tuple t_brun t_batch].
  rewrite Hr. change (rid_batch rid) with (rid_b rid). rewrite Hn, Z.eqb_refl. apply orb_true_r.
Qed.

(** clause 9 is the last segment of the list *)
Theorem model_passes_C08_clause_9_lemma :
  forall c steps h0 t0 l0 univ seen fired tr sc p st code nc cb,
    NoDup (create_txhs steps) ->
    let s := run c (init h0 t0 l0) steps in
    holds_C08 seen fired tr sc p st (obs_of univ code nc cb s) <> 9.
Proof.
  intros c steps h0 t0 l0 univ seen fired tr sc p st code nc cb Hnd s E.
  destruct (reach_S c steps h0 t0 l0 Hnd) as (Hq & Hb). fold s in Hq, Hb.
  apply first_fail_in in E; [|lia]. unfold holds_C08 in E; cbv zeta in E.
  do 16 (split_seg E; [not_here E|]).
  apply in_map_iff in E. destruct E as (e & E & Hin). injection E as E.
  pose proof (c08_clause9 univ code nc cb s e Hb Hin) as H1. cbv zeta in H1. exact (eq_true_false_abs _ H1 E).
Qed.

(** clause 8: the three lists after nine other segments *)
Theorem model_passes_C08_clause_8_lemma :
  forall c steps h0 t0 l0 univ seen fired tr sc p st code nc cb,
    NoDup (create_txhs steps) ->
    let s := run c (init h0 t0 l0) steps in
    holds_C08 seen fired tr sc p st (obs_of univ code nc cb s) <> 8.
Proof.
  intros c steps h0 t0 l0 univ seen fired tr sc p st code nc cb Hnd s E.
  destruct (reach_S c steps h0 t0 l0 Hnd) as (Hq & Hb). fold s in Hq, Hb.
  pose proof (reach_K c steps h0 t0 l0) as Hk. fold s in Hk.
  apply first_fail_in in E; [|lia]. unfold holds_C08 in E; cbv zeta in E.
  do 9 (split_seg E; [not_here E|]).
  split_seg E.
  { apply in_map_iff in E. destruct E as (e & E & Hin). injection E as E.
    pose proof (c08_clause8_new univ code nc cb s e Hq Hin) as H1. cbv zeta in H1. exact (eq_true_false_abs _ H1 E). }
  split_seg E.
  { apply in_map_iff in E. destruct E as (e & E & Hin). injection E as E.
    pose proof (c08_clause8_exp univ code nc cb s e Hq Hin) as H1. cbv zeta in H1. exact (eq_true_false_abs _ H1 E). }
  split_seg E.
  { apply in_map_iff in E. destruct E as (e & E & Hin). injection E as E.
    pose proof (c08_clause8_ctx univ code nc cb s e Hq Hk Hin) as H1. cbv zeta in H1. exact (eq_true_false_abs _ H1 E). }
  not_here E.
Qed.

(** ** C08, clause 2: a rejected step changes nothing (any state, one model step) *)
Lemma skipn_all {A} (l : list A) : skipn (length l) l = [].
Proof. induction l; simpl; [reflexivity|assumption]. Qed.

Theorem model_passes_C08_clause_2_lemma :
  forall c s st univ seen fired tr sc pcode pnc pcb,
    holds_C08 seen fired tr sc (obs_of univ pcode pnc pcb s) st (obs_step univ c s st) <> 2.
Proof.
  intros c s st univ seen fired tr sc pcode pnc pcb E.
  apply first_fail_in in E; [|lia]. unfold holds_C08 in E; cbv zeta in E.
  do 4 (split_seg E; [not_here E|]). split_seg E; [|not_here E].
  destruct E as [E|[]]. injection E as E. unfold obs_step, apply in E.
  destruct (exec_step c s st) as [s'| |]; cbn [res_code obs_of o_code] in E; try discriminate E.
  - rewrite skipn_all in E. unfold obs_same in E. cbn [obs_of o_bals o_binds o_ctxs o_reqs o_vols o_earned o_oearned o_newq o_expq o_newmark o_expmark o_cb] in E.
    rewrite !eqb_refl in E. discriminate E.
  - rewrite skipn_all in E. unfold obs_same in E. cbn [obs_of o_bals o_binds o_ctxs o_reqs o_vols o_earned o_oearned o_newq o_expq o_newmark o_expmark o_cb] in E.
    rewrite !eqb_refl in E. discriminate E.
Qed.

(** ** C08, clause 6: authority over a context (any state, one model step) *)
Theorem model_passes_C08_clause_6_lemma :
  forall c s st univ seen fired tr sc pcode pnc pcb,
    holds_C08 seen fired tr sc (obs_of univ pcode pnc pcb s) st (obs_step univ c s st) <> 6.
Proof.
  intros c s st univ seen fired tr sc pcode pnc pcb E.
  apply first_fail_in in E; [|lia]. unfold holds_C08 in E; cbv zeta in E.
  do 12 (split_seg E; [not_here E|]). split_seg E; [|not_here E].
  unfold obs_step in E. cbn [obs_of o_code o_ctxs] in E.
  destruct (exec_step c s st) as [s'| |] eqn:Ex.
  2,3: (destruct (ctl_target st) as [[[id cn] [|]]|]; [| |contradiction E]; destruct E as [E|[]]; injection E as E; cbn [res_code] in E; discriminate E).
  pose proof (module_context_control_lemma c s st s' Ex) as Hm.
  destruct st as [txh m| | | | | | | |]; try contradiction E.
  - pose proof (only_consumer_controls_lemma c s txh m s' Ex) as Hc.
    destruct m; try contradiction E; cbn [ctl_target] in E; destruct E as [E|[]]; injection E as E;
      destruct Hc as (x & Hg & Hcn & Hmd); rewrite (get_map_val ctx_tuple), Hg in E; cbn [option_map ctx_tuple t_cons t_mod res_code] in E;
      rewrite Hcn, Hmd, Z.eqb_refl in E; discriminate E.
  - cbn [ctl_target] in E. destruct E as [E|[]]; injection E as E. destruct Hm as (x & Hg & Hcn).
    rewrite (get_map_val ctx_tuple), Hg in E; cbn [option_map ctx_tuple t_cons t_mod res_code] in E.
    destruct (x_mod x); [rewrite (Hcn eq_refl), Z.eqb_refl in E|]; discriminate E.
  - cbn [ctl_target] in E. destruct E as [E|[]]; injection E as E. destruct Hm as (x & Hg & Hcn).
    rewrite (get_map_val ctx_tuple), Hg in E; cbn [option_map ctx_tuple t_cons t_mod res_code] in E.
    destruct (x_mod x); [rewrite (Hcn eq_refl), Z.eqb_refl in E|]; discriminate E.
  - cbn [ctl_target] in E. destruct E as [E|[]]; injection E as E. destruct Hm as (x & Hg & Hcn).
    rewrite (get_map_val ctx_tuple), Hg in E; cbn [option_map ctx_tuple t_cons t_mod res_code] in E.
    destruct (x_mod x); [rewrite (Hcn eq_refl), Z.eqb_refl in E|]; discriminate E.
Qed.

(** ** the callback log only grows *)
Definition ce (s s' : state) : Prop := exists l, cblog s' = cblog s ++ l.
Lemma ce_same s s' : cblog s' = cblog s -> ce s s'.
Proof. intros E. exists []. rewrite app_nil_r. exact E. Qed.
Lemma ce_trans s1 s2 s3 : ce s1 s2 -> ce s2 s3 -> ce s1 s3.
Proof. intros (a & A) (b & B). exists (a ++ b). rewrite B, A, app_assoc. reflexivity. Qed.

Lemma expired_handler_ce c s id : ce s (expired_batch_handler c s id).
Proof.
  unfold expired_batch_handler. destruct (get id (ctxs s)) as [x|] eqn:Eg; [|apply ce_same; reflexivity].
  set (pr := if x_brun x then _ else (s, x)).
  assert (Hpr : ce s (fst pr)).
  { subst pr. destruct (x_brun x); [|apply ce_same; reflexivity]. simpl.
    set (act := filter _ (reqs s)). set (sf := fold_left (expire_request c x) act s).
    assert (Hf : ctxs sf = ctxs s /\ cblog sf = cblog s).
    { subst sf. generalize act s. clear. induction act as [|[r q] act IH]; intros s; cbn [fold_left]; [split; reflexivity|].
      destruct (IH (expire_request c x s (r, q))) as (A & B). rewrite A, B. unfold expire_request.
      assert (S : ctxs (slash c s (x_svc x) (q_prov q)) = ctxs s /\ cblog (slash c s (x_svc x) (q_prov q)) = cblog s).
      { unfold slash. destruct (get _ (binds s)) as [b|]; [|split; reflexivity]. destruct (b_dep b <? _); [split; reflexivity|].
        destruct (send _ _ _ _ _); split; reflexivity. }
      destruct (send _ _ _ _ _); simpl; exact S. }
    destruct Hf as (Hf1 & Hf2). destruct (x_mod x); [|apply ce_same; exact Hf2].
    assert (Hg : get id (ctxs sf) = Some x) by (rewrite Hf1; exact Eg).
    destruct (callback_spec sf id x Hg) as (L & _). eexists. rewrite L, Hf2. reflexivity. }
  destruct pr as [s1 x1]. simpl in Hpr. cbv zeta. eapply ce_trans; [exact Hpr|]. apply ce_same.
  destruct (x_state x1 =? 2); destruct (x_state x1 =? 0); try destruct (x_rep x1 && _); reflexivity.
Qed.

Lemma new_handler_ce s id : ce s (new_batch_handler s id).
Proof.
  unfold new_batch_handler. destruct (get id (ctxs s)) as [x|] eqn:Eg; [|apply ce_same; reflexivity].
  destruct (x_state x =? 0); [|apply ce_same; reflexivity].
  destruct (filter_provs s x (x_provs x)) as [ps|]; [|apply ce_same; reflexivity].
  cbv zeta. destruct (_ && _); [|apply ce_same; reflexivity].
  destruct (debit_all _ _ _); [apply ce_same; reflexivity|].
  unfold on_paused. destruct (x_mod x); [|apply ce_same; reflexivity]. eexists. reflexivity.
Qed.

Lemma apply_ce0 c s st : c_msvc c < 0 -> ce s (apply c s st).
Proof.
  intros Hm. unfold apply. destruct (exec_step c s st) as [s'| |] eqn:E; try (apply ce_same; reflexivity).
  assert (MSG : forall txh m s1, exec_msg_plain c s txh m = Okk s1 -> ce s s1).
  { intros txh m s1 H. destruct m; simpl in H;
      try (apply ce_same; unfold define, bind, update_binding, set_withdraw, enable, disable, refund_deposit, msg_ctl, k_pause, k_start, k_kill, update_context, withdraw, call, create_context in H;
           repeat dmn H; inversion H; subst; reflexivity).
    - unfold call in H. destruct (negb _); [discriminate|].
      destruct (create_context _ _ _ _ _ _ _ _ _ _ _ _ _ _ _ _) as [[s2 id]|] eqn:E0; [|discriminate]. inversion H; subst.
      apply ce_same. clear -E0. unfold create_context in E0. repeat dmn E0; inversion E0; subst; reflexivity.
    - destruct (respond_cb_shape _ _ _ _ _ _ H) as (q & x & x' & _ & _ & Hx & _ & _ & _ & Hcase).
      destruct Hcase as [(_ & L)|(_ & n & ok & L)]; [apply ce_same; exact L|].
      destruct (x_mod x); [eexists; exact L|apply ce_same; exact L]. }
  destruct st; cbn [exec_step] in E.
  - rewrite (exec_msg_plain_eq _ _ _ _ Hm) in E. eapply MSG. exact E.
  - destruct (0 <=? dt); [|discriminate]. inversion E; subst. unfold end_block. cbv zeta.
    set (s1 := fold_left (expired_batch_handler c) _ s).
    assert (H1 : ce s s1).
    { subst s1. apply (fold_left_inv (fun t => ce s t)); [|apply ce_same; reflexivity].
      intros t id Ht. eapply ce_trans; [exact Ht|apply expired_handler_ce]. }
    set (s2 := fold_left new_batch_handler _ s1).
    assert (H2 : ce s s2).
    { subst s2. apply (fold_left_inv (fun t => ce s t)); [|exact H1].
      intros t id Ht. eapply ce_trans; [exact Ht|apply new_handler_ce]. }
    eapply ce_trans; [exact H2|apply ce_same; reflexivity].
  - inversion E; subst. apply ce_same. reflexivity.
  - apply ce_same. repeat dmn E; inversion E; subst; reflexivity.
  - destruct (create_context _ _ _ _ _ _ _ _ _ _ _ _ _ _ _ _) as [[s2 id]|] eqn:E0; [|discriminate]. inversion E; subst.
    apply ce_same. clear -E0. unfold create_context in E0. repeat dmn E0; inversion E0; subst; reflexivity.
  - apply ce_same. unfold k_pause in E. repeat dmn E; inversion E; subst; reflexivity.
  - apply ce_same. unfold k_start in E. repeat dmn E; inversion E; subst; reflexivity.
  - apply ce_same. unfold k_kill in E. repeat dmn E; inversion E; subst; reflexivity.
  - apply ce_same. unfold bind in E. repeat dmn E; inversion E; subst; reflexivity.
Qed.

Lemma apply_ce c s st : ce s (apply c s st).
Proof.
  destruct (is_module_call c st) eqn:E.
  - destruct st; try discriminate. destruct m; try discriminate. simpl in E. unfold apply. cbn [exec_step exec_msg]. rewrite E.
    destruct (call_module c s txh svc provs cons inok capd capa timeout rep freq total) as [s'| |] eqn:Ec; try (apply ce_same; reflexivity).
    destruct (call_module_shape _ _ _ _ _ _ _ _ _ _ _ _ _ _ Ec) as (s1 & id & x & q' & E1 & _ & _ & _ & _ & _ & _ & _ & _ & _ & _ & _ & _ & _ & _ & _ & _ & _ & CB & _).
    apply ce_same. rewrite CB. clear -E1. unfold create_context in E1. repeat dmn E1; inversion E1; subst; reflexivity.
  - destruct (apply_no_msvc c s st E) as [Ea|Ea]; rewrite Ea; [apply apply_ce0; apply no_msvc_lt|apply ce_same; reflexivity].
Qed.

Lemma skipn_app_len {A} (l r : list A) : skipn (length l) (l ++ r) = r.
Proof. induction l; simpl; [reflexivity|assumption]. Qed.

(** what the step logged, as the driver prints it, extends the log *)
Lemma step_cb c s st : cblog (apply c s st) = cblog s ++ skipn (length (cblog s)) (cblog (apply c s st)).
Proof. destruct (apply_ce c s st) as (l & L). rewrite L at 2. rewrite skipn_app_len. exact L. Qed.

Lemma cb_keys_resp_keys l : cb_keys l = resp_keys l.
Proof.
  unfold cb_keys, resp_keys. induction l as [|[[[[k i] b] n] o] l IH]; simpl; [reflexivity|].
  unfold is_resp at 1. simpl. destruct (k =? 0); simpl; [f_equal|]; exact IH.
Qed.

Lemma run_app c : forall a b s, run c s (a ++ b) = run c (run c s a) b.
Proof. induction a as [|st a IH]; intros b s; [reflexivity|]. cbn [app run]. apply IH. Qed.

Lemma existsb_eqb_in {A} `{EqDec A} (k : A) l : existsb (eqb k) l = true <-> In k l.
Proof.
  rewrite existsb_exists. split.
  - intros (x & Hin & E). apply (proj1 (eqb_true_iff k x)) in E. subst. exact Hin.
  - intros Hin. exists k. split; [exact Hin|apply eqb_refl].
Qed.

Lemma NoDup_app_disj {A} (a b : list A) : NoDup (a ++ b) -> forall x, In x b -> ~ In x a.
Proof.
  induction a as [|y a IH]; simpl; intros Hnd x Hb Ha; [exact Ha|]. inversion Hnd as [|? ? Hn Hnd']; subst.
  destruct Ha as [->|Ha]; [apply Hn; apply in_or_app; right; exact Hb|exact (IH Hnd' x Hb Ha)].
Qed.

(** ** C08, clause 7, the two history-wide lists: along the model's own trace the checker's
    accumulator [fired] is [cb_keys] of the log so far; no response callback of the step repeats a
    (context, batch) already fired, and the closed current batch of every stored module-owned
    context has fired *)
Theorem model_passes_C08_clause_7_history_lemma :
  forall c steps st h0 t0 l0 univ,
    NoDup (create_txhs (steps ++ [st])) ->
    let s := run c (init h0 t0 l0) steps in
    let o := obs_step univ c s st in
    let fired := cb_keys (cblog s) in
    cblog (init h0 t0 l0) = []
    /\ fired ++ cb_keys (o_cb o) = cb_keys (cblog (apply c s st))
    /\ (forall k, In k (cb_keys (o_cb o)) -> negb (existsb (eqb k) fired) = true)
    /\ (forall e, In e (o_ctxs o) ->
          (negb (t_mod (snd e)) || t_brun (snd e) || (t_batch (snd e) <? 1)
           || existsb (eqb (fst e, t_batch (snd e))) (fired ++ cb_keys (o_cb o))) = true).
Proof.
  intros c steps st h0 t0 l0 univ Hnd s o fired.
  assert (Es : apply c s st = run c (init h0 t0 l0) (steps ++ [st])) by (rewrite run_app; reflexivity).
  destruct (callback_exactly_once_per_batch_m_lemma c (steps ++ [st]) h0 t0 l0 Hnd) as (Hnd1 & _ & Hf).
  pose proof (reach_K c (steps ++ [st]) h0 t0 l0) as Hk. rewrite <- Es in Hnd1, Hf, Hk.
  assert (Ef : fired ++ cb_keys (o_cb o) = cb_keys (cblog (apply c s st))).
  { subst fired o. unfold obs_step. cbn [obs_of o_cb]. rewrite !cb_keys_resp_keys, <- resp_keys_app, <- step_cb. reflexivity. }
  split; [reflexivity|]. split; [exact Ef|]. split.
  - intros k Hin. apply negb_true_iff. destruct (existsb (eqb k) fired) eqn:Ex; [|reflexivity]. exfalso.
    apply existsb_eqb_in in Ex. rewrite <- cb_keys_resp_keys, <- Ef in Hnd1. exact (NoDup_app_disj _ _ Hnd1 k Hin Ex).
  - intros e Hin. rewrite Ef. subst o. unfold obs_step in Hin.
    destruct (in_obs_ctxs univ _ _ _ (apply c s st) e Hk Hin) as (x & Hg & Ex). rewrite Ex. cbn [ctx_tuple t_mod t_brun t_batch].
    destruct (x_mod x) eqn:Em; [|reflexivity]. destruct (x_brun x) eqn:Er; [reflexivity|]. destruct (x_batch x <? 1) eqn:Eb; [reflexivity|].
    apply Z.ltb_ge in Eb. cbn [negb orb]. apply existsb_eqb_in. rewrite cb_keys_resp_keys. apply (Hf (fst e) x Hg Em Er). lia.
Qed.

(** the case the driver would print for the model, from a case the driver printed for the code *)
Definition self_case (cs : case) : case :=
  let '(c, o0, l) := cs in model_case (map fst (o_bals o0)) c (o_height o0) (o_time o0) (ledger_of o0) (map fst l).

(** ** C08, clause 1: what an end-block does to the stored requests *)
Definition inb (id : ctxid) (b : Z) (rid : reqid) : bool := let '(i, b0, _, _) := rid in eqb i id && (b0 =? b).
Lemma in_batch_inb id b e : in_batch id b e = inb id b (fst e).
Proof. reflexivity. Qed.
Lemma inb_ctx id b rid : inb id b rid = true -> rid_ctx rid = id.
Proof. destruct rid as [[[i b0] hh] ii]. simpl. intros H. apply andb_true_iff in H. apply (proj1 (eqb_true_iff i id)). tauto. Qed.

Lemma get_filter_keep {K V} `{EqDec K} (f : K * V -> bool) (k : K) (v : V) (m : amap K V) :
  NoDup (keys m) -> get k m = Some v -> f (k, v) = true -> get k (filter f m) = Some v.
Proof.
  intros Hnd Hg Hf. apply In_get_NoDup; [apply keys_filter_NoDup; exact Hnd|]. apply filter_In. split; [apply get_In; exact Hg|exact Hf].
Qed.

Lemma get_filter_true {K V} `{EqDec K} (f : K * V -> bool) (k : K) (v : V) (m : amap K V) :
  get k (filter f m) = Some v -> f (k, v) = true.
Proof. intros Hg. apply get_In in Hg. apply filter_In in Hg. tauto. Qed.

Lemma get_fold_set_notin {K V} `{EqDec K} (rs : list (K * V)) : forall (m : amap K V) k,
  ~ In k (map fst rs) -> get k (fold_left (fun m e => set (fst e) (snd e) m) rs m) = get k m.
Proof.
  induction rs as [|[k0 v0] rs IH]; simpl; intros m k Hn; [reflexivity|].
  rewrite IH by tauto. apply get_set_other. intros ->. tauto.
Qed.

Lemma expire_fold_get c x : forall act s rid, ~ In rid (map fst act) ->
  get rid (reqs (fold_left (expire_request c x) act s)) = get rid (reqs s).
Proof.
  induction act as [|[r q] act IH]; cbn [fold_left]; intros s rid Hn; [reflexivity|]. simpl in Hn.
  rewrite IH by tauto. destruct (expire_struct c x s r q) as (R & _). rewrite R. apply get_set_other. intros ->. tauto.
Qed.

Lemma expired_handler_reqs c t id :
  QInv t -> BatchInv t -> LInv false t -> In (height t, id) (expq t) ->
  let t' := expired_batch_handler c t id in
  (forall rid q', get rid (reqs t') = Some q' -> get rid (reqs t) = Some q')
  /\ (forall rid q, get rid (reqs t) = Some q -> get rid (reqs t') = None -> q_active q = false \/ q_exp q = height t).
Proof.
  intros Hq Hb Hl Hin. cbv zeta. unfold expired_batch_handler.
  destruct (get id (ctxs t)) as [x|] eqn:Eg; [|split; [intros; assumption|intros rid q A B; congruence]].
  set (pr := if x_brun x then _ else (t, x)).
  assert (Hpr : NoDup (keys (reqs (fst pr))) /\ x_batch (snd pr) = x_batch x
                /\ (forall rid, inb id (x_batch x) rid = false -> get rid (reqs (fst pr)) = get rid (reqs t))).
  { subst pr. destruct (x_brun x) eqn:Eb; [|split; [exact (b_keys _ Hb)|split; [reflexivity|intros; reflexivity]]].
    cbn [fst snd]. set (act := filter _ (reqs t)).
    assert (Hnd : NoDup (map fst act)) by (subst act; apply (keys_filter_NoDup _ (reqs t)); exact (b_keys _ Hb)).
    assert (Hall : forall e, In e act -> get (fst e) (reqs t) = Some (snd e)).
    { intros [r q] He. subst act. apply filter_In in He. simpl. apply In_get_NoDup; [exact (b_keys _ Hb)|tauto]. }
    destruct (expire_fold_reqs c x act t (b_keys _ Hb) Hnd Hall) as (A & _).
    assert (G : forall rid, inb id (x_batch x) rid = false -> get rid (reqs (fold_left (expire_request c x) act t)) = get rid (reqs t)).
    { intros rid Hi. apply expire_fold_get. intros Hm. apply in_map_iff in Hm. destruct Hm as ([r q] & <- & He).
      subst act. apply filter_In in He. destruct He as (_ & He). rewrite in_batch_inb in He. simpl in He, Hi. rewrite Hi in He. discriminate. }
    destruct (x_mod x); (split; [|split; [reflexivity|]]).
    - rewrite (proj1 (callback_same _ id)). exact A.
    - intros rid Hi. rewrite (proj1 (callback_same _ id)). apply G. exact Hi.
    - exact A.
    - exact G. }
  destruct pr as [s1 x1]. cbn [fst snd] in Hpr. destruct Hpr as (K1 & B1 & G1). cbv zeta.
  match goal with |- context [with_reqs ?t0 (filter ?f (reqs ?t0))] =>
    assert (Rt : reqs t0 = reqs s1) by (destruct (x_state x1 =? 2); destruct (x_state x1 =? 0); try destruct (x_rep x1 && _); reflexivity);
    set (tt := t0) in *; clearbody tt end.
  cbn [reqs with_reqs]. rewrite Rt, B1. split.
  - intros rid q' Hg. pose proof (get_filter_true _ _ _ _ Hg) as Hf. apply (get_filter_NoDup _ _ _ _ K1) in Hg.
    cbv beta in Hf. rewrite in_batch_inb in Hf. cbn [fst] in Hf. apply negb_true_iff in Hf. rewrite <- (G1 rid Hf). exact Hg.
  - intros rid q Hg Hn. destruct (inb id (x_batch x) rid) eqn:Ei.
    + destruct (q_active q) eqn:Ea; [right|left; reflexivity].
      pose proof (l_exp _ _ Hl rid q Hg Ea) as Hm. rewrite (inb_ctx _ _ _ Ei) in Hm.
      pose proof (q_exp_mark _ Hq _ _ Hin) as Hm2. congruence.
    + exfalso. rewrite <- (G1 rid Ei) in Hg.
      rewrite (get_filter_keep (fun e => negb (in_batch id (x_batch x) e)) rid q (reqs s1) K1 Hg) in Hn; [discriminate|].
      cbv beta. rewrite in_batch_inb. cbn [fst]. rewrite Ei. reflexivity.
Qed.

Lemma mk_requests_fields s x id batch : forall ps i e, In e (mk_requests s x id batch i ps) ->
  rid_h (fst e) = height s /\ q_active (snd e) = true /\ q_resp (snd e) = 0 /\ q_height (snd e) = height s
  /\ q_exp (snd e) = height s + x_timeout x.
Proof.
  induction ps as [|p ps IH]; simpl; intros i e He; [tauto|]. destruct (fee_of s x p) as [fd fee].
  destruct He as [<-|He]; [repeat split|]. eapply IH. exact He.
Qed.

Definition newreq (h : Z) (rid : reqid) (q : request) : Prop :=
  rid_h rid = h /\ q_active q = true /\ q_resp q = 0 /\ q_height q = h.

Lemma new_handler_reqs s id :
  let t' := new_batch_handler s id in
  (forall rid, rid_h rid <> height s -> get rid (reqs t') = get rid (reqs s))
  /\ (forall rid q', get rid (reqs t') = Some q' -> get rid (reqs s) = Some q' \/ newreq (height s) rid q')
  /\ height t' = height s.
Proof.
  cbv zeta. unfold new_batch_handler.
  assert (Same : forall t, reqs t = reqs s -> height t = height s ->
            (forall rid, rid_h rid <> height s -> get rid (reqs t) = get rid (reqs s))
            /\ (forall rid q', get rid (reqs t) = Some q' -> get rid (reqs s) = Some q' \/ newreq (height s) rid q')
            /\ height t = height s).
  { intros t R Hh. rewrite R. split; [reflexivity|]. split; [intros; left; assumption|exact Hh]. }
  destruct (get id (ctxs s)) as [x|] eqn:Eg; [|apply Same; reflexivity].
  destruct (x_state x =? 0); [|apply Same; reflexivity].
  destruct (filter_provs s x (x_provs x)) as [ps|]; [|apply Same; reflexivity].
  cbv zeta. destruct (_ && _); [|apply Same; reflexivity].
  destruct (debit_all _ _ _) as [l|]; [|apply Same; unfold on_paused; destruct (x_mod x); reflexivity].
  set (sl := with_led s (credit_all l REQ (total_fees s x ps))).
  set (rs := mk_requests sl x id (x_batch x + 1) 0 ps).
  assert (R : reqs (dequeue_new (initiate sl id x ps) id) = fold_left (fun m e => set (fst e) (snd e) m) rs (reqs s)) by reflexivity.
  rewrite R. split; [|split; [|reflexivity]].
  - intros rid Hne. apply get_fold_set_notin. intros Hin. apply in_map_iff in Hin. destruct Hin as (e & <- & He).
    apply Hne. exact (proj1 (mk_requests_fields sl x id _ ps 0 e He)).
  - intros rid q' Hg. apply get_fold_set in Hg. destruct Hg as [Hin|Hg]; [right|left; exact Hg].
    destruct (mk_requests_fields sl x id _ ps 0 (rid, q') Hin) as (A & B & C & D & _). repeat split; assumption.
Qed.

(** the end blocker, from a state whose stored request ids all carry an earlier height: a stored
    request survives unchanged or is removed (inactive, or expiring at this height); everything
    new is active, unanswered, created at this height; nothing active is left at or before it *)
Lemma end_block_reqs c s dt :
  QInv s -> BatchInv s -> LInv false s ->
  (forall rid, has rid (reqs s) = true -> rid_h rid < height s) ->
  let s' := end_block c s dt in
  (forall rid q, get rid (reqs s) = Some q ->
     match get rid (reqs s') with Some q' => q' = q | None => q_active q = false \/ q_exp q = height s end)
  /\ (forall rid q', get rid (reqs s') = Some q' -> get rid (reqs s) = None -> newreq (height s) rid q' /\ height s < q_exp q')
  /\ (forall rid q', get rid (reqs s') = Some q' -> q_active q' = true -> height s < q_exp q')
  /\ height s' = height s + 1.
Proof.
  intros Hq Hb Hl Hold. unfold end_block. cbv zeta.
  set (s1 := fold_left (expired_batch_handler c) _ s).
  assert (H1 : (QInv s1 /\ BatchInv s1 /\ LInv false s1 /\ height s1 = height s
               /\ (forall rid q', get rid (reqs s1) = Some q' -> get rid (reqs s) = Some q')
               /\ (forall rid q, get rid (reqs s) = Some q -> get rid (reqs s1) = None -> q_active q = false \/ q_exp q = height s))).
  { subst s1.
    apply (fold_handlers (fun t => QInv t /\ BatchInv t /\ LInv false t /\ height t = height s
               /\ (forall rid q', get rid (reqs t) = Some q' -> get rid (reqs s) = Some q')
               /\ (forall rid q, get rid (reqs s) = Some q -> get rid (reqs t) = None -> q_active q = false \/ q_exp q = height s))
             (expired_batch_handler c) (fun t id => In (height t, id) (expq t))).
    - intros t id (Tq & Tb & Tl & Th & Ta & Tr) Hpre.
      destruct (QInv_expired_handler c t id Tq Hpre) as (A & B & C).
      destruct (LInv_expired_handler c t id Tq Tb Hpre Tl) as (L & _).
      pose proof (BatchInv_expired_handler c t id Tb) as Bb.
      destruct (expired_handler_reqs c t id Tq Tb Tl Hpre) as (Ea & Er).
      split.
      + split; [exact A|]. split; [exact Bb|]. split; [exact L|]. split; [congruence|]. split.
        * intros rid q' Hg. apply Ta. apply Ea. exact Hg.
        * intros rid q Hg Hn. destruct (get rid (reqs t)) as [q1|] eqn:E1.
          -- pose proof (Ta rid q1 E1) as E2. rewrite Hg in E2. inversion E2; subst q1. rewrite <- Th. exact (Er rid q E1 Hn).
          -- exact (Tr rid q Hg E1).
      + intros id' Hne Hp. rewrite B. apply C; assumption.
    - apply due_NoDup. exact (q_exp_nodup _ Hq).
    - split; [exact Hq|]. split; [exact Hb|]. split; [exact Hl|]. split; [reflexivity|]. split; [intros; assumption|intros rid q A B; congruence].
    - intros id Hin. apply due_in in Hin. exact Hin. }
  destruct H1 as (Q1 & B1 & L1 & Hh1 & Ha1 & Hr1).
  (* no expiry marker at this height is left: the liveness invariant is strict again *)
  assert (P1 : forall id0, get id0 (expmark s1) <> Some (height s1)).
  { assert (F := LInv_phase1 c (due (height s) (expq s)) s (due_NoDup _ _ (q_exp_nodup _ Hq)) Hq Hb Hl).
    cbv zeta in F. fold s1 in F. apply F.
    - intros id Hin. apply due_in in Hin. exact Hin.
    - intros id0 E. apply due_in. exact (proj1 (l_mark _ _ Hl id0 _ E)). }
  assert (L1s : LInv true s1).
  { destruct L1 as [J1 J2 J3 J4]. constructor; try assumption. intros id0 h E. destruct (J3 id0 h E) as (A & B). split; [exact A|].
    assert (h <> height s1) by (intros ->; exact (P1 id0 E)). lia. }
  set (s2 := fold_left new_batch_handler _ s1).
  assert (H2 : ((QInv s2 /\ BatchInv s2 /\ LInv true s2)
                /\ (forall rid, rid_h rid <> height s -> get rid (reqs s2) = get rid (reqs s1))
                /\ (forall rid q', get rid (reqs s2) = Some q' -> get rid (reqs s1) = Some q' \/ newreq (height s) rid q'))
               /\ height s2 = height s1).
  { subst s2.
    apply (fold_handlers (fun t => ((QInv t /\ BatchInv t /\ LInv true t)
                /\ (forall rid, rid_h rid <> height s -> get rid (reqs t) = get rid (reqs s1))
                /\ (forall rid q', get rid (reqs t) = Some q' -> get rid (reqs s1) = Some q' \/ newreq (height s) rid q'))
               /\ height t = height s1) new_batch_handler (fun t id => In (height t, id) (newq t))).
    - intros t id (((Tq & Tb & Tl) & Tc & Td) & Hh) Hpre. destruct (QInv_new_handler t id Tq Hpre) as (A & B & C).
      destruct (new_handler_reqs t id) as (Nc & Nd & Nh). cbv zeta in Nc, Nd, Nh.
      assert (Eh : height t = height s) by congruence.
      split; [split; [|congruence]|].
      + split; [|split].
        * split; [exact A|]. split; [|apply LInv_new_handler; assumption].
          apply BatchInv_new_handler; [exact Tb|]. intros x Hx. eapply (q_new_closed _ Tq); eassumption.
        * intros rid Hne. rewrite Nc by (rewrite Eh; exact Hne). apply Tc. exact Hne.
        * intros rid q' Hg. destruct (Nd rid q' Hg) as [Hg1|Hn]; [apply Td; exact Hg1|right; rewrite <- Eh; exact Hn].
      + intros id' Hne Hpp. rewrite B. apply C; assumption.
    - apply due_NoDup. exact (q_new_nodup _ Q1).
    - split; [|reflexivity]. split; [split; [exact Q1|split; [exact B1|exact L1s]]|]. split; [reflexivity|intros; left; assumption].
    - intros id Hin. apply due_in in Hin. exact Hin. }
  destruct H2 as (((Q2 & B2 & L2) & Hc2 & Hd2) & Hh2).
  cbn [reqs height with_iidx with_time with_height].
  assert (Old : forall rid, has rid (reqs s) = true -> get rid (reqs s2) = get rid (reqs s1)).
  { intros rid Hh. apply Hc2. specialize (Hold rid Hh). lia. }
  split; [|split; [|split; [|lia]]].
  - intros rid q Hg. assert (Hh : has rid (reqs s) = true) by (unfold has; rewrite Hg; reflexivity).
    rewrite (Old rid Hh). destruct (get rid (reqs s1)) as [q'|] eqn:E1.
    + pose proof (Ha1 rid q' E1) as E2. congruence.
    + exact (Hr1 rid q Hg E1).
  - intros rid q' Hg Hn. destruct (Hd2 rid q' Hg) as [Hg1|Hnew].
    + pose proof (Ha1 rid q' Hg1) as E2. congruence.
    + split; [exact Hnew|]. destruct Hnew as (_ & Ha & _).
      pose proof (l_exp _ _ L2 rid q' Hg Ha) as Hm. destruct (l_mark _ _ L2 _ _ Hm) as (_ & Hlt). cbv beta iota in Hlt. lia.
  - intros rid q' Hg Ha. pose proof (l_exp _ _ L2 rid q' Hg Ha) as Hm. destruct (l_mark _ _ L2 _ _ Hm) as (_ & Hlt). cbv beta iota in Hlt. lia.
Qed.

(** one step of the model and the stored requests, when no service is served by a module *)
Definition good_step (st : step) : Prop := match st with EndBlock dt => 0 <= dt | _ => True end.

Definition RQ (c : config) (s : state) (st : step) (t : state) : Prop :=
  (forall rid q, get rid (reqs s) = Some q ->
     match get rid (reqs t) with
     | Some q' => q' = q \/ (q_active q = true /\ q_active q' = false /\ q_resp q' <> 0
                             /\ (exists txh kind, st = Tx txh (MRespond rid (q_prov q) kind))
                             /\ res_code (exec_step c s st) = 0 /\ height s <= q_exp q)
     | None => is_endblock st = true /\ (q_active q = false \/ q_exp q = height s)
     end)
  /\ (forall rid q', get rid (reqs t) = Some q' -> get rid (reqs s) = None ->
        is_endblock st = true /\ newreq (height s) rid q' /\ height s < q_exp q')
  /\ (is_endblock st = true -> forall rid q', get rid (reqs t) = Some q' -> q_active q' = true -> height s < q_exp q')
  /\ (forall txh rid prov kind, st = Tx txh (MRespond rid prov kind) -> res_code (exec_step c s st) = 0 ->
        exists q q', get rid (reqs s) = Some q /\ get rid (reqs t) = Some q' /\ q_active q = true /\ q_prov q = prov
                     /\ q_active q' = false /\ q_resp q' <> 0)
  /\ height t = (if is_endblock st then height s + 1 else height s).

Lemma RQ_same c s st t :
  reqs t = reqs s /\ height t = height s -> is_endblock st = false ->
  (forall txh rid prov kind, st = Tx txh (MRespond rid prov kind) -> res_code (exec_step c s st) <> 0) -> RQ c s st t.
Proof.
  intros (R & Hh) Eb Nr. unfold RQ. rewrite R. split; [|split; [|split; [|split]]].
  - intros rid q Hg. rewrite Hg. left. reflexivity.
  - intros rid q' A B. congruence.
  - intros E. congruence.
  - intros txh rid prov kind E Hc. exfalso. exact (Nr _ _ _ _ E Hc).
  - rewrite Eb. exact Hh.
Qed.

Lemma req_step c s st :
  c_msvc c < 0 -> QInv s -> BatchInv s -> LInv false s ->
  (forall rid, has rid (reqs s) = true -> rid_h rid < height s) -> good_step st ->
  RQ c s st (apply c s st).
Proof.
  intros Hm Hq Hb Hl Hold Hgood.
  assert (Plain : forall txh m, (match m with MRespond _ _ _ => False | _ => True end) -> RQ c s (Tx txh m) (apply c s (Tx txh m))).
  { intros txh m Hnr. apply RQ_same; [|reflexivity|intros ? ? ? ? E; inversion E; subst; contradiction].
    unfold apply. cbn [exec_step]. rewrite (exec_msg_plain_eq _ _ _ _ Hm).
    destruct (exec_msg_plain c s txh m) as [s'| |] eqn:E; try (split; reflexivity).
    pose proof (exec_msg_same _ _ _ _ _ E) as Hs. destruct m; try contradiction; exact (conj (proj1 Hs) (proj2 (proj2 Hs))). }
  destruct st as [txh m|dt|d r|f t d a|txh svc ps cn ca tmo rp fq tl st0 thr|id cn|id cn|id cn|svc p dd da pr qos ow].
  - destruct m; try (apply Plain; exact I).
    (* a response *)
    unfold apply. cbn [exec_step]. rewrite (exec_msg_plain_eq _ _ _ _ Hm). cbn [exec_msg_plain].
    destruct (respond c s rid prov kind) as [s'| |] eqn:E.
    2,3: (apply RQ_same; [split; reflexivity|reflexivity|]; intros ? ? ? ? E0; cbn [exec_step]; rewrite (exec_msg_plain_eq _ _ _ _ Hm); cbn [exec_msg_plain]; rewrite E; discriminate).
    destruct (respond_ok_lemma c s rid prov kind s' E) as (q & Hg & Hp & Ha & (q' & Hg' & Ha' & Hr' & _) & Hoth & _).
    assert (Hc : res_code (exec_step c s (Tx txh (MRespond rid prov kind))) = 0).
    { cbn [exec_step]. rewrite (exec_msg_plain_eq _ _ _ _ Hm). cbn [exec_msg_plain]. rewrite E. reflexivity. }
    assert (Hexp : height s <= q_exp q).
    { pose proof (l_exp _ _ Hl rid q Hg Ha) as Hmk. destruct (l_mark _ _ Hl _ _ Hmk) as (_ & Hh). exact Hh. }
    assert (Hhs : height s' = height s) by (destruct (respond_struct _ _ _ _ _ _ E) as (? & ? & _ & _ & _ & _ & _ & Hh); exact Hh).
    unfold RQ. split; [|split; [|split; [|split; [|exact Hhs]]]].
    + intros rid0 q0 Hg0. destruct (eq_dec rid0 rid) as [->|Hne].
      * rewrite Hg'. right. rewrite Hg in Hg0. inversion Hg0; subst q0. split; [exact Ha|]. split; [exact Ha'|]. split; [exact Hr'|].
        split; [exists txh, kind; rewrite Hp; reflexivity|]. split; [exact Hc|exact Hexp].
      * rewrite (Hoth rid0 Hne), Hg0. left. reflexivity.
    + intros rid0 q0' A B. exfalso. destruct (eq_dec rid0 rid) as [->|Hne]; [congruence|]. rewrite (Hoth rid0 Hne) in A. congruence.
    + intros Eb. discriminate Eb.
    + intros txh0 rid0 prov0 kind0 E0 _. inversion E0; subst. exists q, q'. repeat split; assumption.
  - (* the end blocker *)
    simpl in Hgood. unfold apply. cbn [exec_step]. destruct (0 <=? dt) eqn:Ed; [|apply Z.leb_gt in Ed; lia].
    destruct (end_block_reqs c s dt Hq Hb Hl Hold) as (A & B & C & D). cbv zeta in A, B, C, D.
    unfold RQ. split; [|split; [|split; [|split; [|exact D]]]].
    + intros rid q Hg. specialize (A rid q Hg). destruct (get rid (reqs (end_block c s dt))); [left; exact A|split; [reflexivity|exact A]].
    + intros rid q' Hg Hn. destruct (B rid q' Hg Hn) as (B1 & B2). split; [reflexivity|]. split; assumption.
    + intros _. exact C.
    + intros ? ? ? ? E0. discriminate E0.
  - apply RQ_same; [split; reflexivity|reflexivity|intros; discriminate].
  - apply RQ_same; [|reflexivity|intros; discriminate]. unfold apply. cbn [exec_step].
    destruct ((0 <=? f) && (0 <=? t)); [|split; reflexivity]. destruct (send _ _ _ _ _); split; reflexivity.
  - apply RQ_same; [|reflexivity|intros; discriminate]. unfold apply. cbn [exec_step].
    destruct (create_context _ _ _ _ _ _ _ _ _ _ _ _ _ _ _ _) as [[s1 id]|] eqn:E1; [|split; reflexivity].
    destruct (create_context_same _ _ _ _ _ _ _ _ _ _ _ _ _ _ _ _ _ _ E1) as (A & _ & B). exact (conj A B).
  - apply RQ_same; [|reflexivity|intros; discriminate]. unfold apply. cbn [exec_step].
    destruct (k_pause s id cn) as [s'| |] eqn:E; try (split; reflexivity). unfold k_pause in E. repeat dmn E; inversion E; subst; split; reflexivity.
  - apply RQ_same; [|reflexivity|intros; discriminate]. unfold apply. cbn [exec_step].
    destruct (k_start s id cn) as [s'| |] eqn:E; try (split; reflexivity). unfold k_start in E. repeat dmn E; inversion E; subst; split; reflexivity.
  - apply RQ_same; [|reflexivity|intros; discriminate]. unfold apply. cbn [exec_step].
    destruct (k_kill s id cn) as [s'| |] eqn:E; try (split; reflexivity). unfold k_kill in E. repeat dmn E; inversion E; subst; split; reflexivity.
  - apply RQ_same; [|reflexivity|intros; discriminate]. unfold apply. cbn [exec_step].
    destruct (bind c s svc p dd da pr qos true ow) as [s'| |] eqn:E; try (split; reflexivity). unfold bind in E. repeat dmn E; inversion E; subst; split; reflexivity.
Qed.

Lemma has_map_val {K V T} `{EqDec K} (f : V -> T) (k : K) (m : amap K V) :
  has k (map (fun e => (fst e, f (snd e))) m) = has k m.
Proof. unfold has. rewrite (get_map_val f). destruct (get k m); reflexivity. Qed.

Lemma in_obs_reqs (m : amap reqid request) e : NoDup (keys m) -> In e (map (fun e => (fst e, req_tuple (snd e))) m) ->
  exists q, get (fst e) m = Some q /\ snd e = req_tuple q.
Proof.
  intros Hnd Hin. apply in_map_iff in Hin. destruct Hin as ([rid q] & <- & Hin). exists q. split; [|reflexivity].
  apply In_get_NoDup; assumption.
Qed.

Lemma c08_clause1_obs c s st univ seen fired tr sc pcode pnc pcb :
  RQ c s st (apply c s st) -> NoDup (keys (reqs s)) -> NoDup (keys (reqs (apply c s st))) ->
  (forall rid, In rid seen -> rid_h rid < height s) ->
  holds_C08 seen fired tr sc (obs_of univ pcode pnc pcb s) st (obs_step univ c s st) <> 1.
Proof.
  intros (R1 & R2 & R3 & R4 & _) K K' Hseen E.
  apply first_fail_in in E; [|lia]. unfold holds_C08 in E; cbv zeta in E.
  unfold obs_step in E. cbn [obs_of o_reqs o_code o_height] in E.
  set (s' := apply c s st) in *.
  split_seg E.
  { (* the requests stored before *)
    apply in_map_iff in E. destruct E as ([rid qt] & E & Hin). cbv beta iota in E. injection E as E.
    destruct (in_obs_reqs _ _ K Hin) as (q & Hg & Eq). cbn [fst snd] in Hg, Eq. subst qt.
    rewrite (get_map_val req_tuple) in E. specialize (R1 rid q Hg).
    destruct (get rid (reqs s')) as [q'|]; cbn [option_map] in E.
    - destruct R1 as [->|(Ha & Ha' & Hr' & (txh & kind & Est) & Hc & Hexp)].
      + rewrite eqb_refl in E. destruct (r_active (req_tuple q)); discriminate E.
      + cbn [req_tuple r_active r_resp r_prov r_exp] in E. rewrite Ha, Ha' in E.
        destruct (q_resp q' =? 0) eqn:Er; [apply Z.eqb_eq in Er; contradiction|].
        rewrite Est in E. rewrite eqb_refl, Z.eqb_refl in E. rewrite Est in Hc. rewrite Hc in E. cbn [Z.eqb andb] in E.
        apply Z.leb_le in Hexp. rewrite Hexp in E. discriminate E.
    - destruct R1 as (Eb & Hx). rewrite Eb in E. cbn [req_tuple r_active r_exp andb] in E.
      destruct Hx as [Hx|Hx]; [rewrite Hx in E; discriminate E|]. rewrite Hx, Z.eqb_refl, orb_true_r in E. discriminate E. }
  split_seg E.
  { (* the requests created by the step *)
    apply in_map_iff in E. destruct E as ([rid qt] & E & Hin). injection E as E.
    unfold created_in in Hin. cbn [obs_of o_reqs] in Hin. apply filter_In in Hin. destruct Hin as (Hin & Hnew).
    destruct (in_obs_reqs _ _ K' Hin) as (q' & Hg & Eq). cbn [fst snd] in Hg, Eq, Hnew. subst qt.
    rewrite (has_map_val req_tuple) in Hnew. apply negb_true_iff in Hnew. unfold has in Hnew.
    destruct (get rid (reqs s)) eqn:Eg; [discriminate|].
    destruct (R2 rid q' Hg Eg) as (Eb & (Nh & Na & Nr & Nhh) & Nexp).
    cbn [fst snd req_tuple r_active r_resp r_exp r_height] in E. rewrite Eb, Na, Nr, Nhh, !Z.eqb_refl in E.
    apply Z.ltb_lt in Nexp. rewrite Nexp in E. cbn [andb orb Z.eqb] in E.
    destruct (existsb (eqb rid) seen) eqn:Ex; [|discriminate E].
    apply existsb_eqb_in in Ex. specialize (Hseen rid Ex). lia. }
  split_seg E.
  { (* after an end-block nothing active is at or past its expiry height *)
    destruct (is_endblock st) eqn:Eb; [|contradiction E].
    apply in_map_iff in E. destruct E as ([rid qt] & E & Hin). injection E as E.
    destruct (in_obs_reqs _ _ K' Hin) as (q' & Hg & Eq). cbn [fst snd] in Hg, Eq, E. subst qt.
    cbn [req_tuple r_active r_exp] in E. destruct (q_active q') eqn:Ea; [|discriminate E].
    pose proof (R3 eq_refl rid q' Hg Ea) as Hlt. apply Z.ltb_lt in Hlt. rewrite Hlt in E. discriminate E. }
  split_seg E.
  { (* a successful response *)
    destruct st as [txh m| | | | | | | |]; try contradiction E. destruct m; try contradiction E.
    destruct (res_code (exec_step c s (Tx txh (MRespond rid prov kind))) =? 0) eqn:Ec; [|contradiction E].
    apply Z.eqb_eq in Ec. destruct (R4 txh rid prov kind eq_refl Ec) as (q & q' & Hg & Hg' & Ha & Hp & Ha' & Hr').
    destruct E as [E|[]]. injection E as E. rewrite !(get_map_val req_tuple), Hg, Hg' in E.
    cbn [option_map req_tuple r_active r_prov r_resp] in E. rewrite Ha, Hp, Ha', Z.eqb_refl in E.
    destruct (q_resp q' =? 0) eqn:Er; [apply Z.eqb_eq in Er; contradiction|]. discriminate E. }
  not_here E.
Qed.

(** the checker's accumulator [seen] along the model's own trace *)
Fixpoint model_seen (univ : list (Z * Z)) (c : config) (s : state) (seen : list reqid) (steps : list step) : list reqid :=
  match steps with
  | [] => seen
  | st :: r => model_seen univ c (apply c s st)
                 (seen ++ map fst (created_in (obs_of univ 0 None [] s) (obs_step univ c s st))) r
  end.

Definition J1 (s : state) (seen : list reqid) : Prop :=
  SL s /\ (forall rid, has rid (reqs s) = true -> rid_h rid < height s) /\ (forall rid, In rid seen -> rid_h rid < height s).

Lemma J1_step univ c s st seen :
  c_msvc c < 0 -> fresh_ctx s st -> good_step st -> J1 s seen ->
  RQ c s st (apply c s st)
  /\ J1 (apply c s st) (seen ++ map fst (created_in (obs_of univ 0 None [] s) (obs_step univ c s st))).
Proof.
  intros Hm Hf Hg (((Hq & Hb) & Hl) & Hold & Hseen).
  pose proof (req_step c s st Hm Hq Hb Hl Hold Hg) as R. split; [exact R|].
  pose proof (SL_apply_m c s st Hf (conj (conj Hq Hb) Hl)) as S'. split; [exact S'|].
  destruct R as (R1 & R2 & _ & _ & Hh). destruct S' as ((_ & Hb') & _).
  assert (Hle : height s <= height (apply c s st)) by (rewrite Hh; destruct (is_endblock st); lia).
  assert (New : forall rid q', get rid (reqs (apply c s st)) = Some q' -> rid_h rid < height (apply c s st)).
  { intros rid q' Hg'. destruct (get rid (reqs s)) as [q|] eqn:Eg.
    - assert (Hh0 : has rid (reqs s) = true) by (unfold has; rewrite Eg; reflexivity). specialize (Hold rid Hh0). lia.
    - destruct (R2 rid q' Hg' Eg) as (Eb & (Nh & _) & _). rewrite Hh, Eb, Nh. lia. }
  split.
  - intros rid Hhas. unfold has in Hhas. destruct (get rid (reqs (apply c s st))) as [q'|] eqn:Eg; [|discriminate]. exact (New rid q' Eg).
  - intros rid Hin. apply in_app_or in Hin. destruct Hin as [Hin|Hin]; [specialize (Hseen rid Hin); lia|].
    apply in_map_iff in Hin. destruct Hin as ([rid0 qt] & <- & Hin). unfold created_in, obs_step in Hin. cbn [obs_of o_reqs] in Hin.
    apply filter_In in Hin. destruct Hin as (Hin & _). destruct (in_obs_reqs _ _ (b_keys _ Hb') Hin) as (q' & Hg' & _). exact (New _ q' Hg').
Qed.

Lemma clause1_trace univ c : c_msvc c < 0 -> forall steps s seen,
  fresh_history c s steps -> Forall good_step steps -> J1 s seen ->
  forall pre st post, steps = pre ++ st :: post ->
  forall fired tr sc pcode pnc pcb,
    holds_C08 (model_seen univ c s seen pre) fired tr sc (obs_of univ pcode pnc pcb (run c s pre)) st (obs_step univ c (run c s pre) st) <> 1.
Proof.
  intros Hm. induction steps as [|st0 r IH]; intros s seen Hf Hg HJ pre st post E fired tr sc pcode pnc pcb.
  - destruct pre; discriminate E.
  - destruct Hf as (F1 & F2). inversion Hg as [|? ? G1 G2]; subst.
    destruct (J1_step univ c s st0 seen Hm F1 G1 HJ) as (R & HJ').
    destruct pre as [|st1 pre'].
    + cbn [app] in E. injection E as <- _. cbn [run model_seen].
      destruct HJ as (((_ & Hb) & _) & _ & Hseen). destruct HJ' as (((_ & Hb') & _) & _).
      apply c08_clause1_obs; [exact R|exact (b_keys _ Hb)|exact (b_keys _ Hb')|exact Hseen].
    + cbn [app] in E. injection E as <- E. cbn [run model_seen]. eapply (IH _ _ F2 G2 HJ' pre' st post E).
Qed.

Theorem model_passes_C08_clause_1_lemma :
  forall c steps h0 t0 l0 univ,
    c_msvc c < 0 -> NoDup (create_txhs steps) -> Forall good_step steps ->
    forall pre st post, steps = pre ++ st :: post ->
    forall fired tr sc pcode pnc pcb,
      let s := run c (init h0 t0 l0) pre in
      holds_C08 (model_seen univ c (init h0 t0 l0) [] pre) fired tr sc (obs_of univ pcode pnc pcb s) st (obs_step univ c s st) <> 1.
Proof.
  intros c steps h0 t0 l0 univ Hm Hnd Hg pre st post E fired tr sc pcode pnc pcb s. subst s.
  apply (clause1_trace univ c Hm steps (init h0 t0 l0) []) with (post := post); try assumption.
  - apply fresh_history_from_distinct_hashes_lemma. exact Hnd.
  - split; [split; [apply SInv_init|apply LInv_init]|]. split; [intros rid H; discriminate H|intros rid []].
Qed.

(** ** C07, clause 5: the destination of an answered request's fee (one model step) *)
Lemma obal_obs_of_any univ code nc cb s a d :
  obal (obs_of univ code nc cb s) a d = if existsb (eqb (a, d)) univ then bal (led s) a d else 0.
Proof.
  unfold obal, obs_of, getz. cbn [o_bals]. induction univ as [|k0 u IH]; simpl; [reflexivity|].
  destruct (eq_dec (a, d) k0) as [<-|Hne].
  - rewrite eqb_refl. reflexivity.
  - rewrite (proj2 (eqb_false_iff (a, d) k0) Hne). exact IH.
Qed.

Theorem model_passes_C07_clause_5_lemma :
  forall c s st univ pcode pnc pcb,
    0 <= c_tax c ->
    (forall rid q, get rid (reqs s) = Some q -> 0 <= q_fee q /\ In (TAX, q_fd q) univ /\ In (REQ, q_fd q) univ) ->
    holds_C07 c (obs_of univ pcode pnc pcb s) st (obs_step univ c s st) <> 5.
Proof.
  intros c s st univ pcode pnc pcb Htax Hreq E.
  apply first_fail_in in E; [|lia]. unfold holds_C07 in E; cbv zeta in E.
  do 6 (split_seg E; [not_here E|]).
  destruct st as [txh m| | | | | | | |]; try contradiction E. destruct m; try contradiction E.
  unfold obs_step, apply in E. cbn [exec_step exec_msg exec_msg_plain] in E.
  destruct (respond c s rid prov kind) as [s'| |] eqn:Er.
  2,3: (cbn [obs_of o_code res_code Z.eqb] in E; contradiction E).
  destruct (respond_ok_lemma c s rid prov kind s' Er) as (q & Hg & Hp & Ha & _ & _ & Htx). cbv zeta in Htx.
  destruct Htx as (Hrange & Hsend & Hearn & _).
  destruct (Hreq rid q Hg) as (Hfee & Hut & Hur).
  set (p := obs_of univ pcode pnc pcb s) in *.
  set (o := obs_of univ (res_code (Okk s')) (step_newctx s (Tx txh (MRespond rid prov kind)) (Okk s')) (skipn (length (cblog s)) (cblog s')) s') in *.
  change (o_code o) with 0 in E. cbn [Z.eqb] in E.
  change (o_reqs p) with (map (fun e : reqid * request => (fst e, req_tuple (snd e))) (reqs s)) in E.
  rewrite (get_map_val req_tuple), Hg in E. cbn [option_map] in E.
  change (r_fee (req_tuple q)) with (q_fee q) in E. change (r_fd (req_tuple q)) with (q_fd q) in E.
  change (o_earned o) with (earned s') in E. change (o_earned p) with (earned s) in E.
  rewrite <- (tax_of_floor c (q_fee q) Hfee Htax) in E.
  destruct (send_Some _ _ _ _ _ _ Hsend) as (_ & Hmv & _ & Hoth).
  destruct Hmv as (Hr & Ht); [unfold REQ, TAX; lia|].
  subst p o. rewrite !obal_obs_of in E by assumption.
  destruct E as [E|[E|[E|[E|[]]]]]; injection E as E.
  - rewrite Hearn in E. replace (getz (prov, q_fd q) (earned s) + (q_fee q - tax_of c (q_fee q)) - getz (prov, q_fd q) (earned s))
      with (q_fee q - tax_of c (q_fee q)) in E by lia. rewrite Z.eqb_refl in E. discriminate E.
  - rewrite Ht in E. replace (bal (led s) TAX (q_fd q) + tax_of c (q_fee q) - bal (led s) TAX (q_fd q)) with (tax_of c (q_fee q)) in E by lia.
    rewrite Z.eqb_refl in E. discriminate E.
  - rewrite Hr in E. replace (bal (led s) REQ (q_fd q) - (bal (led s) REQ (q_fd q) - tax_of c (q_fee q))) with (tax_of c (q_fee q)) in E by lia.
    rewrite Z.eqb_refl in E. discriminate E.
  - refine (eq_true_false_abs _ _ E). apply forallb_forall. intros a Ha0. apply forallb_forall. intros d _.
    unfold actors_of in Ha0. apply filter_In in Ha0. destruct Ha0 as (_ & Hge). apply Z.leb_le in Hge.
    rewrite !obal_obs_of_any. destruct (existsb (eqb (a, d)) univ); [|reflexivity]. apply Z.eqb_eq. apply Hoth; intros Ek; inversion Ek; unfold REQ, TAX in *; lia.
Qed.

(** ** C08, clause 5: the end blocker issues nothing for a paused context (one model step) *)
Lemma expired_handler_ctx_other c t id' id : id <> id' -> get id (ctxs (expired_batch_handler c t id')) = get id (ctxs t).
Proof.
  intros Hne. unfold expired_batch_handler. destruct (get id' (ctxs t)) as [x|] eqn:Eg; [|reflexivity].
  set (pr := if x_brun x then _ else (t, x)).
  assert (C : ctxs (fst pr) = ctxs t).
  { subst pr. destruct (x_brun x); [|reflexivity]. simpl.
    destruct (expire_fold_qsame c x (filter (fun e => in_batch id' (x_batch x) e && q_active (snd e)) (reqs t)) t) as (C & _).
    destruct (x_mod x); [|exact C]. destruct (callback_qsame (fold_left (expire_request c x) (filter (fun e => in_batch id' (x_batch x) e && q_active (snd e)) (reqs t)) t) id') as (C2 & _). congruence. }
  destruct pr as [s1 x1]. simpl in C. cbv zeta.
  destruct (x_state x1 =? 2); destruct (x_state x1 =? 0); try destruct (x_rep x1 && _); simpl; rewrite ?C;
    rewrite ?get_del_other, ?get_set_other by exact Hne; reflexivity.
Qed.

Lemma expired_handler_paused c t id x :
  get id (ctxs t) = Some x -> x_state x = 1 ->
  exists x', get id (ctxs (expired_batch_handler c t id)) = Some x' /\ x_state x' = 1 /\ x_batch x' = x_batch x.
Proof.
  intros Hg Hs. unfold expired_batch_handler. rewrite Hg.
  set (pr := if x_brun x then _ else (t, x)).
  assert (C : ctxs (fst pr) = ctxs t /\ x_state (snd pr) = 1 /\ x_batch (snd pr) = x_batch x).
  { subst pr. destruct (x_brun x); [|repeat split; assumption]. simpl. split; [|split; [exact Hs|reflexivity]].
    destruct (expire_fold_qsame c x (filter (fun e => in_batch id (x_batch x) e && q_active (snd e)) (reqs t)) t) as (C & _).
    destruct (x_mod x); [|exact C]. destruct (callback_qsame (fold_left (expire_request c x) (filter (fun e => in_batch id (x_batch x) e && q_active (snd e)) (reqs t)) t) id) as (C2 & _). congruence. }
  destruct pr as [s1 x1]. simpl in C. destruct C as (C & S1 & B1). cbv zeta. rewrite S1. simpl.
  exists x1. rewrite get_set_same. repeat split; assumption.
Qed.

Lemma new_handler_ctx_other t id' id : id <> id' -> get id (ctxs (new_batch_handler t id')) = get id (ctxs t).
Proof.
  intros Hne. unfold new_batch_handler. destruct (get id' (ctxs t)) as [x|] eqn:Eg; [|reflexivity].
  destruct (x_state x =? 0); [|reflexivity].
  destruct (filter_provs t x (x_provs x)) as [ps|]; [|simpl; rewrite get_set_other by exact Hne; reflexivity].
  cbv zeta. destruct (_ && _); [|simpl; rewrite get_set_other by exact Hne; reflexivity].
  destruct (debit_all _ _ _); [simpl; rewrite get_set_other by exact Hne; reflexivity|].
  unfold on_paused. destruct (x_mod x); simpl; rewrite get_set_other by exact Hne; reflexivity.
Qed.

Lemma end_block_paused c s dt id x :
  get id (ctxs s) = Some x -> x_state x = 1 ->
  forall x', get id (ctxs (end_block c s dt)) = Some x' -> x_batch x' = x_batch x.
Proof.
  intros Hg Hs. unfold end_block. cbv zeta.
  set (P := fun t : state => forall x', get id (ctxs t) = Some x' -> x_state x' = 1 /\ x_batch x' = x_batch x).
  set (s1 := fold_left (expired_batch_handler c) _ s).
  assert (H1 : P s1).
  { subst s1. apply (fold_left_inv P).
    - intros t id' Ht x' Hg'. destruct (eq_dec id id') as [<-|Hne].
      + destruct (get id (ctxs t)) as [x0|] eqn:E0.
        * destruct (Ht x0 E0) as (S0 & B0). destruct (expired_handler_paused c t id x0 E0 S0) as (x1 & G1 & S1 & B1).
          rewrite G1 in Hg'. inversion Hg'; subst x'. split; [exact S1|congruence].
        * unfold expired_batch_handler in Hg'. rewrite E0 in Hg'. rewrite E0 in Hg'. discriminate.
      + rewrite (expired_handler_ctx_other c t id' id Hne) in Hg'. exact (Ht x' Hg').
    - intros x' Hg'. rewrite Hg in Hg'. inversion Hg'; subst. split; [exact Hs|reflexivity]. }
  set (s2 := fold_left new_batch_handler _ s1).
  assert (H2 : P s2).
  { subst s2. apply (fold_left_inv P); [|exact H1].
    intros t id' Ht x' Hg'. destruct (eq_dec id id') as [<-|Hne].
    - destruct (get id (ctxs t)) as [x0|] eqn:E0.
      + destruct (Ht x0 E0) as (S0 & B0).
        destruct (paused_issues_nothing_lemma t id x0 E0) as (_ & _ & C & _); [lia|]. cbv zeta in C. rewrite C, E0 in Hg'.
        inversion Hg'; subst x'. split; assumption.
      + unfold new_batch_handler in Hg'. rewrite E0 in Hg'. rewrite E0 in Hg'. discriminate.
    - rewrite (new_handler_ctx_other t id' id Hne) in Hg'. exact (Ht x' Hg'). }
  intros x' Hg'. exact (proj2 (H2 x' Hg')).
Qed.

Theorem model_passes_C08_clause_5_lemma :
  forall c s st univ seen fired tr sc pcode pnc pcb,
    NoDup (keys (ctxs s)) ->
    holds_C08 seen fired tr sc (obs_of univ pcode pnc pcb s) st (obs_step univ c s st) <> 5.
Proof.
  intros c s st univ seen fired tr sc pcode pnc pcb Hk E.
  apply first_fail_in in E; [|lia]. unfold holds_C08 in E; cbv zeta in E.
  do 7 (split_seg E; [not_here E|]). split_seg E; [|not_here E].
  destruct st as [|dt| | | | | | |]; try contradiction E. cbn [is_endblock] in E.
  split_seg E; [not_here E|].
  apply in_map_iff in E. destruct E as ([id xt] & E & Hin). injection E as E.
  destruct (in_obs_ctxs univ _ _ _ s _ Hk Hin) as (x & Hg & Ex). cbn [fst snd] in Hg, Ex. subst xt.
  unfold obs_step in E. cbn [obs_of o_ctxs] in E. rewrite (get_map_val ctx_tuple) in E. cbn [ctx_tuple t_state t_batch] in E.
  destruct (x_state x =? 1) eqn:Es; [|discriminate E]. apply Z.eqb_eq in Es. cbn [negb orb] in E.
  unfold apply in E. cbn [exec_step] in E. destruct (0 <=? dt).
  - destruct (get id (ctxs (end_block c s dt))) as [x'|] eqn:Eg'; cbn [option_map] in E; [|discriminate E].
    cbn [ctx_tuple t_batch] in E. rewrite (end_block_paused c s dt id x Hg Es x' Eg'), Z.eqb_refl in E. discriminate E.
  - rewrite Hg in E. cbn [option_map ctx_tuple t_batch] in E. rewrite Z.eqb_refl in E. discriminate E.
Qed.

(** ** the checker on the model's own case: which clause codes it can never report *)
Definition ok7 (k : Z) : Prop := k <> 1 /\ k <> 2 /\ k <> 3 /\ k <> 5.
Definition ok8 (k : Z) : Prop := k <> 1 /\ k <> 2 /\ k <> 5 /\ k <> 6 /\ k <> 8 /\ k <> 9.

Definition step_okq (Q7 Q8 : Z -> Prop) (univ : list (Z * Z)) (c : config) (s : state) (seen : list reqid) (st : step) : Prop :=
  forall pc pn pb fired tr sc,
    Q7 (holds_C07 c (obs_of univ pc pn pb s) st (obs_step univ c s st))
    /\ Q8 (holds_C08 seen fired tr sc (obs_of univ pc pn pb s) st (obs_step univ c s st)).
Notation step_ok := (step_okq ok7 ok8).

Lemma check_from_cons c s p seen fired tr sc st o rest i corr p7 c7 p8 c8 :
  check_from c s p seen fired tr sc ((st, Full o) :: rest) i corr p7 c7 p8 c8 =
  check_from c (apply c s st) o (seen ++ map fst (created_in p o)) (fired ++ cb_keys (o_cb o))
    (update_track tr p st o) (update_sched sc tr p st o) rest (i + 1)
    (if (corr <? 0) && negb (corr_step s st (exec_step c s st) (apply c s st) o) then i else corr)
    (if (p7 <? 0) && negb (holds_C07 c p st o =? 0) then i else p7)
    (if (p7 <? 0) && negb (holds_C07 c p st o =? 0) then holds_C07 c p st o else c7)
    (if (p8 <? 0) && negb (holds_C08 seen fired tr sc p st o =? 0) then i else p8)
    (if (p8 <? 0) && negb (holds_C08 seen fired tr sc p st o =? 0) then holds_C08 seen fired tr sc p st o else c8).
Proof.
  cbn [check_from resolve]. unfold apply.
  destruct ((p7 <? 0) && negb (holds_C07 c p st o =? 0)); destruct ((p8 <? 0) && negb (holds_C08 seen fired tr sc p st o =? 0)); reflexivity.
Qed.

Lemma check_from_clauses_q (Q7 Q8 : Z -> Prop) univ c : forall rest s seen,
  (forall pre st post, rest = pre ++ st :: post -> step_okq Q7 Q8 univ c (run c s pre) (model_seen univ c s seen pre) st) ->
  forall pc pn pb fired tr sc i corr p7 c7 p8 c8,
    let '(_, _, c7', _, c8') :=
      check_from c s (obs_of univ pc pn pb s) seen fired tr sc (model_trace univ c s rest) i corr p7 c7 p8 c8 in
    (c7' = c7 \/ Q7 c7') /\ (c8' = c8 \/ Q8 c8').
Proof.
  induction rest as [|st r IH]; intros s seen H pc pn pb fired tr sc i corr p7 c7 p8 c8.
  - cbn [model_trace check_from]. split; left; reflexivity.
  - cbn [model_trace]. rewrite check_from_cons.
    destruct (H [] st r eq_refl pc pn pb fired tr sc) as (K7 & K8). cbn [run model_seen] in K7, K8.
    set (p := obs_of univ pc pn pb s) in *. set (o := obs_step univ c s st) in *.
    set (k7 := holds_C07 c p st o) in *. set (k8 := holds_C08 seen fired tr sc p st o) in *.
    assert (H' : forall pre st0 post, r = pre ++ st0 :: post ->
              step_okq Q7 Q8 univ c (run c (apply c s st) pre)
                (model_seen univ c (apply c s st) (seen ++ map fst (created_in p o)) pre) st0).
    { intros pre st0 post E. exact (H (st :: pre) st0 post (f_equal (cons st) E)). }
    pose proof (IH (apply c s st) (seen ++ map fst (created_in p o)) H'
                  (res_code (exec_step c s st)) (step_newctx s st (exec_step c s st)) (skipn (length (cblog s)) (cblog (apply c s st)))
                  (fired ++ cb_keys (o_cb o)) (update_track tr p st o) (update_sched sc tr p st o) (i + 1)
                  (if (corr <? 0) && negb (corr_step s st (exec_step c s st) (apply c s st) o) then i else corr)
                  (if (p7 <? 0) && negb (k7 =? 0) then i else p7) (if (p7 <? 0) && negb (k7 =? 0) then k7 else c7)
                  (if (p8 <? 0) && negb (k8 =? 0) then i else p8) (if (p8 <? 0) && negb (k8 =? 0) then k8 else c8)) as G.
    change (obs_of univ (res_code (exec_step c s st)) (step_newctx s st (exec_step c s st)) (skipn (length (cblog s)) (cblog (apply c s st))) (apply c s st))
      with o in G.
    match goal with |- context [check_from ?a ?b ?cc ?d ?e ?f ?g ?h ?ii ?j ?k ?l ?m ?n] =>
      destruct (check_from a b cc d e f g h ii j k l m n) as [[[[r1 r2] r3] r4] r5] end.
    destruct G as (G7 & G8). split.
    + destruct G7 as [G7|G7]; [|right; exact G7]. destruct ((p7 <? 0) && negb (k7 =? 0)); [right; rewrite G7; exact K7|left; exact G7].
    + destruct G8 as [G8|G8]; [|right; exact G8]. destruct ((p8 <? 0) && negb (k8 =? 0)); [right; rewrite G8; exact K8|left; exact G8].
Qed.

Lemma check_from_clauses univ c : forall rest s seen,
  (forall pre st post, rest = pre ++ st :: post -> step_ok univ c (run c s pre) (model_seen univ c s seen pre) st) ->
  forall pc pn pb fired tr sc i corr p7 c7 p8 c8,
    let '(_, _, c7', _, c8') :=
      check_from c s (obs_of univ pc pn pb s) seen fired tr sc (model_trace univ c s rest) i corr p7 c7 p8 c8 in
    (c7' = c7 \/ ok7 c7') /\ (c8' = c8 \/ ok8 c8').
Proof. exact (check_from_clauses_q ok7 ok8 univ c). Qed.

Lemma create_txhs_app a b : create_txhs (a ++ b) = create_txhs a ++ create_txhs b.
Proof. induction a as [|st a IH]; [reflexivity|]. cbn [app create_txhs]. destruct (create_txh st); rewrite IH; reflexivity. Qed.

Lemma NoDup_app_l {A} (a b : list A) : NoDup (a ++ b) -> NoDup a.
Proof.
  induction a as [|x a IH]; simpl; intros H; [constructor|]. inversion H as [|? ? Hn Hnd]; subst.
  constructor; [|apply IH; exact Hnd]. intros Hin. apply Hn. apply in_or_app. left. exact Hin.
Qed.

Lemma run_snoc c s pre st : run c s (pre ++ [st]) = apply c (run c s pre) st.
Proof. rewrite run_app. reflexivity. Qed.

Lemma model_step_ok c steps h0 t0 l0 univ :
  c_msvc c < 0 -> 0 <= c_tax c -> clean l0 -> NoDup (create_txhs steps) -> Forall good_step steps ->
  In (DEP, BASE) univ -> (forall d, In d (denoms c) -> In (REQ, d) univ) ->
  (forall pre st post, steps = pre ++ st :: post -> forall rid q, get rid (reqs (run c (init h0 t0 l0) pre)) = Some q ->
     In (TAX, q_fd q) univ /\ In (REQ, q_fd q) univ) ->
  forall pre st post, steps = pre ++ st :: post ->
    step_ok univ c (run c (init h0 t0 l0) pre) (model_seen univ c (init h0 t0 l0) [] pre) st.
Proof.
  intros Hm Htax Hcl Hnd Hgood Hu1 Hu2 Hu5 pre st post E pc pn pb fired tr sc.
  assert (Hnd1 : NoDup (create_txhs (pre ++ [st]))).
  { rewrite E in Hnd. replace (pre ++ st :: post) with ((pre ++ [st]) ++ post) in Hnd by (rewrite <- app_assoc; reflexivity).
    rewrite create_txhs_app in Hnd. exact (NoDup_app_l _ _ Hnd). }
  assert (Hnd0 : NoDup (create_txhs pre)).
  { rewrite create_txhs_app in Hnd1. exact (NoDup_app_l _ _ Hnd1). }
  set (s := run c (init h0 t0 l0) pre) in *.
  split.
  - (* C07 *)
    pose proof (model_passes_C07_clauses_1_2_lemma c (pre ++ [st]) h0 t0 l0 univ (obs_of univ pc pn pb s) st
                  (res_code (exec_step c s st)) (step_newctx s st (exec_step c s st)) (skipn (length (cblog s)) (cblog (apply c s st)))
                  Hcl Hnd1 Hu1 Hu2) as A.
    pose proof (model_passes_C07_clause_3_lemma c (pre ++ [st]) h0 t0 l0 univ (obs_of univ pc pn pb s) st
                  (res_code (exec_step c s st)) (step_newctx s st (exec_step c s st)) (skipn (length (cblog s)) (cblog (apply c s st)))) as B.
    cbv zeta in A, B. rewrite run_snoc in A, B. fold s in A, B.
    destruct (reach_G c pre h0 t0 l0 Hcl Hnd0) as (_ & _ & _ & _ & He). fold s in He.
    pose proof (model_passes_C07_clause_5_lemma c s st univ pc pn pb Htax) as C.
    split; [exact (proj1 A)|]. split; [exact (proj2 A)|]. split; [exact B|]. apply C.
    intros rid q Hg. split; [exact (e_fee _ He rid q (get_In _ _ _ Hg))|]. exact (Hu5 pre st post E rid q Hg).
  - (* C08 *)
    pose proof (model_passes_C08_clause_1_lemma c steps h0 t0 l0 univ Hm Hnd Hgood pre st post E fired tr sc pc pn pb) as A1. cbv zeta in A1. fold s in A1.
    pose proof (model_passes_C08_clause_8_lemma c (pre ++ [st]) h0 t0 l0 univ (model_seen univ c (init h0 t0 l0) [] pre) fired tr sc (obs_of univ pc pn pb s) st
                  (res_code (exec_step c s st)) (step_newctx s st (exec_step c s st)) (skipn (length (cblog s)) (cblog (apply c s st))) Hnd1) as A8.
    pose proof (model_passes_C08_clause_9_lemma c (pre ++ [st]) h0 t0 l0 univ (model_seen univ c (init h0 t0 l0) [] pre) fired tr sc (obs_of univ pc pn pb s) st
                  (res_code (exec_step c s st)) (step_newctx s st (exec_step c s st)) (skipn (length (cblog s)) (cblog (apply c s st))) Hnd1) as A9.
    cbv zeta in A8, A9. rewrite run_snoc in A8, A9. fold s in A8, A9.
    pose proof (reach_K c pre h0 t0 l0) as Hk. fold s in Hk.
    split; [exact A1|]. split; [apply model_passes_C08_clause_2_lemma|]. split; [apply model_passes_C08_clause_5_lemma; exact Hk|].
    split; [apply model_passes_C08_clause_6_lemma|]. split; [exact A8|exact A9].
Qed.

(** the checker run on the case the driver would print for the model itself *)
Theorem model_passes_clauses_lemma :
  forall c steps h0 t0 l0 univ,
    c_msvc c < 0 -> 0 <= c_tax c -> clean l0 -> NoDup (create_txhs steps) -> Forall good_step steps ->
    In (DEP, BASE) univ -> (forall d, In d (denoms c) -> In (REQ, d) univ) ->
    (forall pre st post, steps = pre ++ st :: post -> forall rid q, get rid (reqs (run c (init h0 t0 l0) pre)) = Some q ->
       In (TAX, q_fd q) univ /\ In (REQ, q_fd q) univ) ->
    ledger_of (obs_of univ 0 None [] (init h0 t0 l0)) = l0 ->
    let cs := model_case univ c h0 t0 l0 steps in
    (forall corr p k, check_case_C07 cs = (corr, p, k) -> k <> 1 /\ k <> 2 /\ k <> 3 /\ k <> 5)
    /\ (forall corr p k, check_case_C08 cs = (corr, p, k) -> k <> 1 /\ k <> 2 /\ k <> 5 /\ k <> 6 /\ k <> 8 /\ k <> 9).
Proof.
  intros c steps h0 t0 l0 univ Hm Htax Hcl Hnd Hgood Hu1 Hu2 Hu5 Hl cs.
  pose proof (model_step_ok c steps h0 t0 l0 univ Hm Htax Hcl Hnd Hgood Hu1 Hu2 Hu5) as H.
  assert (G : forall corr0, let '(_, _, c7', _, c8') :=
              check_from c (init h0 t0 l0) (obs_of univ 0 None [] (init h0 t0 l0)) [] [] [] [] (model_trace univ c (init h0 t0 l0) steps) 1 corr0 (-1) 0 (-1) 0 in
              ok7 c7' /\ ok8 c8').
  { intros corr0. pose proof (check_from_clauses univ c steps (init h0 t0 l0) [] H 0 None [] [] [] [] 1 corr0 (-1) 0 (-1) 0) as G.
    destruct (check_from _ _ _ _ _ _ _ _ _ _ _ _ _ _) as [[[[r1 r2] r3] r4] r5]. destruct G as (G7 & G8). split.
    - destruct G7 as [->|G7]; [repeat split; discriminate|exact G7].
    - destruct G8 as [->|G8]; [repeat split; discriminate|exact G8]. }
  assert (E : check_all cs = check_from c (init h0 t0 l0) (obs_of univ 0 None [] (init h0 t0 l0)) [] [] [] [] (model_trace univ c (init h0 t0 l0) steps) 1
                (if corr_state (init h0 t0 l0) (obs_of univ 0 None [] (init h0 t0 l0)) then -1 else 0) (-1) 0 (-1) 0).
  { subst cs. unfold check_all, model_case. rewrite Hl. reflexivity. }
  specialize (G (if corr_state (init h0 t0 l0) (obs_of univ 0 None [] (init h0 t0 l0)) then -1 else 0)).
  unfold check_case_C07, check_case_C08. rewrite E.
  destruct (check_from _ _ _ _ _ _ _ _ _ _ _ _ _ _) as [[[[r1 r2] r3] r4] r5]. destruct G as (G7 & G8).
  split; intros corr p k Ek; inversion Ek; subst; assumption.
Qed.

(** a decidable form of "the observed universe covers the fee denoms of the stored requests" *)
Fixpoint fdsb (univ : list (Z * Z)) (c : config) (s : state) (steps : list step) : bool :=
  forallb (fun e : reqid * request => existsb (eqb (TAX, q_fd (snd e))) univ && existsb (eqb (REQ, q_fd (snd e))) univ) (reqs s)
  && match steps with [] => true | st :: r => fdsb univ c (apply c s st) r end.

Lemma fdsb_ok univ c : forall steps s, fdsb univ c s steps = true ->
  forall pre st post, steps = pre ++ st :: post -> forall rid q, get rid (reqs (run c s pre)) = Some q ->
    In (TAX, q_fd q) univ /\ In (REQ, q_fd q) univ.
Proof.
  induction steps as [|st0 r IH]; intros s H pre st post E rid q Hg; [destruct pre; discriminate E|].
  cbn [fdsb] in H. apply andb_true_iff in H. destruct H as (H0 & H1).
  destruct pre as [|st1 pre'].
  - cbn [run] in Hg. apply get_In in Hg. pose proof (proj1 (forallb_forall _ _) H0 _ Hg) as Hq. cbn [snd] in Hq.
    apply andb_true_iff in Hq. destruct Hq as (A & B). split; apply existsb_eqb_in; assumption.
  - cbn [app] in E. injection E as <- E. cbn [run] in Hg. exact (IH _ H1 pre' st post E rid q Hg).
Qed.

Theorem model_passes_clauses_C07_lemma :
  forall c steps h0 t0 l0 univ,
    c_msvc c < 0 -> 0 <= c_tax c -> clean l0 -> NoDup (create_txhs steps) -> Forall good_step steps ->
    In (DEP, BASE) univ -> (forall d, In d (denoms c) -> In (REQ, d) univ) ->
    (forall pre st post, steps = pre ++ st :: post -> forall rid q, get rid (reqs (run c (init h0 t0 l0) pre)) = Some q ->
       In (TAX, q_fd q) univ /\ In (REQ, q_fd q) univ) ->
    ledger_of (obs_of univ 0 None [] (init h0 t0 l0)) = l0 ->
    forall corr p k, check_case_C07 (model_case univ c h0 t0 l0 steps) = (corr, p, k) ->
      k <> 1 /\ k <> 2 /\ k <> 3 /\ k <> 5.
Proof. intros c steps h0 t0 l0 univ H1 H2 H3 H4 H5 H6 H7 H8 H9. exact (proj1 (model_passes_clauses_lemma c steps h0 t0 l0 univ H1 H2 H3 H4 H5 H6 H7 H8 H9)). Qed.

Theorem model_passes_clauses_C08_lemma :
  forall c steps h0 t0 l0 univ,
    c_msvc c < 0 -> 0 <= c_tax c -> clean l0 -> NoDup (create_txhs steps) -> Forall good_step steps ->
    In (DEP, BASE) univ -> (forall d, In d (denoms c) -> In (REQ, d) univ) ->
    (forall pre st post, steps = pre ++ st :: post -> forall rid q, get rid (reqs (run c (init h0 t0 l0) pre)) = Some q ->
       In (TAX, q_fd q) univ /\ In (REQ, q_fd q) univ) ->
    ledger_of (obs_of univ 0 None [] (init h0 t0 l0)) = l0 ->
    forall corr p k, check_case_C08 (model_case univ c h0 t0 l0 steps) = (corr, p, k) ->
      k <> 1 /\ k <> 2 /\ k <> 5 /\ k <> 6 /\ k <> 8 /\ k <> 9.
Proof. intros c steps h0 t0 l0 univ H1 H2 H3 H4 H5 H6 H7 H8 H9. exact (proj2 (model_passes_clauses_lemma c steps h0 t0 l0 univ H1 H2 H3 H4 H5 H6 H7 H8 H9)). Qed.

Theorem model_passes_C08_clauses_2_6_lemma :
  forall c s st univ seen fired tr sc pcode pnc pcb,
    let k := holds_C08 seen fired tr sc (obs_of univ pcode pnc pcb s) st (obs_step univ c s st) in
    k <> 2 /\ k <> 6.
Proof.
  intros c s st univ seen fired tr sc pcode pnc pcb k. split;
    [apply model_passes_C08_clause_2_lemma|apply model_passes_C08_clause_6_lemma].
Qed.

(** ** the correspondence of the model with its own projection: all maps have distinct keys *)
Definition KInv (s : state) : Prop :=
  NoDup (keys (binds s)) /\ NoDup (keys (vols s)) /\ NoDup (keys (newmark s)) /\ NoDup (keys (expmark s)).
Definition kr (s s' : state) : Prop := KInv s -> KInv s'.
Lemma kr_refl s : kr s s.
Proof. intros H. exact H. Qed.
Lemma kr_trans s1 s2 s3 : kr s1 s2 -> kr s2 s3 -> kr s1 s3.
Proof. intros A B H. apply B, A, H. Qed.

Ltac kr_close :=
  let A := fresh in let B := fresh in let C := fresh in let D := fresh in
  intros (A & B & C & D); unfold KInv; simpl;
  repeat split; repeat first [assumption | apply keys_set_NoDup | apply keys_del_NoDup].
Ltac kr_frame H := repeat dmn H; inversion H; subst; clear H; kr_close.

Lemma respond_kr c s rid prov kind s' : respond c s rid prov kind = Okk s' -> kr s s'.
Proof.
  intros H. unfold respond in H. destruct rid as [[[id batch] hh] ii].
  destruct ((0 <=? prov) && negb (kind =? 2)); cbv beta iota zeta delta [negb] in H; [|discriminate].
  match type of H with context [@get reqid request ?i ?k (reqs s)] =>
    destruct (@get reqid request i k (reqs s)) as [q|] eqn:Eq end; [|discriminate].
  destruct (get id (ctxs s)) as [x|] eqn:Ex; [|discriminate].
  destruct (q_prov q =? prov) eqn:Ep; cbv beta iota zeta delta [negb] in H; [|discriminate].
  destruct (q_active q); cbv beta iota zeta delta [negb] in H; [|discriminate].
  destruct (add_earned_fee c s prov (q_fd q) (q_fee q)) as [s1|] eqn:Ef; [|discriminate].
  assert (F : binds s1 = binds s /\ vols s1 = vols s /\ newmark s1 = newmark s /\ expmark s1 = expmark s /\ ctxs s1 = ctxs s).
  { unfold add_earned_fee in Ef. destruct (send _ _ _ _ _); [|discriminate].
    destruct (q_fee q <? _); [discriminate|]. inversion Ef; subst. repeat split; reflexivity. }
  destruct F as (F1 & F2 & F3 & F4 & F5). intros (A & B & C & D).
  destruct (x_bresp (cx_bresp x (x_bresp x + 1)) =? x_breq (cx_bresp x (x_bresp x + 1)));
    [destruct (x_mod (cx_bresp x (x_bresp x + 1)))|]; inversion H; subst s'; clear H; unfold KInv; simpl;
    try (unfold callback; simpl; rewrite F5, Ex; simpl); rewrite ?F1, ?F2, ?F3, ?F4;
    repeat split; repeat first [assumption | apply keys_set_NoDup].
Qed.

Lemma exec_msg_plain_kr c s txh m s' : exec_msg_plain c s txh m = Okk s' -> kr s s'.
Proof.
  intros H. destruct m; simpl in H.
  - unfold define in H. kr_frame H.
  - unfold bind in H. kr_frame H.
  - unfold update_binding in H. kr_frame H.
  - unfold set_withdraw in H. kr_frame H.
  - unfold enable in H. kr_frame H.
  - unfold disable in H. kr_frame H.
  - unfold refund_deposit in H. kr_frame H.
  - unfold call in H. destruct (negb _); [discriminate|].
    destruct (create_context _ _ _ _ _ _ _ _ _ _ _ _ _ _ _ _) as [[s1 id]|] eqn:E; [|discriminate].
    inversion H; subst. unfold create_context in E. kr_frame E.
  - eapply respond_kr. exact H.
  - unfold msg_ctl, k_pause in H. kr_frame H.
  - unfold msg_ctl, k_start in H. kr_frame H.
  - unfold msg_ctl, k_kill in H. kr_frame H.
  - unfold update_context in H. kr_frame H.
  - unfold withdraw in H. kr_frame H.
Qed.

Lemma call_module_kr c s txh svc provs cons inok capd capa timeout rep freq total s' :
  call_module c s txh svc provs cons inok capd capa timeout rep freq total = Okk s' -> kr s s'.
Proof.
  unfold call_module. intros H. destruct (negb _); [discriminate|].
  destruct (create_context c s txh svc [c_mprov c] cons inok capd capa 1 false 0 0 0 0 false) as [[s1 id]|] eqn:E1; [|discriminate].
  assert (I1 : kr s s1) by (clear H; unfold create_context in E1; kr_frame E1).
  destruct (get id (ctxs s1)) as [x|] eqn:Ex; [|discriminate].
  destruct (filter_provs s1 x (x_provs x)) as [[|p0 ps]|]; try discriminate.
  destruct (debit_all (led s1) (x_cons x) (total_fees s1 x [c_mprov c])) as [l|]; [|discriminate].
  set (s2 := initiate_ms (with_led s1 (credit_all l REQ (total_fees s1 x [c_mprov c]))) id x [c_mprov c]) in *.
  assert (I2 : kr s1 s2) by (subst s2; kr_close).
  destruct (respond c s2 (id, x_batch x + 1, height s, 0) (c_mprov c) 1) as [s3| |] eqn:Er; try discriminate.
  pose proof (respond_kr _ _ _ _ _ _ Er) as I3. cbv beta iota in H. injection H as <-.
  eapply kr_trans; [exact I1|]. eapply kr_trans; [exact I2|]. eapply kr_trans; [exact I3|]. kr_close.
Qed.

Lemma exec_msg_kr c s txh m s' : exec_msg c s txh m = Okk s' -> kr s s'.
Proof.
  intros H. destruct m; cbn [exec_msg] in H; try (eapply exec_msg_plain_kr; eassumption).
  - destruct (module_served c svc); [discriminate|].
    eapply (exec_msg_plain_kr c s txh (MBind svc prov depd depa pr qos optok owner)); exact H.
  - destruct (module_served c svc); [eapply call_module_kr; exact H|].
    eapply (exec_msg_plain_kr c s txh (MCall svc provs cons inok capd capa timeout rep freq total)); exact H.
Qed.

Lemma expire_kr c x s e : kr s (expire_request c x s e).
Proof.
  destruct e as [rid q]. unfold expire_request, slash.
  destruct (get (x_svc x, q_prov q) (binds s)) as [b|]; [|destruct (send _ _ _ _ _); kr_close].
  destruct (b_dep b <? _); [destruct (send _ _ _ _ _); kr_close|].
  destruct (send (led s) DEP TAX BASE _) as [l|]; [|destruct (send _ _ _ _ _); kr_close].
  cbv zeta. destruct (send _ _ _ _ _); kr_close.
Qed.

Lemma expired_handler_kr c s id : kr s (expired_batch_handler c s id).
Proof.
  unfold expired_batch_handler. destruct (get id (ctxs s)) as [x|]; [|apply kr_refl].
  set (pr := if x_brun x then _ else (s, x)).
  assert (H1 : kr s (fst pr)).
  { subst pr. destruct (x_brun x); [|apply kr_refl]. simpl.
    assert (F : kr s (fold_left (expire_request c x) (filter (fun e => in_batch id (x_batch x) e && q_active (snd e)) (reqs s)) s)).
    { apply (fold_left_inv (fun t => kr s t)); [|apply kr_refl]. intros t e Ht. eapply kr_trans; [exact Ht|apply expire_kr]. }
    destruct (x_mod x); [|exact F]. eapply kr_trans; [exact F|]. unfold callback. destruct (get id (ctxs _)); kr_close. }
  destruct pr as [s1 x1]. simpl in H1. cbv zeta. eapply kr_trans; [exact H1|].
  destruct (x_state x1 =? 2); destruct (x_state x1 =? 0); try destruct (x_rep x1 && _); kr_close.
Qed.

Lemma new_handler_kr s id : kr s (new_batch_handler s id).
Proof.
  unfold new_batch_handler. destruct (get id (ctxs s)) as [x|]; [|apply kr_refl].
  destruct (x_state x =? 0); [|kr_close].
  destruct (filter_provs s x (x_provs x)) as [ps|]; [|kr_close].
  cbv zeta. destruct (_ && _); [|kr_close].
  destruct (debit_all _ _ _); [kr_close|].
  unfold on_paused. destruct (x_mod x); kr_close.
Qed.

Lemma apply_kr c s st : kr s (apply c s st).
Proof.
  unfold apply. destruct (exec_step c s st) as [s'| |] eqn:E; try apply kr_refl.
  destruct st; cbn [exec_step] in E.
  - eapply exec_msg_kr. exact E.
  - destruct (0 <=? dt); [|discriminate]. inversion E; subst. unfold end_block. cbv zeta.
    set (s1 := fold_left (expired_batch_handler c) _ s).
    assert (H1 : kr s s1).
    { subst s1. apply (fold_left_inv (fun t => kr s t)); [|apply kr_refl].
      intros t id Ht. eapply kr_trans; [exact Ht|apply expired_handler_kr]. }
    set (s2 := fold_left new_batch_handler _ s1).
    assert (H2 : kr s s2).
    { subst s2. apply (fold_left_inv (fun t => kr s t)); [|exact H1].
      intros t id Ht. eapply kr_trans; [exact Ht|apply new_handler_kr]. }
    eapply kr_trans; [exact H2|]. clearbody s2. kr_close.
  - inversion E; subst. kr_close.
  - kr_frame E.
  - destruct (create_context _ _ _ _ _ _ _ _ _ _ _ _ _ _ _ _) as [[s1 id]|] eqn:E1; [|discriminate].
    inversion E; subst. unfold create_context in E1. kr_frame E1.
  - unfold k_pause in E. kr_frame E.
  - unfold k_start in E. kr_frame E.
  - unfold k_kill in E. kr_frame E.
  - unfold bind in E. kr_frame E.
Qed.

Lemma reach_KI c steps : forall s, KInv s -> KInv (run c s steps).
Proof. induction steps as [|st r IH]; intros s H; [exact H|]. cbn [run]. apply IH. apply apply_kr. exact H. Qed.

Lemma same_map_self {K V T} `{EqDec K} `{EqDec T} (f : V -> T) (m : amap K V) :
  NoDup (keys m) -> same_map f m (map (fun e => (fst e, f (snd e))) m) = true.
Proof.
  intros Hnd. unfold same_map. rewrite map_length, Nat.eqb_refl. cbn [andb]. apply forallb_forall.
  intros e Hin. apply in_map_iff in Hin. destruct Hin as ([k v] & <- & Hin). cbn [fst snd].
  rewrite (In_get_NoDup k v m Hnd Hin). apply eqb_refl.
Qed.

Lemma same_map_id {K} `{EqDec K} (m : amap K Z) : NoDup (keys m) -> same_map (fun v : Z => v) m m = true.
Proof.
  intros Hnd. unfold same_map. rewrite Nat.eqb_refl. cbn [andb]. apply forallb_forall.
  intros [k v] Hin. cbn [fst snd]. rewrite (In_get_NoDup k v m Hnd Hin). apply eqb_refl.
Qed.

Lemma same_set_self {A} `{EqDec A} (l : list A) : same_set l l = true.
Proof.
  unfold same_set. rewrite Nat.eqb_refl. cbn [andb]. apply forallb_forall. intros x Hin. apply existsb_eqb_in. exact Hin.
Qed.

Definition AK (s : state) : Prop := KInv s /\ NoDup (keys (ctxs s)) /\ SInv s /\ TInv s.

Lemma corr_state_self univ code nc cb s : AK s -> corr_state s (obs_of univ code nc cb s) = true.
Proof.
  intros ((K1 & K2 & K3 & K4) & Kc & (_ & Hb) & Ht). unfold corr_state. cbn [obs_of o_height o_time o_bals o_binds o_ctxs o_reqs o_vols o_earned o_oearned o_newq o_newmark o_expq o_expmark].
  rewrite !Z.eqb_refl, (same_map_self bind_tuple _ K1), (same_map_self ctx_tuple _ Kc), (same_map_self req_tuple _ (b_keys _ Hb)),
    (same_map_id _ K2), (same_map_id _ (t_ek _ Ht)), (same_map_id _ (t_ok _ Ht)), !same_set_self, (same_map_id _ K3), (same_map_id _ K4).
  cbn [andb]. rewrite !andb_true_r. apply forallb_forall. intros e Hin. apply in_map_iff in Hin. destruct Hin as (k & <- & _). apply Z.eqb_refl.
Qed.

Lemma corr_step_self univ c s st : AK (apply c s st) ->
  corr_step s st (exec_step c s st) (apply c s st) (obs_step univ c s st) = true.
Proof.
  intros H. unfold corr_step, obs_step. cbn [obs_of o_code o_newctx o_cb]. rewrite Z.eqb_refl, !eqb_refl. cbn [andb].
  apply corr_state_self. exact H.
Qed.

Lemma AK_apply c s st : fresh_ctx s st -> AK s -> AK (apply c s st).
Proof.
  intros Hf (K & Kc & S & T). split; [apply apply_kr; exact K|]. split; [apply apply_kc; exact Kc|].
  split; [apply SInv_apply_m; assumption|apply TInv_apply; exact T].
Qed.

Lemma check_from_corr univ c : forall rest s, fresh_history c s rest -> AK s ->
  forall pc pn pb seen fired tr sc i corr p7 c7 p8 c8,
    let '(corr', _, _, _, _) :=
      check_from c s (obs_of univ pc pn pb s) seen fired tr sc (model_trace univ c s rest) i corr p7 c7 p8 c8 in
    corr' = corr.
Proof.
  induction rest as [|st r IH]; intros s Hf Ha pc pn pb seen fired tr sc i corr p7 c7 p8 c8.
  - reflexivity.
  - cbn [model_trace]. rewrite check_from_cons. destruct Hf as (F1 & F2). pose proof (AK_apply c s st F1 Ha) as Ha'.
    rewrite (corr_step_self univ c s st Ha'). cbn [negb]. rewrite andb_false_r.
    exact (IH (apply c s st) F2 Ha' (res_code (exec_step c s st)) (step_newctx s st (exec_step c s st)) (skipn (length (cblog s)) (cblog (apply c s st))) _ _ _ _ _ _ _ _ _ _).
Qed.

Lemma AK_init h0 t0 l0 : AK (init h0 t0 l0).
Proof.
  split; [unfold KInv; simpl; repeat split; constructor|]. split; [simpl; constructor|]. split; [apply SInv_init|apply TInv_init].
Qed.

(** the checker never sees the model diverge from its own observation *)
Theorem model_corresponds_to_itself_lemma :
  forall c steps h0 t0 l0 univ,
    NoDup (create_txhs steps) ->
    ledger_of (obs_of univ 0 None [] (init h0 t0 l0)) = l0 ->
    let cs := model_case univ c h0 t0 l0 steps in
    (forall corr p k, check_case_C07 cs = (corr, p, k) -> corr = -1)
    /\ (forall corr p k, check_case_C08 cs = (corr, p, k) -> corr = -1).
Proof.
  intros c steps h0 t0 l0 univ Hnd Hl cs.
  pose proof (fresh_history_from_distinct_hashes_lemma c steps h0 t0 l0 Hnd) as Hf.
  assert (E : check_all cs = check_from c (init h0 t0 l0) (obs_of univ 0 None [] (init h0 t0 l0)) [] [] [] [] (model_trace univ c (init h0 t0 l0) steps) 1
                (if corr_state (init h0 t0 l0) (obs_of univ 0 None [] (init h0 t0 l0)) then -1 else 0) (-1) 0 (-1) 0).
  { subst cs. unfold check_all, model_case. rewrite Hl. reflexivity. }
  rewrite (corr_state_self univ 0 None [] _ (AK_init h0 t0 l0)) in E.
  pose proof (check_from_corr univ c steps (init h0 t0 l0) Hf (AK_init h0 t0 l0) 0 None [] [] [] [] [] 1 (-1) (-1) 0 (-1) 0) as G.
  unfold check_case_C07, check_case_C08. rewrite E.
  destruct (check_from _ _ _ _ _ _ _ _ _ _ _ _ _ _) as [[[[r1 r2] r3] r4] r5].
  split; intros corr p k Ek; inversion Ek; subst; reflexivity.
Qed.

(** the same for ANY configuration (module-served services included, any end-block step), without clause 1 *)
Definition ok8m (k : Z) : Prop := k <> 2 /\ k <> 5 /\ k <> 6 /\ k <> 8 /\ k <> 9.

Lemma model_step_ok_any c steps h0 t0 l0 univ :
  0 <= c_tax c -> clean l0 -> NoDup (create_txhs steps) ->
  In (DEP, BASE) univ -> (forall d, In d (denoms c) -> In (REQ, d) univ) ->
  (forall pre st post, steps = pre ++ st :: post -> forall rid q, get rid (reqs (run c (init h0 t0 l0) pre)) = Some q ->
     In (TAX, q_fd q) univ /\ In (REQ, q_fd q) univ) ->
  forall pre st post, steps = pre ++ st :: post ->
    step_okq ok7 ok8m univ c (run c (init h0 t0 l0) pre) (model_seen univ c (init h0 t0 l0) [] pre) st.
Proof.
  intros Htax Hcl Hnd Hu1 Hu2 Hu5 pre st post E pc pn pb fired tr sc.
  assert (Hnd1 : NoDup (create_txhs (pre ++ [st]))).
  { rewrite E in Hnd. replace (pre ++ st :: post) with ((pre ++ [st]) ++ post) in Hnd by (rewrite <- app_assoc; reflexivity).
    rewrite create_txhs_app in Hnd. exact (NoDup_app_l _ _ Hnd). }
  assert (Hnd0 : NoDup (create_txhs pre)).
  { rewrite create_txhs_app in Hnd1. exact (NoDup_app_l _ _ Hnd1). }
  set (s := run c (init h0 t0 l0) pre) in *.
  split.
  - pose proof (model_passes_C07_clauses_1_2_lemma c (pre ++ [st]) h0 t0 l0 univ (obs_of univ pc pn pb s) st
                  (res_code (exec_step c s st)) (step_newctx s st (exec_step c s st)) (skipn (length (cblog s)) (cblog (apply c s st)))
                  Hcl Hnd1 Hu1 Hu2) as A.
    pose proof (model_passes_C07_clause_3_lemma c (pre ++ [st]) h0 t0 l0 univ (obs_of univ pc pn pb s) st
                  (res_code (exec_step c s st)) (step_newctx s st (exec_step c s st)) (skipn (length (cblog s)) (cblog (apply c s st)))) as B.
    cbv zeta in A, B. rewrite run_snoc in A, B. fold s in A, B.
    destruct (reach_G c pre h0 t0 l0 Hcl Hnd0) as (_ & _ & _ & _ & He). fold s in He.
    pose proof (model_passes_C07_clause_5_lemma c s st univ pc pn pb Htax) as C.
    split; [exact (proj1 A)|]. split; [exact (proj2 A)|]. split; [exact B|]. apply C.
    intros rid q Hg. split; [exact (e_fee _ He rid q (get_In _ _ _ Hg))|]. exact (Hu5 pre st post E rid q Hg).
  - pose proof (model_passes_C08_clause_8_lemma c (pre ++ [st]) h0 t0 l0 univ (model_seen univ c (init h0 t0 l0) [] pre) fired tr sc (obs_of univ pc pn pb s) st
                  (res_code (exec_step c s st)) (step_newctx s st (exec_step c s st)) (skipn (length (cblog s)) (cblog (apply c s st))) Hnd1) as A8.
    pose proof (model_passes_C08_clause_9_lemma c (pre ++ [st]) h0 t0 l0 univ (model_seen univ c (init h0 t0 l0) [] pre) fired tr sc (obs_of univ pc pn pb s) st
                  (res_code (exec_step c s st)) (step_newctx s st (exec_step c s st)) (skipn (length (cblog s)) (cblog (apply c s st))) Hnd1) as A9.
    cbv zeta in A8, A9. rewrite run_snoc in A8, A9. fold s in A8, A9.
    pose proof (reach_K c pre h0 t0 l0) as Hk. fold s in Hk.
    split; [apply model_passes_C08_clause_2_lemma|]. split; [apply model_passes_C08_clause_5_lemma; exact Hk|].
    split; [apply model_passes_C08_clause_6_lemma|]. split; [exact A8|exact A9].
Qed.

Theorem model_passes_clauses_any_lemma :
  forall c steps h0 t0 l0 univ,
    0 <= c_tax c -> clean l0 -> NoDup (create_txhs steps) ->
    In (DEP, BASE) univ -> (forall d, In d (denoms c) -> In (REQ, d) univ) ->
    (forall pre st post, steps = pre ++ st :: post -> forall rid q, get rid (reqs (run c (init h0 t0 l0) pre)) = Some q ->
       In (TAX, q_fd q) univ /\ In (REQ, q_fd q) univ) ->
    ledger_of (obs_of univ 0 None [] (init h0 t0 l0)) = l0 ->
    let cs := model_case univ c h0 t0 l0 steps in
    (forall corr p k, check_case_C07 cs = (corr, p, k) -> corr = -1 /\ k <> 1 /\ k <> 2 /\ k <> 3 /\ k <> 5)
    /\ (forall corr p k, check_case_C08 cs = (corr, p, k) -> corr = -1 /\ k <> 2 /\ k <> 5 /\ k <> 6 /\ k <> 8 /\ k <> 9).
Proof.
  intros c steps h0 t0 l0 univ Htax Hcl Hnd Hu1 Hu2 Hu5 Hl cs.
  destruct (model_corresponds_to_itself_lemma c steps h0 t0 l0 univ Hnd Hl) as (C7 & C8). fold cs in C7, C8.
  pose proof (model_step_ok_any c steps h0 t0 l0 univ Htax Hcl Hnd Hu1 Hu2 Hu5) as H.
  assert (G : forall corr0, let '(_, _, c7', _, c8') :=
              check_from c (init h0 t0 l0) (obs_of univ 0 None [] (init h0 t0 l0)) [] [] [] [] (model_trace univ c (init h0 t0 l0) steps) 1 corr0 (-1) 0 (-1) 0 in
              ok7 c7' /\ ok8m c8').
  { intros corr0. pose proof (check_from_clauses_q ok7 ok8m univ c steps (init h0 t0 l0) [] H 0 None [] [] [] [] 1 corr0 (-1) 0 (-1) 0) as G.
    destruct (check_from _ _ _ _ _ _ _ _ _ _ _ _ _ _) as [[[[r1 r2] r3] r4] r5]. destruct G as (G7 & G8). split.
    - destruct G7 as [->|G7]; [repeat split; discriminate|exact G7].
    - destruct G8 as [->|G8]; [repeat split; discriminate|exact G8]. }
  assert (E : check_all cs = check_from c (init h0 t0 l0) (obs_of univ 0 None [] (init h0 t0 l0)) [] [] [] [] (model_trace univ c (init h0 t0 l0) steps) 1
                (if corr_state (init h0 t0 l0) (obs_of univ 0 None [] (init h0 t0 l0)) then -1 else 0) (-1) 0 (-1) 0).
  { subst cs. unfold check_all, model_case. rewrite Hl. reflexivity. }
  specialize (G (if corr_state (init h0 t0 l0) (obs_of univ 0 None [] (init h0 t0 l0)) then -1 else 0)).
  split; intros corr p k Ek.
  - split; [exact (C7 corr p k Ek)|]. unfold check_case_C07 in Ek. rewrite E in Ek.
    destruct (check_from _ _ _ _ _ _ _ _ _ _ _ _ _ _) as [[[[r1 r2] r3] r4] r5]. inversion Ek; subst. exact (proj1 G).
  - split; [exact (C8 corr p k Ek)|]. unfold check_case_C08 in Ek. rewrite E in Ek.
    destruct (check_from _ _ _ _ _ _ _ _ _ _ _ _ _ _) as [[[[r1 r2] r3] r4] r5]. inversion Ek; subst. exact (proj2 G).
Qed.

(** ** C08, clause 3: one-shot contexts *)
Record NR (s : state) : Prop := {
  n_b : forall id x, get id (ctxs s) = Some x -> x_rep x = false -> x_batch x <= 1;
  n_m : forall id x, get id (ctxs s) = Some x -> x_rep x = false -> 1 <= x_batch x -> has id (newmark s) = false;
  n_s : forall id x, get id (ctxs s) = Some x -> x_rep x = false -> 1 <= x_batch x -> x_state x <> 1
}.

Lemma NR_same s t : ctxs t = ctxs s -> newmark t = newmark s -> NR s -> NR t.
Proof. intros A B [I1 I2 I3]. constructor; rewrite ?A, ?B; assumption. Qed.

(** a step that touches the contexts and the new-batch markers at one id only *)
Lemma NR_upd s t id :
  NR s ->
  (forall id0, id0 <> id -> get id0 (ctxs t) = get id0 (ctxs s) /\ has id0 (newmark t) = has id0 (newmark s)) ->
  (forall x', get id (ctxs t) = Some x' -> x_rep x' = false ->
     x_batch x' <= 1 /\ (1 <= x_batch x' -> has id (newmark t) = false /\ x_state x' <> 1)) ->
  NR t.
Proof.
  intros [I1 I2 I3] Hoth Hid. constructor; intros id0 x Hg Hr.
  - destruct (eq_dec id0 id) as [->|Hne]; [exact (proj1 (Hid x Hg Hr))|]. rewrite (proj1 (Hoth id0 Hne)) in Hg. exact (I1 id0 x Hg Hr).
  - intros Hb. destruct (eq_dec id0 id) as [->|Hne]; [exact (proj1 (proj2 (Hid x Hg Hr) Hb))|].
    rewrite (proj2 (Hoth id0 Hne)). rewrite (proj1 (Hoth id0 Hne)) in Hg. exact (I2 id0 x Hg Hr Hb).
  - intros Hb. destruct (eq_dec id0 id) as [->|Hne]; [exact (proj2 (proj2 (Hid x Hg Hr) Hb))|].
    rewrite (proj1 (Hoth id0 Hne)) in Hg. exact (I3 id0 x Hg Hr Hb).
Qed.

Ltac oth Hne := split; simpl; rewrite ?get_del_other, ?get_set_other, ?has_del_other, ?has_set_other by exact Hne; reflexivity.

Lemma NR_keep s t id x :
  NR s -> get id (ctxs s) = Some x ->
  (forall id0, id0 <> id -> get id0 (ctxs t) = get id0 (ctxs s) /\ has id0 (newmark t) = has id0 (newmark s)) ->
  (forall x', get id (ctxs t) = Some x' ->
     x_rep x' = x_rep x
     /\ (x_rep x = false -> x_batch x' = x_batch x /\ (x_state x' = 1 -> x_state x = 1)
                            /\ (has id (newmark t) = true -> has id (newmark s) = true))) ->
  NR t.
Proof.
  intros Hn Hg Hoth Hid. apply (NR_upd s t id Hn Hoth). intros x' Hg' Hr'.
  destruct (Hid x' Hg') as (Er & Hk). rewrite Er in Hr'. destruct (Hk Hr') as (Eb & Es & Em). rewrite Eb.
  split; [exact (n_b _ Hn id x Hg Hr')|]. intros Hb. split.
  - destruct (has id (newmark t)) eqn:Eh; [|reflexivity]. rewrite (n_m _ Hn id x Hg Hr' Hb) in Em. specialize (Em eq_refl). discriminate.
  - intros E1. exact (n_s _ Hn id x Hg Hr' Hb (Es E1)).
Qed.

Lemma NR_create c s txh svc provs cons inok capd capa timeout rep freq total st thr md s' id :
  create_context c s txh svc provs cons inok capd capa timeout rep freq total st thr md = Some (s', id) -> NR s -> NR s'.
Proof.
  intros H Hn. unfold create_context in H. repeat dmn H; inversion H; subst; clear H;
    (eapply (NR_upd s _ (txh, iidx s)); [exact Hn|intros id0 Hne; oth Hne|]);
    intros x' Hg Hr; simpl in Hg; rewrite get_set_same in Hg; inversion Hg; subst; simpl; split; try lia; intros; lia.
Qed.

Lemma NR_respond c s rid prov kind s' : respond c s rid prov kind = Okk s' -> NR s -> NR s'.
Proof.
  intros H Hn. unfold respond in H. destruct rid as [[[id batch] hh] ii].
  destruct ((0 <=? prov) && negb (kind =? 2)); cbv beta iota zeta delta [negb] in H; [|discriminate].
  match type of H with context [@get reqid request ?i ?k (reqs s)] =>
    destruct (@get reqid request i k (reqs s)) as [q|] eqn:Eq end; [|discriminate].
  destruct (get id (ctxs s)) as [x|] eqn:Ex; [|discriminate].
  destruct (q_prov q =? prov) eqn:Ep; cbv beta iota zeta delta [negb] in H; [|discriminate].
  destruct (q_active q); cbv beta iota zeta delta [negb] in H; [|discriminate].
  destruct (add_earned_fee c s prov (q_fd q) (q_fee q)) as [s1|] eqn:Ef; [|discriminate].
  assert (F : newmark s1 = newmark s /\ ctxs s1 = ctxs s).
  { unfold add_earned_fee in Ef. destruct (send _ _ _ _ _); [|discriminate].
    destruct (q_fee q <? _); [discriminate|]. inversion Ef; subst. split; reflexivity. }
  destruct F as (F3 & F5).
  destruct (x_bresp (cx_bresp x (x_bresp x + 1)) =? x_breq (cx_bresp x (x_bresp x + 1)));
    [destruct (x_mod (cx_bresp x (x_bresp x + 1)))|]; inversion H; subst s'; clear H;
    (eapply (NR_keep s _ id x Hn Ex);
      [intros id0 Hne; split; simpl; try (unfold callback; simpl; rewrite F5, Ex; simpl); rewrite ?F3, ?F5; rewrite ?get_set_other by exact Hne; reflexivity
      |intros x' Hg; simpl in Hg; try (unfold callback in Hg; simpl in Hg; rewrite F5, Ex in Hg; simpl in Hg); rewrite get_set_same in Hg; inversion Hg; subst x'; simpl;
       split; [reflexivity|intros _; split; [reflexivity|split; [tauto|try (unfold callback; simpl; rewrite F5, Ex; simpl); rewrite F3; tauto]]]]).
Qed.

Lemma NR_pause s id cons s' : k_pause s id cons = Okk s' -> NR s -> NR s'.
Proof.
  intros H Hn. unfold k_pause in H. destruct (get id (ctxs s)) as [x|] eqn:Ex; [|discriminate].
  destruct (x_mod x && _); [discriminate|]. destruct (x_rep x) eqn:Er; cbn [negb] in H; [|discriminate].
  destruct (negb (x_state x =? 0)); [discriminate|]. inversion H; subst; clear H.
  eapply (NR_keep s _ id x Hn Ex); [intros id0 Hne; oth Hne|].
  intros x' Hg. simpl in Hg. rewrite get_set_same in Hg. inversion Hg; subst. split; [reflexivity|]. rewrite Er. discriminate.
Qed.

Lemma NR_kill s id cons s' : k_kill s id cons = Okk s' -> NR s -> NR s'.
Proof.
  intros H Hn. unfold k_kill in H. destruct (get id (ctxs s)) as [x|] eqn:Ex; [|discriminate].
  destruct (x_mod x && _); [discriminate|]. destruct (x_rep x) eqn:Er; cbn [negb] in H; [|discriminate].
  inversion H; subst; clear H.
  eapply (NR_keep s _ id x Hn Ex); [intros id0 Hne; oth Hne|].
  intros x' Hg. simpl in Hg. rewrite get_set_same in Hg. inversion Hg; subst. split; [reflexivity|]. rewrite Er. discriminate.
Qed.

Lemma NR_start s id cons s' : k_start s id cons = Okk s' -> NR s -> NR s'.
Proof.
  intros H Hn. unfold k_start in H. destruct (get id (ctxs s)) as [x|] eqn:Ex; [|discriminate].
  destruct (x_mod x && _); [discriminate|]. destruct (x_state x =? 1) eqn:Es; cbn [negb] in H; [|discriminate]. apply Z.eqb_eq in Es.
  assert (Hb : x_rep x = false -> x_batch x <= 0).
  { intros Hr. destruct (Z_le_gt_dec 1 (x_batch x)) as [Hge|Hlt]; [|lia]. exfalso. exact (n_s _ Hn id x Ex Hr Hge Es). }
  inversion H; subst; clear H.
  eapply (NR_upd s _ id Hn).
  - intros id0 Hne. destruct (negb _ && negb _); oth Hne.
  - intros x' Hg Hr. assert (E : x' = cx_state x 0).
    { destruct (negb _ && negb _); simpl in Hg; rewrite get_set_same in Hg; congruence. }
    subst x'. simpl in Hr |- *. specialize (Hb Hr). split; [lia|intros; lia].
Qed.

Lemma NR_update_context c s id provs capd capa timeout freq total cons s' :
  update_context c s id provs capd capa timeout freq total cons = Okk s' -> NR s -> NR s'.
Proof.
  intros H Hn. unfold update_context in H. destruct (negb _); [discriminate|]. destruct (negb _); [discriminate|].
  destruct (get id (ctxs s)) as [x|] eqn:Ex; [|discriminate].
  repeat match type of H with (if ?g then Rejj else _) = _ => destruct g; [discriminate|] end.
  cbv zeta in H.
  repeat match type of H with (if ?g then Rejj else _) = _ => destruct g; [discriminate|] end.
  inversion H; subst; clear H.
  eapply (NR_keep s _ id x Hn Ex); [intros id0 Hne; oth Hne|].
  intros x' Hg. simpl in Hg. rewrite get_set_same in Hg. inversion Hg; subst; clear Hg.
  destruct (capa =? 0); destruct provs; destruct (0 <? _); destruct (0 <? _); destruct (total =? 0); simpl;
    (split; [reflexivity|intros _; split; [reflexivity|split; tauto]]).
Qed.

Ltac nr_same H := repeat dmn H; inversion H; subst; clear H; apply NR_same; reflexivity.

Lemma NR_exec_msg_plain c s txh m s' : exec_msg_plain c s txh m = Okk s' -> NR s -> NR s'.
Proof.
  intros H Hn. destruct m; simpl in H.
  - unfold define in H. revert Hn. nr_same H.
  - unfold bind in H. revert Hn. nr_same H.
  - unfold update_binding in H. revert Hn. nr_same H.
  - unfold set_withdraw in H. revert Hn. nr_same H.
  - unfold enable in H. revert Hn. nr_same H.
  - unfold disable in H. revert Hn. nr_same H.
  - unfold refund_deposit in H. revert Hn. nr_same H.
  - unfold call in H. destruct (negb _); [discriminate|].
    destruct (create_context _ _ _ _ _ _ _ _ _ _ _ _ _ _ _ _) as [[s1 id]|] eqn:E; [|discriminate].
    inversion H; subst. eapply NR_create; eassumption.
  - eapply NR_respond; eassumption.
  - unfold msg_ctl in H. repeat (destruct (negb _); [discriminate|]). eapply NR_pause; eassumption.
  - unfold msg_ctl in H. repeat (destruct (negb _); [discriminate|]). eapply NR_start; eassumption.
  - unfold msg_ctl in H. repeat (destruct (negb _); [discriminate|]). eapply NR_kill; eassumption.
  - eapply NR_update_context; eassumption.
  - unfold withdraw in H. revert Hn. nr_same H.
Qed.

Lemma NR_call_module c s txh svc provs cons inok capd capa timeout rep freq total s' :
  call_module c s txh svc provs cons inok capd capa timeout rep freq total = Okk s' -> NR s -> NR s'.
Proof.
  intros H Hn.
  destruct (call_module_shape _ _ _ _ _ _ _ _ _ _ _ _ _ _ H) as (s1 & id & x & q' & E1 & _ & Ex & _ & Xb & _ & _ & C & _ & _ & _ & _ & Nm & _).
  pose proof (NR_create _ _ _ _ _ _ _ _ _ _ _ _ _ _ _ _ _ _ E1 Hn) as N1.
  eapply (NR_upd s1 s' id N1).
  - intros id0 Hne. rewrite C, Nm. rewrite get_set_other by exact Hne. split; reflexivity.
  - intros x' Hg Hr. rewrite C, get_set_same in Hg. inversion Hg; subst. simpl. rewrite Xb. split; [lia|intros; lia].
Qed.

Lemma NR_exec_msg c s txh m s' : exec_msg c s txh m = Okk s' -> NR s -> NR s'.
Proof.
  intros H Hn. destruct m; cbn [exec_msg] in H; try (eapply NR_exec_msg_plain; eassumption).
  - destruct (module_served c svc); [discriminate|].
    eapply (NR_exec_msg_plain c s txh (MBind svc prov depd depa pr qos optok owner)); eassumption.
  - destruct (module_served c svc); [eapply NR_call_module; eassumption|].
    eapply (NR_exec_msg_plain c s txh (MCall svc provs cons inok capd capa timeout rep freq total)); eassumption.
Qed.

Lemma NR_expired_handler c t id : NR t -> NR (expired_batch_handler c t id).
Proof.
  intros Hn. unfold expired_batch_handler. destruct (get id (ctxs t)) as [x|] eqn:Eg; [|exact Hn].
  set (pr := if x_brun x then _ else (t, x)).
  assert (Hpr : ctxs (fst pr) = ctxs t /\ newmark (fst pr) = newmark t
                /\ x_rep (snd pr) = x_rep x /\ x_batch (snd pr) = x_batch x /\ x_state (snd pr) = x_state x).
  { subst pr. destruct (x_brun x); [|repeat split; reflexivity]. cbn [fst snd].
    destruct (expire_fold_qsame c x (filter (fun e => in_batch id (x_batch x) e && q_active (snd e)) (reqs t)) t) as (C & _ & Nm & _).
    destruct (x_mod x).
    - destruct (callback_qsame (fold_left (expire_request c x) (filter (fun e => in_batch id (x_batch x) e && q_active (snd e)) (reqs t)) t) id) as (C2 & _ & Nm2 & _).
      split; [congruence|]. split; [congruence|]. repeat split; reflexivity.
    - split; [exact C|]. split; [exact Nm|]. repeat split; reflexivity. }
  destruct pr as [s1 x1]. cbn [fst snd] in Hpr. destruct Hpr as (C & Nm & Xr & Xb & Xs). cbv zeta.
  eapply (NR_keep t _ id x Hn Eg).
  - intros id0 Hne. destruct (x_state x1 =? 2); destruct (x_state x1 =? 0); try destruct (x_rep x1 && _); simpl; rewrite ?C, ?Nm;
      rewrite ?get_del_other, ?get_set_other, ?has_set_other by exact Hne; split; reflexivity.
  - intros x' Hg. destruct (x_state x1 =? 2); destruct (x_state x1 =? 0); try destruct (x_rep x1) eqn:Er1; cbn [andb] in Hg |- *;
      try destruct ((x_total x1 <? 0) || (x_batch x1 <? x_total x1)); simpl in Hg |- *; rewrite ?C in Hg;
      rewrite ?get_del_same, ?get_set_same in Hg; try discriminate Hg; inversion Hg; subst x'; (split; [congruence|]);
      intros Hr; try congruence;
      (split; [exact Xb|]); (split; [rewrite Xs; tauto|]); rewrite ?Nm; tauto.
Qed.

Lemma NR_new_handler t id : QInv t -> In (height t, id) (newq t) -> NR t -> NR (new_batch_handler t id).
Proof.
  intros Hq Hin Hn. unfold new_batch_handler. destruct (get id (ctxs t)) as [x|] eqn:Eg; [|exact Hn].
  assert (Hm : has id (newmark t) = true) by (apply has_get; eexists; exact (q_new_mark _ Hq _ _ Hin)).
  assert (Hb : x_rep x = false -> x_batch x <= 0).
  { intros Hr. destruct (Z_le_gt_dec 1 (x_batch x)) as [Hge|Hlt]; [|lia]. rewrite (n_m _ Hn id x Eg Hr Hge) in Hm. discriminate. }
  destruct (x_state x =? 0) eqn:Es.
  2: { eapply (NR_keep t _ id x Hn Eg); [intros id0 Hne; oth Hne|]. intros x' Hg. simpl in Hg. rewrite Eg in Hg. inversion Hg; subst x'.
       split; [reflexivity|]. intros _. split; [reflexivity|]. split; [tauto|]. simpl. rewrite has_del_same. discriminate. }
  apply Z.eqb_eq in Es.
  assert (Skip : NR (dequeue_new (skip_batch t id x) id)).
  { eapply (NR_upd t _ id Hn); [intros id0 Hne; oth Hne|]. intros x' Hg Hr. simpl in Hg. rewrite get_set_same in Hg. inversion Hg; subst x'.
    simpl in Hr |- *. specialize (Hb Hr). split; [lia|]. intros _. split; [apply has_del_same|lia]. }
  destruct (filter_provs t x (x_provs x)) as [ps|]; [|exact Skip].
  cbv zeta. destruct (_ && _); [|exact Skip].
  destruct (debit_all _ _ _) as [l|].
  - eapply (NR_upd t _ id Hn); [intros id0 Hne; oth Hne|]. intros x' Hg Hr. simpl in Hg. rewrite get_set_same in Hg. inversion Hg; subst x'.
    simpl in Hr |- *. specialize (Hb Hr). split; [lia|]. intros _. split; [apply has_del_same|lia].
  - eapply (NR_upd t _ id Hn).
    + intros id0 Hne. unfold on_paused. destruct (x_mod x); oth Hne.
    + intros x' Hg Hr. assert (E : x' = cx_state (cx_brun x false) 1).
      { unfold on_paused in Hg. destruct (x_mod x); simpl in Hg; rewrite get_set_same in Hg; congruence. }
      subst x'. simpl in Hr |- *. specialize (Hb Hr). split; [lia|intros; lia].
Qed.

Lemma NR_end_block c s dt : QInv s -> NR s -> NR (end_block c s dt).
Proof.
  intros Hinv Hn. unfold end_block. cbv zeta.
  set (s1 := fold_left (expired_batch_handler c) _ s).
  assert (H1 : (QInv s1 /\ height s1 = height s) /\ NR s1).
  { subst s1. apply (fold_handlers (fun t => (QInv t /\ height t = height s) /\ NR t) (expired_batch_handler c)
                      (fun t id => In (height t, id) (expq t))).
    - intros t id ((Ht & Hh) & Tn) Hpre. destruct (QInv_expired_handler c t id Ht Hpre) as (A & B & C).
      split; [split; [split; [exact A|congruence]|apply NR_expired_handler; exact Tn]|]. intros id' Hne Hp. rewrite B. apply C; assumption.
    - apply due_NoDup. exact (q_exp_nodup _ Hinv).
    - split; [split; [exact Hinv|reflexivity]|exact Hn].
    - intros id Hin. apply due_in in Hin. exact Hin. }
  destruct H1 as ((H1 & Hh1) & N1).
  set (s2 := fold_left new_batch_handler _ s1).
  assert (H2 : (QInv s2 /\ height s2 = height s1) /\ NR s2).
  { subst s2. apply (fold_handlers (fun t => (QInv t /\ height t = height s1) /\ NR t) new_batch_handler
                      (fun t id => In (height t, id) (newq t))).
    - intros t id ((Ht & Hh) & Tn) Hpre. destruct (QInv_new_handler t id Ht Hpre) as (A & B & C).
      split; [split; [split; [exact A|congruence]|apply NR_new_handler; assumption]|]. intros id' Hne Hp. rewrite B. apply C; assumption.
    - apply due_NoDup. exact (q_new_nodup _ H1).
    - split; [split; [exact H1|reflexivity]|exact N1].
    - intros id Hin. apply due_in in Hin. exact Hin. }
  eapply NR_same; [| |exact (proj2 H2)]; reflexivity.
Qed.

Lemma NR_apply c s st : QInv s -> NR s -> NR (apply c s st).
Proof.
  intros Hq Hn. unfold apply. destruct (exec_step c s st) as [s'| |] eqn:E; try exact Hn.
  destruct st; cbn [exec_step] in E.
  - eapply NR_exec_msg; eassumption.
  - destruct (0 <=? dt); [|discriminate]. inversion E; subst. apply NR_end_block; assumption.
  - inversion E; subst. eapply NR_same; [| |exact Hn]; reflexivity.
  - revert Hn. nr_same E.
  - destruct (create_context _ _ _ _ _ _ _ _ _ _ _ _ _ _ _ _) as [[s1 id]|] eqn:E1; [|discriminate].
    inversion E; subst. eapply NR_create; eassumption.
  - eapply NR_pause; eassumption.
  - eapply NR_start; eassumption.
  - eapply NR_kill; eassumption.
  - unfold bind in E. revert Hn. nr_same E.
Qed.

Lemma reach_NR c steps h0 t0 l0 : NoDup (create_txhs steps) -> NR (run c (init h0 t0 l0) steps).
Proof.
  intros Hnd. pose proof (fresh_history_from_distinct_hashes_lemma c steps h0 t0 l0 Hnd) as Hf.
  assert (G : SInv (run c (init h0 t0 l0) steps) /\ NR (run c (init h0 t0 l0) steps)).
  { apply (run_inv_fresh (fun s => SInv s /\ NR s) c).
    - intros s st F (S & N). split; [apply SInv_apply_m; assumption|apply NR_apply; [exact (proj1 S)|exact N]].
    - exact Hf.
    - split; [apply SInv_init|]. constructor; intros id x Hg; simpl in Hg; discriminate. }
  exact (proj2 G).
Qed.

Lemma phase1_miss c id : forall ids t, ~ In id ids ->
  get id (ctxs (fold_left (expired_batch_handler c) ids t)) = get id (ctxs t).
Proof.
  induction ids as [|a ids IH]; cbn [fold_left]; intros t Hn; [reflexivity|]. simpl in Hn.
  rewrite IH by tauto. apply expired_handler_ctx_other. intros ->. tauto.
Qed.

Lemma phase1_hit c id x : forall ids t, NoDup ids -> In id ids ->
  get id (ctxs t) = Some x -> x_rep x = false -> x_state x = 0 ->
  get id (ctxs (fold_left (expired_batch_handler c) ids t)) = None.
Proof.
  induction ids as [|a ids IH]; cbn [fold_left]; intros t Hnd Hin Hg Hr Hs; [contradiction|].
  inversion Hnd as [|? ? Hn Hnd']; subst. destruct (eq_dec a id) as [->|Hne].
  - rewrite (phase1_miss c id ids _ Hn). destruct (batch_expiry_lemma c t id x Hg Hs) as (A & _). cbv zeta in A. apply A. rewrite Hr. reflexivity.
  - destruct Hin as [E|Hin]; [congruence|]. apply IH; try assumption.
    rewrite expired_handler_ctx_other by (intros E; apply Hne; symmetry; exact E). exact Hg.
Qed.

Lemma phase2_none id : forall ids t, get id (ctxs t) = None -> get id (ctxs (fold_left new_batch_handler ids t)) = None.
Proof.
  intros ids t H. apply (fold_left_inv (fun t => get id (ctxs t) = None)); [|exact H].
  intros t0 id' H0. destruct (eq_dec id id') as [<-|Hne]; [|rewrite new_handler_ctx_other by exact Hne; exact H0].
  unfold new_batch_handler. rewrite H0. exact H0.
Qed.

Lemma end_block_oneshot c s dt id x :
  QInv s -> LInv false s -> get id (ctxs s) = Some x -> x_rep x = false -> x_state x = 0 ->
  get id (expmark s) = Some (height s) -> get id (ctxs (end_block c s dt)) = None.
Proof.
  intros Hq Hl Hg Hr Hs Hm. unfold end_block. cbv zeta. cbn [ctxs with_iidx with_time with_height].
  apply phase2_none. apply (phase1_hit c id x); try assumption.
  - apply due_NoDup. exact (q_exp_nodup _ Hq).
  - apply due_in. exact (proj1 (l_mark _ _ Hl id _ Hm)).
Qed.

Theorem model_passes_C08_clause_3_lemma :
  forall c steps st h0 t0 l0 univ seen fired tr sc pcode pnc pcb,
    NoDup (create_txhs (steps ++ [st])) -> good_step st ->
    let s := run c (init h0 t0 l0) steps in
    holds_C08 seen fired tr sc (obs_of univ pcode pnc pcb s) st (obs_step univ c s st) <> 3.
Proof.
  intros c steps st h0 t0 l0 univ seen fired tr sc pcode pnc pcb Hnd1 Hgood s E.
  assert (Hnd0 : NoDup (create_txhs steps)) by (rewrite create_txhs_app in Hnd1; exact (NoDup_app_l _ _ Hnd1)).
  assert (Es : apply c s st = run c (init h0 t0 l0) (steps ++ [st])) by (rewrite run_snoc; reflexivity).
  pose proof (fresh_history_from_distinct_hashes_lemma c steps h0 t0 l0 Hnd0) as Hf.
  assert (G : SL s) by (subst s; apply (run_inv_fresh SL c); [intros; apply SL_apply_m; assumption|exact Hf|split; [apply SInv_init|apply LInv_init]]).
  destruct G as ((Hq & Hb) & Hl).
  pose proof (reach_K c steps h0 t0 l0) as Hk. fold s in Hk.
  pose proof (reach_K c (steps ++ [st]) h0 t0 l0) as Hk'. rewrite <- Es in Hk'.
  pose proof (reach_NR c (steps ++ [st]) h0 t0 l0 Hnd1) as Hn'. rewrite <- Es in Hn'.
  apply first_fail_in in E; [|lia]. unfold holds_C08 in E; cbv zeta in E.
  do 5 (split_seg E; [not_here E|]).
  split_seg E.
  { apply in_map_iff in E. destruct E as ([id xt] & E & Hin). injection E as E.
    destruct (in_obs_ctxs univ _ _ _ s _ Hk Hin) as (x & Hg & Ex). cbn [fst snd] in Hg, Ex. subst xt.
    unfold obs_step in E. cbn [obs_of o_ctxs o_expmark o_height] in E. rewrite (has_map_val ctx_tuple) in E.
    cbn [ctx_tuple t_rep t_brun t_state] in E.
    destruct (x_rep x) eqn:Er; [discriminate E|]. cbn [orb] in E.
    destruct st as [|dt| | | | | | |]; cbn [is_endblock andb negb orb] in E; try discriminate E.
    destruct (x_brun x); cbn [andb negb orb] in E; [|discriminate E].
    destruct (x_state x =? 0) eqn:Est; cbn [andb negb orb] in E; [|discriminate E]. apply Z.eqb_eq in Est.
    destruct (eqb (get id (expmark s)) (Some (height s))) eqn:Em; cbn [andb negb orb] in E; [|discriminate E].
    apply (proj1 (eqb_true_iff _ _)) in Em.
    simpl in Hgood. unfold apply in E. cbn [exec_step] in E. destruct (0 <=? dt) eqn:Ed; [|apply Z.leb_gt in Ed; lia].
    unfold has in E. rewrite (end_block_oneshot c s dt id x Hq Hl Hg Er Est Em) in E. discriminate E. }
  split_seg E; [|not_here E].
  apply in_map_iff in E. destruct E as ([id xt] & E & Hin). injection E as E.
  unfold obs_step in Hin. destruct (in_obs_ctxs univ _ _ _ (apply c s st) _ Hk' Hin) as (x' & Hg & Ex). cbn [fst snd] in Hg, Ex, E. subst xt.
  cbn [ctx_tuple t_rep t_batch] in E. destruct (x_rep x') eqn:Er; [discriminate E|]. cbn [orb] in E.
  pose proof (n_b _ Hn' id x' Hg Er) as Hle. apply Z.leb_le in Hle. rewrite Hle in E. discriminate E.
Qed.

(** [model_passes_clauses] with clause 3 *)
Definition ok8s (k : Z) : Prop := k <> 1 /\ k <> 2 /\ k <> 3 /\ k <> 5 /\ k <> 6 /\ k <> 8 /\ k <> 9.

Theorem model_passes_clauses_C08_3_lemma :
  forall c steps h0 t0 l0 univ,
    c_msvc c < 0 -> 0 <= c_tax c -> clean l0 -> NoDup (create_txhs steps) -> Forall good_step steps ->
    In (DEP, BASE) univ -> (forall d, In d (denoms c) -> In (REQ, d) univ) ->
    (forall pre st post, steps = pre ++ st :: post -> forall rid q, get rid (reqs (run c (init h0 t0 l0) pre)) = Some q ->
       In (TAX, q_fd q) univ /\ In (REQ, q_fd q) univ) ->
    ledger_of (obs_of univ 0 None [] (init h0 t0 l0)) = l0 ->
    forall corr p k, check_case_C08 (model_case univ c h0 t0 l0 steps) = (corr, p, k) ->
      corr = -1 /\ k <> 1 /\ k <> 2 /\ k <> 3 /\ k <> 5 /\ k <> 6 /\ k <> 8 /\ k <> 9.
Proof.
  intros c steps h0 t0 l0 univ Hm Htax Hcl Hnd Hgood Hu1 Hu2 Hu5 Hl corr p k Ek.
  destruct (model_corresponds_to_itself_lemma c steps h0 t0 l0 univ Hnd Hl) as (_ & C8). cbv zeta in C8.
  split; [exact (C8 corr p k Ek)|].
  pose proof (model_step_ok c steps h0 t0 l0 univ Hm Htax Hcl Hnd Hgood Hu1 Hu2 Hu5) as H.
  assert (H3 : forall pre st post, steps = pre ++ st :: post ->
            step_okq ok7 ok8s univ c (run c (init h0 t0 l0) pre) (model_seen univ c (init h0 t0 l0) [] pre) st).
  { intros pre st post E pc pn pb fired tr sc. destruct (H pre st post E pc pn pb fired tr sc) as (K7 & K1 & K2 & K5 & K6 & K8 & K9).
    split; [exact K7|]. split; [exact K1|]. split; [exact K2|]. split; [|split; [exact K5|split; [exact K6|split; [exact K8|exact K9]]]].
    assert (Hnd1 : NoDup (create_txhs (pre ++ [st]))).
    { rewrite E in Hnd. replace (pre ++ st :: post) with ((pre ++ [st]) ++ post) in Hnd by (rewrite <- app_assoc; reflexivity).
      rewrite create_txhs_app in Hnd. exact (NoDup_app_l _ _ Hnd). }
    assert (Hg : good_step st) by (apply (proj1 (Forall_forall _ _) Hgood); rewrite E; apply in_elt).
    exact (model_passes_C08_clause_3_lemma c pre st h0 t0 l0 univ _ fired tr sc pc pn pb Hnd1 Hg). }
  pose proof (check_from_clauses_q ok7 ok8s univ c steps (init h0 t0 l0) [] H3 0 None [] [] [] [] 1
                (if corr_state (init h0 t0 l0) (obs_of univ 0 None [] (init h0 t0 l0)) then -1 else 0) (-1) 0 (-1) 0) as G.
  assert (E : check_all (model_case univ c h0 t0 l0 steps) = check_from c (init h0 t0 l0) (obs_of univ 0 None [] (init h0 t0 l0)) [] [] [] [] (model_trace univ c (init h0 t0 l0) steps) 1
                (if corr_state (init h0 t0 l0) (obs_of univ 0 None [] (init h0 t0 l0)) then -1 else 0) (-1) 0 (-1) 0).
  { unfold check_all, model_case. rewrite Hl. reflexivity. }
  unfold check_case_C08 in Ek. rewrite E in Ek.
  destruct (check_from _ _ _ _ _ _ _ _ _ _ _ _ _ _) as [[[[r1 r2] r3] r4] r5]. inversion Ek; subst.
  destruct G as (_ & [->|G8]); [repeat split; discriminate|exact G8].
Qed.

Theorem model_passes_clauses_C07_corr_lemma :
  forall c steps h0 t0 l0 univ,
    c_msvc c < 0 -> 0 <= c_tax c -> clean l0 -> NoDup (create_txhs steps) -> Forall good_step steps ->
    In (DEP, BASE) univ -> (forall d, In d (denoms c) -> In (REQ, d) univ) ->
    (forall pre st post, steps = pre ++ st :: post -> forall rid q, get rid (reqs (run c (init h0 t0 l0) pre)) = Some q ->
       In (TAX, q_fd q) univ /\ In (REQ, q_fd q) univ) ->
    ledger_of (obs_of univ 0 None [] (init h0 t0 l0)) = l0 ->
    forall corr p k, check_case_C07 (model_case univ c h0 t0 l0 steps) = (corr, p, k) ->
      corr = -1 /\ k <> 1 /\ k <> 2 /\ k <> 3 /\ k <> 5.
Proof.
  intros c steps h0 t0 l0 univ H1 H2 H3 H4 H5 H6 H7 H8 H9 corr p k Ek.
  split; [exact (proj1 (model_corresponds_to_itself_lemma c steps h0 t0 l0 univ H4 H9) corr p k Ek)|].
  exact (model_passes_clauses_C07_lemma c steps h0 t0 l0 univ H1 H2 H3 H4 H5 H6 H7 H8 H9 corr p k Ek).
Qed.
