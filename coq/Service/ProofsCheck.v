(** * Service: the model passes its own checks — clause by clause.

    [obs_of] projects a model state onto what the driver observes (the same tuples, in the model's
    own order).  For every history (context-creating transactions with distinct hashes, escrows
    empty at the start) the boolean clauses of [holds_C07] / [holds_C08] named below, evaluated on
    the projection of the state reached, are all true: the checker never reports these clauses on
    the model's own observations.  What is covered and what is not is said at each theorem. *)
From Irismod Require Import Service.Model Service.Check Service.Proofs Service.ProofsHist Service.ProofsEscrow Service.ProofsSched
  Service.ProofsBatch Service.ProofsLiab Service.ProofsTally Service.ProofsLive Service.ProofsModule Service.ProofsFresh
  Service.ProofsCallback Service.ProofsSchedule Service.ProofsModuleHist Service.ProofsOutcome.

(** ** the projection *)
Definition obs_of (univ : list (Z * Z)) (code : Z) (newctx : option ctxid) (cb : list cbev) (s : state) : obs :=
  mkObs code newctx (height s) (time s)
    (map (fun k => (k, bal (led s) (fst k) (snd k))) univ)
    (map (fun e => (fst e, bind_tuple (snd e))) (binds s))
    (map (fun e => (fst e, ctx_tuple (snd e))) (ctxs s))
    (map (fun e => (fst e, req_tuple (snd e))) (reqs s))
    (vols s) (earned s) (oearned s) (newq s) (newmark s) (expq s) (expmark s) cb.

(** what the driver prints after executing [st] from [s] *)
Definition obs_step (univ : list (Z * Z)) (c : config) (s : state) (st : step) : obs :=
  let r := exec_step c s st in
  let s' := apply c s st in
  obs_of univ (res_code r) (step_newctx s st r) (skipn (length (cblog s)) (cblog s')) s'.

(** the case the driver would print for the model itself *)
Fixpoint model_trace (univ : list (Z * Z)) (c : config) (s : state) (steps : list step) : list (step * ob) :=
  match steps with
  | [] => []
  | st :: r => (st, Full (obs_step univ c s st)) :: model_trace univ c (apply c s st) r
  end.
Definition model_case (univ : list (Z * Z)) (c : config) (h0 t0 : Z) (l0 : ledger) (steps : list step) : case :=
  (c, obs_of univ 0 None [] (init h0 t0 l0), model_trace univ c (init h0 t0 l0) steps).

(** ** list lemmas *)
Lemma first_fail_in l k : first_fail l = k -> k <> 0 -> In (false, k) l.
Proof.
  unfold first_fail. induction l as [|[b j] l IH]; simpl; intros E Hk; [congruence|].
  destruct b; simpl in E; [right; apply IH; assumption|]. left. congruence.
Qed.

Lemma get_map_val {K V T} `{EqDec K} (f : V -> T) (k : K) (m : amap K V) :
  get k (map (fun e => (fst e, f (snd e))) m) = option_map f (get k m).
Proof. induction m as [|[k0 v0] m IH]; simpl; [reflexivity|]. destruct (eq_dec k k0); [reflexivity|exact IH]. Qed.

Lemma getz_univ (f : Z * Z -> Z) (k : Z * Z) (univ : list (Z * Z)) :
  In k univ -> getz k (map (fun k => (k, f k)) univ) = f k.
Proof.
  unfold getz. induction univ as [|k0 u IH]; simpl; intros Hin; [contradiction|].
  destruct (eq_dec k k0) as [->|Hne]; [reflexivity|]. destruct Hin as [->|Hin]; [congruence|]. apply IH. exact Hin.
Qed.

Lemma obal_obs_of univ code nc cb s a d : In (a, d) univ -> obal (obs_of univ code nc cb s) a d = bal (led s) a d.
Proof. intros Hin. unfold obal, obs_of. cbn [o_bals]. apply (getz_univ (fun k => bal (led s) (fst k) (snd k)) (a, d) univ Hin). Qed.

Lemma sumz_map {A B} (f : B -> Z) (g : A -> B) (l : list A) : sumz f (map g l) = sumz (fun a => f (g a)) l.
Proof. unfold sumz. rewrite map_map. reflexivity. Qed.

Lemma sumz_ext {A} (f g : A -> Z) (l : list A) : (forall a, In a l -> f a = g a) -> sumz f l = sumz g l.
Proof. unfold sumz. intros E. f_equal. apply map_ext_in. exact E. Qed.

(** ** reachable states satisfy all the state invariants *)
Definition clean (l0 : ledger) : Prop := (forall d, bal l0 REQ d = 0) /\ bal l0 DEP BASE = 0.

Lemma reach_G c steps h0 t0 l0 : clean l0 -> NoDup (create_txhs steps) -> GInv (run c (init h0 t0 l0) steps).
Proof.
  intros (Hr & Hd) Hnd.
  pose proof (fresh_history_from_distinct_hashes_lemma c steps h0 t0 l0 Hnd) as Hf.
  apply (run_inv_fresh GInv c); [intros; apply GInv_apply_m; assumption|exact Hf|apply GInv_init; assumption].
Qed.

(** ** C07, clauses 1 and 2 *)
Lemma c07_clause1 univ code nc cb s : In (DEP, BASE) univ -> DepInv s ->
  let o := obs_of univ code nc cb s in
  (obal o DEP BASE =? sumz (fun e => b_dep_t (snd e)) (o_binds o)) = true.
Proof.
  intros Hin Hd o. subst o. rewrite obal_obs_of by exact Hin. cbn [obs_of o_binds]. rewrite sumz_map.
  apply Z.eqb_eq. cbn [snd bind_tuple b_dep_t]. exact (di_eq _ Hd).
Qed.

Lemma c07_clause2 univ code nc cb s d : In (REQ, d) univ -> EscEq s ->
  let o := obs_of univ code nc cb s in
  (obal o REQ d =? sumz (fun e => if r_active (snd e) && (r_fd (snd e) =? d) then r_fee (snd e) else 0) (o_reqs o)
                   + sumz (fun e => if snd (fst e) =? d then snd e else 0) (o_earned o)) = true.
Proof.
  intros Hin He o. subst o. rewrite obal_obs_of by exact Hin. cbn [obs_of o_reqs o_earned]. rewrite sumz_map.
  apply Z.eqb_eq. rewrite (He d). unfold liab, msum, sumz, act_fee, earn_in. reflexivity.
Qed.

(** ** C08, clauses 8 and 9 *)
Lemma c08_clause8_new univ code nc cb s e : QInv s ->
  let o := obs_of univ code nc cb s in
  In e (o_newq o) -> eqb (get (snd e) (o_newmark o)) (Some (fst e)) = true.
Proof.
  intros Hq o Hin. subst o. cbn [obs_of o_newq o_newmark] in *. destruct e as [h id]. cbn [fst snd].
  rewrite (q_new_mark _ Hq h id Hin). apply eqb_refl.
Qed.

Lemma c08_clause8_exp univ code nc cb s e : QInv s ->
  let o := obs_of univ code nc cb s in
  In e (o_expq o) -> eqb (get (snd e) (o_expmark o)) (Some (fst e)) = true.
Proof.
  intros Hq o Hin. subst o. cbn [obs_of o_expq o_expmark] in *. destruct e as [h id]. cbn [fst snd].
  rewrite (q_exp_mark _ Hq h id Hin). apply eqb_refl.
Qed.

Lemma in_obs_ctxs univ code nc cb s e : NoDup (keys (ctxs s)) -> In e (o_ctxs (obs_of univ code nc cb s)) ->
  exists x, get (fst e) (ctxs s) = Some x /\ snd e = ctx_tuple x.
Proof.
  intros Hnd Hin. cbn [obs_of o_ctxs] in Hin. apply in_map_iff in Hin. destruct Hin as ([id x] & <- & Hin).
  exists x. split; [|reflexivity]. apply In_get_NoDup; assumption.
Qed.

(** ** splitting the clause lists *)
Ltac not_here E :=
  repeat match type of E with
  | In _ [] => contradiction E
  | In _ (_ :: _) => destruct E as [E|E]; [try discriminate E|]
  | In _ (_ ++ _) => apply in_app_or in E; destruct E as [E|E]
  | In _ (if ?b then _ else _) => destruct b
  | In _ (match ?x with _ => _ end) => destruct x
  | In _ (flat_map _ _) => let a := fresh "a" in apply in_flat_map in E; destruct E as (a & _ & E)
  | In _ (map _ _) =>
      let x0 := fresh "x0" in let Hin := fresh "Hin" in
      apply in_map_iff in E; destruct E as (x0 & E & Hin); try (destruct x0 as [? ?]); discriminate E
  end.

Ltac split_seg E := apply in_app_or in E; destruct E as [E|E].

Theorem model_passes_C07_clauses_1_2_lemma :
  forall c steps h0 t0 l0 univ p st code nc cb,
    clean l0 -> NoDup (create_txhs steps) ->
    In (DEP, BASE) univ -> (forall d, In d (denoms c) -> In (REQ, d) univ) ->
    let s := run c (init h0 t0 l0) steps in
    let k := holds_C07 c p st (obs_of univ code nc cb s) in
    k <> 1 /\ k <> 2.
Proof.
  intros c steps h0 t0 l0 univ p st code nc cb Hcl Hnd Hu1 Hu2 s k.
  destruct (reach_G c steps h0 t0 l0 Hcl Hnd) as (Hq & Hb & Hd & Hp & He). fold s in Hq, Hb, Hd, Hp, He.
  split; intros E; subst k; apply first_fail_in in E; try lia; unfold holds_C07 in E; cbv zeta in E.
  - split_seg E.
    + destruct E as [E|[]]. injection E as E. pose proof (c07_clause1 univ code nc cb s Hu1 Hd) as H1. cbv zeta in H1. exact (eq_true_false_abs _ H1 E).
    + not_here E.
  - split_seg E; [not_here E|]. split_seg E.
    + apply in_map_iff in E. destruct E as (d & E & Hin). injection E as E.
      pose proof (c07_clause2 univ code nc cb s d (Hu2 d Hin) (e_eq _ He)) as H1. cbv zeta in H1. exact (eq_true_false_abs _ H1 E).
    + not_here E.
Qed.

Lemma reach_S c steps h0 t0 l0 : NoDup (create_txhs steps) -> SInv (run c (init h0 t0 l0) steps).
Proof.
  intros Hnd. pose proof (fresh_history_from_distinct_hashes_lemma c steps h0 t0 l0 Hnd) as Hf.
  apply (run_inv_fresh SInv c); [intros; apply SInv_apply_m; assumption|exact Hf|apply SInv_init].
Qed.

Lemma c08_clause9 univ code nc cb s e : BatchInv s ->
  let o := obs_of univ code nc cb s in
  In e (o_reqs o) ->
  (negb (r_active (snd e))
   || match get (Check.rid_ctx (fst e)) (o_ctxs o) with
      | Some x => t_brun x && (t_batch x =? rid_batch (fst e))
      | None => false
      end) = true.
Proof.
  intros Hb o Hin. subst o. cbn [obs_of o_reqs o_ctxs] in *. apply in_map_iff in Hin. destruct Hin as ([rid q] & <- & Hin).
  cbn [fst snd]. destruct (q_active q) eqn:Ea; [|cbn [req_tuple r_active]; rewrite Ea; reflexivity].
  pose proof (In_get_NoDup rid q (reqs s) (b_keys _ Hb) Hin) as Hg.
  destruct (b_act _ Hb rid q Hg Ea) as (x & Hx & Hr & Hn).
  rewrite (get_map_val ctx_tuple). change (Check.rid_ctx rid) with (rid_ctx rid). rewrite Hx. cbn [option_map ctx_tuple t_brun t_batch].
  rewrite Hr. change (rid_batch rid) with (rid_b rid). rewrite Hn, Z.eqb_refl. apply orb_true_r.
Qed.

(** clause 9 is the last segment of the list *)
Theorem model_passes_C08_clause_9_lemma :
  forall c steps h0 t0 l0 univ seen fired tr sc p st code nc cb,
    NoDup (create_txhs steps) ->
    let s := run c (init h0 t0 l0) steps in
    holds_C08 seen fired tr sc p st (obs_of univ code nc cb s) <> 9.
Proof.
  intros c steps h0 t0 l0 univ seen fired tr sc p st code nc cb Hnd s E.
  destruct (reach_S c steps h0 t0 l0 Hnd) as (Hq & Hb). fold s in Hq, Hb.
  apply first_fail_in in E; [|lia]. unfold holds_C08 in E; cbv zeta in E.
  do 16 (split_seg E; [not_here E|]).
  apply in_map_iff in E. destruct E as (e & E & Hin). injection E as E.
  pose proof (c08_clause9 univ code nc cb s e Hb Hin) as H1. cbv zeta in H1. exact (eq_true_false_abs _ H1 E).
Qed.
