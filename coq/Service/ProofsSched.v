(** * Service: the scheduling invariant — queues, height markers and batch states stay
    consistent over every history in which no context id is issued twice. *)
From Irismod Require Import Service.Model Service.Proofs Service.ProofsHist.

(** ** queue helpers *)
Lemma q_add_in e e' q : In e' (q_add e q) <-> e' = e \/ In e' q.
Proof.
  unfold q_add. destruct (existsb (eqb e) q) eqn:E.
  - split; [tauto|]. intros [->|H]; [|exact H]. apply existsb_exists in E. destruct E as (y & Hy & Heq).
    apply (proj1 (eqb_true_iff _ _)) in Heq. subst. exact Hy.
  - split; intros H.
    + apply in_app_or in H. destruct H as [H|[H|[]]]; [right; exact H|left; congruence].
    + apply in_or_app. destruct H as [->|H]; [right; left; reflexivity|left; exact H].
Qed.

Lemma q_del_in e e' q : In e' (q_del e q) <-> e' <> e /\ In e' q.
Proof.
  unfold q_del. rewrite filter_In. split.
  - intros (H1 & H2). split; [|exact H1]. intros ->. rewrite eqb_refl in H2. discriminate.
  - intros (H1 & H2). split; [exact H2|]. destruct (eqb e e') eqn:E; [|reflexivity].
    apply (proj1 (eqb_true_iff _ _)) in E. congruence.
Qed.

Lemma q_add_NoDup e q : NoDup q -> NoDup (q_add e q).
Proof.
  intros H. unfold q_add. destruct (existsb (eqb e) q) eqn:E; [exact H|]. apply NoDup_snoc; [exact H|].
  intros Hin. assert (existsb (eqb e) q = true); [|congruence]. apply existsb_exists. exists e. split; [exact Hin|apply eqb_refl].
Qed.
Lemma q_del_NoDup e q : NoDup q -> NoDup (q_del e q).
Proof. intros H. unfold q_del. apply NoDup_filter. exact H. Qed.

Section HasFacts.
  Context {K V : Type} `{EqDec K}.
  Lemma has_set_same (k : K) (v : V) m : has k (set k v m) = true.
  Proof. unfold has. rewrite get_set_same. reflexivity. Qed.
  Lemma has_set_other (k k' : K) (v : V) m : k' <> k -> has k' (set k v m) = has k' m.
  Proof. intros Hne. unfold has. rewrite get_set_other by exact Hne. reflexivity. Qed.
  Lemma has_del_same (k : K) (m : amap K V) : has k (del k m) = false.
  Proof. unfold has. rewrite get_del_same. reflexivity. Qed.
  Lemma has_del_other (k k' : K) (m : amap K V) : k' <> k -> has k' (del k m) = has k' m.
  Proof. intros Hne. unfold has. rewrite get_del_other by exact Hne. reflexivity. Qed.
  Lemma has_get (k : K) (m : amap K V) : has k m = true <-> exists v, get k m = Some v.
  Proof. unfold has. destruct (get k m) as [v|]; split; intros Hh; try discriminate; [exists v; reflexivity|reflexivity|destruct Hh; discriminate]. Qed.
End HasFacts.

Ltac dmn H := match type of H with context [match ?g with _ => _ end] =>
  tryif (is_var g; match type of g with state => idtac end) then fail else (destruct g eqn:?; try discriminate) end.

(** ** the invariant *)
Record QInv (s : state) : Prop := {
  q_run_mark : forall id x, get id (ctxs s) = Some x -> x_brun x = true -> has id (expmark s) = true;
  q_new_closed : forall h id x, In (h, id) (newq s) -> get id (ctxs s) = Some x -> x_brun x = false;
  q_new_mark : forall h id, In (h, id) (newq s) -> get id (newmark s) = Some h;
  q_new_ctx : forall h id, In (h, id) (newq s) -> has id (ctxs s) = true;
  q_exp_nonew : forall h id, has id (expmark s) = true -> ~ In (h, id) (newq s);
  q_exp_ctx : forall id, has id (expmark s) = true -> has id (ctxs s) = true;
  q_exp_mark : forall h id, In (h, id) (expq s) -> get id (expmark s) = Some h;
  q_new_nodup : NoDup (newq s);
  q_exp_nodup : NoDup (expq s);
  q_mark_new : forall id h, get id (newmark s) = Some h -> In (h, id) (newq s)
}.

Definition q_same (s s' : state) : Prop :=
  ctxs s' = ctxs s /\ newq s' = newq s /\ newmark s' = newmark s /\ expq s' = expq s /\ expmark s' = expmark s.

Lemma QInv_same s s' : q_same s s' -> QInv s -> QInv s'.
Proof. intros (A & B & C & D & E) [I1 I2 I3 I4 I5 I6 I7 I8 I9 I10]. constructor; rewrite ?A, ?B, ?C, ?D, ?E; assumption. Qed.

(** a context rewritten in place without starting a batch *)
Lemma QInv_ctx_set s id x x' :
  QInv s -> get id (ctxs s) = Some x -> (x_brun x' = true -> x_brun x = true) ->
  QInv (with_ctxs s (set id x' (ctxs s))).
Proof.
  intros [I1 I2 I3 I4 I5 I6 I7 I8 I9 I10] Hg Hb. constructor; simpl; try assumption.
  - intros id0 x0 Hg0 Hr. destruct (eq_dec id0 id) as [->|Hne].
    + rewrite get_set_same in Hg0. inversion Hg0; subst. eapply I1; [exact Hg|auto].
    + rewrite get_set_other in Hg0 by exact Hne. eapply I1; eassumption.
  - intros h id0 x0 Hin Hg0. destruct (eq_dec id0 id) as [->|Hne].
    + rewrite get_set_same in Hg0. inversion Hg0; subst. pose proof (I2 _ _ _ Hin Hg) as Hf.
      destruct (x_brun x0) eqn:E; [|reflexivity]. rewrite (Hb eq_refl) in Hf. discriminate.
    + rewrite get_set_other in Hg0 by exact Hne. eapply I2; eassumption.
  - intros h id0 Hin. destruct (eq_dec id0 id) as [->|Hne]; [apply has_set_same|].
    rewrite has_set_other by exact Hne. eapply I4. exact Hin.
  - intros id0 Hh. destruct (eq_dec id0 id) as [->|Hne]; [apply has_set_same|].
    rewrite has_set_other by exact Hne. apply I6. exact Hh.
Qed.

Lemma QInv_new_ctx s id x :
  QInv s -> get id (ctxs s) = None -> x_brun x = false -> QInv (with_ctxs s (set id x (ctxs s))).
Proof.
  intros [I1 I2 I3 I4 I5 I6 I7 I8 I9 I10] Hg Hb. constructor; simpl; try assumption.
  - intros id0 x0 Hg0 Hr. destruct (eq_dec id0 id) as [->|Hne].
    + rewrite get_set_same in Hg0. inversion Hg0; subst. congruence.
    + rewrite get_set_other in Hg0 by exact Hne. eapply I1; eassumption.
  - intros h id0 x0 Hin Hg0. destruct (eq_dec id0 id) as [->|Hne].
    + rewrite get_set_same in Hg0. inversion Hg0; subst. exact Hb.
    + rewrite get_set_other in Hg0 by exact Hne. eapply I2; eassumption.
  - intros h id0 Hin. destruct (eq_dec id0 id) as [->|Hne]; [apply has_set_same|].
    rewrite has_set_other by exact Hne. eapply I4. exact Hin.
  - intros id0 Hh. destruct (eq_dec id0 id) as [->|Hne]; [apply has_set_same|].
    rewrite has_set_other by exact Hne. apply I6. exact Hh.
Qed.

Lemma QInv_enqueue_new s id x hh :
  QInv s -> get id (ctxs s) = Some x -> x_brun x = false -> has id (expmark s) = false ->
  (forall h, ~ In (h, id) (newq s)) ->
  QInv (with_newmark (with_newq s (q_add (hh, id) (newq s))) (set id hh (newmark s))).
Proof.
  intros [I1 I2 I3 I4 I5 I6 I7 I8 I9 I10] Hg Hb He Hn. constructor; simpl; try assumption.
  - intros h id0 x0 Hin Hg0. apply q_add_in in Hin. destruct Hin as [E|Hin]; [|eapply I2; eassumption].
    inversion E; subst. rewrite Hg in Hg0. inversion Hg0; subst. exact Hb.
  - intros h id0 Hin. apply q_add_in in Hin. destruct Hin as [E|Hin].
    + inversion E; subst. apply get_set_same.
    + assert (Hne : id0 <> id) by (intros ->; exact (Hn _ Hin)). rewrite get_set_other by exact Hne. apply I3. exact Hin.
  - intros h id0 Hin. apply q_add_in in Hin. destruct Hin as [E|Hin]; [|eapply I4; exact Hin].
    inversion E; subst. apply has_get. exists x. exact Hg.
  - intros h id0 Hh Hin. apply q_add_in in Hin. destruct Hin as [E|Hin]; [|exact (I5 _ _ Hh Hin)].
    inversion E; subst. congruence.
  - apply q_add_NoDup. exact I8.
  - intros id0 h Hg0. apply q_add_in. destruct (eq_dec id0 id) as [->|Hne].
    + rewrite get_set_same in Hg0. inversion Hg0; subst. left. reflexivity.
    + rewrite get_set_other in Hg0 by exact Hne. right. apply I10. exact Hg0.
Qed.

Definition ctx_at (s : state) (id : ctxid) : option context := get id (ctxs s).
Definition fresh_ctx (s : state) (st : step) : Prop :=
  match st with
  | Tx txh (MCall _ _ _ _ _ _ _ _ _ _) => ctx_at s (txh, iidx s) = None
  | ModCreate txh _ _ _ _ _ _ _ _ _ _ => ctx_at s (txh, iidx s) = None
  | _ => True
  end.

Lemma QInv_create c s txh svc provs cons inok capd capa timeout rep freq total st thr md s' id :
  create_context c s txh svc provs cons inok capd capa timeout rep freq total st thr md = Some (s', id) ->
  ctx_at s (txh, iidx s) = None -> QInv s -> QInv s'.
Proof.
  unfold create_context, ctx_at. intros H Hf Hinv.
  assert (Hnm : has (txh, iidx s) (expmark s) = false).
  { destruct (has (txh, iidx s) (expmark s)) eqn:E; [|reflexivity]. pose proof (q_exp_ctx _ Hinv _ E) as Hc.
    unfold has in Hc. rewrite Hf in Hc. discriminate. }
  assert (Hnq : forall h, ~ In (h, (txh, iidx s)) (newq s)).
  { intros h Hin. pose proof (q_new_ctx _ Hinv _ _ Hin) as Hc. unfold has in Hc. rewrite Hf in Hc. discriminate. }
  repeat dmn H; inversion H; subst s' id; clear H.
  all: match goal with
       | |- QInv (with_newmark (with_newq ?s1 (q_add (?hh, ?id) _)) _) =>
           eapply (QInv_enqueue_new s1 id _ hh); [| apply get_set_same | reflexivity | assumption | assumption]
       | _ => idtac
       end.
  all: match goal with |- QInv (with_iidx (with_ctxs ?s0 (set ?id ?X (ctxs ?s0))) ?n) =>
         apply (QInv_same (with_ctxs s0 (set id X (ctxs s0)))); [repeat split|];
         apply QInv_new_ctx; [assumption|assumption|reflexivity]
       end.
Qed.

Lemma QInv_start s id cons s' : k_start s id cons = Okk s' -> QInv s -> QInv s'.
Proof.
  unfold k_start. intros H Hinv. destruct (get id (ctxs s)) as [x|] eqn:Eg; [|discriminate].
  pose proof (QInv_ctx_set s id x (cx_state x 0) Hinv Eg (fun e => e)) as D.
  destruct (x_mod x && negb (check_authority s cons id false)); [discriminate|].
  destruct (negb (x_state x =? 1)); [discriminate|]. cbv zeta in H.
  match type of H with Okk (if ?g then _ else _) = _ => destruct g eqn:Eg2 end; inversion H; subst; clear H; [|exact D].
  simpl in Eg2. apply andb_true_iff in Eg2. destruct Eg2 as (E1 & E2). apply negb_true_iff in E1, E2.
  apply (QInv_enqueue_new (with_ctxs s (set id (cx_state x 0) (ctxs s))) id (cx_state x 0) (height s)); [exact D|simpl; apply get_set_same| |exact E1|].
  - simpl. destruct (x_brun x) eqn:Eb; [|reflexivity]. pose proof (q_run_mark _ Hinv _ _ Eg Eb). congruence.
  - intros h Hin. simpl in Hin. pose proof (q_new_mark _ Hinv _ _ Hin) as Hm. unfold has in E2. rewrite Hm in E2. discriminate.
Qed.

(** ** the queue primitives of the end blocker *)
Definition f_deq (s : state) (h : Z) (id : ctxid) (x1 : context) : state :=
  with_ctxs (with_expmark (with_expq s (q_del (h, id) (expq s))) (del id (expmark s))) (set id x1 (ctxs s)).
Definition f_delctx (s : state) (id : ctxid) : state := with_ctxs s (del id (ctxs s)).
Definition f_enq (s : state) (hh : Z) (id : ctxid) : state :=
  with_newmark (with_newq s (q_add (hh, id) (newq s))) (set id hh (newmark s)).
Definition f_deqnew (s : state) (h : Z) (id : ctxid) : state :=
  with_newmark (with_newq s (q_del (h, id) (newq s))) (del id (newmark s)).
Definition f_startbatch (s : state) (id : ctxid) (x' : context) (hh : Z) : state :=
  add_expiration (with_ctxs s (set id x' (ctxs s))) id hh.

Lemma QInv_deq s h id x x1 :
  QInv s -> In (h, id) (expq s) -> get id (ctxs s) = Some x -> x_brun x1 = false ->
  QInv (f_deq s h id x1) /\ has id (expmark (f_deq s h id x1)) = false
  /\ (forall h', ~ In (h', id) (newq (f_deq s h id x1))) /\ get id (ctxs (f_deq s h id x1)) = Some x1.
Proof.
  intros [I1 I2 I3 I4 I5 I6 I7 I8 I9 I10] Hin Hg Hb.
  assert (Hm : get id (expmark s) = Some h) by (apply I7; exact Hin).
  assert (Hh : has id (expmark s) = true) by (apply has_get; exists h; exact Hm).
  split; [|split; [|split]].
  - constructor; simpl; try assumption.
    + intros id0 x0 Hg0 Hr. destruct (eq_dec id0 id) as [->|Hne].
      * rewrite get_set_same in Hg0. inversion Hg0; subst. congruence.
      * rewrite get_set_other in Hg0 by exact Hne. rewrite has_del_other by exact Hne. eapply I1; eassumption.
    + intros h0 id0 x0 Hin0 Hg0. destruct (eq_dec id0 id) as [->|Hne].
      * rewrite get_set_same in Hg0. inversion Hg0; subst. exact Hb.
      * rewrite get_set_other in Hg0 by exact Hne. eapply I2; eassumption.
    + intros h0 id0 Hin0. destruct (eq_dec id0 id) as [->|Hne]; [apply has_set_same|].
      rewrite has_set_other by exact Hne. eapply I4. exact Hin0.
    + intros h0 id0 Hh0. destruct (eq_dec id0 id) as [->|Hne]; [rewrite has_del_same in Hh0; discriminate|].
      rewrite has_del_other in Hh0 by exact Hne. apply I5. exact Hh0.
    + intros id0 Hh0. destruct (eq_dec id0 id) as [->|Hne]; [rewrite has_del_same in Hh0; discriminate|].
      rewrite has_del_other in Hh0 by exact Hne. rewrite has_set_other by exact Hne. apply I6. exact Hh0.
    + intros h0 id0 Hin0. apply q_del_in in Hin0. destruct Hin0 as (Hne0 & Hin0). pose proof (I7 _ _ Hin0) as Hm0.
      destruct (eq_dec id0 id) as [->|Hne]; [rewrite Hm in Hm0; inversion Hm0; subst; congruence|].
      rewrite get_del_other by exact Hne. exact Hm0.
    + apply q_del_NoDup. exact I9.
  - simpl. apply has_del_same.
  - intros h' Hin'. simpl in Hin'. exact (I5 _ _ Hh Hin').
  - simpl. apply get_set_same.
Qed.

Lemma QInv_delctx s id :
  QInv s -> has id (expmark s) = false -> (forall h, ~ In (h, id) (newq s)) -> QInv (f_delctx s id).
Proof.
  intros [I1 I2 I3 I4 I5 I6 I7 I8 I9 I10] He Hn. constructor; simpl; try assumption.
  - intros id0 x0 Hg0 Hr. destruct (eq_dec id0 id) as [->|Hne]; [rewrite get_del_same in Hg0; discriminate|].
    rewrite get_del_other in Hg0 by exact Hne. eapply I1; eassumption.
  - intros h0 id0 x0 Hin0 Hg0. destruct (eq_dec id0 id) as [->|Hne]; [rewrite get_del_same in Hg0; discriminate|].
    rewrite get_del_other in Hg0 by exact Hne. eapply I2; eassumption.
  - intros h0 id0 Hin0. assert (Hne : id0 <> id) by (intros ->; exact (Hn _ Hin0)).
    rewrite has_del_other by exact Hne. eapply I4. exact Hin0.
  - intros id0 Hh0. assert (Hne : id0 <> id) by (intros ->; congruence).
    rewrite has_del_other by exact Hne. apply I6. exact Hh0.
Qed.

Lemma QInv_enq s id x hh :
  QInv s -> get id (ctxs s) = Some x -> x_brun x = false -> has id (expmark s) = false ->
  (forall h, ~ In (h, id) (newq s)) -> QInv (f_enq s hh id).
Proof. intros. eapply QInv_enqueue_new; eassumption. Qed.

Lemma QInv_deqnew s h id :
  QInv s -> In (h, id) (newq s) ->
  QInv (f_deqnew s h id) /\ (forall h', ~ In (h', id) (newq (f_deqnew s h id))).
Proof.
  intros [I1 I2 I3 I4 I5 I6 I7 I8 I9 I10] Hin.
  assert (Hm : get id (newmark s) = Some h) by (apply I3; exact Hin).
  split.
  - constructor; simpl; try assumption.
    + intros h0 id0 x0 Hin0 Hg0. apply q_del_in in Hin0. eapply I2; [exact (proj2 Hin0)|exact Hg0].
    + intros h0 id0 Hin0. apply q_del_in in Hin0. destruct Hin0 as (Hne0 & Hin0). pose proof (I3 _ _ Hin0) as Hm0.
      destruct (eq_dec id0 id) as [->|Hne]; [rewrite Hm in Hm0; inversion Hm0; subst; congruence|].
      rewrite get_del_other by exact Hne. exact Hm0.
    + intros h0 id0 Hin0. apply q_del_in in Hin0. eapply I4. exact (proj2 Hin0).
    + intros h0 id0 Hh0 Hin0. apply q_del_in in Hin0. exact (I5 _ _ Hh0 (proj2 Hin0)).
    + apply q_del_NoDup. exact I8.
    + intros id0 h0 Hg0. destruct (eq_dec id0 id) as [->|Hne]; [rewrite get_del_same in Hg0; discriminate|].
      rewrite get_del_other in Hg0 by exact Hne. apply q_del_in. split; [congruence|apply I10; exact Hg0].
  - intros h' Hin'. simpl in Hin'. apply q_del_in in Hin'. destruct Hin' as (Hne & Hin').
    pose proof (I3 _ _ Hin') as Hm'. rewrite Hm in Hm'. inversion Hm'; subst. congruence.
Qed.

Lemma QInv_startbatch s id x x' hh :
  QInv s -> get id (ctxs s) = Some x -> (forall h, ~ In (h, id) (newq s)) ->
  (forall h, ~ In (h, id) (expq s)) -> QInv (f_startbatch s id x' hh).
Proof.
  intros [I1 I2 I3 I4 I5 I6 I7 I8 I9 I10] Hg Hn He. constructor; simpl; try assumption.
  - intros id0 x0 Hg0 Hr. destruct (eq_dec id0 id) as [->|Hne]; [apply has_set_same|].
    rewrite get_set_other in Hg0 by exact Hne. rewrite has_set_other by exact Hne. eapply I1; eassumption.
  - intros h0 id0 x0 Hin0 Hg0. assert (Hne : id0 <> id) by (intros ->; exact (Hn _ Hin0)).
    rewrite get_set_other in Hg0 by exact Hne. eapply I2; eassumption.
  - intros h0 id0 Hin0. destruct (eq_dec id0 id) as [->|Hne]; [apply has_set_same|].
    rewrite has_set_other by exact Hne. eapply I4. exact Hin0.
  - intros h0 id0 Hh0 Hin0. assert (Hne : id0 <> id) by (intros ->; exact (Hn _ Hin0)).
    rewrite has_set_other in Hh0 by exact Hne. exact (I5 _ _ Hh0 Hin0).
  - intros id0 Hh0. destruct (eq_dec id0 id) as [->|Hne]; [apply has_set_same|].
    rewrite has_set_other in Hh0 by exact Hne. rewrite has_set_other by exact Hne. apply I6. exact Hh0.
  - intros h0 id0 Hin0. apply q_add_in in Hin0. destruct Hin0 as [E|Hin0].
    + inversion E; subst. apply get_set_same.
    + assert (Hne : id0 <> id) by (intros ->; exact (He _ Hin0)). rewrite get_set_other by exact Hne. apply I7. exact Hin0.
  - apply q_add_NoDup. exact I9.
Qed.

(** ** the handlers *)
Lemma slash_qsame c s svc prov : q_same s (slash c s svc prov).
Proof.
  unfold slash. destruct (get _ (binds s)) as [b|]; [|repeat split].
  destruct (b_dep b <? _); [repeat split|]. destruct (send _ _ _ _ _); repeat split.
Qed.
Lemma q_same_trans s1 s2 s3 : q_same s1 s2 -> q_same s2 s3 -> q_same s1 s3.
Proof. unfold q_same. intros (A1 & A2 & A3 & A4 & A5) (B1 & B2 & B3 & B4 & B5). repeat split; congruence. Qed.
Lemma expire_qsame c x s e : q_same s (expire_request c x s e).
Proof.
  destruct e as [rid q]. unfold expire_request. eapply q_same_trans; [apply (slash_qsame c s (x_svc x) (q_prov q))|].
  destruct (send _ _ _ _ _); repeat split.
Qed.
Lemma expire_fold_qsame c x : forall act s, q_same s (fold_left (expire_request c x) act s).
Proof.
  induction act as [|e act IH]; cbn [fold_left]; intros s; [repeat split|].
  eapply q_same_trans; [apply expire_qsame|apply IH].
Qed.
Lemma callback_qsame s id : q_same s (callback s id).
Proof. unfold callback. destruct (get id (ctxs s)); repeat split. Qed.

Lemma QInv_expired_handler c s id :
  QInv s -> In (height s, id) (expq s) ->
  QInv (expired_batch_handler c s id)
  /\ height (expired_batch_handler c s id) = height s
  /\ (forall h id', id' <> id -> In (h, id') (expq s) -> In (h, id') (expq (expired_batch_handler c s id))).
Proof.
  intros Hinv Hin. unfold expired_batch_handler.
  destruct (get id (ctxs s)) as [x|] eqn:Eg.
  2: { exfalso. pose proof (q_exp_mark _ Hinv _ _ Hin) as Hm. assert (Hh : has id (expmark s) = true) by (apply has_get; eexists; exact Hm).
       pose proof (q_exp_ctx _ Hinv _ Hh) as Hc. unfold has in Hc. rewrite Eg in Hc. discriminate. }
  set (pr := if x_brun x then _ else (s, x)).
  assert (Hpr : q_same s (fst pr) /\ height (fst pr) = height s /\ x_brun (snd pr) = false).
  { subst pr. destruct (x_brun x) eqn:Eb; [|split; [repeat split|split; [reflexivity|exact Eb]]]. simpl.
    set (act := filter _ (reqs s)).
    assert (Hq : q_same s (fold_left (expire_request c x) act s)) by apply expire_fold_qsame.
    assert (Hh : height (fold_left (expire_request c x) act s) = height s).
    { generalize act s. clear. induction act as [|[r q] act IH]; intros s; cbn [fold_left]; [reflexivity|]. rewrite IH.
      destruct (expire_struct c x s r q) as (_ & _ & Hh). exact Hh. }
    destruct (x_mod x); (split; [|split; [|reflexivity]]).
    - eapply q_same_trans; [exact Hq|apply callback_qsame].
    - unfold callback. match goal with |- context [get id (ctxs ?t)] => destruct (get id (ctxs t)) end; simpl; exact Hh.
    - exact Hq.
    - exact Hh. }
  destruct pr as [s1 x1]. simpl in Hpr. destruct Hpr as (Hq1 & Hh1 & Hb1). cbv zeta.
  assert (Hinv1 : QInv s1) by (eapply QInv_same; [exact Hq1|exact Hinv]).
  destruct Hq1 as (C1 & N1 & M1 & E1 & K1).
  assert (Hin1 : In (height s, id) (expq s1)) by (rewrite E1; exact Hin).
  assert (Hg1 : get id (ctxs s1) = Some x) by (rewrite C1; exact Eg).
  destruct (QInv_deq s1 (height s) id x x1 Hinv1 Hin1 Hg1 Hb1) as (D & Dm & Dn & Dg).
  set (sd := f_deq s1 (height s) id x1) in *.
  assert (Hexp : forall h id', id' <> id -> In (h, id') (expq s) -> In (h, id') (q_del (height s, id) (expq s1))).
  { intros h id' Hne Hi. apply q_del_in. split; [congruence|rewrite E1; exact Hi]. }
  destruct (x_state x1 =? 2) eqn:S2; destruct (x_state x1 =? 0) eqn:S0.
  - apply Z.eqb_eq in S2, S0. lia.
  - (* killed: removed *)
    split; [|split; [simpl; exact Hh1|intros h id' Hne Hi; simpl; apply Hexp; assumption]].
    eapply (QInv_same (f_delctx sd id)); [repeat split|]. apply QInv_delctx; assumption.
  - destruct (x_rep x1 && ((x_total x1 <? 0) || (x_batch x1 <? x_total x1))).
    + split; [|split; [simpl; exact Hh1|intros h id' Hne Hi; simpl; apply Hexp; assumption]].
      eapply (QInv_same (f_enq sd (height s - x_timeout x1 + x_freq x1) id)); [repeat split|].
      eapply QInv_enq; [exact D|exact Dg|exact Hb1|exact Dm|exact Dn].
    + split; [|split; [simpl; exact Hh1|intros h id' Hne Hi; simpl; apply Hexp; assumption]].
      eapply (QInv_same (f_delctx sd id)); [repeat split|]. apply QInv_delctx; assumption.
  - split; [|split; [simpl; exact Hh1|intros h id' Hne Hi; simpl; apply Hexp; assumption]].
    eapply (QInv_same sd); [repeat split|exact D].
Qed.

Lemma QInv_new_handler s id :
  QInv s -> In (height s, id) (newq s) ->
  QInv (new_batch_handler s id)
  /\ height (new_batch_handler s id) = height s
  /\ (forall h id', id' <> id -> In (h, id') (newq s) -> In (h, id') (newq (new_batch_handler s id))).
Proof.
  intros Hinv Hin. unfold new_batch_handler.
  destruct (get id (ctxs s)) as [x|] eqn:Eg.
  2: { exfalso. pose proof (q_new_ctx _ Hinv _ _ Hin) as Hc. unfold has in Hc. rewrite Eg in Hc. discriminate. }
  destruct (QInv_deqnew s (height s) id Hinv Hin) as (D & Dn).
  set (sd := f_deqnew s (height s) id) in *.
  assert (Hkeep : forall h id', id' <> id -> In (h, id') (newq s) -> In (h, id') (q_del (height s, id) (newq s))).
  { intros h id' Hne Hi. apply q_del_in. split; [congruence|exact Hi]. }
  assert (Hnm : has id (expmark s) = false).
  { destruct (has id (expmark s)) eqn:E; [|reflexivity]. exfalso. exact (q_exp_nonew _ Hinv _ _ E Hin). }
  assert (Hne : forall h, ~ In (h, id) (expq s)).
  { intros h Hi. pose proof (q_exp_mark _ Hinv _ _ Hi) as Hm. unfold has in Hnm. rewrite Hm in Hnm. discriminate. }
  assert (SK : forall x', QInv (dequeue_new (add_expiration (with_ctxs s (set id x' (ctxs s))) id (height s + x_timeout x)) id)).
  { intros x'. eapply (QInv_same (f_startbatch sd id x' (height s + x_timeout x))); [repeat split|].
    eapply QInv_startbatch; [exact D|exact Eg|exact Dn|exact Hne]. }
  destruct (x_state x =? 0).
  2: { split; [|split; [reflexivity|intros h id' Hn Hi; simpl; apply Hkeep; assumption]]. exact D. }
  destruct (filter_provs s x (x_provs x)) as [ps|].
  2: { split; [|split; [reflexivity|intros h id' Hn Hi; simpl; apply Hkeep; assumption]].
       eapply QInv_same; [|apply (SK (cx_bthr (cx_bresp (cx_breq (cx_brun (cx_batch x (x_batch x + 1)) true) 0) 0) (x_thr x)))]. repeat split. }
  cbv zeta. destruct ((0 <? Z.of_nat (length ps)) && (x_thr x <=? Z.of_nat (length ps))).
  2: { split; [|split; [reflexivity|intros h id' Hn Hi; simpl; apply Hkeep; assumption]].
       eapply QInv_same; [|apply (SK (cx_bthr (cx_bresp (cx_breq (cx_brun (cx_batch x (x_batch x + 1)) true) 0) 0) (x_thr x)))]. repeat split. }
  destruct (debit_all (led s) (x_cons x) (total_fees s x ps)) as [l|].
  - split; [|split; [reflexivity|intros h id' Hn Hi; simpl; apply Hkeep; assumption]].
    eapply QInv_same; [|apply (SK (cx_bthr (cx_breq (cx_bresp (cx_brun (cx_batch x (x_batch x + 1)) true) 0) (Z.of_nat (length ps))) (x_thr x)))].
    repeat split.
  - split; [|split; [unfold on_paused; destruct (x_mod x); reflexivity|
                     intros h id' Hn Hi; unfold on_paused; destruct (x_mod x); simpl; apply Hkeep; assumption]].
    eapply (QInv_same (with_ctxs sd (set id (cx_state (cx_brun x false) 1) (ctxs sd)))).
    + unfold on_paused. destruct (x_mod x); repeat split.
    + eapply QInv_ctx_set; [exact D|exact Eg|]. simpl. discriminate.
Qed.

(** ** insertion sort of the due ids keeps membership and distinctness *)
Lemma ins_id_in a b l : In a (ins_id b l) <-> a = b \/ In a l.
Proof.
  induction l as [|y l IH]; simpl; [split; intros [H|H]; auto; contradiction|].
  destruct (ctx_ltb y b); simpl; [rewrite IH|]; intuition congruence.
Qed.
Lemma ins_id_NoDup b l : NoDup l -> ~ In b l -> NoDup (ins_id b l).
Proof.
  induction l as [|y l IH]; simpl; intros Hnd Hn; [constructor; [tauto|constructor]|].
  inversion Hnd as [|? ? Hy Hnd']; subst. destruct (ctx_ltb y b).
  - constructor; [|apply IH; [exact Hnd'|intros Hb; apply Hn; right; exact Hb]].
    rewrite ins_id_in. intros [E|H]; [apply Hn; left; exact E|exact (Hy H)].
  - constructor; [simpl; tauto|exact Hnd].
Qed.
Lemma sort_ids_in a l : In a (sort_ids l) <-> In a l.
Proof. induction l as [|y l IH]; simpl; [tauto|]. rewrite ins_id_in, IH. split; intros [H|H]; auto. Qed.
Lemma sort_ids_NoDup l : NoDup l -> NoDup (sort_ids l).
Proof.
  induction l as [|y l IH]; simpl; intros Hnd; [constructor|]. inversion Hnd; subst.
  apply ins_id_NoDup; [auto|]. rewrite sort_ids_in. assumption.
Qed.

Lemma due_in h q id : In id (due h q) <-> In (h, id) q.
Proof.
  unfold due. rewrite sort_ids_in, in_map_iff. split.
  - intros ([h' id'] & E & Hin). simpl in E. subst id'. apply filter_In in Hin. destruct Hin as (Hin & Hh). simpl in Hh.
    apply Z.eqb_eq in Hh. subst. exact Hin.
  - intros Hin. exists (h, id). split; [reflexivity|]. apply filter_In. split; [exact Hin|simpl; apply Z.eqb_refl].
Qed.
Lemma due_NoDup h q : NoDup q -> NoDup (due h q).
Proof.
  intros Hnd. unfold due. apply sort_ids_NoDup. induction q as [|[h' id'] q IH]; simpl; [constructor|].
  inversion Hnd as [|? ? Hn Hnd']; subst. destruct (Z.eqb_spec h' h) as [->|Hne]; simpl; [|apply IH; exact Hnd'].
  constructor; [|apply IH; exact Hnd']. rewrite in_map_iff. intros ([h2 id2] & E & Hin). simpl in E. subst id2.
  apply filter_In in Hin. destruct Hin as (Hin & Hh). simpl in Hh. apply Z.eqb_eq in Hh. subst. exact (Hn Hin).
Qed.

Lemma fold_handlers (P : state -> Prop) (f : state -> ctxid -> state) (pre : state -> ctxid -> Prop) :
  (forall s id, P s -> pre s id -> P (f s id) /\ (forall id', id' <> id -> pre s id' -> pre (f s id) id')) ->
  forall ids s, NoDup ids -> P s -> (forall id, In id ids -> pre s id) -> P (fold_left f ids s).
Proof.
  intros H ids. induction ids as [|id ids IH]; cbn [fold_left]; intros s Hnd Hp Hpre; [exact Hp|].
  inversion Hnd as [|? ? Hn Hnd']; subst. destruct (H s id Hp (Hpre id (or_introl eq_refl))) as (Hp' & Hk).
  apply IH; [exact Hnd'|exact Hp'|]. intros id' Hin. apply Hk; [intros ->; exact (Hn Hin)|apply Hpre; right; exact Hin].
Qed.

Lemma QInv_end_block c s dt : QInv s -> QInv (end_block c s dt).
Proof.
  intros Hinv. unfold end_block. cbv zeta.
  set (s1 := fold_left (expired_batch_handler c) _ s).
  assert (H1 : QInv s1 /\ height s1 = height s).
  { subst s1. apply (fold_handlers (fun t => QInv t /\ height t = height s) (expired_batch_handler c)
                      (fun t id => In (height t, id) (expq t))).
    - intros t id (Ht & Hh) Hpre. destruct (QInv_expired_handler c t id Ht Hpre) as (A & B & C).
      split; [split; [exact A|congruence]|]. intros id' Hne Hp. rewrite B. apply C; assumption.
    - apply due_NoDup. exact (q_exp_nodup _ Hinv).
    - split; [exact Hinv|reflexivity].
    - intros id Hin. apply due_in in Hin. exact Hin. }
  destruct H1 as (H1 & Hh1).
  set (s2 := fold_left new_batch_handler _ s1).
  assert (H2 : QInv s2).
  { subst s2. apply (fold_handlers (fun t => QInv t /\ height t = height s1) new_batch_handler
                      (fun t id => In (height t, id) (newq t))).
    - intros t id (Ht & Hh) Hpre. destruct (QInv_new_handler t id Ht Hpre) as (A & B & C).
      split; [split; [exact A|congruence]|]. intros id' Hne Hp. rewrite B. apply C; assumption.
    - apply due_NoDup. exact (q_new_nodup _ H1).
    - split; [exact H1|reflexivity].
    - intros id Hin. apply due_in in Hin. exact Hin. }
  eapply (QInv_same s2); [repeat split|exact H2].
Qed.

(** ** all other steps *)
Ltac q_frame H := repeat dmn H; inversion H; subst; clear H; repeat split; reflexivity.

Lemma QInv_pause s id cons s' : k_pause s id cons = Okk s' -> QInv s -> QInv s'.
Proof.
  unfold k_pause. intros H Hinv. destruct (get id (ctxs s)) as [x|] eqn:Eg; [|discriminate].
  repeat dmn H. inversion H; subst. eapply QInv_ctx_set; [exact Hinv|exact Eg|simpl; auto].
Qed.
Lemma QInv_kill s id cons s' : k_kill s id cons = Okk s' -> QInv s -> QInv s'.
Proof.
  unfold k_kill. intros H Hinv. destruct (get id (ctxs s)) as [x|] eqn:Eg; [|discriminate].
  repeat dmn H. inversion H; subst. eapply QInv_ctx_set; [exact Hinv|exact Eg|simpl; auto].
Qed.
Lemma QInv_update_context c s id provs capd capa timeout freq total cons s' :
  update_context c s id provs capd capa timeout freq total cons = Okk s' -> QInv s -> QInv s'.
Proof.
  unfold update_context. intros H Hinv.
  match type of H with (if negb ?g then _ else _) = _ => destruct g; [|discriminate] end.
  cbv beta iota zeta delta [negb] in H.
  destruct (check_authority s cons id true); [|discriminate]. cbv beta iota zeta delta [negb] in H.
  destruct (get id (ctxs s)) as [x|] eqn:Eg; [|discriminate].
  repeat dmn H; inversion H; subst; clear H; (eapply QInv_ctx_set; [exact Hinv|exact Eg|]);
    repeat match goal with |- context [match ?g with _ => _ end] => destruct g end; simpl; auto.
Qed.

Lemma QInv_respond c s rid prov kind s' : respond c s rid prov kind = Okk s' -> QInv s -> QInv s'.
Proof.
  intros H Hinv. unfold respond in H. destruct rid as [[[id batch] hh] ii].
  destruct ((0 <=? prov) && negb (kind =? 2)); cbv beta iota zeta delta [negb] in H; [|discriminate].
  match type of H with context [@get reqid request ?i ?k (reqs s)] =>
    destruct (@get reqid request i k (reqs s)) as [q|] eqn:Eq end; [|discriminate].
  destruct (get id (ctxs s)) as [x|] eqn:Ex; [|discriminate].
  destruct (q_prov q =? prov); cbv beta iota zeta delta [negb] in H; [|discriminate].
  destruct (q_active q); cbv beta iota zeta delta [negb] in H; [|discriminate].
  destruct (add_earned_fee c s prov (q_fd q) (q_fee q)) as [s1|] eqn:Ef; [|discriminate].
  assert (Q1 : q_same s s1).
  { clear -Ef. unfold add_earned_fee in Ef. repeat dmn Ef; inversion Ef; subst; repeat split. }
  assert (D1 : QInv s1) by (eapply QInv_same; [exact Q1|exact Hinv]).
  assert (Ex1 : get id (ctxs s1) = Some x) by (destruct Q1 as (C1 & _); rewrite C1; exact Ex).
  destruct (x_bresp (cx_bresp x (x_bresp x + 1)) =? x_breq (cx_bresp x (x_bresp x + 1)));
    [destruct (x_mod (cx_bresp x (x_bresp x + 1)))|]; inversion H; subst s'; clear H.
  - unfold callback. simpl. rewrite Ex1. simpl.
    eapply (QInv_same (with_ctxs s1 (set id (cx_brun (cx_bresp x (x_bresp x + 1)) false) (ctxs s1)))); [repeat split|].
    eapply QInv_ctx_set; [exact D1|exact Ex1|simpl; discriminate].
  - eapply (QInv_same (with_ctxs s1 (set id (cx_brun (cx_bresp x (x_bresp x + 1)) false) (ctxs s1)))); [repeat split|].
    eapply QInv_ctx_set; [exact D1|exact Ex1|simpl; discriminate].
  - eapply (QInv_same (with_ctxs s1 (set id (cx_bresp x (x_bresp x + 1)) (ctxs s1)))); [repeat split|].
    eapply QInv_ctx_set; [exact D1|exact Ex1|simpl; auto].
Qed.

Lemma QInv_exec_msg c s txh m s' : exec_msg_plain c s txh m = Okk s' -> fresh_ctx s (Tx txh m) -> QInv s -> QInv s'.
Proof.
  intros H Hf Hinv. destruct m; simpl in H.
  - unfold define in H. eapply QInv_same; [|exact Hinv]. q_frame H.
  - unfold bind in H. eapply QInv_same; [|exact Hinv]. q_frame H.
  - unfold update_binding in H. eapply QInv_same; [|exact Hinv]. q_frame H.
  - unfold set_withdraw in H. eapply QInv_same; [|exact Hinv]. q_frame H.
  - unfold enable in H. eapply QInv_same; [|exact Hinv]. q_frame H.
  - unfold disable in H. eapply QInv_same; [|exact Hinv]. q_frame H.
  - unfold refund_deposit in H. eapply QInv_same; [|exact Hinv]. q_frame H.
  - unfold call in H. destruct (negb _); [discriminate|].
    destruct (create_context _ _ _ _ _ _ _ _ _ _ _ _ _ _ _ _) as [[s1 id]|] eqn:E; [|discriminate].
    inversion H; subst. eapply QInv_create; [exact E|exact Hf|exact Hinv].
  - eapply QInv_respond; eassumption.
  - unfold msg_ctl in H. repeat dmn H. eapply QInv_pause; eassumption.
  - unfold msg_ctl in H. repeat dmn H. eapply QInv_start; eassumption.
  - unfold msg_ctl in H. repeat dmn H. eapply QInv_kill; eassumption.
  - eapply QInv_update_context; eassumption.
  - unfold withdraw in H. eapply QInv_same; [|exact Hinv]. q_frame H.
Qed.

Lemma QInv_apply c s st : c_msvc c < 0 -> fresh_ctx s st -> QInv s -> QInv (apply c s st).
Proof.
  intros Hm Hf Hinv. unfold apply. destruct (exec_step c s st) as [s'| |] eqn:E; try exact Hinv.
  destruct st; cbn [exec_step] in E.
  9: { change (exec_msg_plain c s 0 (MBind svc prov depd depa pr qos true owner) = Okk s') in E.
       eapply QInv_exec_msg; [exact E|exact I|exact Hinv]. }
  all: simpl in E.
  - rewrite (exec_msg_plain_eq _ _ _ _ Hm) in E. eapply QInv_exec_msg; eassumption.
  - destruct (0 <=? dt); [|discriminate]. inversion E; subst. apply QInv_end_block. exact Hinv.
  - inversion E; subst. eapply QInv_same; [|exact Hinv]. repeat split.
  - eapply QInv_same; [|exact Hinv]. q_frame E.
  - destruct (create_context _ _ _ _ _ _ _ _ _ _ _ _ _ _ _ _) as [[s1 id]|] eqn:E1; [|discriminate].
    inversion E; subst. eapply QInv_create; [exact E1|exact Hf|exact Hinv].
  - eapply QInv_pause; eassumption.
  - eapply QInv_start; eassumption.
  - eapply QInv_kill; eassumption.
Qed.

Lemma QInv_init h0 t0 l0 : QInv (init h0 t0 l0).
Proof. constructor; simpl; try (intros; discriminate); try (intros; contradiction); constructor. Qed.

(** no context id is issued while a context with that id is still stored (distinct
    transactions have distinct hashes) *)
Fixpoint fresh_history (c : config) (s : state) (steps : list step) : Prop :=
  match steps with
  | [] => True
  | st :: r => fresh_ctx s st /\ fresh_history c (apply c s st) r
  end.

Lemma run_inv_fresh (P : state -> Prop) c :
  (forall s st, fresh_ctx s st -> P s -> P (apply c s st)) ->
  forall steps s, fresh_history c s steps -> P s -> P (run c s steps).
Proof.
  intros H steps. induction steps as [|st steps IH]; simpl; intros s Hf Hs; [exact Hs|].
  destruct Hf as (F1 & F2). apply IH; [exact F2|]. apply H; assumption.
Qed.

Theorem QInv_reachable c steps h0 t0 l0 :
  c_msvc c < 0 -> fresh_history c (init h0 t0 l0) steps -> QInv (run c (init h0 t0 l0) steps).
Proof. intros Hm Hf. apply (run_inv_fresh QInv c); [intros; apply QInv_apply; assumption|exact Hf|apply QInv_init]. Qed.
