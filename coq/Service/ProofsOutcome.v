(** * Service: at most one outcome per request over every history whose context-creating
    transactions have distinct hashes — with or without a module-served service.  (The argument of
    [ProofsHist.single_outcome_lemma] uses request heights and needs no hypothesis on hashes, but
    does not cover a request created inside a message; this one argues with batch numbers.) *)
From Irismod Require Import Service.Model Service.Proofs Service.ProofsHist Service.ProofsEscrow Service.ProofsSched
  Service.ProofsBatch Service.ProofsLiab Service.ProofsTally Service.ProofsLive Service.ProofsModule Service.ProofsFresh
  Service.ProofsCallback Service.ProofsSchedule Service.ProofsModuleHist.

Record OInv (s : state) : Prop := {
  o_nodup : NoDup (outs s);
  o_inact : forall rid q, In rid (outs s) -> get rid (reqs s) = Some q -> q_active q = false;
  o_batch : forall rid x, In rid (outs s) -> get (rid_ctx rid) (ctxs s) = Some x -> x_state x <> 2 -> rid_b rid <= x_batch x
}.

Definition o_same (s s' : state) : Prop := g_out s' = g_out s /\ reqs s' = reqs s /\ ctxs s' = ctxs s.
Lemma OInv_same s s' : o_same s s' -> OInv s -> OInv s'.
Proof. intros (A & B & C) [I1 I2 I3]. unfold outs in *. constructor; unfold outs; rewrite ?A, ?B, ?C; assumption. Qed.

Lemma OInv_ctx_set s id x x' t :
  OInv s -> get id (ctxs s) = Some x -> (x_state x' <> 2 -> x_state x <> 2 /\ x_batch x <= x_batch x') ->
  g_out t = g_out s -> reqs t = reqs s -> ctxs t = set id x' (ctxs s) -> OInv t.
Proof.
  intros [I1 I2 I3] Hg Hx G R C. unfold outs in *. constructor; unfold outs; rewrite ?G, ?R, ?C; try assumption.
  intros rid x0 Hin Hg0 Hs. destruct (eq_dec (rid_ctx rid) id) as [Eq|Hne].
  - rewrite Eq, get_set_same in Hg0. inversion Hg0; subst x0. destruct (Hx Hs) as (H1 & H2).
    assert (rid_b rid <= x_batch x) by (apply (I3 rid x Hin); [rewrite Eq; exact Hg|exact H1]). lia.
  - rewrite get_set_other in Hg0 by exact Hne. apply (I3 rid x0 Hin Hg0 Hs).
Qed.

Lemma OInv_ctx_del s id t : OInv s -> g_out t = g_out s -> reqs t = reqs s -> ctxs t = del id (ctxs s) -> OInv t.
Proof.
  intros [I1 I2 I3] G R C. unfold outs in *. constructor; unfold outs; rewrite ?G, ?R, ?C; try assumption.
  intros rid x0 Hin Hg0 Hs. destruct (eq_dec (rid_ctx rid) id) as [Eq|Hne]; [rewrite Eq, get_del_same in Hg0; discriminate|].
  rewrite get_del_other in Hg0 by exact Hne. apply (I3 rid x0 Hin Hg0 Hs).
Qed.

Lemma OInv_new_ctx s id x t :
  OInv s -> (forall rid, In rid (outs s) -> rid_ctx rid <> id) ->
  g_out t = g_out s -> reqs t = reqs s -> ctxs t = set id x (ctxs s) -> OInv t.
Proof.
  intros [I1 I2 I3] Hn G R C. unfold outs in *. constructor; unfold outs; rewrite ?G, ?R, ?C; try assumption.
  intros rid x0 Hin Hg0 Hs. rewrite get_set_other in Hg0 by (apply Hn; exact Hin). apply (I3 rid x0 Hin Hg0 Hs).
Qed.

(** a request without logged outcome is stored inactive and logged; its batch is at most the current one *)
Lemma OInv_log s rid q' k t :
  OInv s -> ~ In rid (outs s) -> q_active q' = false ->
  (forall x, get (rid_ctx rid) (ctxs s) = Some x -> x_state x <> 2 -> rid_b rid <= x_batch x) ->
  g_out t = g_out s ++ [(rid, k)] -> reqs t = set rid q' (reqs s) -> ctxs t = ctxs s -> OInv t.
Proof.
  intros [I1 I2 I3] Hnot Ha' Hbt G R C.
  assert (Ho : outs t = outs s ++ [rid]) by (unfold outs; rewrite G, map_app; reflexivity).
  constructor; rewrite ?Ho, ?R, ?C.
  - apply NoDup_snoc; assumption.
  - intros rid0 q0 Hin Hg. destruct (eq_dec rid0 rid) as [->|Hne].
    + rewrite get_set_same in Hg. inversion Hg; subst. exact Ha'.
    + rewrite get_set_other in Hg by exact Hne. apply in_app_or in Hin. destruct Hin as [Hin|[E|[]]]; [|congruence]. eapply I2; eassumption.
  - intros rid0 x0 Hin Hg0 Hs. apply in_app_or in Hin. destruct Hin as [Hin|[E|[]]]; [apply (I3 rid0 x0 Hin Hg0 Hs)|]. subst rid0.
    apply Hbt; assumption.
Qed.

Lemma OInv_new_reqs s (rs : list (reqid * request)) t :
  OInv s -> (forall e, In e rs -> ~ In (fst e) (outs s)) ->
  g_out t = g_out s -> reqs t = fold_left (fun m e => set (fst e) (snd e) m) rs (reqs s) -> ctxs t = ctxs s -> OInv t.
Proof.
  intros [I1 I2 I3] Hn G R C. unfold outs in *. constructor; unfold outs; rewrite ?G, ?R, ?C; try assumption.
  intros rid q Hin Hg. destruct (get_fold_set _ _ _ _ Hg) as [H1|H1]; [exfalso; exact (Hn _ H1 Hin)|eapply I2; eassumption].
Qed.

Lemma OInv_filter s f t : OInv s -> NoDup (keys (reqs s)) ->
  g_out t = g_out s -> reqs t = filter f (reqs s) -> ctxs t = ctxs s -> OInv t.
Proof.
  intros [I1 I2 I3] Hk G R C. unfold outs in *. constructor; unfold outs; rewrite ?G, ?R, ?C; try assumption.
  intros rid q Hin Hg. eapply I2; [exact Hin|]. eapply get_filter_NoDup; eassumption.
Qed.

(** *** a response *)
Lemma respond_state c s rid prov kind s' :
  respond c s rid prov kind = Okk s' ->
  forall x x', get (rid_ctx rid) (ctxs s) = Some x -> get (rid_ctx rid) (ctxs s') = Some x' -> x_state x' = x_state x.
Proof.
  intros H x x' Hx Hx'. unfold respond in H. destruct rid as [[[id batch] hh] ii]. simpl in Hx, Hx'.
  destruct ((0 <=? prov) && negb (kind =? 2)); cbv beta iota zeta delta [negb] in H; [|discriminate].
  match type of H with context [@get reqid request ?i ?k (reqs s)] =>
    destruct (@get reqid request i k (reqs s)) as [q|] eqn:Eq end; [|discriminate].
  rewrite Hx in H.
  destruct (q_prov q =? prov); cbv beta iota zeta delta [negb] in H; [|discriminate].
  destruct (q_active q); cbv beta iota zeta delta [negb] in H; [|discriminate].
  destruct (add_earned_fee c s prov (q_fd q) (q_fee q)) as [s1|] eqn:Ef; [|discriminate].
  assert (F1 : ctxs s1 = ctxs s) by (clear -Ef; unfold add_earned_fee in Ef; repeat dmn Ef; inversion Ef; subst; reflexivity).
  destruct (x_bresp (cx_bresp x (x_bresp x + 1)) =? x_breq (cx_bresp x (x_bresp x + 1)));
    [destruct (x_mod (cx_bresp x (x_bresp x + 1)))|]; inversion H; subst s'; clear H; simpl in Hx';
    try (unfold callback in Hx'; simpl in Hx'; rewrite F1, Hx in Hx'; simpl in Hx');
    rewrite get_set_same in Hx'; inversion Hx'; subst; reflexivity.
Qed.

Lemma OInv_respond c s rid prov kind s' : respond c s rid prov kind = Okk s' -> BatchInv s -> OInv s -> OInv s'.
Proof.
  intros H Hb Ho.
  destruct (respond_shape _ _ _ _ _ _ H) as (q & x & q' & x' & Hq & Ha & Hx & Ha' & _ & _ & R & C & E1 & _).
  destruct (respond_struct _ _ _ _ _ _ H) as (_ & _ & _ & _ & _ & _ & G & _).
  assert (Hx' : get (rid_ctx rid) (ctxs s') = Some x') by (rewrite C; apply get_set_same).
  pose proof (respond_state _ _ _ _ _ _ H x x' Hx Hx') as Est.
  set (t1 := with_g_out (with_reqs s (set rid q' (reqs s))) (g_out s ++ [(rid, 1)])).
  assert (T1 : OInv t1).
  { eapply (OInv_log s rid q' 1 t1 Ho); try reflexivity; [|exact Ha'|].
    - intros Hin. rewrite (o_inact _ Ho rid q Hin Hq) in Ha. discriminate.
    - intros x0 Hx0 _. destruct (b_act _ Hb rid q Hq Ha) as (x1 & Hx1 & _ & Hbb). rewrite Hx1 in Hx0. inversion Hx0; subst. lia. }
  eapply (OInv_ctx_set t1 (rid_ctx rid) x x' s' T1); [exact Hx| |exact G|exact R|exact C].
  intros Hs. rewrite Est in Hs. split; [exact Hs|lia].
Qed.

(** *** the end blocker *)
Lemma OInv_expire_fold c x : forall act s,
  NoDup (map fst act) ->
  (forall e, In e act -> ~ In (fst e) (outs s)
             /\ (forall x0, get (rid_ctx (fst e)) (ctxs s) = Some x0 -> x_state x0 <> 2 -> rid_b (fst e) <= x_batch x0)) ->
  OInv s -> OInv (fold_left (expire_request c x) act s).
Proof.
  induction act as [|[rid q] act IH]; cbn [fold_left]; intros s Hnd Hall Ho; [exact Ho|].
  cbn [map fst] in Hnd. inversion Hnd as [|? ? Hn Hnd']; subst.
  destruct (Hall (rid, q) (or_introl eq_refl)) as (Hnot & Hbt). simpl in Hnot, Hbt.
  destruct (expire_struct c x s rid q) as (R & G & _). destruct (expire_qsame c x s (rid, q)) as (C & _).
  apply IH; [exact Hnd'| |].
  - intros e He. destruct (Hall e (or_intror He)) as (Hnot' & Hbt'). split.
    + unfold outs. rewrite G, map_app. simpl. intros Hin. apply in_app_or in Hin. destruct Hin as [Hin|[E|[]]]; [exact (Hnot' Hin)|].
      apply Hn. rewrite E. apply in_map. exact He.
    + rewrite C. exact Hbt'.
  - eapply (OInv_log s rid (rq_active q false) 2 _ Ho Hnot); [reflexivity|exact Hbt|exact G|exact R|exact C].
Qed.

Lemma OInv_expired_handler c s id : BatchInv s -> OInv s -> OInv (expired_batch_handler c s id).
Proof.
  intros Hb Ho. unfold expired_batch_handler. destruct (get id (ctxs s)) as [x|] eqn:Eg; [|exact Ho].
  set (pr := if x_brun x then _ else (s, x)).
  assert (Epr : pr = exp_pr c s id x) by reflexivity.
  destruct (exp_pr_facts c s id x Hb Eg) as (K1 & C1 & _ & _ & _). rewrite <- Epr in K1, C1.
  assert (H1 : OInv (fst pr) /\ x_state (snd pr) = x_state x /\ x_batch (snd pr) = x_batch x).
  { subst pr. destruct (x_brun x); [|split; [exact Ho|split; reflexivity]]. simpl. split; [|split; reflexivity].
    set (act := filter _ (reqs s)).
    assert (F : OInv (fold_left (expire_request c x) act s)).
    { apply OInv_expire_fold; [| |exact Ho].
      - subst act. apply (keys_filter_NoDup _ (reqs s)). exact (b_keys _ Hb).
      - intros [r q] Hin. subst act. apply filter_In in Hin. destruct Hin as (Hin & Hact). apply andb_true_iff in Hact. destruct Hact as (_ & Hact).
        simpl in Hact. simpl. assert (Hg : get r (reqs s) = Some q) by (apply In_get_NoDup; [exact (b_keys _ Hb)|exact Hin]). split.
        + intros Hio. rewrite (o_inact _ Ho r q Hio Hg) in Hact. discriminate.
        + intros x0 Hx0 _. destruct (b_act _ Hb r q Hg Hact) as (x1 & Hx1 & _ & Hbb). rewrite Hx1 in Hx0. inversion Hx0; subst. lia. }
    destruct (x_mod x); [|exact F].
    match goal with |- OInv (callback ?sf id) => apply (OInv_same sf); [|exact F];
      destruct (callback_same sf id) as (A & B & _); destruct (callback_qsame sf id) as (C & _); repeat split; assumption end. }
  destruct pr as [s1 x1]. simpl in H1, K1, C1. destruct H1 as (O1 & Est & Ebt). cbv zeta.
  match goal with |- OInv (with_reqs ?t (filter ?f (reqs ?t))) =>
    assert (Ht : g_out t = g_out s1 /\ reqs t = reqs s1 /\ (ctxs t = set id x1 (ctxs s1) \/ ctxs t = del id (set id x1 (ctxs s1)))) end.
  { destruct (Z.eqb_spec (x_state x1) 2) as [S2|S2]; destruct (Z.eqb_spec (x_state x1) 0) as [S0|S0]; [lia| | |];
      try destruct (x_rep x1 && _); simpl; repeat split; auto. }
  destruct Ht as (Gt & Rt & Ct).
  match goal with |- OInv (with_reqs ?t ?r) => set (tt := t) in *; clearbody tt end.
  assert (Hg1 : get id (ctxs s1) = Some x) by (rewrite C1; exact Eg).
  assert (T1 : OInv (with_ctxs s1 (set id x1 (ctxs s1)))).
  { eapply (OInv_ctx_set s1 id x x1); [exact O1|exact Hg1| |reflexivity|reflexivity|reflexivity]. intros Hs. rewrite Est in Hs. split; [exact Hs|lia]. }
  assert (T2 : OInv tt).
  { destruct Ct as [Ct|Ct].
    - eapply OInv_same; [|exact T1]. repeat split; assumption.
    - eapply (OInv_ctx_del (with_ctxs s1 (set id x1 (ctxs s1))) id tt T1); assumption. }
  eapply (OInv_filter tt _ _ T2); [rewrite Rt; exact K1|reflexivity|reflexivity|reflexivity].
Qed.

Lemma OInv_new_handler s id :
  BatchInv s -> (forall x, get id (ctxs s) = Some x -> x_brun x = false) -> OInv s -> OInv (new_batch_handler s id).
Proof.
  intros Hb Hcl Ho. unfold new_batch_handler. destruct (get id (ctxs s)) as [x|] eqn:Eg; [|exact Ho].
  destruct (Z.eqb_spec (x_state x) 0) as [S0|S0]; [|eapply OInv_same; [|exact Ho]; repeat split].
  assert (SK : forall x' t, x_batch x <= x_batch x' -> g_out t = g_out s -> reqs t = reqs s -> ctxs t = set id x' (ctxs s) -> OInv t).
  { intros x' t E2 G R C. eapply (OInv_ctx_set s id x x' t Ho Eg); try assumption. intros _. split; [lia|assumption]. }
  destruct (filter_provs s x (x_provs x)) as [ps|]; [|eapply (SK (cx_bthr (cx_bresp (cx_breq (cx_brun (cx_batch x (x_batch x + 1)) true) 0) 0) (x_thr x))); try reflexivity; simpl; lia].
  cbv zeta. destruct (_ && _); [|eapply (SK (cx_bthr (cx_bresp (cx_breq (cx_brun (cx_batch x (x_batch x + 1)) true) 0) 0) (x_thr x))); try reflexivity; simpl; lia].
  destruct (debit_all (led s) (x_cons x) (total_fees s x ps)) as [l|].
  - set (sl := with_led s (credit_all l REQ (total_fees s x ps))).
    set (rs := mk_requests sl x id (x_batch x + 1) 0 ps).
    set (t1 := with_reqs s (fold_left (fun m e => set (fst e) (snd e) m) rs (reqs s))).
    assert (T1 : OInv t1).
    { eapply (OInv_new_reqs s rs t1 Ho); try reflexivity. intros e He Hin.
      destruct (mk_requests_shape _ _ _ _ _ _ _ He) as (A & B & _).
      assert (rid_b (fst e) <= x_batch x); [|lia]. apply (o_batch _ Ho (fst e) x Hin); [rewrite A; exact Eg|lia]. }
    eapply (OInv_ctx_set t1 id x (cx_bthr (cx_breq (cx_bresp (cx_brun (cx_batch x (x_batch x + 1)) true) 0) (Z.of_nat (length ps))) (x_thr x))); [exact T1|exact Eg| |reflexivity|reflexivity|reflexivity].
    intros _. simpl. split; lia.
  - eapply (SK (cx_state (cx_brun x false) 1)); [simpl; lia|unfold on_paused; destruct (x_mod x); reflexivity..].
Qed.

(** *** the other steps *)
Ltac o_frame H := repeat dmn H; inversion H; subst; clear H; repeat split; reflexivity.

Lemma create_context_out c s txh svc provs cons inok capd capa timeout rep freq total st thr md s' id :
  create_context c s txh svc provs cons inok capd capa timeout rep freq total st thr md = Some (s', id) ->
  (forall rid, In rid (outs s) -> rid_ctx rid <> (txh, iidx s)) -> OInv s -> OInv s'.
Proof.
  intros H Hn Ho. destruct (create_context_shape _ _ _ _ _ _ _ _ _ _ _ _ _ _ _ _ _ _ H) as (Hid & R & _ & _ & _ & x & C & _).
  assert (G : g_out s' = g_out s) by (clear -H; unfold create_context in H; repeat dmn H; inversion H; subst; reflexivity).
  eapply (OInv_new_ctx s id x s' Ho); try assumption. rewrite Hid. exact Hn.
Qed.

Lemma OInv_pause s id cons s' : k_pause s id cons = Okk s' -> OInv s -> OInv s'.
Proof.
  unfold k_pause. intros H Ho. destruct (get id (ctxs s)) as [x|] eqn:Eg; [|discriminate].
  destruct (x_mod x && negb (check_authority s cons id false)); [discriminate|]. destruct (negb (x_rep x)); [discriminate|].
  destruct (Z.eqb_spec (x_state x) 0) as [S0|S0]; [|discriminate]. simpl in H. inversion H; subst.
  eapply (OInv_ctx_set s id x (cx_state x 1)); [exact Ho|exact Eg| |reflexivity|reflexivity|reflexivity]. intros _. simpl. split; lia.
Qed.
Lemma OInv_start s id cons s' : k_start s id cons = Okk s' -> OInv s -> OInv s'.
Proof.
  unfold k_start. intros H Ho. destruct (get id (ctxs s)) as [x|] eqn:Eg; [|discriminate].
  destruct (x_mod x && negb (check_authority s cons id false)); [discriminate|].
  destruct (Z.eqb_spec (x_state x) 1) as [S1|S1]; [|discriminate]. simpl in H. cbv zeta in H.
  assert (D : OInv (with_ctxs s (set id (cx_state x 0) (ctxs s)))).
  { eapply (OInv_ctx_set s id x (cx_state x 0)); [exact Ho|exact Eg| |reflexivity|reflexivity|reflexivity]. intros _. simpl. split; lia. }
  match type of H with Okk (if ?g then _ else _) = _ => destruct g end; inversion H; subst; [|exact D].
  eapply OInv_same; [|exact D]. repeat split.
Qed.
Lemma OInv_kill s id cons s' : k_kill s id cons = Okk s' -> OInv s -> OInv s'.
Proof.
  unfold k_kill. intros H Ho. destruct (get id (ctxs s)) as [x|] eqn:Eg; [|discriminate].
  repeat dmn H; inversion H; subst; clear H;
    (eapply (OInv_ctx_set s id x (cx_state x 2)); [exact Ho|exact Eg| |reflexivity|reflexivity|reflexivity]; simpl; intros Hs; congruence).
Qed.
Lemma OInv_update_context c s id provs capd capa timeout freq total cons s' :
  update_context c s id provs capd capa timeout freq total cons = Okk s' -> OInv s -> OInv s'.
Proof.
  unfold update_context. intros H Ho.
  match type of H with (if negb ?g then _ else _) = _ => destruct g; [|discriminate] end.
  cbv beta iota zeta delta [negb] in H.
  destruct (check_authority s cons id true); [|discriminate]. cbv beta iota zeta delta [negb] in H.
  destruct (get id (ctxs s)) as [x|] eqn:Eg; [|discriminate].
  destruct (Z.eqb_spec (x_state x) 2) as [S2|S2]; [discriminate|].
  repeat dmn H; inversion H; subst; clear H;
    (eapply (OInv_ctx_set s id x); [exact Ho|exact Eg| |reflexivity|reflexivity|reflexivity]); intros _;
    (split; [exact S2|]); repeat match goal with |- context [match ?g with _ => _ end] => destruct g end; simpl; lia.
Qed.

Lemma OInv_exec_msg c s txh m s' :
  exec_msg_plain c s txh m = Okk s' -> BatchInv s ->
  (forall t, create_txh (Tx txh m) = Some t -> forall rid, In rid (outs s) -> fst (rid_ctx rid) <> t) -> OInv s -> OInv s'.
Proof.
  intros H Hb Hn Ho. destruct m; simpl in H.
  - unfold define in H. eapply OInv_same; [|exact Ho]. o_frame H.
  - unfold bind in H. eapply OInv_same; [|exact Ho]. o_frame H.
  - unfold update_binding in H. eapply OInv_same; [|exact Ho]. o_frame H.
  - unfold set_withdraw in H. eapply OInv_same; [|exact Ho]. o_frame H.
  - unfold enable in H. eapply OInv_same; [|exact Ho]. o_frame H.
  - unfold disable in H. eapply OInv_same; [|exact Ho]. o_frame H.
  - unfold refund_deposit in H. eapply OInv_same; [|exact Ho]. o_frame H.
  - unfold call in H. destruct (negb _); [discriminate|].
    destruct (create_context _ _ _ _ _ _ _ _ _ _ _ _ _ _ _ _) as [[s1 id]|] eqn:E; [|discriminate].
    inversion H; subst. eapply create_context_out; [exact E| |exact Ho]. intros rid Hin Eq. exact (Hn txh eq_refl rid Hin (f_equal fst Eq)).
  - eapply OInv_respond; eassumption.
  - unfold msg_ctl in H. repeat dmn H. eapply OInv_pause; eassumption.
  - unfold msg_ctl in H. repeat dmn H. eapply OInv_start; eassumption.
  - unfold msg_ctl in H. repeat dmn H. eapply OInv_kill; eassumption.
  - eapply OInv_update_context; eassumption.
  - unfold withdraw in H. eapply OInv_same; [|exact Ho]. o_frame H.
Qed.

Lemma OInv_end_block c s dt : QInv s -> BatchInv s -> OInv s -> OInv (end_block c s dt).
Proof.
  intros Hq Hb Ho. unfold end_block. cbv zeta.
  set (s1 := fold_left (expired_batch_handler c) _ s).
  assert (H1 : ((QInv s1 /\ BatchInv s1) /\ OInv s1) /\ height s1 = height s).
  { subst s1. apply (fold_handlers (fun t => ((QInv t /\ BatchInv t) /\ OInv t) /\ height t = height s) (expired_batch_handler c)
                      (fun t id => In (height t, id) (expq t))).
    - intros t id (((Tq & Tb) & To) & Hh) Hpre. destruct (QInv_expired_handler c t id Tq Hpre) as (A & B & C).
      split; [split; [split; [split; [exact A|apply BatchInv_expired_handler; exact Tb]|apply OInv_expired_handler; assumption]|congruence]|].
      intros id' Hne Hpp. rewrite B. apply C; assumption.
    - apply due_NoDup. exact (q_exp_nodup _ Hq).
    - split; [split; [split; assumption|assumption]|reflexivity].
    - intros id Hin. apply due_in in Hin. exact Hin. }
  destruct H1 as (((Q1 & B1) & O1) & Hh1).
  set (s2 := fold_left new_batch_handler _ s1).
  assert (H2 : ((QInv s2 /\ BatchInv s2) /\ OInv s2) /\ height s2 = height s1).
  { subst s2. apply (fold_handlers (fun t => ((QInv t /\ BatchInv t) /\ OInv t) /\ height t = height s1) new_batch_handler
                      (fun t id => In (height t, id) (newq t))).
    - intros t id (((Tq & Tb) & To) & Hh) Hpre. destruct (QInv_new_handler t id Tq Hpre) as (A & B & C).
      assert (Hcl : forall x, get id (ctxs t) = Some x -> x_brun x = false) by (intros x Hx; eapply (q_new_closed _ Tq); eassumption).
      split; [split; [split; [split; [exact A|apply BatchInv_new_handler; assumption]|apply OInv_new_handler; assumption]|congruence]|].
      intros id' Hne Hpp. rewrite B. apply C; assumption.
    - apply due_NoDup. exact (q_new_nodup _ Q1).
    - split; [split; [split; assumption|assumption]|reflexivity].
    - intros id Hin. apply due_in in Hin. exact Hin. }
  destruct H2 as ((_ & O2) & _). eapply OInv_same; [|exact O2]. repeat split.
Qed.

Lemma OInv_apply c s st :
  c_msvc c < 0 -> QInv s -> BatchInv s ->
  (forall t, create_txh st = Some t -> forall rid, In rid (outs s) -> fst (rid_ctx rid) <> t) ->
  OInv s -> OInv (apply c s st).
Proof.
  intros Hm Hq Hb Hn Ho. unfold apply. destruct (exec_step c s st) as [s'| |] eqn:E; try exact Ho.
  destruct st; cbn [exec_step] in E.
  9: { change (exec_msg_plain c s 0 (MBind svc prov depd depa pr qos true owner) = Okk s') in E.
       eapply (OInv_exec_msg c s 0); eassumption. }
  all: simpl in E.
  - rewrite (exec_msg_plain_eq _ _ _ _ Hm) in E. eapply OInv_exec_msg; eassumption.
  - destruct (0 <=? dt); [|discriminate]. inversion E; subst. apply OInv_end_block; assumption.
  - inversion E; subst. eapply OInv_same; [|exact Ho]. repeat split.
  - eapply OInv_same; [|exact Ho]. o_frame E.
  - destruct (create_context _ _ _ _ _ _ _ _ _ _ _ _ _ _ _ _) as [[s1 id]|] eqn:E1; [|discriminate].
    inversion E; subst. eapply create_context_out; [exact E1| |exact Ho]. intros rid Hin Eq. exact (Hn txh eq_refl rid Hin (f_equal fst Eq)).
  - eapply OInv_pause; eassumption.
  - eapply OInv_start; eassumption.
  - eapply OInv_kill; eassumption.
Qed.

Lemma OInv_call_module c s txh svc provs cons inok capd capa timeout rep freq total s' :
  call_module c s txh svc provs cons inok capd capa timeout rep freq total = Okk s' ->
  (forall rid, In rid (outs s) -> fst (rid_ctx rid) <> txh) -> OInv s -> OInv s'.
Proof.
  intros H Hn Ho.
  destruct (call_module_shape _ _ _ _ _ _ _ _ _ _ _ _ _ _ H) as (s1 & id & x & q' & E1 & Hid & Ex & Xb & X4 & Xm & Xt & C & R & Ha & Hp & N & NM & E & EM & Hh & G & GB & CB & _).
  assert (O1 : OInv s1).
  { eapply create_context_out; [exact E1| |exact Ho]. intros rid Hin Eq. exact (Hn rid Hin (f_equal fst Eq)). }
  assert (G1 : g_out s1 = g_out s) by (clear -E1; unfold create_context in E1; repeat dmn E1; inversion E1; subst; reflexivity).
  set (t1 := with_ctxs s1 (set id (cx_state x 2) (ctxs s1))).
  assert (T1 : OInv t1).
  { eapply (OInv_ctx_set s1 id x (cx_state x 2)); [exact O1|exact Ex| |reflexivity|reflexivity|reflexivity]. simpl. intros Hs. congruence. }
  eapply (OInv_log t1 (id, 1, height s, 0) q' 1 s' T1); [|exact Ha| |exact G|exact R|exact C].
  - unfold t1, outs. cbn [g_out with_ctxs]. rewrite G1. intros Hin. apply (Hn _ Hin). rewrite Hid. reflexivity.
  - intros x0 Hx0 Hs. simpl in Hx0. rewrite get_set_same in Hx0. inversion Hx0; subst. simpl in Hs. congruence.
Qed.

(** *** outcomes are only ever logged for requests of stored contexts *)
Definition out_sub (s s' : state) (new : option Z) : Prop :=
  forall rid, In rid (outs s') -> In rid (outs s) \/ has (rid_ctx rid) (ctxs s) = true \/ new = Some (fst (rid_ctx rid)).

Lemma out_sub_same s s' n : g_out s' = g_out s -> out_sub s s' n.
Proof. intros G rid Hin. left. unfold outs in *. rewrite <- G. exact Hin. Qed.

Lemma expire_fold_outs c x : forall act s rid,
  In rid (outs (fold_left (expire_request c x) act s)) -> In rid (outs s) \/ In rid (map fst act).
Proof.
  induction act as [|[r q] act IH]; cbn [fold_left]; intros s rid Hin; [left; exact Hin|].
  destruct (IH _ _ Hin) as [H1|H1]; [|right; right; exact H1].
  destruct (expire_struct c x s r q) as (_ & G & _). unfold outs in H1. rewrite G, map_app in H1. apply in_app_or in H1.
  destruct H1 as [H1|[<-|[]]]; [left; exact H1|right; left; reflexivity].
Qed.

Lemma expired_handler_out c s id : BatchInv s -> out_sub s (expired_batch_handler c s id) None.
Proof.
  intros Hb. unfold expired_batch_handler. destruct (get id (ctxs s)) as [x|] eqn:Eg; [|apply out_sub_same; reflexivity].
  set (pr := if x_brun x then _ else (s, x)).
  assert (Hpr : forall rid, In rid (outs (fst pr)) -> In rid (outs s) \/ has (rid_ctx rid) (ctxs s) = true).
  { subst pr. destruct (x_brun x); [|intros rid Hin; left; exact Hin]. simpl. set (act := filter _ (reqs s)).
    assert (F : forall rid, In rid (outs (fold_left (expire_request c x) act s)) -> In rid (outs s) \/ has (rid_ctx rid) (ctxs s) = true).
    { intros rid Hin. destruct (expire_fold_outs c x act s rid Hin) as [H1|H1]; [left; exact H1|right].
      apply in_map_iff in H1. destruct H1 as ([r q] & E & He). simpl in E. subst r. subst act. apply filter_In in He. destruct He as (He & Hact).
      apply andb_true_iff in Hact. destruct Hact as (_ & Hact). simpl in Hact.
      assert (Hg : get rid (reqs s) = Some q) by (apply In_get_NoDup; [exact (b_keys _ Hb)|exact He]).
      destruct (b_act _ Hb rid q Hg Hact) as (x1 & Hx1 & _). unfold has. rewrite Hx1. reflexivity. }
    destruct (x_mod x); [|exact F]. intros rid Hin. apply F.
    match goal with H : In rid (outs (callback ?sf id)) |- _ => destruct (callback_same sf id) as (_ & G & _); unfold outs in *; rewrite G in H; exact H end. }
  destruct pr as [s1 x1]. simpl in Hpr. cbv zeta. intros rid Hin.
  assert (Hin1 : In rid (outs s1)).
  { unfold outs in *. destruct (x_state x1 =? 2); destruct (x_state x1 =? 0); try destruct (x_rep x1 && _); exact Hin. }
  destruct (Hpr rid Hin1) as [H1|H1]; [left; exact H1|right; left; exact H1].
Qed.

Lemma new_handler_gout s id : g_out (new_batch_handler s id) = g_out s.
Proof.
  unfold new_batch_handler. destruct (get id (ctxs s)) as [x|]; [|reflexivity].
  destruct (x_state x =? 0); [|reflexivity]. destruct (filter_provs s x (x_provs x)); [|reflexivity].
  cbv zeta. destruct (_ && _); [|reflexivity]. destruct (debit_all _ _ _); [reflexivity|].
  unfold on_paused. destruct (x_mod x); reflexivity.
Qed.

Lemma apply_out c s st : fresh_ctx s st -> SInv s -> out_sub s (apply c s st) (create_txh st).
Proof.
  intros Hf (Hq & Hb). destruct (is_module_call c st) eqn:E.
  - destruct st; try discriminate. destruct m; try discriminate. simpl in E. unfold apply. cbn [exec_step exec_msg create_txh]. rewrite E.
    destruct (call_module c s txh svc provs cons inok capd capa timeout rep freq total) as [s'| |] eqn:Ec; try (apply out_sub_same; reflexivity).
    destruct (call_module_shape _ _ _ _ _ _ _ _ _ _ _ _ _ _ Ec) as (s1 & id & x & q' & E1 & Hid & _ & _ & _ & _ & _ & _ & _ & _ & _ & _ & _ & _ & _ & _ & G & _).
    assert (G1 : g_out s1 = g_out s) by (clear -E1; unfold create_context in E1; repeat dmn E1; inversion E1; subst; reflexivity).
    intros rid Hin. unfold outs in Hin. rewrite G, G1, map_app in Hin. apply in_app_or in Hin.
    destruct Hin as [Hin|[<-|[]]]; [left; exact Hin|right; right; simpl; rewrite Hid; reflexivity].
  - assert (PL : out_sub s (apply (no_msvc c) s st) (create_txh st)).
    { set (c0 := no_msvc c). assert (Hm : c_msvc c0 < 0) by apply no_msvc_lt. clearbody c0.
      unfold apply. destruct (exec_step c0 s st) as [s'| |] eqn:Ex; try (apply out_sub_same; reflexivity).
      destruct st; cbn [exec_step] in Ex.
      - rewrite (exec_msg_plain_eq _ _ _ _ Hm) in Ex. destruct m;
          try (pose proof (exec_msg_same _ _ _ _ _ Ex) as Hs; simpl in Hs; destruct Hs as (_ & G & _); apply out_sub_same; exact G).
        simpl in Ex. destruct (respond_struct _ _ _ _ _ _ Ex) as (q & q' & Hqq & Haa & _ & _ & G & _).
        intros rid0 Hin. unfold outs in Hin. rewrite G, map_app in Hin. apply in_app_or in Hin.
        destruct Hin as [Hin|[<-|[]]]; [left; exact Hin|right; left].
        destruct (b_act _ Hb rid q Hqq Haa) as (x1 & Hx1 & _). simpl. unfold has. rewrite Hx1. reflexivity.
      - destruct (0 <=? dt); [|discriminate]. inversion Ex; subst. unfold end_block. cbv zeta.
        set (s1 := fold_left (expired_batch_handler c0) _ s).
        assert (H1 : (((QInv s1 /\ BatchInv s1) /\ out_sub s s1 None) /\ ids_sub s s1 None) /\ height s1 = height s).
        { subst s1. apply (fold_handlers (fun t => (((QInv t /\ BatchInv t) /\ out_sub s t None) /\ ids_sub s t None) /\ height t = height s) (expired_batch_handler c0)
                            (fun t id => In (height t, id) (expq t))).
          - intros t id ((((Tq & Tb) & To) & Ti) & Hh) Hpre. destruct (QInv_expired_handler c0 t id Tq Hpre) as (A & B & C).
            split; [split; [split; [split; [split; [exact A|apply BatchInv_expired_handler; exact Tb]|]|eapply ids_sub_trans; [exact Ti|apply expired_handler_ids]]|congruence]|].
            + intros rid Hin. destruct (expired_handler_out c0 t id Tb rid Hin) as [H1|[H1|H1]]; [apply To; exact H1| |discriminate].
              right. left. destruct (Ti _ H1) as [H2|H2]; [exact H2|discriminate].
            + intros id' Hne Hpp. rewrite B. apply C; assumption.
          - apply due_NoDup. exact (q_exp_nodup _ Hq).
          - split; [split; [split; [split; assumption|apply out_sub_same; reflexivity]|apply ids_sub_refl]|reflexivity].
          - intros id Hin. apply due_in in Hin. exact Hin. }
        destruct H1 as (((_ & O1) & _) & _).
        set (s2 := fold_left new_batch_handler _ s1).
        assert (G2 : g_out s2 = g_out s1).
        { subst s2. apply (fold_left_inv (fun t => g_out t = g_out s1)); [|reflexivity]. intros t id Ht. rewrite new_handler_gout. exact Ht. }
        intros rid Hin. unfold outs in Hin. cbn [g_out with_iidx with_time with_height] in Hin. rewrite G2 in Hin. apply O1. exact Hin.
      - inversion Ex; subst. apply out_sub_same. reflexivity.
      - apply out_sub_same. repeat dmn Ex; inversion Ex; subst; reflexivity.
      - destruct (create_context _ _ _ _ _ _ _ _ _ _ _ _ _ _ _ _) as [[s2 id]|] eqn:E0; [|discriminate]. inversion Ex; subst.
        apply out_sub_same. clear -E0. unfold create_context in E0. repeat dmn E0; inversion E0; subst; reflexivity.
      - apply out_sub_same. unfold k_pause in Ex. repeat dmn Ex; inversion Ex; subst; reflexivity.
      - apply out_sub_same. unfold k_start in Ex. repeat dmn Ex; inversion Ex; subst; reflexivity.
      - apply out_sub_same. unfold k_kill in Ex. repeat dmn Ex; inversion Ex; subst; reflexivity.
      - apply out_sub_same. unfold bind in Ex. repeat dmn Ex; inversion Ex; subst; reflexivity. }
    destruct (apply_no_msvc c s st E) as [Ea|Ea]; rewrite Ea; [exact PL|apply out_sub_same; reflexivity].
Qed.

Lemma OInv_apply_m c s st :
  fresh_ctx s st -> SInv s ->
  (forall t, create_txh st = Some t -> forall rid, In rid (outs s) -> fst (rid_ctx rid) <> t) ->
  OInv s -> OInv (apply c s st).
Proof.
  intros Hf (Hq & Hb) Hn Ho. destruct (is_module_call c st) eqn:E.
  - destruct st; try discriminate. destruct m; try discriminate. simpl in E. unfold apply. cbn [exec_step exec_msg]. rewrite E.
    destruct (call_module c s txh svc provs cons inok capd capa timeout rep freq total) as [s'| |] eqn:Ec; try exact Ho.
    eapply OInv_call_module; [exact Ec| |exact Ho]. apply (Hn txh). reflexivity.
  - destruct (apply_no_msvc c s st E) as [Ea|Ea]; rewrite Ea; [|exact Ho]. apply OInv_apply; try assumption. apply no_msvc_lt.
Qed.

Lemma OInv_init h0 t0 l0 : OInv (init h0 t0 l0).
Proof. constructor; unfold outs; simpl; [constructor|intros ? ? []|intros ? ? []]. Qed.

Lemma outcome_run c : forall steps s used,
  (forall id, has id (ctxs s) = true -> In (fst id) used) ->
  (forall rid, In rid (outs s) -> In (fst (rid_ctx rid)) used) ->
  NoDup (used ++ create_txhs steps) -> fresh_history c s steps ->
  SInv s -> OInv s -> OInv (run c s steps).
Proof.
  induction steps as [|st r IH]; intros s used Hu Hou Hnd Hf Hs Ho; [exact Ho|]. cbn [run].
  destruct Hf as (F1 & F2).
  pose proof (apply_ids c s st) as Hids. pose proof (apply_out c s st F1 Hs) as Houts.
  assert (Ho' : OInv (apply c s st)).
  { apply OInv_apply_m; try assumption. intros t Et rid Hin Eq.
    cbn [create_txhs] in Hnd. rewrite Et in Hnd. apply NoDup_remove_2 in Hnd. apply Hnd. apply in_or_app. left. rewrite <- Eq. apply Hou. exact Hin. }
  cbn [create_txhs] in Hnd.
  destruct (create_txh st) as [t|] eqn:Et.
  - apply (IH (apply c s st) (used ++ [t])); try assumption.
    + intros id Hh. destruct (Hids id Hh) as [H1|H1]; apply in_or_app; [left; apply Hu; exact H1|right; left; congruence].
    + intros rid Hin. apply in_or_app. destruct (Houts rid Hin) as [H1|[H1|H1]]; [left; apply Hou; exact H1|left; apply Hu; exact H1|right; left; congruence].
    + rewrite <- app_assoc. exact Hnd.
    + apply SInv_apply_m; assumption.
  - apply (IH (apply c s st) used); try assumption.
    + intros id Hh. destruct (Hids id Hh) as [H1|H1]; [apply Hu; exact H1|discriminate].
    + intros rid Hin. destruct (Houts rid Hin) as [H1|[H1|H1]]; [apply Hou; exact H1|apply Hu; exact H1|discriminate].
    + apply SInv_apply_m; assumption.
Qed.

Theorem single_outcome_m_lemma :
  forall c steps h0 t0 l0,
    NoDup (create_txhs steps) ->
    let s := run c (init h0 t0 l0) steps in
    NoDup (map fst (g_out s))
    /\ (forall rid q, In rid (map fst (g_out s)) -> get rid (reqs s) = Some q -> q_active q = false).
Proof.
  intros c steps h0 t0 l0 Hnd s.
  assert (Ho : OInv s).
  { subst s. apply (outcome_run c steps (init h0 t0 l0) []); try assumption.
    - intros id H. discriminate.
    - intros rid [].
    - apply fresh_history_from_distinct_hashes_lemma. exact Hnd.
    - apply SInv_init.
    - apply OInv_init. }
  split; [exact (o_nodup _ Ho)|exact (o_inact _ Ho)].
Qed.
