(** * Service: a stored request is never active after its expiration height, and an inactive
    stored request always has its outcome logged — so, with [single_outcome_lemma], every
    stored request whose expiration height has passed has exactly one outcome. *)
From Irismod Require Import Service.Model Service.Proofs Service.ProofsHist Service.ProofsEscrow Service.ProofsSched
  Service.ProofsBatch Service.ProofsLiab.

Record LInv (strict : bool) (s : state) : Prop := {
  l_to : forall id x, get id (ctxs s) = Some x -> 1 <= x_timeout x;
  l_exp : forall rid q, get rid (reqs s) = Some q -> q_active q = true -> get (rid_ctx rid) (expmark s) = Some (q_exp q);
  l_mark : forall id h, get id (expmark s) = Some h -> In (h, id) (expq s) /\ (if strict then height s < h else height s <= h);
  l_log : forall rid q, get rid (reqs s) = Some q -> q_active q = false -> In rid (outs s)
}.

Definition l_same (s s' : state) : Prop :=
  ctxs s' = ctxs s /\ reqs s' = reqs s /\ expmark s' = expmark s /\ expq s' = expq s /\ height s' = height s /\ g_out s' = g_out s.

Lemma LInv_same b s s' : l_same s s' -> LInv b s -> LInv b s'.
Proof.
  intros (A & B & C & D & E & F) [I1 I2 I3 I4]. unfold outs in *.
  constructor; unfold outs; rewrite ?A, ?B, ?C, ?D, ?E, ?F; assumption.
Qed.

Lemma LInv_weaken s : LInv true s -> LInv false s.
Proof. intros [I1 I2 I3 I4]. constructor; try assumption. intros id h Hg. destruct (I3 id h Hg) as (A & B). split; [exact A|lia]. Qed.

(** a context rewritten in place (or created) with a positive timeout; everything else as before *)
Lemma LInv_ctx_set b s id x' :
  LInv b s -> 1 <= x_timeout x' -> LInv b (with_ctxs s (set id x' (ctxs s))).
Proof.
  intros [I1 I2 I3 I4] Ht. constructor; simpl; try assumption.
  intros id0 x0 Hg. destruct (eq_dec id0 id) as [->|Hne].
  - rewrite get_set_same in Hg. inversion Hg; subst. exact Ht.
  - rewrite get_set_other in Hg by exact Hne. eapply I1. exact Hg.
Qed.

Lemma LInv_ctx_del b s id : LInv b s -> LInv b (with_ctxs s (del id (ctxs s))).
Proof.
  intros [I1 I2 I3 I4]. constructor; simpl; try assumption.
  intros id0 x0 Hg. destruct (eq_dec id0 id) as [->|Hne]; [rewrite get_del_same in Hg; discriminate|].
  rewrite get_del_other in Hg by exact Hne. eapply I1. exact Hg.
Qed.

(** one request deactivated and logged *)
Lemma LInv_deactivate b s rid q' t :
  LInv b s -> q_active q' = false ->
  ctxs t = ctxs s -> reqs t = set rid q' (reqs s) -> expmark t = expmark s -> expq t = expq s -> height t = height s ->
  g_out t = g_out s ++ [(rid, 1)] \/ g_out t = g_out s ++ [(rid, 2)] -> LInv b t.
Proof.
  intros [I1 I2 I3 I4] Ha C R M Q Hh G.
  assert (Ho : forall r, In r (outs s) \/ r = rid -> In r (outs t)).
  { intros r Hr. unfold outs. destruct G as [G|G]; rewrite G, map_app; apply in_or_app; (destruct Hr as [Hr|Hr]; [left; exact Hr|right; left; simpl; congruence]). }
  constructor; rewrite ?C, ?R, ?M, ?Q, ?Hh; try assumption.
  - intros rid0 q0 Hg Hact. destruct (eq_dec rid0 rid) as [->|Hne].
    + rewrite get_set_same in Hg. inversion Hg; subst. congruence.
    + rewrite get_set_other in Hg by exact Hne. apply I2; assumption.
  - intros rid0 q0 Hg Hact. apply Ho. destruct (eq_dec rid0 rid) as [->|Hne]; [right; reflexivity|].
    rewrite get_set_other in Hg by exact Hne. left. eapply I4; eassumption.
Qed.

Lemma respond_queues c s rid prov kind s' :
  respond c s rid prov kind = Okk s' ->
  expmark s' = expmark s /\ expq s' = expq s
  /\ exists x x', get (rid_ctx rid) (ctxs s) = Some x /\ get (rid_ctx rid) (ctxs s') = Some x' /\ x_timeout x' = x_timeout x.
Proof.
  intros H. unfold respond in H. destruct rid as [[[id batch] hh] ii].
  destruct ((0 <=? prov) && negb (kind =? 2)); cbv beta iota zeta delta [negb] in H; [|discriminate].
  match type of H with context [@get reqid request ?i ?k (reqs s)] =>
    destruct (@get reqid request i k (reqs s)) as [q|] eqn:Eq end; [|discriminate].
  destruct (get id (ctxs s)) as [x|] eqn:Ex; [|discriminate].
  destruct (q_prov q =? prov); cbv beta iota zeta delta [negb] in H; [|discriminate].
  destruct (q_active q); cbv beta iota zeta delta [negb] in H; [|discriminate].
  destruct (add_earned_fee c s prov (q_fd q) (q_fee q)) as [s1|] eqn:Ef; [|discriminate].
  assert (Q1 : q_same s s1).
  { clear -Ef. unfold add_earned_fee in Ef. repeat dmn Ef; inversion Ef; subst; repeat split. }
  destruct Q1 as (C1 & _ & _ & E1 & M1). simpl rid_ctx.
  destruct (x_bresp (cx_bresp x (x_bresp x + 1)) =? x_breq (cx_bresp x (x_bresp x + 1)));
    [destruct (x_mod (cx_bresp x (x_bresp x + 1)))|]; inversion H; subst s'; clear H.
  - unfold callback. simpl. rewrite C1, Ex. simpl. rewrite M1, E1. split; [reflexivity|]. split; [reflexivity|].
    exists x. eexists. split; [first [exact Ex|reflexivity]|]. split; [apply get_set_same|reflexivity].
  - simpl. rewrite M1, E1. split; [reflexivity|]. split; [reflexivity|].
    exists x. eexists. split; [first [exact Ex|reflexivity]|]. split; [apply get_set_same|reflexivity].
  - simpl. rewrite M1, E1. split; [reflexivity|]. split; [reflexivity|].
    exists x. eexists. split; [first [exact Ex|reflexivity]|]. split; [apply get_set_same|reflexivity].
Qed.

Lemma LInv_respond b c s rid prov kind s' : respond c s rid prov kind = Okk s' -> LInv b s -> LInv b s'.
Proof.
  intros H Hinv.
  destruct (respond_shape _ _ _ _ _ _ H) as (q & x & q' & x' & Hq & Ha & Hx & Ha' & _ & _ & R & C & _).
  destruct (respond_struct _ _ _ _ _ _ H) as (_ & _ & _ & _ & _ & _ & G & Hh).
  destruct (respond_queues _ _ _ _ _ _ H) as (M & Q & x0 & x0' & Hx0 & Hx0' & Ht0).
  set (t1 := with_g_out (with_reqs s (set rid q' (reqs s))) (g_out s ++ [(rid, 1)])).
  assert (T1 : LInv b t1).
  { eapply (LInv_deactivate b s rid q' t1 Hinv Ha'); try reflexivity. left. reflexivity. }
  assert (Ht : 1 <= x_timeout x').
  { rewrite C, get_set_same in Hx0'. inversion Hx0'; subst x0'. rewrite Ht0. eapply (l_to _ _ Hinv). exact Hx0. }
  pose proof (LInv_ctx_set b t1 (rid_ctx rid) x' T1 Ht) as T2.
  eapply LInv_same; [|exact T2]. unfold l_same. simpl. rewrite C, R, M, Q, Hh, G. repeat split.
Qed.

Lemma LInv_create b c s txh svc provs cons inok capd capa timeout rep freq total st thr md s' id :
  create_context c s txh svc provs cons inok capd capa timeout rep freq total st thr md = Some (s', id) ->
  1 <= timeout -> LInv b s -> LInv b s'.
Proof.
  unfold create_context. intros H Ht Hinv.
  repeat dmn H; inversion H; subst s' id; clear H.
  all: match goal with |- LInv ?bb ?t =>
         match t with context [with_ctxs ?s0 (set ?id ?X (ctxs ?s0))] =>
           apply (LInv_same bb (with_ctxs s0 (set id X (ctxs s0)))); [repeat split|];
           apply LInv_ctx_set; [assumption|simpl; assumption]
         end
       end.
Qed.

Lemma LInv_ctl_keep b s id x x' t :
  LInv b s -> get id (ctxs s) = Some x -> x_timeout x' = x_timeout x ->
  l_same (with_ctxs s (set id x' (ctxs s))) t -> LInv b t.
Proof.
  intros Hinv Hg Ht Hs. eapply LInv_same; [exact Hs|]. apply LInv_ctx_set; [exact Hinv|]. rewrite Ht. eapply (l_to _ _ Hinv). exact Hg.
Qed.

Lemma LInv_pause b s id cons s' : k_pause s id cons = Okk s' -> LInv b s -> LInv b s'.
Proof.
  unfold k_pause. intros H Hinv. destruct (get id (ctxs s)) as [x|] eqn:Eg; [|discriminate].
  repeat dmn H; inversion H; subst; clear H; (eapply (LInv_ctl_keep b s id x (cx_state x 1)); [exact Hinv|exact Eg|reflexivity|repeat split]).
Qed.
Lemma LInv_kill b s id cons s' : k_kill s id cons = Okk s' -> LInv b s -> LInv b s'.
Proof.
  unfold k_kill. intros H Hinv. destruct (get id (ctxs s)) as [x|] eqn:Eg; [|discriminate].
  repeat dmn H; inversion H; subst; clear H; (eapply (LInv_ctl_keep b s id x (cx_state x 2)); [exact Hinv|exact Eg|reflexivity|repeat split]).
Qed.
Lemma LInv_start b s id cons s' : k_start s id cons = Okk s' -> LInv b s -> LInv b s'.
Proof.
  unfold k_start. intros H Hinv. destruct (get id (ctxs s)) as [x|] eqn:Eg; [|discriminate].
  repeat dmn H; inversion H; subst; clear H;
    (eapply (LInv_ctl_keep b s id x (cx_state x 0)); [exact Hinv|exact Eg|reflexivity|repeat split]).
Qed.

Lemma LInv_update_context b c s id provs capd capa timeout freq total cons s' :
  update_context c s id provs capd capa timeout freq total cons = Okk s' -> LInv b s -> LInv b s'.
Proof.
  unfold update_context. intros H Hinv.
  match type of H with (if negb ?g then _ else _) = _ => destruct g eqn:E0; [|discriminate] end.
  cbv beta iota zeta delta [negb] in H.
  destruct (check_authority s cons id true); [|discriminate]. cbv beta iota zeta delta [negb] in H.
  destruct (get id (ctxs s)) as [x|] eqn:Eg; [|discriminate].
  pose proof (l_to _ _ Hinv _ _ Eg) as Hx.
  assert (H0 : 0 <= timeout).
  { repeat (apply andb_true_iff in E0; destruct E0 as (E0 & ?)). lia. }
  repeat dmn H; inversion H; subst; clear H; apply LInv_ctx_set; try exact Hinv;
    repeat match goal with |- context [match ?g with _ => _ end] => destruct g eqn:? end; simpl; lia.
Qed.

(** ** the end blocker *)
Lemma LInv_expire b c x s rid q : LInv b s -> LInv b (expire_request c x s (rid, q)).
Proof.
  intros Hinv. destruct (expire_struct c x s rid q) as (R & G & Hh).
  destruct (expire_qsame c x s (rid, q)) as (C & _ & _ & E & M).
  eapply (LInv_deactivate b s rid (rq_active q false)); try eassumption; [reflexivity|right; exact G].
Qed.

Lemma LInv_expire_fold b c x : forall act s, LInv b s -> LInv b (fold_left (expire_request c x) act s).
Proof. induction act as [|[rid q] act IH]; cbn [fold_left]; intros s H; [exact H|]. apply IH. apply LInv_expire. exact H. Qed.

Lemma callback_lsame s id : l_same s (callback s id).
Proof. unfold callback. destruct (get id (ctxs s)); repeat split. Qed.

Lemma LInv_expired_handler c s id :
  QInv s -> BatchInv s -> In (height s, id) (expq s) -> LInv false s ->
  LInv false (expired_batch_handler c s id)
  /\ (forall id' h, get id' (expmark (expired_batch_handler c s id)) = Some h -> id' <> id /\ get id' (expmark s) = Some h).
Proof.
  intros Hq Hb Hin Hl. unfold expired_batch_handler.
  destruct (get id (ctxs s)) as [x|] eqn:Eg.
  2: { exfalso. pose proof (q_exp_mark _ Hq _ _ Hin) as Hm. assert (Hh : has id (expmark s) = true) by (apply has_get; eexists; exact Hm).
       pose proof (q_exp_ctx _ Hq _ Hh) as Hc. unfold has in Hc. rewrite Eg in Hc. discriminate. }
  set (pr := if x_brun x then _ else (s, x)).
  assert (Epr : pr = exp_pr c s id x) by reflexivity.
  destruct (exp_pr_facts c s id x Hb Eg) as (K1 & C1 & A1 & _ & _). rewrite <- Epr in K1, C1, A1.
  assert (H1 : LInv false (fst pr) /\ expmark (fst pr) = expmark s /\ expq (fst pr) = expq s /\ height (fst pr) = height s
               /\ x_timeout (snd pr) = x_timeout x).
  { subst pr. destruct (x_brun x); [|simpl; split; [exact Hl|repeat split]]. simpl. set (act := filter _ (reqs s)).
    pose proof (LInv_expire_fold false c x act s Hl) as F.
    destruct (expire_fold_qsame c x act s) as (_ & _ & _ & E & M).
    assert (Hh : height (fold_left (expire_request c x) act s) = height s).
    { generalize act s. clear. induction act as [|[r q] act IH]; intros s; cbn [fold_left]; [reflexivity|]. rewrite IH.
      destruct (expire_struct c x s r q) as (_ & _ & Hh). exact Hh. }
    destruct (x_mod x); [|split; [exact F|repeat split; assumption]].
    destruct (callback_lsame (fold_left (expire_request c x) act s) id) as (A & B & C & D & E' & F').
    split; [eapply LInv_same; [apply callback_lsame|exact F]|]. repeat split; congruence. }
  destruct pr as [s1 x1]. simpl in H1, K1, C1, A1. destruct H1 as (L1 & M1 & E1 & Hh1 & T1). cbv zeta.
  match goal with |- LInv false (with_reqs ?t (filter ?f (reqs ?t))) /\ _ =>
    assert (Ht : (ctxs t = set id x1 (ctxs s1) \/ ctxs t = del id (set id x1 (ctxs s1))) /\ reqs t = reqs s1
                 /\ expmark t = del id (expmark s1) /\ expq t = q_del (height s, id) (expq s1) /\ height t = height s1 /\ g_out t = g_out s1) end.
  { destruct (Z.eqb_spec (x_state x1) 2) as [S2|S2]; destruct (Z.eqb_spec (x_state x1) 0) as [S0|S0]; [lia| | |];
      try destruct (x_rep x1 && _); simpl; repeat split; auto. }
  destruct Ht as (Ct & Rt & Mt & Et & Hht & Gt).
  match goal with |- LInv false (with_reqs ?t _) /\ _ => set (tt := t) in *; clearbody tt end.
  destruct L1 as [J1 J2 J3 J4].
  assert (Hx1 : 1 <= x_timeout x1) by (rewrite T1; eapply (l_to _ _ Hl); exact Eg).
  split.
  - constructor; cbn [ctxs reqs expmark expq height g_out with_reqs]; unfold outs; cbn [g_out with_reqs].
    + intros id0 x0 Hg0. destruct Ct as [Ct|Ct]; rewrite Ct in Hg0.
      * destruct (eq_dec id0 id) as [->|Hne]; [rewrite get_set_same in Hg0; inversion Hg0; subst; exact Hx1|].
        rewrite get_set_other in Hg0 by exact Hne. eapply J1. exact Hg0.
      * destruct (eq_dec id0 id) as [->|Hne]; [rewrite get_del_same in Hg0; discriminate|].
        rewrite get_del_other, get_set_other in Hg0 by exact Hne. eapply J1. exact Hg0.
    + intros rid q Hg Ha. rewrite Rt in Hg. assert (Hg1 : get rid (reqs s1) = Some q) by (eapply get_filter_NoDup; eassumption).
      destruct (A1 rid q Hg1 Ha) as (_ & Hne). rewrite Mt, get_del_other by exact Hne. apply J2; assumption.
    + intros id0 h Hg0. rewrite Mt in Hg0. destruct (eq_dec id0 id) as [->|Hne]; [rewrite get_del_same in Hg0; discriminate|].
      rewrite get_del_other in Hg0 by exact Hne. destruct (J3 id0 h Hg0) as (A & B). split; [|rewrite Hht; exact B].
      rewrite Et. apply q_del_in. split; [congruence|exact A].
    + intros rid q Hg Ha. rewrite Rt in Hg. assert (Hg1 : get rid (reqs s1) = Some q) by (eapply get_filter_NoDup; eassumption).
      rewrite Gt. eapply J4; eassumption.
  - intros id' h Hg0. cbn [expmark with_reqs] in Hg0. rewrite Mt in Hg0.
    destruct (eq_dec id' id) as [->|Hne]; [rewrite get_del_same in Hg0; discriminate|].
    rewrite get_del_other in Hg0 by exact Hne. split; [exact Hne|rewrite <- M1; exact Hg0].
Qed.

Lemma mk_requests_exp s x id batch : forall ps i e, In e (mk_requests s x id batch i ps) ->
  q_exp (snd e) = height s + x_timeout x /\ q_active (snd e) = true /\ rid_ctx (fst e) = id.
Proof.
  induction ps as [|p ps IH]; simpl; intros i e He; [tauto|]. destruct (fee_of s x p) as [fd fee].
  destruct He as [<-|He]; [repeat split|]. eapply IH. exact He.
Qed.

(** a batch started for a closed context [id] whose expiry marker and entries are absent *)
Lemma LInv_start_batch s id x x' (rs : list (reqid * request)) t :
  LInv true s -> get id (ctxs s) = Some x -> x_timeout x' = x_timeout x ->
  (forall rid q, get rid (reqs s) = Some q -> rid_ctx rid = id -> q_active q = false) ->
  (forall e, In e rs -> q_exp (snd e) = height s + x_timeout x /\ q_active (snd e) = true /\ rid_ctx (fst e) = id) ->
  ctxs t = set id x' (ctxs s) -> reqs t = fold_left (fun m e => set (fst e) (snd e) m) rs (reqs s) ->
  expmark t = set id (height s + x_timeout x) (expmark s) -> expq t = q_add (height s + x_timeout x, id) (expq s) ->
  height t = height s -> g_out t = g_out s -> LInv true t.
Proof.
  intros [I1 I2 I3 I4] Hg Ht Hcl Hrs C R M Q Hh G.
  pose proof (I1 _ _ Hg) as Hto.
  constructor; unfold outs; rewrite ?C, ?R, ?M, ?Q, ?Hh, ?G.
  - intros id0 x0 Hg0. destruct (eq_dec id0 id) as [->|Hne].
    + rewrite get_set_same in Hg0. inversion Hg0; subst. lia.
    + rewrite get_set_other in Hg0 by exact Hne. eapply I1. exact Hg0.
  - intros rid q Hq Ha. destruct (get_fold_set _ _ _ _ Hq) as [Hin|Hold].
    + destruct (Hrs _ Hin) as (E1 & _ & E3). simpl in E1, E3. rewrite E3, get_set_same, E1. reflexivity.
    + assert (Hne : rid_ctx rid <> id) by (intros E; rewrite (Hcl _ _ Hold E) in Ha; discriminate).
      rewrite get_set_other by exact Hne. apply I2; assumption.
  - intros id0 h Hg0. destruct (eq_dec id0 id) as [->|Hne].
    + rewrite get_set_same in Hg0. inversion Hg0; subst. split; [apply q_add_in; left; reflexivity|lia].
    + rewrite get_set_other in Hg0 by exact Hne. destruct (I3 id0 h Hg0) as (A & B). split; [apply q_add_in; right; exact A|exact B].
  - intros rid q Hq Ha. destruct (get_fold_set _ _ _ _ Hq) as [Hin|Hold].
    + destruct (Hrs _ Hin) as (_ & E2 & _). simpl in E2. congruence.
    + eapply I4; eassumption.
Qed.

Lemma LInv_new_handler s id :
  QInv s -> BatchInv s -> In (height s, id) (newq s) -> LInv true s -> LInv true (new_batch_handler s id).
Proof.
  intros Hq Hb Hin Hl. unfold new_batch_handler.
  destruct (get id (ctxs s)) as [x|] eqn:Eg.
  2: { exfalso. pose proof (q_new_ctx _ Hq _ _ Hin) as Hc. unfold has in Hc. rewrite Eg in Hc. discriminate. }
  assert (Hcl : forall rid q, get rid (reqs s) = Some q -> rid_ctx rid = id -> q_active q = false).
  { apply (no_active_closed s id Hb). intros x0 Hx0. eapply (q_new_closed _ Hq); eassumption. }
  assert (SK : forall x', x_timeout x' = x_timeout x ->
               LInv true (dequeue_new (add_expiration (with_ctxs s (set id x' (ctxs s))) id (height s + x_timeout x)) id)).
  { intros x' Ht. eapply (LInv_start_batch s id x x' [] _ Hl Eg Ht Hcl); try reflexivity. intros e []. }
  destruct (x_state x =? 0); [|eapply LInv_same; [|exact Hl]; repeat split].
  destruct (filter_provs s x (x_provs x)) as [ps|]; [|eapply (LInv_same true (dequeue_new (add_expiration (with_ctxs s (set id (cx_bthr (cx_bresp (cx_breq (cx_brun (cx_batch x (x_batch x + 1)) true) 0) 0) (x_thr x)) (ctxs s))) id (height s + x_timeout x)) id)); [repeat split|apply SK; reflexivity]].
  cbv zeta. destruct ((0 <? Z.of_nat (length ps)) && (x_thr x <=? Z.of_nat (length ps)));
    [|eapply (LInv_same true (dequeue_new (add_expiration (with_ctxs s (set id (cx_bthr (cx_bresp (cx_breq (cx_brun (cx_batch x (x_batch x + 1)) true) 0) 0) (x_thr x)) (ctxs s))) id (height s + x_timeout x)) id)); [repeat split|apply SK; reflexivity]].
  destruct (debit_all (led s) (x_cons x) (total_fees s x ps)) as [l|].
  - set (sl := with_led s (credit_all l REQ (total_fees s x ps))).
    eapply (LInv_start_batch s id x (cx_bthr (cx_breq (cx_bresp (cx_brun (cx_batch x (x_batch x + 1)) true) 0) (Z.of_nat (length ps))) (x_thr x))
              (mk_requests sl x id (x_batch x + 1) 0 ps) _ Hl Eg eq_refl Hcl); try reflexivity.
    intros e He. apply (mk_requests_exp sl x id (x_batch x + 1) ps 0 e He).
  - eapply (LInv_same true (with_ctxs s (set id (cx_state (cx_brun x false) 1) (ctxs s)))).
    + unfold on_paused. destruct (x_mod x); repeat split.
    + apply LInv_ctx_set; [exact Hl|]. simpl. eapply (l_to _ _ Hl). exact Eg.
Qed.

(** ** all steps *)
Lemma LInv_phase1 c : forall ids t,
  NoDup ids -> QInv t -> BatchInv t -> LInv false t ->
  (forall id, In id ids -> In (height t, id) (expq t)) ->
  (forall id0, get id0 (expmark t) = Some (height t) -> In id0 ids) ->
  let t' := fold_left (expired_batch_handler c) ids t in
  QInv t' /\ BatchInv t' /\ LInv false t' /\ height t' = height t /\ (forall id0, get id0 (expmark t') <> Some (height t')).
Proof.
  induction ids as [|id ids IH]; cbn [fold_left]; intros t Hnd Hq Hb Hl Hpre Hm.
  - cbv zeta. split; [exact Hq|]. split; [exact Hb|]. split; [exact Hl|]. split; [reflexivity|]. intros id0 E. exact (Hm id0 E).
  - inversion Hnd as [|? ? Hn Hnd']; subst.
    destruct (QInv_expired_handler c t id Hq (Hpre id (or_introl eq_refl))) as (A & B & C).
    destruct (LInv_expired_handler c t id Hq Hb (Hpre id (or_introl eq_refl)) Hl) as (L & M).
    pose proof (BatchInv_expired_handler c t id Hb) as Bb.
    set (t1 := expired_batch_handler c t id) in *.
    destruct (IH t1 Hnd' A Bb L) as (R1 & R2 & R3 & R4 & R5).
    + intros id' Hin'. rewrite B. apply C; [intros ->; exact (Hn Hin')|apply Hpre; right; exact Hin'].
    + intros id0 E. rewrite B in E. destruct (M id0 _ E) as (Hne & E0). destruct (Hm id0 E0) as [->|Hin0]; [congruence|exact Hin0].
    + cbv zeta. split; [exact R1|]. split; [exact R2|]. split; [exact R3|]. split; [congruence|exact R5].
Qed.

Lemma LInv_end_block c s dt : QInv s -> BatchInv s -> LInv false s -> LInv false (end_block c s dt).
Proof.
  intros Hq Hb Hl. unfold end_block. cbv zeta.
  set (s1 := fold_left (expired_batch_handler c) _ s).
  assert (H1 : QInv s1 /\ BatchInv s1 /\ LInv false s1 /\ height s1 = height s /\ (forall id0, get id0 (expmark s1) <> Some (height s1))).
  { subst s1. apply LInv_phase1; try assumption.
    - apply due_NoDup. exact (q_exp_nodup _ Hq).
    - intros id Hin. apply due_in in Hin. exact Hin.
    - intros id0 E. apply due_in. exact (proj1 (l_mark _ _ Hl id0 _ E)). }
  destruct H1 as (Q1 & B1 & L1 & Hh1 & Hm1).
  assert (L1s : LInv true s1).
  { destruct L1 as [J1 J2 J3 J4]. constructor; try assumption. intros id0 h E. destruct (J3 id0 h E) as (A & B). split; [exact A|].
    assert (h <> height s1) by (intros ->; exact (Hm1 id0 E)). lia. }
  set (s2 := fold_left new_batch_handler _ s1).
  assert (H2 : (QInv s2 /\ BatchInv s2 /\ LInv true s2) /\ height s2 = height s1).
  { subst s2. apply (fold_handlers (fun t => (QInv t /\ BatchInv t /\ LInv true t) /\ height t = height s1) new_batch_handler
                      (fun t id => In (height t, id) (newq t))).
    - intros t id ((Tq & Tb & Tl) & Hh) Hpre. destruct (QInv_new_handler t id Tq Hpre) as (A & B & C).
      split; [split; [|congruence]|].
      + split; [exact A|]. split; [|apply LInv_new_handler; assumption].
        apply BatchInv_new_handler; [exact Tb|]. intros x Hx. eapply (q_new_closed _ Tq); eassumption.
      + intros id' Hne Hpp. rewrite B. apply C; assumption.
    - apply due_NoDup. exact (q_new_nodup _ Q1).
    - split; [split; [exact Q1|split; [exact B1|exact L1s]]|reflexivity].
    - intros id Hin. apply due_in in Hin. exact Hin. }
  destruct H2 as ((_ & _ & [J1 J2 J3 J4]) & _).
  constructor; cbn [ctxs reqs expmark expq height g_out with_iidx with_time with_height]; unfold outs in *; try assumption.
  intros id0 h E. destruct (J3 id0 h E) as (A & B). split; [exact A|lia].
Qed.

Lemma LInv_exec_msg c s txh m s' : exec_msg_plain c s txh m = Okk s' -> LInv false s -> LInv false s'.
Proof.
  intros H Hinv. destruct m; simpl in H.
  - unfold define in H. eapply LInv_same; [|exact Hinv]. repeat dmn H; inversion H; subst; repeat split.
  - unfold bind in H. eapply LInv_same; [|exact Hinv]. repeat dmn H; inversion H; subst; repeat split.
  - unfold update_binding in H. eapply LInv_same; [|exact Hinv]. repeat dmn H; inversion H; subst; repeat split.
  - unfold set_withdraw in H. eapply LInv_same; [|exact Hinv]. repeat dmn H; inversion H; subst; repeat split.
  - unfold enable in H. eapply LInv_same; [|exact Hinv]. repeat dmn H; inversion H; subst; repeat split.
  - unfold disable in H. eapply LInv_same; [|exact Hinv]. repeat dmn H; inversion H; subst; repeat split.
  - unfold refund_deposit in H. eapply LInv_same; [|exact Hinv]. repeat dmn H; inversion H; subst; repeat split.
  - unfold call in H. destruct (validate_request provs cons inok capa timeout rep freq total) eqn:Ev; [|discriminate].
    cbv beta iota zeta delta [negb] in H.
    destruct (create_context _ _ _ _ _ _ _ _ _ _ _ _ _ _ _ _) as [[s1 id]|] eqn:E; [|discriminate].
    inversion H; subst. eapply LInv_create; [exact E| |exact Hinv].
    unfold validate_request in Ev. repeat (apply andb_true_iff in Ev; destruct Ev as (Ev & ?)). lia.
  - eapply LInv_respond; eassumption.
  - unfold msg_ctl in H. repeat dmn H. eapply LInv_pause; eassumption.
  - unfold msg_ctl in H. repeat dmn H. eapply LInv_start; eassumption.
  - unfold msg_ctl in H. repeat dmn H. eapply LInv_kill; eassumption.
  - eapply LInv_update_context; eassumption.
  - unfold withdraw in H. eapply LInv_same; [|exact Hinv]. repeat dmn H; inversion H; subst; repeat split.
Qed.

Lemma LInv_apply c s st : c_msvc c < 0 -> QInv s -> BatchInv s -> LInv false s -> LInv false (apply c s st).
Proof.
  intros Hm Hq Hb Hinv. unfold apply. destruct (exec_step c s st) as [s'| |] eqn:E; try exact Hinv.
  destruct st; cbn [exec_step] in E.
  9: { change (exec_msg_plain c s 0 (MBind svc prov depd depa pr qos true owner) = Okk s') in E.
       eapply LInv_exec_msg; eassumption. }
  all: simpl in E.
  - rewrite (exec_msg_plain_eq _ _ _ _ Hm) in E. eapply LInv_exec_msg; eassumption.
  - destruct (0 <=? dt); [|discriminate]. inversion E; subst. apply LInv_end_block; assumption.
  - inversion E; subst. eapply LInv_same; [|exact Hinv]. repeat split.
  - eapply LInv_same; [|exact Hinv]. repeat dmn E; inversion E; subst; repeat split.
  - destruct (create_context _ _ _ _ _ _ _ _ _ _ _ _ _ _ _ _) as [[s1 id]|] eqn:E1; [|discriminate].
    inversion E; subst. eapply LInv_create; [exact E1| |exact Hinv].
    unfold create_context in E1. destruct (validate_request provs cons true capa timeout rep freq total) eqn:Ev.
    + unfold validate_request in Ev. repeat (apply andb_true_iff in Ev; destruct Ev as (Ev & ?)). lia.
    + simpl in E1. discriminate.
  - eapply LInv_pause; eassumption.
  - eapply LInv_start; eassumption.
  - eapply LInv_kill; eassumption.
Qed.

Lemma LInv_init h0 t0 l0 : LInv false (init h0 t0 l0).
Proof. constructor; simpl; intros; discriminate. Qed.

Theorem outcome_by_expiry_lemma :
  forall c steps h0 t0 l0,
    c_msvc c < 0 ->
    fresh_history c (init h0 t0 l0) steps ->
    let s := run c (init h0 t0 l0) steps in
    forall rid q, get rid (reqs s) = Some q ->
      (q_active q = true -> height s <= q_exp q)
      /\ (q_active q = false -> In rid (map fst (g_out s))).
Proof.
  intros c steps h0 t0 l0 Hm Hf s.
  assert (G : (QInv s /\ BatchInv s) /\ LInv false s).
  { subst s. apply (run_inv_fresh (fun t => (QInv t /\ BatchInv t) /\ LInv false t) c); [|exact Hf|split; [apply SInv_init|apply LInv_init]].
    intros t st Hfr ((Tq & Tb) & Tl). split; [apply (SInv_apply c t st Hm Hfr (conj Tq Tb))|apply LInv_apply; assumption]. }
  destruct G as ((Q & B) & L). intros rid q Hg. split.
  - intros Ha. pose proof (l_exp _ _ L rid q Hg Ha) as Hmk. destruct (l_mark _ _ L _ _ Hmk) as (_ & Hh). exact Hh.
  - intros Ha. exact (l_log _ _ L rid q Hg Ha).
Qed.

(** ** C08: starting a paused context never moves or duplicates a scheduled batch *)
Lemma start_keeps_schedule_lemma :
  forall s id cons s',
    k_start s id cons = Okk s' ->
    (has id (expmark s) = true \/ has id (newmark s) = true -> newq s' = newq s /\ newmark s' = newmark s)
    /\ (has id (expmark s) = false -> has id (newmark s) = false ->
        newq s' = q_add (height s, id) (newq s) /\ newmark s' = set id (height s) (newmark s))
    /\ expq s' = expq s /\ expmark s' = expmark s /\ reqs s' = reqs s /\ g_batches s' = g_batches s.
Proof.
  unfold k_start. intros s id cons s' H. destruct (get id (ctxs s)) as [x|]; [|discriminate].
  destruct (x_mod x && negb (check_authority s cons id false)); [discriminate|].
  destruct (negb (x_state x =? 1)); [discriminate|]. cbv zeta in H. simpl in H.
  destruct (has id (expmark s)) eqn:E1; destruct (has id (newmark s)) eqn:E2; simpl in H; inversion H; subst; clear H; simpl;
    (split; [intros [A|A]; try discriminate; split; reflexivity|]); (split; [intros A B; try discriminate; split; reflexivity|]); repeat split.
Qed.
