(** * Service: the history theorems hold on chains WITH a module-served service too — every step
    that is not a module-served call behaves as on the chain without one ([no_msvc]), and the
    module-served call preserves the invariants. *)
From Irismod Require Import Service.Model Service.Proofs Service.ProofsHist Service.ProofsEscrow Service.ProofsSched
  Service.ProofsBatch Service.ProofsLiab Service.ProofsTally Service.ProofsLive Service.ProofsModule Service.ProofsFresh
  Service.ProofsCallback Service.ProofsSchedule.

Definition no_msvc (c : config) : config :=
  mkCfg (c_tax c) (c_slash c) (c_maxto c) (c_mult c) (c_mindep c) (c_wait c) (c_restricted c) (c_ndenoms c) (-1) (c_mprov c).

Lemma no_msvc_lt c : c_msvc (no_msvc c) < 0.
Proof. simpl. lia. Qed.

Lemma exec_msg_plain_no_msvc c s txh m : exec_msg_plain (no_msvc c) s txh m = exec_msg_plain c s txh m.
Proof. destruct m; reflexivity. Qed.

Definition is_module_call (c : config) (st : step) : bool :=
  match st with
  | Tx _ (MCall svc _ _ _ _ _ _ _ _ _) => module_served c svc
  | _ => false
  end.

Lemma apply_no_msvc c s st : is_module_call c st = false -> apply c s st = apply (no_msvc c) s st \/ apply c s st = s.
Proof.
  intros Hn. destruct st; try (left; reflexivity).
  destruct m; try (left; reflexivity).
  - (* bind: refused for a module-served service, otherwise as without *)
    unfold apply. cbn [exec_step exec_msg]. destruct (module_served c svc) eqn:E; [right; reflexivity|left].
    assert (E' : module_served (no_msvc c) svc = false) by reflexivity. rewrite E'. reflexivity.
  - simpl in Hn. unfold apply. cbn [exec_step exec_msg]. rewrite Hn. left.
    assert (E' : module_served (no_msvc c) svc = false) by reflexivity. rewrite E'. reflexivity.
Qed.

Lemma lift_apply (P : state -> Prop) :
  (forall c s st, c_msvc c < 0 -> fresh_ctx s st -> P s -> P (apply c s st)) ->
  (forall c s txh svc provs cons inok capd capa timeout rep freq total s',
     call_module c s txh svc provs cons inok capd capa timeout rep freq total = Okk s' ->
     ctx_at s (txh, iidx s) = None -> P s -> P s') ->
  forall c s st, fresh_ctx s st -> P s -> P (apply c s st).
Proof.
  intros Hplain Hmod c s st Hf Hp. destruct (is_module_call c st) eqn:E.
  - destruct st; try discriminate. destruct m; try discriminate. simpl in E. unfold apply. cbn [exec_step exec_msg]. rewrite E.
    destruct (call_module c s txh svc provs cons inok capd capa timeout rep freq total) as [s'| |] eqn:Ec; try exact Hp.
    eapply Hmod; [exact Ec|exact Hf|exact Hp].
  - destruct (apply_no_msvc c s st E) as [Ea|Ea]; rewrite Ea; [|exact Hp]. apply Hplain; [apply no_msvc_lt|exact Hf|exact Hp].
Qed.

Lemma set_set {K V} `{EqDec K} (k : K) (a b : V) (m : amap K V) : set k a (set k b m) = set k a m.
Proof.
  induction m as [|[k0 v0] m IH]; simpl.
  - destruct (eq_dec k k); [reflexivity|congruence].
  - destruct (eq_dec k k0) as [->|Hne]; simpl.
    + destruct (eq_dec k0 k0); [reflexivity|congruence].
    + destruct (eq_dec k k0); [congruence|]. rewrite IH. reflexivity.
Qed.

(** the state after a successful module-served call, relative to the state [s1] right after the
    context was created *)
Lemma call_module_shape c s txh svc provs cons inok capd capa timeout rep freq total s' :
  call_module c s txh svc provs cons inok capd capa timeout rep freq total = Okk s' ->
  exists s1 id x q',
    create_context c s txh svc [c_mprov c] cons inok capd capa 1 false 0 0 0 0 false = Some (s1, id)
    /\ id = (txh, iidx s) /\ get id (ctxs s1) = Some x /\ x_brun x = false /\ x_batch x = 0 /\ x_mod x = false /\ x_timeout x = 1
    /\ ctxs s' = set id (cx_state x 2) (ctxs s1)
    /\ reqs s' = set (id, 1, height s, 0) q' (reqs s1) /\ q_active q' = false /\ q_prov q' = c_mprov c
    /\ newq s' = newq s1 /\ newmark s' = newmark s1 /\ expq s' = expq s1 /\ expmark s' = expmark s1
    /\ height s' = height s1 /\ g_out s' = g_out s1 ++ [((id, 1, height s, 0), 1)]
    /\ g_batches s' = g_batches s1 /\ cblog s' = cblog s1
    /\ (exists k e, 0 <= e /\ earned s' = addz k e (earned s1)) /\ 0 <= q_fee q'.
Proof.
  unfold call_module. intros H. destruct (negb _); [discriminate|].
  destruct (create_context c s txh svc [c_mprov c] cons inok capd capa 1 false 0 0 0 0 false) as [[s1 id]|] eqn:E1; [|discriminate].
  destruct (create_context_shape _ _ _ _ _ _ _ _ _ _ _ _ _ _ _ _ _ _ E1) as (Hid & R1 & _ & _ & Hh1 & x0 & C1 & _ & _ & _ & X4).
  destruct (get id (ctxs s1)) as [x|] eqn:Ex; [|discriminate].
  assert (x = x0) by (rewrite C1, get_set_same in Ex; congruence). subst x0.
  assert (Xf : x_brun x = false /\ x_mod x = false /\ x_timeout x = 1).
  { clear -E1 Ex. unfold create_context in E1. repeat dmn E1; inversion E1; subst; clear E1; simpl in Ex;
      rewrite get_set_same in Ex; inversion Ex; subst; repeat split. }
  destruct Xf as (Xb & Xm & Xt).
  destruct (filter_provs s1 x (x_provs x)) as [[|p0 ps]|]; try discriminate.
  destruct (debit_all (led s1) (x_cons x) (total_fees s1 x [c_mprov c])) as [l|]; [|discriminate].
  set (sl := with_led s1 (credit_all l REQ (total_fees s1 x [c_mprov c]))) in *.
  set (s2 := initiate_ms sl id x [c_mprov c]) in *.
  destruct (respond c s2 (id, x_batch x + 1, height s, 0) (c_mprov c) 1) as [s3| |] eqn:Er; try discriminate.
  cbv beta iota in H. injection H as <-.
  destruct (respond_shape _ _ _ _ _ _ Er) as (q & x2 & q' & x3 & Hq & _ & Hx2 & Ha' & Hfq & _ & R3 & C3 & _).
  destruct (respond_struct _ _ _ _ _ _ Er) as (_ & _ & _ & _ & _ & _ & G3 & Hh3).
  destruct (respond_queues _ _ _ _ _ _ Er) as (M3 & Q3 & _).
  destruct (respond_ok_lemma _ _ _ _ _ _ Er) as (_ & _ & _ & _ & (q'' & Hq'' & _ & _ & Hp'' & _) & _).
  assert (Eq'' : q'' = q') by (rewrite R3, get_set_same in Hq''; congruence). subst q''.
  destruct (respond_cb_shape _ _ _ _ _ _ Er) as (qc & xc & xc' & _ & _ & Hxc & _ & _ & _ & Hcb).
  assert (Hnq : newq s3 = newq s2 /\ newmark s3 = newmark s2 /\ g_batches s3 = g_batches s2).
  { destruct (exec_msg_plain_marks c s2 0 (MRespond (id, x_batch x + 1, height s, 0) (c_mprov c) 1) s3 Er) as (A & B & _).
    split; [|split; assumption].
    clear -Er. unfold respond in Er. repeat dmn Er; inversion Er; subst; clear Er; simpl;
      try (unfold callback; simpl; repeat match goal with |- context [match ?g with _ => _ end] => destruct g end; simpl);
      match goal with E : add_earned_fee _ _ _ _ _ = Some ?s1 |- _ => unfold add_earned_fee in E; repeat dmn E; inversion E; subst; reflexivity end. }
  destruct Hnq as (N3 & NM3 & GB3).
  assert (C2 : ctxs s2 = set id (cx_bthr (cx_breq (cx_bresp (cx_brun (cx_batch x (x_batch x + 1)) true) 0) 1) (x_thr x)) (ctxs s1)) by reflexivity.
  assert (Hcl : cblog s3 = cblog s2).
  { simpl rid_ctx in Hxc. rewrite C2, get_set_same in Hxc. injection Hxc as Exc. rewrite <- Exc in Hcb. simpl in Hcb. rewrite Xm in Hcb.
    destruct Hcb as [(_ & L)|(_ & n & ok & L)]; exact L. }
  exists s1, id, x, q'. rewrite X4 in *. simpl (0 + 1) in *.
  split; [reflexivity|]. split; [exact Hid|]. split; [exact Ex|]. split; [exact Xb|]. split; [first [exact X4|reflexivity]|]. split; [exact Xm|]. split; [exact Xt|].
  cbn [ctxs reqs newq newmark expq expmark height g_out g_batches cblog with_ctxs].
  split; [simpl rid_ctx in C3; rewrite C3, C2, !set_set; reflexivity|].
  split.
  { rewrite R3. unfold s2, initiate_ms. cbn [reqs with_ctxs with_reqs mk_requests]. destruct (fee_of sl x (c_mprov c)) as [fd fee].
    cbn [fold_left fst snd]. change (height sl) with (height s1). change (reqs sl) with (reqs s1). rewrite Hh1, ?X4. simpl (0 + 1). rewrite set_set. reflexivity. }
  split; [exact Ha'|]. split; [exact Hp''|].
  split; [rewrite N3; reflexivity|]. split; [rewrite NM3; reflexivity|]. split; [rewrite Q3; reflexivity|]. split; [rewrite M3; reflexivity|].
  split; [rewrite Hh3; reflexivity|]. split; [rewrite G3; reflexivity|]. split; [rewrite GB3; reflexivity|]. split; [rewrite Hcl; reflexivity|].
  destruct (respond_earned _ _ _ _ _ _ Er) as (qe & Hqe & Ee & Te).
  rewrite Hq in Hqe. inversion Hqe; subst qe.
  split; [eexists; eexists; split; [|exact Ee]; lia|]. rewrite Hfq. lia.
Qed.

(** ** the module-served call preserves the invariants *)
Lemma BatchInv_set_inactive s rid q' t :
  BatchInv s -> q_active q' = false ->
  (forall v, get rid (reqs s) = Some v -> q_active v = false) ->
  reqs t = set rid q' (reqs s) -> ctxs t = ctxs s -> BatchInv t.
Proof.
  intros [I1 I2 I3] Ha Hold R C. constructor; rewrite ?R, ?C.
  - apply keys_set_NoDup. exact I1.
  - intros rid0 q0 Hg Hact. destruct (eq_dec rid0 rid) as [->|Hne].
    + rewrite get_set_same in Hg. inversion Hg; subst. congruence.
    + rewrite get_set_other in Hg by exact Hne. apply (I2 rid0 q0); assumption.
  - intros id0 x0 Hg Hr. eapply Z.le_trans; [|apply (I3 id0 x0 Hg Hr)].
    unfold nact. rewrite msum_set. unfold act1 at 3. simpl. rewrite Ha, andb_false_r.
    destruct (get rid (reqs s)) as [v|]; [pose proof (act1_nonneg id0 (rid, v))|]; lia.
Qed.

Lemma SInv_call_module c s txh svc provs cons inok capd capa timeout rep freq total s' :
  call_module c s txh svc provs cons inok capd capa timeout rep freq total = Okk s' ->
  ctx_at s (txh, iidx s) = None -> SInv s -> SInv s'.
Proof.
  intros H Hf (Hq & Hb).
  destruct (call_module_shape _ _ _ _ _ _ _ _ _ _ _ _ _ _ H) as (s1 & id & x & q' & E1 & Hid & Ex & Xb & X4 & Xm & Xt & C & R & Ha & Hp & N & NM & E & EM & Hh & G & GB & CB & _).
  pose proof (QInv_create _ _ _ _ _ _ _ _ _ _ _ _ _ _ _ _ _ _ E1 Hf Hq) as Q1.
  pose proof (BatchInv_create _ _ _ _ _ _ _ _ _ _ _ _ _ _ _ _ _ _ E1 Hf Hb) as B1.
  split.
  - eapply (QInv_same (with_ctxs s1 (set id (cx_state x 2) (ctxs s1)))); [repeat split; assumption|].
    eapply QInv_ctx_set; [exact Q1|exact Ex|]. simpl. tauto.
  - set (t1 := with_ctxs s1 (set id (cx_state x 2) (ctxs s1))).
    assert (T1 : BatchInv t1) by (eapply BatchInv_ctx_keep; [exact B1|exact Ex| | | |]; reflexivity).
    eapply (BatchInv_set_inactive t1 (id, 1, height s, 0) q'); [exact T1|exact Ha| |exact R|exact C].
    intros v Hv. eapply (no_active_closed s1 id B1); [|exact Hv|reflexivity]. intros x0 Hx0. congruence.
Qed.

Lemma GInv_call_module c s txh svc provs cons inok capd capa timeout rep freq total s' :
  call_module c s txh svc provs cons inok capd capa timeout rep freq total = Okk s' ->
  ctx_at s (txh, iidx s) = None -> GInv s -> GInv s'.
Proof.
  intros H Hf (Hq & Hb & Hd & Hp & He).
  destruct (SInv_call_module _ _ _ _ _ _ _ _ _ _ _ _ _ _ H Hf (conj Hq Hb)) as (Q' & B').
  split; [exact Q'|]. split; [exact B'|]. split; [eapply DepInv_call_module; eassumption|]. split; [eapply PInv_call_module; eassumption|].
  destruct (module_call_lemma _ _ _ _ _ _ _ _ _ _ _ _ _ _ H Hd Hb Hf (e_eq _ He)) as (Eq' & _).
  destruct (call_module_shape _ _ _ _ _ _ _ _ _ _ _ _ _ _ H) as (s1 & id & x & q' & E1 & _ & _ & _ & _ & _ & _ & _ & R & _ & _ & _ & _ & _ & _ & _ & _ & _ & _ & (k & e & He0 & Ee) & Hfee).
  destruct (create_context_shape _ _ _ _ _ _ _ _ _ _ _ _ _ _ _ _ _ _ E1) as (_ & R1 & Ea1 & _).
  constructor; [exact Eq'| |].
  - rewrite R, R1. intros rid q Hin. apply in_set in Hin. destruct Hin as [E|Hin]; [inversion E; subst; exact Hfee|eapply (e_fee _ He); exact Hin].
  - rewrite Ee, Ea1. intros k0 v Hin. unfold addz in Hin. destruct (e =? 0); [eapply (e_earn _ He); exact Hin|].
    apply in_set in Hin. destruct Hin as [E|Hin]; [|eapply (e_earn _ He); exact Hin]. inversion E; subst.
    assert (0 <= getz k (earned s)); [|lia]. unfold getz. destruct (get k (earned s)) as [v0|] eqn:Eg; [|lia].
    eapply (e_earn _ He). apply get_In. exact Eg.
Qed.

Lemma GInv_apply_m c s st : fresh_ctx s st -> GInv s -> GInv (apply c s st).
Proof.
  apply (lift_apply GInv).
  - intros c0 s0 st0 Hm Hf0 Hg0. apply GInv_apply; assumption.
  - intros. eapply GInv_call_module; eassumption.
Qed.

Lemma SInv_apply_m c s st : fresh_ctx s st -> SInv s -> SInv (apply c s st).
Proof.
  apply (lift_apply SInv).
  - intros c0 s0 st0 Hm Hf0 Hg0. apply SInv_apply; assumption.
  - intros. eapply SInv_call_module; eassumption.
Qed.

Theorem request_escrow_eq_liabilities_m_lemma :
  forall c steps h0 t0 l0,
    (forall d, bal l0 REQ d = 0) -> bal l0 DEP BASE = 0 ->
    NoDup (create_txhs steps) ->
    let s := run c (init h0 t0 l0) steps in
    forall d, bal (led s) REQ d = liab d s.
Proof.
  intros c steps h0 t0 l0 Hr Hd Hnd s.
  pose proof (fresh_history_from_distinct_hashes_lemma c steps h0 t0 l0 Hnd) as Hf.
  assert (G : GInv s) by (subst s; apply (run_inv_fresh GInv c); [intros; apply GInv_apply_m; assumption|exact Hf|apply GInv_init; assumption]).
  destruct G as (_ & _ & _ & _ & E). exact (e_eq _ E).
Qed.

Theorem active_requests_m_lemma :
  forall c steps h0 t0 l0,
    NoDup (create_txhs steps) ->
    let s := run c (init h0 t0 l0) steps in
    (forall rid q, get rid (reqs s) = Some q -> q_active q = true ->
       exists x, get (rid_ctx rid) (ctxs s) = Some x /\ x_brun x = true /\ rid_b rid = x_batch x)
    /\ (forall id x, get id (ctxs s) = Some x -> x_brun x = true ->
          nact id (reqs s) <= x_breq x - x_bresp x /\ has id (expmark s) = true)
    /\ (forall h id x, In (h, id) (newq s) -> get id (ctxs s) = Some x -> x_brun x = false /\ get id (newmark s) = Some h).
Proof.
  intros c steps h0 t0 l0 Hnd s.
  pose proof (fresh_history_from_distinct_hashes_lemma c steps h0 t0 l0 Hnd) as Hf.
  assert (G : SInv s) by (subst s; apply (run_inv_fresh SInv c); [intros; apply SInv_apply_m; assumption|exact Hf|apply SInv_init]).
  destruct G as (Q & B). split; [exact (b_act _ B)|]. split.
  - intros id x Hg Hr. split; [exact (b_count _ B id x Hg Hr)|exact (q_run_mark _ Q id x Hg Hr)].
  - intros h id x Hin Hg. split; [exact (q_new_closed _ Q h id x Hin Hg)|exact (q_new_mark _ Q h id Hin)].
Qed.

(** *** no request active past its expiry / inactive => logged *)
Lemma LInv_call_module c s txh svc provs cons inok capd capa timeout rep freq total s' :
  call_module c s txh svc provs cons inok capd capa timeout rep freq total = Okk s' -> LInv false s -> LInv false s'.
Proof.
  intros H Hl.
  destruct (call_module_shape _ _ _ _ _ _ _ _ _ _ _ _ _ _ H) as (s1 & id & x & q' & E1 & Hid & Ex & Xb & X4 & Xm & Xt & C & R & Ha & Hp & N & NM & E & EM & Hh & G & GB & CB & _).
  assert (L1 : LInv false s1) by (eapply LInv_create; [exact E1|lia|exact Hl]).
  set (t1 := with_ctxs s1 (set id (cx_state x 2) (ctxs s1))).
  assert (T1 : LInv false t1) by (apply LInv_ctx_set; [exact L1|simpl; lia]).
  eapply (LInv_deactivate false t1 (id, 1, height s, 0) q' s' T1 Ha); try assumption. left. exact G.
Qed.

Definition SL (s : state) : Prop := SInv s /\ LInv false s.

Lemma SL_apply_m c s st : fresh_ctx s st -> SL s -> SL (apply c s st).
Proof.
  apply (lift_apply SL).
  - intros c0 s0 st0 Hm Hf0 ((Q & B) & L). split; [apply SInv_apply; [exact Hm|exact Hf0|split; assumption]|apply LInv_apply; assumption].
  - intros c0 s0 txh svc provs cons inok capd capa timeout rep freq total s1 Hc Hf0 (S0 & L0).
    split; [eapply SInv_call_module; eassumption|eapply LInv_call_module; eassumption].
Qed.

Theorem outcome_by_expiry_m_lemma :
  forall c steps h0 t0 l0,
    NoDup (create_txhs steps) ->
    let s := run c (init h0 t0 l0) steps in
    forall rid q, get rid (reqs s) = Some q ->
      (q_active q = true -> height s <= q_exp q)
      /\ (q_active q = false -> In rid (map fst (g_out s))).
Proof.
  intros c steps h0 t0 l0 Hnd s.
  pose proof (fresh_history_from_distinct_hashes_lemma c steps h0 t0 l0 Hnd) as Hf.
  assert (G : SL s) by (subst s; apply (run_inv_fresh SL c); [intros; apply SL_apply_m; assumption|exact Hf|split; [apply SInv_init|apply LInv_init]]).
  destruct G as (_ & L). intros rid q Hg. split.
  - intros Ha. pose proof (l_exp _ _ L rid q Hg Ha) as Hmk. destruct (l_mark _ _ L _ _ Hmk) as (_ & Hh). exact Hh.
  - intros Ha. exact (l_log _ _ L rid q Hg Ha).
Qed.

(** *** the schedule *)
Lemma RS_call_module c g0 id0 H s txh svc provs cons inok capd capa timeout rep freq total s' :
  call_module c s txh svc provs cons inok capd capa timeout rep freq total = Okk s' ->
  QInv s -> ctx_at s (txh, iidx s) = None -> RS g0 id0 H s -> RS g0 id0 H s'.
Proof.
  intros Hc Hq Hf Hr.
  destruct (call_module_shape _ _ _ _ _ _ _ _ _ _ _ _ _ _ Hc) as (s1 & id & x & q' & E1 & _ & _ & _ & _ & _ & _ & _ & _ & _ & _ & _ & NM & _ & _ & Hh & _ & GB & _).
  pose proof (RS_create c g0 id0 H s _ _ _ _ _ _ _ _ _ _ _ _ _ _ s1 id E1 Hq Hf Hr) as R1.
  eapply RS_same; [|exact R1]. repeat split; assumption.
Qed.

Definition SR (g0 : list (ctxid * Z * Z)) (id : ctxid) (H : Z) (s : state) : Prop := SInv s /\ RS g0 id H s.

Lemma SR_apply_m g0 id H c s st : fresh_ctx s st -> SR g0 id H s -> SR g0 id H (apply c s st).
Proof.
  apply (lift_apply (SR g0 id H)).
  - intros c0 s0 st0 Hm Hf0 ((Q & B) & R). split; [apply SInv_apply; [exact Hm|exact Hf0|split; assumption]|apply RS_apply; assumption].
  - intros c0 s0 txh svc provs cons inok capd capa timeout rep freq total s1 Hc Hf0 ((Q & B) & R).
    split; [eapply SInv_call_module; [exact Hc|exact Hf0|split; assumption]|eapply RS_call_module; eassumption].
Qed.

Theorem no_batch_before_its_scheduled_height_m_lemma :
  forall c pre post h0 t0 l0 id H,
    NoDup (create_txhs (pre ++ post)) ->
    let s := run c (init h0 t0 l0) pre in
    let s' := run c (init h0 t0 l0) (pre ++ post) in
    get id (newmark s) = Some H ->
    (forall e, In e (g_batches s') -> ~ In e (g_batches s) -> b_ctx e = id -> H <= b_h e)
    /\ (get id (newmark s') = Some H \/ H <= height s').
Proof.
  intros c pre post h0 t0 l0 id H Hnd s s' Hmk.
  pose proof (fresh_history_from_distinct_hashes_lemma c (pre ++ post) h0 t0 l0 Hnd) as Hf.
  assert (Hsplit : forall steps1 steps2 t, fresh_history c t (steps1 ++ steps2) ->
            fresh_history c t steps1 /\ fresh_history c (run c t steps1) steps2).
  { induction steps1 as [|st r IH]; intros steps2 t F; [split; [exact I|exact F]|]. cbn [app fresh_history run] in *.
    destruct F as (F1 & F2). destruct (IH _ _ F2) as (A & B). split; [split; assumption|exact B]. }
  destruct (Hsplit pre post _ Hf) as (Fpre & Fpost).
  assert (Ss : SInv s) by (subst s; apply (run_inv_fresh SInv c); [intros; apply SInv_apply_m; assumption|exact Fpre|apply SInv_init]).
  assert (Es : s' = run c s post).
  { subst s s'. generalize (init h0 t0 l0). clear. induction pre as [|st r IH]; intros t; [reflexivity|]. cbn [app run]. apply IH. }
  assert (R : SR (g_batches s) id H (run c s post)).
  { apply (run_inv_fresh (SR (g_batches s) id H) c); [intros; apply SR_apply_m; assumption|exact Fpost|].
    split; [exact Ss|]. split; [intros e He Hn; contradiction|left; exact Hmk]. }
  rewrite Es. exact (proj2 R).
Qed.

(** *** callbacks *)
Lemma CInv_call_module c s txh svc provs cons inok capd capa timeout rep freq total s' :
  call_module c s txh svc provs cons inok capd capa timeout rep freq total = Okk s' ->
  (forall e, In e (cblog s) -> fst (cb_id e) <> txh) -> CInv s -> CInv s'.
Proof.
  intros H Hn Hc.
  destruct (call_module_shape _ _ _ _ _ _ _ _ _ _ _ _ _ _ H) as (s1 & id & x & q' & E1 & Hid & Ex & Xb & X4 & Xm & Xt & C & _ & _ & _ & _ & _ & _ & _ & _ & _ & _ & CB & _).
  assert (C1 : CInv s1).
  { eapply create_context_cb; [exact E1| |exact Hc]. intros e He Eq. exact (Hn e He (f_equal fst Eq)). }
  eapply (CInv_ctl s1 id x (cx_state x 2)); [exact C1|exact Ex|reflexivity|reflexivity|reflexivity|split; assumption].
Qed.

Lemma apply_cb_m c s st : cb_sub s (apply c s st).
Proof.
  destruct (is_module_call c st) eqn:E.
  - destruct st; try discriminate. destruct m; try discriminate. simpl in E. unfold apply. cbn [exec_step exec_msg]. rewrite E.
    destruct (call_module c s txh svc provs cons inok capd capa timeout rep freq total) as [s'| |] eqn:Ec; try (apply cb_sub_same; reflexivity).
    destruct (call_module_shape _ _ _ _ _ _ _ _ _ _ _ _ _ _ Ec) as (s1 & id & x & q' & E1 & _ & _ & _ & _ & _ & _ & _ & _ & _ & _ & _ & _ & _ & _ & _ & _ & _ & CB & _).
    apply cb_sub_same. rewrite CB. clear -E1. unfold create_context in E1. repeat dmn E1; inversion E1; subst; reflexivity.
  - destruct (apply_no_msvc c s st E) as [Ea|Ea]; rewrite Ea; [apply apply_cb; apply no_msvc_lt|apply cb_sub_same; reflexivity].
Qed.

Lemma CInv_apply_m c s st :
  fresh_ctx s st -> SInv s ->
  (forall t, create_txh st = Some t -> forall e, In e (cblog s) -> fst (cb_id e) <> t) ->
  CInv s -> CInv (apply c s st).
Proof.
  intros Hf (Hq & Hb) Hn Hc. destruct (is_module_call c st) eqn:E.
  - destruct st; try discriminate. destruct m; try discriminate. simpl in E. unfold apply. cbn [exec_step exec_msg]. rewrite E.
    destruct (call_module c s txh svc provs cons inok capd capa timeout rep freq total) as [s'| |] eqn:Ec; try exact Hc.
    eapply CInv_call_module; [exact Ec| |exact Hc]. apply (Hn txh). reflexivity.
  - destruct (apply_no_msvc c s st E) as [Ea|Ea]; rewrite Ea; [|exact Hc]. apply CInv_apply; try assumption. apply no_msvc_lt.
Qed.

Lemma callback_run_m c : forall steps s used,
  (forall id, has id (ctxs s) = true -> In (fst id) used) ->
  (forall e, In e (cblog s) -> In (fst (cb_id e)) used) ->
  NoDup (used ++ create_txhs steps) -> fresh_history c s steps ->
  SInv s -> CInv s -> CInv (run c s steps).
Proof.
  induction steps as [|st r IH]; intros s used Hu Hcb Hnd Hf Hs Hc; [exact Hc|]. cbn [run].
  destruct Hf as (F1 & F2).
  pose proof (apply_ids c s st) as Hids. pose proof (apply_cb_m c s st) as Hcbs.
  assert (Hc' : CInv (apply c s st)).
  { apply CInv_apply_m; try assumption. intros t Et e He Eq.
    cbn [create_txhs] in Hnd. rewrite Et in Hnd. apply NoDup_remove_2 in Hnd. apply Hnd. apply in_or_app. left. rewrite <- Eq. apply Hcb. exact He. }
  cbn [create_txhs] in Hnd.
  assert (Hcb' : forall used', (forall t, In t used -> In t used') -> forall e, In e (cblog (apply c s st)) -> In (fst (cb_id e)) used').
  { intros used' Hsub e He. apply Hsub. destruct (Hcbs e He) as [H1|H1]; [apply Hcb; exact H1|apply Hu; exact H1]. }
  destruct (create_txh st) as [t|] eqn:Et.
  - apply (IH (apply c s st) (used ++ [t])); try assumption.
    + intros id Hh. destruct (Hids id Hh) as [H1|H1]; apply in_or_app; [left; apply Hu; exact H1|right; left; congruence].
    + apply Hcb'. intros t0 H0. apply in_or_app. left. exact H0.
    + rewrite <- app_assoc. exact Hnd.
    + apply SInv_apply_m; assumption.
  - apply (IH (apply c s st) used); try assumption.
    + intros id Hh. destruct (Hids id Hh) as [H1|H1]; [apply Hu; exact H1|discriminate].
    + apply Hcb'. intros t0 H0. exact H0.
    + apply SInv_apply_m; assumption.
Qed.

Theorem callback_exactly_once_per_batch_m_lemma :
  forall c steps h0 t0 l0,
    NoDup (create_txhs steps) ->
    let s := run c (init h0 t0 l0) steps in
    NoDup (resp_keys (cblog s))
    /\ (forall id x, get id (ctxs s) = Some x -> x_brun x = true -> ~ In (id, x_batch x) (resp_keys (cblog s)))
    /\ (forall id x, get id (ctxs s) = Some x -> x_mod x = true -> x_brun x = false -> 1 <= x_batch x ->
          In (id, x_batch x) (resp_keys (cblog s))).
Proof.
  intros c steps h0 t0 l0 Hnd s.
  assert (Hc : CInv s).
  { subst s. apply (callback_run_m c steps (init h0 t0 l0) []); try assumption.
    - intros id H. discriminate.
    - intros e [].
    - apply fresh_history_from_distinct_hashes_lemma. exact Hnd.
    - apply SInv_init.
    - apply CInv_init. }
  split; [exact (c_once _ Hc)|]. split; [|exact (c_fired _ Hc)].
  intros id x Hg Hr Hin. unfold resp_keys in Hin. apply in_map_iff in Hin. destruct Hin as (e & Ek & He).
  apply filter_In in He. destruct He as (He & Hk). inversion Ek.
  assert (Hg' : get (cb_id e) (ctxs s) = Some x) by (rewrite H0; exact Hg).
  destruct (c_closed _ Hc e He Hk x Hg') as (_ & Hcl). rewrite (Hcl H1) in Hr. discriminate.
Qed.
