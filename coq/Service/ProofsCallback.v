(** * Service: the response callback of a module-owned context fires exactly once per batch —
    never while the batch is running, never twice, and always when the batch is closed; its
    [err = nil] flag is set iff the number of outputs reaches the batch's threshold.  The callback
    log [cblog] is a ghost of the model; the harness records the real invocations and compares. *)
From Irismod Require Import Service.Model Service.Proofs Service.ProofsHist Service.ProofsEscrow Service.ProofsSched
  Service.ProofsBatch Service.ProofsLiab Service.ProofsModule Service.ProofsFresh.

Definition cb_kind (e : cbev) : Z := let '(k, _, _, _, _) := e in k.
Definition cb_id (e : cbev) : ctxid := let '(_, i, _, _, _) := e in i.
Definition cb_batch (e : cbev) : Z := let '(_, _, b, _, _) := e in b.
Definition cb_n (e : cbev) : Z := let '(_, _, _, n, _) := e in n.
Definition cb_ok (e : cbev) : Z := let '(_, _, _, _, o) := e in o.
Definition is_resp (e : cbev) : bool := cb_kind e =? 0.
(** the (context, batch) pairs for which the response callback was invoked, in order *)
Definition resp_keys (l : list cbev) : list (ctxid * Z) := map (fun e => (cb_id e, cb_batch e)) (filter is_resp l).

Lemma resp_keys_app a b : resp_keys (a ++ b) = resp_keys a ++ resp_keys b.
Proof. unfold resp_keys. rewrite filter_app, map_app. reflexivity. Qed.

(** what [callback] appends: one response entry for the CURRENT batch of the stored context, with
    the number of outputs of that batch, flagged ok iff that number reaches the batch threshold *)
Lemma callback_spec s id x :
  get id (ctxs s) = Some x ->
  cblog (callback s id) = cblog s ++ [(0, id, x_batch x, n_outputs s id (x_batch x), if x_bthr x <=? n_outputs s id (x_batch x) then 1 else 0)]
  /\ ctxs (callback s id) = ctxs s /\ reqs (callback s id) = reqs s.
Proof. intros Hg. unfold callback. rewrite Hg. repeat split. Qed.

Record CInv (s : state) : Prop := {
  c_closed : forall e, In e (cblog s) -> is_resp e = true -> forall x, get (cb_id e) (ctxs s) = Some x ->
             cb_batch e <= x_batch x /\ (cb_batch e = x_batch x -> x_brun x = false);
  c_once : NoDup (resp_keys (cblog s));
  c_fired : forall id x, get id (ctxs s) = Some x -> x_mod x = true -> x_brun x = false -> 1 <= x_batch x ->
            In (id, x_batch x) (resp_keys (cblog s))
}.

Definition c_same (s s' : state) : Prop := cblog s' = cblog s /\ ctxs s' = ctxs s.
Lemma CInv_same s s' : c_same s s' -> CInv s -> CInv s'.
Proof. intros (A & B) [I1 I2 I3]. constructor; rewrite ?A, ?B; assumption. Qed.

(** a context rewritten in place: batch number, batch state and ownership as before *)
Lemma CInv_ctx_keep s id x x' t :
  CInv s -> get id (ctxs s) = Some x -> x_batch x' = x_batch x -> x_brun x' = x_brun x -> x_mod x' = x_mod x ->
  resp_keys (cblog t) = resp_keys (cblog s) -> (forall e, In e (cblog t) -> is_resp e = true -> In e (cblog s)) ->
  ctxs t = set id x' (ctxs s) -> CInv t.
Proof.
  intros [I1 I2 I3] Hg E1 E2 E3 L Lin C. constructor; rewrite ?L, ?C.
  - intros e He Hr x0 Hg0. pose proof (Lin e He Hr) as Hs. destruct (eq_dec (cb_id e) id) as [Eq|Hne].
    + rewrite Eq, get_set_same in Hg0. inversion Hg0; subst x0. rewrite E1, E2. apply (I1 e Hs Hr). rewrite Eq. exact Hg.
    + rewrite get_set_other in Hg0 by exact Hne. apply (I1 e Hs Hr). exact Hg0.
  - exact I2.
  - intros id0 x0 Hg0 Hm Hb Hn. destruct (eq_dec id0 id) as [->|Hne].
    + rewrite get_set_same in Hg0. inversion Hg0; subst x0. rewrite E1. apply (I3 id x Hg); congruence.
    + rewrite get_set_other in Hg0 by exact Hne. apply (I3 id0 x0 Hg0); assumption.
Qed.

Lemma CInv_ctx_del s id t : CInv s -> cblog t = cblog s -> ctxs t = del id (ctxs s) -> CInv t.
Proof.
  intros [I1 I2 I3] L C. constructor; rewrite ?L, ?C.
  - intros e He Hr x0 Hg0. destruct (eq_dec (cb_id e) id) as [Eq|Hne]; [rewrite Eq, get_del_same in Hg0; discriminate|].
    rewrite get_del_other in Hg0 by exact Hne. apply (I1 e He Hr). exact Hg0.
  - exact I2.
  - intros id0 x0 Hg0 Hm Hb Hn. destruct (eq_dec id0 id) as [->|Hne]; [rewrite get_del_same in Hg0; discriminate|].
    rewrite get_del_other in Hg0 by exact Hne. apply (I3 id0 x0 Hg0); assumption.
Qed.

(** a context stored under an id for which the callback never fired *)
Lemma CInv_new_ctx s id x t :
  CInv s -> (forall e, In e (cblog s) -> cb_id e <> id) -> x_batch x = 0 ->
  cblog t = cblog s -> ctxs t = set id x (ctxs s) -> CInv t.
Proof.
  intros [I1 I2 I3] Hn Hb L C. constructor; rewrite ?L, ?C.
  - intros e He Hr x0 Hg0. rewrite get_set_other in Hg0 by (apply Hn; exact He). apply (I1 e He Hr). exact Hg0.
  - exact I2.
  - intros id0 x0 Hg0 Hm Hbr Hge. destruct (eq_dec id0 id) as [->|Hne].
    + rewrite get_set_same in Hg0. inversion Hg0; subst x0. lia.
    + rewrite get_set_other in Hg0 by exact Hne. apply (I3 id0 x0 Hg0); assumption.
Qed.

(** a batch of [id] is closed: the callback fires (module-owned) or not (user-owned) *)
Lemma CInv_close s id x x' t (fire : bool) n ok :
  CInv s -> get id (ctxs s) = Some x -> x_brun x = true ->
  x_batch x' = x_batch x -> x_brun x' = false -> x_mod x' = x_mod x -> fire = x_mod x ->
  cblog t = (if fire then cblog s ++ [(0, id, x_batch x, n, ok)] else cblog s) ->
  (ctxs t = set id x' (ctxs s) \/ ctxs t = del id (set id x' (ctxs s))) -> CInv t.
Proof.
  intros [I1 I2 I3] Hg Hr E1 E2 E3 Ef L C.
  assert (Hnot : ~ In (id, x_batch x) (resp_keys (cblog s))).
  { intros Hin. unfold resp_keys in Hin. apply in_map_iff in Hin. destruct Hin as (e & Ek & He). apply filter_In in He. destruct He as (He & Hk).
    inversion Ek. assert (Hg' : get (cb_id e) (ctxs s) = Some x) by (rewrite H0; exact Hg).
    destruct (I1 e He Hk x Hg') as (_ & Hc). rewrite (Hc H1) in Hr. discriminate. }
  assert (Hin_t : forall e, In e (cblog t) -> In e (cblog s) \/ (fire = true /\ e = (0, id, x_batch x, n, ok))).
  { intros e He. rewrite L in He. destruct fire; [|left; exact He]. apply in_app_or in He. destruct He as [He|[<-|[]]]; [left; exact He|right; split; reflexivity]. }
  assert (Hget : forall id0 x0, get id0 (ctxs t) = Some x0 -> (id0 = id /\ x0 = x') \/ (id0 <> id /\ get id0 (ctxs s) = Some x0)).
  { intros id0 x0 Hg0. destruct (eq_dec id0 id) as [->|Hne].
    - left. split; [reflexivity|]. destruct C as [C|C]; rewrite C in Hg0; [rewrite get_set_same in Hg0; congruence|rewrite get_del_same in Hg0; discriminate].
    - right. split; [exact Hne|]. destruct C as [C|C]; rewrite C in Hg0; [rewrite get_set_other in Hg0 by exact Hne|rewrite get_del_other, get_set_other in Hg0 by exact Hne]; exact Hg0. }
  constructor.
  - intros e He Hk x0 Hg0. destruct (Hget _ _ Hg0) as [(Eid & ->)|(Hne & Hgs)].
    + rewrite E1, E2. destruct (Hin_t e He) as [Hs|(_ & ->)]; [|simpl; split; [lia|reflexivity]].
      rewrite Eid in *. destruct (I1 e Hs Hk x) as (A & _); [rewrite Eid; exact Hg|]. split; [exact A|reflexivity].
    + destruct (Hin_t e He) as [Hs|(_ & ->)]; [apply (I1 e Hs Hk); exact Hgs|]. simpl in Hne. congruence.
  - rewrite L. destruct fire; [|exact I2]. rewrite resp_keys_app. unfold resp_keys at 2. simpl. apply NoDup_snoc; assumption.
  - intros id0 x0 Hg0 Hm Hb Hn. rewrite L. destruct (Hget _ _ Hg0) as [(-> & ->)|(Hne & Hgs)].
    + rewrite E3 in Hm. rewrite <- Ef in Hm. rewrite Hm. rewrite resp_keys_app. apply in_or_app. right. unfold resp_keys. simpl. left. rewrite E1. reflexivity.
    + assert (Hin : In (id0, x_batch x0) (resp_keys (cblog s))) by (apply (I3 id0 x0 Hgs); assumption).
      destruct fire; [rewrite resp_keys_app; apply in_or_app; left|]; exact Hin.
Qed.

(** a batch of [id] is opened: next number, running *)
Lemma CInv_open s id x x' t :
  CInv s -> get id (ctxs s) = Some x -> x_batch x' = x_batch x + 1 -> x_brun x' = true ->
  resp_keys (cblog t) = resp_keys (cblog s) -> (forall e, In e (cblog t) -> is_resp e = true -> In e (cblog s)) ->
  ctxs t = set id x' (ctxs s) -> CInv t.
Proof.
  intros [I1 I2 I3] Hg E1 E2 L Lin C. constructor; rewrite ?L, ?C.
  - intros e He Hk x0 Hg0. pose proof (Lin e He Hk) as Hs. destruct (eq_dec (cb_id e) id) as [Eq|Hne].
    + rewrite Eq, get_set_same in Hg0. inversion Hg0; subst x0. destruct (I1 e Hs Hk x) as (A & _); [rewrite Eq; exact Hg|]. split; lia.
    + rewrite get_set_other in Hg0 by exact Hne. apply (I1 e Hs Hk). exact Hg0.
  - exact I2.
  - intros id0 x0 Hg0 Hm Hb Hn. destruct (eq_dec id0 id) as [->|Hne].
    + rewrite get_set_same in Hg0. inversion Hg0; subst x0. congruence.
    + rewrite get_set_other in Hg0 by exact Hne. apply (I3 id0 x0 Hg0); assumption.
Qed.

(** ** the steps *)
Lemma respond_cb_shape c s rid prov kind s' :
  respond c s rid prov kind = Okk s' ->
  exists q x x', get rid (reqs s) = Some q /\ q_active q = true /\ get (rid_ctx rid) (ctxs s) = Some x
    /\ ctxs s' = set (rid_ctx rid) x' (ctxs s) /\ x_batch x' = x_batch x /\ x_mod x' = x_mod x
    /\ ((x_brun x' = x_brun x /\ cblog s' = cblog s)
        \/ (x_brun x' = false /\ exists n ok, cblog s' = if x_mod x then cblog s ++ [(0, rid_ctx rid, x_batch x, n, ok)] else cblog s)).
Proof.
  intros H. unfold respond in H. destruct rid as [[[id batch] hh] ii].
  destruct ((0 <=? prov) && negb (kind =? 2)); cbv beta iota zeta delta [negb] in H; [|discriminate].
  match type of H with context [@get reqid request ?i ?k (reqs s)] =>
    destruct (@get reqid request i k (reqs s)) as [q|] eqn:Eq end; [|discriminate].
  destruct (get id (ctxs s)) as [x|] eqn:Ex; [|discriminate].
  destruct (q_prov q =? prov); cbv beta iota zeta delta [negb] in H; [|discriminate].
  destruct (q_active q) eqn:Ea; cbv beta iota zeta delta [negb] in H; [|discriminate].
  destruct (add_earned_fee c s prov (q_fd q) (q_fee q)) as [s1|] eqn:Ef; [|discriminate].
  assert (F : ctxs s1 = ctxs s /\ cblog s1 = cblog s).
  { clear -Ef. unfold add_earned_fee in Ef. repeat dmn Ef; inversion Ef; subst; split; reflexivity. }
  destruct F as (F1 & F2). simpl rid_ctx. exists q, x.
  destruct (x_bresp (cx_bresp x (x_bresp x + 1)) =? x_breq (cx_bresp x (x_bresp x + 1)));
    [destruct (x_mod (cx_bresp x (x_bresp x + 1))) eqn:Em|]; inversion H; subst s'; clear H.
  - exists (cx_brun (cx_bresp x (x_bresp x + 1)) false). simpl in Em. unfold callback. simpl. rewrite F1, Ex. simpl. rewrite F1, F2, Em.
    split; [reflexivity|]. split; [exact Ea|]. split; [first [exact Ex|reflexivity]|]. repeat (split; [reflexivity|]). right. split; [reflexivity|]. eexists. eexists. reflexivity.
  - exists (cx_brun (cx_bresp x (x_bresp x + 1)) false). simpl in Em. simpl. rewrite F1, F2, Em.
    split; [reflexivity|]. split; [exact Ea|]. split; [first [exact Ex|reflexivity]|]. repeat (split; [reflexivity|]). right. split; [reflexivity|]. exists 0, 0. reflexivity.
  - exists (cx_bresp x (x_bresp x + 1)). simpl. rewrite F1, F2. split; [reflexivity|]. split; [exact Ea|]. split; [first [exact Ex|reflexivity]|]. repeat (split; [reflexivity|]). left. split; reflexivity.
Qed.

Lemma CInv_respond c s rid prov kind s' : respond c s rid prov kind = Okk s' -> BatchInv s -> CInv s -> CInv s'.
Proof.
  intros H Hb Hc. destruct (respond_cb_shape _ _ _ _ _ _ H) as (q & x & x' & Hq & Ha & Hx & C & E1 & E3 & Hcase).
  destruct (b_act _ Hb rid q Hq Ha) as (x0 & Hx0 & Hr & _). rewrite Hx in Hx0. inversion Hx0; subst x0.
  destruct Hcase as [(E2 & L)|(E2 & n & ok & L)].
  - eapply (CInv_ctx_keep s (rid_ctx rid) x x'); try eassumption; [rewrite L; reflexivity|intros e He _; rewrite L in He; exact He].
  - eapply (CInv_close s (rid_ctx rid) x x' s' (x_mod x) n ok); try eassumption; [reflexivity|left; exact C].
Qed.

Lemma CInv_expired_handler c s id : CInv s -> CInv (expired_batch_handler c s id).
Proof.
  intros Hc. unfold expired_batch_handler. destruct (get id (ctxs s)) as [x|] eqn:Eg; [|exact Hc].
  set (pr := if x_brun x then _ else (s, x)).
  assert (Hpr : ctxs (fst pr) = ctxs s
                /\ ((x_brun x = true /\ snd pr = cx_brun x false
                     /\ exists n ok, cblog (fst pr) = if x_mod x then cblog s ++ [(0, id, x_batch x, n, ok)] else cblog s)
                    \/ (x_brun x = false /\ snd pr = x /\ cblog (fst pr) = cblog s))).
  { subst pr. destruct (x_brun x) eqn:Eb; [|split; [reflexivity|right; repeat split]]. simpl.
    set (act := filter _ (reqs s)). set (sf := fold_left (expire_request c x) act s).
    assert (Hf : ctxs sf = ctxs s /\ cblog sf = cblog s).
    { subst sf. generalize act s. clear. induction act as [|[r q] act IH]; intros s; cbn [fold_left]; [split; reflexivity|].
      destruct (IH (expire_request c x s (r, q))) as (A & B). rewrite A, B. unfold expire_request.
      assert (S : ctxs (slash c s (x_svc x) (q_prov q)) = ctxs s /\ cblog (slash c s (x_svc x) (q_prov q)) = cblog s).
      { unfold slash. destruct (get _ (binds s)) as [b|]; [|split; reflexivity]. destruct (b_dep b <? _); [split; reflexivity|].
        destruct (send _ _ _ _ _); split; reflexivity. }
      destruct (send _ _ _ _ _); simpl; exact S. }
    destruct Hf as (Hf1 & Hf2). destruct (x_mod x).
    - assert (Hg : get id (ctxs sf) = Some x) by (rewrite Hf1; exact Eg).
      destruct (callback_spec sf id x Hg) as (L & C & _). split; [congruence|]. left. split; [reflexivity|]. split; [reflexivity|].
      eexists. eexists. rewrite L, Hf2. reflexivity.
    - split; [exact Hf1|]. left. split; [reflexivity|]. split; [reflexivity|]. exists 0, 0. exact Hf2. }
  destruct pr as [s1 x1]. simpl in Hpr. destruct Hpr as (C1 & Hcase). cbv zeta.
  match goal with |- CInv (with_reqs ?t _) =>
    assert (Ht : cblog t = cblog s1 /\ (ctxs t = set id x1 (ctxs s1) \/ ctxs t = del id (set id x1 (ctxs s1)))) end.
  { destruct (Z.eqb_spec (x_state x1) 2) as [S2|S2]; destruct (Z.eqb_spec (x_state x1) 0) as [S0|S0]; [lia| | |];
      try destruct (x_rep x1 && _); simpl; split; auto. }
  destruct Ht as (Lt & Ct). rewrite C1 in Ct.
  match goal with |- CInv (with_reqs ?t ?r) => apply (CInv_same t (with_reqs t r)); [split; reflexivity|]; set (tt := t) in *; clearbody tt end.
  destruct Hcase as [(Hb & -> & n & ok & L1)|(Hb & -> & L1)].
  - eapply (CInv_close s id x (cx_brun x false) tt (x_mod x) n ok); try eassumption; try reflexivity. rewrite Lt. exact L1.
  - destruct Ct as [Ct|Ct].
    + eapply (CInv_ctx_keep s id x x tt); try eassumption; try reflexivity; [rewrite Lt, L1; reflexivity|intros e He _; rewrite Lt, L1 in He; exact He].
    + apply (CInv_ctx_del (with_ctxs s (set id x (ctxs s))) id tt); [|rewrite Lt, L1; reflexivity|exact Ct].
      eapply (CInv_ctx_keep s id x x); try eassumption; try reflexivity. intros e He _. exact He.
Qed.

Lemma CInv_new_handler s id :
  (forall x, get id (ctxs s) = Some x -> x_brun x = false) -> CInv s -> CInv (new_batch_handler s id).
Proof.
  intros Hcl Hc. unfold new_batch_handler. destruct (get id (ctxs s)) as [x|] eqn:Eg; [|exact Hc].
  pose proof (Hcl x eq_refl) as Hb.
  assert (SK : forall x', x_batch x' = x_batch x + 1 -> x_brun x' = true -> forall t, cblog t = cblog s -> ctxs t = set id x' (ctxs s) -> CInv t).
  { intros x' E1 E2 t L C. eapply (CInv_open s id x x' t); try eassumption; [rewrite L; reflexivity|intros e He _; rewrite L in He; exact He]. }
  destruct (x_state x =? 0); [|eapply CInv_same; [|exact Hc]; split; reflexivity].
  destruct (filter_provs s x (x_provs x)) as [ps|]; [|apply (SK (cx_bthr (cx_bresp (cx_breq (cx_brun (cx_batch x (x_batch x + 1)) true) 0) 0) (x_thr x))); reflexivity].
  cbv zeta. destruct (_ && _); [|apply (SK (cx_bthr (cx_bresp (cx_breq (cx_brun (cx_batch x (x_batch x + 1)) true) 0) 0) (x_thr x))); reflexivity].
  destruct (debit_all _ _ _) as [l|]; [apply (SK (cx_bthr (cx_breq (cx_bresp (cx_brun (cx_batch x (x_batch x + 1)) true) 0) (Z.of_nat (length ps))) (x_thr x))); reflexivity|].
  eapply (CInv_ctx_keep s id x (cx_state (cx_brun x false) 1)); try eassumption; try reflexivity.
  - simpl. congruence.
  - unfold on_paused. destruct (x_mod x); simpl; [rewrite resp_keys_app; unfold resp_keys at 2; simpl; rewrite app_nil_r|]; reflexivity.
  - intros e He Hk. unfold on_paused in He. destruct (x_mod x); simpl in He; [|exact He].
    apply in_app_or in He. destruct He as [He|[<-|[]]]; [exact He|discriminate].
  - unfold on_paused. destruct (x_mod x); reflexivity.
Qed.

Ltac c_frame H := repeat dmn H; inversion H; subst; clear H; split; reflexivity.

Lemma create_context_cb c s txh svc provs cons inok capd capa timeout rep freq total st thr md s' id :
  create_context c s txh svc provs cons inok capd capa timeout rep freq total st thr md = Some (s', id) ->
  (forall e, In e (cblog s) -> cb_id e <> (txh, iidx s)) -> CInv s -> CInv s'.
Proof.
  intros H Hn Hc. destruct (create_context_shape _ _ _ _ _ _ _ _ _ _ _ _ _ _ _ _ _ _ H) as (Hid & _ & _ & _ & _ & x & C & _ & _ & _ & Xb).
  assert (L : cblog s' = cblog s) by (clear -H; unfold create_context in H; repeat dmn H; inversion H; subst; reflexivity).
  eapply (CInv_new_ctx s id x s'); try eassumption. rewrite Hid. exact Hn.
Qed.

Lemma CInv_ctl s id x x' t :
  CInv s -> get id (ctxs s) = Some x -> x_batch x' = x_batch x -> x_brun x' = x_brun x -> x_mod x' = x_mod x ->
  c_same (with_ctxs s (set id x' (ctxs s))) t -> CInv t.
Proof.
  intros Hc Hg E1 E2 E3 (L & C). eapply (CInv_ctx_keep s id x x' t); try eassumption; [rewrite L; reflexivity|intros e He _; rewrite L in He; exact He].
Qed.

Lemma CInv_pause s id cons s' : k_pause s id cons = Okk s' -> CInv s -> CInv s'.
Proof.
  unfold k_pause. intros H Hc. destruct (get id (ctxs s)) as [x|] eqn:Eg; [|discriminate].
  repeat dmn H; inversion H; subst; clear H; (eapply (CInv_ctl s id x (cx_state x 1)); [exact Hc|exact Eg|reflexivity|reflexivity|reflexivity|split; reflexivity]).
Qed.
Lemma CInv_kill s id cons s' : k_kill s id cons = Okk s' -> CInv s -> CInv s'.
Proof.
  unfold k_kill. intros H Hc. destruct (get id (ctxs s)) as [x|] eqn:Eg; [|discriminate].
  repeat dmn H; inversion H; subst; clear H; (eapply (CInv_ctl s id x (cx_state x 2)); [exact Hc|exact Eg|reflexivity|reflexivity|reflexivity|split; reflexivity]).
Qed.
Lemma CInv_start s id cons s' : k_start s id cons = Okk s' -> CInv s -> CInv s'.
Proof.
  unfold k_start. intros H Hc. destruct (get id (ctxs s)) as [x|] eqn:Eg; [|discriminate].
  repeat dmn H; inversion H; subst; clear H; (eapply (CInv_ctl s id x (cx_state x 0)); [exact Hc|exact Eg|reflexivity|reflexivity|reflexivity|split; reflexivity]).
Qed.
Lemma CInv_update_context c s id provs capd capa timeout freq total cons s' :
  update_context c s id provs capd capa timeout freq total cons = Okk s' -> CInv s -> CInv s'.
Proof.
  unfold update_context. intros H Hc.
  match type of H with (if negb ?g then _ else _) = _ => destruct g; [|discriminate] end.
  cbv beta iota zeta delta [negb] in H.
  destruct (check_authority s cons id true); [|discriminate]. cbv beta iota zeta delta [negb] in H.
  destruct (get id (ctxs s)) as [x|] eqn:Eg; [|discriminate].
  repeat dmn H; inversion H; subst; clear H;
    (eapply (CInv_ctl s id x); [exact Hc|exact Eg| | | |split; reflexivity]);
    repeat match goal with |- context [match ?g with _ => _ end] => destruct g end; reflexivity.
Qed.

Lemma CInv_exec_msg c s txh m s' :
  exec_msg_plain c s txh m = Okk s' -> BatchInv s ->
  (forall t, create_txh (Tx txh m) = Some t -> forall e, In e (cblog s) -> fst (cb_id e) <> t) -> CInv s -> CInv s'.
Proof.
  intros H Hb Hn Hc. destruct m; simpl in H.
  - unfold define in H. eapply CInv_same; [|exact Hc]. c_frame H.
  - unfold bind in H. eapply CInv_same; [|exact Hc]. c_frame H.
  - unfold update_binding in H. eapply CInv_same; [|exact Hc]. c_frame H.
  - unfold set_withdraw in H. eapply CInv_same; [|exact Hc]. c_frame H.
  - unfold enable in H. eapply CInv_same; [|exact Hc]. c_frame H.
  - unfold disable in H. eapply CInv_same; [|exact Hc]. c_frame H.
  - unfold refund_deposit in H. eapply CInv_same; [|exact Hc]. c_frame H.
  - unfold call in H. destruct (negb _); [discriminate|].
    destruct (create_context _ _ _ _ _ _ _ _ _ _ _ _ _ _ _ _) as [[s1 id]|] eqn:E; [|discriminate].
    inversion H; subst. eapply create_context_cb; [exact E| |exact Hc].
    intros e He Eq. exact (Hn txh eq_refl e He (f_equal fst Eq)).
  - eapply CInv_respond; eassumption.
  - unfold msg_ctl in H. repeat dmn H. eapply CInv_pause; eassumption.
  - unfold msg_ctl in H. repeat dmn H. eapply CInv_start; eassumption.
  - unfold msg_ctl in H. repeat dmn H. eapply CInv_kill; eassumption.
  - eapply CInv_update_context; eassumption.
  - unfold withdraw in H. eapply CInv_same; [|exact Hc]. c_frame H.
Qed.

Lemma CInv_end_block c s dt : QInv s -> BatchInv s -> CInv s -> CInv (end_block c s dt).
Proof.
  intros Hq Hb Hc. unfold end_block. cbv zeta.
  set (s1 := fold_left (expired_batch_handler c) _ s).
  assert (H1 : ((QInv s1 /\ BatchInv s1) /\ CInv s1) /\ height s1 = height s).
  { subst s1. apply (fold_handlers (fun t => ((QInv t /\ BatchInv t) /\ CInv t) /\ height t = height s) (expired_batch_handler c)
                      (fun t id => In (height t, id) (expq t))).
    - intros t id (((Tq & Tb) & Tc) & Hh) Hpre. destruct (QInv_expired_handler c t id Tq Hpre) as (A & B & C).
      split; [split; [split; [split; [exact A|apply BatchInv_expired_handler; exact Tb]|apply CInv_expired_handler; exact Tc]|congruence]|].
      intros id' Hne Hpp. rewrite B. apply C; assumption.
    - apply due_NoDup. exact (q_exp_nodup _ Hq).
    - split; [split; [split; assumption|assumption]|reflexivity].
    - intros id Hin. apply due_in in Hin. exact Hin. }
  destruct H1 as (((Q1 & B1) & C1) & Hh1).
  set (s2 := fold_left new_batch_handler _ s1).
  assert (H2 : ((QInv s2 /\ BatchInv s2) /\ CInv s2) /\ height s2 = height s1).
  { subst s2. apply (fold_handlers (fun t => ((QInv t /\ BatchInv t) /\ CInv t) /\ height t = height s1) new_batch_handler
                      (fun t id => In (height t, id) (newq t))).
    - intros t id (((Tq & Tb) & Tc) & Hh) Hpre. destruct (QInv_new_handler t id Tq Hpre) as (A & B & C).
      assert (Hcl : forall x, get id (ctxs t) = Some x -> x_brun x = false) by (intros x Hx; eapply (q_new_closed _ Tq); eassumption).
      split; [split; [split; [split; [exact A|apply BatchInv_new_handler; assumption]|apply CInv_new_handler; assumption]|congruence]|].
      intros id' Hne Hpp. rewrite B. apply C; assumption.
    - apply due_NoDup. exact (q_new_nodup _ Q1).
    - split; [split; [split; assumption|assumption]|reflexivity].
    - intros id Hin. apply due_in in Hin. exact Hin. }
  destruct H2 as ((_ & C2) & _). eapply CInv_same; [|exact C2]. split; reflexivity.
Qed.

Lemma CInv_apply c s st :
  c_msvc c < 0 -> QInv s -> BatchInv s ->
  (forall t, create_txh st = Some t -> forall e, In e (cblog s) -> fst (cb_id e) <> t) ->
  CInv s -> CInv (apply c s st).
Proof.
  intros Hm Hq Hb Hn Hc. unfold apply. destruct (exec_step c s st) as [s'| |] eqn:E; try exact Hc.
  destruct st; cbn [exec_step] in E.
  9: { change (exec_msg_plain c s 0 (MBind svc prov depd depa pr qos true owner) = Okk s') in E.
       eapply (CInv_exec_msg c s 0); eassumption. }
  all: simpl in E.
  - rewrite (exec_msg_plain_eq _ _ _ _ Hm) in E. eapply CInv_exec_msg; eassumption.
  - destruct (0 <=? dt); [|discriminate]. inversion E; subst. apply CInv_end_block; assumption.
  - inversion E; subst. eapply CInv_same; [|exact Hc]. split; reflexivity.
  - eapply CInv_same; [|exact Hc]. c_frame E.
  - destruct (create_context _ _ _ _ _ _ _ _ _ _ _ _ _ _ _ _) as [[s1 id]|] eqn:E1; [|discriminate].
    inversion E; subst. eapply create_context_cb; [exact E1| |exact Hc]. intros e He Eq. exact (Hn txh eq_refl e He (f_equal fst Eq)).
  - eapply CInv_pause; eassumption.
  - eapply CInv_start; eassumption.
  - eapply CInv_kill; eassumption.
Qed.

(** ** callbacks are only ever invoked for stored contexts *)
Definition cb_sub (s s' : state) : Prop :=
  forall e, In e (cblog s') -> In e (cblog s) \/ has (cb_id e) (ctxs s) = true.

Lemma cb_sub_same s s' : cblog s' = cblog s -> cb_sub s s'.
Proof. intros L e He. left. rewrite <- L. exact He. Qed.

Lemma expired_handler_cb c s id : cb_sub s (expired_batch_handler c s id).
Proof.
  unfold expired_batch_handler. destruct (get id (ctxs s)) as [x|] eqn:Eg; [|apply cb_sub_same; reflexivity].
  set (pr := if x_brun x then _ else (s, x)).
  assert (Hpr : forall e, In e (cblog (fst pr)) -> In e (cblog s) \/ cb_id e = id).
  { subst pr. destruct (x_brun x); [|intros e He; left; exact He]. simpl.
    set (act := filter _ (reqs s)). set (sf := fold_left (expire_request c x) act s).
    assert (Hf : ctxs sf = ctxs s /\ cblog sf = cblog s).
    { subst sf. generalize act s. clear. induction act as [|[r q] act IH]; intros s; cbn [fold_left]; [split; reflexivity|].
      destruct (IH (expire_request c x s (r, q))) as (A & B). rewrite A, B. unfold expire_request.
      assert (S : ctxs (slash c s (x_svc x) (q_prov q)) = ctxs s /\ cblog (slash c s (x_svc x) (q_prov q)) = cblog s).
      { unfold slash. destruct (get _ (binds s)) as [b|]; [|split; reflexivity]. destruct (b_dep b <? _); [split; reflexivity|].
        destruct (send _ _ _ _ _); split; reflexivity. }
      destruct (send _ _ _ _ _); simpl; exact S. }
    destruct Hf as (Hf1 & Hf2). destruct (x_mod x); [|intros e He; left; rewrite <- Hf2; exact He].
    assert (Hg : get id (ctxs sf) = Some x) by (rewrite Hf1; exact Eg).
    destruct (callback_spec sf id x Hg) as (L & _). intros e He. rewrite L, Hf2 in He. apply in_app_or in He.
    destruct He as [He|[<-|[]]]; [left; exact He|right; reflexivity]. }
  destruct pr as [s1 x1]. simpl in Hpr. cbv zeta. intros e He.
  assert (He1 : In e (cblog s1)).
  { destruct (x_state x1 =? 2); destruct (x_state x1 =? 0); try destruct (x_rep x1 && _); exact He. }
  destruct (Hpr e He1) as [H1|H1]; [left; exact H1|right; rewrite H1; unfold has; rewrite Eg; reflexivity].
Qed.

Lemma new_handler_cb s id : cb_sub s (new_batch_handler s id).
Proof.
  unfold new_batch_handler. destruct (get id (ctxs s)) as [x|] eqn:Eg; [|apply cb_sub_same; reflexivity].
  destruct (x_state x =? 0); [|apply cb_sub_same; reflexivity].
  destruct (filter_provs s x (x_provs x)) as [ps|]; [|apply cb_sub_same; reflexivity].
  cbv zeta. destruct (_ && _); [|apply cb_sub_same; reflexivity].
  destruct (debit_all _ _ _); [apply cb_sub_same; reflexivity|].
  unfold on_paused. destruct (x_mod x); [|apply cb_sub_same; reflexivity].
  intros e He. simpl in He. apply in_app_or in He. destruct He as [He|[<-|[]]]; [left; exact He|right; simpl; unfold has; rewrite Eg; reflexivity].
Qed.

Lemma apply_cb c s st : c_msvc c < 0 -> cb_sub s (apply c s st).
Proof.
  intros Hm. unfold apply. destruct (exec_step c s st) as [s'| |] eqn:E; try (apply cb_sub_same; reflexivity).
  assert (MSG : forall txh m s1, exec_msg_plain c s txh m = Okk s1 -> cb_sub s s1).
  { intros txh m s1 H. destruct m; simpl in H;
      try (apply cb_sub_same; unfold define, bind, update_binding, set_withdraw, enable, disable, refund_deposit, msg_ctl, k_pause, k_start, k_kill, update_context, withdraw, call, create_context in H;
           repeat dmn H; inversion H; subst; reflexivity).
    - unfold call in H. destruct (negb _); [discriminate|].
      destruct (create_context _ _ _ _ _ _ _ _ _ _ _ _ _ _ _ _) as [[s2 id]|] eqn:E0; [|discriminate]. inversion H; subst.
      apply cb_sub_same. clear -E0. unfold create_context in E0. repeat dmn E0; inversion E0; subst; reflexivity.
    - destruct (respond_cb_shape _ _ _ _ _ _ H) as (q & x & x' & _ & _ & Hx & _ & _ & _ & Hcase). intros e He.
      destruct Hcase as [(_ & L)|(_ & n & ok & L)]; rewrite L in He; [left; exact He|].
      destruct (x_mod x); [|left; exact He]. apply in_app_or in He.
      destruct He as [He|[<-|[]]]; [left; exact He|right; simpl; unfold has; rewrite Hx; reflexivity]. }
  destruct st; cbn [exec_step] in E.
  - rewrite (exec_msg_plain_eq _ _ _ _ Hm) in E. eapply MSG. exact E.
  - destruct (0 <=? dt); [|discriminate]. inversion E; subst. unfold end_block. cbv zeta.
    set (s1 := fold_left (expired_batch_handler c) _ s).
    assert (H1 : cb_sub s s1 /\ ids_sub s s1 None).
    { subst s1. apply (fold_left_inv (fun t => cb_sub s t /\ ids_sub s t None)); [|split; [apply cb_sub_same; reflexivity|apply ids_sub_refl]].
      intros t id (Ht & It). split; [|eapply ids_sub_trans; [exact It|apply expired_handler_ids]].
      intros e He. destruct (expired_handler_cb c t id e He) as [H1|H1]; [apply Ht; exact H1|right].
      destruct (It _ H1) as [H2|H2]; [exact H2|discriminate]. }
    set (s2 := fold_left new_batch_handler _ s1).
    assert (H2 : cb_sub s s2 /\ ids_sub s s2 None).
    { subst s2. apply (fold_left_inv (fun t => cb_sub s t /\ ids_sub s t None)); [|exact H1].
      intros t id (Ht & It). split; [|eapply ids_sub_trans; [exact It|apply new_handler_ids]].
      intros e He. destruct (new_handler_cb t id e He) as [H3|H3]; [apply Ht; exact H3|right].
      destruct (It _ H3) as [H4|H4]; [exact H4|discriminate]. }
    intros e He. apply (proj1 H2). exact He.
  - inversion E; subst. apply cb_sub_same. reflexivity.
  - apply cb_sub_same. repeat dmn E; inversion E; subst; reflexivity.
  - destruct (create_context _ _ _ _ _ _ _ _ _ _ _ _ _ _ _ _) as [[s2 id]|] eqn:E0; [|discriminate]. inversion E; subst.
    apply cb_sub_same. clear -E0. unfold create_context in E0. repeat dmn E0; inversion E0; subst; reflexivity.
  - apply cb_sub_same. unfold k_pause in E. repeat dmn E; inversion E; subst; reflexivity.
  - apply cb_sub_same. unfold k_start in E. repeat dmn E; inversion E; subst; reflexivity.
  - apply cb_sub_same. unfold k_kill in E. repeat dmn E; inversion E; subst; reflexivity.
  - apply cb_sub_same. unfold bind in E. repeat dmn E; inversion E; subst; reflexivity.
Qed.

(** ** the theorems *)
Lemma CInv_init h0 t0 l0 : CInv (init h0 t0 l0).
Proof. constructor; simpl; [intros e []|constructor|intros; discriminate]. Qed.

Lemma callback_run c : forall steps s used,
  c_msvc c < 0 ->
  (forall id, has id (ctxs s) = true -> In (fst id) used) ->
  (forall e, In e (cblog s) -> In (fst (cb_id e)) used) ->
  NoDup (used ++ create_txhs steps) -> fresh_history c s steps ->
  SInv s -> CInv s -> CInv (run c s steps).
Proof.
  induction steps as [|st r IH]; intros s used Hm Hu Hcb Hnd Hf Hs Hc; [exact Hc|]. cbn [run].
  destruct Hf as (F1 & F2). destruct Hs as (Hq & Hb).
  pose proof (apply_ids c s st) as Hids. pose proof (apply_cb c s st Hm) as Hcbs.
  assert (Hc' : CInv (apply c s st)).
  { apply CInv_apply; try assumption. intros t Et e He Eq.
    cbn [create_txhs] in Hnd. rewrite Et in Hnd. apply NoDup_remove_2 in Hnd. apply Hnd. apply in_or_app. left. rewrite <- Eq. apply Hcb. exact He. }
  cbn [create_txhs] in Hnd.
  assert (Hcb' : forall used', (forall t, In t used -> In t used') -> forall e, In e (cblog (apply c s st)) -> In (fst (cb_id e)) used').
  { intros used' Hsub e He. apply Hsub. destruct (Hcbs e He) as [H1|H1]; [apply Hcb; exact H1|apply Hu; exact H1]. }
  destruct (create_txh st) as [t|] eqn:Et.
  - apply (IH (apply c s st) (used ++ [t])); try assumption.
    + intros id Hh. destruct (Hids id Hh) as [H1|H1]; apply in_or_app; [left; apply Hu; exact H1|right; left; congruence].
    + apply Hcb'. intros t0 H0. apply in_or_app. left. exact H0.
    + rewrite <- app_assoc. exact Hnd.
    + apply SInv_apply; [exact Hm|exact F1|split; assumption].
  - apply (IH (apply c s st) used); try assumption.
    + intros id Hh. destruct (Hids id Hh) as [H1|H1]; [apply Hu; exact H1|discriminate].
    + apply Hcb'. intros t0 H0. exact H0.
    + apply SInv_apply; [exact Hm|exact F1|split; assumption].
Qed.

(** over every history of a chain without module-served services whose context-creating
    transactions have pairwise distinct hashes: the response callback fired at most once for every
    (context, batch); never for the batch that is still running; and exactly once for the current
    batch of every stored module-owned context whose batch is closed *)
Theorem callback_exactly_once_per_batch_lemma :
  forall c steps h0 t0 l0,
    c_msvc c < 0 -> NoDup (create_txhs steps) ->
    let s := run c (init h0 t0 l0) steps in
    NoDup (resp_keys (cblog s))
    /\ (forall id x, get id (ctxs s) = Some x -> x_brun x = true -> ~ In (id, x_batch x) (resp_keys (cblog s)))
    /\ (forall id x, get id (ctxs s) = Some x -> x_mod x = true -> x_brun x = false -> 1 <= x_batch x ->
          In (id, x_batch x) (resp_keys (cblog s))).
Proof.
  intros c steps h0 t0 l0 Hm Hnd s.
  assert (Hc : CInv s).
  { subst s. apply (callback_run c steps (init h0 t0 l0) []); try assumption.
    - intros id H. discriminate.
    - intros e [].
    - apply fresh_history_from_distinct_hashes_lemma. exact Hnd.
    - apply SInv_init.
    - apply CInv_init. }
  split; [exact (c_once _ Hc)|]. split; [|exact (c_fired _ Hc)].
  intros id x Hg Hr Hin. unfold resp_keys in Hin. apply in_map_iff in Hin. destruct Hin as (e & Ek & He).
  apply filter_In in He. destruct He as (He & Hk). inversion Ek.
  assert (Hg' : get (cb_id e) (ctxs s) = Some x) by (rewrite H0; exact Hg).
  destruct (c_closed _ Hc e He Hk x Hg') as (_ & Hcl). rewrite (Hcl H1) in Hr. discriminate.
Qed.

(** the flag of a response callback: [err = nil] iff the outputs reach the batch threshold *)
Theorem callback_outputs_iff_threshold_lemma :
  forall s id x, get id (ctxs s) = Some x ->
    exists e, cblog (callback s id) = cblog s ++ [e] /\ is_resp e = true /\ cb_id e = id /\ cb_batch e = x_batch x
      /\ cb_n e = n_outputs s id (x_batch x) /\ (cb_ok e = 1 <-> x_bthr x <= cb_n e) /\ (cb_ok e = 0 \/ cb_ok e = 1).
Proof.
  intros s id x Hg. destruct (callback_spec s id x Hg) as (L & _). eexists. split; [exact L|]. simpl.
  repeat split; try reflexivity; destruct (Z.leb_spec (x_bthr x) (n_outputs s id (x_batch x))); try lia; auto.
Qed.

(** ** for the oracle model ([Oracle/Proofs.v], hypothesis [run_wfb]): the service module
    completes a batch — invokes the response callback — only while that batch is running *)
Theorem respond_completes_only_running_batch :
  forall c s rid prov kind s',
    BatchInv s -> respond c s rid prov kind = Okk s' -> cblog s' <> cblog s ->
    exists x, get (rid_ctx rid) (ctxs s) = Some x /\ x_brun x = true /\ x_mod x = true
              /\ exists x', get (rid_ctx rid) (ctxs s') = Some x' /\ x_brun x' = false /\ x_batch x' = x_batch x.
Proof.
  intros c s rid prov kind s' Hb H Hne.
  destruct (respond_cb_shape _ _ _ _ _ _ H) as (q & x & x' & Hq & Ha & Hx & C & E1 & E3 & Hcase).
  destruct (b_act _ Hb rid q Hq Ha) as (x0 & Hx0 & Hr & _). rewrite Hx in Hx0. inversion Hx0; subst x0.
  exists x. split; [exact Hx|]. split; [exact Hr|].
  destruct Hcase as [(_ & L)|(E2 & n & ok & L)]; [congruence|].
  destruct (x_mod x) eqn:Em; [|congruence]. split; [reflexivity|].
  exists x'. rewrite C, get_set_same. repeat split; assumption.
Qed.

Theorem expiry_completes_only_running_batch :
  forall c s id x,
    get id (ctxs s) = Some x -> x_brun x = false ->
    cblog (expired_batch_handler c s id) = cblog s.
Proof.
  intros c s id x Hg Hb. unfold expired_batch_handler. rewrite Hg, Hb. cbv zeta.
  destruct (x_state x =? 2); destruct (x_state x =? 0); try destruct (x_rep x && _); reflexivity.
Qed.
