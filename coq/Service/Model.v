(** * Service module: executable model (modules/service: keeper/{binding,invocation,fees,
    state_change,oracle_price,msg_server}.go, abci.go, types/{binding,validation,msgs}.go).

    Vocabulary.  Accounts, denoms, service names are interned integers: actors are [>= 0];
    the three module accounts the property talks about are [DEP] (service_deposit_account),
    [REQ] (service_request_account) and [TAX] (the module's fee collector,
    service_fee_collector in e2e/app_config.go).  Denom [BASE] = 0 is the params' base denom.
    A request-context id is [(txh, idx)]: the tx hash (as the integer value of its first 8
    bytes, supplied by the step, so that store-key order = integer order) and the per-block
    internal index; a request id is [(ctx id, batch counter, request height, provider index)]
    exactly as [GenerateRequestID] concatenates them.  JSON / JSON-schema validation is an
    oracle: steps carry the accept/reject bit.  The exchange rate source (oracle module
    service) is a table [rates] set by [SetRate] steps (the harness installs a module service
    answering from the same table).  Decimals are [Base/Dec.v] scaled integers.

    Ghost fields (never read by the transitions): [g_out] logs the outcome of every request
    (1 answered, 2 expired), [g_batches] logs (context, batch counter, height) of every batch
    start, [cblog] logs every invocation of a registered module callback. *)
From Irismod Require Export Base.Prelude Base.Dec Base.Bank.

Definition DEP : Z := -1.
Definition REQ : Z := -2.
Definition TAX : Z := -3.
Definition BASE : Z := 0.

Definition ctxid := (Z * Z)%type.
Definition reqid := (ctxid * Z * Z * Z)%type.          (* context, batch counter, height, index *)
Definition cbev := (Z * ctxid * Z * Z * Z)%type.       (* kind (0 response, 1 state), ctx, batch, #outputs, err = nil *)
Definition pricing := (Z * Z * list (Z * Z * Z) * list (Z * Z))%type.  (* denom, amount, by time (start, end, discount), by volume (volume, discount) *)

(** service params (genesis) *)
Record config := mkCfg {
  c_tax : Z;          (* ServiceFeeTax, scaled 10^18, in [0,1) *)
  c_slash : Z;        (* SlashFraction, in [0,1] *)
  c_maxto : Z;        (* MaxRequestTimeout *)
  c_mult : Z;         (* MinDepositMultiple *)
  c_mindep : Z;       (* MinDeposit (one coin of the base denom) *)
  c_wait : Z;         (* ArbitrationTimeLimit + ComplaintRetrospect, seconds *)
  c_restricted : bool;(* RestrictedServiceFeeDenom *)
  c_ndenoms : Z;      (* denoms 0..n-1 have positive supply *)
  c_msvc : Z;         (* the service name a module service is registered under (RegisterModuleService), -1 = none *)
  c_mprov : Z         (* ... and its provider *)
}.

Record binding := mkB {
  b_dep : Z;
  b_pd : Z;
  b_pa : Z;
  b_pt : list (Z*Z*Z);
  b_pv : list (Z*Z);
  b_qos : Z;
  b_avail : bool;
  b_dis : Z;
  b_owner : Z
}.

Definition bd_dep (b : binding) (v : Z) : binding := mkB v (b_pd b) (b_pa b) (b_pt b) (b_pv b) (b_qos b) (b_avail b) (b_dis b) (b_owner b).
Definition bd_pd (b : binding) (v : Z) : binding := mkB (b_dep b) v (b_pa b) (b_pt b) (b_pv b) (b_qos b) (b_avail b) (b_dis b) (b_owner b).
Definition bd_pa (b : binding) (v : Z) : binding := mkB (b_dep b) (b_pd b) v (b_pt b) (b_pv b) (b_qos b) (b_avail b) (b_dis b) (b_owner b).
Definition bd_pt (b : binding) (v : list (Z*Z*Z)) : binding := mkB (b_dep b) (b_pd b) (b_pa b) v (b_pv b) (b_qos b) (b_avail b) (b_dis b) (b_owner b).
Definition bd_pv (b : binding) (v : list (Z*Z)) : binding := mkB (b_dep b) (b_pd b) (b_pa b) (b_pt b) v (b_qos b) (b_avail b) (b_dis b) (b_owner b).
Definition bd_qos (b : binding) (v : Z) : binding := mkB (b_dep b) (b_pd b) (b_pa b) (b_pt b) (b_pv b) v (b_avail b) (b_dis b) (b_owner b).
Definition bd_avail (b : binding) (v : bool) : binding := mkB (b_dep b) (b_pd b) (b_pa b) (b_pt b) (b_pv b) (b_qos b) v (b_dis b) (b_owner b).
Definition bd_dis (b : binding) (v : Z) : binding := mkB (b_dep b) (b_pd b) (b_pa b) (b_pt b) (b_pv b) (b_qos b) (b_avail b) v (b_owner b).
Definition bd_owner (b : binding) (v : Z) : binding := mkB (b_dep b) (b_pd b) (b_pa b) (b_pt b) (b_pv b) (b_qos b) (b_avail b) (b_dis b) v.

Record context := mkCtx {
  x_svc : Z;
  x_provs : list Z;
  x_cons : Z;
  x_cap : Z;
  x_timeout : Z;
  x_rep : bool;
  x_freq : Z;
  x_total : Z;
  x_batch : Z;
  x_breq : Z;
  x_bresp : Z;
  x_bthr : Z;
  x_brun : bool;
  x_state : Z;
  x_thr : Z;
  x_mod : bool
}.

Definition cx_svc (x : context) (v : Z) : context := mkCtx v (x_provs x) (x_cons x) (x_cap x) (x_timeout x) (x_rep x) (x_freq x) (x_total x) (x_batch x) (x_breq x) (x_bresp x) (x_bthr x) (x_brun x) (x_state x) (x_thr x) (x_mod x).
Definition cx_provs (x : context) (v : list Z) : context := mkCtx (x_svc x) v (x_cons x) (x_cap x) (x_timeout x) (x_rep x) (x_freq x) (x_total x) (x_batch x) (x_breq x) (x_bresp x) (x_bthr x) (x_brun x) (x_state x) (x_thr x) (x_mod x).
Definition cx_cons (x : context) (v : Z) : context := mkCtx (x_svc x) (x_provs x) v (x_cap x) (x_timeout x) (x_rep x) (x_freq x) (x_total x) (x_batch x) (x_breq x) (x_bresp x) (x_bthr x) (x_brun x) (x_state x) (x_thr x) (x_mod x).
Definition cx_cap (x : context) (v : Z) : context := mkCtx (x_svc x) (x_provs x) (x_cons x) v (x_timeout x) (x_rep x) (x_freq x) (x_total x) (x_batch x) (x_breq x) (x_bresp x) (x_bthr x) (x_brun x) (x_state x) (x_thr x) (x_mod x).
Definition cx_timeout (x : context) (v : Z) : context := mkCtx (x_svc x) (x_provs x) (x_cons x) (x_cap x) v (x_rep x) (x_freq x) (x_total x) (x_batch x) (x_breq x) (x_bresp x) (x_bthr x) (x_brun x) (x_state x) (x_thr x) (x_mod x).
Definition cx_rep (x : context) (v : bool) : context := mkCtx (x_svc x) (x_provs x) (x_cons x) (x_cap x) (x_timeout x) v (x_freq x) (x_total x) (x_batch x) (x_breq x) (x_bresp x) (x_bthr x) (x_brun x) (x_state x) (x_thr x) (x_mod x).
Definition cx_freq (x : context) (v : Z) : context := mkCtx (x_svc x) (x_provs x) (x_cons x) (x_cap x) (x_timeout x) (x_rep x) v (x_total x) (x_batch x) (x_breq x) (x_bresp x) (x_bthr x) (x_brun x) (x_state x) (x_thr x) (x_mod x).
Definition cx_total (x : context) (v : Z) : context := mkCtx (x_svc x) (x_provs x) (x_cons x) (x_cap x) (x_timeout x) (x_rep x) (x_freq x) v (x_batch x) (x_breq x) (x_bresp x) (x_bthr x) (x_brun x) (x_state x) (x_thr x) (x_mod x).
Definition cx_batch (x : context) (v : Z) : context := mkCtx (x_svc x) (x_provs x) (x_cons x) (x_cap x) (x_timeout x) (x_rep x) (x_freq x) (x_total x) v (x_breq x) (x_bresp x) (x_bthr x) (x_brun x) (x_state x) (x_thr x) (x_mod x).
Definition cx_breq (x : context) (v : Z) : context := mkCtx (x_svc x) (x_provs x) (x_cons x) (x_cap x) (x_timeout x) (x_rep x) (x_freq x) (x_total x) (x_batch x) v (x_bresp x) (x_bthr x) (x_brun x) (x_state x) (x_thr x) (x_mod x).
Definition cx_bresp (x : context) (v : Z) : context := mkCtx (x_svc x) (x_provs x) (x_cons x) (x_cap x) (x_timeout x) (x_rep x) (x_freq x) (x_total x) (x_batch x) (x_breq x) v (x_bthr x) (x_brun x) (x_state x) (x_thr x) (x_mod x).
Definition cx_bthr (x : context) (v : Z) : context := mkCtx (x_svc x) (x_provs x) (x_cons x) (x_cap x) (x_timeout x) (x_rep x) (x_freq x) (x_total x) (x_batch x) (x_breq x) (x_bresp x) v (x_brun x) (x_state x) (x_thr x) (x_mod x).
Definition cx_brun (x : context) (v : bool) : context := mkCtx (x_svc x) (x_provs x) (x_cons x) (x_cap x) (x_timeout x) (x_rep x) (x_freq x) (x_total x) (x_batch x) (x_breq x) (x_bresp x) (x_bthr x) v (x_state x) (x_thr x) (x_mod x).
Definition cx_state (x : context) (v : Z) : context := mkCtx (x_svc x) (x_provs x) (x_cons x) (x_cap x) (x_timeout x) (x_rep x) (x_freq x) (x_total x) (x_batch x) (x_breq x) (x_bresp x) (x_bthr x) (x_brun x) v (x_thr x) (x_mod x).
Definition cx_thr (x : context) (v : Z) : context := mkCtx (x_svc x) (x_provs x) (x_cons x) (x_cap x) (x_timeout x) (x_rep x) (x_freq x) (x_total x) (x_batch x) (x_breq x) (x_bresp x) (x_bthr x) (x_brun x) (x_state x) v (x_mod x).
Definition cx_mod (x : context) (v : bool) : context := mkCtx (x_svc x) (x_provs x) (x_cons x) (x_cap x) (x_timeout x) (x_rep x) (x_freq x) (x_total x) (x_batch x) (x_breq x) (x_bresp x) (x_bthr x) (x_brun x) (x_state x) (x_thr x) v.

Record request := mkReq {
  q_prov : Z;
  q_fd : Z;
  q_fee : Z;
  q_height : Z;
  q_exp : Z;
  q_active : bool;
  q_resp : Z
}.

Definition rq_prov (q : request) (v : Z) : request := mkReq v (q_fd q) (q_fee q) (q_height q) (q_exp q) (q_active q) (q_resp q).
Definition rq_fd (q : request) (v : Z) : request := mkReq (q_prov q) v (q_fee q) (q_height q) (q_exp q) (q_active q) (q_resp q).
Definition rq_fee (q : request) (v : Z) : request := mkReq (q_prov q) (q_fd q) v (q_height q) (q_exp q) (q_active q) (q_resp q).
Definition rq_height (q : request) (v : Z) : request := mkReq (q_prov q) (q_fd q) (q_fee q) v (q_exp q) (q_active q) (q_resp q).
Definition rq_exp (q : request) (v : Z) : request := mkReq (q_prov q) (q_fd q) (q_fee q) (q_height q) v (q_active q) (q_resp q).
Definition rq_active (q : request) (v : bool) : request := mkReq (q_prov q) (q_fd q) (q_fee q) (q_height q) (q_exp q) v (q_resp q).
Definition rq_resp (q : request) (v : Z) : request := mkReq (q_prov q) (q_fd q) (q_fee q) (q_height q) (q_exp q) (q_active q) v.

Record state := mkState {
  height : Z;
  time : Z;
  iidx : Z;
  led : ledger;
  defs : list Z;
  binds : amap (Z*Z) binding;
  owners : amap Z Z;
  waddr : amap Z Z;
  rates : amap Z Z;
  ctxs : amap ctxid context;
  reqs : amap reqid request;
  vols : amap (Z*Z*Z) Z;
  earned : amap (Z*Z) Z;
  oearned : amap (Z*Z) Z;
  newq : list (Z*ctxid);
  newmark : amap ctxid Z;
  expq : list (Z*ctxid);
  expmark : amap ctxid Z;
  cblog : list cbev;
  g_out : list (reqid*Z);
  g_batches : list (ctxid*Z*Z)
}.

Definition with_height (s : state) (x : Z) : state := mkState x (time s) (iidx s) (led s) (defs s) (binds s) (owners s) (waddr s) (rates s) (ctxs s) (reqs s) (vols s) (earned s) (oearned s) (newq s) (newmark s) (expq s) (expmark s) (cblog s) (g_out s) (g_batches s).
Definition with_time (s : state) (x : Z) : state := mkState (height s) x (iidx s) (led s) (defs s) (binds s) (owners s) (waddr s) (rates s) (ctxs s) (reqs s) (vols s) (earned s) (oearned s) (newq s) (newmark s) (expq s) (expmark s) (cblog s) (g_out s) (g_batches s).
Definition with_iidx (s : state) (x : Z) : state := mkState (height s) (time s) x (led s) (defs s) (binds s) (owners s) (waddr s) (rates s) (ctxs s) (reqs s) (vols s) (earned s) (oearned s) (newq s) (newmark s) (expq s) (expmark s) (cblog s) (g_out s) (g_batches s).
Definition with_led (s : state) (x : ledger) : state := mkState (height s) (time s) (iidx s) x (defs s) (binds s) (owners s) (waddr s) (rates s) (ctxs s) (reqs s) (vols s) (earned s) (oearned s) (newq s) (newmark s) (expq s) (expmark s) (cblog s) (g_out s) (g_batches s).
Definition with_defs (s : state) (x : list Z) : state := mkState (height s) (time s) (iidx s) (led s) x (binds s) (owners s) (waddr s) (rates s) (ctxs s) (reqs s) (vols s) (earned s) (oearned s) (newq s) (newmark s) (expq s) (expmark s) (cblog s) (g_out s) (g_batches s).
Definition with_binds (s : state) (x : amap (Z*Z) binding) : state := mkState (height s) (time s) (iidx s) (led s) (defs s) x (owners s) (waddr s) (rates s) (ctxs s) (reqs s) (vols s) (earned s) (oearned s) (newq s) (newmark s) (expq s) (expmark s) (cblog s) (g_out s) (g_batches s).
Definition with_owners (s : state) (x : amap Z Z) : state := mkState (height s) (time s) (iidx s) (led s) (defs s) (binds s) x (waddr s) (rates s) (ctxs s) (reqs s) (vols s) (earned s) (oearned s) (newq s) (newmark s) (expq s) (expmark s) (cblog s) (g_out s) (g_batches s).
Definition with_waddr (s : state) (x : amap Z Z) : state := mkState (height s) (time s) (iidx s) (led s) (defs s) (binds s) (owners s) x (rates s) (ctxs s) (reqs s) (vols s) (earned s) (oearned s) (newq s) (newmark s) (expq s) (expmark s) (cblog s) (g_out s) (g_batches s).
Definition with_rates (s : state) (x : amap Z Z) : state := mkState (height s) (time s) (iidx s) (led s) (defs s) (binds s) (owners s) (waddr s) x (ctxs s) (reqs s) (vols s) (earned s) (oearned s) (newq s) (newmark s) (expq s) (expmark s) (cblog s) (g_out s) (g_batches s).
Definition with_ctxs (s : state) (x : amap ctxid context) : state := mkState (height s) (time s) (iidx s) (led s) (defs s) (binds s) (owners s) (waddr s) (rates s) x (reqs s) (vols s) (earned s) (oearned s) (newq s) (newmark s) (expq s) (expmark s) (cblog s) (g_out s) (g_batches s).
Definition with_reqs (s : state) (x : amap reqid request) : state := mkState (height s) (time s) (iidx s) (led s) (defs s) (binds s) (owners s) (waddr s) (rates s) (ctxs s) x (vols s) (earned s) (oearned s) (newq s) (newmark s) (expq s) (expmark s) (cblog s) (g_out s) (g_batches s).
Definition with_vols (s : state) (x : amap (Z*Z*Z) Z) : state := mkState (height s) (time s) (iidx s) (led s) (defs s) (binds s) (owners s) (waddr s) (rates s) (ctxs s) (reqs s) x (earned s) (oearned s) (newq s) (newmark s) (expq s) (expmark s) (cblog s) (g_out s) (g_batches s).
Definition with_earned (s : state) (x : amap (Z*Z) Z) : state := mkState (height s) (time s) (iidx s) (led s) (defs s) (binds s) (owners s) (waddr s) (rates s) (ctxs s) (reqs s) (vols s) x (oearned s) (newq s) (newmark s) (expq s) (expmark s) (cblog s) (g_out s) (g_batches s).
Definition with_oearned (s : state) (x : amap (Z*Z) Z) : state := mkState (height s) (time s) (iidx s) (led s) (defs s) (binds s) (owners s) (waddr s) (rates s) (ctxs s) (reqs s) (vols s) (earned s) x (newq s) (newmark s) (expq s) (expmark s) (cblog s) (g_out s) (g_batches s).
Definition with_newq (s : state) (x : list (Z*ctxid)) : state := mkState (height s) (time s) (iidx s) (led s) (defs s) (binds s) (owners s) (waddr s) (rates s) (ctxs s) (reqs s) (vols s) (earned s) (oearned s) x (newmark s) (expq s) (expmark s) (cblog s) (g_out s) (g_batches s).
Definition with_newmark (s : state) (x : amap ctxid Z) : state := mkState (height s) (time s) (iidx s) (led s) (defs s) (binds s) (owners s) (waddr s) (rates s) (ctxs s) (reqs s) (vols s) (earned s) (oearned s) (newq s) x (expq s) (expmark s) (cblog s) (g_out s) (g_batches s).
Definition with_expq (s : state) (x : list (Z*ctxid)) : state := mkState (height s) (time s) (iidx s) (led s) (defs s) (binds s) (owners s) (waddr s) (rates s) (ctxs s) (reqs s) (vols s) (earned s) (oearned s) (newq s) (newmark s) x (expmark s) (cblog s) (g_out s) (g_batches s).
Definition with_expmark (s : state) (x : amap ctxid Z) : state := mkState (height s) (time s) (iidx s) (led s) (defs s) (binds s) (owners s) (waddr s) (rates s) (ctxs s) (reqs s) (vols s) (earned s) (oearned s) (newq s) (newmark s) (expq s) x (cblog s) (g_out s) (g_batches s).
Definition with_cblog (s : state) (x : list cbev) : state := mkState (height s) (time s) (iidx s) (led s) (defs s) (binds s) (owners s) (waddr s) (rates s) (ctxs s) (reqs s) (vols s) (earned s) (oearned s) (newq s) (newmark s) (expq s) (expmark s) x (g_out s) (g_batches s).
Definition with_g_out (s : state) (x : list (reqid*Z)) : state := mkState (height s) (time s) (iidx s) (led s) (defs s) (binds s) (owners s) (waddr s) (rates s) (ctxs s) (reqs s) (vols s) (earned s) (oearned s) (newq s) (newmark s) (expq s) (expmark s) (cblog s) x (g_batches s).
Definition with_g_batches (s : state) (x : list (ctxid*Z*Z)) : state := mkState (height s) (time s) (iidx s) (led s) (defs s) (binds s) (owners s) (waddr s) (rates s) (ctxs s) (reqs s) (vols s) (earned s) (oearned s) (newq s) (newmark s) (expq s) (expmark s) (cblog s) (g_out s) x.

Definition init (h0 t0 : Z) (l0 : ledger) : state :=
  mkState h0 t0 0 l0 [] [] [] [] [] [] [] [] [] [] [] [] [] [] [] [] [].

Inductive res := Okk (s : state) | Rejj | Abortt.

(** ** small helpers *)
Definition getz {K} `{EqDec K} (k : K) (m : amap K Z) : Z := match get k m with Some v => v | None => 0 end.
(** tallies hold positive entries only ([sdk.Coins] never stores a zero coin) *)
Definition addz {K} `{EqDec K} (k : K) (x : Z) (m : amap K Z) : amap K Z :=
  if x =? 0 then m else set k (getz k m + x) m.

(** the coins of one account inside a tally keyed (account, denom) *)
Definition coins_of (a : Z) (m : amap (Z * Z) Z) : list (Z * Z) :=
  map (fun e => (snd (fst e), snd e)) (filter (fun e => fst (fst e) =? a) m).
Definition del_acct (a : Z) (m : amap (Z * Z) Z) : amap (Z * Z) Z :=
  filter (fun e => negb (fst (fst e) =? a)) m.
Fixpoint set_coins (a : Z) (cs : list (Z * Z)) (m : amap (Z * Z) Z) : amap (Z * Z) Z :=
  match cs with [] => m | (d, x) :: r => set_coins a r (set (a, d) x m) end.
(** [sdk.Coins.Equal] on two coin sets with distinct denoms *)
Definition coins_equal (a b : list (Z * Z)) : bool :=
  (Nat.eqb (length a) (length b)) && forallb (fun e => eqb (get (fst e) b) (Some (snd e))) a.
(** [sdk.Coins.Sub]: [None] = panic (negative amount); zero results are dropped *)
Fixpoint coins_sub_aux (a b : list (Z * Z)) : option (list (Z * Z)) :=
  match a with
  | [] => Some []
  | (d, x) :: r =>
      match coins_sub_aux r b with
      | None => None
      | Some r' => let y := x - getz d b in
                   if y <? 0 then None else if y =? 0 then Some r' else Some ((d, y) :: r')
      end
  end.
Definition coins_sub (a b : list (Z * Z)) : option (list (Z * Z)) :=
  if forallb (fun e => has (fst e) a || (snd e =? 0)) b then coins_sub_aux a b else None.
(** [sdk.Coins.Add] of one coin: coin sets are kept sorted by denom (denom indices are chosen in
    the order of the denom names) *)
Fixpoint coins_add (d x : Z) (l : list (Z * Z)) : list (Z * Z) :=
  match l with
  | [] => [(d, x)]
  | (d', y) :: r => if d =? d' then (d, y + x) :: r
                    else if d <? d' then (d, x) :: l
                    else (d', y) :: coins_add d x r
  end.

Fixpoint debit_all (l : ledger) (a : Z) (cs : list (Z * Z)) : option ledger :=
  match cs with
  | [] => Some l
  | (d, x) :: r => match debit l a d x with Some l' => debit_all l' a r | None => None end
  end.
Fixpoint credit_all (l : ledger) (a : Z) (cs : list (Z * Z)) : ledger :=
  match cs with [] => l | (d, x) :: r => credit_all (credit l a d x) a r end.
Definition send_all (l : ledger) (from to : Z) (cs : list (Z * Z)) : option ledger :=
  match debit_all l from cs with Some l' => Some (credit_all l' to cs) | None => None end.

(** queues: store keys (height ‖ context id), a set *)
Definition q_add (e : Z * ctxid) (q : list (Z * ctxid)) : list (Z * ctxid) :=
  if existsb (eqb e) q then q else q ++ [e].
Definition q_del (e : Z * ctxid) (q : list (Z * ctxid)) : list (Z * ctxid) :=
  filter (fun e' => negb (eqb e e')) q.
Definition ctx_ltb (a b : ctxid) : bool := (fst a <? fst b) || ((fst a =? fst b) && (snd a <? snd b)).
Fixpoint ins_id (a : ctxid) (l : list ctxid) : list ctxid :=
  match l with [] => [a] | b :: r => if ctx_ltb b a then b :: ins_id a r else a :: l end.
Definition sort_ids (l : list ctxid) : list ctxid := fold_right ins_id [] l.
(** the iterator over the queue prefix of height [h]: context ids in store-key order *)
Definition due (h : Z) (q : list (Z * ctxid)) : list ctxid :=
  sort_ids (map snd (filter (fun e => fst e =? h) q)).

(** ** pricing (types/binding.go) *)
Fixpoint disc_time (pt : list (Z * Z * Z)) (t : Z) : Z :=
  match pt with
  | [] => P18
  | (st, en, d) :: r => if (st <=? t) && (t <? en) then d else disc_time r t
  end.
Fixpoint disc_vol_aux (prev : Z) (pv : list (Z * Z)) (v : Z) : Z :=
  match pv with
  | [] => P18
  | (vol, d) :: r => if v <? vol then prev else match r with [] => d | _ => disc_vol_aux d r v end
  end.
Definition disc_vol (pv : list (Z * Z)) (v : Z) : Z := disc_vol_aux P18 pv v.

(** price * discountByTime * discountByVolume as a LegacyDec (GetPrice / GetExchangedPrice) *)
Definition disc_price (b : binding) (t vol : Z) : Z :=
  dec_mul (dec_mul (dec_of_int (b_pa b)) (disc_time (b_pt b) t)) (disc_vol (b_pv b) vol).
(** Keeper.GetPrice: the fee recorded on a request *)
Definition get_price (b : binding) (t vol : Z) : Z := dec_truncate_int (disc_price b t vol).

Definition disc_ok (d : Z) : bool := (0 <? d) && (d <? P18).
Fixpoint pt_ok (first : bool) (prev_end : Z) (pt : list (Z * Z * Z)) : bool :=
  match pt with
  | [] => true
  | (st, en, d) :: r => (st <? en) && (first || (prev_end <=? st)) && disc_ok d && pt_ok false en r
  end.
Fixpoint pv_ok (prev : Z) (pv : list (Z * Z)) : bool :=
  match pv with
  | [] => true
  | (v, d) :: r => (1 <=? v) && (prev <=? v) && disc_ok d && negb (existsb (eqb (v, d)) r) && pv_ok v r
  end.
(** ValidatePricing (schema + CheckPricing) *)
Definition pricing_ok (p : pricing) : bool :=
  let '(pd, pa, pt, pv) := p in
  (0 <=? pd) && (0 <=? pa) && pt_ok true 0 pt && pv_ok 0 pv
  && (Z.of_nat (length pt) <=? 5) && (Z.of_nat (length pv) <=? 5).

(** Keeper.GetExchangeRate *)
Definition rate_of (s : state) (d : Z) : option Z :=
  match get d (rates s) with Some r => if r =? 0 then None else Some r | None => None end.

(** Keeper.GetMinDeposit; [None] = exchange-rate error *)
Definition min_deposit (c : config) (s : state) (pd pa : Z) : option Z :=
  let bp := if (pd =? BASE) || (pa =? 0) then Some pa
            else match rate_of s pd with
                 | None => None
                 | Some r => let x := dec_truncate_int (dec_mul (dec_of_int pa) r) in
                             Some (if x =? 0 then 1 else x)
                 end in
  match bp with
  | None => None
  | Some p => let m := p * c_mult c in
              Some (if m =? 0 then 0 else if m <? c_mindep c then c_mindep c else m)
  end.

(** Keeper.validatePricing *)
Definition keeper_pricing_ok (c : config) (p : pricing) : bool :=
  let '(pd, _, _, _) := p in
  (negb (c_restricted c) || (pd =? BASE)) && (pd <? c_ndenoms c).

(** validateDeposit: exactly one coin, of the base denom (amount 0 stands for "no coins") *)
Definition deposit_ok (depd depa : Z) : bool := (0 <? depa) && (depd =? BASE).

(** ** bindings (keeper/binding.go) *)
Definition define (s : state) (author svc : Z) (ok : bool) : res :=
  if negb (ok && (0 <=? author)) then Rejj
  else if existsb (Z.eqb svc) (defs s) then Rejj
  else Okk (with_defs s (defs s ++ [svc])).

Definition bind (c : config) (s : state) (svc prov depd depa : Z) (pr : pricing) (qos : Z) (optok : bool) (owner : Z) : res :=
  let '(pd, pa, pt, pv) := pr in
  if negb ((0 <=? prov) && (0 <=? owner) && (0 <=? depa) && (0 <? qos) && optok && pricing_ok pr) then Rejj
  else if negb (existsb (Z.eqb svc) (defs s)) then Rejj
  else if has (svc, prov) (binds s) then Rejj
  else if match get prov (owners s) with Some o => negb (o =? owner) | None => false end then Rejj
  else if negb (deposit_ok depd depa) then Rejj
  else if c_maxto c <? qos then Rejj
  else if negb (keeper_pricing_ok c pr) then Rejj
  else match min_deposit c s pd pa with
       | None => Rejj
       | Some m =>
           if depa <? m then Rejj
           else match send (led s) owner DEP BASE depa with
                | None => Rejj
                | Some l =>
                    let b := mkB depa pd pa pt pv qos true 0 owner in
                    let s1 := with_binds (with_led s l) (set (svc, prov) b (binds s)) in
                    Okk (match get prov (owners s) with
                         | Some _ => s1
                         | None => with_owners s1 (set prov owner (owners s))
                         end)
                end
       end.

(** opt: 0 = no options given, 1 = valid JSON, 2 = invalid *)
Definition update_binding (c : config) (s : state) (svc prov depd depa : Z) (pr : option pricing) (qos opt owner : Z) : res :=
  if negb ((0 <=? prov) && (0 <=? owner) && (0 <=? depa) && negb (opt =? 2)
           && match pr with Some p => pricing_ok p | None => true end) then Rejj
  else match get (svc, prov) (binds s) with
  | None => Rejj
  | Some b =>
    if negb (b_owner b =? owner) then Rejj
    else if negb (qos =? 0) && (c_maxto c <? qos) then Rejj
    else
    let b1 := if qos =? 0 then b else bd_qos b qos in
    if negb (depa =? 0) && negb (deposit_ok depd depa) then Rejj
    else
    let b2 := bd_dep b1 (b_dep b1 + depa) in
    if match pr with Some p => negb (keeper_pricing_ok c p) | None => false end then Rejj
    else
    let b3 := match pr with
              | Some (pd, pa, pt, pv) => bd_pv (bd_pt (bd_pa (bd_pd b2 pd) pa) pt) pv
              | None => b2 end in
    let updated := negb (qos =? 0) || negb (depa =? 0) || (match pr with Some _ => true | None => false end) || (opt =? 1) in
    if (b_avail b3 && updated)
       && match min_deposit c s (b_pd b3) (b_pa b3) with Some m => b_dep b3 <? m | None => true end then Rejj
    else match (if depa =? 0 then Some (led s) else send (led s) owner DEP BASE depa) with
         | None => Rejj
         | Some l => Okk (if updated then with_binds (with_led s l) (set (svc, prov) b3 (binds s)) else with_led s l)
         end
  end.

Definition disable (s : state) (svc prov owner : Z) : res :=
  if negb ((0 <=? prov) && (0 <=? owner)) then Rejj
  else match get (svc, prov) (binds s) with
  | None => Rejj
  | Some b =>
    if negb (b_owner b =? owner) then Rejj
    else if negb (b_avail b) then Rejj
    else Okk (with_binds s (set (svc, prov) (bd_dis (bd_avail b false) (time s)) (binds s)))
  end.

Definition enable (c : config) (s : state) (svc prov depd depa owner : Z) : res :=
  if negb ((0 <=? prov) && (0 <=? owner) && (0 <=? depa)) then Rejj
  else match get (svc, prov) (binds s) with
  | None => Rejj
  | Some b =>
    if negb (b_owner b =? owner) then Rejj
    else if b_avail b then Rejj
    else if negb (depa =? 0) && negb (deposit_ok depd depa) then Rejj
    else
    let b1 := bd_dep b (b_dep b + depa) in
    match min_deposit c s (b_pd b1) (b_pa b1) with
    | None => Rejj
    | Some m =>
      if b_dep b1 <? m then Rejj
      else match (if depa =? 0 then Some (led s) else send (led s) owner DEP BASE depa) with
           | None => Rejj
           | Some l => Okk (with_binds (with_led s l) (set (svc, prov) (bd_dis (bd_avail b1 true) 0) (binds s)))
           end
    end
  end.

Definition refund_deposit (c : config) (s : state) (svc prov owner : Z) : res :=
  if negb ((0 <=? prov) && (0 <=? owner)) then Rejj
  else match get (svc, prov) (binds s) with
  | None => Rejj
  | Some b =>
    if negb (b_owner b =? owner) then Rejj
    else if b_avail b then Rejj
    else if b_dep b =? 0 then Rejj
    else if time s <? b_dis b + c_wait c then Rejj
    else match send (led s) DEP (b_owner b) BASE (b_dep b) with
         | None => Rejj
         | Some l => Okk (with_binds (with_led s l) (set (svc, prov) (bd_dep b 0) (binds s)))
         end
  end.

(** msgServer.SetWithdrawAddress: negative = not an address, or a blocked module account *)
Definition set_withdraw (s : state) (owner w : Z) : res :=
  if negb ((0 <=? owner) && (0 <=? w)) then Rejj
  else Okk (with_waddr s (set owner w (waddr s))).

(** ** request contexts (keeper/invocation.go) *)
Fixpoint nodupz (l : list Z) : bool :=
  match l with [] => true | x :: r => negb (existsb (Z.eqb x) r) && nodupz r end.

(** ValidateRequest (MsgCallService.ValidateBasic) *)
Definition validate_request (provs : list Z) (cons : Z) (inok : bool) (capa timeout : Z) (rep : bool) (freq total : Z) : bool :=
  (0 <=? cons) && forallb (Z.leb 0) provs && (0 <=? capa)
  && negb (Nat.eqb (length provs) 0) && (Z.of_nat (length provs) <=? 10) && nodupz provs
  && inok && (0 <? timeout) && (0 <=? freq)
  && (negb rep || ((negb (0 <? freq) || (timeout <=? freq)) && (-1 <=? total) && negb (total =? 0))).

(** Keeper.CreateRequestContext; [st]: 0 RUNNING, 1 PAUSED; [md]: module-owned; returns the id *)
Definition create_context (c : config) (s : state) (txh svc : Z) (provs : list Z) (cons : Z) (inok : bool)
    (capd capa timeout : Z) (rep : bool) (freq total st thr : Z) (md : bool) : option (state * ctxid) :=
  if md && negb (validate_request provs cons inok capa timeout rep freq total
                 && (1 <=? thr) && (thr <=? Z.of_nat (length provs))) then None
  else if negb (existsb (Z.eqb svc) (defs s)) then None
  else if negb inok then None
  else if negb ((0 <? capa) && (capd =? BASE)) then None
  else if c_maxto c <? timeout then None
  else
  let freq' := if rep then (if freq =? 0 then timeout else freq) else 0 in
  let total' := if rep then total else 0 in
  let x := mkCtx svc provs cons capa timeout rep freq' total' 0 0 0 thr false st thr md in
  let id := (txh, iidx s) in
  let s1 := with_iidx (with_ctxs s (set id x (ctxs s))) (iidx s + 1) in
  Some (if st =? 0
        then with_newmark (with_newq s1 (q_add (height s, id) (newq s1))) (set id (height s) (newmark s1))
        else s1, id).

Definition call (c : config) (s : state) (txh svc : Z) (provs : list Z) (cons : Z) (inok : bool)
    (capd capa timeout : Z) (rep : bool) (freq total : Z) : res :=
  if negb (validate_request provs cons inok capa timeout rep freq total) then Rejj
  else match create_context c s txh svc provs cons inok capd capa timeout rep freq total 0 0 false with
       | Some (s', _) => Okk s'
       | None => Rejj
       end.

(** Keeper.CheckAuthority *)
Definition check_authority (s : state) (cons : Z) (id : ctxid) (check_module : bool) : bool :=
  match get id (ctxs s) with
  | None => false
  | Some x => (x_cons x =? cons) && negb (check_module && x_mod x)
  end.

(** Keeper.PauseRequestContext / StartRequestContext / KillRequestContext *)
Definition k_pause (s : state) (id : ctxid) (cons : Z) : res :=
  match get id (ctxs s) with
  | None => Rejj
  | Some x =>
    if x_mod x && negb (check_authority s cons id false) then Rejj
    else if negb (x_rep x) then Rejj
    else if negb (x_state x =? 0) then Rejj
    else Okk (with_ctxs s (set id (cx_state x 1) (ctxs s)))
  end.

Definition k_start (s : state) (id : ctxid) (cons : Z) : res :=
  match get id (ctxs s) with
  | None => Rejj
  | Some x =>
    if x_mod x && negb (check_authority s cons id false) then Rejj
    else if negb (x_state x =? 1) then Rejj
    else
    let s1 := with_ctxs s (set id (cx_state x 0) (ctxs s)) in
    Okk (if negb (has id (expmark s1)) && negb (has id (newmark s1))
         then with_newmark (with_newq s1 (q_add (height s, id) (newq s1))) (set id (height s) (newmark s1))
         else s1)
  end.

Definition k_kill (s : state) (id : ctxid) (cons : Z) : res :=
  match get id (ctxs s) with
  | None => Rejj
  | Some x =>
    if x_mod x && negb (check_authority s cons id false) then Rejj
    else if negb (x_rep x) then Rejj
    else Okk (with_ctxs s (set id (cx_state x 2) (ctxs s)))
  end.

(** Keeper.UpdateRequestContext for a context that is not module-owned (the only kind a
    message can reach), after MsgUpdateRequestContext.ValidateBasic *)
Definition update_context (c : config) (s : state) (id : ctxid) (provs : list Z) (capd capa timeout freq total cons : Z) : res :=
  if negb ((0 <=? cons) && forallb (Z.leb 0) provs && (Z.of_nat (length provs) <=? 10) && nodupz provs
           && (0 <=? capa) && (0 <=? timeout) && (0 <=? freq)
           && negb (negb (timeout =? 0) && negb (freq =? 0) && (freq <? timeout)) && (-1 <=? total)) then Rejj
  else if negb (check_authority s cons id true) then Rejj
  else match get id (ctxs s) with
  | None => Rejj
  | Some x =>
    if x_state x =? 2 then Rejj
    else if negb (capa =? 0) && negb (capd =? BASE) then Rejj
    else
    let x1 := if capa =? 0 then x else cx_cap x capa in
    if c_maxto c <? timeout then Rejj
    else
    let timeout' := if timeout =? 0 then x_timeout x1 else timeout in
    let freq' := if freq =? 0 then x_freq x1 else freq in
    if freq' <? timeout' then Rejj
    else if (1 <=? total) && (total <? x_batch x1) then Rejj
    else
    let x2 := match provs with [] => x1 | _ => cx_provs x1 provs end in
    let x3 := if 0 <? timeout' then cx_timeout x2 timeout' else x2 in
    let x4 := if 0 <? freq' then cx_freq x3 freq' else x3 in
    let x5 := if total =? 0 then x4 else cx_total x4 total in
    Okk (with_ctxs s (set id x5 (ctxs s)))
  end.

Definition msg_ctl (s : state) (id : ctxid) (cons : Z) (f : state -> ctxid -> Z -> res) : res :=
  if negb (0 <=? cons) then Rejj
  else if negb (check_authority s cons id true) then Rejj
  else f s id cons.

(** ** responses and fees (AddResponse, keeper/fees.go) *)
Definition n_outputs (s : state) (id : ctxid) (batch : Z) : Z :=
  Z.of_nat (length (filter (fun e : reqid * request =>
     let '(i, b, _, _) := fst e in eqb i id && (b =? batch) && (q_resp (snd e) =? 2)) (reqs s))).

(** Keeper.Callback: reads the stored context *)
Definition callback (s : state) (id : ctxid) : state :=
  match get id (ctxs s) with
  | None => s
  | Some x => let n := n_outputs s id (x_batch x) in
              with_cblog s (cblog s ++ [(0, id, x_batch x, n, if x_bthr x <=? n then 1 else 0)])
  end.

(** Keeper.AddEarnedFee *)
Definition add_earned_fee (c : config) (s : state) (prov fd fee : Z) : option state :=
  let tax := dec_truncate_int (dec_mul (dec_of_int fee) (c_tax c)) in
  match send (led s) REQ TAX fd tax with
  | None => None
  | Some l =>
    if fee <? tax then None
    else
    let e := fee - tax in
    let o := match get prov (owners s) with Some o => o | None => -9 end in
    Some (with_oearned (with_earned (with_led s l) (addz (prov, fd) e (earned s))) (addz (o, fd) e (oearned s)))
  end.

(** msgServer.RespondService / Keeper.AddResponse; kind: 0 = result code 400 without output,
    1 = code 200 with an output, 2 = malformed result (fails ValidateBasic) *)
Definition respond (c : config) (s : state) (rid : reqid) (prov kind : Z) : res :=
  let '(id, batch, _, _) := rid in
  if negb ((0 <=? prov) && negb (kind =? 2)) then Rejj
  else match get rid (reqs s), get id (ctxs s) with
  | Some q, Some x =>
    if negb (q_prov q =? prov) then Rejj
    else if negb (q_active q) then Rejj
    else match add_earned_fee c s prov (q_fd q) (q_fee q) with
    | None => Rejj
    | Some s1 =>
      let s2 := with_reqs s1 (set rid (rq_resp (rq_active q false) (if kind =? 1 then 2 else 1)) (reqs s1)) in
      let vk := (x_cons x, x_svc x, prov) in
      let s3 := with_g_out (with_vols s2 (set vk (getz vk (vols s2) + 1) (vols s2))) (g_out s2 ++ [(rid, 1)]) in
      let x1 := cx_bresp x (x_bresp x + 1) in
      if x_bresp x1 =? x_breq x1 then
        let s4 := if x_mod x1 then callback s3 id else s3 in
        Okk (with_ctxs s4 (set id (cx_brun x1 false) (ctxs s4)))
      else Okk (with_ctxs s3 (set id x1 (ctxs s3)))
    end
  | _, _ => Rejj
  end.

(** Keeper.WithdrawEarnedFees through MsgWithdrawEarnedFees (an empty provider string does not
    parse, so the "all providers" branch is unreachable by message) *)
Definition withdraw (s : state) (owner prov : Z) : res :=
  if negb ((0 <=? owner) && (0 <=? prov)) then Rejj
  else match get prov (owners s) with
  | None => Rejj
  | Some o =>
    if negb (o =? owner) then Rejj
    else
    let ef := coins_of prov (earned s) in
    let oe := coins_of owner (oearned s) in
    let oearned' :=
      if coins_equal ef oe then Some (del_acct owner (oearned s))
      else match coins_sub oe ef with
           | None => None
           (* DeleteOwnerEarnedFees, then SetOwnerEarnedFees of what remains *)
           | Some rem => Some (set_coins owner rem (del_acct owner (oearned s)))
           end in
    match oearned' with
    | None => Abortt
    | Some oe' =>
      let w := match get owner (waddr s) with Some a => a | None => owner end in
      match send_all (led s) REQ w ef with
      | None => Rejj
      | Some l => Okk (with_oearned (with_earned (with_led s l) (del_acct prov (earned s))) oe')
      end
    end
  end.

(** ** end blocker (abci.go) *)

(** Keeper.Slash *)
Definition slash (c : config) (s : state) (svc prov : Z) : state :=
  match get (svc, prov) (binds s) with
  | None => s
  | Some b =>
    let amt := dec_truncate_int (dec_mul (dec_of_int (b_dep b)) (c_slash c)) in
    if b_dep b <? amt then s
    else match send (led s) DEP TAX BASE amt with
    | None => s
    | Some l =>
      let b1 := bd_dep b (b_dep b - amt) in
      let b2 := if b_avail b1 then
                  match min_deposit c s (b_pd b1) (b_pa b1) with
                  | Some m => if m <=? b_dep b1 then b1 else bd_dis (bd_avail b1 false) (time s)
                  | None => bd_dis (bd_avail b1 false) (time s)
                  end
                else b1 in
      with_binds (with_led s l) (set (svc, prov) b2 (binds s))
    end
  end.

(** expiredRequestHandler: slash, refund, deactivate (errors of the first two are ignored) *)
Definition expire_request (c : config) (x : context) (s : state) (e : reqid * request) : state :=
  let '(rid, q) := e in
  let s1 := slash c s (x_svc x) (q_prov q) in
  let s2 := match send (led s1) REQ (x_cons x) (q_fd q) (q_fee q) with
            | Some l => with_led s1 l
            | None => s1
            end in
  with_g_out (with_reqs s2 (set rid (rq_active q false) (reqs s2))) (g_out s2 ++ [(rid, 2)]).

Definition in_batch (id : ctxid) (batch : Z) (e : reqid * request) : bool :=
  let '(i, b, _, _) := fst e in eqb i id && (b =? batch).

(** expiredRequestBatchHandler *)
Definition expired_batch_handler (c : config) (s : state) (id : ctxid) : state :=
  let h := height s in
  match get id (ctxs s) with
  | None => s
  | Some x =>
    let '(s1, x1) :=
      if x_brun x then
        let act := filter (fun e => in_batch id (x_batch x) e && q_active (snd e)) (reqs s) in
        let s' := fold_left (expire_request c x) act s in
        (if x_mod x then callback s' id else s', cx_brun x false)
      else (s, x) in
    let s2 := with_expmark (with_expq s1 (q_del (h, id) (expq s1))) (del id (expmark s1)) in
    let s3 := with_ctxs s2 (set id x1 (ctxs s2)) in
    let s4 := if x_state x1 =? 2 then with_ctxs s3 (del id (ctxs s3)) else s3 in
    let s5 := if x_state x1 =? 0 then
                if x_rep x1 && ((x_total x1 <? 0) || (x_batch x1 <? x_total x1)) then
                  let nh := h - x_timeout x1 + x_freq x1 in
                  with_newmark (with_newq s4 (q_add (nh, id) (newq s4))) (set id nh (newmark s4))
                else with_ctxs s4 (del id (ctxs s4))
              else s4 in
    (* CleanBatch *)
    with_reqs s5 (filter (fun e => negb (in_batch id (x_batch x1) e)) (reqs s5))
  end.

(** Keeper.FilterServiceProviders: [None] = exchange-rate error; otherwise the providers that
    pass (the total it also returns is no longer used by the end blocker) *)
Fixpoint filter_provs (s : state) (x : context) (ps : list Z) : option (list Z) :=
  match ps with
  | [] => Some []
  | p :: r =>
    match get (x_svc x, p) (binds s) with
    | Some b =>
      if b_avail b && (b_qos b <=? x_timeout x) then
        let dp := disc_price b (time s) (getz (x_cons x, x_svc x, p) (vols s)) in
        match (if b_pd b =? BASE then Some dp
               else match rate_of s (b_pd b) with Some rt => Some (dec_mul dp rt) | None => None end) with
        | None => None
        | Some rp =>
          match filter_provs s x r with
          | None => None
          | Some ps' => if dec_truncate_int rp <=? x_cap x then Some (p :: ps') else Some ps'
          end
        end
      else filter_provs s x r
    | None => filter_provs s x r
    end
  end.

(** the fee one provider charges the consumer now (Keeper.GetPrice): denom and amount; a zero
    fee is the empty coin set *)
Definition fee_of (s : state) (x : context) (p : Z) : Z * Z :=
  match get (x_svc x, p) (binds s) with
  | Some b => (b_pd b, get_price b (time s) (getz (x_cons x, x_svc x, p) (vols s)))
  | None => (BASE, 0)
  end.

(** Keeper.GetTotalServiceFees: what the consumer is charged for a batch addressed to [ps] *)
Fixpoint total_fees (s : state) (x : context) (ps : list Z) : list (Z * Z) :=
  match ps with
  | [] => []
  | p :: r => let '(fd, fee) := fee_of s x p in
              if fee =? 0 then total_fees s x r else coins_add fd fee (total_fees s x r)
  end.

(** the compact requests of a new batch (InitiateRequests / buildRequest) *)
Fixpoint mk_requests (s : state) (x : context) (id : ctxid) (batch : Z) (i : Z) (ps : list Z) : list (reqid * request) :=
  match ps with
  | [] => []
  | p :: r =>
    let '(fd, fee) := fee_of s x p in
    (* a zero fee is the empty coin set: it carries no denom *)
    ((id, batch, height s, i), mkReq p (if fee =? 0 then BASE else fd) fee (height s) (height s + x_timeout x) true 0)
      :: mk_requests s x id batch (i + 1) r
  end.

Definition add_expiration (s : state) (id : ctxid) (h : Z) : state :=
  with_expmark (with_expq s (q_add (h, id) (expq s))) (set id h (expmark s)).

Definition initiate (s : state) (id : ctxid) (x : context) (ps : list Z) : state :=
  let batch := x_batch x + 1 in
  let rs := mk_requests s x id batch 0 ps in
  let x' := cx_bthr (cx_breq (cx_bresp (cx_brun (cx_batch x batch) true) 0) (Z.of_nat (length ps))) (x_thr x) in
  let s1 := with_reqs s (fold_left (fun m e => set (fst e) (snd e) m) rs (reqs s)) in
  let s2 := with_ctxs s1 (set id x' (ctxs s1)) in
  with_g_batches (add_expiration s2 id (height s + x_timeout x)) (g_batches s2 ++ [(id, batch, height s)]).

(** Keeper.SkipCurrentRequestBatch *)
Definition skip_batch (s : state) (id : ctxid) (x : context) : state :=
  let batch := x_batch x + 1 in
  let x' := cx_bthr (cx_bresp (cx_breq (cx_brun (cx_batch x batch) true) 0) 0) (x_thr x) in
  let s1 := with_ctxs s (set id x' (ctxs s)) in
  with_g_batches (add_expiration s1 id (height s + x_timeout x)) (g_batches s1 ++ [(id, batch, height s)]).

(** Keeper.OnRequestContextPaused *)
Definition on_paused (s : state) (id : ctxid) (x : context) : state :=
  let s1 := with_ctxs s (set id (cx_state (cx_brun x false) 1) (ctxs s)) in
  if x_mod x then with_cblog s1 (cblog s1 ++ [(1, id, x_batch x, 0, 0)]) else s1.

Definition dequeue_new (s : state) (id : ctxid) : state :=
  with_newmark (with_newq s (q_del (height s, id) (newq s))) (del id (newmark s)).

(** newRequestBatchHandler *)
Definition new_batch_handler (s : state) (id : ctxid) : state :=
  match get id (ctxs s) with
  | None => s
  | Some x =>
    if x_state x =? 0 then
      match filter_provs s x (x_provs x) with
      | None => dequeue_new (skip_batch s id x) id   (* no provider can be priced: the batch is skipped *)
      | Some ps =>
        let n := Z.of_nat (length ps) in
        if (0 <? n) && (x_thr x <=? n) then
          (* GetTotalServiceFees, DeductServiceFees (all or nothing) *)
          let tot := total_fees s x ps in
          match debit_all (led s) (x_cons x) tot with
          | None => dequeue_new (on_paused s id x) id
          | Some l => dequeue_new (initiate (with_led s (credit_all l REQ tot)) id x ps) id
          end
        else dequeue_new (skip_batch s id x) id
      end
    else dequeue_new s id
  end.

(** EndBlocker, then the next block opens (BeginBlocker resets the internal index) *)
Definition end_block (c : config) (s : state) (dt : Z) : state :=
  let s1 := fold_left (expired_batch_handler c) (due (height s) (expq s)) s in
  let s2 := fold_left new_batch_handler (due (height s1) (newq s1)) s1 in
  with_iidx (with_time (with_height s2 (height s2 + 1)) (time s2 + dt)) 0.

(** ** a call to a service served by a module (msgServer.CallService, second branch;
    Keeper.RequestModuleService).  The context is created for the module's provider alone, with
    timeout 1, not repeated; the call is rejected unless that provider passes the filter; the fee
    its request will record is deducted (GetTotalServiceFees), ONE request is initiated for that provider
    (InitiateRequests: no expiry is registered), the module answers at once (AddResponse), and the
    context is stored COMPLETED from the copy read before the request was initiated. *)
Definition initiate_ms (s : state) (id : ctxid) (x : context) (ps : list Z) : state :=
  let batch := x_batch x + 1 in
  let rs := mk_requests s x id batch 0 ps in
  let x' := cx_bthr (cx_breq (cx_bresp (cx_brun (cx_batch x batch) true) 0) (Z.of_nat (length ps))) (x_thr x) in
  let s1 := with_reqs s (fold_left (fun m e => set (fst e) (snd e) m) rs (reqs s)) in
  with_ctxs s1 (set id x' (ctxs s1)).

Definition call_module (c : config) (s : state) (txh svc : Z) (provs : list Z) (cons : Z) (inok : bool)
    (capd capa timeout : Z) (rep : bool) (freq total : Z) : res :=
  if negb (validate_request provs cons inok capa timeout rep freq total) then Rejj
  else match create_context c s txh svc [c_mprov c] cons inok capd capa 1 false 0 0 0 0 false with
  | None => Rejj
  | Some (s1, id) =>
    match get id (ctxs s1) with
    | None => Rejj
    | Some x =>
      match filter_provs s1 x (x_provs x) with
      | None | Some [] => Rejj       (* no rate / the module's provider does not satisfy the request *)
      | Some (_ :: _) =>
        (* GetTotalServiceFees of the module's provider: what its request records *)
        let tot := total_fees s1 x [c_mprov c] in
        match debit_all (led s1) (x_cons x) tot with
        | None => Rejj
        | Some l =>
          let s2 := initiate_ms (with_led s1 (credit_all l REQ tot)) id x [c_mprov c] in
          match respond c s2 (id, x_batch x + 1, height s, 0) (c_mprov c) 1 with
          | Okk s3 => Okk (with_ctxs s3 (set id (cx_state x 2) (ctxs s3)))
          | _ => Rejj
          end
        end
      end
    end
  end.

(** ** messages and steps *)
Inductive msg :=
| MDefine (author svc : Z) (ok : bool)
| MBind (svc prov depd depa : Z) (pr : pricing) (qos : Z) (optok : bool) (owner : Z)
| MUpdateBinding (svc prov depd depa : Z) (pr : option pricing) (qos opt owner : Z)
| MSetWithdraw (owner w : Z)
| MEnable (svc prov depd depa owner : Z)
| MDisable (svc prov owner : Z)
| MRefundDeposit (svc prov owner : Z)
| MCall (svc : Z) (provs : list Z) (cons : Z) (inok : bool) (capd capa timeout : Z) (rep : bool) (freq total : Z)
| MRespond (rid : reqid) (prov kind : Z)
| MPause (id : ctxid) (cons : Z)
| MStart (id : ctxid) (cons : Z)
| MKill (id : ctxid) (cons : Z)
| MUpdateCtx (id : ctxid) (provs : list Z) (capd capa timeout freq total cons : Z)
| MWithdraw (owner prov : Z).

(** the messages of a chain on which no module serves a service itself *)
Definition exec_msg_plain (c : config) (s : state) (txh : Z) (m : msg) : res :=
  match m with
  | MDefine a svc ok => define s a svc ok
  | MBind svc p dd da pr qos o ow => bind c s svc p dd da pr qos o ow
  | MUpdateBinding svc p dd da pr qos o ow => update_binding c s svc p dd da pr qos o ow
  | MSetWithdraw o w => set_withdraw s o w
  | MEnable svc p dd da o => enable c s svc p dd da o
  | MDisable svc p o => disable s svc p o
  | MRefundDeposit svc p o => refund_deposit c s svc p o
  | MCall svc ps cn io cd ca t r f tl => call c s txh svc ps cn io cd ca t r f tl
  | MRespond rid p k => respond c s rid p k
  | MPause id cn => msg_ctl s id cn k_pause
  | MStart id cn => msg_ctl s id cn k_start
  | MKill id cn => msg_ctl s id cn k_kill
  | MUpdateCtx id ps cd ca t f tl cn => update_context c s id ps cd ca t f tl cn
  | MWithdraw o p => withdraw s o p
  end.

(** is [svc] served by a module (GetModuleServiceByServiceName)? *)
Definition module_served (c : config) (svc : Z) : bool := (0 <=? c_msvc c) && (svc =? c_msvc c).

Definition exec_msg (c : config) (s : state) (txh : Z) (m : msg) : res :=
  match m with
  | MBind svc p dd da pr qos o ow =>
      (* msgServer.BindService: a service served by a module cannot be bound by message *)
      if module_served c svc then Rejj else bind c s svc p dd da pr qos o ow
  | MCall svc ps cn io cd ca t r f tl =>
      if module_served c svc then call_module c s txh svc ps cn io cd ca t r f tl
      else call c s txh svc ps cn io cd ca t r f tl
  | _ => exec_msg_plain c s txh m
  end.

Inductive step :=
| Tx (txh : Z) (m : msg)
| EndBlock (dt : Z)
| SetRate (d : Z) (r : option Z)
| Transfer (from to d amt : Z)
(* keeper-level calls made by a module that owns contexts (module name registered for callbacks) *)
| ModCreate (txh svc : Z) (provs : list Z) (cons : Z) (capa timeout : Z) (rep : bool) (freq total st thr : Z)
| ModPause (id : ctxid) (cons : Z)
| ModStart (id : ctxid) (cons : Z)
| ModKill (id : ctxid) (cons : Z)
(* Keeper.AddServiceBinding called by the module that serves the service (or a binding it brought in its genesis) *)
| ModBind (svc prov depd depa : Z) (pr : pricing) (qos : Z) (owner : Z).

Definition exec_step (c : config) (s : state) (st : step) : res :=
  match st with
  | Tx txh m => exec_msg c s txh m
  | EndBlock dt => if 0 <=? dt then Okk (end_block c s dt) else Rejj
  | SetRate d r => Okk (with_rates s (match r with Some v => set d v (rates s) | None => del d (rates s) end))
  | Transfer f t d a =>
      if (0 <=? f) && (0 <=? t) then
        match send (led s) f t d a with Some l => Okk (with_led s l) | None => Rejj end
      else Rejj
  | ModCreate txh svc ps cn ca t r f tl st thr =>
      match create_context c s txh svc ps cn true BASE ca t r f tl st thr true with
      | Some (s', _) => Okk s'
      | None => Rejj
      end
  | ModPause id cn => k_pause s id cn
  | ModStart id cn => k_start s id cn
  | ModKill id cn => k_kill s id cn
  | ModBind svc p dd da pr qos ow => bind c s svc p dd da pr qos true ow
  end.

Definition apply (c : config) (s : state) (st : step) : state :=
  match exec_step c s st with Okk s' => s' | _ => s end.

Fixpoint run (c : config) (s : state) (steps : list step) : state :=
  match steps with [] => s | st :: r => run c (apply c s st) r end.
