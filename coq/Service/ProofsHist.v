(** * Service: invariants over arbitrary histories ([run] = fold of [apply] over any list of
    steps, from any initial height / time / ledger). *)
From Irismod Require Import Service.Model Service.Proofs.

(** ** generic helpers *)
Lemma fold_left_inv {A B} (P : A -> Prop) (f : A -> B -> A) :
  (forall a b, P a -> P (f a b)) -> forall l a, P a -> P (fold_left f l a).
Proof. intros H l. induction l as [|b l IH]; simpl; intros a Ha; [exact Ha|]. apply IH. apply H. exact Ha. Qed.

Lemma run_inv (P : state -> Prop) c :
  (forall s st, P s -> P (apply c s st)) -> forall steps s, P s -> P (run c s steps).
Proof. intros H steps. induction steps as [|st steps IH]; simpl; intros s Hs; [exact Hs|]. apply IH. apply H. exact Hs. Qed.

Section MapFacts.
  Context {K V : Type} `{EqDec K}.

  Lemma keys_set_in (k k' : K) (v : V) (m : amap K V) : In k' (keys (set k v m)) -> k' = k \/ In k' (keys m).
  Proof.
    induction m as [|[k0 v0] m IH]; simpl.
    - intros [E|[]]. left. congruence.
    - destruct (eq_dec k k0) as [->|Hne]; simpl.
      + intros [E|Hin]; [left; congruence|right; right; exact Hin].
      + intros [E|Hin]; [right; left; exact E|]. destruct (IH Hin) as [E|Hin']; [left; exact E|right; right; exact Hin'].
  Qed.

  Lemma get_Some_keys (k : K) (v : V) (m : amap K V) : get k m = Some v -> In k (keys m).
  Proof. intros Hg. apply get_In in Hg. apply (in_map fst) in Hg. exact Hg. Qed.

  Lemma In_get_NoDup (k : K) (v : V) (m : amap K V) : NoDup (keys m) -> In (k, v) m -> get k m = Some v.
  Proof.
    induction m as [|[k0 v0] m IH]; simpl; [tauto|]. intros Hnd Hin. inversion Hnd as [|? ? Hnot Hnd']; subst.
    destruct (eq_dec k k0) as [->|Hne].
    - destruct Hin as [E|Hin]; [congruence|]. exfalso. apply Hnot. apply (in_map fst) in Hin. exact Hin.
    - destruct Hin as [E|Hin]; [congruence|]. apply IH; assumption.
  Qed.

  Lemma keys_filter_in (f : K * V -> bool) (k : K) (m : amap K V) : In k (keys (filter f m)) -> In k (keys m).
  Proof.
    unfold keys. intros Hin. apply in_map_iff in Hin. destruct Hin as (e & E & Hin). apply filter_In in Hin.
    apply in_map_iff. exists e. tauto.
  Qed.

  Lemma keys_filter_NoDup (f : K * V -> bool) (m : amap K V) : NoDup (keys m) -> NoDup (keys (filter f m)).
  Proof.
    induction m as [|[k0 v0] m IH]; simpl; [intros; constructor|]. intros Hnd. inversion Hnd as [|? ? Hnot Hnd']; subst.
    destruct (f (k0, v0)); simpl; [|apply IH; exact Hnd'].
    constructor; [|apply IH; exact Hnd']. intros Hin. apply Hnot. apply (keys_filter_in f). exact Hin.
  Qed.

  Lemma get_filter_NoDup (f : K * V -> bool) (k : K) (v : V) (m : amap K V) :
    NoDup (keys m) -> get k (filter f m) = Some v -> get k m = Some v.
  Proof.
    intros Hnd Hg. apply In_get_NoDup; [exact Hnd|]. apply get_In in Hg. apply filter_In in Hg. tauto.
  Qed.
End MapFacts.

Lemma NoDup_snoc {A} (l : list A) (x : A) : NoDup l -> ~ In x l -> NoDup (l ++ [x]).
Proof.
  induction l as [|y l IH]; simpl; intros Hnd Hnot; [constructor; [tauto|constructor]|].
  inversion Hnd as [|? ? Hy Hnd']; subst. constructor.
  - intros Hin. apply in_app_or in Hin. destruct Hin as [Hin|[E|[]]]; [tauto|]. subst. tauto.
  - apply IH; [exact Hnd'|tauto].
Qed.

(** ** C08: at most one outcome per request, over every history *)
Definition rid_h (r : reqid) : Z := let '(_, _, h, _) := r in h.
Definition outs (s : state) : list reqid := map fst (g_out s).

Record OutInv (strict : bool) (s : state) : Prop := {
  oi_keys : NoDup (keys (reqs s));
  oi_nodup : NoDup (outs s);
  oi_inactive : forall rid q, In rid (outs s) -> get rid (reqs s) = Some q -> q_active q = false;
  oi_outh : forall rid, In rid (outs s) -> rid_h rid < height s;
  oi_reqh : forall rid, In rid (keys (reqs s)) -> if strict then rid_h rid < height s else rid_h rid <= height s
}.

Definition same_rq (s s' : state) : Prop := reqs s' = reqs s /\ g_out s' = g_out s /\ height s' = height s.

Lemma same_rq_refl s : same_rq s s.
Proof. repeat split. Qed.
Lemma same_rq_trans s1 s2 s3 : same_rq s1 s2 -> same_rq s2 s3 -> same_rq s1 s3.
Proof. unfold same_rq. intros (A & B & C) (D & E & F). repeat split; congruence. Qed.

Lemma OutInv_same b s s' : same_rq s s' -> OutInv b s -> OutInv b s'.
Proof.
  intros (R & G & Hh) [I1 I2 I3 I4 I5]. unfold outs in *.
  constructor; unfold outs; rewrite ?R, ?G, ?Hh; assumption.
Qed.

Lemma OutInv_weaken s : OutInv true s -> OutInv false s.
Proof. intros [I1 I2 I3 I4 I5]. constructor; try assumption. intros rid Hin. specialize (I5 rid Hin). simpl in *. lia. Qed.

(** every message except a response leaves requests, outcome log and height alone *)
Ltac dm H := match type of H with context [match ?g with _ => _ end] => destruct g; try discriminate end.
Ltac frame H := repeat dm H; inversion H; subst; repeat split; reflexivity.

Lemma create_context_same c s txh svc provs cons inok capd capa timeout rep freq total st thr md s' id :
  create_context c s txh svc provs cons inok capd capa timeout rep freq total st thr md = Some (s', id) -> same_rq s s'.
Proof. unfold create_context. intros H. frame H. Qed.

Lemma exec_msg_same c s txh m s' :
  exec_msg_plain c s txh m = Okk s' ->
  match m with MRespond _ _ _ => True | _ => same_rq s s' end.
Proof.
  intros H. destruct m; simpl in H; try exact I.
  - unfold define in H. frame H.
  - unfold bind in H. frame H.
  - unfold update_binding in H. frame H.
  - unfold set_withdraw in H. frame H.
  - unfold enable in H. frame H.
  - unfold disable in H. frame H.
  - unfold refund_deposit in H. frame H.
  - unfold call in H. destruct (negb _); [discriminate|].
    destruct (create_context _ _ _ _ _ _ _ _ _ _ _ _ _ _ _ _) as [[s1 id]|] eqn:E; [|discriminate].
    inversion H; subst. eapply create_context_same. exact E.
  - unfold msg_ctl, k_pause in H. frame H.
  - unfold msg_ctl, k_start in H. frame H.
  - unfold msg_ctl, k_kill in H. frame H.
  - unfold update_context in H. frame H.
  - unfold withdraw in H. frame H.
Qed.

Lemma respond_struct c s rid prov kind s' :
  respond c s rid prov kind = Okk s' ->
  exists q q', get rid (reqs s) = Some q /\ q_active q = true /\ q_active q' = false
    /\ reqs s' = set rid q' (reqs s) /\ g_out s' = g_out s ++ [(rid, 1)] /\ height s' = height s.
Proof.
  intros H. unfold respond in H. destruct rid as [[[id batch] hh] ii].
  destruct ((0 <=? prov) && negb (kind =? 2)); cbv beta iota zeta delta [negb] in H; [|discriminate].
  match type of H with context [@get reqid request ?i ?k (reqs s)] =>
    destruct (@get reqid request i k (reqs s)) as [q|] eqn:Eq end; [|discriminate].
  destruct (get id (ctxs s)) as [x|] eqn:Ex; [|discriminate].
  destruct (q_prov q =? prov) eqn:Ep; cbv beta iota zeta delta [negb] in H; [|discriminate].
  destruct (q_active q) eqn:Ea; cbv beta iota zeta delta [negb] in H; [|discriminate].
  destruct (add_earned_fee c s prov (q_fd q) (q_fee q)) as [s1|] eqn:Ef; [|discriminate].
  destruct (add_earned_fee_spec _ _ _ _ _ _ Ef) as (_ & _ & _ & _ & R1 & _ & _ & R4 & R5 & _).
  exists q, (rq_resp (rq_active q false) (if kind =? 1 then 2 else 1)).
  split; [reflexivity|]. split; [exact Ea|]. split; [reflexivity|].
  destruct (x_bresp (cx_bresp x (x_bresp x + 1)) =? x_breq (cx_bresp x (x_bresp x + 1)));
    [destruct (x_mod (cx_bresp x (x_bresp x + 1)))|]; inversion H; subst s'; clear H; simpl.
  - unfold callback. simpl. destruct (get id (ctxs s1)); simpl; rewrite R1, R4, R5; repeat split.
  - rewrite R1, R4, R5; repeat split.
  - rewrite R1, R4, R5; repeat split.
Qed.

Lemma OutInv_respond c s rid prov kind s' :
  respond c s rid prov kind = Okk s' -> OutInv true s -> OutInv true s'.
Proof.
  intros H [I1 I2 I3 I4 I5]. destruct (respond_struct _ _ _ _ _ _ H) as (q & q' & Hq & Ha & Ha' & R & G & Hh).
  assert (Hnot : ~ In rid (outs s)).
  { intros Hin. specialize (I3 rid q Hin Hq). congruence. }
  assert (Hk : In rid (keys (reqs s))) by (eapply get_Some_keys; exact Hq).
  assert (Ho : outs s' = outs s ++ [rid]).
  { unfold outs. rewrite G, map_app. reflexivity. }
  constructor; rewrite ?Ho, ?R, ?Hh.
  - apply keys_set_NoDup. exact I1.
  - apply NoDup_snoc; assumption.
  - intros rid0 q0 Hin Hg. destruct (eq_dec rid0 rid) as [->|Hne].
    + rewrite get_set_same in Hg. inversion Hg; subst. exact Ha'.
    + rewrite get_set_other in Hg by exact Hne. apply in_app_or in Hin. destruct Hin as [Hin|[E|[]]]; [|congruence].
      eapply I3; eassumption.
  - intros rid0 Hin. apply in_app_or in Hin. destruct Hin as [Hin|[E|[]]]; [apply I4; exact Hin|].
    subst rid0. apply (I5 rid Hk).
  - intros rid0 Hin. apply keys_set_in in Hin. destruct Hin as [->|Hin]; [apply (I5 rid Hk)|apply (I5 rid0 Hin)].
Qed.

(** *** the end blocker *)
Lemma slash_same c s svc prov : same_rq s (slash c s svc prov).
Proof.
  unfold slash. destruct (get _ (binds s)) as [b|]; [|apply same_rq_refl].
  destruct (b_dep b <? _); [apply same_rq_refl|]. destruct (send _ _ _ _ _); repeat split.
Qed.

Lemma expire_struct c x s rid q :
  let s' := expire_request c x s (rid, q) in
  reqs s' = set rid (rq_active q false) (reqs s) /\ g_out s' = g_out s ++ [(rid, 2)] /\ height s' = height s.
Proof.
  cbv zeta. unfold expire_request. destruct (slash_same c s (x_svc x) (q_prov q)) as (R & G & Hh).
  destruct (send _ _ _ _ _); simpl; rewrite R, G, Hh; repeat split.
Qed.

Lemma OutInv_expire c x s rid q :
  OutInv true s -> In rid (keys (reqs s)) -> ~ In rid (outs s) -> OutInv true (expire_request c x s (rid, q)).
Proof.
  intros [I1 I2 I3 I4 I5] Hk Hnot. destruct (expire_struct c x s rid q) as (R & G & Hh).
  assert (Ho : outs (expire_request c x s (rid, q)) = outs s ++ [rid]).
  { unfold outs. rewrite G, map_app. reflexivity. }
  constructor; rewrite ?Ho, ?R, ?Hh.
  - apply keys_set_NoDup. exact I1.
  - apply NoDup_snoc; assumption.
  - intros rid0 q0 Hin Hg. destruct (eq_dec rid0 rid) as [->|Hne].
    + rewrite get_set_same in Hg. inversion Hg; subst. reflexivity.
    + rewrite get_set_other in Hg by exact Hne. apply in_app_or in Hin. destruct Hin as [Hin|[E|[]]]; [|congruence].
      eapply I3; eassumption.
  - intros rid0 Hin. apply in_app_or in Hin. destruct Hin as [Hin|[E|[]]]; [apply I4; exact Hin|].
    subst rid0. apply (I5 rid Hk).
  - intros rid0 Hin. apply keys_set_in in Hin. destruct Hin as [->|Hin]; [apply (I5 rid Hk)|apply (I5 rid0 Hin)].
Qed.

Lemma OutInv_expire_fold c x : forall act s,
  NoDup (map fst act) ->
  (forall e, In e act -> In (fst e) (keys (reqs s)) /\ ~ In (fst e) (outs s)) ->
  OutInv true s -> OutInv true (fold_left (expire_request c x) act s).
Proof.
  induction act as [|[rid q] act IH]; cbn [fold_left]; intros s Hnd Hall Hinv; [exact Hinv|].
  cbn [map fst] in Hnd. inversion Hnd as [|? ? Hnot Hnd']; subst.
  destruct (Hall (rid, q) (or_introl eq_refl)) as (Hk & Ho). simpl in Hk, Ho.
  destruct (expire_struct c x s rid q) as (R & G & Hh).
  apply IH; [exact Hnd'| |apply OutInv_expire; assumption].
  intros e He. destruct (Hall e (or_intror He)) as (Hk' & Ho'). split.
  - rewrite R. clear -Hk'. unfold keys in *. induction (reqs s) as [|[k0 v0] m IHm]; simpl in *; [tauto|].
    destruct (eq_dec rid k0) as [->|Hne]; simpl; [tauto|]. destruct Hk' as [E|Hin]; [left; exact E|right; apply IHm; exact Hin].
  - unfold outs. rewrite G, map_app. simpl. intros Hin. apply in_app_or in Hin. destruct Hin as [Hin|[E|[]]]; [exact (Ho' Hin)|].
    apply Hnot. rewrite E. apply in_map. exact He.
Qed.

Lemma OutInv_filter b s f : OutInv b s -> OutInv b (with_reqs s (filter f (reqs s))).
Proof.
  intros [I1 I2 I3 I4 I5]. constructor; simpl; unfold outs in *; simpl.
  - apply keys_filter_NoDup. exact I1.
  - exact I2.
  - intros rid q Hin Hg. eapply I3; [exact Hin|]. eapply get_filter_NoDup; eassumption.
  - exact I4.
  - intros rid Hin. apply I5. eapply keys_filter_in. exact Hin.
Qed.

Lemma callback_same s id : same_rq s (callback s id).
Proof. unfold callback. destruct (get id (ctxs s)); repeat split. Qed.

Lemma OutInv_expired_handler c s id : OutInv true s -> OutInv true (expired_batch_handler c s id).
Proof.
  intros Hinv. unfold expired_batch_handler. destruct (get id (ctxs s)) as [x|]; [|exact Hinv].
  set (pr := if x_brun x then _ else (s, x)).
  assert (Hpr : OutInv true (fst pr)).
  { subst pr. destruct (x_brun x); [|exact Hinv]. simpl.
    set (act := filter _ (reqs s)).
    assert (Hf : OutInv true (fold_left (expire_request c x) act s)).
    { apply OutInv_expire_fold; [| |exact Hinv].
      - subst act. apply (keys_filter_NoDup _ (reqs s)). apply (oi_keys _ _ Hinv).
      - intros [rid q] He. subst act. apply filter_In in He. destruct He as (Hin & Hact).
        apply andb_true_iff in Hact. destruct Hact as (_ & Hact). simpl in Hact. simpl. split.
        + apply (in_map fst) in Hin. exact Hin.
        + intros Ho. assert (Hg : get rid (reqs s) = Some q) by (apply In_get_NoDup; [apply (oi_keys _ _ Hinv)|exact Hin]).
          pose proof (oi_inactive _ _ Hinv rid q Ho Hg). congruence. }
    destruct (x_mod x); [|exact Hf]. eapply OutInv_same; [apply callback_same|exact Hf]. }
  destruct pr as [s1 x1]. simpl in Hpr. cbv zeta.
  match goal with |- OutInv true (with_reqs ?t (filter ?f (reqs ?t))) =>
    assert (Hs : same_rq s1 t) end.
  { destruct (x_state x1 =? 2); destruct (x_state x1 =? 0); try destruct (x_rep x1 && _); repeat split. }
  apply OutInv_filter. eapply OutInv_same; [exact Hs|exact Hpr].
Qed.

Lemma OutInv_set_new s rid q :
  OutInv false s -> rid_h rid = height s -> OutInv false (with_reqs s (set rid q (reqs s))).
Proof.
  intros [I1 I2 I3 I4 I5] Hh. constructor; simpl; unfold outs in *; simpl.
  - apply keys_set_NoDup. exact I1.
  - exact I2.
  - intros rid0 q0 Hin Hg. assert (Hne : rid0 <> rid) by (intros ->; specialize (I4 rid Hin); lia).
    rewrite get_set_other in Hg by exact Hne. eapply I3; eassumption.
  - exact I4.
  - intros rid0 Hin. apply keys_set_in in Hin. destruct Hin as [->|Hin]; [lia|apply (I5 rid0 Hin)].
Qed.

Lemma mk_requests_height s x id batch : forall ps i e, In e (mk_requests s x id batch i ps) -> rid_h (fst e) = height s.
Proof.
  induction ps as [|p ps IH]; simpl; intros i e He; [tauto|]. destruct (fee_of s x p) as [fd fee].
  destruct He as [<-|He]; [reflexivity|]. eapply IH. exact He.
Qed.

Lemma OutInv_set_fold h : forall (rs : list (reqid * request)) s,
  (forall e, In e rs -> rid_h (fst e) = h) -> height s = h -> OutInv false s ->
  OutInv false (with_reqs s (fold_left (fun m e => set (fst e) (snd e) m) rs (reqs s))).
Proof.
  induction rs as [|[rid q] rs IH]; simpl; intros s Hall Hh Hinv.
  - destruct s; exact Hinv.
  - specialize (IH (with_reqs s (set rid q (reqs s)))). simpl in IH. apply IH.
    + intros e He. apply Hall. right. exact He.
    + exact Hh.
    + apply OutInv_set_new; [exact Hinv|]. rewrite Hh. apply (Hall (rid, q)). left. reflexivity.
Qed.

Lemma OutInv_initiate s id x ps : OutInv false s -> OutInv false (initiate s id x ps).
Proof.
  intros Hinv. unfold initiate. cbv zeta.
  set (rs := mk_requests s x id (x_batch x + 1) 0 ps).
  pose proof (OutInv_set_fold (height s) rs s (fun e He => mk_requests_height s x id _ ps 0 e He) eq_refl Hinv) as H1.
  eapply OutInv_same; [|exact H1]. repeat split.
Qed.

Lemma dequeue_new_same s id : same_rq s (dequeue_new s id).
Proof. repeat split. Qed.
Lemma with_led_same s l : same_rq s (with_led s l).
Proof. repeat split. Qed.
Lemma skip_batch_same s id x : same_rq s (skip_batch s id x).
Proof. repeat split. Qed.
Lemma on_paused_same s id x : same_rq s (on_paused s id x).
Proof. unfold on_paused. destruct (x_mod x); repeat split. Qed.

Lemma OutInv_new_handler s id : OutInv false s -> OutInv false (new_batch_handler s id).
Proof.
  intros Hinv. unfold new_batch_handler. destruct (get id (ctxs s)) as [x|]; [|exact Hinv].
  destruct (x_state x =? 0); [|eapply OutInv_same; [apply dequeue_new_same|exact Hinv]].
  destruct (filter_provs s x (x_provs x)) as [ps|].
  2: { eapply OutInv_same; [apply dequeue_new_same|]. eapply OutInv_same; [apply skip_batch_same|exact Hinv]. }
  cbv zeta. destruct ((0 <? Z.of_nat (length ps)) && (x_thr x <=? Z.of_nat (length ps))).
  2: { eapply OutInv_same; [apply dequeue_new_same|]. eapply OutInv_same; [apply skip_batch_same|exact Hinv]. }
  destruct (debit_all (led s) (x_cons x) (total_fees s x ps)) as [l|].
  - eapply OutInv_same; [apply dequeue_new_same|]. apply OutInv_initiate.
    eapply OutInv_same; [apply with_led_same|exact Hinv].
  - eapply OutInv_same; [apply dequeue_new_same|]. eapply OutInv_same; [apply on_paused_same|exact Hinv].
Qed.

Lemma OutInv_end_block c s dt : OutInv true s -> OutInv true (end_block c s dt).
Proof.
  intros Hinv. unfold end_block. cbv zeta.
  set (s1 := fold_left (expired_batch_handler c) _ s).
  assert (H1 : OutInv true s1) by (subst s1; apply fold_left_inv; [intros a b; apply OutInv_expired_handler|exact Hinv]).
  set (s2 := fold_left new_batch_handler _ s1).
  assert (H2 : OutInv false s2) by (subst s2; apply fold_left_inv; [intros a b; apply OutInv_new_handler|apply OutInv_weaken; exact H1]).
  destruct H2 as [I1 I2 I3 I4 I5]. constructor; simpl; unfold outs in *; simpl; try assumption.
  - intros rid Hin. specialize (I4 rid Hin). lia.
  - intros rid Hin. specialize (I5 rid Hin). simpl in I5. lia.
Qed.

Lemma OutInv_apply c s st : c_msvc c < 0 -> OutInv true s -> OutInv true (apply c s st).
Proof.
  intros Hm Hinv. unfold apply. destruct (exec_step c s st) as [s'| |] eqn:E; try exact Hinv.
  destruct st; cbn [exec_step] in E.
  9: { change (exec_msg_plain c s 0 (MBind svc prov depd depa pr qos true owner) = Okk s') in E.
       pose proof (exec_msg_same _ _ _ _ _ E) as Hs. simpl in Hs. eapply OutInv_same; [exact Hs|exact Hinv]. }
  all: simpl in E.
  - rewrite (exec_msg_plain_eq _ _ _ _ Hm) in E. destruct m; try (pose proof (exec_msg_same _ _ _ _ _ E) as Hs; simpl in Hs; eapply OutInv_same; [exact Hs|exact Hinv]).
    simpl in E. eapply OutInv_respond; eassumption.
  - destruct (0 <=? dt); [|discriminate]. inversion E; subst. apply OutInv_end_block. exact Hinv.
  - inversion E; subst. eapply OutInv_same; [|exact Hinv]. repeat split.
  - destruct ((0 <=? from) && (0 <=? to)); [|discriminate]. destruct (send _ _ _ _ _); [|discriminate].
    inversion E; subst. eapply OutInv_same; [|exact Hinv]. repeat split.
  - destruct (create_context _ _ _ _ _ _ _ _ _ _ _ _ _ _ _ _) as [[s1 id]|] eqn:E1; [|discriminate].
    inversion E; subst. eapply OutInv_same; [eapply create_context_same; exact E1|exact Hinv].
  - unfold k_pause in E. eapply OutInv_same; [|exact Hinv]. frame E.
  - unfold k_start in E. eapply OutInv_same; [|exact Hinv]. frame E.
  - unfold k_kill in E. eapply OutInv_same; [|exact Hinv]. frame E.
Qed.

Lemma OutInv_init h0 t0 l0 : OutInv true (init h0 t0 l0).
Proof. constructor; simpl; try constructor; unfold outs; simpl; tauto. Qed.

Theorem single_outcome_lemma :
  forall c steps h0 t0 l0,
    c_msvc c < 0 ->
    let s := run c (init h0 t0 l0) steps in
    NoDup (map fst (g_out s))
    /\ (forall rid q, In rid (map fst (g_out s)) -> get rid (reqs s) = Some q -> q_active q = false).
Proof.
  intros c steps h0 t0 l0 Hm s.
  assert (H : OutInv true s) by (subst s; apply run_inv; [intros; apply OutInv_apply; assumption|apply OutInv_init]).
  split; [exact (oi_nodup _ _ H)|exact (oi_inactive _ _ H)].
Qed.

Lemma answer_only_by_addressee_lemma :
  forall c s rid prov kind s',
    respond c s rid prov kind = Okk s' ->
    exists q, get rid (reqs s) = Some q /\ q_prov q = prov /\ q_active q = true
      /\ exists q', get rid (reqs s') = Some q' /\ q_active q' = false /\ q_resp q' <> 0.
Proof.
  intros c s rid prov kind s' H. destruct (respond_ok_lemma _ _ _ _ _ _ H) as (q & A & B & C & (q' & D & E & F & _) & _).
  exists q. repeat split; try assumption. exists q'. repeat split; assumption.
Qed.

(** ** C07: the deposit escrow equals the sum of the bindings' deposits, over every history *)
Definition dep_sum (m : amap (Z * Z) binding) : Z := zsum (map (fun e : (Z * Z) * binding => b_dep (snd e)) m).
Definition dep_of (k : Z * Z) (m : amap (Z * Z) binding) : Z := match get k m with Some b => b_dep b | None => 0 end.

Lemma dep_sum_set k b m : dep_sum (set k b m) = dep_sum m - dep_of k m + b_dep b.
Proof.
  unfold dep_sum, dep_of. induction m as [|[k0 b0] m IH]; simpl; [lia|].
  destruct (eq_dec k k0) as [->|Hne]; simpl; [lia|]. rewrite IH. lia.
Qed.

Definition ctxs_ok (m : amap ctxid context) : Prop := forall id x, get id m = Some x -> 0 <= x_cons x.

Lemma ctxs_ok_set m id x : ctxs_ok m -> 0 <= x_cons x -> ctxs_ok (set id x m).
Proof.
  intros Hm Hx id' x' Hg. destruct (eq_dec id' id) as [->|Hne].
  - rewrite get_set_same in Hg. inversion Hg; subst. exact Hx.
  - rewrite get_set_other in Hg by exact Hne. eapply Hm. exact Hg.
Qed.
Lemma ctxs_ok_del m id : ctxs_ok m -> ctxs_ok (del id m).
Proof.
  intros Hm id' x' Hg. destruct (eq_dec id' id) as [->|Hne].
  - rewrite get_del_same in Hg. discriminate.
  - rewrite get_del_other in Hg by exact Hne. eapply Hm. exact Hg.
Qed.

Record DepInv (s : state) : Prop := {
  di_eq : bal (led s) DEP BASE = dep_sum (binds s);
  di_ctx : ctxs_ok (ctxs s);
  di_waddr : forall o w, get o (waddr s) = Some w -> 0 <= w;
  di_owner : forall k b, get k (binds s) = Some b -> 0 <= b_owner b
}.

(** steps that leave the bindings, the withdraw addresses and the deposit escrow balance alone *)
Definition dep_same (s s' : state) : Prop :=
  bal (led s') DEP BASE = bal (led s) DEP BASE /\ binds s' = binds s /\ waddr s' = waddr s.

Lemma DepInv_same s s' : dep_same s s' -> ctxs_ok (ctxs s') -> DepInv s -> DepInv s'.
Proof. intros (A & B & C) Hc [I1 I2 I3 I4]. constructor; rewrite ?A, ?B, ?C; assumption. Qed.

Lemma send_keeps_dep l f t d x l' : send l f t d x = Some l' -> f <> DEP -> t <> DEP -> bal l' DEP BASE = bal l DEP BASE.
Proof. intros H Hf Ht. destruct (send_Some _ _ _ _ _ _ H) as (_ & _ & _ & Ho). apply Ho; congruence. Qed.

Lemma send_all_keeps_dep cs l f t l' : send_all l f t cs = Some l' -> f <> DEP -> t <> DEP -> bal l' DEP BASE = bal l DEP BASE.
Proof.
  unfold send_all. destruct (debit_all l f cs) as [l1|] eqn:E; [|discriminate]. intros H Hf Ht. inversion H; subst.
  destruct (debit_all_bal _ _ _ _ E) as (_ & D2). destruct (credit_all_bal cs l1 t) as (_ & C2).
  rewrite C2 by congruence. apply D2. congruence.
Qed.

Lemma send_to_dep l f x l' : send l f DEP BASE x = Some l' -> f <> DEP -> bal l' DEP BASE = bal l DEP BASE + x.
Proof. intros H Hf. destruct (send_Some _ _ _ _ _ _ H) as (_ & S1 & _). apply S1. exact Hf. Qed.
Lemma send_from_dep l t x l' : send l DEP t BASE x = Some l' -> t <> DEP -> bal l' DEP BASE = bal l DEP BASE - x.
Proof. intros H Ht. destruct (send_Some _ _ _ _ _ _ H) as (_ & S1 & _). apply S1. congruence. Qed.

Ltac dme H := match type of H with context [match ?g with _ => _ end] => destruct g eqn:?; try discriminate end.
Ltac zb := repeat match goal with
  | H : (_ && _) = true |- _ => apply andb_true_iff in H; destruct H
  | H : negb _ = false |- _ => apply negb_false_iff in H
  | H : negb _ = true |- _ => apply negb_true_iff in H
  | H : (_ <=? _) = true |- _ => apply Z.leb_le in H
  | H : (_ =? _) = true |- _ => apply Z.eqb_eq in H
  | H : (_ =? _) = false |- _ => apply Z.eqb_neq in H
  end.

Lemma DepInv_bind c s svc prov depd depa pr qos optok owner s' :
  bind c s svc prov depd depa pr qos optok owner = Okk s' -> DepInv s -> DepInv s'.
Proof.
  intros H [I1 I2 I3 I4]. unfold bind in H. destruct pr as [[[pd pa] pt] pv].
  destruct (negb ((0 <=? prov) && (0 <=? owner) && (0 <=? depa) && (0 <? qos) && optok && pricing_ok (pd, pa, pt, pv))) eqn:E0; [discriminate|].
  destruct (negb (existsb (Z.eqb svc) (defs s))); [discriminate|].
  destruct (has (svc, prov) (binds s)) eqn:Eh; [discriminate|].
  match type of H with (if ?g then _ else _) = _ => destruct g; [discriminate|] end.
  destruct (negb (deposit_ok depd depa)) eqn:Ed; [discriminate|].
  destruct (c_maxto c <? qos); [discriminate|]. destruct (negb (keeper_pricing_ok c (pd, pa, pt, pv))); [discriminate|].
  destruct (min_deposit c s pd pa) as [m|]; [|discriminate]. destruct (depa <? m); [discriminate|].
  destruct (send (led s) owner DEP BASE depa) as [l|] eqn:Es; [|discriminate].
  zb. assert (Ho : owner <> DEP) by (unfold DEP; lia).
  assert (Hd : dep_of (svc, prov) (binds s) = 0).
  { unfold dep_of. unfold has in Eh. destruct (get (svc, prov) (binds s)); [discriminate|reflexivity]. }
  assert (D : DepInv (with_binds (with_led s l) (set (svc, prov) (mkB depa pd pa pt pv qos true 0 owner) (binds s)))).
  { constructor; simpl.
    - rewrite dep_sum_set, Hd. simpl. rewrite (send_to_dep _ _ _ _ Es Ho). lia.
    - exact I2.
    - exact I3.
    - intros k b Hg. destruct (eq_dec k (svc, prov)) as [->|Hne].
      + rewrite get_set_same in Hg. inversion Hg; subst. simpl. assumption.
      + rewrite get_set_other in Hg by exact Hne. eapply I4. exact Hg. }
  destruct (get prov (owners s)); inversion H; subst; [exact D|].
  destruct D as [J1 J2 J3 J4]. constructor; assumption.
Qed.

(** a binding whose deposit grows by [depa] paid by its owner *)
Lemma DepInv_topup s k b b' owner depa l :
  DepInv s -> get k (binds s) = Some b -> b_dep b' = b_dep b + depa -> b_owner b' = b_owner b -> 0 <= owner ->
  (if depa =? 0 then Some (led s) else send (led s) owner DEP BASE depa) = Some l ->
  DepInv (with_binds (with_led s l) (set k b' (binds s))).
Proof.
  intros [I1 I2 I3 I4] Hg Hd Ho Hown Hs. assert (Hne : owner <> DEP) by (unfold DEP; lia).
  constructor; simpl; try assumption.
  - rewrite dep_sum_set. unfold dep_of. rewrite Hg, Hd.
    destruct (Z.eqb_spec depa 0) as [->|Hz]; [inversion Hs; subst; lia|]. rewrite (send_to_dep _ _ _ _ Hs Hne). lia.
  - intros k0 b0 Hg0. destruct (eq_dec k0 k) as [->|Hk].
    + rewrite get_set_same in Hg0. inversion Hg0; subst. rewrite Ho. eapply I4. exact Hg.
    + rewrite get_set_other in Hg0 by exact Hk. eapply I4. exact Hg0.
Qed.

Lemma DepInv_update_binding c s svc prov depd depa pr qos opt owner s' :
  update_binding c s svc prov depd depa pr qos opt owner = Okk s' -> DepInv s -> DepInv s'.
Proof.
  intros H Hinv. unfold update_binding in H.
  match type of H with (if negb ?g then _ else _) = _ => destruct g eqn:E0; [|discriminate] end.
  cbv beta iota zeta delta [negb] in H.
  destruct (get (svc, prov) (binds s)) as [b|] eqn:Eg; [|discriminate].
  destruct (b_owner b =? owner) eqn:Eo; [|discriminate]. cbv beta iota zeta delta [negb] in H.
  match type of H with (if ?g then _ else _) = _ => destruct g; [discriminate|] end.
  match type of H with (if ?g then _ else _) = _ => destruct g; [discriminate|] end.
  match type of H with (if ?g then _ else _) = _ => destruct g; [discriminate|] end.
  match type of H with (if ?g then _ else _) = _ => destruct g; [discriminate|] end.
  destruct (if depa =? 0 then Some (led s) else send (led s) owner DEP BASE depa) as [l|] eqn:Es; [|discriminate].
  zb.
  match type of H with Okk (if ?u then _ else _) = _ => destruct u eqn:Eu end; inversion H; subst s'.
  - eapply (DepInv_topup s (svc, prov) b _ owner depa l); try eassumption.
    + destruct pr as [[[[pd pa] pt] pv]|]; destruct (qos =? 0); reflexivity.
    + destruct pr as [[[[pd pa] pt] pv]|]; destruct (qos =? 0); reflexivity.
  - (* nothing to update: no deposit either *)
    assert (depa = 0).
    { destruct (Z.eqb_spec depa 0); [assumption|]. exfalso.
      destruct (qos =? 0); simpl in Eu; try discriminate. }
    subst depa. simpl in Es. inversion Es; subst. destruct Hinv as [I1 I2 I3 I4]. constructor; assumption.
Qed.

Lemma DepInv_enable c s svc prov depd depa owner s' :
  enable c s svc prov depd depa owner = Okk s' -> DepInv s -> DepInv s'.
Proof.
  intros H Hinv. unfold enable in H.
  match type of H with (if negb ?g then _ else _) = _ => destruct g eqn:E0; [|discriminate] end.
  cbv beta iota zeta delta [negb] in H.
  destruct (get (svc, prov) (binds s)) as [b|] eqn:Eg; [|discriminate].
  destruct (b_owner b =? owner) eqn:Eo; [|discriminate]. cbv beta iota zeta delta [negb] in H.
  destruct (b_avail b); [discriminate|].
  match type of H with (if ?g then _ else _) = _ => destruct g; [discriminate|] end.
  cbv zeta in H. destruct (min_deposit c s _ _) as [m|]; [|discriminate].
  match type of H with (if ?g then _ else _) = _ => destruct g; [discriminate|] end.
  destruct (if depa =? 0 then Some (led s) else send (led s) owner DEP BASE depa) as [l|] eqn:Es; [|discriminate].
  zb. inversion H; subst s'. eapply (DepInv_topup s (svc, prov) b _ owner depa l); try eassumption; reflexivity.
Qed.

Lemma DepInv_disable s svc prov owner s' : disable s svc prov owner = Okk s' -> DepInv s -> DepInv s'.
Proof.
  intros H Hinv. unfold disable in H.
  match type of H with (if negb ?g then _ else _) = _ => destruct g eqn:E0; [|discriminate] end.
  cbv beta iota zeta delta [negb] in H.
  destruct (get (svc, prov) (binds s)) as [b|] eqn:Eg; [|discriminate].
  destruct (b_owner b =? owner) eqn:Eo; [|discriminate]. cbv beta iota zeta delta [negb] in H.
  destruct (b_avail b); [|discriminate]. cbv beta iota zeta delta [negb] in H. inversion H; subst s'. zb.
  assert (Hl : with_binds s (set (svc, prov) (bd_dis (bd_avail b false) (time s)) (binds s))
               = with_binds (with_led s (led s)) (set (svc, prov) (bd_dis (bd_avail b false) (time s)) (binds s))) by reflexivity.
  rewrite Hl. eapply (DepInv_topup s (svc, prov) b _ owner 0); try eassumption; try reflexivity. simpl. lia.
Qed.

Lemma DepInv_refund c s svc prov owner s' : refund_deposit c s svc prov owner = Okk s' -> DepInv s -> DepInv s'.
Proof.
  intros H [I1 I2 I3 I4]. unfold refund_deposit in H.
  match type of H with (if negb ?g then _ else _) = _ => destruct g eqn:E0; [|discriminate] end.
  cbv beta iota zeta delta [negb] in H.
  destruct (get (svc, prov) (binds s)) as [b|] eqn:Eg; [|discriminate].
  destruct (b_owner b =? owner) eqn:Eo; [|discriminate]. cbv beta iota zeta delta [negb] in H.
  destruct (b_avail b); [discriminate|]. destruct (b_dep b =? 0); [discriminate|].
  destruct (time s <? b_dis b + c_wait c); [discriminate|].
  destruct (send (led s) DEP (b_owner b) BASE (b_dep b)) as [l|] eqn:Es; [|discriminate]. inversion H; subst.
  pose proof (I4 _ _ Eg) as Hown. assert (Hne : b_owner b <> DEP) by (unfold DEP; lia).
  constructor; simpl; try assumption.
  - rewrite dep_sum_set. unfold dep_of. rewrite Eg. simpl. rewrite (send_from_dep _ _ _ _ Es Hne). lia.
  - intros k0 b0 Hg0. destruct (eq_dec k0 (svc, prov)) as [->|Hk].
    + rewrite get_set_same in Hg0. inversion Hg0; subst. simpl. exact Hown.
    + rewrite get_set_other in Hg0 by exact Hk. eapply I4. exact Hg0.
Qed.

Lemma create_context_dep c s txh svc provs cons inok capd capa timeout rep freq total st thr md s' id :
  create_context c s txh svc provs cons inok capd capa timeout rep freq total st thr md = Some (s', id) ->
  0 <= cons -> DepInv s -> DepInv s'.
Proof.
  unfold create_context. intros H Hc Hinv. repeat dme H; inversion H; subst; clear H;
    (eapply (DepInv_same s); [repeat split| |exact Hinv]); simpl; (apply ctxs_ok_set; [apply (di_ctx _ Hinv)|simpl; exact Hc]).
Qed.

Lemma DepInv_ctl_set s id x x' : DepInv s -> get id (ctxs s) = Some x -> x_cons x' = x_cons x -> DepInv (with_ctxs s (set id x' (ctxs s))).
Proof.
  intros Hinv Hg Hc. eapply (DepInv_same s); [repeat split| |exact Hinv]. simpl.
  apply ctxs_ok_set; [apply (di_ctx _ Hinv)|]. rewrite Hc. eapply (di_ctx _ Hinv). exact Hg.
Qed.

Lemma DepInv_pause s id cons s' : k_pause s id cons = Okk s' -> DepInv s -> DepInv s'.
Proof.
  unfold k_pause. intros H Hinv. destruct (get id (ctxs s)) as [x|] eqn:Eg; [|discriminate].
  repeat dme H. inversion H; subst. eapply DepInv_ctl_set; [exact Hinv|exact Eg|reflexivity].
Qed.
Lemma DepInv_kill s id cons s' : k_kill s id cons = Okk s' -> DepInv s -> DepInv s'.
Proof.
  unfold k_kill. intros H Hinv. destruct (get id (ctxs s)) as [x|] eqn:Eg; [|discriminate].
  repeat dme H. inversion H; subst. eapply DepInv_ctl_set; [exact Hinv|exact Eg|reflexivity].
Qed.
Lemma DepInv_start s id cons s' : k_start s id cons = Okk s' -> DepInv s -> DepInv s'.
Proof.
  unfold k_start. intros H Hinv. destruct (get id (ctxs s)) as [x|] eqn:Eg; [|discriminate].
  pose proof (DepInv_ctl_set s id x (cx_state x 0) Hinv Eg eq_refl) as D.
  repeat dme H; inversion H; subst; clear H; (eapply (DepInv_same (with_ctxs s (set id (cx_state x 0) (ctxs s)))); [| |exact D]; [repeat split|exact (di_ctx _ D)]).
Qed.

Lemma DepInv_update_context c s id provs capd capa timeout freq total cons s' :
  update_context c s id provs capd capa timeout freq total cons = Okk s' -> DepInv s -> DepInv s'.
Proof.
  unfold update_context. intros H Hinv.
  match type of H with (if negb ?g then _ else _) = _ => destruct g; [|discriminate] end.
  cbv beta iota zeta delta [negb] in H.
  destruct (check_authority s cons id true); [|discriminate]. cbv beta iota zeta delta [negb] in H.
  destruct (get id (ctxs s)) as [x|] eqn:Eg; [|discriminate].
  repeat dme H; inversion H; subst; clear H; (eapply DepInv_ctl_set; [exact Hinv|exact Eg|]);
    repeat match goal with |- context [match ?g with _ => _ end] => destruct g end; reflexivity.
Qed.

Lemma DepInv_respond c s rid prov kind s' : respond c s rid prov kind = Okk s' -> DepInv s -> DepInv s'.
Proof.
  intros H Hinv. unfold respond in H. destruct rid as [[[id batch] hh] ii].
  destruct ((0 <=? prov) && negb (kind =? 2)); cbv beta iota zeta delta [negb] in H; [|discriminate].
  match type of H with context [@get reqid request ?i ?k (reqs s)] =>
    destruct (@get reqid request i k (reqs s)) as [q|] eqn:Eq end; [|discriminate].
  destruct (get id (ctxs s)) as [x|] eqn:Ex; [|discriminate].
  destruct (q_prov q =? prov); cbv beta iota zeta delta [negb] in H; [|discriminate].
  destruct (q_active q); cbv beta iota zeta delta [negb] in H; [|discriminate].
  destruct (add_earned_fee c s prov (q_fd q) (q_fee q)) as [s1|] eqn:Ef; [|discriminate].
  destruct (add_earned_fee_spec _ _ _ _ _ _ Ef) as (_ & T2 & _ & _ & _ & R2 & R3 & _).
  assert (W : waddr s1 = waddr s).
  { clear -Ef. unfold add_earned_fee in Ef. repeat dme Ef; inversion Ef; subst; reflexivity. }
  assert (D1 : DepInv s1).
  { eapply (DepInv_same s); [|rewrite R2; exact (di_ctx _ Hinv)|exact Hinv]. split; [|split; assumption].
    eapply send_keeps_dep; [exact T2|discriminate|discriminate]. }
  assert (Hc : 0 <= x_cons x) by (eapply (di_ctx _ Hinv); exact Ex).
  destruct (x_bresp (cx_bresp x (x_bresp x + 1)) =? x_breq (cx_bresp x (x_bresp x + 1)));
    [destruct (x_mod (cx_bresp x (x_bresp x + 1)))|]; inversion H; subst s'; clear H.
  - unfold callback. simpl. destruct (get id (ctxs s1)); simpl;
      (eapply (DepInv_same s1); [repeat split| |exact D1]; simpl; apply ctxs_ok_set; [exact (di_ctx _ D1)|exact Hc]).
  - eapply (DepInv_same s1); [repeat split| |exact D1]; simpl. apply ctxs_ok_set; [exact (di_ctx _ D1)|exact Hc].
  - eapply (DepInv_same s1); [repeat split| |exact D1]; simpl. apply ctxs_ok_set; [exact (di_ctx _ D1)|exact Hc].
Qed.

Lemma DepInv_withdraw s owner prov s' : withdraw s owner prov = Okk s' -> DepInv s -> DepInv s'.
Proof.
  unfold withdraw. intros H Hinv.
  match type of H with (if negb ?g then _ else _) = _ => destruct g eqn:E0; [|discriminate] end.
  cbv beta iota zeta delta [negb] in H. zb.
  destruct (get prov (owners s)) as [o|]; [|discriminate].
  destruct (o =? owner); [|discriminate]. cbv beta iota zeta in H.
  match type of H with match ?g with _ => _ end = _ => destruct g; [|discriminate] end.
  set (w := match get owner (waddr s) with Some a => a | None => owner end) in *.
  assert (Hw : 0 <= w).
  { subst w. destruct (get owner (waddr s)) as [a0|] eqn:Ew; [eapply (di_waddr _ Hinv); exact Ew|assumption]. }
  destruct (send_all (led s) REQ w (coins_of prov (earned s))) as [l|] eqn:Es; [|discriminate].
  inversion H; subst. eapply (DepInv_same s); [| |exact Hinv]; [|exact (di_ctx _ Hinv)].
  split; [|split; reflexivity]. simpl. eapply send_all_keeps_dep; [exact Es|discriminate|unfold DEP; lia].
Qed.

Lemma DepInv_exec_msg_plain c s txh m s' : exec_msg_plain c s txh m = Okk s' -> DepInv s -> DepInv s'.
Proof.
  intros H Hinv. destruct m; simpl in H.
  - unfold define in H. repeat dme H. inversion H; subst. eapply (DepInv_same s); [repeat split|exact (di_ctx _ Hinv)|exact Hinv].
  - eapply DepInv_bind; eassumption.
  - eapply DepInv_update_binding; eassumption.
  - unfold set_withdraw in H.
    match type of H with (if negb ?g then _ else _) = _ => destruct g eqn:E0; [|discriminate] end.
    cbv beta iota zeta delta [negb] in H. zb. inversion H; subst. destruct Hinv as [I1 I2 I3 I4].
    constructor; simpl; try assumption. intros o w0 Hg. destruct (eq_dec o owner) as [->|Hne].
    + rewrite get_set_same in Hg. inversion Hg; subst. assumption.
    + rewrite get_set_other in Hg by exact Hne. eapply I3. exact Hg.
  - eapply DepInv_enable; eassumption.
  - eapply DepInv_disable; eassumption.
  - eapply DepInv_refund; eassumption.
  - unfold call in H. destruct (validate_request provs cons inok capa timeout rep freq total) eqn:Ev; [|discriminate].
    cbv beta iota zeta delta [negb] in H.
    destruct (create_context _ _ _ _ _ _ _ _ _ _ _ _ _ _ _ _) as [[s1 id]|] eqn:E; [|discriminate].
    inversion H; subst. eapply create_context_dep; [exact E| |exact Hinv].
    unfold validate_request in Ev. zb. assumption.
  - eapply DepInv_respond; eassumption.
  - unfold msg_ctl in H. repeat dme H. eapply DepInv_pause; eassumption.
  - unfold msg_ctl in H. repeat dme H. eapply DepInv_start; eassumption.
  - unfold msg_ctl in H. repeat dme H. eapply DepInv_kill; eassumption.
  - eapply DepInv_update_context; eassumption.
  - eapply DepInv_withdraw; eassumption.
Qed.

(** a call to a module-served service *)
Lemma DepInv_call_module c s txh svc provs cons inok capd capa timeout rep freq total s' :
  call_module c s txh svc provs cons inok capd capa timeout rep freq total = Okk s' -> DepInv s -> DepInv s'.
Proof.
  unfold call_module. intros H Hinv.
  destruct (validate_request provs cons inok capa timeout rep freq total) eqn:Ev; [|discriminate].
  cbv beta iota zeta delta [negb] in H.
  destruct (create_context c s txh svc [c_mprov c] cons inok capd capa 1 false 0 0 0 0 false) as [[s1 id]|] eqn:E1; [|discriminate].
  assert (Hc : 0 <= cons) by (unfold validate_request in Ev; zb; assumption).
  pose proof (create_context_dep _ _ _ _ _ _ _ _ _ _ _ _ _ _ _ _ _ _ E1 Hc Hinv) as D1.
  destruct (get id (ctxs s1)) as [x|] eqn:Ex; [|discriminate].
  destruct (filter_provs s1 x (x_provs x)) as [[|p0 ps]|]; try discriminate.
  destruct (debit_all (led s1) (x_cons x) (total_fees s1 x [c_mprov c])) as [l|] eqn:Ed; [|discriminate].
  assert (Hx : 0 <= x_cons x) by (eapply (di_ctx _ D1); exact Ex).
  set (s2 := initiate_ms (with_led s1 (credit_all l REQ (total_fees s1 x [c_mprov c]))) id x [c_mprov c]) in *.
  assert (D2 : DepInv s2).
  { eapply (DepInv_same s1); [| |exact D1].
    - split; [|split; reflexivity]. simpl.
      destruct (debit_all_bal _ _ _ _ Ed) as (_ & B2). destruct (credit_all_bal (total_fees s1 x [c_mprov c]) l REQ) as (_ & C2).
      rewrite C2 by discriminate. apply B2. unfold DEP. lia.
    - simpl. apply ctxs_ok_set; [exact (di_ctx _ D1)|simpl; exact Hx]. }
  destruct (respond c s2 (id, x_batch x + 1, height s, 0) (c_mprov c) 1) as [s3| |] eqn:Er; try discriminate.
  pose proof (DepInv_respond _ _ _ _ _ _ Er D2) as D3. inversion H; subst s'.
  eapply (DepInv_same s3); [repeat split| |exact D3]. simpl. apply ctxs_ok_set; [exact (di_ctx _ D3)|simpl; exact Hx].
Qed.

Lemma DepInv_exec_msg c s txh m s' : exec_msg c s txh m = Okk s' -> DepInv s -> DepInv s'.
Proof.
  intros H Hinv. destruct m; cbn [exec_msg] in H; try (eapply DepInv_exec_msg_plain; eassumption).
  - destruct (module_served c svc); [discriminate|]. eapply DepInv_bind; eassumption.
  - destruct (module_served c svc); [eapply DepInv_call_module; eassumption|].
    eapply (DepInv_exec_msg_plain c s txh (MCall svc provs cons inok capd capa timeout rep freq total)); eassumption.
Qed.

Lemma DepInv_slash c s svc prov : DepInv s -> DepInv (slash c s svc prov).
Proof.
  intros Hinv. unfold slash. destruct (get (svc, prov) (binds s)) as [b|] eqn:Eg; [|exact Hinv].
  match goal with |- context [dec_truncate_int ?e] => set (a := dec_truncate_int e) end.
  destruct (b_dep b <? a); [exact Hinv|].
  destruct (send (led s) DEP TAX BASE a) as [l|] eqn:Es; [|exact Hinv].
  match goal with |- DepInv (with_binds _ (set _ ?t _)) => set (b2 := t) end.
  assert (Hb2 : b_dep b2 = b_dep b - a /\ b_owner b2 = b_owner b).
  { subst b2. simpl. destruct (b_avail b); [|split; reflexivity].
    destruct (min_deposit c s (b_pd b) (b_pa b)) as [m|]; [destruct (m <=? b_dep b - a)|]; split; reflexivity. }
  destruct Hb2 as (Hd & Ho). clearbody b2.
  destruct Hinv as [I1 I2 I3 I4]. constructor; simpl; try assumption.
  - rewrite dep_sum_set. unfold dep_of. rewrite Eg. rewrite (send_from_dep _ _ _ _ Es ltac:(discriminate)). lia.
  - intros k0 b0 Hg0. destruct (eq_dec k0 (svc, prov)) as [->|Hk].
    + rewrite get_set_same in Hg0. inversion Hg0; subst. rewrite Ho. eapply I4. exact Eg.
    + rewrite get_set_other in Hg0 by exact Hk. eapply I4. exact Hg0.
Qed.

Lemma slash_ctxs c s svc prov : ctxs (slash c s svc prov) = ctxs s.
Proof.
  unfold slash. destruct (get _ (binds s)) as [b|]; [|reflexivity].
  destruct (b_dep b <? _); [reflexivity|]. destruct (send _ _ _ _ _); reflexivity.
Qed.

Lemma DepInv_expire c x s e : 0 <= x_cons x -> DepInv s -> DepInv (expire_request c x s e)
  /\ ctxs (expire_request c x s e) = ctxs s.
Proof.
  intros Hc Hinv. destruct e as [rid q]. unfold expire_request.
  pose proof (DepInv_slash c s (x_svc x) (q_prov q) Hinv) as D1.
  pose proof (slash_ctxs c s (x_svc x) (q_prov q)) as C1.
  set (s1 := slash c s (x_svc x) (q_prov q)) in *.
  destruct (send (led s1) REQ (x_cons x) (q_fd q) (q_fee q)) as [l|] eqn:Es.
  - split; [|simpl; exact C1]. eapply (DepInv_same s1); [| |exact D1]; [|exact (di_ctx _ D1)].
    split; [|split; reflexivity]. simpl. eapply send_keeps_dep; [exact Es|discriminate|unfold DEP; lia].
  - split; [|simpl; exact C1]. eapply (DepInv_same s1); [| |exact D1]; [repeat split|exact (di_ctx _ D1)].
Qed.

Lemma DepInv_expire_fold c x : forall act s, 0 <= x_cons x -> DepInv s ->
  DepInv (fold_left (expire_request c x) act s) /\ ctxs (fold_left (expire_request c x) act s) = ctxs s.
Proof.
  induction act as [|e act IH]; cbn [fold_left]; intros s Hc Hinv; [split; [exact Hinv|reflexivity]|].
  destruct (DepInv_expire c x s e Hc Hinv) as (D & C). destruct (IH _ Hc D) as (D' & C'). split; [exact D'|congruence].
Qed.

Lemma DepInv_callback s id : DepInv s -> DepInv (callback s id) /\ ctxs (callback s id) = ctxs s.
Proof.
  intros Hinv. unfold callback. destruct (get id (ctxs s)); [|split; [exact Hinv|reflexivity]].
  split; [|reflexivity]. eapply (DepInv_same s); [repeat split|exact (di_ctx _ Hinv)|exact Hinv].
Qed.

Lemma DepInv_expired_handler c s id : DepInv s -> DepInv (expired_batch_handler c s id).
Proof.
  intros Hinv. unfold expired_batch_handler. destruct (get id (ctxs s)) as [x|] eqn:Eg; [|exact Hinv].
  assert (Hc : 0 <= x_cons x) by (eapply (di_ctx _ Hinv); exact Eg).
  set (pr := if x_brun x then _ else (s, x)).
  assert (Hpr : DepInv (fst pr) /\ x_cons (snd pr) = x_cons x).
  { subst pr. destruct (x_brun x); [|split; [exact Hinv|reflexivity]]. simpl. split; [|reflexivity].
    set (act := filter _ (reqs s)). destruct (DepInv_expire_fold c x act s Hc Hinv) as (D & _).
    destruct (x_mod x); [|exact D]. apply DepInv_callback. exact D. }
  destruct pr as [s1 x1]. simpl in Hpr. destruct Hpr as (D1 & Hx1). cbv zeta.
  assert (Hc1 : 0 <= x_cons x1) by lia.
  pose proof (di_ctx _ D1) as C1.
  match goal with |- DepInv (with_reqs ?t _) => assert (Hs : dep_same s1 t /\ ctxs_ok (ctxs t)) end.
  { destruct (x_state x1 =? 2); destruct (x_state x1 =? 0); try destruct (x_rep x1 && _);
      (split; [repeat split|]); simpl;
      repeat first [apply ctxs_ok_del | apply ctxs_ok_set; [|exact Hc1] | exact C1]. }
  destruct Hs as (Hs & Hk). eapply DepInv_same; [| |exact D1]; [|exact Hk].
  destruct Hs as (A & B & C). repeat split; assumption.
Qed.

Lemma DepInv_new_handler s id : DepInv s -> DepInv (new_batch_handler s id).
Proof.
  intros Hinv. unfold new_batch_handler. destruct (get id (ctxs s)) as [x|] eqn:Eg; [|exact Hinv].
  assert (Hc : 0 <= x_cons x) by (eapply (di_ctx _ Hinv); exact Eg).
  pose proof (di_ctx _ Hinv) as C0.
  assert (SK : DepInv (dequeue_new (skip_batch s id x) id)).
  { eapply (DepInv_same s); [repeat split| |exact Hinv]. simpl. apply ctxs_ok_set; [exact C0|exact Hc]. }
  destruct (x_state x =? 0); [|eapply (DepInv_same s); [repeat split|exact C0|exact Hinv]].
  destruct (filter_provs s x (x_provs x)) as [ps|]; [|exact SK].
  cbv zeta. destruct ((0 <? Z.of_nat (length ps)) && (x_thr x <=? Z.of_nat (length ps))); [|exact SK].
  destruct (debit_all (led s) (x_cons x) (total_fees s x ps)) as [l|] eqn:Ed.
  - eapply (DepInv_same s); [| |exact Hinv].
    + split; [|split; reflexivity]. simpl.
      destruct (debit_all_bal _ _ _ _ Ed) as (_ & D2). destruct (credit_all_bal (total_fees s x ps) l REQ) as (_ & C2).
      rewrite C2 by discriminate. apply D2. unfold DEP. lia.
    + simpl. apply ctxs_ok_set; [exact C0|exact Hc].
  - eapply (DepInv_same s); [| |exact Hinv].
    + unfold on_paused. destruct (x_mod x); repeat split.
    + unfold on_paused. destruct (x_mod x); simpl; (apply ctxs_ok_set; [exact C0|exact Hc]).
Qed.

Lemma DepInv_end_block c s dt : DepInv s -> DepInv (end_block c s dt).
Proof.
  intros Hinv. unfold end_block. cbv zeta.
  set (s1 := fold_left (expired_batch_handler c) _ s).
  assert (H1 : DepInv s1) by (subst s1; apply fold_left_inv; [intros a b; apply DepInv_expired_handler|exact Hinv]).
  set (s2 := fold_left new_batch_handler _ s1).
  assert (H2 : DepInv s2) by (subst s2; apply fold_left_inv; [intros a b; apply DepInv_new_handler|exact H1]).
  eapply (DepInv_same s2); [repeat split|exact (di_ctx _ H2)|exact H2].
Qed.

Lemma DepInv_apply c s st : DepInv s -> DepInv (apply c s st).
Proof.
  intros Hinv. unfold apply. destruct (exec_step c s st) as [s'| |] eqn:E; try exact Hinv.
  destruct st; simpl in E.
  - eapply DepInv_exec_msg; eassumption.
  - destruct (0 <=? dt); [|discriminate]. inversion E; subst. apply DepInv_end_block. exact Hinv.
  - inversion E; subst. eapply (DepInv_same s); [repeat split|exact (di_ctx _ Hinv)|exact Hinv].
  - destruct ((0 <=? from) && (0 <=? to)) eqn:Ef; [|discriminate]. destruct (send (led s) from to d amt) as [l|] eqn:Es; [|discriminate].
    inversion E; subst. zb. eapply (DepInv_same s); [|exact (di_ctx _ Hinv)|exact Hinv].
    split; [|split; reflexivity]. simpl. eapply send_keeps_dep; [exact Es|unfold DEP; lia|unfold DEP; lia].
  - destruct (create_context _ _ _ _ _ _ _ _ _ _ _ _ _ _ _ _) as [[s1 id]|] eqn:E1; [|discriminate].
    inversion E; subst.
    assert (Hc : 0 <= cons).
    { unfold create_context in E1. destruct (validate_request provs cons true capa timeout rep freq total) eqn:Ev.
      - unfold validate_request in Ev. zb. assumption.
      - simpl in E1. discriminate. }
    eapply create_context_dep; [exact E1|exact Hc|exact Hinv].
  - eapply DepInv_pause; eassumption.
  - eapply DepInv_start; eassumption.
  - eapply DepInv_kill; eassumption.
  - eapply DepInv_bind; eassumption.
Qed.

Lemma DepInv_init h0 t0 l0 : bal l0 DEP BASE = 0 -> DepInv (init h0 t0 l0).
Proof. intros H. constructor; simpl; [exact H| | |]; intros; discriminate. Qed.

Theorem deposit_escrow_eq_bindings_lemma :
  forall c steps h0 t0 l0,
    bal l0 DEP BASE = 0 ->
    let s := run c (init h0 t0 l0) steps in
    bal (led s) DEP BASE = dep_sum (binds s).
Proof.
  intros c steps h0 t0 l0 H0 s.
  assert (H : DepInv s) by (subst s; apply run_inv; [intros; apply DepInv_apply; assumption|apply DepInv_init; exact H0]).
  exact (di_eq _ H).
Qed.
