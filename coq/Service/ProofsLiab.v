(** * Service: the request escrow equals the fees of the active requests plus the earned
    fees, in every denom, over every history in which no context id is issued twice. *)
From Irismod Require Import Service.Model Service.Proofs Service.ProofsHist Service.ProofsEscrow.
From Irismod Require Import Service.ProofsSched Service.ProofsBatch.

(** ** prices are never negative *)
Definition price_ok (b : binding) : Prop :=
  0 <= b_pa b /\ Forall (fun e : Z * Z * Z => 0 <= snd e) (b_pt b) /\ Forall (fun e : Z * Z => 0 <= snd e) (b_pv b).

Lemma dec_mul_nonneg a b : 0 <= a -> 0 <= b -> 0 <= dec_mul a b.
Proof.
  intros Ha Hb. unfold dec_mul, chop_round. assert (0 <= a * b) by nia.
  destruct (a * b <? 0) eqn:E; [apply Z.ltb_lt in E; lia|]. apply chop_round_pos_nonneg. assumption.
Qed.

Lemma disc_time_nonneg pt t : Forall (fun e : Z * Z * Z => 0 <= snd e) pt -> 0 <= disc_time pt t.
Proof.
  induction pt as [|[[st en] d] pt IH]; simpl; intros H; [unfold P18; lia|]. inversion H; subst.
  destruct ((st <=? t) && (t <? en)); [assumption|apply IH; assumption].
Qed.
Lemma disc_vol_aux_nonneg pv : forall prev v, 0 <= prev -> Forall (fun e : Z * Z => 0 <= snd e) pv -> 0 <= disc_vol_aux prev pv v.
Proof.
  induction pv as [|[vol d] pv IH]; simpl; intros prev v Hp H; [unfold P18; lia|]. inversion H; subst. simpl in *.
  destruct (v <? vol); [assumption|]. destruct pv; [assumption|]. apply IH; assumption.
Qed.

Lemma get_price_nonneg b t vol : price_ok b -> 0 <= get_price b t vol.
Proof.
  intros (Ha & Ht & Hv). unfold get_price, disc_price, dec_truncate_int. apply Z.quot_pos; [|unfold P18; lia].
  apply dec_mul_nonneg; [apply dec_mul_nonneg; [unfold dec_of_int, P18; lia|apply disc_time_nonneg; exact Ht]|].
  unfold disc_vol. apply disc_vol_aux_nonneg; [unfold P18; lia|exact Hv].
Qed.

Lemma pt_ok_nonneg pt : forall first prev, pt_ok first prev pt = true -> Forall (fun e : Z * Z * Z => 0 <= snd e) pt.
Proof.
  induction pt as [|[[st en] d] pt IH]; simpl; intros first prev H; [constructor|].
  repeat (apply andb_true_iff in H; destruct H as (H & ?)). constructor; [|eapply IH; eassumption].
  simpl. unfold disc_ok in *. lia.
Qed.
Lemma pv_ok_nonneg pv : forall prev, pv_ok prev pv = true -> Forall (fun e : Z * Z => 0 <= snd e) pv.
Proof.
  induction pv as [|[v d] pv IH]; simpl; intros prev H; [constructor|].
  repeat (apply andb_true_iff in H; destruct H as (H & ?)). constructor; [|eapply IH; eassumption].
  simpl. unfold disc_ok in *. lia.
Qed.
Lemma pricing_ok_price pd pa pt pv dep qos av dis ow :
  pricing_ok (pd, pa, pt, pv) = true -> price_ok (mkB dep pd pa pt pv qos av dis ow).
Proof.
  unfold pricing_ok. intros H. repeat (apply andb_true_iff in H; destruct H as (H & ?)).
  split; [simpl; lia|]. split; simpl; [eapply pt_ok_nonneg; eassumption|eapply pv_ok_nonneg; eassumption].
Qed.

Definition PInv (s : state) : Prop := forall k b, get k (binds s) = Some b -> price_ok b.

Lemma PInv_set s k b : PInv s -> price_ok b -> forall k0 b0, get k0 (set k b (binds s)) = Some b0 -> price_ok b0.
Proof.
  intros Hp Hb k0 b0 Hg. destruct (eq_dec k0 k) as [->|Hne].
  - rewrite get_set_same in Hg. inversion Hg; subst. exact Hb.
  - rewrite get_set_other in Hg by exact Hne. eapply Hp. exact Hg.
Qed.

Definition p_same (s s' : state) : Prop := binds s' = binds s.

Lemma price_ok_ext b b' : b_pa b' = b_pa b -> b_pt b' = b_pt b -> b_pv b' = b_pv b -> price_ok b -> price_ok b'.
Proof. unfold price_ok. intros -> -> ->. tauto. Qed.

Lemma PInv_slash c s svc prov : PInv s -> PInv (slash c s svc prov).
Proof.
  intros Hp. unfold slash. destruct (get (svc, prov) (binds s)) as [b|] eqn:Eg; [|exact Hp].
  destruct (b_dep b <? _); [exact Hp|]. destruct (send _ _ _ _ _); [|exact Hp].
  intros k0 b0 Hg. cbn [binds with_binds with_led] in Hg. eapply (PInv_set s); [exact Hp| |exact Hg].
  pose proof (Hp _ _ Eg) as Hb.
  eapply price_ok_ext; [| | |exact Hb];
    repeat match goal with |- context [match ?g with _ => _ end] => destruct g end; reflexivity.
Qed.

Lemma create_context_binds c s txh svc provs cons inok capd capa timeout rep freq total st thr md s' id :
  create_context c s txh svc provs cons inok capd capa timeout rep freq total st thr md = Some (s', id) -> binds s' = binds s.
Proof. unfold create_context. intros H. repeat dmn H; inversion H; subst; reflexivity. Qed.

Lemma PInv_exec_msg_plain c s txh m s' : exec_msg_plain c s txh m = Okk s' -> PInv s -> PInv s'.
Proof.
  intros H Hp. destruct m; simpl in H.
  - unfold define in H. repeat dmn H. inversion H; subst. exact Hp.
  - unfold bind in H. destruct pr as [[[pd pa] pt] pv].
    match type of H with (if negb ?g then _ else _) = _ => destruct g eqn:E0; [|discriminate] end.
    cbv beta iota zeta delta [negb] in H. repeat (apply andb_true_iff in E0; destruct E0 as (E0 & ?)).
    repeat dmn H; inversion H; subst; clear H; intros k0 b0 Hg; simpl in Hg;
      (eapply (PInv_set s); [exact Hp| |exact Hg]); apply pricing_ok_price; assumption.
  - unfold update_binding in H.
    match type of H with (if negb ?g then _ else _) = _ => destruct g eqn:E0; [|discriminate] end.
    cbv beta iota zeta delta [negb] in H. repeat (apply andb_true_iff in E0; destruct E0 as (E0 & ?)).
    destruct (get (svc, prov) (binds s)) as [b|] eqn:Eg; [|discriminate]. pose proof (Hp _ _ Eg) as Hb.
    destruct pr as [[[[pd pa] pt] pv]|].
    + assert (Hn : price_ok (mkB 0 pd pa pt pv 0 true 0 0)) by (apply pricing_ok_price; assumption).
      repeat dmn H; inversion H; subst; clear H; try exact Hp; intros k0 b0 Hg; simpl in Hg;
        (eapply (PInv_set s); [exact Hp| |exact Hg]); exact Hn.
    + repeat dmn H; inversion H; subst; clear H; try exact Hp; intros k0 b0 Hg; simpl in Hg;
        (eapply (PInv_set s); [exact Hp| |exact Hg]); exact Hb.
  - unfold set_withdraw in H. repeat dmn H. inversion H; subst. exact Hp.
  - unfold enable in H. destruct (get (svc, prov) (binds s)) as [b|] eqn:Eg; [|repeat dmn H]. pose proof (Hp _ _ Eg) as Hb.
    repeat dmn H; inversion H; subst; clear H; intros k0 b0 Hg; simpl in Hg; (eapply (PInv_set s); [exact Hp| |exact Hg]); exact Hb.
  - unfold disable in H. destruct (get (svc, prov) (binds s)) as [b|] eqn:Eg; [|repeat dmn H]. pose proof (Hp _ _ Eg) as Hb.
    repeat dmn H; inversion H; subst; clear H; intros k0 b0 Hg; simpl in Hg; (eapply (PInv_set s); [exact Hp| |exact Hg]); exact Hb.
  - unfold refund_deposit in H. destruct (get (svc, prov) (binds s)) as [b|] eqn:Eg; [|repeat dmn H]. pose proof (Hp _ _ Eg) as Hb.
    repeat dmn H; inversion H; subst; clear H; intros k0 b0 Hg; simpl in Hg; (eapply (PInv_set s); [exact Hp| |exact Hg]); exact Hb.
  - unfold call in H. destruct (negb _); [discriminate|].
    destruct (create_context _ _ _ _ _ _ _ _ _ _ _ _ _ _ _ _) as [[s1 id]|] eqn:E; [|discriminate].
    inversion H; subst. unfold PInv. rewrite (create_context_binds _ _ _ _ _ _ _ _ _ _ _ _ _ _ _ _ _ _ E). exact Hp.
  - assert (B : binds s' = binds s).
    { unfold respond in H. destruct rid as [[[id batch] hh] ii]. repeat dmn H; inversion H; subst; clear H; simpl;
        try (unfold callback; simpl; repeat match goal with |- context [match ?g with _ => _ end] => destruct g end; simpl);
        match goal with E : add_earned_fee _ _ _ _ _ = Some ?s1 |- _ => unfold add_earned_fee in E; repeat dmn E; inversion E; subst; reflexivity end. }
    unfold PInv. rewrite B. exact Hp.
  - unfold msg_ctl, k_pause in H. repeat dmn H; inversion H; subst; exact Hp.
  - unfold msg_ctl, k_start in H. repeat dmn H; inversion H; subst; exact Hp.
  - unfold msg_ctl, k_kill in H. repeat dmn H; inversion H; subst; exact Hp.
  - unfold update_context in H. repeat dmn H; inversion H; subst; exact Hp.
  - unfold withdraw in H. repeat dmn H; inversion H; subst; exact Hp.
Qed.

Lemma PInv_same s s' : binds s' = binds s -> PInv s -> PInv s'.
Proof. intros B Hp. unfold PInv. rewrite B. exact Hp. Qed.

Lemma PInv_call_module c s txh svc provs cons inok capd capa timeout rep freq total s' :
  call_module c s txh svc provs cons inok capd capa timeout rep freq total = Okk s' -> PInv s -> PInv s'.
Proof.
  unfold call_module. intros H Hp.
  destruct (negb _); [discriminate|].
  destruct (create_context c s txh svc [c_mprov c] cons inok capd capa 1 false 0 0 0 0 false) as [[s1 id]|] eqn:E1; [|discriminate].
  pose proof (PInv_same _ _ (create_context_binds _ _ _ _ _ _ _ _ _ _ _ _ _ _ _ _ _ _ E1) Hp) as P1.
  destruct (get id (ctxs s1)) as [x|]; [|discriminate].
  destruct (filter_provs s1 x (x_provs x)) as [[|p0 ps]|]; try discriminate.
  destruct (debit_all (led s1) (x_cons x) (total_fees s1 x [c_mprov c])) as [l|]; [|discriminate].
  set (s2 := initiate_ms (with_led s1 (credit_all l REQ (total_fees s1 x [c_mprov c]))) id x [c_mprov c]) in *.
  assert (P2 : PInv s2) by (eapply PInv_same; [|exact P1]; reflexivity).
  destruct (respond c s2 (id, x_batch x + 1, height s, 0) (c_mprov c) 1) as [s3| |] eqn:Er; try discriminate.
  pose proof (PInv_exec_msg_plain c s2 0 (MRespond (id, x_batch x + 1, height s, 0) (c_mprov c) 1) s3 Er P2) as P3.
  inversion H; subst s'. eapply PInv_same; [|exact P3]. reflexivity.
Qed.

Lemma PInv_exec_msg c s txh m s' : exec_msg c s txh m = Okk s' -> PInv s -> PInv s'.
Proof.
  intros H Hinv. destruct m; cbn [exec_msg] in H; try (eapply PInv_exec_msg_plain; eassumption).
  - destruct (module_served c svc); [discriminate|].
    eapply (PInv_exec_msg_plain c s txh (MBind svc prov depd depa pr qos optok owner)); eassumption.
  - destruct (module_served c svc); [eapply PInv_call_module; eassumption|].
    eapply (PInv_exec_msg_plain c s txh (MCall svc provs cons inok capd capa timeout rep freq total)); eassumption.
Qed.

Lemma PInv_expire c x s e : PInv s -> PInv (expire_request c x s e).
Proof.
  intros Hp. destruct e as [rid q]. unfold expire_request. pose proof (PInv_slash c s (x_svc x) (q_prov q) Hp) as H1.
  destruct (send _ _ _ _ _); (eapply PInv_same; [|exact H1]); reflexivity.
Qed.

Lemma PInv_expired_handler c s id : PInv s -> PInv (expired_batch_handler c s id).
Proof.
  intros Hp. unfold expired_batch_handler. destruct (get id (ctxs s)) as [x|]; [|exact Hp].
  set (pr := if x_brun x then _ else (s, x)).
  assert (H1 : PInv (fst pr)).
  { subst pr. destruct (x_brun x); [|exact Hp]. simpl.
    assert (F : PInv (fold_left (expire_request c x) (filter (fun e => in_batch id (x_batch x) e && q_active (snd e)) (reqs s)) s))
      by (apply fold_left_inv; [intros; apply PInv_expire; assumption|exact Hp]).
    destruct (x_mod x); [|exact F]. eapply PInv_same; [|exact F]. unfold callback. destruct (get id (ctxs _)); reflexivity. }
  destruct pr as [s1 x1]. simpl in H1. cbv zeta. eapply PInv_same; [|exact H1].
  destruct (x_state x1 =? 2); destruct (x_state x1 =? 0); try destruct (x_rep x1 && _); reflexivity.
Qed.

Lemma new_handler_binds s id : binds (new_batch_handler s id) = binds s.
Proof.
  unfold new_batch_handler. destruct (get id (ctxs s)) as [x|]; [|reflexivity].
  destruct (x_state x =? 0); [|reflexivity]. destruct (filter_provs s x (x_provs x)) as [ps|]; [|reflexivity].
  cbv zeta. destruct (_ && _); [|reflexivity]. destruct (debit_all _ _ _); [reflexivity|].
  unfold on_paused. destruct (x_mod x); reflexivity.
Qed.

Lemma PInv_apply c s st : PInv s -> PInv (apply c s st).
Proof.
  intros Hp. unfold apply. destruct (exec_step c s st) as [s'| |] eqn:E; try exact Hp.
  destruct st; simpl in E.
  - eapply PInv_exec_msg; eassumption.
  - destruct (0 <=? dt); [|discriminate]. inversion E; subst. unfold end_block. cbv zeta.
    set (s1 := fold_left (expired_batch_handler c) _ s).
    assert (H1 : PInv s1) by (subst s1; apply fold_left_inv; [intros; apply PInv_expired_handler; assumption|exact Hp]).
    set (s2 := fold_left new_batch_handler _ s1).
    assert (H2 : PInv s2) by (subst s2; apply fold_left_inv; [intros a b Ha; eapply PInv_same; [apply new_handler_binds|exact Ha]|exact H1]).
    eapply PInv_same; [|exact H2]. reflexivity.
  - inversion E; subst. exact Hp.
  - repeat dmn E; inversion E; subst; exact Hp.
  - destruct (create_context _ _ _ _ _ _ _ _ _ _ _ _ _ _ _ _) as [[s1 id]|] eqn:E1; [|discriminate].
    inversion E; subst. eapply PInv_same; [eapply create_context_binds; exact E1|exact Hp].
  - unfold k_pause in E. repeat dmn E; inversion E; subst; exact Hp.
  - unfold k_start in E. repeat dmn E; inversion E; subst; exact Hp.
  - unfold k_kill in E. repeat dmn E; inversion E; subst; exact Hp.
  - eapply (PInv_exec_msg_plain c s 0 (MBind svc prov depd depa pr qos true owner)); eassumption.
Qed.

Lemma PInv_reachable c steps h0 t0 l0 : PInv (run c (init h0 t0 l0) steps).
Proof. apply run_inv; [intros; apply PInv_apply; assumption|]. intros k b Hg. simpl in Hg. discriminate. Qed.

(** ** the escrow invariant *)
Record EscInv (s : state) : Prop := {
  e_eq : EscEq s;
  e_fee : forall rid q, In (rid, q) (reqs s) -> 0 <= q_fee q;
  e_earn : forall k v, In (k, v) (earned s) -> 0 <= v
}.

Lemma in_set {K V} `{EqDec K} (k k0 : K) (v v0 : V) (m : amap K V) : In (k0, v0) (set k v m) -> (k0, v0) = (k, v) \/ In (k0, v0) m.
Proof.
  induction m as [|[k1 v1] m IH]; simpl.
  - intros [E|[]]. left. congruence.
  - destruct (eq_dec k k1) as [->|Hne]; simpl.
    + intros [E|Hin]; [left; congruence|right; right; exact Hin].
    + intros [E|Hin]; [right; left; exact E|]. destruct (IH Hin) as [E|Hin']; [left; exact E|right; right; exact Hin'].
Qed.

Lemma act_fee_nonneg s d : (forall rid q, In (rid, q) (reqs s) -> 0 <= q_fee q) -> forall e, In e (reqs s) -> 0 <= act_fee d e.
Proof. intros H [rid q] Hin. unfold act_fee. simpl. destruct (_ && _); [eapply H; exact Hin|lia]. Qed.

Lemma msum_nonneg_in {K V} (f : K * V -> Z) (m : list (K * V)) : (forall e, In e m -> 0 <= f e) -> 0 <= msum f m.
Proof. intros H. unfold msum. apply zsum_nonneg. intros x Hin. apply in_map_iff in Hin. destruct Hin as (e & <- & He). apply H. exact He. Qed.

Lemma msum_ge_term_in {K V} (f : K * V -> Z) (m : list (K * V)) e : (forall e, In e m -> 0 <= f e) -> In e m -> f e <= msum f m.
Proof.
  unfold msum. induction m as [|y m IH]; simpl; [tauto|]. intros H [->|Hin].
  - assert (0 <= zsum (map f m)) by (apply (msum_nonneg_in f m); intros; apply H; right; assumption). lia.
  - pose proof (H y (or_introl eq_refl)). assert (f e <= zsum (map f m)) by (apply IH; [intros; apply H; right; assumption|exact Hin]). lia.
Qed.

Lemma msum_filter_zero {K V} (f : K * V -> Z) (p : K * V -> bool) (m : list (K * V)) :
  (forall e, In e m -> p e = false -> f e = 0) -> msum f (filter p m) = msum f m.
Proof.
  unfold msum. induction m as [|y m IH]; simpl; intros H; [reflexivity|].
  destruct (p y) eqn:E; simpl; rewrite IH by (intros; apply H; [right; assumption|assumption]); [reflexivity|].
  rewrite (H y (or_introl eq_refl) E). reflexivity.
Qed.

Lemma EscInv_same s s' : esc_same s s' -> EscInv s -> EscInv s'.
Proof.
  intros Hs [I1 I2 I3]. pose proof (EscEq_same s s' Hs I1) as I1'. destruct Hs as (_ & R & E).
  constructor; [exact I1'|rewrite R; exact I2|rewrite E; exact I3].
Qed.

Lemma respond_earned c s rid prov kind s' :
  respond c s rid prov kind = Okk s' ->
  exists q, get rid (reqs s) = Some q /\ earned s' = addz (prov, q_fd q) (q_fee q - tax_of c (q_fee q)) (earned s)
            /\ 0 <= tax_of c (q_fee q) <= q_fee q.
Proof.
  intros H. destruct (respond_ok_lemma _ _ _ _ _ _ H) as (q & Hq & Hp & Ha & _ & _ & T1 & _).
  exists q. split; [exact Hq|]. split; [|exact T1].
  unfold respond in H. destruct rid as [[[id batch] hh] ii].
  destruct ((0 <=? prov) && negb (kind =? 2)); cbv beta iota zeta delta [negb] in H; [|discriminate].
  match type of H with context [@get reqid request ?i ?k (reqs s)] =>
    change (@get reqid request i k (reqs s)) with (@get reqid request i (id, batch, hh, ii) (reqs s)) in H end.
  rewrite Hq in H. destruct (get id (ctxs s)) as [x|]; [|discriminate].
  rewrite Hp, Ha, Z.eqb_refl in H. cbv beta iota zeta delta [negb] in H.
  destruct (add_earned_fee c s prov (q_fd q) (q_fee q)) as [s1|] eqn:Ef; [|discriminate].
  assert (E1 : earned s1 = addz (prov, q_fd q) (q_fee q - tax_of c (q_fee q)) (earned s)).
  { unfold add_earned_fee in Ef. fold (tax_of c (q_fee q)) in Ef. destruct (send _ _ _ _ _); [|discriminate].
    destruct (q_fee q <? _); [discriminate|]. inversion Ef; subst. reflexivity. }
  rewrite <- E1.
  destruct (x_bresp (cx_bresp x (x_bresp x + 1)) =? x_breq (cx_bresp x (x_bresp x + 1)));
    [destruct (x_mod (cx_bresp x (x_bresp x + 1)))|]; inversion H; subst s'; clear H; simpl; try reflexivity.
  unfold callback. simpl. destruct (get id (ctxs s1)); reflexivity.
Qed.

Lemma EscInv_respond c s rid prov kind s' : respond c s rid prov kind = Okk s' -> EscInv s -> EscInv s'.
Proof.
  intros H [I1 I2 I3]. constructor.
  - eapply EscEq_respond; eassumption.
  - destruct (respond_shape _ _ _ _ _ _ H) as (q & x & q' & x' & Hq & _ & _ & _ & Hf & _ & R & _).
    rewrite R. intros rid0 q0 Hin. apply in_set in Hin. destruct Hin as [E|Hin]; [|eapply I2; exact Hin].
    inversion E; subst. rewrite Hf. eapply I2. apply get_In. exact Hq.
  - destruct (respond_earned _ _ _ _ _ _ H) as (q & Hq & E & T). rewrite E. intros k v Hin. unfold addz in Hin.
    destruct (q_fee q - tax_of c (q_fee q) =? 0); [eapply I3; exact Hin|].
    apply in_set in Hin. destruct Hin as [Ek|Hin]; [|eapply I3; exact Hin]. inversion Ek; subst.
    assert (0 <= getz (prov, q_fd q) (earned s)); [|lia].
    unfold getz. destruct (get (prov, q_fd q) (earned s)) as [v0|] eqn:Eg; [|lia]. eapply I3. apply get_In. exact Eg.
Qed.

Lemma withdraw_shape s owner prov s' :
  withdraw s owner prov = Okk s' -> reqs s' = reqs s /\ earned s' = del_acct prov (earned s).
Proof. unfold withdraw. intros H. repeat dmn H; inversion H; subst; split; reflexivity. Qed.

Lemma EscInv_withdraw s owner prov s' : withdraw s owner prov = Okk s' -> DepInv s -> EscInv s -> EscInv s'.
Proof.
  intros H Hd [I1 I2 I3]. destruct (withdraw_shape _ _ _ _ H) as (R & E). constructor.
  - eapply EscEq_withdraw; eassumption.
  - rewrite R. exact I2.
  - rewrite E. intros k v Hin. unfold del_acct in Hin. apply filter_In in Hin. eapply I3. exact (proj1 Hin).
Qed.

Lemma EscInv_msg c s st :
  c_msvc c < 0 ->
  (match st with EndBlock _ => False | _ => True end) -> DepInv s -> EscInv s -> EscInv (apply c s st).
Proof.
  intros Hm Hst Hinv He. unfold apply. destruct (exec_step c s st) as [s'| |] eqn:E; try exact He.
  destruct st; cbn [exec_step] in E; try contradiction.
  8: { change (exec_msg_plain c s 0 (MBind svc prov depd depa pr qos true owner) = Okk s') in E.
       pose proof (exec_msg_esc _ _ _ _ _ E Hinv) as Hs. simpl in Hs. eapply EscInv_same; [exact Hs|exact He]. }
  all: simpl in E.
  - rewrite (exec_msg_plain_eq _ _ _ _ Hm) in E. destruct m; try (pose proof (exec_msg_esc _ _ _ _ _ E Hinv) as Hs; simpl in Hs; eapply EscInv_same; [exact Hs|exact He]).
    + simpl in E. eapply EscInv_respond; eassumption.
    + simpl in E. eapply EscInv_withdraw; eassumption.
  - inversion E; subst. eapply EscInv_same; [|exact He]. repeat split.
  - eapply EscInv_same; [|exact He]. esc_frame E.
  - destruct (create_context _ _ _ _ _ _ _ _ _ _ _ _ _ _ _ _) as [[s1 id]|] eqn:E1; [|discriminate].
    inversion E; subst. eapply EscInv_same; [eapply create_context_esc; exact E1|exact He].
  - unfold k_pause in E. eapply EscInv_same; [|exact He]. esc_frame E.
  - unfold k_start in E. eapply EscInv_same; [|exact He]. esc_frame E.
  - unfold k_kill in E. eapply EscInv_same; [|exact He]. esc_frame E.
Qed.

(** ** the end blocker *)
Lemma slash_esc c s svc prov : esc_same s (slash c s svc prov).
Proof.
  unfold slash. destruct (get _ (binds s)) as [b|]; [|repeat split].
  destruct (b_dep b <? _); [repeat split|]. destruct (send (led s) DEP TAX BASE _) as [l|] eqn:Es; [|repeat split].
  split; [|split; reflexivity]. intros d. simpl. eapply send_keeps_req; [exact Es|discriminate|discriminate].
Qed.

Lemma earn_in_nonneg s d : (forall k v, In (k, v) (earned s) -> 0 <= v) -> forall e, In e (earned s) -> 0 <= earn_in d e.
Proof. intros H [k v] Hin. unfold earn_in. simpl. destruct (_ =? _); [eapply H; exact Hin|lia]. Qed.

Lemma EscInv_expire c x s rid q :
  get rid (reqs s) = Some q -> q_active q = true -> 0 <= x_cons x -> EscInv s -> EscInv (expire_request c x s (rid, q)).
Proof.
  intros Hq Ha Hc He.
  pose proof (slash_esc c s (x_svc x) (q_prov q)) as Hs1.
  pose proof (EscInv_same _ _ Hs1 He) as He1. destruct Hs1 as (L1 & R1 & E1).
  set (s1 := slash c s (x_svc x) (q_prov q)) in *.
  assert (Hq1 : get rid (reqs s1) = Some q) by (rewrite R1; exact Hq).
  destruct He1 as [I1 I2 I3].
  assert (Hfee : 0 <= q_fee q <= bal (led s1) REQ (q_fd q)).
  { split; [eapply I2; apply get_In; exact Hq1|]. rewrite (I1 (q_fd q)). unfold liab.
    assert (A : act_fee (q_fd q) (rid, q) <= msum (act_fee (q_fd q)) (reqs s1)).
    { apply msum_ge_term_in; [apply act_fee_nonneg; exact I2|apply get_In; exact Hq1]. }
    unfold act_fee in A at 1. simpl in A. rewrite Ha, Z.eqb_refl in A. simpl in A.
    assert (B : 0 <= msum (earn_in (q_fd q)) (earned s1)) by (apply msum_nonneg_in; apply earn_in_nonneg; exact I3).
    lia. }
  destruct (expire_request_lemma c x s rid q Hfee ltac:(unfold REQ; lia)) as (B1 & B2 & B3 & _ & _ & _ & Eearn).
  fold s1 in B1, B2, B3. destruct (expire_struct c x s rid q) as (R & _ & _).
  set (s' := expire_request c x s (rid, q)) in *. clearbody s'.
  constructor.
  - intros d. unfold liab. rewrite R, Eearn, msum_set, Hq. unfold act_fee at 2 3. simpl. rewrite Ha. simpl.
    pose proof (I1 d) as Id. unfold liab in Id. rewrite R1, E1 in Id.
    destruct (Z.eqb_spec (q_fd q) d) as [Heq|Hne].
    + subst d. rewrite B2, Id. lia.
    + rewrite B3; [rewrite Id; lia|congruence|intros E; inversion E; unfold REQ in *; lia].
  - rewrite R. intros rid0 q0 Hin. apply in_set in Hin. destruct Hin as [E|Hin].
    + inversion E; subst. simpl. lia.
    + rewrite <- R1 in Hin. eapply I2. exact Hin.
  - rewrite Eearn. rewrite <- E1. exact I3.
Qed.

Lemma EscInv_expire_fold c x : forall act s,
  NoDup (map fst act) -> (forall e, In e act -> get (fst e) (reqs s) = Some (snd e) /\ q_active (snd e) = true) ->
  0 <= x_cons x -> EscInv s -> EscInv (fold_left (expire_request c x) act s).
Proof.
  induction act as [|[rid q] act IH]; cbn [fold_left]; intros s Hnd Hall Hc He; [exact He|].
  cbn [map fst] in Hnd. inversion Hnd as [|? ? Hn Hnd']; subst.
  destruct (Hall (rid, q) (or_introl eq_refl)) as (Hq & Ha). simpl in Hq, Ha.
  apply IH; [exact Hnd'| |exact Hc|apply EscInv_expire; assumption].
  intros e Hin. destruct (Hall e (or_intror Hin)) as (Hq' & Ha'). split; [|exact Ha'].
  destruct (expire_struct c x s rid q) as (R & _ & _). rewrite R. rewrite get_set_other; [exact Hq'|].
  intros E. apply Hn. rewrite <- E. apply in_map. exact Hin.
Qed.

Lemma callback_esc s id : esc_same s (callback s id).
Proof. unfold callback. destruct (get id (ctxs s)); repeat split. Qed.

Lemma EscInv_expired_handler c s id :
  BatchInv s -> DepInv s -> EscInv s -> EscInv (expired_batch_handler c s id).
Proof.
  intros Hb Hd He. unfold expired_batch_handler. destruct (get id (ctxs s)) as [x|] eqn:Eg; [|exact He].
  assert (Hc : 0 <= x_cons x) by (eapply (di_ctx _ Hd); exact Eg).
  set (pr := if x_brun x then _ else (s, x)).
  assert (Epr : pr = exp_pr c s id x) by reflexivity.
  destruct (exp_pr_facts c s id x Hb Eg) as (K1 & _ & A1 & _ & _). rewrite <- Epr in K1, A1.
  assert (H1 : EscInv (fst pr)).
  { subst pr. destruct (x_brun x); [|exact He]. simpl. set (act := filter _ (reqs s)).
    assert (F : EscInv (fold_left (expire_request c x) act s)).
    { apply EscInv_expire_fold; [| |exact Hc|exact He].
      - subst act. apply (keys_filter_NoDup _ (reqs s)). exact (b_keys _ Hb).
      - intros [r q] Hin. subst act. apply filter_In in Hin. destruct Hin as (Hin & Hact). simpl.
        apply andb_true_iff in Hact. split; [apply In_get_NoDup; [exact (b_keys _ Hb)|exact Hin]|exact (proj2 Hact)]. }
    destruct (x_mod x); [|exact F]. eapply EscInv_same; [apply callback_esc|exact F]. }
  destruct pr as [s1 x1]. simpl in H1, K1, A1. cbv zeta.
  match goal with |- EscInv (with_reqs ?t (filter ?f (reqs ?t))) =>
    assert (Ht : led t = led s1 /\ reqs t = reqs s1 /\ earned t = earned s1) end.
  { destruct (x_state x1 =? 2); destruct (x_state x1 =? 0); try destruct (x_rep x1 && _); repeat split. }
  destruct Ht as (Lt & Rt & Et). destruct H1 as [I1 I2 I3].
  match goal with |- EscInv (with_reqs ?t _) => set (tt := t) in *; clearbody tt end.
  constructor; simpl.
  - intros d. unfold liab. simpl. rewrite Lt, Rt, Et. rewrite msum_filter_zero; [apply I1|].
    intros [rid q] Hin Hf. unfold act_fee. simpl. destruct (q_active q) eqn:Ea; [|reflexivity]. exfalso.
    assert (Hg : get rid (reqs s1) = Some q) by (apply In_get_NoDup; assumption).
    destruct (A1 rid q Hg Ea) as (_ & Hne). apply Hne.
    apply negb_false_iff in Hf. unfold in_batch in Hf. simpl in Hf. destruct rid as [[[i b] hh] ii]. simpl.
    apply andb_true_iff in Hf. destruct Hf as (Hf & _). apply (proj1 (eqb_true_iff _ _)) in Hf. exact Hf.
  - rewrite Rt. intros rid q Hin. apply filter_In in Hin. eapply I2. exact (proj1 Hin).
  - rewrite Et. exact I3.
Qed.

Lemma mk_requests_ext s1 s2 x id b : binds s1 = binds s2 -> time s1 = time s2 -> vols s1 = vols s2 -> height s1 = height s2 ->
  forall ps i, mk_requests s1 x id b i ps = mk_requests s2 x id b i ps.
Proof.
  intros B T V Hh. induction ps as [|p ps IH]; intros i; simpl; [reflexivity|].
  unfold fee_of. rewrite B, T, V, Hh, IH. reflexivity.
Qed.

Definition rid_i (r : reqid) : Z := let '(_, _, _, i) := r in i.
Lemma mk_requests_idx s x id b : forall ps i e, In e (mk_requests s x id b i ps) -> i <= rid_i (fst e).
Proof.
  induction ps as [|p ps IH]; simpl; intros i e He; [tauto|]. destruct (fee_of s x p) as [fd fee].
  destruct He as [<-|He]; [simpl; lia|]. specialize (IH _ _ He). lia.
Qed.
Lemma mk_requests_NoDup s x id b : forall ps i, NoDup (map fst (mk_requests s x id b i ps)).
Proof.
  induction ps as [|p ps IH]; simpl; intros i; [constructor|]. destruct (fee_of s x p) as [fd fee]. simpl.
  constructor; [|apply IH]. intros Hin. apply in_map_iff in Hin. destruct Hin as (e & E & He).
  pose proof (mk_requests_idx _ _ _ _ _ _ _ He) as Hi. rewrite E in Hi. simpl in Hi. lia.
Qed.
Lemma mk_requests_fee_nonneg s x id b : PInv s -> forall ps i e, In e (mk_requests s x id b i ps) -> 0 <= q_fee (snd e).
Proof.
  intros Hp. induction ps as [|p ps IH]; simpl; intros i e He; [tauto|].
  destruct (fee_of s x p) as [fd fee] eqn:Ef. destruct He as [<-|He]; [|eapply IH; exact He]. simpl.
  unfold fee_of in Ef. destruct (get (x_svc x, p) (binds s)) as [bb|] eqn:Eg; inversion Ef; subst; [|lia].
  apply get_price_nonneg. eapply Hp. exact Eg.
Qed.

Lemma in_fold_set {K V} `{EqDec K} (rs : list (K * V)) : forall (m : amap K V) e,
  In e (fold_left (fun m e => set (fst e) (snd e) m) rs m) -> In e rs \/ In e m.
Proof.
  induction rs as [|[k0 v0] rs IH]; simpl; intros m e Hin; [right; exact Hin|].
  destruct (IH _ _ Hin) as [H1|H1]; [left; right; exact H1|]. destruct e as [k v].
  apply in_set in H1. destruct H1 as [E|H1]; [left; left; congruence|right; exact H1].
Qed.

Lemma msum_fold_set_new d (rs : list (reqid * request)) : forall m,
  NoDup (map fst rs) ->
  (forall e, In e rs -> q_active (snd e) = true /\ match get (fst e) m with Some v => q_active v = false | None => True end) ->
  msum (act_fee d) (fold_left (fun m e => set (fst e) (snd e) m) rs m) = msum (act_fee d) m + fees_in d rs.
Proof.
  induction rs as [|[k0 v0] rs IH]; intros m Hnd Hall; [unfold fees_in; simpl; lia|].
  cbn [fold_left fst snd]. cbn [map fst] in Hnd. inversion Hnd as [|? ? Hn Hnd']; subst.
  destruct (Hall (k0, v0) (or_introl eq_refl)) as (Ha & Hold). simpl in Ha, Hold.
  rewrite IH; [|exact Hnd'|].
  - rewrite msum_set. unfold fees_in. simpl. fold (fees_in d rs). unfold act_fee at 2 3. simpl. rewrite Ha. simpl.
    destruct (get k0 m) as [v|]; [rewrite Hold; simpl|]; destruct (q_fd v0 =? d); lia.
  - intros e He. destruct (Hall e (or_intror He)) as (Ha' & Hold'). split; [exact Ha'|].
    rewrite get_set_other; [exact Hold'|]. intros E. apply Hn. rewrite <- E. apply in_map. exact He.
Qed.

Lemma EscInv_new_handler s id :
  BatchInv s -> (forall x, get id (ctxs s) = Some x -> x_brun x = false) -> DepInv s -> PInv s -> EscInv s ->
  EscInv (new_batch_handler s id).
Proof.
  intros Hb Hclosed Hd Hp He. unfold new_batch_handler. destruct (get id (ctxs s)) as [x|] eqn:Eg; [|exact He].
  assert (Hc : 0 <= x_cons x) by (eapply (di_ctx _ Hd); exact Eg).
  assert (Hcl : forall x0, get id (ctxs s) = Some x0 -> x_brun x0 = false).
  { intros x0 E. rewrite Eg in E. apply Hclosed. exact E. }
  destruct (x_state x =? 0); [|eapply EscInv_same; [|exact He]; repeat split].
  destruct (filter_provs s x (x_provs x)) as [ps|]; [|eapply EscInv_same; [|exact He]; repeat split].
  cbv zeta. destruct ((0 <? Z.of_nat (length ps)) && (x_thr x <=? Z.of_nat (length ps))); [|eapply EscInv_same; [|exact He]; repeat split].
  destruct (debit_all (led s) (x_cons x) (total_fees s x ps)) as [l|] eqn:Ed.
  2: { eapply EscInv_same; [|exact He]. unfold on_paused. destruct (x_mod x); repeat split. }
  set (tot := total_fees s x ps) in *. set (sl := with_led s (credit_all l REQ tot)).
  set (rs := mk_requests sl x id (x_batch x + 1) 0 ps).
  assert (Ers : rs = mk_requests s x id (x_batch x + 1) 0 ps) by (apply mk_requests_ext; reflexivity).
  match goal with |- EscInv ?t => assert (Ht : led t = credit_all l REQ tot /\ reqs t = fold_left (fun m e => set (fst e) (snd e) m) rs (reqs s) /\ earned t = earned s)
    by (repeat split); set (tt := t) in *; clearbody tt end.
  destruct Ht as (Lt & Rt & Et). destruct He as [I1 I2 I3].
  destruct (debit_all_bal _ _ _ _ Ed) as (_ & D2). destruct (credit_all_bal tot l REQ) as (C1 & _).
  constructor.
  - intros d. unfold liab. rewrite Lt, Rt, Et, C1, D2 by (unfold REQ; lia). rewrite msum_fold_set_new.
    + rewrite Ers. unfold tot. rewrite (total_fees_eq_request_fees s x id (x_batch x + 1) d ps 0).
      pose proof (I1 d) as Id. unfold liab in Id. lia.
    + rewrite Ers. apply mk_requests_NoDup.
    + intros e Hin. rewrite Ers in Hin. destruct (mk_requests_shape _ _ _ _ _ _ _ Hin) as (S1 & _ & S3). split; [exact S3|].
      destruct (get (fst e) (reqs s)) as [v|] eqn:Egv; [|exact I]. exact (no_active_closed s id Hb Hcl (fst e) v Egv S1).
  - rewrite Rt. intros rid q Hin. apply in_fold_set in Hin. destruct Hin as [Hin|Hin]; [|eapply I2; exact Hin].
    rewrite Ers in Hin. apply (mk_requests_fee_nonneg s x id (x_batch x + 1) Hp ps 0 (rid, q) Hin).
  - rewrite Et. exact I3.
Qed.

(** ** everything together *)
Definition GInv (s : state) : Prop := QInv s /\ BatchInv s /\ DepInv s /\ PInv s /\ EscInv s.

Lemma GInv_end_block c s dt : GInv s -> EscInv (end_block c s dt).
Proof.
  intros (Hq & Hb & Hd & Hp & He). unfold end_block. cbv zeta.
  set (s1 := fold_left (expired_batch_handler c) _ s).
  assert (H1 : GInv s1 /\ height s1 = height s).
  { subst s1. apply (fold_handlers (fun t => GInv t /\ height t = height s) (expired_batch_handler c)
                      (fun t id => In (height t, id) (expq t))).
    - intros t id ((Tq & Tb & Td & Tp & Te) & Hh) Hpre. destruct (QInv_expired_handler c t id Tq Hpre) as (A & B & C).
      split; [split; [|congruence]|].
      + split; [exact A|]. split; [apply BatchInv_expired_handler; exact Tb|]. split; [apply DepInv_expired_handler; exact Td|].
        split; [apply PInv_expired_handler; exact Tp|apply EscInv_expired_handler; assumption].
      + intros id' Hne Hpp. rewrite B. apply C; assumption.
    - apply due_NoDup. exact (q_exp_nodup _ Hq).
    - split; [exact (conj Hq (conj Hb (conj Hd (conj Hp He))))|reflexivity].
    - intros id Hin. apply due_in in Hin. exact Hin. }
  destruct H1 as (G1 & Hh1).
  set (s2 := fold_left new_batch_handler _ s1).
  assert (H2 : GInv s2 /\ height s2 = height s1).
  { subst s2. apply (fold_handlers (fun t => GInv t /\ height t = height s1) new_batch_handler
                      (fun t id => In (height t, id) (newq t))).
    - intros t id ((Tq & Tb & Td & Tp & Te) & Hh) Hpre. destruct (QInv_new_handler t id Tq Hpre) as (A & B & C).
      assert (Hcl : forall x, get id (ctxs t) = Some x -> x_brun x = false) by (intros x Hx; eapply (q_new_closed _ Tq); eassumption).
      split; [split; [|congruence]|].
      + split; [exact A|]. split; [apply BatchInv_new_handler; assumption|]. split; [apply DepInv_new_handler; exact Td|].
        split; [eapply PInv_same; [apply new_handler_binds|exact Tp]|apply EscInv_new_handler; assumption].
      + intros id' Hne Hpp. rewrite B. apply C; assumption.
    - apply due_NoDup. destruct G1 as (Q1 & _). exact (q_new_nodup _ Q1).
    - split; [exact G1|reflexivity].
    - intros id Hin. apply due_in in Hin. exact Hin. }
  destruct H2 as ((_ & _ & _ & _ & E2) & _).
  eapply (EscInv_same s2); [repeat split|exact E2].
Qed.

Lemma GInv_apply c s st : c_msvc c < 0 -> fresh_ctx s st -> GInv s -> GInv (apply c s st).
Proof.
  intros Hm Hf (Hq & Hb & Hd & Hp & He).
  destruct (SInv_apply c s st Hm Hf (conj Hq Hb)) as (Hq' & Hb').
  split; [exact Hq'|]. split; [exact Hb'|]. split; [apply DepInv_apply; exact Hd|]. split; [apply PInv_apply; exact Hp|].
  destruct st as [txh m|dt|d r|f t d a| | | | | ]; try (apply EscInv_msg; [exact Hm|exact I|exact Hd|exact He]).
  unfold apply. simpl. destruct (0 <=? dt); [|exact He]. apply GInv_end_block. exact (conj Hq (conj Hb (conj Hd (conj Hp He)))).
Qed.

Lemma GInv_init h0 t0 l0 : (forall d, bal l0 REQ d = 0) -> bal l0 DEP BASE = 0 -> GInv (init h0 t0 l0).
Proof.
  intros Hr Hd. destruct (SInv_init h0 t0 l0) as (Q & B). split; [exact Q|]. split; [exact B|].
  split; [apply DepInv_init; exact Hd|]. split; [intros k b Hg; simpl in Hg; discriminate|].
  constructor; simpl; [|intros; contradiction|intros; contradiction].
  intros d. unfold liab. simpl. rewrite Hr. reflexivity.
Qed.

Theorem request_escrow_eq_liabilities_lemma :
  forall c steps h0 t0 l0,
    c_msvc c < 0 ->
    (forall d, bal l0 REQ d = 0) -> bal l0 DEP BASE = 0 ->
    fresh_history c (init h0 t0 l0) steps ->
    let s := run c (init h0 t0 l0) steps in
    forall d, bal (led s) REQ d = liab d s.
Proof.
  intros c steps h0 t0 l0 Hm Hr Hd Hf s.
  assert (G : GInv s) by (subst s; apply (run_inv_fresh GInv c); [intros; apply GInv_apply; assumption|exact Hf|apply GInv_init; assumption]).
  destruct G as (_ & _ & _ & _ & E). exact (e_eq _ E).
Qed.

(** a decidable form of [fresh_history], for examples *)
Definition fresh_ctxb (s : state) (st : step) : bool :=
  match st with
  | Tx txh (MCall _ _ _ _ _ _ _ _ _ _) => match ctx_at s (txh, iidx s) with None => true | Some _ => false end
  | ModCreate txh _ _ _ _ _ _ _ _ _ _ => match ctx_at s (txh, iidx s) with None => true | Some _ => false end
  | _ => true
  end.
Fixpoint fresh_historyb (c : config) (s : state) (steps : list step) : bool :=
  match steps with
  | [] => true
  | st :: r => fresh_ctxb s st && fresh_historyb c (apply c s st) r
  end.
Lemma fresh_historyb_ok c : forall steps s, fresh_historyb c s steps = true -> fresh_history c s steps.
Proof.
  induction steps as [|st r IH]; simpl; intros s H; [exact I|]. apply andb_true_iff in H. destruct H as (H1 & H2).
  split; [|apply IH; exact H2]. destruct st as [txh m| | | |txh svc provs cons capa timeout rep freq total st0 thr| | | |]; try exact I.
  - destruct m; try exact I. simpl in *. destruct (ctx_at s (txh, iidx s)); [discriminate|reflexivity].
  - simpl in *. destruct (ctx_at s (txh, iidx s)); [discriminate|reflexivity].
Qed.
