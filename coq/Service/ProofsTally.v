(** * Service: the owner-side earned-fee tally equals the sum of the tallies of the providers
    the owner owns, in every denom, over every history. *)
From Irismod Require Import Service.Model Service.Proofs Service.ProofsHist Service.ProofsEscrow Service.ProofsSched
  Service.ProofsBatch Service.ProofsLiab.

Definition owner_of (s : state) (p : Z) : Z := match get p (owners s) with Some o => o | None => -9 end.
Definition own_in (s : state) (o d : Z) (e : (Z * Z) * Z) : Z :=
  if (snd (fst e) =? d) && (owner_of s (fst (fst e)) =? o) then snd e else 0.
Definition osum (s : state) (o d : Z) : Z := msum (own_in s o d) (earned s).

(** ** coin-set lemmas (keys distinct) *)
Lemma amt_get d (cs : list (Z * Z)) : NoDup (map fst cs) -> amt d cs = getz d cs.
Proof.
  unfold amt, getz. induction cs as [|[d0 x] cs IH]; simpl; intros Hnd; [reflexivity|].
  inversion Hnd as [|? ? Hn Hnd']; subst. destruct (eq_dec d d0) as [->|Hne].
  - rewrite Z.eqb_refl. assert (zsum (map (fun e : Z * Z => if fst e =? d0 then snd e else 0) cs) = 0); [|lia].
    clear -Hn. induction cs as [|[d1 y] cs IH]; simpl; [reflexivity|]. simpl in Hn.
    destruct (Z.eqb_spec d1 d0) as [->|Hne]; [tauto|]. rewrite IH by tauto. reflexivity.
  - destruct (Z.eqb_spec d0 d) as [->|_]; [congruence|]. rewrite IH by exact Hnd'. reflexivity.
Qed.

Lemma coins_of_keys a (m : amap (Z * Z) Z) : NoDup (keys m) -> NoDup (map fst (coins_of a m)).
Proof.
  unfold coins_of, keys. induction m as [|[[a0 d0] v] m IH]; simpl; intros Hnd; [constructor|].
  inversion Hnd as [|? ? Hn Hnd']; subst. destruct (Z.eqb_spec a0 a) as [->|Hne]; simpl; [|apply IH; exact Hnd'].
  constructor; [|apply IH; exact Hnd']. intros Hin. apply Hn. apply in_map_iff in Hin. destruct Hin as ([d1 v1] & E & Hin).
  simpl in E. subst d1. apply in_map_iff in Hin. destruct Hin as ([[a2 d2] v2] & E2 & Hin). simpl in E2. inversion E2; subst.
  apply filter_In in Hin. destruct Hin as (Hin & Ha). simpl in Ha. apply Z.eqb_eq in Ha. subst a2.
  apply in_map_iff. exists ((a, d0), v1). split; [reflexivity|exact Hin].
Qed.

Lemma getz_coins_of a d (m : amap (Z * Z) Z) : getz d (coins_of a m) = getz (a, d) m.
Proof.
  unfold coins_of, getz. induction m as [|[[a0 d0] v] m IH]; simpl; [reflexivity|].
  destruct (Z.eqb_spec a0 a) as [->|Hne]; simpl.
  - destruct (eq_dec d d0) as [->|Hd]; [destruct (eq_dec (a, d0) (a, d0)); [reflexivity|congruence]|].
    destruct (eq_dec (a, d) (a, d0)) as [E|_]; [inversion E; congruence|]. exact IH.
  - destruct (eq_dec (a, d) (a0, d0)) as [E|_]; [inversion E; congruence|]. exact IH.
Qed.

Lemma getz_del_acct a a' d (m : amap (Z * Z) Z) : getz (a', d) (del_acct a m) = if a' =? a then 0 else getz (a', d) m.
Proof.
  unfold del_acct, getz. induction m as [|[[a0 d0] v] m IH]; simpl; [destruct (a' =? a); reflexivity|].
  destruct (Z.eqb_spec a0 a) as [->|Hne]; simpl.
  - destruct (eq_dec (a', d) (a, d0)) as [E|Hn]; [inversion E; subst; rewrite Z.eqb_refl in *; exact IH|exact IH].
  - destruct (eq_dec (a', d) (a0, d0)) as [E|Hn]; [inversion E; subst; destruct (Z.eqb_spec a0 a); [congruence|reflexivity]|exact IH].
Qed.

Lemma getz_set_coins a cs : forall (m : amap (Z * Z) Z) a' d, NoDup (map fst cs) ->
  getz (a', d) (set_coins a cs m) = if (a' =? a) && existsb (fun e => fst e =? d) cs then getz d cs else getz (a', d) m.
Proof.
  induction cs as [|[d0 x] cs IH]; simpl; intros m a' d Hnd; [rewrite andb_false_r; reflexivity|].
  inversion Hnd as [|? ? Hn Hnd']; subst. rewrite IH by exact Hnd'.
  destruct (Z.eqb_spec a' a) as [->|Ha]; simpl.
  - destruct (Z.eqb_spec d0 d) as [->|Hd]; simpl.
    + assert (existsb (fun e : Z * Z => fst e =? d) cs = false).
      { destruct (existsb _ cs) eqn:E; [|reflexivity]. apply existsb_exists in E. destruct E as ([d1 y] & Hin & Hd1). simpl in Hd1.
        apply Z.eqb_eq in Hd1. subst. exfalso. apply Hn. apply in_map_iff. exists (d, y). split; [reflexivity|exact Hin]. }
      rewrite H. unfold getz at 1. rewrite get_set_same. unfold getz. simpl. destruct (eq_dec d d); [reflexivity|congruence].
    + destruct (existsb (fun e : Z * Z => fst e =? d) cs) eqn:E.
      * unfold getz at 2. simpl. destruct (eq_dec d d0); [congruence|]. reflexivity.
      * unfold getz. rewrite get_set_other by congruence. reflexivity.
  - unfold getz. rewrite get_set_other by congruence. reflexivity.
Qed.

Lemma coins_sub_aux_spec b : forall a r, NoDup (map fst a) -> coins_sub_aux a b = Some r ->
  NoDup (map fst r) /\ (forall d, In d (map fst r) -> In d (map fst a))
  /\ (forall d, getz d r = if existsb (fun e => fst e =? d) a then getz d a - getz d b else 0)
  /\ (forall d, existsb (fun e => fst e =? d) r = false -> existsb (fun e => fst e =? d) a = true -> getz d a - getz d b = 0).
Proof.
  induction a as [|[d0 x] a IH]; simpl; intros r Hnd H.
  - inversion H; subst. simpl. repeat split; try constructor; intros; try reflexivity; try contradiction; discriminate.
  - inversion Hnd as [|? ? Hn Hnd']; subst. destruct (coins_sub_aux a b) as [r'|] eqn:E; [|discriminate].
    destruct (IH r' Hnd' eq_refl) as (N & S & G & Z0).
    assert (Hex : existsb (fun e : Z * Z => fst e =? d0) a = false).
    { destruct (existsb _ a) eqn:Ex; [|reflexivity]. apply existsb_exists in Ex. destruct Ex as ([d1 y] & Hin & Hd1). simpl in Hd1.
      apply Z.eqb_eq in Hd1. subst. exfalso. apply Hn. apply in_map_iff. exists (d0, y). split; [reflexivity|exact Hin]. }
    assert (Hr' : ~ In d0 (map fst r')) by (intros Hin; apply Hn; apply S; exact Hin).
    assert (Hgr' : getz d0 r' = 0) by (rewrite G, Hex; reflexivity).
    destruct (x - getz d0 b <? 0) eqn:E1; [discriminate|]. destruct (x - getz d0 b =? 0) eqn:E2; inversion H; subst; clear H.
    + split; [exact N|]. split; [intros d Hin; right; apply S; exact Hin|]. split.
      * intros d. rewrite G. destruct (Z.eqb_spec d0 d) as [->|Hne]; simpl.
        -- rewrite Hex. unfold getz at 1. simpl. destruct (eq_dec d d); [|congruence]. apply Z.eqb_eq in E2. lia.
        -- unfold getz at 3. simpl. destruct (eq_dec d d0); [congruence|]. reflexivity.
      * intros d Hr Ha. destruct (Z.eqb_spec d0 d) as [->|Hne]; simpl in Ha.
        -- unfold getz at 1. simpl. destruct (eq_dec d d); [|congruence]. apply Z.eqb_eq in E2. lia.
        -- unfold getz at 1. simpl. destruct (eq_dec d d0); [congruence|]. apply Z0; assumption.
    + split; [simpl; constructor; assumption|]. split; [simpl; intros d [->|Hin]; [left; reflexivity|right; apply S; exact Hin]|]. split.
      * intros d. destruct (Z.eqb_spec d0 d) as [->|Hne]; simpl.
        -- unfold getz. simpl. destruct (eq_dec d d); [reflexivity|congruence].
        -- destruct (Z.eqb_spec d0 d); [congruence|]. simpl. unfold getz at 1 3. simpl. destruct (eq_dec d d0); [congruence|]. apply G.
      * intros d Hr Ha. simpl in Hr. destruct (Z.eqb_spec d0 d) as [->|Hne]; simpl in Hr, Ha; [discriminate|].
        unfold getz at 1. simpl. destruct (eq_dec d d0); [congruence|]. apply Z0; assumption.
Qed.

(** [coins_equal] on key-distinct coin sets: same amounts in every denom *)
Lemma coins_equal_getz a b : NoDup (map fst a) -> NoDup (map fst b) -> coins_equal a b = true -> forall d, getz d a = getz d b.
Proof.
  unfold coins_equal. intros Ha Hb H d. apply andb_true_iff in H. destruct H as (Hl & Hf). apply Nat.eqb_eq in Hl.
  rewrite forallb_forall in Hf.
  assert (Hincl : incl (map fst a) (map fst b)).
  { intros k Hin. apply in_map_iff in Hin. destruct Hin as ([k0 v] & E & Hin). simpl in E. subst k0.
    specialize (Hf _ Hin). simpl in Hf. apply (proj1 (eqb_true_iff _ _)) in Hf. eapply get_Some_keys. exact Hf. }
  assert (Hincl' : incl (map fst b) (map fst a)).
  { apply NoDup_length_incl; [exact Ha|rewrite !map_length; lia|exact Hincl]. }
  unfold getz. destruct (get d a) as [v|] eqn:Ea.
  - apply get_In in Ea. specialize (Hf _ Ea). simpl in Hf. apply (proj1 (eqb_true_iff _ _)) in Hf. rewrite Hf. reflexivity.
  - destruct (get d b) as [w|] eqn:Eb; [|reflexivity]. exfalso. apply get_Some_keys in Eb. apply Hincl' in Eb.
    apply (get_None_notin _ _ Ea). exact Eb.
Qed.

(** ** the invariant *)
Record TInv (s : state) : Prop := {
  t_ek : NoDup (keys (earned s));
  t_ok : NoDup (keys (oearned s));
  t_eq : forall o d, getz (o, d) (oearned s) = osum s o d;
  t_u1 : forall svc p b, get (svc, p) (binds s) = Some b -> has p (owners s) = true;
  t_u2 : forall rid q, In (rid, q) (reqs s) -> has (q_prov q) (owners s) = true;
  t_u3 : forall p d v, In ((p, d), v) (earned s) -> has p (owners s) = true
}.

Definition t_same (s s' : state) : Prop :=
  earned s' = earned s /\ oearned s' = oearned s /\ owners s' = owners s /\ reqs s' = reqs s /\ binds s' = binds s.

Lemma osum_ext s s' o d : earned s' = earned s ->
  (forall e, In e (earned s) -> owner_of s' (fst (fst e)) = owner_of s (fst (fst e))) -> osum s' o d = osum s o d.
Proof.
  intros E H. unfold osum, msum. rewrite E. apply f_equal. apply map_ext_in. intros e Hin. unfold own_in. rewrite (H e Hin). reflexivity.
Qed.

Lemma TInv_same s s' : t_same s s' -> TInv s -> TInv s'.
Proof.
  intros (E & O & W & R & B) [I1 I2 I3 I4 I5 I6].
  constructor; rewrite ?E, ?O, ?W, ?R, ?B; try assumption.
  intros o d. rewrite (osum_ext s s' o d E); [apply I3|]. intros e _. unfold owner_of. rewrite W. reflexivity.
Qed.

(** requests rewritten / removed with providers unchanged, bindings rewritten under existing keys *)
Lemma TInv_reqs_binds s s' :
  earned s' = earned s -> oearned s' = oearned s -> owners s' = owners s ->
  (forall rid q, In (rid, q) (reqs s') -> exists rid0 q0, In (rid0, q0) (reqs s) /\ q_prov q0 = q_prov q) ->
  (forall svc p b, get (svc, p) (binds s') = Some b -> exists b0, get (svc, p) (binds s) = Some b0) ->
  TInv s -> TInv s'.
Proof.
  intros E O W R B [I1 I2 I3 I4 I5 I6]. constructor; rewrite ?E, ?O, ?W; try assumption.
  - intros o d. rewrite (osum_ext s s' o d E); [apply I3|]. intros e _. unfold owner_of. rewrite W. reflexivity.
  - intros svc p b Hg. destruct (B _ _ _ Hg) as (b0 & Hg0). eapply I4. exact Hg0.
  - intros rid q Hin. destruct (R _ _ Hin) as (rid0 & q0 & Hin0 & Hp). rewrite <- Hp. eapply I5. exact Hin0.
Qed.

Lemma msum_own_addz s o d k x (m : amap (Z * Z) Z) :
  msum (own_in s o d) (addz k x m) = msum (own_in s o d) m + (if (snd k =? d) && (owner_of s (fst k) =? o) then x else 0).
Proof.
  unfold addz. destruct (Z.eqb_spec x 0) as [->|Hne]; [destruct (_ && _); lia|].
  rewrite msum_set. unfold getz, own_in. simpl. destruct (get k m); destruct (_ && _); lia.
Qed.

Lemma keys_addz_NoDup {K} `{EqDec K} (k : K) x (m : amap K Z) : NoDup (keys m) -> NoDup (keys (addz k x m)).
Proof. intros Hn. unfold addz. destruct (x =? 0); [exact Hn|apply keys_set_NoDup; exact Hn]. Qed.

Lemma in_addz {K} `{EqDec K} (k k0 : K) x v (m : amap K Z) : In (k0, v) (addz k x m) -> k0 = k \/ In (k0, v) m.
Proof.
  unfold addz. destruct (x =? 0); [right; assumption|]. intros Hin. apply in_set in Hin.
  destruct Hin as [E|Hin]; [left; congruence|right; exact Hin].
Qed.

Lemma getz_addz_any {K} `{EqDec K} (k k' : K) x (m : amap K Z) : getz k' (addz k x m) = getz k' m + (if eqb k' k then x else 0).
Proof.
  destruct (eq_dec k' k) as [->|Hne].
  - rewrite eqb_refl. apply getz_addz.
  - assert (E : eqb k' k = false) by (apply eqb_false_iff; exact Hne). rewrite E, getz_addz_other by exact Hne. lia.
Qed.

(** *** a response *)
Lemma respond_tally c s rid prov kind s' :
  respond c s rid prov kind = Okk s' ->
  exists q q' e, get rid (reqs s) = Some q /\ q_prov q = prov /\ q_prov q' = prov
    /\ reqs s' = set rid q' (reqs s)
    /\ earned s' = addz (prov, q_fd q) e (earned s)
    /\ oearned s' = addz (owner_of s prov, q_fd q) e (oearned s)
    /\ owners s' = owners s /\ binds s' = binds s.
Proof.
  intros H. unfold respond in H. destruct rid as [[[id batch] hh] ii].
  destruct ((0 <=? prov) && negb (kind =? 2)); cbv beta iota zeta delta [negb] in H; [|discriminate].
  match type of H with context [@get reqid request ?i ?k (reqs s)] =>
    destruct (@get reqid request i k (reqs s)) as [q|] eqn:Eq end; [|discriminate].
  destruct (get id (ctxs s)) as [x|] eqn:Ex; [|discriminate].
  destruct (q_prov q =? prov) eqn:Ep; cbv beta iota zeta delta [negb] in H; [|discriminate]. apply Z.eqb_eq in Ep.
  destruct (q_active q); cbv beta iota zeta delta [negb] in H; [|discriminate].
  destruct (add_earned_fee c s prov (q_fd q) (q_fee q)) as [s1|] eqn:Ef; [|discriminate].
  exists q, (rq_resp (rq_active q false) (if kind =? 1 then 2 else 1)), (q_fee q - tax_of c (q_fee q)).
  assert (F : earned s1 = addz (prov, q_fd q) (q_fee q - tax_of c (q_fee q)) (earned s)
              /\ oearned s1 = addz (owner_of s prov, q_fd q) (q_fee q - tax_of c (q_fee q)) (oearned s)
              /\ owners s1 = owners s /\ binds s1 = binds s /\ reqs s1 = reqs s /\ ctxs s1 = ctxs s).
  { unfold add_earned_fee in Ef. fold (tax_of c (q_fee q)) in Ef. destruct (send _ _ _ _ _); [|discriminate].
    destruct (q_fee q <? _); [discriminate|]. inversion Ef; subst. simpl. unfold owner_of. repeat split; reflexivity. }
  destruct F as (F1 & F2 & F3 & F4 & F5 & F6).
  split; [reflexivity|]. split; [exact Ep|]. split; [simpl; exact Ep|].
  destruct (x_bresp (cx_bresp x (x_bresp x + 1)) =? x_breq (cx_bresp x (x_bresp x + 1)));
    [destruct (x_mod (cx_bresp x (x_bresp x + 1)))|]; inversion H; subst s'; clear H; simpl;
    try (unfold callback; simpl; rewrite F6, Ex; simpl); rewrite F5; repeat split; assumption.
Qed.

Lemma TInv_respond c s rid prov kind s' : respond c s rid prov kind = Okk s' -> TInv s -> TInv s'.
Proof.
  intros H [I1 I2 I3 I4 I5 I6].
  destruct (respond_tally _ _ _ _ _ _ H) as (q & q' & e & Hq & Hp & Hp' & R & E & O & W & B).
  assert (Hown : has prov (owners s) = true) by (rewrite <- Hp; eapply I5; apply get_In; exact Hq).
  constructor; rewrite ?R, ?E, ?O, ?W, ?B.
  - apply keys_addz_NoDup. exact I1.
  - apply keys_addz_NoDup. exact I2.
  - intros o d. rewrite getz_addz_any, I3. unfold osum. rewrite E.
    assert (X : msum (own_in s' o d) (addz (prov, q_fd q) e (earned s)) = msum (own_in s o d) (addz (prov, q_fd q) e (earned s))).
    { unfold msum. apply f_equal. apply map_ext. intros e0. unfold own_in, owner_of. rewrite W. reflexivity. }
    rewrite X, msum_own_addz. simpl.
    destruct (eq_dec (o, d) (owner_of s prov, q_fd q)) as [Eq|Hne].
    + inversion Eq; subst. rewrite eqb_refl, !Z.eqb_refl. reflexivity.
    + assert (Eb : eqb (o, d) (owner_of s prov, q_fd q) = false) by (apply eqb_false_iff; exact Hne). rewrite Eb.
      destruct (Z.eqb_spec (q_fd q) d) as [E1|E1]; destruct (Z.eqb_spec (owner_of s prov) o) as [E2|E2]; simpl; try lia. subst. congruence.
  - exact I4.
  - intros rid0 q0 Hin. apply in_set in Hin. destruct Hin as [Ek|Hin]; [|eapply I5; exact Hin]. inversion Ek; subst. rewrite Hp'. exact Hown.
  - intros p d v Hin. apply in_addz in Hin. destruct Hin as [Ek|Hin]; [inversion Ek; subst; exact Hown|eapply I6; exact Hin].
Qed.

(** *** a per-provider withdrawal *)
Lemma msum_own_del_acct s s' o d prov :
  earned s' = del_acct prov (earned s) -> owners s' = owners s ->
  osum s' o d = osum s o d - (if owner_of s prov =? o then msum (earn_in d) (filter (fun e => fst (fst e) =? prov) (earned s)) else 0).
Proof.
  intros E W. unfold osum. rewrite E.
  assert (X : forall m, msum (own_in s' o d) m = msum (own_in s o d) m).
  { intros m. unfold msum. apply f_equal. apply map_ext. intros e0. unfold own_in, owner_of. rewrite W. reflexivity. }
  rewrite X. unfold del_acct. unfold msum.
  rewrite (msum_filter_split (own_in s o d) (fun e => fst (fst e) =? prov) (earned s)).
  assert (Y : forall m0 : list (Z * Z * Z), zsum (map (own_in s o d) (filter (fun e => fst (fst e) =? prov) m0))
              = if owner_of s prov =? o then zsum (map (earn_in d) (filter (fun e => fst (fst e) =? prov) m0)) else 0).
  { clear. induction m0 as [|[[p0 d0] v] m IH]; simpl; [destruct (_ =? _); reflexivity|].
    destruct (Z.eqb_spec p0 prov) as [->|Hne]; simpl; [|exact IH]. rewrite IH. unfold own_in, earn_in. simpl.
    destruct (owner_of s prov =? o); destruct (d0 =? d); simpl; lia. }
  rewrite Y. lia.
Qed.

Lemma withdraw_tally s owner prov s' :
  withdraw s owner prov = Okk s' ->
  get prov (owners s) = Some owner
  /\ earned s' = del_acct prov (earned s) /\ owners s' = owners s /\ reqs s' = reqs s /\ binds s' = binds s
  /\ (let ef := coins_of prov (earned s) in let oe := coins_of owner (oearned s) in
      (coins_equal ef oe = true /\ oearned s' = del_acct owner (oearned s))
      \/ (coins_equal ef oe = false /\ exists rem, coins_sub oe ef = Some rem /\ oearned s' = set_coins owner rem (del_acct owner (oearned s)))).
Proof.
  unfold withdraw. intros H.
  match type of H with (if negb ?g then _ else _) = _ => destruct g eqn:E0; [|discriminate] end.
  cbv beta iota zeta delta [negb] in H.
  destruct (get prov (owners s)) as [o|] eqn:Eo; [|discriminate].
  destruct (Z.eqb_spec o owner) as [->|Hne]; [|discriminate]. cbv beta iota zeta in H.
  destruct (coins_equal (coins_of prov (earned s)) (coins_of owner (oearned s))) eqn:Ec.
  - destruct (send_all _ _ _ _) as [l|]; [|discriminate]. inversion H; subst. simpl.
    split; [reflexivity|]. repeat split; try reflexivity. left. split; reflexivity.
  - destruct (coins_sub (coins_of owner (oearned s)) (coins_of prov (earned s))) as [rem|] eqn:Es; [|discriminate].
    destruct (send_all _ _ _ _) as [l|]; [|discriminate]. inversion H; subst. simpl.
    split; [reflexivity|]. repeat split; try reflexivity. right. split; [reflexivity|]. exists rem. split; reflexivity.
Qed.

Lemma keys_del_acct_NoDup a (m : amap (Z * Z) Z) : NoDup (keys m) -> NoDup (keys (del_acct a m)).
Proof. intros H. unfold del_acct. apply keys_filter_NoDup. exact H. Qed.

Lemma keys_set_coins_NoDup a cs : forall (m : amap (Z * Z) Z), NoDup (keys m) -> NoDup (keys (set_coins a cs m)).
Proof. induction cs as [|[d x] cs IH]; simpl; intros m H; [exact H|]. apply IH. apply keys_set_NoDup. exact H. Qed.

Lemma existsb_keys d (cs : list (Z * Z)) : existsb (fun e => fst e =? d) cs = true <-> In d (map fst cs).
Proof.
  rewrite existsb_exists, in_map_iff. split.
  - intros ([d0 x] & Hin & E). simpl in E. apply Z.eqb_eq in E. subst. exists (d, x). split; [reflexivity|exact Hin].
  - intros ([d0 x] & E & Hin). simpl in E. subst. exists (d, x). split; [exact Hin|simpl; apply Z.eqb_refl].
Qed.

Lemma getz_notin d (cs : list (Z * Z)) : ~ In d (map fst cs) -> getz d cs = 0.
Proof.
  intros Hn. unfold getz. destruct (get d cs) as [v|] eqn:E; [|reflexivity]. exfalso. apply Hn. eapply get_Some_keys. exact E.
Qed.

Lemma TInv_withdraw s owner prov s' : withdraw s owner prov = Okk s' -> TInv s -> TInv s'.
Proof.
  intros H [I1 I2 I3 I4 I5 I6].
  destruct (withdraw_tally _ _ _ _ H) as (Ho & E & W & R & B & Hoe).
  assert (Hown : owner_of s prov = owner) by (unfold owner_of; rewrite Ho; reflexivity).
  pose proof (coins_of_keys prov (earned s) I1) as Nef. pose proof (coins_of_keys owner (oearned s) I2) as Noe.
  (* what the provider held, per denom *)
  assert (Hpd : forall d, msum (earn_in d) (filter (fun e => fst (fst e) =? prov) (earned s)) = getz (prov, d) (earned s)).
  { intros d. rewrite <- amt_coins_of, amt_get by exact Nef. apply getz_coins_of. }
  assert (Hsum : forall o d, osum s' o d = osum s o d - (if owner =? o then getz (prov, d) (earned s) else 0)).
  { intros o d. rewrite (msum_own_del_acct s s' o d prov E W), Hown, Hpd. reflexivity. }
  assert (Hoe' : forall o d, getz (o, d) (oearned s') = if o =? owner then getz (owner, d) (oearned s) - getz (prov, d) (earned s) else getz (o, d) (oearned s)).
  { intros o d. cbv zeta in Hoe. destruct Hoe as [(Ec & O)|(Ec & rem & Es & O)]; rewrite O.
    - rewrite getz_del_acct. destruct (Z.eqb_spec o owner) as [->|Hne]; [|reflexivity].
      pose proof (coins_equal_getz _ _ Nef Noe Ec d) as G. rewrite !getz_coins_of in G. lia.
    - unfold coins_sub in Es. destruct (forallb _ (coins_of prov (earned s))) eqn:Ef; [|discriminate].
      destruct (coins_sub_aux_spec _ _ _ Noe Es) as (Nr & Sr & Gr & Zr).
      rewrite getz_set_coins by exact Nr. rewrite getz_del_acct.
      destruct (Z.eqb_spec o owner) as [->|Hne]; simpl; [|reflexivity].
      specialize (Gr d). rewrite !getz_coins_of in Gr.
      destruct (existsb (fun e : Z * Z => fst e =? d) rem) eqn:Er.
      + rewrite Gr. assert (Ha : existsb (fun e : Z * Z => fst e =? d) (coins_of owner (oearned s)) = true).
        { apply existsb_keys. apply Sr. apply existsb_keys. exact Er. }
        rewrite Ha. reflexivity.
      + destruct (existsb (fun e : Z * Z => fst e =? d) (coins_of owner (oearned s))) eqn:Ea.
        * pose proof (Zr d Er Ea) as Z1. rewrite !getz_coins_of in Z1. lia.
        * (* the owner holds nothing in d: neither does the provider *)
          assert (G0 : getz (owner, d) (oearned s) = 0).
          { rewrite <- getz_coins_of. apply getz_notin. intros Hin. apply existsb_keys in Hin. congruence. }
          assert (P0 : getz (prov, d) (earned s) = 0).
          { rewrite <- getz_coins_of. unfold getz. destruct (get d (coins_of prov (earned s))) as [v|] eqn:Eg; [|reflexivity].
            rewrite forallb_forall in Ef. specialize (Ef _ (get_In _ _ _ Eg)). simpl in Ef.
            apply orb_true_iff in Ef. destruct Ef as [Eh|Ez]; [|apply Z.eqb_eq in Ez; exact Ez].
            exfalso. unfold has in Eh. destruct (get d (coins_of owner (oearned s))) as [w|] eqn:Ew; [|discriminate].
            apply get_Some_keys in Ew. apply existsb_keys in Ew. congruence. }
          lia. }
  constructor; rewrite ?W, ?R, ?B.
  - rewrite E. apply keys_del_acct_NoDup. exact I1.
  - cbv zeta in Hoe. destruct Hoe as [(_ & O)|(_ & rem & _ & O)]; rewrite O;
      [|apply keys_set_coins_NoDup]; apply keys_del_acct_NoDup; exact I2.
  - intros o d. rewrite Hoe', Hsum, <- !I3. destruct (Z.eqb_spec o owner) as [->|Hne].
    + rewrite Z.eqb_refl. reflexivity.
    + destruct (Z.eqb_spec owner o); [congruence|]. lia.
  - exact I4.
  - exact I5.
  - rewrite E. intros p d v Hin. unfold del_acct in Hin. apply filter_In in Hin. eapply I6. exact (proj1 Hin).
Qed.

(** *** bindings *)
Lemma binds_set_existing (k : Z * Z) (b b0 : binding) m : get k m = Some b0 ->
  forall k' b', get k' (set k b m) = Some b' -> exists b1, get k' m = Some b1.
Proof.
  intros Hg k' b' H. destruct (eq_dec k' k) as [->|Hne]; [exists b0; exact Hg|].
  rewrite get_set_other in H by exact Hne. exists b'. exact H.
Qed.

Lemma has_set_mono {K V} `{EqDec K} (k k' : K) (v : V) m : has k' m = true -> has k' (set k v m) = true.
Proof. intros Hh. destruct (eq_dec k' k) as [->|Hne]; [apply has_set_same|rewrite has_set_other by exact Hne; exact Hh]. Qed.

Lemma TInv_bind c s svc prov depd depa pr qos optok owner s' :
  bind c s svc prov depd depa pr qos optok owner = Okk s' -> TInv s -> TInv s'.
Proof.
  intros H [I1 I2 I3 I4 I5 I6]. unfold bind in H. destruct pr as [[[pd pa] pt] pv].
  repeat match type of H with (if ?g then Rejj else _) = _ => destruct g; [discriminate|] end.
  destruct (min_deposit c s pd pa) as [m|]; [|discriminate]. destruct (depa <? m); [discriminate|].
  destruct (send (led s) owner DEP BASE depa) as [l|]; [|discriminate].
  destruct (get prov (owners s)) as [o|] eqn:Eo; inversion H; subst s'; clear H.
  - (* the provider already has an owner *)
    assert (Hh : has prov (owners s) = true) by (unfold has; rewrite Eo; reflexivity).
    constructor; cbn [earned oearned owners binds reqs with_binds with_led with_owners]; try assumption.
    intros svc0 p b Hg. destruct (eq_dec (svc0, p) (svc, prov)) as [E|Hne]; [inversion E; subst; exact Hh|].
    rewrite get_set_other in Hg by exact Hne. eapply I4. exact Hg.
  - (* first binding of this provider: it has earned nothing yet *)
    assert (Hno : forall e, In e (earned s) -> fst (fst e) <> prov).
    { intros [[p d] v] Hin E. simpl in E. subst p. pose proof (I6 _ _ _ Hin) as Hh. unfold has in Hh. rewrite Eo in Hh. discriminate. }
    constructor; cbn [earned oearned owners binds reqs with_binds with_led with_owners]; try assumption.
    + intros o0 d. rewrite I3. symmetry. apply osum_ext; [reflexivity|]. intros e Hin. unfold owner_of. cbn [owners with_owners with_binds with_led].
      rewrite get_set_other by (apply Hno; exact Hin). reflexivity.
    + intros svc0 p b Hg. destruct (eq_dec (svc0, p) (svc, prov)) as [E|Hne]; [inversion E; subst; apply has_set_same|].
      rewrite get_set_other in Hg by exact Hne. apply has_set_mono. eapply I4. exact Hg.
    + intros rid q Hin. apply has_set_mono. eapply I5. exact Hin.
    + intros p d v Hin. apply has_set_mono. eapply I6. exact Hin.
Qed.

(** steps that only rewrite bindings under existing keys / leave all five components alone *)
Ltac t_binds H s0 :=
  repeat dmn H; inversion H; subst; clear H;
  (eapply (TInv_reqs_binds s0);
    [reflexivity|reflexivity|reflexivity
    |intros rid0 q0 Hin0; exists rid0, q0; split; [exact Hin0|reflexivity]
    |intros svc0 p0 b0 Hg0; simpl in Hg0; first [eexists; exact Hg0 | eapply binds_set_existing; eassumption]
    |eassumption]).

Lemma TInv_exec_msg_plain c s txh m s' : exec_msg_plain c s txh m = Okk s' -> TInv s -> TInv s'.
Proof.
  intros H Hinv. destruct m; simpl in H.
  - unfold define in H. t_binds H s.
  - eapply TInv_bind; eassumption.
  - unfold update_binding in H. t_binds H s.
  - unfold set_withdraw in H. t_binds H s.
  - unfold enable in H. t_binds H s.
  - unfold disable in H. t_binds H s.
  - unfold refund_deposit in H. t_binds H s.
  - unfold call in H. destruct (negb _); [discriminate|].
    destruct (create_context _ _ _ _ _ _ _ _ _ _ _ _ _ _ _ _) as [[s1 id]|] eqn:E; [|discriminate].
    inversion H; subst. unfold create_context in E. t_binds E s.
  - eapply TInv_respond; eassumption.
  - unfold msg_ctl, k_pause in H. t_binds H s.
  - unfold msg_ctl, k_start in H. t_binds H s.
  - unfold msg_ctl, k_kill in H. t_binds H s.
  - unfold update_context in H. t_binds H s.
  - eapply TInv_withdraw; eassumption.
Qed.

Lemma filter_provs_bound s x : forall ps0 ps, filter_provs s x ps0 = Some ps ->
  forall p, In p ps -> exists b, get (x_svc x, p) (binds s) = Some b.
Proof.
  induction ps0 as [|p0 ps0 IH]; simpl; intros ps H p Hin; [inversion H; subst; contradiction|].
  destruct (get (x_svc x, p0) (binds s)) as [b|] eqn:Eg; [|eapply IH; eassumption].
  destruct (b_avail b && (b_qos b <=? x_timeout x)); [|eapply IH; eassumption].
  match type of H with match ?g with _ => _ end = _ => destruct g; [|discriminate] end.
  destruct (filter_provs s x ps0) as [ps'|] eqn:Ef; [|discriminate].
  destruct (dec_truncate_int _ <=? x_cap x); inversion H; subst; [|eapply IH; [reflexivity|exact Hin]].
  destruct Hin as [<-|Hin]; [exists b; exact Eg|eapply IH; [reflexivity|exact Hin]].
Qed.

(** *** a call to a module-served service *)
Lemma TInv_call_module c s txh svc provs cons inok capd capa timeout rep freq total s' :
  call_module c s txh svc provs cons inok capd capa timeout rep freq total = Okk s' -> TInv s -> TInv s'.
Proof.
  unfold call_module. intros H Hinv.
  destruct (negb _); [discriminate|].
  destruct (create_context c s txh svc [c_mprov c] cons inok capd capa 1 false 0 0 0 0 false) as [[s1 id]|] eqn:E1; [|discriminate].
  assert (T1 : TInv s1) by (clear H; unfold create_context in E1; t_binds E1 s).
  destruct (get id (ctxs s1)) as [x|] eqn:Ex; [|discriminate].
  destruct (filter_provs s1 x (x_provs x)) as [[|p0 ps]|] eqn:Ef; try discriminate.
  destruct (debit_all (led s1) (x_cons x) (total_fees s1 x [c_mprov c])) as [l|]; [|discriminate].
  set (sl := with_led s1 (credit_all l REQ (total_fees s1 x [c_mprov c]))) in *.
  set (s2 := initiate_ms sl id x [c_mprov c]) in *.
  (* the provider that passed the filter is the module's provider, and it is bound *)
  assert (Hxp : x_provs x = [c_mprov c] /\ x_svc x = svc).
  { clear -E1 Ex. unfold create_context in E1. repeat dmn E1; inversion E1; subst; clear E1; simpl in Ex;
      rewrite get_set_same in Ex; inversion Ex; subst; split; reflexivity. }
  destruct Hxp as (Hxp & Hxs).
  assert (Hb : exists b, get (x_svc x, c_mprov c) (binds s1) = Some b).
  { apply (filter_provs_bound s1 x _ _ Ef). rewrite Hxp in Ef. simpl in Ef.
    destruct (get (x_svc x, c_mprov c) (binds s1)) as [b|]; [|discriminate].
    destruct (b_avail b && (b_qos b <=? x_timeout x)); [|discriminate].
    match type of Ef with match ?g with _ => _ end = _ => destruct g; [|discriminate] end.
    destruct (dec_truncate_int _ <=? x_cap x); inversion Ef; subst. left. reflexivity. }
  destruct Hb as (b & Hb).
  assert (T2 : TInv s2).
  { destruct T1 as [I1 I2 I3 I4 I5 I6].
    constructor; cbn [earned oearned owners binds reqs initiate_ms with_ctxs with_reqs with_led sl]; try assumption.
    intros rid q Hin. apply in_fold_set in Hin. destruct Hin as [Hin|Hin]; [|eapply I5; exact Hin].
    assert (Hp : In (q_prov q) [c_mprov c]).
    { rewrite <- (mk_requests_provs sl x id (x_batch x + 1) [c_mprov c] 0). apply in_map_iff. exists (rid, q). split; [reflexivity|exact Hin]. }
    destruct Hp as [<-|[]]. eapply I4. exact Hb. }
  destruct (respond c s2 (id, x_batch x + 1, height s, 0) (c_mprov c) 1) as [s3| |] eqn:Er; try discriminate.
  pose proof (TInv_respond _ _ _ _ _ _ Er T2) as T3. cbv beta iota in H. injection H as <-.
  eapply (TInv_reqs_binds s3); [reflexivity|reflexivity|reflexivity| | |exact T3].
  - intros rid0 q0 Hin0. exists rid0, q0. split; [exact Hin0|reflexivity].
  - intros svc0 p1 b0 Hg0. eexists. exact Hg0.
Qed.

Lemma TInv_exec_msg c s txh m s' : exec_msg c s txh m = Okk s' -> TInv s -> TInv s'.
Proof.
  intros H Hinv. destruct m; cbn [exec_msg] in H; try (eapply TInv_exec_msg_plain; eassumption).
  - destruct (module_served c svc); [discriminate|]. eapply TInv_bind; eassumption.
  - destruct (module_served c svc); [eapply TInv_call_module; eassumption|].
    eapply (TInv_exec_msg_plain c s txh (MCall svc provs cons inok capd capa timeout rep freq total)); eassumption.
Qed.

(** *** the end blocker *)
Lemma TInv_slash c s svc prov : TInv s -> TInv (slash c s svc prov).
Proof.
  intros Hinv. unfold slash. destruct (get (svc, prov) (binds s)) as [b|] eqn:Eg; [|exact Hinv].
  destruct (b_dep b <? _); [exact Hinv|]. destruct (send _ _ _ _ _); [|exact Hinv].
  eapply (TInv_reqs_binds s); [reflexivity|reflexivity|reflexivity| | |exact Hinv].
  - intros rid0 q0 Hin0. exists rid0, q0. split; [exact Hin0|reflexivity].
  - intros svc0 p0 b0 Hg0. cbn [binds with_binds with_led] in Hg0. eapply binds_set_existing; eassumption.
Qed.

Lemma slash_owners c s svc prov : owners (slash c s svc prov) = owners s.
Proof.
  unfold slash. destruct (get _ (binds s)) as [b|]; [|reflexivity]. destruct (b_dep b <? _); [reflexivity|].
  destruct (send _ _ _ _ _); reflexivity.
Qed.

Lemma TInv_expire c x s rid q :
  TInv s -> has (q_prov q) (owners s) = true ->
  TInv (expire_request c x s (rid, q)) /\ owners (expire_request c x s (rid, q)) = owners s.
Proof.
  intros Hinv Hh. unfold expire_request.
  pose proof (TInv_slash c s (x_svc x) (q_prov q) Hinv) as H1. pose proof (slash_owners c s (x_svc x) (q_prov q)) as W1.
  set (s1 := slash c s (x_svc x) (q_prov q)) in *. clearbody s1. rewrite <- W1 in Hh.
  assert (G : forall l, TInv (with_g_out (with_reqs (with_led s1 l) (set rid (rq_active q false) (reqs s1))) (g_out s1 ++ [(rid, 2)]))).
  { intros l. destruct H1 as [J1 J2 J3 J4 J5 J6].
    constructor; cbn [earned oearned owners binds reqs with_g_out with_reqs with_led]; try assumption.
    intros rid0 q0 Hin0. apply in_set in Hin0. destruct Hin0 as [E|Hin0]; [inversion E; subst; exact Hh|eapply J5; exact Hin0]. }
  destruct (send (led s1) REQ (x_cons x) (q_fd q) (q_fee q)) as [l|].
  - split; [apply G|exact W1].
  - split; [|exact W1]. destruct H1 as [J1 J2 J3 J4 J5 J6].
    constructor; cbn [earned oearned owners binds reqs with_g_out with_reqs with_led]; try assumption.
    intros rid0 q0 Hin0. apply in_set in Hin0. destruct Hin0 as [E|Hin0]; [inversion E; subst; exact Hh|eapply J5; exact Hin0].
Qed.

Lemma TInv_expire_fold c x : forall act s,
  TInv s -> (forall e, In e act -> has (q_prov (snd e)) (owners s) = true) -> TInv (fold_left (expire_request c x) act s).
Proof.
  induction act as [|[rid q] act IH]; cbn [fold_left]; intros s Hinv Hall; [exact Hinv|].
  destruct (TInv_expire c x s rid q Hinv (Hall (rid, q) (or_introl eq_refl))) as (H1 & W1).
  apply IH; [exact H1|]. intros e He. rewrite W1. apply Hall. right. exact He.
Qed.

Lemma TInv_expired_handler c s id : TInv s -> TInv (expired_batch_handler c s id).
Proof.
  intros Hinv. unfold expired_batch_handler. destruct (get id (ctxs s)) as [x|]; [|exact Hinv].
  set (pr := if x_brun x then _ else (s, x)).
  assert (H1 : TInv (fst pr)).
  { subst pr. destruct (x_brun x); [|exact Hinv]. simpl.
    assert (F : TInv (fold_left (expire_request c x) (filter (fun e => in_batch id (x_batch x) e && q_active (snd e)) (reqs s)) s)).
    { apply TInv_expire_fold; [exact Hinv|]. intros [r q] Hin. apply filter_In in Hin. simpl. eapply (t_u2 _ Hinv). exact (proj1 Hin). }
    destruct (x_mod x); [|exact F]. eapply (TInv_same _ _ _ F). Unshelve. unfold callback. destruct (get id (ctxs _)); repeat split. }
  destruct pr as [s1 x1]. simpl in H1. cbv zeta.
  match goal with |- TInv (with_reqs ?t (filter ?f (reqs ?t))) =>
    assert (Ht : earned t = earned s1 /\ oearned t = oearned s1 /\ owners t = owners s1 /\ reqs t = reqs s1 /\ binds t = binds s1) end.
  { destruct (x_state x1 =? 2); destruct (x_state x1 =? 0); try destruct (x_rep x1 && _); repeat split. }
  destruct Ht as (A & B & C & D & E).
  match goal with |- TInv (with_reqs ?t _) => set (tt := t) in *; clearbody tt end.
  eapply (TInv_reqs_binds s1); [exact A|exact B|exact C| | |exact H1].
  - intros rid0 q0 Hin0. cbn [reqs with_reqs] in Hin0. apply filter_In in Hin0. exists rid0, q0. rewrite <- D. split; [exact (proj1 Hin0)|reflexivity].
  - intros svc0 p0 b0 Hg0. cbn [binds with_reqs] in Hg0. rewrite E in Hg0. eexists. exact Hg0.
Qed.

Lemma TInv_new_handler s id : TInv s -> TInv (new_batch_handler s id).
Proof.
  intros Hinv. unfold new_batch_handler. destruct (get id (ctxs s)) as [x|]; [|exact Hinv].
  destruct (x_state x =? 0); [|eapply TInv_same; [|exact Hinv]; repeat split].
  destruct (filter_provs s x (x_provs x)) as [ps|] eqn:Ef; [|eapply TInv_same; [|exact Hinv]; repeat split].
  cbv zeta. destruct ((0 <? Z.of_nat (length ps)) && (x_thr x <=? Z.of_nat (length ps))); [|eapply TInv_same; [|exact Hinv]; repeat split].
  destruct (debit_all (led s) (x_cons x) (total_fees s x ps)) as [l|].
  2: { eapply TInv_same; [|exact Hinv]. unfold on_paused. destruct (x_mod x); repeat split. }
  set (sl := with_led s (credit_all l REQ (total_fees s x ps))).
  set (rs := mk_requests sl x id (x_batch x + 1) 0 ps).
  match goal with |- TInv ?t => assert (Ht : earned t = earned s /\ oearned t = oearned s /\ owners t = owners s
      /\ reqs t = fold_left (fun m e => set (fst e) (snd e) m) rs (reqs s) /\ binds t = binds s) by (repeat split);
    set (tt := t) in *; clearbody tt end.
  destruct Ht as (A & B & C & D & E). destruct Hinv as [I1 I2 I3 I4 I5 I6].
  constructor; rewrite ?A, ?B, ?C, ?E; try assumption.
  - intros o d. rewrite I3. symmetry. apply osum_ext; [exact A|]. intros e _. unfold owner_of. rewrite C. reflexivity.
  - rewrite D. intros rid q Hin. apply in_fold_set in Hin. destruct Hin as [Hin|Hin]; [|eapply I5; exact Hin].
    assert (Hp : In (q_prov q) ps).
    { rewrite <- (mk_requests_provs sl x id (x_batch x + 1) ps 0). fold rs. apply in_map_iff. exists (rid, q). split; [reflexivity|exact Hin]. }
    destruct (filter_provs_bound s x _ _ Ef _ Hp) as (b & Hb). eapply I4. exact Hb.
Qed.

Lemma TInv_apply c s st : TInv s -> TInv (apply c s st).
Proof.
  intros Hinv. unfold apply. destruct (exec_step c s st) as [s'| |] eqn:E; try exact Hinv.
  destruct st; simpl in E.
  - eapply TInv_exec_msg; eassumption.
  - destruct (0 <=? dt); [|discriminate]. inversion E; subst. unfold end_block. cbv zeta.
    set (s1 := fold_left (expired_batch_handler c) _ s).
    assert (H1 : TInv s1) by (subst s1; apply fold_left_inv; [intros; apply TInv_expired_handler; assumption|exact Hinv]).
    set (s2 := fold_left new_batch_handler _ s1).
    assert (H2 : TInv s2) by (subst s2; apply fold_left_inv; [intros; apply TInv_new_handler; assumption|exact H1]).
    eapply TInv_same; [|exact H2]. repeat split.
  - inversion E; subst. eapply TInv_same; [|exact Hinv]. repeat split.
  - t_binds E s.
  - destruct (create_context _ _ _ _ _ _ _ _ _ _ _ _ _ _ _ _) as [[s1 id]|] eqn:E1; [|discriminate].
    inversion E; subst. unfold create_context in E1. t_binds E1 s.
  - unfold k_pause in E. t_binds E s.
  - unfold k_start in E. t_binds E s.
  - unfold k_kill in E. t_binds E s.
  - eapply TInv_bind; eassumption.
Qed.

Lemma TInv_init h0 t0 l0 : TInv (init h0 t0 l0).
Proof. constructor; simpl; try constructor; try (intros; contradiction); try (intros; discriminate); try (intros; reflexivity). Qed.

Theorem provider_owner_tallies_agree_lemma :
  forall c steps h0 t0 l0 o d,
    let s := run c (init h0 t0 l0) steps in
    getz (o, d) (oearned s) = osum s o d.
Proof.
  intros c steps h0 t0 l0 o d s.
  assert (H : TInv s) by (subst s; apply run_inv; [intros; apply TInv_apply; assumption|apply TInv_init]).
  exact (t_eq _ H o d).
Qed.

(** ** C08: consequences of the scheduling invariant, over every history with fresh context ids *)
Theorem active_requests_lemma :
  forall c steps h0 t0 l0,
    c_msvc c < 0 ->
    fresh_history c (init h0 t0 l0) steps ->
    let s := run c (init h0 t0 l0) steps in
    (forall rid q, get rid (reqs s) = Some q -> q_active q = true ->
       exists x, get (rid_ctx rid) (ctxs s) = Some x /\ x_brun x = true /\ rid_b rid = x_batch x)
    /\ (forall id x, get id (ctxs s) = Some x -> x_brun x = true ->
          nact id (reqs s) <= x_breq x - x_bresp x /\ has id (expmark s) = true)
    /\ (forall h id x, In (h, id) (newq s) -> get id (ctxs s) = Some x -> x_brun x = false /\ get id (newmark s) = Some h).
Proof.
  intros c steps h0 t0 l0 Hm Hf s. destruct (SInv_reachable c steps h0 t0 l0 Hm Hf) as (Q & B). fold s in Q, B.
  split; [exact (b_act _ B)|]. split.
  - intros id x Hg Hr. split; [exact (b_count _ B id x Hg Hr)|exact (q_run_mark _ Q id x Hg Hr)].
  - intros h id x Hin Hg. split; [exact (q_new_closed _ Q h id x Hin Hg)|exact (q_new_mark _ Q h id Hin)].
Qed.
