(** * Service: lemmas about the model — fee accounting of one batch, one response, one
    expiry, one slash (C07); authority, addressee, pause, one-shot removal, schedule (C08). *)
From Irismod Require Import Service.Model.
From Coq Require Import ZifyBool.

(** ** coin sets *)
Definition amt (d : Z) (cs : list (Z * Z)) : Z :=
  zsum (map (fun e : Z * Z => if fst e =? d then snd e else 0) cs).

Lemma amt_coins_add d d' x l : amt d (coins_add d' x l) = amt d l + (if d' =? d then x else 0).
Proof.
  induction l as [|[d0 y] l IH]; simpl.
  - unfold amt; simpl. lia.
  - destruct (d' =? d0) eqn:E1.
    + apply Z.eqb_eq in E1; subst d0. unfold amt; simpl. destruct (d' =? d); lia.
    + destruct (d' <? d0) eqn:E2.
      * unfold amt; simpl. destruct (d' =? d); destruct (d0 =? d); lia.
      * unfold amt in *; simpl. rewrite IH. lia.
Qed.

Lemma bal_set_same (l : ledger) a d v : bal (set (a, d) v l) a d = v.
Proof. unfold bal. rewrite get_set_same. reflexivity. Qed.
Lemma bal_set_other (l : ledger) a d v a' d' : (a', d') <> (a, d) -> bal (set (a, d) v l) a' d' = bal l a' d'.
Proof. intros H. unfold bal. rewrite get_set_other by exact H. reflexivity. Qed.

Lemma debit_all_bal cs : forall l a l', debit_all l a cs = Some l' ->
  (forall d, bal l' a d = bal l a d - amt d cs)
  /\ (forall a' d, a' <> a -> bal l' a' d = bal l a' d).
Proof.
  induction cs as [|[d0 x] cs IH]; simpl; intros l a l' H.
  - inversion H; subst. split; intros; unfold amt; simpl; lia.
  - destruct (debit l a d0 x) as [l1|] eqn:E; [|discriminate].
    destruct (debit_Some _ _ _ _ _ E) as (Hx & Hs & Ho).
    destruct (IH _ _ _ H) as (H1 & H2). split.
    + intros d. rewrite H1. unfold amt; simpl. fold (amt d cs).
      destruct (Z.eqb_spec d0 d) as [->|Hne]; [rewrite Hs; lia|].
      rewrite Ho by congruence. lia.
    + intros a' d Hne. rewrite H2 by exact Hne. apply Ho. congruence.
Qed.

Lemma credit_all_bal cs : forall l a,
  (forall d, bal (credit_all l a cs) a d = bal l a d + amt d cs)
  /\ (forall a' d, a' <> a -> bal (credit_all l a cs) a' d = bal l a' d).
Proof.
  induction cs as [|[d0 x] cs IH]; simpl; intros l a.
  - split; intros; unfold amt; simpl; lia.
  - destruct (IH (credit l a d0 x) a) as (H1 & H2). split.
    + intros d. rewrite H1. unfold amt; simpl. fold (amt d cs).
      destruct (Z.eqb_spec d0 d) as [->|Hne]; [rewrite bal_credit_same; lia|].
      rewrite bal_credit_other by congruence. lia.
    + intros a' d Hne. rewrite H2 by exact Hne. apply bal_credit_other. congruence.
Qed.

(** ** C07: the consumer is charged exactly the fees recorded on the requests of the batch *)
Definition fees_in (d : Z) (rs : list (reqid * request)) : Z :=
  zsum (map (fun e : reqid * request => if q_fd (snd e) =? d then q_fee (snd e) else 0) rs).

Lemma total_fees_eq_request_fees s x id batch d : forall ps i,
  amt d (total_fees s x ps) = fees_in d (mk_requests s x id batch i ps).
Proof.
  induction ps as [|p ps IH]; intros i; simpl; [reflexivity|].
  destruct (fee_of s x p) as [fd fee] eqn:E. unfold fees_in; simpl. fold (fees_in d (mk_requests s x id batch (i + 1) ps)).
  rewrite <- (IH (i + 1)). destruct (Z.eqb_spec fee 0) as [->|Hne].
  - destruct (BASE =? d); lia.
  - rewrite amt_coins_add. lia.
Qed.

(** the requests a new batch creates, and the providers they are addressed to *)
Lemma mk_requests_provs s x id batch : forall ps i, map (fun e => q_prov (snd e)) (mk_requests s x id batch i ps) = ps.
Proof.
  induction ps as [|p ps IH]; intros i; simpl; [reflexivity|].
  destruct (fee_of s x p) as [fd fee]. simpl. rewrite IH. reflexivity.
Qed.

(** what [new_batch_handler] does when the batch is issued *)
Lemma new_batch_issued s id x ps l :
  get id (ctxs s) = Some x -> x_state x = 0 -> filter_provs s x (x_provs x) = Some ps ->
  ((0 <? Z.of_nat (length ps)) && (x_thr x <=? Z.of_nat (length ps))) = true ->
  debit_all (led s) (x_cons x) (total_fees s x ps) = Some l ->
  new_batch_handler s id =
    dequeue_new (initiate (with_led s (credit_all l REQ (total_fees s x ps))) id x ps) id.
Proof.
  intros Hg Hst Hf Hn Hd. unfold new_batch_handler. rewrite Hg, Hst. simpl. rewrite Hf. cbv zeta.
  rewrite Hn, Hd. reflexivity.
Qed.

Lemma led_dequeue_initiate s id x ps : led (dequeue_new (initiate s id x ps) id) = led s.
Proof. reflexivity. Qed.

Theorem consumer_charged_sum_of_request_fees_lemma :
  forall s id x ps l d,
    get id (ctxs s) = Some x -> x_state x = 0 -> filter_provs s x (x_provs x) = Some ps ->
    ((0 <? Z.of_nat (length ps)) && (x_thr x <=? Z.of_nat (length ps))) = true ->
    debit_all (led s) (x_cons x) (total_fees s x ps) = Some l ->
    x_cons x <> REQ ->
    let s' := new_batch_handler s id in
    let created := mk_requests s x id (x_batch x + 1) 0 ps in
    bal (led s') (x_cons x) d = bal (led s) (x_cons x) d - fees_in d created
    /\ bal (led s') REQ d = bal (led s) REQ d + fees_in d created
    /\ (forall a, a <> x_cons x -> a <> REQ -> bal (led s') a d = bal (led s) a d).
Proof.
  intros s id x ps l d Hg Hst Hf Hn Hd Hne s' created.
  subst s'. rewrite (new_batch_issued _ _ _ _ _ Hg Hst Hf Hn Hd). rewrite led_dequeue_initiate. simpl led.
  destruct (debit_all_bal _ _ _ _ Hd) as (D1 & D2).
  destruct (credit_all_bal (total_fees s x ps) l REQ) as (C1 & C2).
  unfold created. rewrite <- (total_fees_eq_request_fees s x id (x_batch x + 1) d ps 0).
  split; [|split].
  - rewrite C2 by exact Hne. apply D1.
  - rewrite C1. rewrite D2 by congruence. reflexivity.
  - intros a Ha1 Ha2. rewrite C2 by exact Ha2. apply D2. exact Ha1.
Qed.

(** ** arithmetic of tax and slash: [floor (amount * fraction)] *)
Lemma trunc_mul_frac a f : 0 <= a -> 0 <= f ->
  dec_truncate_int (dec_mul (dec_of_int a) f) = (a * f) / P18.
Proof.
  intros Ha Hf. unfold dec_mul, dec_of_int, chop_round.
  assert (Hnn : 0 <= a * f) by (apply Z.mul_nonneg_nonneg; assumption).
  assert (HP : 0 < P18) by reflexivity.
  replace (a * P18 * f) with (a * f * P18) by ring.
  destruct (a * f * P18 <? 0) eqn:E; [apply Z.ltb_lt in E; nia|].
  unfold chop_round_pos. rewrite Z_mod_mult. simpl (0 =? 0). cbv iota.
  rewrite Z_div_mult by (unfold P18; lia).
  apply dec_truncate_int_nonneg. exact Hnn.
Qed.

Definition tax_of (c : config) (fee : Z) : Z := dec_truncate_int (dec_mul (dec_of_int fee) (c_tax c)).
Definition slash_of (c : config) (dep : Z) : Z := dec_truncate_int (dec_mul (dec_of_int dep) (c_slash c)).

Lemma tax_of_floor c fee : 0 <= fee -> 0 <= c_tax c -> tax_of c fee = (fee * c_tax c) / P18.
Proof. intros. apply trunc_mul_frac; assumption. Qed.
Lemma slash_of_floor c dep : 0 <= dep -> 0 <= c_slash c -> slash_of c dep = (dep * c_slash c) / P18.
Proof. intros. apply trunc_mul_frac; assumption. Qed.

Lemma getz_addz {K} `{EqDec K} (k : K) x (m : amap K Z) : getz k (addz k x m) = getz k m + x.
Proof.
  unfold addz. destruct (Z.eqb_spec x 0) as [->|Hne]; [lia|].
  unfold getz at 1. rewrite get_set_same. reflexivity.
Qed.
Lemma getz_addz_other {K} `{EqDec K} (k k' : K) x (m : amap K Z) : k' <> k -> getz k' (addz k x m) = getz k' m.
Proof.
  intros Hne. unfold addz. destruct (x =? 0); [reflexivity|].
  unfold getz. rewrite get_set_other by exact Hne. reflexivity.
Qed.

(** ** C07 / C08: one response *)
Lemma add_earned_fee_spec c s prov fd fee s1 :
  add_earned_fee c s prov fd fee = Some s1 ->
  let tax := tax_of c fee in
  0 <= tax <= fee
  /\ send (led s) REQ TAX fd tax = Some (led s1)
  /\ getz (prov, fd) (earned s1) = getz (prov, fd) (earned s) + (fee - tax)
  /\ (forall k, k <> (prov, fd) -> getz k (earned s1) = getz k (earned s))
  /\ reqs s1 = reqs s /\ ctxs s1 = ctxs s /\ binds s1 = binds s /\ g_out s1 = g_out s
  /\ height s1 = height s /\ owners s1 = owners s.
Proof.
  intros H. cbv zeta. unfold add_earned_fee in H. fold (tax_of c fee) in H.
  destruct (send (led s) REQ TAX fd (tax_of c fee)) as [l|] eqn:E; [|discriminate].
  destruct (fee <? tax_of c fee) eqn:E2; [discriminate|]. inversion H; subst; clear H. simpl.
  destruct (send_Some _ _ _ _ _ _ E) as (Hx & _).
  split; [lia|]. split; [reflexivity|]. split; [apply getz_addz|].
  split; [intros k Hk; apply getz_addz_other; exact Hk|]. repeat split; reflexivity.
Qed.

(** a successful response: the request existed, was active, was addressed to the responding
    provider; afterwards it is inactive and carries a response; the fee is split between the
    provider's earned fees and the tax account, and nobody else's balance moves *)
Theorem respond_ok_lemma :
  forall c s rid prov kind s',
    respond c s rid prov kind = Okk s' ->
    exists q, get rid (reqs s) = Some q /\ q_prov q = prov /\ q_active q = true
      /\ (exists q', get rid (reqs s') = Some q' /\ q_active q' = false /\ q_resp q' <> 0
                     /\ q_prov q' = prov /\ q_fee q' = q_fee q /\ q_fd q' = q_fd q)
      /\ (forall rid', rid' <> rid -> get rid' (reqs s') = get rid' (reqs s))
      /\ let tax := tax_of c (q_fee q) in
         0 <= tax <= q_fee q
         /\ send (led s) REQ TAX (q_fd q) tax = Some (led s')
         /\ getz (prov, q_fd q) (earned s') = getz (prov, q_fd q) (earned s) + (q_fee q - tax)
         /\ (forall k, k <> (prov, q_fd q) -> getz k (earned s') = getz k (earned s))
         /\ g_out s' = g_out s ++ [(rid, 1)].
Proof.
  intros c s rid prov kind s' H. unfold respond in H.
  destruct rid as [[[id batch] hh] ii].
  destruct ((0 <=? prov) && negb (kind =? 2)); cbv beta iota zeta delta [negb] in H; [|discriminate].
  match type of H with context [@get reqid request ?i ?k (reqs s)] =>
    destruct (@get reqid request i k (reqs s)) as [q|] eqn:Eq end; [|discriminate].
  destruct (get id (ctxs s)) as [x|] eqn:Ex; [|discriminate].
  destruct (q_prov q =? prov) eqn:Ep; cbv beta iota zeta delta [negb] in H; [|discriminate]. apply Z.eqb_eq in Ep.
  destruct (q_active q) eqn:Ea; cbv beta iota zeta delta [negb] in H; [|discriminate].
  destruct (add_earned_fee c s prov (q_fd q) (q_fee q)) as [s1|] eqn:Ef; [|discriminate].
  destruct (add_earned_fee_spec _ _ _ _ _ _ Ef) as (T1 & T2 & T3 & T4 & R1 & R2 & R3 & R4 & _).
  exists q. split; [reflexivity|]. split; [exact Ep|]. split; [exact Ea|].
  set (q1 := rq_resp (rq_active q false) (if kind =? 1 then 2 else 1)) in *.
  assert (Hq1 : q_active q1 = false /\ q_resp q1 <> 0 /\ q_prov q1 = prov /\ q_fee q1 = q_fee q /\ q_fd q1 = q_fd q).
  { subst q1. simpl. repeat split; try assumption. destruct (kind =? 1); discriminate. }
  destruct (x_bresp (cx_bresp x (x_bresp x + 1)) =? x_breq (cx_bresp x (x_bresp x + 1))) eqn:Eb;
    [destruct (x_mod (cx_bresp x (x_bresp x + 1))) eqn:Em|]; inversion H; subst s'; clear H; simpl.
  - unfold callback. simpl. destruct (get id (ctxs s1)); simpl;
    (split; [exists q1; split; [rewrite R1; apply get_set_same|exact Hq1]|];
     split; [intros rid' Hne; rewrite R1; apply get_set_other; exact Hne|];
     split; [exact T1|]; split; [exact T2|]; split; [exact T3|]; split; [exact T4|]; rewrite R4; reflexivity).
  - split; [exists q1; split; [rewrite R1; apply get_set_same|exact Hq1]|].
    split; [intros rid' Hne; rewrite R1; apply get_set_other; exact Hne|].
    split; [exact T1|]. split; [exact T2|]. split; [exact T3|]. split; [exact T4|]. rewrite R4; reflexivity.
  - split; [exists q1; split; [rewrite R1; apply get_set_same|exact Hq1]|].
    split; [intros rid' Hne; rewrite R1; apply get_set_other; exact Hne|].
    split; [exact T1|]. split; [exact T2|]. split; [exact T3|]. split; [exact T4|]. rewrite R4; reflexivity.
Qed.

(** answers from anyone else, duplicate answers and answers after expiry are rejected; a
    rejected step leaves the state as it was ([apply]) *)
Theorem respond_rejected_lemma :
  forall c s rid prov kind,
    (match get rid (reqs s) with
     | Some q => q_prov q <> prov \/ q_active q = false
     | None => True end) ->
    respond c s rid prov kind = Rejj /\ apply c s (Tx 0 (MRespond rid prov kind)) = s.
Proof.
  intros c s rid prov kind H.
  assert (R : respond c s rid prov kind = Rejj).
  { unfold respond. destruct rid as [[[id batch] hh] ii].
    destruct ((0 <=? prov) && negb (kind =? 2)); simpl; [|reflexivity].
    match goal with |- context [@get reqid request ?i ?k (reqs s)] =>
      destruct (@get reqid request i k (reqs s)) as [q|] end; [|reflexivity].
    destruct (get id (ctxs s)); [|reflexivity].
    destruct H as [H|H].
    - destruct (Z.eqb_spec (q_prov q) prov); [contradiction|reflexivity].
    - rewrite H. destruct (q_prov q =? prov); reflexivity. }
  split; [exact R|]. unfold apply. simpl. rewrite R. reflexivity.
Qed.

(** ** C07: one slash *)
Theorem slash_amount_lemma :
  forall c s svc prov b,
    get (svc, prov) (binds s) = Some b ->
    0 <= b_dep b -> 0 <= c_slash c <= P18 ->
    b_dep b <= bal (led s) DEP BASE ->
    let amount := (b_dep b * c_slash c) / P18 in
    let s' := slash c s svc prov in
    0 <= amount <= b_dep b
    /\ bal (led s') DEP BASE = bal (led s) DEP BASE - amount
    /\ bal (led s') TAX BASE = bal (led s) TAX BASE + amount
    /\ (forall a d, (a, d) <> (DEP, BASE) -> (a, d) <> (TAX, BASE) -> bal (led s') a d = bal (led s) a d)
    /\ (exists b', get (svc, prov) (binds s') = Some b' /\ b_dep b' = b_dep b - amount /\ b_owner b' = b_owner b)
    /\ (forall k, k <> (svc, prov) -> get k (binds s') = get k (binds s)).
Proof.
  intros c s svc prov b Hg Hd Hf Hb amount s'.
  assert (Ha : 0 <= amount <= b_dep b).
  { subst amount. split; [apply Z.div_pos; [nia|reflexivity]|].
    apply Z.div_le_upper_bound; [reflexivity|]. nia. }
  split; [exact Ha|].
  subst s'. unfold slash. rewrite Hg. fold (slash_of c (b_dep b)).
  rewrite (slash_of_floor c (b_dep b) Hd (proj1 Hf)). fold amount.
  destruct (b_dep b <? amount) eqn:E; [lia|].
  destruct (send (led s) DEP TAX BASE amount) as [l|] eqn:Es.
  - destruct (send_Some _ _ _ _ _ _ Es) as (_ & S1 & _ & S3).
    destruct (S1 ltac:(discriminate)) as (S1a & S1b). simpl.
    split; [exact S1a|]. split; [exact S1b|]. split; [intros a d H1 H2; apply S3; assumption|].
    split.
    + rewrite get_set_same. eexists. split; [reflexivity|]. simpl.
      destruct (b_avail b); [|split; reflexivity].
      destruct (min_deposit c s (b_pd b) (b_pa b)) as [m|]; [destruct (m <=? _)|]; split; reflexivity.
    + intros k Hk. apply get_set_other. exact Hk.
  - exfalso. unfold send, debit in Es.
    replace ((0 <=? amount) && (amount <=? bal (led s) DEP BASE)) with true in Es by lia. discriminate.
Qed.

(** ** C07 / C08: one expiry.  The request is deactivated without a response and logged as
    expired; its fee goes from the request escrow to the consumer of the context; the
    provider's binding is slashed first. *)
Theorem expire_request_lemma :
  forall c x s rid q,
    let s1 := slash c s (x_svc x) (q_prov q) in
    let s' := expire_request c x s (rid, q) in
    0 <= q_fee q <= bal (led s1) REQ (q_fd q) -> x_cons x <> REQ ->
    bal (led s') (x_cons x) (q_fd q) = bal (led s1) (x_cons x) (q_fd q) + q_fee q
    /\ bal (led s') REQ (q_fd q) = bal (led s1) REQ (q_fd q) - q_fee q
    /\ (forall a d, (a, d) <> (REQ, q_fd q) -> (a, d) <> (x_cons x, q_fd q) -> bal (led s') a d = bal (led s1) a d)
    /\ get rid (reqs s') = Some (rq_active q false)
    /\ (forall rid', rid' <> rid -> get rid' (reqs s') = get rid' (reqs s))
    /\ g_out s' = g_out s ++ [(rid, 2)]
    /\ earned s' = earned s.
Proof.
  intros c x s rid q s1 s' Hfee Hne. subst s'. unfold expire_request. fold s1.
  assert (Hs1 : reqs s1 = reqs s /\ g_out s1 = g_out s /\ earned s1 = earned s).
  { subst s1. unfold slash. destruct (get _ (binds s)) as [b|]; [|repeat split].
    destruct (b_dep b <? _); [repeat split|]. destruct (send _ _ _ _ _); repeat split. }
  destruct Hs1 as (Q1 & Q2 & Q3).
  destruct (send (led s1) REQ (x_cons x) (q_fd q) (q_fee q)) as [l|] eqn:Es.
  - destruct (send_Some _ _ _ _ _ _ Es) as (_ & S1 & _ & S3).
    destruct (S1 ltac:(congruence)) as (S1a & S1b). simpl.
    split; [exact S1b|]. split; [exact S1a|]. split; [intros a d H1 H2; apply S3; assumption|].
    rewrite Q1, Q2, Q3. split; [apply get_set_same|]. split; [intros r Hr; apply get_set_other; exact Hr|].
    split; reflexivity.
  - exfalso. unfold send, debit in Es.
    replace ((0 <=? q_fee q) && (q_fee q <=? bal (led s1) REQ (q_fd q))) with true in Es by lia. discriminate.
Qed.

(** ** C08: authority.  A user control message succeeds only when sent by the consumer of a
    context that is not owned by a module. *)
Theorem only_consumer_controls_lemma :
  forall c s txh m s',
    exec_msg c s txh m = Okk s' ->
    match m with
    | MPause id cn | MStart id cn | MKill id cn | MUpdateCtx id _ _ _ _ _ _ cn =>
        exists x, get id (ctxs s) = Some x /\ x_cons x = cn /\ x_mod x = false
    | _ => True
    end.
Proof.
  intros c s txh m s' H.
  assert (A : forall id cn, check_authority s cn id true = true ->
              exists x, get id (ctxs s) = Some x /\ x_cons x = cn /\ x_mod x = false).
  { intros id cn. unfold check_authority. destruct (get id (ctxs s)) as [x|]; [|discriminate].
    intros E. exists x. split; [reflexivity|]. destruct (x_mod x); simpl in E; [lia|]. split; [lia|reflexivity]. }
  destruct m; try exact I; simpl in H.
  - unfold msg_ctl in H. destruct (negb (0 <=? cons)); [discriminate|].
    destruct (check_authority s cons id true) eqn:E; [|discriminate]. apply A. exact E.
  - unfold msg_ctl in H. destruct (negb (0 <=? cons)); [discriminate|].
    destruct (check_authority s cons id true) eqn:E; [|discriminate]. apply A. exact E.
  - unfold msg_ctl in H. destruct (negb (0 <=? cons)); [discriminate|].
    destruct (check_authority s cons id true) eqn:E; [|discriminate]. apply A. exact E.
  - unfold update_context in H.
    match type of H with (if negb ?g then _ else _) = _ => destruct g; [|discriminate] end.
    cbv beta iota zeta delta [negb] in H.
    destruct (check_authority s cons id true) eqn:E; [|discriminate]. apply A. exact E.
Qed.

(** keeper-level control (the path of a module that owns contexts): on a module-owned context
    only the registered consumer *)
Theorem module_context_control_lemma :
  forall c s st s',
    exec_step c s st = Okk s' ->
    match st with
    | ModPause id cn | ModStart id cn | ModKill id cn =>
        exists x, get id (ctxs s) = Some x /\ (x_mod x = true -> x_cons x = cn)
    | _ => True
    end.
Proof.
  intros c s st s' H. destruct st; try exact I; simpl in H.
  - unfold k_pause in H. destruct (get id (ctxs s)) as [x|] eqn:E; [|discriminate].
    exists x. split; [reflexivity|]. intros Hm. rewrite Hm in H. unfold check_authority in H. rewrite E in H.
    simpl in H. destruct (x_cons x =? cons) eqn:E2; [lia|]. simpl in H. discriminate.
  - unfold k_start in H. destruct (get id (ctxs s)) as [x|] eqn:E; [|discriminate].
    exists x. split; [reflexivity|]. intros Hm. rewrite Hm in H. unfold check_authority in H. rewrite E in H.
    simpl in H. destruct (x_cons x =? cons) eqn:E2; [lia|]. simpl in H. discriminate.
  - unfold k_kill in H. destruct (get id (ctxs s)) as [x|] eqn:E; [|discriminate].
    exists x. split; [reflexivity|]. intros Hm. rewrite Hm in H. unfold check_authority in H. rewrite E in H.
    simpl in H. destruct (x_cons x =? cons) eqn:E2; [lia|]. simpl in H. discriminate.
Qed.

(** ** C08: scheduling, one handler at a time *)

(** a context that is not RUNNING issues nothing when its new-batch entry falls due *)
Theorem paused_issues_nothing_lemma :
  forall s id x,
    get id (ctxs s) = Some x -> x_state x <> 0 ->
    let s' := new_batch_handler s id in
    reqs s' = reqs s /\ g_batches s' = g_batches s /\ ctxs s' = ctxs s /\ led s' = led s
    /\ expq s' = expq s /\ cblog s' = cblog s.
Proof.
  intros s id x Hg Hst s'. subst s'. unfold new_batch_handler. rewrite Hg.
  destruct (Z.eqb_spec (x_state x) 0); [contradiction|]. repeat split; reflexivity.
Qed.

(** a batch starts only for a RUNNING context, with the next batch number, at the current
    height; its expiry is registered [timeout] blocks later *)
Theorem batch_start_lemma :
  forall s id,
    let s' := new_batch_handler s id in
    g_batches s' = g_batches s
    \/ exists x, get id (ctxs s) = Some x /\ x_state x = 0
                 /\ g_batches s' = g_batches s ++ [(id, x_batch x + 1, height s)]
                 /\ get id (expmark s') = Some (height s + x_timeout x)
                 /\ (exists x', get id (ctxs s') = Some x' /\ x_batch x' = x_batch x + 1 /\ x_brun x' = true).
Proof.
  intros s id s'. subst s'. unfold new_batch_handler.
  destruct (get id (ctxs s)) as [x|] eqn:Hg; [|left; reflexivity].
  destruct (Z.eqb_spec (x_state x) 0) as [Hst|]; [|left; reflexivity].
  assert (SK : exists x', get id (ctxs (dequeue_new (skip_batch s id x) id)) = Some x' /\ x_batch x' = x_batch x + 1 /\ x_brun x' = true).
  { simpl. rewrite get_set_same. eexists. split; [reflexivity|]. split; reflexivity. }
  destruct (filter_provs s x (x_provs x)) as [ps|].
  - cbv zeta. destruct ((0 <? Z.of_nat (length ps)) && (x_thr x <=? Z.of_nat (length ps))).
    + destruct (debit_all (led s) (x_cons x) (total_fees s x ps)) as [l|].
      * right. exists x. split; [reflexivity|]. split; [exact Hst|]. simpl.
        split; [reflexivity|]. split; [apply get_set_same|].
        rewrite get_set_same. eexists. split; [reflexivity|]. split; reflexivity.
      * left. unfold on_paused. destruct (x_mod x); reflexivity.
    + right. exists x. split; [reflexivity|]. split; [exact Hst|]. simpl.
      split; [reflexivity|]. split; [apply get_set_same|]. exact SK.
  - right. exists x. split; [reflexivity|]. split; [exact Hst|]. simpl.
    split; [reflexivity|]. split; [apply get_set_same|]. exact SK.
Qed.

(** when the batch of a context expires: a one-shot context (and a repeated one that has
    reached its total) is removed; a repeated RUNNING context below its total is scheduled at
    (this height - timeout + frequency), i.e. [frequency] after the start of the batch when the
    timeout was not changed in between *)
Theorem batch_expiry_lemma :
  forall c s id x,
    get id (ctxs s) = Some x -> x_state x = 0 ->
    let s' := expired_batch_handler c s id in
    (x_rep x && ((x_total x <? 0) || (x_batch x <? x_total x)) = false -> get id (ctxs s') = None)
    /\ (x_rep x && ((x_total x <? 0) || (x_batch x <? x_total x)) = true ->
        get id (newmark s') = Some (height s - x_timeout x + x_freq x)
        /\ In (height s - x_timeout x + x_freq x, id) (newq s')
        /\ exists x', get id (ctxs s') = Some x' /\ x_brun x' = false /\ x_batch x' = x_batch x /\ x_state x' = 0).
Proof.
  intros c s id x Hg Hst s'. subst s'. unfold expired_batch_handler. rewrite Hg.
  set (pr := if x_brun x then _ else (s, x)).
  assert (Hx1 : x_state (snd pr) = 0 /\ x_rep (snd pr) = x_rep x /\ x_total (snd pr) = x_total x
                /\ x_batch (snd pr) = x_batch x /\ x_timeout (snd pr) = x_timeout x /\ x_freq (snd pr) = x_freq x
                /\ x_brun (snd pr) = false \/ x_brun x = false /\ snd pr = x).
  { subst pr. destruct (x_brun x) eqn:Eb; [left; simpl; repeat split; assumption|right; split; reflexivity]. }
  assert (Hh : height (fst pr) = height s).
  { subst pr. destruct (x_brun x); [|reflexivity]. simpl.
    assert (F : forall act s0, height (fold_left (expire_request c x) act s0) = height s0).
    { induction act as [|[r q] act IH]; intros s0; simpl; [reflexivity|]. rewrite IH. unfold expire_request.
      assert (height (slash c s0 (x_svc x) (q_prov q)) = height s0).
      { unfold slash. destruct (get _ (binds s0)) as [b|]; [|reflexivity]. destruct (b_dep b <? _); [reflexivity|].
        destruct (send _ _ _ _ _); reflexivity. }
      destruct (send _ _ _ _ _); simpl; assumption. }
    destruct (x_mod x); [unfold callback; match goal with |- context [get id (ctxs ?t)] => destruct (get id (ctxs t)) end; simpl|]; apply F. }
  destruct pr as [s1 x1]. simpl in Hx1, Hh.
  assert (Hx1' : x_state x1 = 0 /\ x_rep x1 = x_rep x /\ x_total x1 = x_total x /\ x_batch x1 = x_batch x
                 /\ x_timeout x1 = x_timeout x /\ x_freq x1 = x_freq x /\ x_brun x1 = false).
  { destruct Hx1 as [H|[H1 H2]]; [exact H|]. subst x1. repeat split; assumption. }
  destruct Hx1' as (E1 & E2 & E3 & E4 & E5 & E6 & E7).
  cbv zeta. rewrite E1. simpl (0 =? 2). simpl (0 =? 0). cbv iota. rewrite E2, E3, E4, E5, E6.
  split; intros Hc; rewrite Hc; simpl.
  - apply get_del_same.
  - split; [apply get_set_same|]. split.
    + unfold q_add. destruct (existsb _ _) eqn:Ex.
      * apply existsb_exists in Ex. destruct Ex as (e & He & Heq). apply (proj1 (eqb_true_iff _ _)) in Heq. subst e. exact He.
      * apply in_or_app. right. left. reflexivity.
    + rewrite get_set_same. exists x1. repeat split; assumption.
Qed.

(** ** chains on which no module serves a service itself: messages are the plain ones *)
Lemma exec_msg_plain_eq c s txh m : c_msvc c < 0 -> exec_msg c s txh m = exec_msg_plain c s txh m.
Proof.
  intros Hm. assert (E : forall svc, module_served c svc = false) by (intros svc; unfold module_served; destruct (0 <=? c_msvc c) eqn:E0; [lia|reflexivity]).
  destruct m; simpl; rewrite ?E; reflexivity.
Qed.
