(** * Service: context ids are fresh when distinct transactions have distinct hashes.
    A context id is (hash of the creating transaction, per-block index); [fresh_history] — the
    hypothesis of the scheduling / escrow / outcome theorems — follows from: the hashes carried by
    the context-creating steps of the history are pairwise distinct. *)
From Irismod Require Import Service.Model Service.Proofs Service.ProofsHist Service.ProofsEscrow Service.ProofsSched
  Service.ProofsBatch Service.ProofsLiab Service.ProofsModule.

Definition create_txh (st : step) : option Z :=
  match st with
  | Tx txh (MCall _ _ _ _ _ _ _ _ _ _) => Some txh
  | ModCreate txh _ _ _ _ _ _ _ _ _ _ => Some txh
  | _ => None
  end.
Fixpoint create_txhs (steps : list step) : list Z :=
  match steps with
  | [] => []
  | st :: r => match create_txh st with Some t => t :: create_txhs r | None => create_txhs r end
  end.

(** the stored context ids after a step: those before, plus (for a creating step) ids carrying its hash *)
Definition ids_sub (s s' : state) (new : option Z) : Prop :=
  forall id, has id (ctxs s') = true -> has id (ctxs s) = true \/ new = Some (fst id).

Lemma ids_sub_refl s n : ids_sub s s n.
Proof. intros id H. left. exact H. Qed.
Lemma ids_sub_same s s' n : ctxs s' = ctxs s -> ids_sub s s' n.
Proof. intros E id H. left. rewrite <- E. exact H. Qed.
Lemma ids_sub_trans s1 s2 s3 n : ids_sub s1 s2 n -> ids_sub s2 s3 None -> ids_sub s1 s3 n.
Proof. intros A B id H. destruct (B id H) as [H2|H2]; [apply A; exact H2|discriminate]. Qed.

Lemma has_set_inv {V} (k k' : ctxid) (v : V) m : has k' (set k v m) = true -> k' = k \/ has k' m = true.
Proof. destruct (eq_dec k' k) as [->|Hne]; [left; reflexivity|]. rewrite has_set_other by exact Hne. right. assumption. Qed.
Lemma has_del_inv {V} (k k' : ctxid) (m : amap ctxid V) : has k' (del k m) = true -> has k' m = true.
Proof. destruct (eq_dec k' k) as [->|Hne]; [rewrite has_del_same; discriminate|]. rewrite has_del_other by exact Hne. tauto. Qed.

(** a context rewritten under a stored id *)
Lemma ids_sub_set s id x x' t n : get id (ctxs s) = Some x -> ctxs t = set id x' (ctxs s) -> ids_sub s t n.
Proof.
  intros Hg E id0 H. left. rewrite E in H. apply has_set_inv in H. destruct H as [->|H]; [|exact H].
  unfold has. rewrite Hg. reflexivity.
Qed.

Lemma create_context_ids c s txh svc provs cons inok capd capa timeout rep freq total st thr md s' id :
  create_context c s txh svc provs cons inok capd capa timeout rep freq total st thr md = Some (s', id) ->
  ids_sub s s' (Some txh).
Proof.
  intros H. destruct (create_context_shape _ _ _ _ _ _ _ _ _ _ _ _ _ _ _ _ _ _ H) as (Hid & _ & _ & _ & _ & x & C & _).
  intros id0 Hh. rewrite C in Hh. apply has_set_inv in Hh. destruct Hh as [->|Hh]; [right; rewrite Hid; reflexivity|left; exact Hh].
Qed.

Ltac ids_frame H :=
  repeat dmn H; inversion H; subst; clear H;
  first [apply ids_sub_same; reflexivity | eapply ids_sub_set; [eassumption|reflexivity]].

Lemma respond_ids c s rid prov kind s' : respond c s rid prov kind = Okk s' -> ids_sub s s' None.
Proof.
  intros H. destruct (respond_shape _ _ _ _ _ _ H) as (q & x & q' & x' & _ & _ & Hx & _ & _ & _ & _ & C & _).
  eapply ids_sub_set; eassumption.
Qed.

Lemma exec_msg_plain_ids c s txh m s' : exec_msg_plain c s txh m = Okk s' -> ids_sub s s' (create_txh (Tx txh m)).
Proof.
  intros H. destruct m; simpl in H; cbn [create_txh].
  - unfold define in H. ids_frame H.
  - unfold bind in H. ids_frame H.
  - unfold update_binding in H. ids_frame H.
  - unfold set_withdraw in H. ids_frame H.
  - unfold enable in H. ids_frame H.
  - unfold disable in H. ids_frame H.
  - unfold refund_deposit in H. ids_frame H.
  - unfold call in H. destruct (negb _); [discriminate|].
    destruct (create_context _ _ _ _ _ _ _ _ _ _ _ _ _ _ _ _) as [[s1 id]|] eqn:E; [|discriminate].
    inversion H; subst. eapply create_context_ids. exact E.
  - eapply respond_ids. exact H.
  - unfold msg_ctl, k_pause in H. ids_frame H.
  - unfold msg_ctl, k_start in H. ids_frame H.
  - unfold msg_ctl, k_kill in H. ids_frame H.
  - unfold update_context in H. ids_frame H.
  - unfold withdraw in H. ids_frame H.
Qed.

Lemma call_module_ids c s txh svc provs cons inok capd capa timeout rep freq total s' :
  call_module c s txh svc provs cons inok capd capa timeout rep freq total = Okk s' -> ids_sub s s' (Some txh).
Proof.
  unfold call_module. intros H. destruct (negb _); [discriminate|].
  destruct (create_context c s txh svc [c_mprov c] cons inok capd capa 1 false 0 0 0 0 false) as [[s1 id]|] eqn:E1; [|discriminate].
  pose proof (create_context_ids _ _ _ _ _ _ _ _ _ _ _ _ _ _ _ _ _ _ E1) as I1.
  destruct (get id (ctxs s1)) as [x|] eqn:Ex; [|discriminate].
  destruct (filter_provs s1 x (x_provs x)) as [[|p0 ps]|]; try discriminate.
  destruct (debit_all (led s1) (x_cons x) (total_fees s1 x [c_mprov c])) as [l|]; [|discriminate].
  set (s2 := initiate_ms (with_led s1 (credit_all l REQ (total_fees s1 x [c_mprov c]))) id x [c_mprov c]) in *.
  assert (I2 : ids_sub s1 s2 None) by (eapply (ids_sub_set s1 id x); [exact Ex|reflexivity]).
  destruct (respond c s2 (id, x_batch x + 1, height s, 0) (c_mprov c) 1) as [s3| |] eqn:Er; try discriminate.
  pose proof (respond_ids _ _ _ _ _ _ Er) as I3. cbv beta iota in H. injection H as <-.
  eapply ids_sub_trans; [exact I1|]. eapply ids_sub_trans; [exact I2|]. eapply ids_sub_trans; [exact I3|].
  destruct (respond_shape _ _ _ _ _ _ Er) as (_ & _ & _ & x3 & _ & _ & _ & _ & _ & _ & _ & C3 & _). simpl in C3.
  eapply (ids_sub_set s3 id x3); [rewrite C3; apply get_set_same|reflexivity].
Qed.

Lemma exec_msg_ids c s txh m s' : exec_msg c s txh m = Okk s' -> ids_sub s s' (create_txh (Tx txh m)).
Proof.
  intros H. destruct m; cbn [exec_msg] in H; try (eapply exec_msg_plain_ids; eassumption).
  - destruct (module_served c svc); [discriminate|].
    eapply (exec_msg_plain_ids c s txh (MBind svc prov depd depa pr qos optok owner)); exact H.
  - destruct (module_served c svc); [eapply call_module_ids; exact H|].
    eapply (exec_msg_plain_ids c s txh (MCall svc provs cons inok capd capa timeout rep freq total)); exact H.
Qed.

Lemma expired_handler_ids c s id : ids_sub s (expired_batch_handler c s id) None.
Proof.
  unfold expired_batch_handler. destruct (get id (ctxs s)) as [x|] eqn:Eg; [|apply ids_sub_refl].
  set (pr := if x_brun x then _ else (s, x)).
  assert (C : ctxs (fst pr) = ctxs s).
  { subst pr. destruct (x_brun x); [|reflexivity]. simpl.
    destruct (expire_fold_qsame c x (filter (fun e => in_batch id (x_batch x) e && q_active (snd e)) (reqs s)) s) as (C & _).
    destruct (x_mod x); [|exact C]. destruct (callback_qsame (fold_left (expire_request c x) (filter (fun e => in_batch id (x_batch x) e && q_active (snd e)) (reqs s)) s) id) as (C2 & _). congruence. }
  destruct pr as [s1 x1]. simpl in C. cbv zeta. intros id0 H. left.
  destruct (x_state x1 =? 2); destruct (x_state x1 =? 0); try destruct (x_rep x1 && _); simpl in H; rewrite ?C in H;
    repeat (first [apply has_del_inv in H | apply has_set_inv in H; destruct H as [->|H]; [unfold has; rewrite Eg; reflexivity|]]); exact H.
Qed.

Lemma new_handler_ids s id : ids_sub s (new_batch_handler s id) None.
Proof.
  unfold new_batch_handler. destruct (get id (ctxs s)) as [x|] eqn:Eg; [|apply ids_sub_refl].
  destruct (x_state x =? 0); [|apply ids_sub_same; reflexivity].
  destruct (filter_provs s x (x_provs x)) as [ps|]; [|eapply ids_sub_set; [exact Eg|reflexivity]].
  cbv zeta. destruct (_ && _); [|eapply ids_sub_set; [exact Eg|reflexivity]].
  destruct (debit_all _ _ _); [eapply ids_sub_set; [exact Eg|reflexivity]|].
  unfold on_paused. destruct (x_mod x); (eapply ids_sub_set; [exact Eg|reflexivity]).
Qed.

Lemma apply_ids c s st : ids_sub s (apply c s st) (create_txh st).
Proof.
  unfold apply. destruct (exec_step c s st) as [s'| |] eqn:E; try apply ids_sub_refl.
  destruct st; cbn [exec_step] in E.
  - eapply exec_msg_ids. exact E.
  - destruct (0 <=? dt); [|discriminate]. inversion E; subst. unfold end_block. cbv zeta. cbn [create_txh].
    set (s1 := fold_left (expired_batch_handler c) _ s).
    assert (H1 : ids_sub s s1 None).
    { subst s1. apply (fold_left_inv (fun t => ids_sub s t None)); [|apply ids_sub_refl].
      intros t id Ht. eapply ids_sub_trans; [exact Ht|apply expired_handler_ids]. }
    set (s2 := fold_left new_batch_handler _ s1).
    assert (H2 : ids_sub s s2 None).
    { subst s2. apply (fold_left_inv (fun t => ids_sub s t None)); [|exact H1].
      intros t id Ht. eapply ids_sub_trans; [exact Ht|apply new_handler_ids]. }
    eapply ids_sub_trans; [exact H2|apply ids_sub_same; reflexivity].
  - inversion E; subst. apply ids_sub_same. reflexivity.
  - ids_frame E.
  - destruct (create_context _ _ _ _ _ _ _ _ _ _ _ _ _ _ _ _) as [[s1 id]|] eqn:E1; [|discriminate].
    inversion E; subst. eapply create_context_ids. exact E1.
  - unfold k_pause in E. ids_frame E.
  - unfold k_start in E. ids_frame E.
  - unfold k_kill in E. ids_frame E.
  - unfold bind in E. ids_frame E.
Qed.

(** ** the theorem *)
Lemma fresh_from_used c : forall steps s used,
  (forall id, has id (ctxs s) = true -> In (fst id) used) ->
  NoDup (used ++ create_txhs steps) -> fresh_history c s steps.
Proof.
  induction steps as [|st r IH]; intros s used Hu Hnd; [exact I|]. cbn [fresh_history]. split.
  - assert (F : forall txh, create_txh st = Some txh -> ctx_at s (txh, iidx s) = None).
    { intros txh E. destruct (ctx_at s (txh, iidx s)) as [x|] eqn:Eg; [|reflexivity]. exfalso. unfold ctx_at in Eg.
      assert (Hin : In txh used) by (apply (Hu (txh, iidx s)); unfold has; rewrite Eg; reflexivity).
      cbn [create_txhs] in Hnd. rewrite E in Hnd. apply NoDup_remove_2 in Hnd. apply Hnd. apply in_or_app. left. exact Hin. }
    destruct st as [txh m| | | |txh svc provs cons capa timeout rep freq total st0 thr| | | |]; try exact I.
    + destruct m; try exact I. apply F. reflexivity.
    + apply F. reflexivity.
  - cbn [create_txhs] in Hnd. pose proof (apply_ids c s st) as Hs. destruct (create_txh st) as [t|] eqn:Et.
    + apply (IH (apply c s st) (used ++ [t])).
      * intros id Hh. destruct (Hs id Hh) as [H1|H1]; apply in_or_app; [left; apply Hu; exact H1|right; left; congruence].
      * rewrite <- app_assoc. exact Hnd.
    + apply (IH (apply c s st) used); [|exact Hnd].
      intros id Hh. destruct (Hs id Hh) as [H1|H1]; [apply Hu; exact H1|discriminate].
Qed.

Theorem fresh_history_from_distinct_hashes_lemma :
  forall c steps h0 t0 l0, NoDup (create_txhs steps) -> fresh_history c (init h0 t0 l0) steps.
Proof. intros c steps h0 t0 l0 Hnd. apply (fresh_from_used c steps (init h0 t0 l0) []); [intros id H; discriminate|exact Hnd]. Qed.
