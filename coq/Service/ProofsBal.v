(** * Service: the model passes its own check — C07 clause 4 (every account moves by exactly the
    refunds of its expired requests minus the fees of its new requests over an end-block). *)
From Irismod Require Import Service.Model Service.Check Service.Proofs Service.ProofsHist Service.ProofsEscrow Service.ProofsSched
  Service.ProofsBatch Service.ProofsLiab Service.ProofsTally Service.ProofsLive Service.ProofsModule Service.ProofsFresh
  Service.ProofsCallback Service.ProofsSchedule Service.ProofsModuleHist Service.ProofsOutcome Service.ProofsCheck Service.ProofsTrack.

Lemma slash_bal_other c t svc prov a d : a <> DEP -> a <> TAX -> bal (led (slash c t svc prov)) a d = bal (led t) a d.
Proof.
  intros H1 H2. unfold slash. destruct (get (svc, prov) (binds t)) as [b|]; [|reflexivity].
  destruct (b_dep b <? _); [reflexivity|]. destruct (send (led t) DEP TAX BASE _) as [l|] eqn:Es; [|reflexivity].
  cbv zeta. cbn [led with_binds with_led]. destruct (send_Some _ _ _ _ _ _ Es) as (_ & _ & _ & Ho). apply Ho; intros E; inversion E; congruence.
Qed.

Section Refunds.
  Variables (h a d : Z) (cons : reqid -> Z).
  Hypothesis Ha : a <> DEP /\ a <> REQ /\ a <> TAX.

  (** what account [a] is still owed in denom [d] by the requests expiring at height [h] *)
  Definition W (e : reqid * request) : Z :=
    if q_active (snd e) && (q_exp (snd e) =? h) && (cons (fst e) =? a) && (q_fd (snd e) =? d) then q_fee (snd e) else 0.
  Definition pot (t : state) : Z := bal (led t) a d + msum W (reqs t).

  Lemma expire_pot c x t rid q :
    get rid (reqs t) = Some q -> q_active q = true -> 0 <= x_cons x -> EscInv t -> q_exp q = h -> cons rid = x_cons x ->
    pot (expire_request c x t (rid, q)) = pot t.
  Proof.
    intros Hq Hact Hc He Hexp Hcons. destruct Ha as (A1 & A2 & A3).
    pose proof (slash_esc c t (x_svc x) (q_prov q)) as Hs1.
    pose proof (EscInv_same _ _ Hs1 He) as He1. destruct Hs1 as (L1 & R1 & E1).
    pose proof (slash_bal_other c t (x_svc x) (q_prov q) a d A1 A3) as Hsb.
    set (s1 := slash c t (x_svc x) (q_prov q)) in *.
    assert (Hq1 : get rid (reqs s1) = Some q) by (rewrite R1; exact Hq).
    destruct He1 as [I1 I2 I3].
    assert (Hfee : 0 <= q_fee q <= bal (led s1) REQ (q_fd q)).
    { split; [eapply I2; apply get_In; exact Hq1|]. rewrite (I1 (q_fd q)). unfold liab.
      assert (A : act_fee (q_fd q) (rid, q) <= msum (act_fee (q_fd q)) (reqs s1)).
      { apply msum_ge_term_in; [apply act_fee_nonneg; exact I2|apply get_In; exact Hq1]. }
      unfold act_fee in A at 1. simpl in A. rewrite Hact, Z.eqb_refl in A. simpl in A.
      assert (B : 0 <= msum (earn_in (q_fd q)) (earned s1)) by (apply msum_nonneg_in; apply earn_in_nonneg; exact I3).
      lia. }
    destruct (expire_request_lemma c x t rid q Hfee ltac:(unfold REQ; lia)) as (B1 & _ & B3 & _).
    fold s1 in B1, B3. destruct (expire_struct c x t rid q) as (R & _ & _).
    unfold pot. rewrite R, msum_set, Hq. unfold W at 2 3. cbn [fst snd rq_active q_active]. rewrite Hact, Hexp, Z.eqb_refl, Hcons. cbn [andb].
    destruct (Z.eqb_spec (x_cons x) a) as [Ea|Ea]; destruct (Z.eqb_spec (q_fd q) d) as [Ed|Ed]; cbn [andb].
    - rewrite Ea, Ed in B1. rewrite B1, Hsb. lia.
    - rewrite B3, Hsb; [lia| |]; intros E; inversion E; congruence.
    - rewrite B3, Hsb; [lia| |]; intros E; inversion E; congruence.
    - rewrite B3, Hsb; [lia| |]; intros E; inversion E; congruence.
  Qed.

  Lemma expire_fold_pot c x : forall act t,
    NoDup (map fst act) ->
    (forall e, In e act -> get (fst e) (reqs t) = Some (snd e) /\ q_active (snd e) = true /\ q_exp (snd e) = h /\ cons (fst e) = x_cons x) ->
    0 <= x_cons x -> EscInv t -> pot (fold_left (expire_request c x) act t) = pot t.
  Proof.
    induction act as [|[rid q] act IH]; cbn [fold_left]; intros t Hnd Hall Hc He; [reflexivity|].
    cbn [map fst] in Hnd. inversion Hnd as [|? ? Hn Hnd']; subst.
    destruct (Hall (rid, q) (or_introl eq_refl)) as (Hq & Hact & Hexp & Hcons). cbn [fst snd] in Hq, Hact, Hexp, Hcons.
    rewrite IH; [apply expire_pot; assumption|exact Hnd'| |exact Hc|apply EscInv_expire; assumption].
    intros e Hin. destruct (Hall e (or_intror Hin)) as (Hq' & Hr'). split; [|exact Hr'].
    destruct (expire_struct c x t rid q) as (R & _ & _). rewrite R. rewrite get_set_other; [exact Hq'|].
    intros E. apply Hn. rewrite <- E. apply in_map. exact Hin.
  Qed.

  Lemma callback_pot t id : pot (callback t id) = pot t.
  Proof. unfold pot, callback. destruct (get id (ctxs t)); reflexivity. Qed.

  Lemma expired_handler_pot c t id :
    QInv t -> BatchInv t -> DepInv t -> EscInv t -> LInv false t -> In (h, id) (expq t) ->
    (forall x, get id (ctxs t) = Some x -> forall rid, rid_ctx rid = id -> cons rid = x_cons x) ->
    pot (expired_batch_handler c t id) = pot t.
  Proof.
    intros Hq Hb Hd He Hl Hin Hcons. unfold expired_batch_handler. destruct (get id (ctxs t)) as [x|] eqn:Eg; [|reflexivity].
    assert (Hc : 0 <= x_cons x) by (eapply (di_ctx _ Hd); exact Eg).
    set (pr := if x_brun x then _ else (t, x)).
    assert (Epr : pr = exp_pr c t id x) by reflexivity.
    destruct (exp_pr_facts c t id x Hb Eg) as (K1 & _ & A1 & _ & _). rewrite <- Epr in K1, A1.
    assert (H1 : pot (fst pr) = pot t).
    { subst pr. destruct (x_brun x); [|reflexivity]. cbn [fst]. set (act := filter _ (reqs t)).
      assert (F : pot (fold_left (expire_request c x) act t) = pot t).
      { apply expire_fold_pot; [| |exact Hc|exact He].
        - subst act. apply (keys_filter_NoDup _ (reqs t)). exact (b_keys _ Hb).
        - intros [r q] Hi. subst act. apply filter_In in Hi. destruct Hi as (Hi & Hact). cbn [fst snd] in *.
          apply andb_true_iff in Hact. destruct Hact as (Hbt & Hact). rewrite in_batch_inb in Hbt. cbn [fst] in Hbt.
          pose proof (In_get_NoDup r q (reqs t) (b_keys _ Hb) Hi) as Hg.
          split; [exact Hg|]. split; [exact Hact|]. pose proof (inb_ctx _ _ _ Hbt) as Hid. split; [|exact (Hcons x eq_refl r Hid)].
          pose proof (l_exp _ _ Hl r q Hg Hact) as Hm. rewrite Hid, (q_exp_mark _ Hq _ _ Hin) in Hm. congruence. }
      destruct (x_mod x); [|exact F]. rewrite <- F. apply callback_pot. }
    destruct pr as [s1 x1]. cbn [fst snd] in H1, K1, A1. cbv zeta. rewrite <- H1.
    match goal with |- pot (with_reqs ?t0 (filter ?f (reqs ?t0))) = _ =>
      assert (Ht : led t0 = led s1 /\ reqs t0 = reqs s1) by (destruct (x_state x1 =? 2); destruct (x_state x1 =? 0); try destruct (x_rep x1 && _); split; reflexivity);
      set (tt := t0) in *; clearbody tt end.
    destruct Ht as (Lt & Rt). unfold pot. cbn [led reqs with_reqs]. rewrite Lt, Rt. f_equal. apply msum_filter_zero.
    intros [rid q] Hi Hf. unfold W. cbn [fst snd]. destruct (q_active q) eqn:Ea; [|reflexivity]. exfalso.
    assert (Hg : get rid (reqs s1) = Some q) by (apply In_get_NoDup; assumption).
    destruct (A1 rid q Hg Ea) as (_ & Hne). apply Hne. apply negb_false_iff in Hf. rewrite in_batch_inb in Hf. exact (inb_ctx _ _ _ Hf).
  Qed.
End Refunds.

Lemma msum_fold_set_fresh {K V} `{EqDec K} (f : K * V -> Z) (rs : list (K * V)) : forall m,
  NoDup (map fst rs) -> (forall e, In e rs -> get (fst e) m = None) ->
  msum f (fold_left (fun m e => set (fst e) (snd e) m) rs m) = msum f m + msum f rs.
Proof.
  induction rs as [|[k0 v0] rs IH]; intros m Hnd Hall; [unfold msum; simpl; lia|].
  cbn [fold_left fst snd]. cbn [map fst] in Hnd. inversion Hnd as [|? ? Hn Hnd']; subst.
  rewrite IH; [|exact Hnd'|].
  - pose proof (Hall (k0, v0) (or_introl eq_refl)) as H0. cbn [fst] in H0. rewrite msum_set, H0. unfold msum. simpl. lia.
  - intros e He. rewrite get_set_other; [apply Hall; right; exact He|]. intros E. apply Hn. rewrite <- E. apply in_map. exact He.
Qed.

Section Charges.
  Variables (h a d : Z) (cons : reqid -> Z).
  Hypothesis Ha : a <> DEP /\ a <> REQ /\ a <> TAX.

  (** what account [a] has been charged in denom [d] for the requests created at height [h] *)
  Definition V (e : reqid * request) : Z :=
    if (rid_h (fst e) =? h) && (cons (fst e) =? a) && (q_fd (snd e) =? d) then q_fee (snd e) else 0.
  Definition pot2 (t : state) : Z := bal (led t) a d + msum V (reqs t).

  Lemma new_handler_pot2 t id :
    height t = h ->
    (forall x, get id (ctxs t) = Some x -> forall rid, rid_ctx rid = id -> cons rid = x_cons x) ->
    (forall rid, has rid (reqs t) = true -> rid_ctx rid = id -> rid_h rid < h) ->
    pot2 (new_batch_handler t id) = pot2 t.
  Proof.
    intros Hh Hcons Hfresh. destruct Ha as (A1 & A2 & A3). unfold new_batch_handler.
    destruct (get id (ctxs t)) as [x|] eqn:Eg; [|reflexivity].
    destruct (x_state x =? 0); [|reflexivity].
    destruct (filter_provs t x (x_provs x)) as [ps|]; [|reflexivity].
    cbv zeta. destruct (_ && _); [|reflexivity].
    destruct (debit_all (led t) (x_cons x) (total_fees t x ps)) as [l|] eqn:Ed; [|unfold on_paused; destruct (x_mod x); reflexivity].
    set (sl := with_led t (credit_all l REQ (total_fees t x ps))).
    set (rs := mk_requests sl x id (x_batch x + 1) 0 ps).
    assert (Ers : rs = mk_requests t x id (x_batch x + 1) 0 ps) by (apply mk_requests_ext; reflexivity).
    unfold pot2. change (led (dequeue_new (initiate sl id x ps) id)) with (credit_all l REQ (total_fees t x ps)).
    change (reqs (dequeue_new (initiate sl id x ps) id)) with (fold_left (fun m e => set (fst e) (snd e) m) rs (reqs t)).
    rewrite msum_fold_set_fresh.
    2: { rewrite Ers. apply mk_requests_NoDup. }
    2: { intros e He. destruct (get (fst e) (reqs t)) eqn:Egr; [|reflexivity]. exfalso.
         assert (Hhas : has (fst e) (reqs t) = true) by (unfold has; rewrite Egr; reflexivity).
         destruct (mk_requests_shape sl x id _ ps 0 e He) as (Hc & _).
         pose proof (Hfresh _ Hhas Hc) as Hlt. rewrite (mk_requests_height sl x id _ ps 0 e He) in Hlt. simpl in Hlt. lia. }
    destruct (debit_all_bal _ _ _ _ Ed) as (D1 & D2). destruct (credit_all_bal (total_fees t x ps) l REQ) as (_ & C2).
    rewrite C2 by exact A2.
    assert (Sum : msum V rs = if x_cons x =? a then fees_in d rs else 0).
    { unfold msum, fees_in. assert (G : forall e, In e rs -> V e = if x_cons x =? a then (if q_fd (snd e) =? d then q_fee (snd e) else 0) else 0).
      { intros e He. unfold V. destruct (mk_requests_shape sl x id _ ps 0 e He) as (Hc & _).
        rewrite (mk_requests_height sl x id _ ps 0 e He). change (height sl) with (height t). rewrite Hh, Z.eqb_refl, (Hcons x eq_refl _ Hc). cbn [andb].
        destruct (x_cons x =? a); reflexivity. }
      clear -G. induction rs as [|e rs IH]; simpl; [destruct (x_cons x =? a); reflexivity|].
      rewrite (G e (or_introl eq_refl)), IH by (intros e0 H0; apply G; right; exact H0). destruct (x_cons x =? a); lia. }
    rewrite Sum, Ers, <- (total_fees_eq_request_fees t x id (x_batch x + 1) d ps 0).
    destruct (Z.eqb_spec (x_cons x) a) as [Ea|Ea].
    - rewrite <- Ea, D1. lia.
    - rewrite D2 by congruence. lia.
  Qed.
End Charges.

(** ** the consumer of a stored context does not change over an end-block *)
Lemma x_off_cons x : x_cons (x_off x) = x_cons x.
Proof. unfold x_off. destruct (x_brun x); reflexivity. Qed.

Lemma expired_handler_cons c t id id0 x' :
  get id0 (ctxs (expired_batch_handler c t id)) = Some x' -> exists x, get id0 (ctxs t) = Some x /\ x_cons x' = x_cons x.
Proof.
  intros Hg. pose proof (expired_handler_loc_own c t id) as Q. pose proof (expired_handler_loc_other c t id0 id) as O.
  unfold loc in Q, O. destruct (eq_dec id0 id) as [->|Hne].
  - unfold QE in Q. destruct (get id (ctxs t)) as [x|] eqn:Ex.
    + destruct Q as (_ & Q). rewrite Hg in Q. exists x. split; [reflexivity|].
      destruct (x_state x =? 2); [destruct Q; discriminate|]. destruct (x_state x =? 0); [destruct (belowb x)|]; destruct Q as (Q & _);
        try discriminate; inversion Q; subst; apply x_off_cons.
    + injection Q as Q1 _ _. rewrite Hg in Q1. discriminate.
  - assert (Hne' : id <> id0) by congruence. specialize (O Hne'). injection O as O1 _ _. rewrite Hg in O1. exists x'. split; [symmetry; exact O1|reflexivity].
Qed.

Lemma new_handler_cons t id id0 x' :
  get id0 (ctxs (new_batch_handler t id)) = Some x' -> exists x, get id0 (ctxs t) = Some x /\ x_cons x' = x_cons x.
Proof.
  intros Hg. destruct (eq_dec id0 id) as [->|Hne].
  2: { rewrite (new_handler_ctx_other t id id0 Hne) in Hg. exists x'. split; [exact Hg|reflexivity]. }
  unfold new_batch_handler in Hg. destruct (get id (ctxs t)) as [x|] eqn:Ex; [|rewrite Ex in Hg; discriminate].
  exists x. split; [reflexivity|].
  destruct (x_state x =? 0); [|simpl in Hg; rewrite Ex in Hg; congruence].
  assert (Skip : get id (ctxs (dequeue_new (skip_batch t id x) id)) = Some x' -> x_cons x' = x_cons x).
  { simpl. rewrite get_set_same. intros E. inversion E; subst. reflexivity. }
  destruct (filter_provs t x (x_provs x)) as [ps|]; [|exact (Skip Hg)].
  cbv zeta in Hg. destruct (_ && _); [|exact (Skip Hg)].
  destruct (debit_all _ _ _) as [l|].
  - simpl in Hg. rewrite get_set_same in Hg. inversion Hg; subst. reflexivity.
  - unfold on_paused in Hg. destruct (x_mod x); simpl in Hg; rewrite get_set_same in Hg; inversion Hg; subst; reflexivity.
Qed.

Lemma new_handler_new_ctx t id rid q' :
  get rid (reqs (new_batch_handler t id)) = Some q' -> get rid (reqs t) = Some q' \/ rid_ctx rid = id.
Proof.
  unfold new_batch_handler. destruct (get id (ctxs t)) as [x|]; [|tauto].
  destruct (x_state x =? 0); [|tauto].
  destruct (filter_provs t x (x_provs x)) as [ps|]; [|tauto].
  cbv zeta. destruct (_ && _); [|tauto].
  destruct (debit_all _ _ _) as [l|]; [|unfold on_paused; destruct (x_mod x); tauto].
  set (sl := with_led t (credit_all l REQ (total_fees t x ps))).
  change (reqs (dequeue_new (initiate sl id x ps) id)) with (fold_left (fun m e => set (fst e) (snd e) m) (mk_requests sl x id (x_batch x + 1) 0 ps) (reqs t)).
  intros Hg. apply get_fold_set in Hg. destruct Hg as [Hin|Hg]; [right|left; exact Hg].
  exact (proj1 (mk_requests_shape sl x id _ ps 0 (rid, q') Hin)).
Qed.

Definition cons_of (s : state) (rid : reqid) : Z :=
  match get (rid_ctx rid) (ctxs s) with Some x => x_cons x | None => -99 end.

Lemma msum_zero {K V} (f : K * V -> Z) (m : list (K * V)) : (forall e, In e m -> f e = 0) -> msum f m = 0.
Proof. unfold msum. induction m as [|e m IH]; simpl; intros H; [reflexivity|]. rewrite (H e (or_introl eq_refl)), IH; [reflexivity|]. intros; apply H; right; assumption. Qed.

(** over one end-block an account that is not a module account moves by exactly the refunds of the
    requests expiring at this height minus the fees of the requests created at this height *)
Lemma end_block_bal c s dt a d :
  GInv s -> LInv false s -> (forall rid, has rid (reqs s) = true -> rid_h rid < height s) ->
  a <> DEP /\ a <> REQ /\ a <> TAX ->
  bal (led (end_block c s dt)) a d =
  bal (led s) a d + msum (W (height s) a d (cons_of s)) (reqs s) - msum (V (height s) a d (cons_of s)) (reqs (end_block c s dt)).
Proof.
  intros (Hq & Hb & Hd & Hp & He) Hl Hold Ha. set (h := height s).
  set (CS := fun t : state => forall id x, get id (ctxs t) = Some x -> exists x0, get id (ctxs s) = Some x0 /\ x_cons x = x_cons x0).
  assert (CSc : forall t id, CS t -> forall x, get id (ctxs t) = Some x -> forall rid, rid_ctx rid = id -> cons_of s rid = x_cons x).
  { intros t id Hcs x Hg rid Hr. unfold cons_of. rewrite Hr. destruct (Hcs id x Hg) as (x0 & G0 & E0). rewrite G0. congruence. }
  unfold end_block. cbv zeta. cbn [led reqs with_iidx with_time with_height].
  set (s1 := fold_left (expired_batch_handler c) _ s).
  assert (H1 : ((QInv s1 /\ BatchInv s1 /\ DepInv s1 /\ PInv s1 /\ EscInv s1) /\ LInv false s1) /\ height s1 = h /\ CS s1
               /\ pot h a d (cons_of s) s1 = pot h a d (cons_of s) s
               /\ (forall rid q', get rid (reqs s1) = Some q' -> get rid (reqs s) = Some q')).
  { subst s1.
    apply (fold_handlers (fun t => ((QInv t /\ BatchInv t /\ DepInv t /\ PInv t /\ EscInv t) /\ LInv false t) /\ height t = h /\ CS t
               /\ pot h a d (cons_of s) t = pot h a d (cons_of s) s
               /\ (forall rid q', get rid (reqs t) = Some q' -> get rid (reqs s) = Some q'))
             (expired_batch_handler c) (fun t id => In (height t, id) (expq t))).
    - intros t id (((Tq & Tb & Td & Tp & Te) & Tl) & Th & Tcs & Tpot & Tsv) Hpre.
      destruct (QInv_expired_handler c t id Tq Hpre) as (A & B & C).
      destruct (LInv_expired_handler c t id Tq Tb Hpre Tl) as (L & _).
      destruct (expired_handler_reqs c t id Tq Tb Tl Hpre) as (Ea & _).
      split.
      + split; [split; [|exact L]|].
        * split; [exact A|]. split; [apply BatchInv_expired_handler; exact Tb|]. split; [apply DepInv_expired_handler; exact Td|].
          split; [apply PInv_expired_handler; exact Tp|apply EscInv_expired_handler; assumption].
        * split; [congruence|]. split; [|split].
          -- intros id0 x' Hg'. destruct (expired_handler_cons c t id id0 x' Hg') as (x & Hg & Ec). destruct (Tcs id0 x Hg) as (x0 & G0 & E0).
             exists x0. split; [exact G0|congruence].
          -- rewrite <- Tpot. apply expired_handler_pot; try assumption. rewrite <- Th. exact Hpre. exact (CSc t id Tcs).
          -- intros rid q' Hg. apply Tsv. apply Ea. exact Hg.
      + intros id' Hne Hpp. rewrite B. apply C; assumption.
    - apply due_NoDup. exact (q_exp_nodup _ Hq).
    - split; [split; [exact (conj Hq (conj Hb (conj Hd (conj Hp He))))|exact Hl]|]. split; [reflexivity|]. split; [|split; [reflexivity|intros; assumption]].
      intros id x Hg. exists x. split; [exact Hg|reflexivity].
    - intros id Hin. apply due_in in Hin. exact Hin. }
  destruct H1 as (((Q1 & B1 & D1 & P1 & E1) & L1) & Hh1 & CS1 & Pot1 & Sv1).
  (* nothing expiring at this height is left *)
  assert (Pm : forall id0, get id0 (expmark s1) <> Some (height s1)).
  { assert (F := LInv_phase1 c (due (height s) (expq s)) s (due_NoDup _ _ (q_exp_nodup _ Hq)) Hq Hb Hl).
    cbv zeta in F. fold s1 in F. apply F.
    - intros id Hin. apply due_in in Hin. exact Hin.
    - intros id0 E. apply due_in. exact (proj1 (l_mark _ _ Hl id0 _ E)). }
  assert (W0 : msum (W h a d (cons_of s)) (reqs s1) = 0).
  { apply msum_zero. intros [rid q] Hin. unfold W. cbn [fst snd]. destruct (q_active q) eqn:Ea; [|reflexivity].
    pose proof (In_get_NoDup rid q (reqs s1) (b_keys _ B1) Hin) as Hg.
    pose proof (l_exp _ _ L1 rid q Hg Ea) as Hm. destruct (l_mark _ _ L1 _ _ Hm) as (_ & Hle). cbv beta iota in Hle.
    assert (q_exp q <> h) by (intros E; apply (Pm (rid_ctx rid)); rewrite Hm, E, Hh1; reflexivity).
    replace (q_exp q =? h) with false by (symmetry; apply Z.eqb_neq; assumption). reflexivity. }
  assert (V0 : msum (V h a d (cons_of s)) (reqs s1) = 0).
  { apply msum_zero. intros [rid q] Hin. unfold V. cbn [fst snd].
    pose proof (In_get_NoDup rid q (reqs s1) (b_keys _ B1) Hin) as Hg. pose proof (Sv1 rid q Hg) as Hg0.
    assert (Hlt : rid_h rid < h) by (apply Hold; unfold has; rewrite Hg0; reflexivity).
    replace (rid_h rid =? h) with false by (symmetry; apply Z.eqb_neq; lia). reflexivity. }
  set (s2 := fold_left new_batch_handler _ s1).
  assert (H2 : (QInv s2 /\ height s2 = h) /\ CS s2 /\ pot2 h a d (cons_of s) s2 = pot2 h a d (cons_of s) s1).
  { subst s2.
    apply (fold_handlers (fun t => (QInv t /\ height t = h) /\ CS t /\ pot2 h a d (cons_of s) t = pot2 h a d (cons_of s) s1) new_batch_handler
             (fun t id => In (height t, id) (newq t) /\ (forall rid, has rid (reqs t) = true -> rid_ctx rid = id -> rid_h rid < h))).
    - intros t id ((Tq & Th) & Tcs & Tpot) (Hpre & Hfr). destruct (QInv_new_handler t id Tq Hpre) as (A & B & C).
      split.
      + split; [split; [exact A|congruence]|]. split.
        * intros id0 x' Hg'. destruct (new_handler_cons t id id0 x' Hg') as (x & Hg & Ec). destruct (Tcs id0 x Hg) as (x0 & G0 & E0).
          exists x0. split; [exact G0|congruence].
        * rewrite <- Tpot. apply new_handler_pot2; [exact Ha|exact Th|exact (CSc t id Tcs)|exact Hfr].
      + intros id' Hne (Hpp & Hfr'). split; [rewrite B; apply C; assumption|].
        intros rid Hhas Hr. unfold has in Hhas. destruct (get rid (reqs (new_batch_handler t id))) as [q'|] eqn:Eg; [|discriminate].
        destruct (new_handler_new_ctx t id rid q' Eg) as [Hg|Hc]; [|congruence]. apply Hfr'; [unfold has; rewrite Hg; reflexivity|exact Hr].
    - apply due_NoDup. exact (q_new_nodup _ Q1).
    - split; [split; [exact Q1|exact Hh1]|]. split; [exact CS1|reflexivity].
    - intros id Hin. apply due_in in Hin. split; [exact Hin|]. intros rid Hhas _. unfold has in Hhas.
      destruct (get rid (reqs s1)) as [q'|] eqn:Eg; [|discriminate]. apply Hold. unfold has. rewrite (Sv1 rid q' Eg). reflexivity. }
  destruct H2 as (_ & _ & Pot2). unfold pot in Pot1. unfold pot2 in Pot2. rewrite W0 in Pot1. rewrite V0 in Pot2. fold h. lia.
Qed.

Lemma end_block_cons c s dt id x' :
  get id (ctxs (end_block c s dt)) = Some x' -> exists x, get id (ctxs s) = Some x /\ x_cons x' = x_cons x.
Proof.
  unfold end_block. cbv zeta. cbn [ctxs with_iidx with_time with_height].
  set (P := fun t : state => forall id x', get id (ctxs t) = Some x' -> exists x, get id (ctxs s) = Some x /\ x_cons x' = x_cons x).
  assert (H1 : P (fold_left (expired_batch_handler c) (due (height s) (expq s)) s)).
  { apply (fold_left_inv P); [|intros i x Hg; exists x; split; [exact Hg|reflexivity]].
    intros t i Ht id0 x0 Hg. destruct (expired_handler_cons c t i id0 x0 Hg) as (x & G & E). destruct (Ht id0 x G) as (y & Gy & Ey). exists y. split; [exact Gy|congruence]. }
  set (s1 := fold_left (expired_batch_handler c) _ s) in *.
  assert (H2 : P (fold_left new_batch_handler (due (height s1) (newq s1)) s1)).
  { apply (fold_left_inv P); [|exact H1].
    intros t i Ht id0 x0 Hg. destruct (new_handler_cons t i id0 x0 Hg) as (x & G & E). destruct (Ht id0 x G) as (y & Gy & Ey). exists y. split; [exact Gy|congruence]. }
  intros Hg. exact (H2 id x' Hg).
Qed.

Lemma sumz_filter {A} (f : A -> Z) (p : A -> bool) (l : list A) : sumz f (filter p l) = sumz (fun e => if p e then f e else 0) l.
Proof. unfold sumz. induction l as [|e l IH]; simpl; [reflexivity|]. destruct (p e); simpl; rewrite IH; reflexivity. Qed.

Lemma sumz_msum {K V} (f : K * V -> Z) (m : list (K * V)) : sumz f m = msum f m.
Proof. reflexivity. Qed.

(** ** C07, clause 4 on the model's own observation of a step *)
Lemma filter_none {A} (p : A -> bool) (l : list A) : (forall e, In e l -> p e = false) -> filter p l = [].
Proof. induction l as [|e l IH]; simpl; intros H; [reflexivity|]. rewrite (H e (or_introl eq_refl)). apply IH. intros; apply H; right; assumption. Qed.

Lemma call_led c s txh svc provs cons inok capd capa timeout rep freq total s' :
  call c s txh svc provs cons inok capd capa timeout rep freq total = Okk s' -> led s' = led s /\ reqs s' = reqs s.
Proof.
  unfold call. intros H. destruct (negb _); [discriminate|].
  destruct (create_context _ _ _ _ _ _ _ _ _ _ _ _ _ _ _ _) as [[s1 id]|] eqn:E; [|discriminate]. inversion H; subst.
  destruct (create_context_shape _ _ _ _ _ _ _ _ _ _ _ _ _ _ _ _ _ _ E) as (_ & R & _ & L & _). split; assumption.
Qed.

Lemma c07_clause4_obs univ c s st pc pn pb :
  c_msvc c < 0 -> GInv s -> LInv false s -> (forall rid, has rid (reqs s) = true -> rid_h rid < height s) -> good_step st ->
  BatchInv (apply c s st) ->
  (forall a d, (exists d', In (a, d') univ) -> In d (denoms c) -> In (a, d) univ) ->
  holds_C07 c (obs_of univ pc pn pb s) st (obs_step univ c s st) <> 4.
Proof.
  intros Hm HG Hl Hold Hgood Hb' Hprod E. pose proof HG as (Hq & Hb & Hd & Hp & He).
  apply first_fail_in in E; [|lia]. unfold holds_C07 in E; cbv zeta in E.
  do 4 (split_seg E; [not_here E|]). split_seg E; [|not_here E].
  destruct (is_endblock st || is_call st) eqn:Ek; [|contradiction E].
  apply in_flat_map in E. destruct E as (a & Hacts & E). apply in_map_iff in E. destruct E as (d & E & Hd0). injection E as E.
  unfold actors_of in Hacts. apply filter_In in Hacts. destruct Hacts as (Hacc & Hge). apply Z.leb_le in Hge.
  apply nodup_In, in_map_iff in Hacc. destruct Hacc as ([[a0 d'] v] & Ea0 & Hin0). cbn [fst] in Ea0. subst a0.
  unfold obs_step in Hin0. cbn [obs_of o_bals] in Hin0. apply in_map_iff in Hin0. destruct Hin0 as ([a1 d1] & E1 & Hin1). injection E1 as -> -> _.
  assert (Hu : In (a, d) univ) by (apply Hprod; [exists d'; exact Hin1|exact Hd0]).
  assert (Ha : a <> DEP /\ a <> REQ /\ a <> TAX) by (unfold DEP, REQ, TAX; lia).
  unfold obs_step in E. rewrite !obal_obs_of in E by exact Hu.
  set (s' := apply c s st) in *.
  unfold expired_in, created_in in E. cbn [obs_of o_reqs o_ctxs] in E.
  rewrite !sumz_filter, !sumz_map in E. cbn [fst snd] in E.
  destruct st as [txh m|dt| | | | | | |]; try discriminate Ek.
  - (* a call: nothing is created or refunded, no balance moves *)
    destruct m; try discriminate Ek.
    assert (Hs : led s' = led s /\ reqs s' = reqs s).
    { subst s'. unfold apply. cbn [exec_step]. rewrite (exec_msg_plain_eq _ _ _ _ Hm). cbn [exec_msg_plain].
      destruct (call c s txh svc provs cons inok capd capa timeout rep freq total) as [s1| |] eqn:Ec; try (split; reflexivity).
      exact (call_led _ _ _ _ _ _ _ _ _ _ _ _ _ _ Ec). }
    destruct Hs as (Ls & Rs). rewrite Ls, Rs in E.
    rewrite (sumz_ext _ (fun _ => 0)) in E.
    2: { intros [rid q] Hin. cbn [fst snd]. rewrite (get_map_val req_tuple), (In_get_NoDup rid q (reqs s) (b_keys _ Hb) Hin). cbn [option_map req_tuple r_active].
         destruct (q_active q); reflexivity. }
    rewrite (sumz_ext (fun e : reqid * request => if negb (has (fst e) (map (fun e0 : reqid * request => (fst e0, req_tuple (snd e0))) (reqs s))) then _ else 0) (fun _ => 0)) in E.
    2: { intros [rid q] Hin. cbn [fst snd]. rewrite (has_map_val req_tuple). unfold has. rewrite (In_get_NoDup rid q (reqs s) (b_keys _ Hb) Hin). reflexivity. }
    assert (Z0 : forall (A : Type) (l : list A), sumz (fun _ : A => 0) l = 0) by (intros A l; unfold sumz; induction l; simpl; [reflexivity|assumption]).
    rewrite !Z0 in E. replace (bal (led s) a d - bal (led s) a d) with 0 in E by lia. discriminate E.
  - (* the end blocker *)
    simpl in Hgood. assert (Es' : s' = end_block c s dt).
    { subst s'. rewrite apply_endblock. destruct (0 <=? dt) eqn:Ed; [reflexivity|apply Z.leb_gt in Ed; lia]. }
    destruct (end_block_reqs c s dt Hq Hb Hl Hold) as (R1 & R2 & R3 & _). cbv zeta in R1, R2, R3. rewrite <- Es' in R1, R2, R3.
    pose proof (end_block_bal c s dt a d HG Hl Hold Ha) as Bal. rewrite <- Es' in Bal.
    assert (Sx : sumz (fun e : reqid * request =>
               if r_active (req_tuple (snd e)) &&
                  match get (fst e) (map (fun e0 : reqid * request => (fst e0, req_tuple (snd e0))) (reqs s')) with
                  | Some q0 => negb (r_active q0) && (r_resp q0 =? 0) | None => true end
               then if (req_consumer (obs_of univ pc pn pb s) (fst e) =? a) && (r_fd (req_tuple (snd e)) =? d) then r_fee (req_tuple (snd e)) else 0
               else 0) (reqs s) = msum (W (height s) a d (cons_of s)) (reqs s)).
    { apply sumz_ext. intros [rid q] Hin. cbn [fst snd]. pose proof (In_get_NoDup rid q (reqs s) (b_keys _ Hb) Hin) as Hg.
      unfold W. cbn [fst snd req_tuple r_active r_fd r_fee].
      assert (Ec : req_consumer (obs_of univ pc pn pb s) rid = cons_of s rid).
      { unfold req_consumer, cons_of. cbn [obs_of o_ctxs]. rewrite (get_map_val ctx_tuple). change (Check.rid_ctx rid) with (rid_ctx rid).
        destruct (get (rid_ctx rid) (ctxs s)); reflexivity. }
      rewrite Ec, (get_map_val req_tuple). specialize (R1 rid q Hg).
      destruct (q_active q) eqn:Ea; [|reflexivity]. cbn [andb].
      destruct (get rid (reqs s')) as [q'|] eqn:Eg'; cbn [option_map].
      - subst q'. cbn [req_tuple r_active]. rewrite Ea. cbn [negb andb].
        pose proof (R3 rid q Eg' Ea) as Hlt. replace (q_exp q =? height s) with false by (symmetry; apply Z.eqb_neq; lia). reflexivity.
      - destruct R1 as [R1|R1]; [congruence|]. rewrite R1, Z.eqb_refl. reflexivity. }
    assert (Sn : sumz (fun e : reqid * request =>
               if negb (has (fst e) (map (fun e0 : reqid * request => (fst e0, req_tuple (snd e0))) (reqs s)))
               then if (req_consumer (obs_of univ (res_code (exec_step c s (EndBlock dt))) (step_newctx s (EndBlock dt) (exec_step c s (EndBlock dt)))
                                        (skipn (length (cblog s)) (cblog s')) s') (fst e) =? a) && (r_fd (req_tuple (snd e)) =? d)
                    then r_fee (req_tuple (snd e)) else 0
               else 0) (reqs s') = msum (V (height s) a d (cons_of s)) (reqs s')).
    { apply sumz_ext. intros [rid q'] Hin. cbn [fst snd]. pose proof (In_get_NoDup rid q' (reqs s') (b_keys _ Hb') Hin) as Hg'.
      unfold V. cbn [fst snd req_tuple r_fd r_fee]. rewrite (has_map_val req_tuple). unfold has.
      destruct (get rid (reqs s)) as [q|] eqn:Eg; cbn [negb].
      - assert (Hlt : rid_h rid < height s) by (apply Hold; unfold has; rewrite Eg; reflexivity).
        replace (rid_h rid =? height s) with false by (symmetry; apply Z.eqb_neq; lia). reflexivity.
      - destruct (R2 rid q' Hg' Eg) as ((Nh & Na & _) & _). rewrite Nh, Z.eqb_refl. cbn [andb].
        assert (Ec : req_consumer (obs_of univ (res_code (exec_step c s (EndBlock dt))) (step_newctx s (EndBlock dt) (exec_step c s (EndBlock dt)))
                                    (skipn (length (cblog s)) (cblog s')) s') rid = cons_of s rid).
        { unfold req_consumer, cons_of. cbn [obs_of o_ctxs]. rewrite (get_map_val ctx_tuple). change (Check.rid_ctx rid) with (rid_ctx rid).
          destruct (b_act _ Hb' rid q' Hg' Na) as (x' & Hx' & _). rewrite Hx'. cbn [option_map ctx_tuple t_cons].
          rewrite Es' in Hx'. destruct (end_block_cons c s dt _ x' Hx') as (x & Hx & Ecx). rewrite Hx. exact Ecx. }
        rewrite Ec. reflexivity. }
    rewrite Sx, Sn, Bal in E. rewrite (proj2 (Z.eqb_eq _ _)) in E by lia. discriminate E.
Qed.

Lemma reach_J1 univ c : c_msvc c < 0 -> forall steps s seen,
  fresh_history c s steps -> Forall good_step steps -> J1 s seen -> J1 (run c s steps) (model_seen univ c s seen steps).
Proof.
  intros Hm. induction steps as [|st r IH]; intros s seen Hf Hg HJ; [exact HJ|].
  destruct Hf as (F1 & F2). inversion Hg as [|? ? G1 G2]; subst. cbn [run model_seen].
  apply IH; [exact F2|exact G2|]. exact (proj2 (J1_step univ c s st seen Hm F1 G1 HJ)).
Qed.

Theorem model_passes_C07_clause_4_lemma :
  forall c steps h0 t0 l0 univ,
    c_msvc c < 0 -> clean l0 -> NoDup (create_txhs steps) -> Forall good_step steps ->
    (forall a d, (exists d', In (a, d') univ) -> In d (denoms c) -> In (a, d) univ) ->
    forall pre st post, steps = pre ++ st :: post ->
    forall pc pn pb,
      let s := run c (init h0 t0 l0) pre in
      holds_C07 c (obs_of univ pc pn pb s) st (obs_step univ c s st) <> 4.
Proof.
  intros c steps h0 t0 l0 univ Hm Hcl Hnd Hgood Hprod pre st post E pc pn pb s.
  assert (Hnd1 : NoDup (create_txhs (pre ++ [st]))).
  { rewrite E in Hnd. replace (pre ++ st :: post) with ((pre ++ [st]) ++ post) in Hnd by (rewrite <- app_assoc; reflexivity).
    rewrite create_txhs_app in Hnd. exact (NoDup_app_l _ _ Hnd). }
  assert (Hnd0 : NoDup (create_txhs pre)) by (rewrite create_txhs_app in Hnd1; exact (NoDup_app_l _ _ Hnd1)).
  assert (Hg0 : Forall good_step pre /\ good_step st).
  { rewrite E in Hgood. apply Forall_app in Hgood. destruct Hgood as (A & B). inversion B; subst. split; assumption. }
  pose proof (reach_G c pre h0 t0 l0 Hcl Hnd0) as HG. fold s in HG.
  pose proof (reach_J1 univ c Hm pre (init h0 t0 l0) [] (fresh_history_from_distinct_hashes_lemma c pre h0 t0 l0 Hnd0) (proj1 Hg0)) as HJ.
  assert (J0 : J1 (init h0 t0 l0) []).
  { split; [split; [apply SInv_init|apply LInv_init]|]. split; [intros rid H; discriminate H|intros rid []]. }
  destruct (HJ J0) as ((_ & Hl) & Hold & _). fold s in Hl, Hold.
  pose proof (reach_S c (pre ++ [st]) h0 t0 l0 Hnd1) as (_ & Hb'). rewrite run_snoc in Hb'. fold s in Hb'.
  apply c07_clause4_obs; try assumption. exact (proj2 Hg0).
Qed.

Definition ok7f (k : Z) : Prop := k <> 1 /\ k <> 2 /\ k <> 3 /\ k <> 4 /\ k <> 5.

Theorem model_passes_clauses_C07_4_lemma :
  forall c steps h0 t0 l0 univ,
    c_msvc c < 0 -> 0 <= c_tax c -> clean l0 -> NoDup (create_txhs steps) -> Forall good_step steps ->
    In (DEP, BASE) univ -> (forall d, In d (denoms c) -> In (REQ, d) univ) ->
    (forall pre st post, steps = pre ++ st :: post -> forall rid q, get rid (reqs (run c (init h0 t0 l0) pre)) = Some q ->
       In (TAX, q_fd q) univ /\ In (REQ, q_fd q) univ) ->
    (forall a d, (exists d', In (a, d') univ) -> In d (denoms c) -> In (a, d) univ) ->
    ledger_of (obs_of univ 0 None [] (init h0 t0 l0)) = l0 ->
    forall corr p k, check_case_C07 (model_case univ c h0 t0 l0 steps) = (corr, p, k) ->
      corr = -1 /\ k <> 1 /\ k <> 2 /\ k <> 3 /\ k <> 4 /\ k <> 5.
Proof.
  intros c steps h0 t0 l0 univ Hm Htax Hcl Hnd Hgood Hu1 Hu2 Hu5 Hprod Hl corr p k Ek.
  destruct (model_corresponds_to_itself_lemma c steps h0 t0 l0 univ Hnd Hl) as (C7 & _). cbv zeta in C7.
  split; [exact (C7 corr p k Ek)|].
  pose proof (model_step_ok c steps h0 t0 l0 univ Hm Htax Hcl Hnd Hgood Hu1 Hu2 Hu5) as H.
  assert (H4 : forall pre st post, steps = pre ++ st :: post ->
            step_okq ok7f (fun _ => True) univ c (run c (init h0 t0 l0) pre) (model_seen univ c (init h0 t0 l0) [] pre) st).
  { intros pre st post E pc pn pb fired tr sc. destruct (H pre st post E pc pn pb fired tr sc) as ((K1 & K2 & K3 & K5) & _).
    split; [|exact I]. split; [exact K1|]. split; [exact K2|]. split; [exact K3|]. split; [|exact K5].
    exact (model_passes_C07_clause_4_lemma c steps h0 t0 l0 univ Hm Hcl Hnd Hgood Hprod pre st post E pc pn pb). }
  pose proof (check_from_clauses_q ok7f (fun _ => True) univ c steps (init h0 t0 l0) [] H4 0 None [] [] [] [] 1
                (if corr_state (init h0 t0 l0) (obs_of univ 0 None [] (init h0 t0 l0)) then -1 else 0) (-1) 0 (-1) 0) as G.
  assert (E : check_all (model_case univ c h0 t0 l0 steps) = check_from c (init h0 t0 l0) (obs_of univ 0 None [] (init h0 t0 l0)) [] [] [] [] (model_trace univ c (init h0 t0 l0) steps) 1
                (if corr_state (init h0 t0 l0) (obs_of univ 0 None [] (init h0 t0 l0)) then -1 else 0) (-1) 0 (-1) 0).
  { unfold check_all, model_case. rewrite Hl. reflexivity. }
  unfold check_case_C07 in Ek. rewrite E in Ek.
  destruct (check_from _ _ _ _ _ _ _ _ _ _ _ _ _ _) as [[[[r1 r2] r3] r4] r5]. inversion Ek; subst.
  destruct G as ([->|G7] & _); [repeat split; discriminate|exact G7].
Qed.
