(** * Service: a call to a service served by a module (msgServer.CallService, second branch;
    Keeper.RequestModuleService) — the consumer is charged exactly the fee the request records,
    and the escrow equation survives the call. *)
From Irismod Require Import Service.Model Service.Proofs Service.ProofsHist Service.ProofsEscrow Service.ProofsSched
  Service.ProofsBatch Service.ProofsLiab.

Lemma create_context_shape c s txh svc provs cons inok capd capa timeout rep freq total st thr md s' id :
  create_context c s txh svc provs cons inok capd capa timeout rep freq total st thr md = Some (s', id) ->
  id = (txh, iidx s) /\ reqs s' = reqs s /\ earned s' = earned s /\ led s' = led s /\ height s' = height s
  /\ exists x, ctxs s' = set id x (ctxs s) /\ x_cons x = cons /\ x_svc x = svc /\ x_provs x = provs /\ x_batch x = 0.
Proof.
  unfold create_context. intros H. repeat dmn H; inversion H; subst; clear H; simpl;
    (split; [reflexivity|]); repeat (split; [reflexivity|]); eexists; repeat split; reflexivity.
Qed.

(** the fee of the one request a module-served call creates *)
Definition module_fee (s : state) (x : context) (c : config) : Z * Z :=
  let '(fd, fee) := fee_of s x (c_mprov c) in (if fee =? 0 then BASE else fd, fee).

Theorem module_call_lemma :
  forall c s txh svc provs cons inok capd capa timeout rep freq total s',
    call_module c s txh svc provs cons inok capd capa timeout rep freq total = Okk s' ->
    DepInv s -> BatchInv s -> ctx_at s (txh, iidx s) = None -> EscEq s ->
    EscEq s'
    /\ exists fd fee tax,
         0 <= tax <= fee
         /\ (forall d, bal (led s') cons d = bal (led s) cons d - (if fd =? d then fee else 0))
         /\ (forall d, bal (led s') REQ d = bal (led s) REQ d + (if fd =? d then fee - tax else 0))
         /\ (exists q, get ((txh, iidx s), 1, height s, 0) (reqs s') = Some q
                       /\ q_fee q = fee /\ q_fd q = fd /\ q_prov q = c_mprov c /\ q_active q = false /\ q_resp q <> 0).
Proof.
  unfold call_module. intros c s txh svc provs cons inok capd capa timeout rep freq total s' H Hd Hb Hf He.
  destruct (validate_request provs cons inok capa timeout rep freq total) eqn:Ev; [|discriminate].
  cbv beta iota zeta delta [negb] in H.
  destruct (create_context c s txh svc [c_mprov c] cons inok capd capa 1 false 0 0 0 0 false) as [[s1 id]|] eqn:E1; [|discriminate].
  assert (Hc : 0 <= cons) by (unfold validate_request in Ev; zb; assumption).
  destruct (create_context_shape _ _ _ _ _ _ _ _ _ _ _ _ _ _ _ _ _ _ E1) as (Hid & R1 & Ea1 & L1 & Hh1 & x0 & C1 & X1 & X2 & X3 & X4).
  pose proof (create_context_dep _ _ _ _ _ _ _ _ _ _ _ _ _ _ _ _ _ _ E1 Hc Hd) as D1.
  pose proof (EscEq_same _ _ (create_context_esc _ _ _ _ _ _ _ _ _ _ _ _ _ _ _ _ _ _ E1) He) as He1.
  destruct (get id (ctxs s1)) as [x|] eqn:Ex; [|discriminate].
  assert (x = x0) by (rewrite C1, get_set_same in Ex; congruence). subst x0.
  destruct (filter_provs s1 x (x_provs x)) as [[|p0 ps]|]; try discriminate.
  destruct (debit_all (led s1) (x_cons x) (total_fees s1 x [c_mprov c])) as [l|] eqn:Ed; [|discriminate].
  set (tot := total_fees s1 x [c_mprov c]) in *.
  set (sl := with_led s1 (credit_all l REQ tot)) in *.
  set (s2 := initiate_ms sl id x [c_mprov c]) in *.
  set (rid := (id, x_batch x + 1, height s, 0) : reqid) in *.
  (* the one request *)
  destruct (fee_of s1 x (c_mprov c)) as [fd0 fee] eqn:Efee.
  set (fd := if fee =? 0 then BASE else fd0).
  set (q0 := mkReq (c_mprov c) fd fee (height s1) (height s1 + x_timeout x) true 0).
  assert (Hrs : mk_requests sl x id (x_batch x + 1) 0 [c_mprov c] = [((id, x_batch x + 1, height s1, 0), q0)]).
  { simpl. change (fee_of sl x (c_mprov c)) with (fee_of s1 x (c_mprov c)). rewrite Efee. reflexivity. }
  assert (Htot : forall d, amt d tot = if fd =? d then fee else 0).
  { intros d. subst tot. simpl. rewrite Efee. subst fd. destruct (Z.eqb_spec fee 0) as [->|Hne].
    - unfold amt; simpl. destruct d; reflexivity.
    - unfold amt; simpl. destruct (fd0 =? d); lia. }
  assert (R2 : reqs s2 = set rid q0 (reqs s1)).
  { subst s2. unfold initiate_ms. cbn [reqs with_ctxs with_reqs]. rewrite Hrs. simpl. rewrite Hh1. reflexivity. }
  (* nothing active is stored under the new request id: its context id was not in use *)
  assert (Hold : match get rid (reqs s1) with Some v => q_active v = false | None => True end).
  { destruct (get rid (reqs s1)) as [v|] eqn:Ev0; [|exact I]. destruct (q_active v) eqn:Eav; [|reflexivity]. exfalso.
    rewrite R1 in Ev0. destruct (b_act _ Hb rid v Ev0 Eav) as (xx & Hxx & _). simpl in Hxx. rewrite Hid in Hxx.
    unfold ctx_at in Hf. congruence. }
  assert (Hxc : 0 <= x_cons x) by (eapply (di_ctx _ D1); exact Ex).
  destruct (debit_all_bal _ _ _ _ Ed) as (B1 & B2). destruct (credit_all_bal tot l REQ) as (C2 & C3).
  assert (He2 : EscEq s2).
  { intros d. unfold liab. rewrite R2, msum_set. subst s2. cbn [led earned initiate_ms with_ctxs with_reqs]. subst sl. cbn [led earned with_led].
    rewrite C2, B2 by (unfold REQ; lia). rewrite Htot. pose proof (He1 d) as Hd1. unfold liab in Hd1.
    assert (Ho : match get rid (reqs s1) with Some v0 => act_fee d (rid, v0) | None => 0 end = 0).
    { destruct (get rid (reqs s1)) as [v|]; [|reflexivity]. unfold act_fee. simpl. rewrite Hold. reflexivity. }
    rewrite Ho. unfold act_fee at 2. simpl. destruct (fd =? d); lia. }
  destruct (respond c s2 rid (c_mprov c) 1) as [s3| |] eqn:Er; try discriminate.
  pose proof (EscEq_respond _ _ _ _ _ _ Er He2) as He3.
  destruct (respond_ok_lemma _ _ _ _ _ _ Er) as (q & Hq & Hp & Ha & (q' & Hq' & Ha' & Hr' & Hp' & Hf' & Hfd') & _ & T1 & T2 & _).
  assert (q = q0) by (rewrite R2, get_set_same in Hq; congruence). subst q.
  cbv beta iota in H. injection H as <-.
  split; [eapply EscEq_same; [|exact He3]; repeat split|].
  exists fd, fee, (tax_of c fee). split; [exact T1|].
  destruct (send_Some _ _ _ _ _ _ T2) as (_ & S1 & _ & S3). destruct (S1 ltac:(discriminate)) as (S1a & _).
  assert (L2 : forall a d, bal (led s2) a d = bal (credit_all l REQ tot) a d) by (intros; reflexivity).
  rewrite X1 in B1.
  split; [|split].
  - intros d. cbn [led with_ctxs]. simpl q_fd in *. simpl q_fee in *.
    rewrite S3 by (intros E; inversion E; unfold REQ, TAX in *; lia).
    rewrite L2, C3 by (unfold REQ; lia). rewrite B1, Htot, L1. reflexivity.
  - intros d. cbn [led with_ctxs]. simpl q_fd in *. simpl q_fee in *. destruct (Z.eqb_spec fd d) as [<-|Hne].
    + rewrite S1a, L2, C2, B2 by (unfold REQ; lia). rewrite Htot, Z.eqb_refl, L1. lia.
    + rewrite S3 by congruence. rewrite L2, C2, B2 by (unfold REQ; lia). rewrite Htot. destruct (Z.eqb_spec fd d); [congruence|]. rewrite L1. lia.
  - exists q'. cbn [reqs with_ctxs]. subst rid. rewrite Hid, X4 in Hq'. simpl in Hq'. split; [exact Hq'|].
    simpl in Hf', Hfd', Hp'. repeat split; assumption.
Qed.
