(** * Service: the schedule of a repeated context over a whole history.  Once the next batch of a
    context is scheduled (height marker [H] of its new-batch entry — set by the expiry handler to
    start(n) + frequency, [batch_expiry_lemma]), no batch of that context starts before [H], whatever
    happens in between — pause, start, other contexts, other messages — and the marker stays until
    the end blocker of height [H] consumes it. *)
From Irismod Require Import Service.Model Service.Proofs Service.ProofsHist Service.ProofsEscrow Service.ProofsSched
  Service.ProofsBatch Service.ProofsLiab Service.ProofsLive Service.ProofsModule Service.ProofsFresh.

Definition b_ctx (e : ctxid * Z * Z) : ctxid := let '(i, _, _) := e in i.
Definition b_h (e : ctxid * Z * Z) : Z := let '(_, _, h) := e in h.

(** relative to a starting log [g0]: every later batch of [id] starts at or after [H]; the marker is
    still [H], or height [H] has been reached *)
Definition RS (g0 : list (ctxid * Z * Z)) (id : ctxid) (H : Z) (t : state) : Prop :=
  (forall e, In e (g_batches t) -> ~ In e g0 -> b_ctx e = id -> H <= b_h e)
  /\ (get id (newmark t) = Some H \/ H <= height t).

Definition m_same (s s' : state) : Prop := newmark s' = newmark s /\ g_batches s' = g_batches s /\ height s' = height s.
Lemma RS_same g0 id H s s' : m_same s s' -> RS g0 id H s -> RS g0 id H s'.
Proof. intros (A & B & C) (R1 & R2). split; rewrite ?A, ?B, ?C; assumption. Qed.

Ltac m_frame H := repeat dmn H; inversion H; subst; clear H; repeat split; reflexivity.

Lemma expired_handler_marks c s id :
  g_batches (expired_batch_handler c s id) = g_batches s
  /\ (forall id', id' <> id -> get id' (newmark (expired_batch_handler c s id)) = get id' (newmark s)).
Proof.
  unfold expired_batch_handler. destruct (get id (ctxs s)) as [x|]; [|split; [reflexivity|intros; reflexivity]].
  set (pr := if x_brun x then _ else (s, x)).
  assert (Hpr : g_batches (fst pr) = g_batches s /\ newmark (fst pr) = newmark s).
  { subst pr. destruct (x_brun x); [|split; reflexivity]. simpl.
    set (act := filter _ (reqs s)).
    assert (Hf : g_batches (fold_left (expire_request c x) act s) = g_batches s /\ newmark (fold_left (expire_request c x) act s) = newmark s).
    { generalize act s. clear. induction act as [|[r q] act IH]; intros s; cbn [fold_left]; [split; reflexivity|].
      destruct (IH (expire_request c x s (r, q))) as (A & B). rewrite A, B. unfold expire_request.
      assert (S : g_batches (slash c s (x_svc x) (q_prov q)) = g_batches s /\ newmark (slash c s (x_svc x) (q_prov q)) = newmark s).
      { unfold slash. destruct (get _ (binds s)) as [b|]; [|split; reflexivity]. destruct (b_dep b <? _); [split; reflexivity|].
        destruct (send _ _ _ _ _); split; reflexivity. }
      destruct (send _ _ _ _ _); simpl; exact S. }
    destruct (x_mod x); [|exact Hf]. unfold callback. destruct (get id (ctxs _)); simpl; exact Hf. }
  destruct pr as [s1 x1]. simpl in Hpr. destruct Hpr as (G1 & M1). cbv zeta.
  destruct (x_state x1 =? 2); destruct (x_state x1 =? 0); try destruct (x_rep x1 && _); simpl; rewrite ?G1, ?M1;
    (split; [reflexivity|intros id' Hne; try rewrite get_set_other by exact Hne; reflexivity]).
Qed.

Lemma new_handler_marks s id :
  (g_batches (new_batch_handler s id) = g_batches s
   \/ exists b, g_batches (new_batch_handler s id) = g_batches s ++ [(id, b, height s)])
  /\ (forall id', id' <> id -> get id' (newmark (new_batch_handler s id)) = get id' (newmark s))
  /\ (get id (ctxs s) <> None -> get id (newmark (new_batch_handler s id)) = None).
Proof.
  unfold new_batch_handler. destruct (get id (ctxs s)) as [x|]; [|split; [left; reflexivity|split; [intros; reflexivity|intros Hc; congruence]]].
  assert (D : forall t, newmark t = newmark s ->
              (forall id', id' <> id -> get id' (newmark (dequeue_new t id)) = get id' (newmark s))
              /\ (Some x <> None -> get id (newmark (dequeue_new t id)) = None)).
  { intros t Et. simpl. rewrite Et. split; [intros id' Hne; apply get_del_other; exact Hne|intros _; apply get_del_same]. }
  destruct (x_state x =? 0); [|split; [left; reflexivity|apply D; reflexivity]].
  destruct (filter_provs s x (x_provs x)) as [ps|]; [|split; [right; eexists; reflexivity|apply D; reflexivity]].
  cbv zeta. destruct (_ && _); [|split; [right; eexists; reflexivity|apply D; reflexivity]].
  destruct (debit_all _ _ _); [split; [right; eexists; reflexivity|apply D; reflexivity]|].
  split; [left; unfold on_paused; destruct (x_mod x); reflexivity|apply D; unfold on_paused; destruct (x_mod x); reflexivity].
Qed.

Lemma RS_expired_handler c g0 id H t id' :
  QInv t -> In (height t, id') (expq t) -> RS g0 id H t -> RS g0 id H (expired_batch_handler c t id').
Proof.
  intros Hq Hin (R1 & R2). destruct (expired_handler_marks c t id') as (G & M).
  destruct (QInv_expired_handler c t id' Hq Hin) as (_ & Hh & _).
  split; [rewrite G; exact R1|]. rewrite Hh. destruct R2 as [R2|R2]; [|right; exact R2].
  left. rewrite M; [exact R2|]. intros ->.
  (* a context whose batch expires now has no new-batch entry, hence no marker *)
  pose proof (q_mark_new _ Hq _ _ R2) as He. pose proof (q_exp_mark _ Hq _ _ Hin) as Hm.
  assert (Hh2 : has id' (expmark t) = true) by (apply has_get; eexists; exact Hm).
  exact (q_exp_nonew _ Hq _ _ Hh2 He).
Qed.

Lemma RS_new_handler g0 id H t id' :
  QInv t -> In (height t, id') (newq t) -> RS g0 id H t -> RS g0 id H (new_batch_handler t id').
Proof.
  intros Hq Hin (R1 & R2). destruct (new_handler_marks t id') as (G & M & Md).
  destruct (QInv_new_handler t id' Hq Hin) as (_ & Hh & _).
  pose proof (q_new_mark _ Hq _ _ Hin) as Hmk.
  assert (Hctx : get id' (ctxs t) <> None).
  { pose proof (q_new_ctx _ Hq _ _ Hin) as Hc. unfold has in Hc. destruct (get id' (ctxs t)); [discriminate|discriminate]. }
  split.
  - intros e He Hn0 Hid. destruct G as [G|(b & G)]; rewrite G in He; [apply R1; assumption|].
    apply in_app_or in He. destruct He as [He|[<-|[]]]; [apply R1; assumption|]. simpl in Hid. subst id'. simpl.
    destruct R2 as [R2|R2]; [rewrite Hmk in R2; inversion R2; lia|exact R2].
  - rewrite Hh. destruct R2 as [R2|R2]; [|right; exact R2].
    destruct (eq_dec id id') as [->|Hne].
    + right. rewrite Hmk in R2. inversion R2. lia.
    + left. rewrite M by exact Hne. exact R2.
Qed.

Lemma RS_end_block c g0 id H s dt : QInv s -> BatchInv s -> RS g0 id H s -> RS g0 id H (end_block c s dt).
Proof.
  intros Hq Hb Hr. unfold end_block. cbv zeta.
  set (s1 := fold_left (expired_batch_handler c) _ s).
  assert (H1 : ((QInv s1 /\ BatchInv s1) /\ RS g0 id H s1) /\ height s1 = height s).
  { subst s1. apply (fold_handlers (fun t => ((QInv t /\ BatchInv t) /\ RS g0 id H t) /\ height t = height s) (expired_batch_handler c)
                      (fun t id => In (height t, id) (expq t))).
    - intros t id' (((Tq & Tb) & Tr) & Hh) Hpre. destruct (QInv_expired_handler c t id' Tq Hpre) as (A & B & C).
      split; [split; [split; [split; [exact A|apply BatchInv_expired_handler; exact Tb]|apply RS_expired_handler; assumption]|congruence]|].
      intros id'' Hne Hpp. rewrite B. apply C; assumption.
    - apply due_NoDup. exact (q_exp_nodup _ Hq).
    - split; [split; [split; assumption|assumption]|reflexivity].
    - intros id' Hin. apply due_in in Hin. exact Hin. }
  destruct H1 as (((Q1 & B1) & R1) & Hh1).
  set (s2 := fold_left new_batch_handler _ s1).
  assert (H2 : ((QInv s2 /\ BatchInv s2) /\ RS g0 id H s2) /\ height s2 = height s1).
  { subst s2. apply (fold_handlers (fun t => ((QInv t /\ BatchInv t) /\ RS g0 id H t) /\ height t = height s1) new_batch_handler
                      (fun t id => In (height t, id) (newq t))).
    - intros t id' (((Tq & Tb) & Tr) & Hh) Hpre. destruct (QInv_new_handler t id' Tq Hpre) as (A & B & C).
      assert (Hcl : forall x, get id' (ctxs t) = Some x -> x_brun x = false) by (intros x Hx; eapply (q_new_closed _ Tq); eassumption).
      split; [split; [split; [split; [exact A|apply BatchInv_new_handler; assumption]|apply RS_new_handler; assumption]|congruence]|].
      intros id'' Hne Hpp. rewrite B. apply C; assumption.
    - apply due_NoDup. exact (q_new_nodup _ Q1).
    - split; [split; [split; assumption|assumption]|reflexivity].
    - intros id' Hin. apply due_in in Hin. exact Hin. }
  destruct H2 as ((_ & (R21 & R22)) & _). split; [exact R21|]. simpl. destruct R22 as [R|R]; [left; exact R|right; lia].
Qed.

(** messages: the batch log never changes; the marker of [id] changes only when a context is created
    under [id] (impossible while [id] is stored) or [id] is started without any marker *)
Lemma create_context_marks c s txh svc provs cons inok capd capa timeout rep freq total st thr md s' id0 :
  create_context c s txh svc provs cons inok capd capa timeout rep freq total st thr md = Some (s', id0) ->
  g_batches s' = g_batches s /\ height s' = height s
  /\ (forall id, id <> (txh, iidx s) -> get id (newmark s') = get id (newmark s)).
Proof.
  unfold create_context. intros H. repeat dmn H; inversion H; subst; clear H; simpl; (split; [reflexivity|]); (split; [reflexivity|]);
    intros id Hne; try rewrite get_set_other by exact Hne; reflexivity.
Qed.

Lemma RS_create c g0 id H s txh svc provs cons inok capd capa timeout rep freq total st thr md s' id0 :
  create_context c s txh svc provs cons inok capd capa timeout rep freq total st thr md = Some (s', id0) ->
  QInv s -> ctx_at s (txh, iidx s) = None -> RS g0 id H s -> RS g0 id H s'.
Proof.
  intros E Hq Hf (R1 & R2). destruct (create_context_marks _ _ _ _ _ _ _ _ _ _ _ _ _ _ _ _ _ _ E) as (G & Hh & M).
  split; [rewrite G; exact R1|]. rewrite Hh. destruct R2 as [R2|R2]; [|right; exact R2]. left. rewrite M; [exact R2|].
  intros ->. pose proof (q_mark_new _ Hq _ _ R2) as He. pose proof (q_new_ctx _ Hq _ _ He) as Hc.
  unfold ctx_at in Hf. unfold has in Hc. rewrite Hf in Hc. discriminate.
Qed.

Lemma RS_start g0 id H s id' cons s' : k_start s id' cons = Okk s' -> RS g0 id H s -> RS g0 id H s'.
Proof.
  intros E (R1 & R2). destruct (start_keeps_schedule_lemma _ _ _ _ E) as (K1 & K2 & _ & _ & _ & G).
  assert (Hh : height s' = height s) by (clear -E; unfold k_start in E; repeat dmn E; inversion E; subst; reflexivity).
  split; [rewrite G; exact R1|]. rewrite Hh. destruct R2 as [R2|R2]; [|right; exact R2]. left.
  destruct (has id' (expmark s)) eqn:E1; [destruct (K1 (or_introl eq_refl)) as (_ & M); rewrite M; exact R2|].
  destruct (has id' (newmark s)) eqn:E2; [destruct (K1 (or_intror eq_refl)) as (_ & M); rewrite M; exact R2|].
  destruct (K2 eq_refl eq_refl) as (_ & M). rewrite M. rewrite get_set_other; [exact R2|].
  intros ->. unfold has in E2. rewrite R2 in E2. discriminate.
Qed.

Lemma exec_msg_plain_marks c s txh m s' :
  exec_msg_plain c s txh m = Okk s' ->
  match m with MCall _ _ _ _ _ _ _ _ _ _ | MStart _ _ => True | _ => m_same s s' end.
Proof.
  intros H. destruct m; try exact I; simpl in H.
  - unfold define in H. m_frame H.
  - unfold bind in H. m_frame H.
  - unfold update_binding in H. m_frame H.
  - unfold set_withdraw in H. m_frame H.
  - unfold enable in H. m_frame H.
  - unfold disable in H. m_frame H.
  - unfold refund_deposit in H. m_frame H.
  - assert (F : m_same s s'); [|exact F].
    unfold respond in H. destruct rid as [[[id batch] hh] ii]. repeat dmn H; inversion H; subst; clear H; simpl;
      try (unfold callback; simpl; repeat match goal with |- context [match ?g with _ => _ end] => destruct g end; simpl);
      match goal with E : add_earned_fee _ _ _ _ _ = Some ?s1 |- _ => unfold add_earned_fee in E; repeat dmn E; inversion E; subst; repeat split; reflexivity end.
  - unfold msg_ctl, k_pause in H. m_frame H.
  - unfold msg_ctl, k_kill in H. m_frame H.
  - unfold update_context in H. m_frame H.
  - unfold withdraw in H. m_frame H.
Qed.

Lemma RS_apply c g0 id H s st :
  c_msvc c < 0 -> fresh_ctx s st -> QInv s -> BatchInv s -> RS g0 id H s -> RS g0 id H (apply c s st).
Proof.
  intros Hm Hf Hq Hb Hr. unfold apply. destruct (exec_step c s st) as [s'| |] eqn:E; try exact Hr.
  destruct st; cbn [exec_step] in E.
  - rewrite (exec_msg_plain_eq _ _ _ _ Hm) in E. pose proof (exec_msg_plain_marks _ _ _ _ _ E) as Hs.
    destruct m; try (eapply RS_same; [exact Hs|exact Hr]).
    + simpl in E. unfold call in E. destruct (negb _); [discriminate|].
      destruct (create_context _ _ _ _ _ _ _ _ _ _ _ _ _ _ _ _) as [[s1 id0]|] eqn:E1; [|discriminate].
      inversion E; subst. eapply RS_create; eassumption.
    + simpl in E. unfold msg_ctl in E. repeat dmn E. eapply RS_start; eassumption.
  - destruct (0 <=? dt); [|discriminate]. inversion E; subst. apply RS_end_block; assumption.
  - inversion E; subst. eapply RS_same; [|exact Hr]. repeat split.
  - eapply RS_same; [|exact Hr]. m_frame E.
  - destruct (create_context _ _ _ _ _ _ _ _ _ _ _ _ _ _ _ _) as [[s1 id0]|] eqn:E1; [|discriminate].
    inversion E; subst. eapply RS_create; eassumption.
  - unfold k_pause in E. eapply RS_same; [|exact Hr]. m_frame E.
  - eapply RS_start; eassumption.
  - unfold k_kill in E. eapply RS_same; [|exact Hr]. m_frame E.
  - unfold bind in E. eapply RS_same; [|exact Hr]. m_frame E.
Qed.

(** ** the theorem *)
Theorem no_batch_before_its_scheduled_height_lemma :
  forall c pre post h0 t0 l0 id H,
    c_msvc c < 0 -> fresh_history c (init h0 t0 l0) (pre ++ post) ->
    let s := run c (init h0 t0 l0) pre in
    let s' := run c (init h0 t0 l0) (pre ++ post) in
    get id (newmark s) = Some H ->
    (forall e, In e (g_batches s') -> ~ In e (g_batches s) -> b_ctx e = id -> H <= b_h e)
    /\ (get id (newmark s') = Some H \/ H <= height s').
Proof.
  intros c pre post h0 t0 l0 id H Hm Hf s s' Hmk.
  assert (Hrun : forall steps t, fresh_history c t steps -> SInv t -> RS (g_batches s) id H t -> RS (g_batches s) id H (run c t steps)).
  { induction steps as [|st r IH]; intros t F St Rt; [exact Rt|]. cbn [run]. destruct F as (F1 & F2). destruct St as (Tq & Tb).
    apply IH; [exact F2|apply SInv_apply; [exact Hm|exact F1|split; assumption]|apply RS_apply; assumption]. }
  assert (Hsplit : forall steps1 steps2 t, fresh_history c t (steps1 ++ steps2) ->
            fresh_history c t steps1 /\ fresh_history c (run c t steps1) steps2).
  { induction steps1 as [|st r IH]; intros steps2 t F; [split; [exact I|exact F]|]. cbn [app fresh_history run] in *.
    destruct F as (F1 & F2). destruct (IH _ _ F2) as (A & B). split; [split; assumption|exact B]. }
  destruct (Hsplit pre post _ Hf) as (Fpre & Fpost).
  assert (Ss : SInv s) by (apply SInv_reachable; assumption).
  assert (Es : s' = run c s post).
  { subst s s'. generalize (init h0 t0 l0). clear. induction pre as [|st r IH]; intros t; [reflexivity|]. cbn [app run]. apply IH. }
  rewrite Es. apply Hrun; [exact Fpost|exact Ss|]. split; [intros e He Hn; contradiction|left; exact Hmk].
Qed.
