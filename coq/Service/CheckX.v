(** * Service: two further trace predicates for C08, evaluated on the implementation's observations
    (no model-side theorem; see notes/service.md section 15).
    10: a new-batch / expired-batch queue entry at a height that has already passed (the end blocker
        of that height ran and left it behind); 11: a RUNNING, repeated context below its total with
        no batch out has neither a pending new-batch entry at a height >= the current one nor a
        registered expiry (its next batch will never come); 12 (stream "thr"): a response callback's
        err = nil flag differs from "number of outputs >= the threshold the batch had WHEN IT WAS
        ISSUED" (the threshold is edited while the batch is out). *)
From Irismod Require Export Service.Check.

Definition holds_X (o : obs) : Z :=
  first_fail (
    map (fun e => (o_height o <=? fst e, 10)) (o_newq o)
    ++ map (fun e => (o_height o <=? fst e, 10)) (o_expq o)
    ++ map (fun e =>
         let '(id, x) := e in
         (negb (t_rep x && (t_state x =? 0) && negb (t_brun x) && ((t_total x <? 0) || (t_batch x <? t_total x)))
          || match get id (o_newmark o) with Some hh => o_height o <=? hh | None => has id (o_expmark o) end, 11)) (o_ctxs o)).

Fixpoint first_X (p : obs) (l : list (step * ob)) (i : Z) : Z * Z :=
  match l with
  | [] => (-1, 0)
  | (_, b) :: r => let o := resolve p b in
                   let k := holds_X o in
                   if k =? 0 then first_X o r (i + 1) else (i, k)
  end.

Definition check_case_C08x (cs : case) : Z * Z * Z :=
  let '(corr, p8, c8) := check_case_C08 cs in
  if 0 <=? p8 then (corr, p8, c8)
  else let '(_, o0, l) := cs in
       let '(i, k) := first_X o0 l 1 in
       if 0 <=? i then (corr, i, k) else (corr, p8, c8).

(** stream "thr": only the callbacks are judged, against the threshold recorded when the batch went out *)
Definition issued (p o : obs) (rec : list (ctxid * Z * Z)) : list (ctxid * Z * Z) :=
  fold_left (fun t e =>
    let '(id, x) := e in
    let pb := match get id (o_ctxs p) with Some x0 => t_batch x0 | None => 0 end in
    if pb <? t_batch x then set (id, t_batch x) (t_bthr x) t else t) (o_ctxs o) rec.

Definition cb_ok (rec : list (ctxid * Z * Z)) (e : cbev) : bool :=
  let '(k, id, b, n, ok) := e in
  if k =? 0 then
    match get (id, b) rec with
    | Some thr => ok =? (if thr <=? n then 1 else 0)
    | None => true
    end
  else true.

Fixpoint first_thr (p : obs) (rec : list (ctxid * Z * Z)) (l : list (step * ob)) (i : Z) : Z * Z :=
  match l with
  | [] => (-1, 0)
  | (_, b) :: r => let o := resolve p b in
                   let rec' := issued p o rec in
                   if forallb (cb_ok rec') (o_cb o) then first_thr o rec' r (i + 1) else (i, 12)
  end.

Definition check_case_thr (cs : case) : Z * Z * Z :=
  let '(_, o0, l) := cs in
  let '(i, k) := first_thr o0 [] l 1 in (-1, i, k).
