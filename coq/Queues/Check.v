(** * Queues: all correspondence checks of C13 (one per module, see the Check<Module> files) *)
From Irismod Require Export Queues.Common.
From Irismod Require Queues.CheckHtlc.
From Irismod Require Queues.CheckRandom.
From Irismod Require Queues.CheckFarm.
From Irismod Require Queues.CheckService.
From Irismod Require Queues.CheckAbci.
