(** * Queues: the ABCI-level run.  A mixed history of the four scheduling modules is executed
    through the real ABCI surface of the full application (InitChain, FinalizeBlock with signed
    transactions through the ante handlers — all begin blockers, the transactions, all end
    blockers of all modules in the application's order — Commit).  There are no observations
    between the transactions of a block, so the models are not run here: evaluated per block
    are "FinalizeBlock did not fail" (a panic in any begin / end blocker surfaces as a failed
    block) and the four hygiene clauses of the per-module checks, on the committed state. *)
From Irismod Require Export Queues.Common.
From Irismod Require Queues.CheckHtlc Queues.CheckRandom Queues.CheckFarm Queues.CheckService.

Definition HObs := Queues.CheckHtlc.mkHObs.
Definition RObs := Queues.CheckRandom.mkRObs.
Definition FObs := Queues.CheckFarm.mkFObs.
Definition SObs := Queues.CheckService.mkSObs.

Record bobs := mkBObs {
  b_failed : bool;                               (* FinalizeBlock returned an error *)
  b_h : Queues.CheckHtlc.hobs;
  b_r : Queues.CheckRandom.robs;
  b_f : Queues.CheckFarm.fobs;
  b_s : Queues.CheckService.sobs
}.

Definition acase := list bobs.

(** 51 a block failed; 52..55 the hygiene clause of the HTLC / random / farm / service queues *)
Definition bprop (o : bobs) : Z :=
  first_bad [(51, negb (b_failed o));
             (52, Queues.CheckHtlc.hhyg (b_h o));
             (53, Queues.CheckRandom.rhyg (b_r o));
             (54, Queues.CheckFarm.fhyg (b_f o));
             (55, Queues.CheckService.shyg (b_s o))].

Fixpoint acheck_from (c : list bobs) (i : Z) : Z * Z * Z :=
  match c with
  | [] => (-1, -1, 0)
  | o :: rest => let p := bprop o in if p =? 0 then acheck_from rest (i + 1) else (-1, i, p)
  end.

Definition check_abci (c : acase) : Z * Z * Z := acheck_from c 0.
