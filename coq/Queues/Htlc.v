(** * Queues / HTLC: the expiry queue of hash-locked contracts
    (modules/htlc/abci.go, keeper/htlc.go).

    Only what scheduling needs is kept: every contract with its state, expiration height and
    closing block, and the expiry queue (store prefix 0x02, key = be64 height ‖ id) as a set
    of [(height, id)].  Money is abstracted: where the Go code can fail for a reason that
    depends on amounts, assets or secrets the operation carries a boolean decided by what
    the implementation did ([rest_ok]).  Swallowed errors are swallowed here too. *)
From Irismod Require Export Queues.Common.

Inductive hstatus := HOpen | HCompleted | HRefunded.
#[export] Instance EqDec_hstatus : EqDec hstatus.
Proof. intros x y. decide equality. Defined.
Definition hstatus_code (s : hstatus) : Z := match s with HOpen => 0 | HCompleted => 1 | HRefunded => 2 end.

Record hobj := mkH {
  h_status : hstatus;
  h_expire : Z;          (* ExpirationHeight *)
  h_closed : Z;          (* ClosedBlock *)
  h_transfer : bool;     (* HTLT *)
  h_ncoins : Z           (* len(Amount) *)
}.

Record state := mkS {
  height : Z;                      (* height of the current block *)
  objs : amap Z hobj;              (* store prefix 0x01 *)
  hq : queue;                      (* store prefix 0x02 *)
  refunds : list (Z * Z)           (* ghost: (id, height of the block whose begin-blocker refunded it) *)
}.

Definition init (h0 : Z) : state := mkS h0 [] [] [].

Inductive op :=
| Create (id tl : Z) (transfer : bool) (ncoins : Z) (rest_ok : bool)
| Claim (id : Z) (rest_ok : bool)
| BeginBlock (fails : list Z).     (* ids whose RefundHTLC returns an error in this block *)

Definition min_time_lock : Z := 50.
Definition max_time_lock : Z := 34560.

(** MsgCreateHTLC.ValidateBasic (time lock range, non-empty amount) + Keeper.CreateHTLC *)
Definition create (s : state) (id tl : Z) (transfer : bool) (ncoins : Z) (rest_ok : bool) : state * outcome :=
  if negb ((min_time_lock <=? tl) && (tl <=? max_time_lock) && (1 <=? ncoins)) then (s, Rej)
  else if has id (objs s) then (s, Rej)                               (* ErrHTLCExists *)
  else if transfer && negb (ncoins =? 1) then (s, Rej)               (* createHTLT: exactly one coin *)
  else if negb rest_ok then (s, Rej)                                  (* asset / limits / bank *)
  else
    let e := height s + tl in
    (mkS (height s) (set id (mkH HOpen e 0 transfer ncoins) (objs s)) (enq (e, id) (hq s)) (refunds s), Ok).

(** Keeper.ClaimHTLC *)
Definition claim (s : state) (id : Z) (rest_ok : bool) : state * outcome :=
  match get id (objs s) with
  | None => (s, Rej)                                                  (* ErrUnknownHTLC *)
  | Some o =>
      match h_status o with
      | HOpen =>
          if negb rest_ok then (s, Rej)                               (* secret / supply / bank *)
          else (mkS (height s)
                    (set id (mkH HCompleted (h_expire o) (height s) (h_transfer o) (h_ncoins o)) (objs s))
                    (deq (h_expire o, id) (hq s)) (refunds s), Ok)
      | _ => (s, Rej)                                                 (* ErrHTLCNotOpen *)
      end
  end.

(** one callback of [IterateHTLCExpiredQueueByHeight] in BeginBlocker: [RefundHTLC] (result
    discarded), then [DeleteHTLCFromExpiredQueue].  [RefundHTLC] does not look at the state of
    the contract; a missing contract is the zero value (plain, empty sender: error).  The only
    panic is [amount[0]] of a transfer contract without coins. *)
Definition refund_one (fails : list Z) (s : state) (id : Z) : option state :=
  let h := height s in
  match get id (objs s) with
  | None => Some (mkS h (objs s) (deq (h, id) (hq s)) (refunds s))
  | Some o =>
      if h_transfer o && (h_ncoins o <? 1) then None                  (* index out of range *)
      else if existsb (Z.eqb id) fails then                            (* error swallowed *)
        Some (mkS h (objs s) (deq (h, id) (hq s)) (refunds s))
      else
        Some (mkS h (set id (mkH HRefunded (h_expire o) h (h_transfer o) (h_ncoins o)) (objs s))
                  (deq (h, id) (hq s)) (refunds s ++ [(id, h)]))
  end.

Fixpoint refund_all (fails : list Z) (s : state) (ids : list Z) : option state :=
  match ids with
  | [] => Some s
  | id :: rest => match refund_one fails s id with None => None | Some s' => refund_all fails s' rest end
  end.

(** BeginBlocker of the next block *)
Definition begin_block (s : state) (fails : list Z) : option state :=
  let h := height s + 1 in
  refund_all fails (mkS h (objs s) (hq s) (refunds s)) (map snd (due h (hq s))).

Definition step (s : state) (o : op) : state * outcome :=
  match o with
  | Create id tl tr n ok => create s id tl tr n ok
  | Claim id ok => claim s id ok
  | BeginBlock fails => match begin_block s fails with Some s' => (s', Ok) | None => (s, Abort) end
  end.

Fixpoint run (s : state) (ops : list op) : state :=
  match ops with [] => s | o :: rest => run (fst (step s o)) rest end.
