(** * Queues / HTLC: the hygiene clause of the check predicate is a consequence of [QInv] —
    on the projection of any reachable model state clause 12 evaluates to [true]. *)
From Irismod Require Import Queues.CheckHtlc Queues.ProofsHtlc.

Definition obs_of (s : state) : hobs := mkHObs 0 (height s) (proj_objs s) (hq s).

Definition oproj (o : hobj) : Z * Z * Z := (hstatus_code (h_status o), h_expire o, h_closed o).

Lemma get_proj id s : get id (proj_objs s) = option_map oproj (get id (objs s)).
Proof.
  unfold proj_objs. rewrite <- (get_map_val oproj). f_equal. apply map_ext. intros [i o]. reflexivity.
Qed.

Theorem hygiene_clause_holds_on_QInv s : QInv s -> hhyg (obs_of s) = true.
Proof.
  intros Q. pose proof (QInv_strict s Q) as Hs. destruct Q as [W N]. unfold hhyg, obs_of. simpl.
  apply andb_true_iff. split; [apply andb_true_iff; split|].
  - apply nodupb_NoDup. exact (qi_nodup s W).
  - apply forallb_forall. intros [h id] Hin.
    destruct (qi_entry s W _ _ Hin) as (o & Hg & Hst & He). rewrite get_proj, Hg. simpl. rewrite Hst. simpl.
    apply andb_true_iff. split; [apply Z.ltb_lt; exact (Hs _ _ Hin)|apply Z.eqb_eq; exact He].
  - apply forallb_forall. intros [id [[st e] c]] Hin.
    unfold proj_objs in Hin. apply in_map_iff in Hin. destruct Hin as ([i o] & Heq & Hin). inversion Heq; subst.
    pose proof (In_get _ _ _ (qi_keys s W) Hin) as Hg.
    destruct (h_status o) eqn:Hst; simpl; try reflexivity.
    apply ememb_In. apply (qi_open s W _ _ Hg Hst).
Qed.

Corollary hygiene_clause_holds_on_every_history h0 ops :
  Forall op_clean ops -> hhyg (obs_of (run (init h0) ops)) = true.
Proof. intros Hc. apply hygiene_clause_holds_on_QInv. apply QInv_reachable. exact Hc. Qed.
