(** * Queues / farm: the active-pool queue (modules/farm/abci.go, keeper/queue.go,
    keeper/pool.go, keeper/farmer.go: Refund / Stake, keeper/msg_server.go).

    Only what scheduling needs is kept: every pool with its start and end height, creator and
    [editable] flag, and the queue (store prefix 0x04, key = be64 end height ‖ pool id) as a
    set of [(height, id)].  Reward arithmetic belongs to C09/C10: the new duration computed by
    [AdjustPool] is an input of the operation, and where the Go code can fail for a reason
    that depends on amounts the operation carries the outcome the implementation showed
    ([rest]).  Errors swallowed by the end-blocker are swallowed here too. *)
From Irismod Require Export Queues.Common.

(** ghost: how the pool left the queue *)
Inductive pclosed := POpen | PRefunded | PEmpty | PStuck.
(* PEmpty: Refund ran but nothing was left to refund (ErrInvalidRefund, swallowed);
   PStuck: Refund dequeued and then failed in updatePool (swallowed): never refunded *)
#[export] Instance EqDec_pclosed : EqDec pclosed.
Proof. intros x y. decide equality. Defined.

Record pool := mkP {
  p_start : Z;           (* StartHeight *)
  p_end : Z;             (* EndHeight *)
  p_editable : bool;
  p_creator : Z;
  p_closed : pclosed
}.

Record state := mkS {
  height : Z;
  seq : Z;                          (* pool id sequence: ids are farm-1, farm-2, ... *)
  pools : amap Z pool;              (* store prefix 0x01 *)
  fq : queue;                       (* store prefix 0x04 *)
  refunds : list (Z * Z)            (* ghost: (id, height of the block in which it was refunded) *)
}.

Definition init (h0 : Z) : state := mkS h0 0 [] [] [].

Inductive op :=
| Create (start span : Z) (editable : bool) (creator : Z) (rest : outcome)
| Adjust (id sender avail : Z) (rest : outcome)
| Destroy (id sender : Z) (rest : outcome)
| Stake (id : Z) (rest : outcome)
| EndBlock (fails1 fails2 : list Z).
(* EndBlock: the end-blocker of the current block, then the next block opens.
   fails1: pools whose Refund fails in updatePool; fails2: pools with nothing left to refund *)

(** Keeper.Expired *)
Definition expired (s : state) (id : Z) (p : pool) : bool :=
  (p_end p <? height s) || ((p_end p =? height s) && negb (ememb (p_end p, id) (fq s))).

(** msgServer.CreatePool + Keeper.createPool.  [span] = min over the rules of
    TotalReward / RewardPerBlock, at least 1 by ValidateReward (total >= per block). *)
Definition create (s : state) (start span : Z) (editable : bool) (creator : Z) (rest : outcome) : state * outcome :=
  if start <? height s then (s, Rej)                                  (* ErrExpiredHeight *)
  else if span <? 1 then (s, Rej)                                     (* ValidateReward *)
  else match rest with
  | Ok =>
      let id := seq s + 1 in
      let e := start + span in
      (mkS (height s) id (set id (mkP start e editable creator POpen) (pools s)) (enq (e, id) (fq s)) (refunds s), Ok)
  | r => (s, r)                                                       (* lpt denom, fee, escrow, overflow *)
  end.

(** Keeper.AdjustPool.  [avail] = availableHeight (the minimum of the quotients). *)
Definition adjust (s : state) (id sender avail : Z) (rest : outcome) : state * outcome :=
  match get id (pools s) with
  | None => (s, Rej)
  | Some p =>
      if negb (p_editable p) then (s, Rej)
      else if negb (sender =? p_creator p) then (s, Rej)
      else if expired s id p then (s, Rej)
      else match rest with
      | Ok =>
          let st := if p_start p <=? height s then height s else p_start p in
          let e := st + avail in
          if e =? p_end p then (s, Ok)
          else (mkS (height s) (seq s)
                    (set id (mkP (p_start p) e (p_editable p) (p_creator p) (p_closed p)) (pools s))
                    (enq (e, id) (deq (p_end p, id) (fq s))) (refunds s), Ok)
      | r => (s, r)                                                   (* denoms, updatePool, bank; index panic *)
      end
  end.

(** Keeper.Refund on success: dequeue [(EndHeight, id)], then updatePool(isDestroy) sets
    EndHeight (and a later StartHeight) to the current height *)
Definition close_pool (s : state) (id : Z) (p : pool) (how : pclosed) : state :=
  let h := height s in
  let p' := match how with
            | PStuck => mkP (p_start p) (p_end p) (p_editable p) (p_creator p) how
            | _ => mkP (Z.min (p_start p) h) h (p_editable p) (p_creator p) how
            end in
  mkS h (seq s) (set id p' (pools s)) (deq (p_end p, id) (fq s))
      (match how with PRefunded => refunds s ++ [(id, h)] | _ => refunds s end).

(** Keeper.DestroyPool *)
Definition destroy (s : state) (id sender : Z) (rest : outcome) : state * outcome :=
  match get id (pools s) with
  | None => (s, Rej)
  | Some p =>
      if negb (sender =? p_creator p) then (s, Rej)
      else if negb (p_editable p) then (s, Rej)
      else if expired s id p then (s, Rej)
      else match rest with
      | Ok => (close_pool s id p PRefunded, Ok)
      | r => (s, r)                                                   (* Refund error: the tx is reverted *)
      end
  end.

(** Keeper.Stake: only its guards matter here *)
Definition stake (s : state) (id : Z) (rest : outcome) : state * outcome :=
  match get id (pools s) with
  | None => (s, Rej)
  | Some p =>
      if height s <? p_start p then (s, Rej)                          (* ErrPoolNotStart *)
      else if expired s id p then (s, Rej)
      else (s, rest)
  end.

(** one callback of IteratorExpiredPool in EndBlocker: a missing pool is skipped (its entry
    stays); Refund's error is logged and dropped *)
Definition expire_one (fails1 fails2 : list Z) (s : state) (id : Z) : state :=
  match get id (pools s) with
  | None => s
  | Some p =>
      close_pool s id p (if existsb (Z.eqb id) fails1 then PStuck
                         else if existsb (Z.eqb id) fails2 then PEmpty else PRefunded)
  end.

Definition end_block (s : state) (fails1 fails2 : list Z) : state :=
  let s' := fold_left (expire_one fails1 fails2) (map snd (due (height s) (fq s))) s in
  mkS (height s + 1) (seq s') (pools s') (fq s') (refunds s').

Definition step (s : state) (o : op) : state * outcome :=
  match o with
  | Create st sp ed c r => create s st sp ed c r
  | Adjust id sd av r => adjust s id sd av r
  | Destroy id sd r => destroy s id sd r
  | Stake id r => stake s id r
  | EndBlock f1 f2 => (end_block s f1 f2, Ok)
  end.

Fixpoint run (s : state) (ops : list op) : state :=
  match ops with [] => s | o :: rest => run (fst (step s o)) rest end.
