(** * Queues / service: the new-batch and expired-batch queues of request contexts
    (modules/service/abci.go: EndBlocker; keeper/invocation.go: CreateRequestContext,
    Pause/Start/Kill/UpdateRequestContext, AddResponse, InitiateRequests,
    SkipCurrentRequestBatch, Add/Delete(New)RequestBatch(Expiration); keeper/state_change.go).

    Kept: every request context — created by MsgCallService (no owning module), by the oracle
    module (a feed: CreateFeed / StartFeed / PauseFeed / EditFeed) or by the random module (an
    oracle random request: RequestService, started by random's begin blocker) — with its state,
    batch state, batch counter, timeout, repetition parameters, consumer and the request /
    response counts of the current batch; the two queues (prefix 0x08 expired batches, 0x09 new
    batches: key = be64 height ‖ context id) as sets of [(height, id)]; the two per-context
    height markers (0x10, 0x11) that [Has…] reads.  Providers, prices and fees belong to
    C07/C08: which providers pass the filter and whether the consumer can pay are inputs of the
    block operation.  The module callbacks (Keeper.Callback -> HandlerResponse of oracle / random,
    OnRequestContextPaused -> HandlerStateChanged) are kept as far as they can abort: both
    HandlerResponse dereference a nil error when called with no output and no error, and
    random's dereferences one when the seed decodes but has the wrong length. *)
From Irismod Require Export Queues.Common.

Inductive cstate := CRunning | CPaused | CCompleted.
#[export] Instance EqDec_cstate : EqDec cstate.
Proof. intros x y. decide equality. Defined.
Definition cstate_code (c : cstate) : Z := match c with CRunning => 0 | CPaused => 1 | CCompleted => 2 end.

Record rctx := mkC {
  c_state : cstate;
  c_done : bool;          (* BatchState = BATCH_COMPLETED *)
  c_counter : Z;          (* BatchCounter *)
  c_timeout : Z;
  c_repeated : bool;
  c_freq : Z;             (* RepeatedFrequency *)
  c_total : Z;            (* RepeatedTotal *)
  c_consumer : Z;
  c_reqs : Z;             (* BatchRequestCount *)
  c_resps : Z;            (* BatchResponseCount *)
  c_module : Z;           (* ModuleName: 0 none (MsgCallService), 1 oracle (a feed), 2 random (an oracle request) *)
  c_nprov : Z;            (* len(Providers) *)
  c_thr : Z;              (* ResponseThreshold *)
  c_bthr : Z;             (* BatchResponseThreshold *)
  c_outs : Z;             (* responses of the current batch that carry an output (GetResponseOutputs) *)
  c_badseed : bool        (* random: such an output carries a seed that decodes but has the wrong length *)
}.

(** what [GetRequestContext] returns for an unknown id *)
Definition zero_ctx : rctx := mkC CRunning false 0 0 false 0 0 (-1) 0 0 0 0 0 0 0 false.

Record state := mkS {
  height : Z;
  ctxs : amap Z rctx;
  nq : queue;                      (* new request batches *)
  xq : queue;                      (* request batch expirations *)
  nmark : amap Z Z;                (* NewRequestBatchHeight *)
  xmark : amap Z Z;                (* ExpiredRequestBatchHeight *)
  ndone : list (entry * Z);        (* ghost: new-batch entries handled, with the block that did it *)
  xdone : list (entry * Z)         (* ghost: expirations handled *)
}.

Definition init (h0 : Z) : state := mkS h0 [] [] [] [] [] [] [].

(** Params.MaxRequestTimeout as set by the harness genesis *)
Definition max_timeout : Z := 10.

(** what the new-batch handler does with a running context *)
Inductive nbres :=
| NBStart (n : Z)      (* n providers pass the filter (0: batch skipped; also when the filter fails) *)
| NBNoFunds.           (* the consumer cannot pay: the context is paused *)

Inductive op :=
| Call (id consumer timeout : Z) (repeated : bool) (freq total nprov : Z) (rest : outcome)
| CallM (id consumer module timeout : Z) (repeated : bool) (freq total thr nprov : Z) (rest : outcome)
| MStart (id sender : Z) (rest : outcome)          (* oracle StartFeed / random's begin blocker *)
| MPause (id sender : Z) (rest : outcome)          (* oracle PauseFeed *)
| MUpdate (id sender thr nprov timeout freq : Z) (rest : outcome)   (* oracle EditFeed *)
| Pause (id sender : Z) (rest : outcome)
| Start (id sender : Z) (rest : outcome)
| Kill (id sender : Z) (rest : outcome)
| Update (id sender timeout freq total : Z) (rest : outcome)
| Respond (id : Z) (good seedok : bool) (rest : outcome)   (* good: the response carries an output *)
| EndBlock (res : list (Z * nbres)).

Definition upd (s : state) (cs : amap Z rctx) : state :=
  mkS (height s) cs (nq s) (xq s) (nmark s) (xmark s) (ndone s) (xdone s).

(** AddNewRequestBatch / DeleteNewRequestBatch / AddRequestBatchExpiration / DeleteRequestBatchExpiration *)
Definition add_new (s : state) (id h : Z) : state :=
  mkS (height s) (ctxs s) (enq (h, id) (nq s)) (xq s) (set id h (nmark s)) (xmark s) (ndone s) (xdone s).
Definition del_new (s : state) (id h : Z) : state :=
  mkS (height s) (ctxs s) (deq (h, id) (nq s)) (xq s) (del id (nmark s)) (xmark s) (ndone s ++ [((h, id), height s)]) (xdone s).
Definition add_exp (s : state) (id h : Z) : state :=
  mkS (height s) (ctxs s) (nq s) (enq (h, id) (xq s)) (nmark s) (set id h (xmark s)) (ndone s) (xdone s).
Definition del_exp (s : state) (id h : Z) : state :=
  mkS (height s) (ctxs s) (nq s) (deq (h, id) (xq s)) (nmark s) (del id (xmark s)) (ndone s) (xdone s ++ [((h, id), height s)]).

(** MsgCallService.ValidateBasic (ValidateRequest) + Keeper.CreateRequestContext with state RUNNING *)
Definition call (s : state) (id consumer timeout : Z) (repeated : bool) (freq total nprov : Z) (rest : outcome)
  : state * outcome :=
  if (timeout <=? 0) || (max_timeout <? timeout) || (freq <? 0) then (s, Rej)      (* freq is a uint64 *)
  else if repeated && (((0 <? freq) && (freq <? timeout)) || (total <? -1) || (total =? 0)) then (s, Rej)
  else if has id (ctxs s) then (s, Rej)
  else match rest with
  | Ok =>
      let f := if repeated then (if freq =? 0 then timeout else freq) else 0 in
      let t := if repeated then total else 0 in
      let c := mkC CRunning true 0 timeout repeated f t consumer 0 0 0 nprov 0 0 0 false in
      (add_new (upd s (set id c (ctxs s))) id (height s), Ok)
  | r => (s, r)                                   (* definition, bindings' input schema, fee cap *)
  end.

Definition set_state (c : rctx) (st : cstate) : rctx :=
  mkC st (c_done c) (c_counter c) (c_timeout c) (c_repeated c) (c_freq c) (c_total c) (c_consumer c) (c_reqs c) (c_resps c)
      (c_module c) (c_nprov c) (c_thr c) (c_bthr c) (c_outs c) (c_badseed c).

(** Keeper.CreateRequestContext called by a module (oracle CreateFeed; random RequestService),
    state PAUSED: no queue entry yet.  random always names exactly one provider. *)
Definition callm (s : state) (id consumer module timeout : Z) (repeated : bool) (freq total thr nprov : Z)
           (rest : outcome) : state * outcome :=
  if (module <? 1) || (2 <? module) || ((module =? 2) && negb (nprov =? 1)) then (s, Rej)
  else if (timeout <=? 0) || (max_timeout <? timeout) || (freq <? 0) then (s, Rej)
  else if repeated && (((0 <? freq) && (freq <? timeout)) || (total <? -1) || (total =? 0)) then (s, Rej)
  else if (thr <? 1) || (nprov <? thr) then (s, Rej)                  (* ErrInvalidResponseThreshold *)
  else if has id (ctxs s) then (s, Rej)
  else match rest with
  | Ok =>
      let f := if repeated then (if freq =? 0 then timeout else freq) else 0 in
      let t := if repeated then total else 0 in
      let c := mkC CPaused true 0 timeout repeated f t consumer 0 0 module nprov thr thr 0 false in
      (upd s (set id c (ctxs s)), Ok)
  | r => (s, r)
  end.

(** [bym]: called by the owning module (keeper level) rather than by a consumer message — the
    message servers refuse contexts owned by a module (CheckAuthority with checkModule) *)
Definition authorized (bym : bool) (sender : Z) (c : rctx) : bool :=
  (sender =? c_consumer c) && (bym || (c_module c =? 0)).

(** msgServer.PauseRequestContext (CheckAuthority) + Keeper.PauseRequestContext *)
Definition pause_k (bym : bool) (s : state) (id sender : Z) (rest : outcome) : state * outcome :=
  match get id (ctxs s) with
  | None => (s, Rej)
  | Some c =>
      if negb (authorized bym sender c) then (s, Rej)
      else if negb (c_repeated c) then (s, Rej)
      else if negb (eqb (c_state c) CRunning) then (s, Rej)
      else match rest with Ok => (upd s (set id (set_state c CPaused) (ctxs s)), Ok) | r => (s, r) end
  end.

(** Keeper.StartRequestContext: re-queued only if in neither queue *)
Definition start_k (bym : bool) (s : state) (id sender : Z) (rest : outcome) : state * outcome :=
  match get id (ctxs s) with
  | None => (s, Rej)
  | Some c =>
      if negb (authorized bym sender c) then (s, Rej)
      else if negb (eqb (c_state c) CPaused) then (s, Rej)
      else match rest with
      | Ok =>
          let s1 := upd s (set id (set_state c CRunning) (ctxs s)) in
          (if negb (has id (xmark s)) && negb (has id (nmark s)) then add_new s1 id (height s) else s1, Ok)
      | r => (s, r)
      end
  end.

(** Keeper.KillRequestContext (only consumers' messages call it) *)
Definition kill (s : state) (id sender : Z) (rest : outcome) : state * outcome :=
  match get id (ctxs s) with
  | None => (s, Rej)
  | Some c =>
      if negb (authorized false sender c) then (s, Rej)
      else if negb (c_repeated c) then (s, Rej)
      else match rest with Ok => (upd s (set id (set_state c CCompleted) (ctxs s)), Ok) | r => (s, r) end
  end.

(** MsgUpdateRequestContext.ValidateBasic + Keeper.UpdateRequestContext (fee cap not kept).
    For a context owned by a module (only the oracle module calls it: EditFeed, with total -1)
    the response threshold and the number of providers can change too: [thr] / [nprov] 0 = keep. *)
Definition update_k (bym : bool) (s : state) (id sender thr nprov timeout freq total : Z) (rest : outcome)
  : state * outcome :=
  match get id (ctxs s) with
  | None => (s, Rej)
  | Some c =>
      let t := if timeout =? 0 then c_timeout c else timeout in
      let f := if freq =? 0 then c_freq c else freq in
      let th := if thr =? 0 then c_thr c else thr in
      let np := if nprov =? 0 then c_nprov c else nprov in
      if negb (authorized bym sender c) then (s, Rej)
      else if bym && negb (c_module c =? 1) then (s, Rej)
      else if eqb (c_state c) CCompleted then (s, Rej)
      else if (timeout <? 0) || (total <? -1) || (max_timeout <? timeout) || (thr <? 0) || (nprov <? 0) then (s, Rej)
      else if bym && (np <? th) then (s, Rej)                          (* ErrInvalidResponseThreshold *)
      else if f <? t then (s, Rej)
      else if (1 <=? total) && (total <? c_counter c) then (s, Rej)
      else match rest with
      | Ok =>
          let c' := mkC (c_state c) (c_done c) (c_counter c) (if 0 <? t then t else c_timeout c) (c_repeated c)
                        (if 0 <? f then f else c_freq c) (if total =? 0 then c_total c else total)
                        (c_consumer c) (c_reqs c) (c_resps c)
                        (c_module c) (if bym then np else c_nprov c) (if bym then th else c_thr c) (c_bthr c)
                        (c_outs c) (c_badseed c) in
          (upd s (set id c' (ctxs s)), Ok)
      | r => (s, r)
      end
  end.

(** Keeper.AddResponse, as far as the context goes: only an active request can be answered *)
Definition respond (s : state) (id : Z) (good seedok : bool) (rest : outcome) : state * outcome :=
  match rest, get id (ctxs s) with
  | Ok, Some c =>
      if c_reqs c <=? c_resps c then (s, Rej)
      else
        let n := c_resps c + 1 in
        let c' := mkC (c_state c) (if n =? c_reqs c then true else c_done c) (c_counter c) (c_timeout c) (c_repeated c)
                      (c_freq c) (c_total c) (c_consumer c) (c_reqs c) n
                      (c_module c) (c_nprov c) (c_thr c) (c_bthr c)
                      (if good then c_outs c + 1 else c_outs c) (c_badseed c || (good && negb seedok)) in
        (upd s (set id c' (ctxs s)), Ok)
  | r, _ => (s, match r with Ok => Rej | _ => r end)
  end.

Definition get_ctx (s : state) (id : Z) : rctx := match get id (ctxs s) with Some c => c | None => zero_ctx end.

(** Keeper.Callback -> HandlerResponse of the owning module aborts (nil pointer dereference):
    the error is nil (enough outputs) and either there is no output at all, or (random) the
    seed of the output decodes but has the wrong length *)
Definition cb_aborts (c : rctx) : bool :=
  negb (c_module c =? 0) && (c_bthr c <=? c_outs c)
  && ((c_outs c =? 0) || ((c_module c =? 2) && c_badseed c)).

(** expiredRequestBatchHandler for the entry [(height, id)] *)
Definition expire_one (s : state) (id : Z) : state :=
  let h := height s in
  let c := get_ctx s id in
  let c1 := mkC (c_state c) true (c_counter c) (c_timeout c) (c_repeated c) (c_freq c) (c_total c)
                (c_consumer c) (c_reqs c) (c_resps c)
                (c_module c) (c_nprov c) (c_thr c) (c_bthr c) 0 false in
                                        (* CompleteBatch unless completed already; CleanBatch drops the responses *)
  let s1 := del_exp s id h in
  match c_state c1 with
  | CCompleted => upd s1 (del id (ctxs s1))                       (* CompleteServiceContext *)
  | CPaused => upd s1 (set id c1 (ctxs s1))
  | CRunning =>
      if c_repeated c1 && ((c_total c1 <? 0) || (c_counter c1 <? c_total c1))
      then add_new (upd s1 (set id c1 (ctxs s1))) id (h - c_timeout c1 + c_freq c1)
      else upd s1 (del id (ctxs s1))
  end.

Fixpoint lookup_res (id : Z) (res : list (Z * nbres)) : nbres :=
  match res with [] => NBStart 0 | (i, r) :: rest => if i =? id then r else lookup_res id rest end.

(** newRequestBatchHandler for the entry [(height, id)].  A failing provider filter (no
    exchange rate) skips the batch like an empty provider list does (fix of this property).
    (OnRequestContextPaused calls the module's HandlerStateChanged, which cannot abort.) *)
Definition newbatch_one (res : list (Z * nbres)) (s : state) (id : Z) : state :=
  let h := height s in
  let c := get_ctx s id in
  match c_state c with
  | CRunning =>
      match lookup_res id res with
      | NBStart n =>
          (* InitiateRequests / SkipCurrentRequestBatch + AddRequestBatchExpiration *)
          let n' := if c_module c =? 2 then Z.min n 1 else n in      (* random: one provider *)
          let c' := mkC CRunning false (c_counter c + 1) (c_timeout c) (c_repeated c) (c_freq c) (c_total c)
                        (c_consumer c) n' 0 (c_module c) (c_nprov c) (c_thr c) (c_thr c) 0 false in
          del_new (add_exp (upd s (set id c' (ctxs s))) id (h + c_timeout c)) id h
      | NBNoFunds =>
          (* OnRequestContextPaused *)
          let c' := mkC CPaused true (c_counter c) (c_timeout c) (c_repeated c) (c_freq c) (c_total c)
                        (c_consumer c) (c_reqs c) (c_resps c)
                        (c_module c) (c_nprov c) (c_thr c) (c_bthr c) (c_outs c) (c_badseed c) in
          del_new (upd s (set id c' (ctxs s))) id h
      end
  | _ => del_new s id h
  end.

(** the expiration handler calls the module callback of every batch still running: does one abort? *)
Definition blocker_aborts (s : state) : bool :=
  existsb (fun id => let c := get_ctx s id in negb (c_done c) && cb_aborts c) (map snd (due (height s) (xq s))).

(** EndBlocker of the current block: expirations first, then the new batches (including those
    the expirations have just scheduled for this very height); then the next block opens *)
Definition end_block (s : state) (res : list (Z * nbres)) : state :=
  let s1 := fold_left expire_one (map snd (due (height s) (xq s))) s in
  let s2 := fold_left (newbatch_one res) (map snd (due (height s1) (nq s1))) s1 in
  mkS (height s + 1) (ctxs s2) (nq s2) (xq s2) (nmark s2) (xmark s2) (ndone s2) (xdone s2).

Definition step (s : state) (o : op) : state * outcome :=
  match o with
  | Call id c t r f n np rest => call s id c t r f n np rest
  | CallM id c m t r f n thr np rest => callm s id c m t r f n thr np rest
  | MStart id sd rest => start_k true s id sd rest
  | MPause id sd rest => pause_k true s id sd rest
  | MUpdate id sd thr np t f rest => update_k true s id sd thr np t f (-1) rest
  | Pause id sd rest => pause_k false s id sd rest
  | Start id sd rest => start_k false s id sd rest
  | Kill id sd rest => kill s id sd rest
  | Update id sd t f n rest => update_k false s id sd 0 0 t f n rest
  | Respond id good seedok rest => respond s id good seedok rest
  | EndBlock res => if blocker_aborts s then (s, Abort) else (end_block s res, Ok)
  end.

Fixpoint run (s : state) (ops : list op) : state :=
  match ops with [] => s | o :: rest => run (fst (step s o)) rest end.
