(** * Queues / HTLC: queue hygiene, totality of the begin-blocker, exactly-once refunds *)
From Irismod Require Import Queues.Htlc.

(** ** The invariant.  [QInvW] is the form that also holds in the middle of the begin-blocker
    (entries of the current height are still being drained); [QInv] adds that nothing is left
    at the current height. *)
Record QInvW (s : state) : Prop := {
  qi_nodup : NoDup (hq s);
  qi_entry : forall h id, In (h, id) (hq s) ->
      exists o, get id (objs s) = Some o /\ h_status o = HOpen /\ h_expire o = h;
  qi_open : forall id o, get id (objs s) = Some o -> h_status o = HOpen -> In (h_expire o, id) (hq s);
  qi_future : forall h id, In (h, id) (hq s) -> height s <= h;
  qi_coins : forall id o, get id (objs s) = Some o -> h_transfer o = true -> h_ncoins o = 1;
  qi_log : forall id h, In (id, h) (refunds s) ->
      exists o, get id (objs s) = Some o /\ h_status o = HRefunded /\ h_expire o = h /\ h_closed o = h;
  qi_log_nodup : NoDup (map fst (refunds s));
  qi_refunded : forall id o, get id (objs s) = Some o -> h_status o = HRefunded -> In (id, h_expire o) (refunds s);
  qi_keys : NoDup (keys (objs s))
}.

Definition QInv (s : state) : Prop := QInvW s /\ forall id, ~ In (height s, id) (hq s).

Lemma QInv_strict s : QInv s -> forall h id, In (h, id) (hq s) -> height s < h.
Proof.
  intros [W N] h id Hin. pose proof (qi_future s W h id Hin) as Hle.
  assert (h <> height s) by (intros ->; exact (N id Hin)). lia.
Qed.

Lemma QInv_init h0 : QInv (init h0).
Proof.
  split; [constructor|]; simpl; try (intros; contradiction); try constructor; try discriminate.
  intros id H; exact H.
Qed.

Ltac case_id id' id :=
  destruct (eq_dec id' id) as [->|?].

(** ** Create *)
Lemma create_inv s id tl tr n ok : QInv s -> QInv (fst (create s id tl tr n ok)).
Proof.
  intros [W N]. unfold create.
  destruct (negb ((min_time_lock <=? tl) && (tl <=? max_time_lock) && (1 <=? n))) eqn:Ev; [split; assumption|].
  destruct (has id (objs s)) eqn:Eh; [split; assumption|].
  destruct (tr && negb (n =? 1)) eqn:Et; [split; assumption|].
  destruct (negb ok); [split; assumption|]. simpl.
  assert (get id (objs s) = None) as Hnone by (unfold has in Eh; destruct (get id (objs s)); [discriminate|reflexivity]).
  assert (min_time_lock <= tl) as Htl.
  { apply negb_false_iff in Ev. apply andb_prop in Ev. destruct Ev as [Ev _]. apply andb_prop in Ev. destruct Ev as [Ev _]. lia. }
  unfold min_time_lock in Htl.
  destruct W as [Wn We Wo Wf Wc Wl Wln Wr Wk].
  split; [constructor|]; simpl.
  - apply NoDup_enq; assumption.
  - intros h id' Hin. apply In_enq in Hin. rewrite get_set_cases. destruct Hin as [Heq|Hin].
    + inversion Heq; subst. destruct (eq_dec id id); [|congruence]. eexists; repeat split.
    + destruct (We _ _ Hin) as (o & Hg & Hs & He). case_id id' id; [congruence|]. exists o; auto.
  - intros id' o. rewrite get_set_cases. case_id id' id.
    + intros Ho _. inversion Ho; subst; simpl. apply In_enq. left. reflexivity.
    + intros Hg Hs. apply In_enq. right. apply Wo; assumption.
  - intros h id' Hin. apply In_enq in Hin. destruct Hin as [Heq|Hin]; [inversion Heq; lia|eauto].
  - intros id' o. rewrite get_set_cases. case_id id' id; [|apply Wc].
    intros Ho Htr. inversion Ho; subst; simpl in *. subst tr. simpl in Et.
    apply negb_false_iff in Et. lia.
  - intros id' h Hin. destruct (Wl _ _ Hin) as (o & Hg & Hrest). rewrite get_set_cases.
    case_id id' id; [congruence|]. exists o; auto.
  - assumption.
  - intros id' o. rewrite get_set_cases. case_id id' id; [|apply Wr].
    intros Ho Hs. inversion Ho; subst; simpl in Hs. discriminate.
  - apply keys_set_NoDup. exact Wk.
  - intros id' Hin. apply In_enq in Hin. destruct Hin as [Heq|Hin]; [inversion Heq; lia|exact (N _ Hin)].
Qed.

(** ** Claim *)
Lemma claim_inv s id ok : QInv s -> QInv (fst (claim s id ok)).
Proof.
  intros [W N]. unfold claim.
  destruct (get id (objs s)) as [o|] eqn:Hg; [|split; assumption].
  destruct (h_status o) eqn:Hst; try (split; assumption).
  destruct (negb ok); [split; assumption|]. simpl.
  destruct W as [Wn We Wo Wf Wc Wl Wln Wr Wk].
  split; [constructor|]; simpl.
  - apply NoDup_deq; assumption.
  - intros h id' Hin. apply In_deq in Hin. destruct Hin as [Hne Hin].
    destruct (We _ _ Hin) as (o' & Hg' & Hs' & He'). rewrite get_set_cases. case_id id' id.
    + exfalso. apply Hne. congruence.
    + exists o'; auto.
  - intros id' o'. rewrite get_set_cases. case_id id' id.
    + intros Ho Hs. inversion Ho; subst; simpl in Hs. discriminate.
    + intros Hg' Hs'. apply In_deq. split; [congruence|]. apply Wo; assumption.
  - intros h id' Hin. apply In_deq in Hin. destruct Hin as [_ Hin]. eauto.
  - intros id' o'. rewrite get_set_cases. case_id id' id; [|apply Wc].
    intros Ho Htr. inversion Ho; subst; simpl in *. eapply Wc; eauto.
  - intros id' h Hin. destruct (Wl _ _ Hin) as (o' & Hg' & Hs' & Hrest). rewrite get_set_cases.
    case_id id' id; [congruence|]. exists o'; auto.
  - assumption.
  - intros id' o'. rewrite get_set_cases. case_id id' id; [|apply Wr].
    intros Ho Hs. inversion Ho; subst; simpl in Hs. discriminate.
  - apply keys_set_NoDup. exact Wk.
  - intros id' Hin. apply In_deq in Hin. destruct Hin as [_ Hin]. exact (N _ Hin).
Qed.

(** ** One refund of the begin-blocker *)
Lemma refund_one_spec fails s id :
  QInvW s -> In (height s, id) (hq s) -> existsb (Z.eqb id) fails = false ->
  exists s', refund_one fails s id = Some s' /\ QInvW s' /\ height s' = height s
             /\ hq s' = deq (height s, id) (hq s).
Proof.
  intros W Hin Hnf. destruct W as [Wn We Wo Wf Wc Wl Wln Wr Wk].
  destruct (We _ _ Hin) as (o & Hg & Hst & Hex).
  unfold refund_one. rewrite Hg.
  assert (h_transfer o && (h_ncoins o <? 1) = false) as Hna.
  { destruct (h_transfer o) eqn:Htr; [|reflexivity]. rewrite (Wc _ _ Hg Htr). reflexivity. }
  rewrite Hna, Hnf. eexists. split; [reflexivity|]. split; [|split; reflexivity].
  constructor; simpl.
  - apply NoDup_deq; assumption.
  - intros h id' Hin'. apply In_deq in Hin'. destruct Hin' as [Hne Hin'].
    destruct (We _ _ Hin') as (o' & Hg' & Hs' & He'). rewrite get_set_cases. case_id id' id.
    + exfalso. apply Hne. congruence.
    + exists o'; auto.
  - intros id' o'. rewrite get_set_cases. case_id id' id.
    + intros Ho Hs. inversion Ho; subst; simpl in Hs. discriminate.
    + intros Hg' Hs'. apply In_deq. split; [congruence|]. apply Wo; assumption.
  - intros h id' Hin'. apply In_deq in Hin'. destruct Hin' as [_ Hin']. eauto.
  - intros id' o'. rewrite get_set_cases. case_id id' id; [|apply Wc].
    intros Ho Htr. inversion Ho; subst; simpl in *. eapply Wc; eauto.
  - intros id' h Hin'. apply in_app_iff in Hin'. rewrite get_set_cases. destruct Hin' as [Hin'|[Heq|[]]].
    + destruct (Wl _ _ Hin') as (o' & Hg' & Hs' & Hrest). case_id id' id; [congruence|]. exists o'; auto.
    + inversion Heq; subst. destruct (eq_dec id' id'); [|congruence]. eexists; repeat split; simpl; auto.
  - rewrite map_app. simpl. apply NoDup_app_one; [assumption|].
    intros Hi. apply in_map_iff in Hi. destruct Hi as ([i h] & Hf & Hi). simpl in Hf. subst i.
    destruct (Wl _ _ Hi) as (o' & Hg' & Hs' & _). congruence.
  - intros id' o'. rewrite get_set_cases. case_id id' id.
    + intros Ho _. inversion Ho; subst; simpl. apply in_app_iff. right. left. congruence.
    + intros Hg' Hs'. apply in_app_iff. left. apply Wr; assumption.
  - apply keys_set_NoDup. exact Wk.
Qed.

(** ** The whole drain loop *)
Lemma refund_all_spec fails : forall ids s,
  QInvW s -> NoDup ids ->
  (forall id, In id ids -> In (height s, id) (hq s)) ->
  (forall id, In id ids -> existsb (Z.eqb id) fails = false) ->
  exists s', refund_all fails s ids = Some s' /\ QInvW s' /\ height s' = height s
             /\ (forall e, In e (hq s') <-> In e (hq s) /\ ~ (fst e = height s /\ In (snd e) ids)).
Proof.
  induction ids as [|id ids IH]; intros s W Hnd Hin Hnf; simpl.
  - exists s. split; [reflexivity|]. split; [exact W|]. split; [reflexivity|]. intros e. simpl. tauto.
  - inversion Hnd as [|? ? Hnotin Hnd']; subst.
    destruct (refund_one_spec fails s id W (Hin id (or_introl eq_refl)) (Hnf id (or_introl eq_refl)))
      as (s1 & E1 & W1 & Hh1 & Hq1).
    rewrite E1.
    destruct (IH s1 W1 Hnd') as (s' & E' & W' & Hh' & Hq').
    + intros i Hi. rewrite Hh1, Hq1. apply In_deq. split; [|apply Hin; right; exact Hi].
      intros Heq. inversion Heq; subst. contradiction.
    + intros i Hi. apply Hnf. right. exact Hi.
    + exists s'. split; [exact E'|]. split; [exact W'|]. split; [congruence|].
      intros e. rewrite Hq', Hh1, Hq1, In_deq. destruct e as [h i]; simpl. split.
      * intros ((Hne & Hi) & Hn). split; [exact Hi|]. intros (-> & [->|Hi']); [congruence|].
        apply Hn. auto.
      * intros (Hi & Hn). split; [split; [|exact Hi]|].
        { intros Heq. inversion Heq; subst. apply Hn. auto. }
        { intros (-> & Hi'). apply Hn. auto. }
Qed.

Lemma begin_block_inv s fails :
  QInv s -> (forall id, In (height s + 1, id) (hq s) -> existsb (Z.eqb id) fails = false) ->
  exists s', begin_block s fails = Some s' /\ QInv s' /\ height s' = height s + 1.
Proof.
  intros Q Hnf. pose proof (QInv_strict s Q) as Hstrict. destruct Q as [W N].
  set (s0 := mkS (height s + 1) (objs s) (hq s) (refunds s)).
  assert (QInvW s0) as W0.
  { destruct W as [Wn We Wo Wf Wc Wl Wln Wr Wk]. constructor; simpl; auto.
    intros h id Hin. specialize (Hstrict _ _ Hin). lia. }
  destruct (refund_all_spec fails (map snd (due (height s + 1) (hq s))) s0 W0) as (s' & E & W' & Hh & Hq).
  - apply NoDup_due_ids. exact (qi_nodup s W).
  - intros id Hin. apply in_map_iff in Hin. destruct Hin as ([h i] & Hf & Hin). simpl in Hf. subst i.
    apply In_due in Hin. simpl in *. destruct Hin as [-> Hin]. exact Hin.
  - intros id Hin. apply Hnf. apply in_map_iff in Hin. destruct Hin as ([h i] & Hf & Hin). simpl in Hf. subst i.
    apply In_due in Hin. simpl in *. destruct Hin as [-> Hin]. exact Hin.
  - exists s'. unfold begin_block. fold s0. split; [exact E|]. split; [|exact Hh].
    split; [exact W'|]. intros id Hin. apply Hq in Hin. destruct Hin as [Hin Hn]. simpl in *.
    apply Hn. split; [exact Hh|]. apply in_map_iff. exists (height s', id). split; [reflexivity|].
    apply In_due. simpl. rewrite Hh. split; [reflexivity|]. rewrite Hh in Hin. exact Hin.
Qed.

(** ** Histories *)
Definition op_clean (o : op) : Prop := match o with BeginBlock fails => fails = [] | _ => True end.

Lemma step_inv s o : QInv s -> op_clean o -> QInv (fst (step s o)).
Proof.
  intros Q Hc. destruct o as [id tl tr n ok|id ok|fails]; simpl.
  - apply create_inv; exact Q.
  - apply claim_inv; exact Q.
  - simpl in Hc. subst fails.
    destruct (begin_block_inv s [] Q) as (s' & E & Q' & _); [reflexivity|]. rewrite E. exact Q'.
Qed.

Lemma run_inv : forall ops s, QInv s -> Forall op_clean ops -> QInv (run s ops).
Proof.
  induction ops as [|o ops IH]; simpl; intros s Q Hc; [exact Q|].
  inversion Hc; subst. apply IH; [apply step_inv; assumption|assumption].
Qed.

Theorem QInv_reachable h0 ops : Forall op_clean ops -> QInv (run (init h0) ops).
Proof. intros Hc. apply run_inv; [apply QInv_init|exact Hc]. Qed.

(** the begin-blocker never aborts on a state satisfying the invariant, whatever refunds fail *)
Lemma refund_all_total fails : forall ids s,
  (forall id o, get id (objs s) = Some o -> h_transfer o = true -> h_ncoins o = 1) ->
  refund_all fails s ids <> None.
Proof.
  induction ids as [|id ids IH]; intros s Hc; simpl; [discriminate|].
  unfold refund_one. destruct (get id (objs s)) as [o|] eqn:Hg.
  - assert (h_transfer o && (h_ncoins o <? 1) = false) as Hna.
    { destruct (h_transfer o) eqn:Htr; [|reflexivity]. rewrite (Hc _ _ Hg Htr). reflexivity. }
    rewrite Hna. destruct (existsb (Z.eqb id) fails); apply IH; simpl; auto.
    intros id' o'. rewrite get_set_cases. destruct (eq_dec id' id) as [->|]; [|apply Hc].
    intros Ho Htr. inversion Ho; subst; simpl in *. eapply Hc; eauto.
  - apply IH; simpl; auto.
Qed.

Theorem blocks_total_htlc s fails : QInv s -> snd (step s (BeginBlock fails)) <> Abort.
Proof.
  intros [W _]. simpl. destruct (begin_block s fails) eqn:E; simpl; [discriminate|].
  exfalso. revert E. apply refund_all_total. simpl. exact (qi_coins s W).
Qed.

(** every refund is logged with the height of the block that performed it; on every
    reachable state: a contract is refunded at most once in the whole history, in the block of
    its expiration height and in no other; refunded contracts are exactly the logged ones;
    and no contract whose expiration height has been reached is still open. *)
Theorem processed_exactly_once_htlc h0 ops :
  Forall op_clean ops ->
  let s := run (init h0) ops in
  NoDup (map fst (refunds s))
  /\ (forall id h, In (id, h) (refunds s) ->
        exists o, get id (objs s) = Some o /\ h_status o = HRefunded /\ h_expire o = h /\ h_closed o = h)
  /\ (forall id o, get id (objs s) = Some o -> h_status o = HRefunded -> In (id, h_expire o) (refunds s))
  /\ (forall id o, get id (objs s) = Some o -> h_status o = HOpen -> height s < h_expire o).
Proof.
  intros Hc s. pose proof (QInv_reachable h0 ops Hc) as Q. fold s in Q.
  pose proof (QInv_strict s Q) as Hs. destruct Q as [W N].
  split; [exact (qi_log_nodup s W)|]. split; [exact (qi_log s W)|]. split; [exact (qi_refunded s W)|].
  intros id o Hg Ho. apply (Hs _ id). apply (qi_open s W); assumption.
Qed.

(** "exactly one entry": the entries of a contract are at most one, and an open one has one *)
Theorem one_entry_per_open_htlc s : QInv s ->
  forall id o, get id (objs s) = Some o -> h_status o = HOpen ->
    In (h_expire o, id) (hq s) /\ forall h, In (h, id) (hq s) -> h = h_expire o.
Proof.
  intros [W _] id o Hg Ho. split; [apply (qi_open s W); assumption|].
  intros h Hin. destruct (qi_entry s W _ _ Hin) as (o' & Hg' & _ & He). congruence.
Qed.

(** A swallowed refund error dequeues without processing: the invariant is lost.  (Such an
    error is not reachable as long as the escrow covers the open contracts: property C03.) *)
Theorem failing_refund_breaks_QInv :
  exists ops, ~ QInv (run (init 1) ops).
Proof.
  exists (Create 7 50 false 1 true :: repeat (BeginBlock []) 49 ++ [BeginBlock [7]]).
  intros [W _].
  assert (get 7 (objs (run (init 1) (Create 7 50 false 1 true :: repeat (BeginBlock []) 49 ++ [BeginBlock [7]])))
          = Some (mkH HOpen 51 0 false 1)) as Hg by (vm_compute; reflexivity).
  pose proof (qi_open _ W 7 _ Hg eq_refl) as Hin. vm_compute in Hin. exact Hin.
Qed.
