(** * Queues (C13): shared substrate of the four queue-focused models.

    A queue is the set of keys [(height, id)] of one store prefix (big-endian height ‖ id).
    [store.Set] on an existing key and [store.Delete] on an absent key are no-ops, which is
    what [enq] / [deq] do.  Everything is executable; lemmas are closed under the global
    context. *)
From Irismod Require Export Base.Prelude.

Definition entry := (Z * Z)%type.                 (* (height, id) *)
Definition queue := list entry.

Definition ememb (e : entry) (q : queue) : bool := existsb (fun x => eqb x e) q.
Definition enq (e : entry) (q : queue) : queue := if ememb e q then q else q ++ [e].
Definition deq (e : entry) (q : queue) : queue := filter (fun x => negb (eqb x e)) q.
(** entries due at height [h], in store order of the list *)
Definition due (h : Z) (q : queue) : queue := filter (fun x => fst x =? h) q.

Lemma ememb_In e q : ememb e q = true <-> In e q.
Proof.
  unfold ememb. rewrite existsb_exists. split.
  - intros (x & Hin & Hx). apply (proj1 (eqb_true_iff _ _)) in Hx. subst. exact Hin.
  - intros Hin. exists e. split; [exact Hin|apply eqb_refl].
Qed.

Lemma In_enq x e q : In x (enq e q) <-> x = e \/ In x q.
Proof.
  unfold enq. destruct (ememb e q) eqn:E.
  - apply ememb_In in E. split; [tauto|]. intros [->|H]; assumption.
  - rewrite in_app_iff. simpl. split; [intros [H|[H|[]]]; auto|intros [H|H]; auto].
Qed.

Lemma In_deq x e q : In x (deq e q) <-> x <> e /\ In x q.
Proof.
  unfold deq. rewrite filter_In. split.
  - intros (Hin & Hne). split; [|exact Hin]. intros ->. rewrite eqb_refl in Hne. discriminate.
  - intros (Hne & Hin). split; [exact Hin|].
    destruct (eqb x e) eqn:E; [|reflexivity]. apply (proj1 (eqb_true_iff _ _)) in E. contradiction.
Qed.

Lemma In_due x h q : In x (due h q) <-> fst x = h /\ In x q.
Proof. unfold due. rewrite filter_In. rewrite Z.eqb_eq. tauto. Qed.

Lemma NoDup_filter {A} (p : A -> bool) l : NoDup l -> NoDup (filter p l).
Proof.
  induction 1 as [|x l Hn Hnd IH]; simpl; [constructor|].
  destruct (p x); [|exact IH]. constructor; [|exact IH].
  intros Hin. apply filter_In in Hin. tauto.
Qed.

Lemma NoDup_enq e q : NoDup q -> NoDup (enq e q).
Proof.
  intros Hnd. unfold enq. destruct (ememb e q) eqn:E; [exact Hnd|].
  assert (~ In e q) as Hn by (intros Hin; apply ememb_In in Hin; congruence).
  clear E. induction Hnd as [|x l Hx Hnd IH]; simpl.
  - constructor; [simpl; tauto|constructor].
  - constructor.
    + rewrite in_app_iff. simpl. intros [H|[H|[]]]; [contradiction|]. subst. apply Hn. left. reflexivity.
    + apply IH. intros H. apply Hn. right. exact H.
Qed.

Lemma NoDup_deq e q : NoDup q -> NoDup (deq e q).
Proof. apply NoDup_filter. Qed.

Lemma NoDup_due h q : NoDup q -> NoDup (due h q).
Proof. apply NoDup_filter. Qed.

(** set comparison of two duplicate-free lists, used by the correspondence checks *)
Definition subsetb {A} `{EqDec A} (a b : list A) : bool :=
  forallb (fun x => existsb (fun y => eqb x y) b) a.
Definition seteqb {A} `{EqDec A} (a b : list A) : bool :=
  subsetb a b && subsetb b a && (Z.of_nat (length a) =? Z.of_nat (length b)).
Fixpoint nodupb {A} `{EqDec A} (l : list A) : bool :=
  match l with [] => true | x :: l' => negb (existsb (fun y => eqb x y) l') && nodupb l' end.

(** [get] after a conditional update, the form every invariant proof needs *)
Lemma get_set_cases {K V} `{EqDec K} (k k' : K) (v : V) m :
  get k' (set k v m) = if eq_dec k' k then Some v else get k' m.
Proof.
  destruct (eq_dec k' k) as [->|Hne]; [apply get_set_same|apply get_set_other; exact Hne].
Qed.

Lemma get_del_cases {K V} `{EqDec K} (k k' : K) (m : amap K V) :
  get k' (del k m) = if eq_dec k' k then None else get k' m.
Proof.
  destruct (eq_dec k' k) as [->|Hne]; [apply get_del_same|apply get_del_other; exact Hne].
Qed.

(** first failing clause of a list of (clause code, holds) pairs, or 0 *)
Fixpoint first_bad (l : list (Z * bool)) : Z :=
  match l with [] => 0 | (c, b) :: l' => if b then first_bad l' else c end.

Lemma NoDup_app_one {A} (l : list A) x : NoDup l -> ~ In x l -> NoDup (l ++ [x]).
Proof.
  induction 1 as [|y l Hy Hnd IH]; simpl; intros Hn.
  - constructor; [simpl; tauto|constructor].
  - constructor.
    + rewrite in_app_iff. simpl. intros [H|[H|[]]]; [contradiction|]. subst. apply Hn. left. reflexivity.
    + apply IH. intros H. apply Hn. right. exact H.
Qed.

Lemma NoDup_map_on {A B} (f : A -> B) (l : list A) :
  NoDup l -> (forall x y, In x l -> In y l -> f x = f y -> x = y) -> NoDup (map f l).
Proof.
  induction 1 as [|x l Hx Hnd IH]; simpl; intros Hinj; [constructor|].
  constructor.
  - intros Hin. apply in_map_iff in Hin. destruct Hin as (y & Hf & Hy).
    assert (y = x) by (apply Hinj; auto). subst. contradiction.
  - apply IH. intros a b Ha Hb. apply Hinj; auto.
Qed.

Lemma NoDup_due_ids h q : NoDup q -> NoDup (map snd (due h q)).
Proof.
  intros Hnd. apply NoDup_map_on; [apply NoDup_due; exact Hnd|].
  intros [h1 i1] [h2 i2] H1 H2 Heq. apply In_due in H1. apply In_due in H2. simpl in *.
  destruct H1 as [-> _]. destruct H2 as [-> _]. congruence.
Qed.

(** ** association lists: a few more facts *)
Lemma get_filter_key {K V} `{EqDec K} (pk : K -> bool) (k : K) (m : amap K V) :
  get k (filter (fun kv => pk (fst kv)) m) = if pk k then get k m else None.
Proof.
  induction m as [|[k0 v0] m IH]; simpl; [destruct (pk k); reflexivity|].
  destruct (pk k0) eqn:E0; simpl.
  - destruct (eq_dec k k0) as [->|Hne]; [rewrite E0; reflexivity|exact IH].
  - destruct (eq_dec k k0) as [->|Hne]; [rewrite E0 in *; exact IH|exact IH].
Qed.

Lemma NoDup_keys_filter {K V} (p : K * V -> bool) (m : list (K * V)) :
  NoDup (map fst m) -> NoDup (map fst (filter p m)).
Proof.
  induction m as [|[k v] m IH]; simpl; intros Hnd; [constructor|].
  inversion Hnd as [|? ? Hn Hnd']; subst. destruct (p (k, v)); simpl; [|auto].
  constructor; [|auto]. intros Hin. apply Hn. apply in_map_iff in Hin.
  destruct Hin as (x & Hx & Hin). apply filter_In in Hin. apply in_map_iff. exists x. tauto.
Qed.

Lemma In_get_some {K V} `{EqDec K} (k : K) (v : V) (m : amap K V) :
  In (k, v) m -> exists v', get k m = Some v'.
Proof.
  induction m as [|[k0 v0] m IH]; simpl; [tauto|].
  intros [Heq|Hin]; destruct (eq_dec k k0) as [->|Hne]; eauto. congruence.
Qed.

Lemma NoDup_app_disj {A} (a b : list A) :
  NoDup a -> NoDup b -> (forall x, In x a -> ~ In x b) -> NoDup (a ++ b).
Proof.
  induction 1 as [|x a Hx Hnd IH]; simpl; intros Hb Hd; [exact Hb|].
  constructor.
  - rewrite in_app_iff. intros [H|H]; [contradiction|]. exact (Hd x (or_introl eq_refl) H).
  - apply IH; [exact Hb|]. intros y Hy. apply Hd. right. exact Hy.
Qed.

(** ** facts used by the soundness lemmas of the check predicates *)
Lemma keys_del_NoDup {K V} `{EqDec K} (k : K) (m : amap K V) : NoDup (keys m) -> NoDup (keys (del k m)).
Proof.
  unfold keys. induction m as [|[k0 v0] m IH]; simpl; intros Hnd; [constructor|].
  inversion Hnd as [|? ? Hn Hnd']; subst. destruct (eq_dec k k0) as [->|Hne]; [auto|]. simpl.
  constructor; [|auto]. intros Hin. apply Hn. clear - Hin. induction m as [|[k1 v1] m IH]; simpl in *; [exact Hin|].
  destruct (eq_dec k k1); simpl in *; tauto.
Qed.

Lemma In_get {K V} `{EqDec K} (k : K) (v : V) (m : amap K V) : NoDup (keys m) -> In (k, v) m -> get k m = Some v.
Proof.
  unfold keys. induction m as [|[k0 v0] m IH]; simpl; intros Hnd Hin; [contradiction|].
  inversion Hnd as [|? ? Hn Hnd']; subst. destruct Hin as [Heq|Hin].
  - inversion Heq; subst. destruct (eq_dec k k); [reflexivity|congruence].
  - destruct (eq_dec k k0) as [->|Hne]; [|auto]. exfalso. apply Hn. apply in_map_iff. exists (k0, v). auto.
Qed.

Lemma get_map_val {K V W} `{EqDec K} (f : V -> W) (k : K) (m : amap K V) :
  get k (map (fun kv => (fst kv, f (snd kv))) m) = option_map f (get k m).
Proof.
  induction m as [|[k0 v0] m IH]; simpl; [reflexivity|]. destruct (eq_dec k k0); [reflexivity|exact IH].
Qed.

Lemma nodupb_NoDup {A} `{EqDec A} (l : list A) : NoDup l -> nodupb l = true.
Proof.
  induction 1 as [|x l Hn Hnd IH]; simpl; [reflexivity|]. rewrite IH, andb_true_r. apply negb_true_iff.
  destruct (existsb (fun y => eqb x y) l) eqn:E; [|reflexivity]. exfalso. apply existsb_exists in E.
  destruct E as (y & Hy & Hxy). apply (proj1 (eqb_true_iff _ _)) in Hxy. subst. contradiction.
Qed.
