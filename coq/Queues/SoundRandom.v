(** * Queues / random: the static part of clause 22 of the check predicate is a consequence of
    [QInv] — on the projection of any reachable model state it evaluates to [true]. *)
From Irismod Require Import Queues.CheckRandom Queues.ProofsRandom.

Definition obs_of (s : state) : robs := mkRObs 0 (height s) (rq s) (randoms s) (oreqs s) [].

Theorem hygiene_clause_holds_on_QInv s : QInv s -> rhyg (obs_of s) = true.
Proof.
  intros Q. unfold rhyg, obs_of. simpl. apply andb_true_iff. split.
  - apply nodupb_NoDup. exact (r_nodup s Q).
  - apply forallb_forall. intros [k v] Hin. simpl. apply Z.leb_le.
    apply (r_future s Q k v). apply In_get; [exact (r_nodup s Q)|exact Hin].
Qed.

Corollary hygiene_clause_holds_on_every_history h0 ops : rhyg (obs_of (run (init h0) ops)) = true.
Proof. apply hygiene_clause_holds_on_QInv. apply QInv_reachable. Qed.
